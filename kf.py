#!/usr/bin/env python3
"""kf.py fixed <PROP> <key-substring> <commit> : mark matching open findings (in known_findings.json and known_findings.d/) as fixed.
   kf.py merge : fold known_findings.d/*.json into known_findings.json (and delete the fragments)."""
import json, sys, glob, os
ROOT=os.path.dirname(os.path.abspath(__file__))
def load(p):
    return json.load(open(p)) if os.path.exists(p) else {"findings":[]}
def save(p,d):
    json.dump(d,open(p,'w'),indent=1); open(p,'a').write('\n')  # keeps every top-level key of d (e.g. 'about')
if sys.argv[1]=='fixed':
    prop,sub,commit=sys.argv[2:5]
    for p in [ROOT+'/known_findings.json']+glob.glob(ROOT+'/known_findings.d/*.json'):
        d=load(p); ch=False
        for f in d['findings']:
            if f['property']==prop and sub in f['key'] and f['status']=='open':
                f['status']='fixed:'+commit
                f['record']=f"fixed: property={prop} {commit} {f['key']}"
                ch=True
        if ch: save(p,d)
elif sys.argv[1]=='merge':
    main=load(ROOT+'/known_findings.json')
    keys={(f['property'],f['key']) for f in main['findings']}
    for p in sorted(glob.glob(ROOT+'/known_findings.d/*.json')):
        for f in load(p)['findings']:
            if (f['property'],f['key']) not in keys:
                main['findings'].append(f); keys.add((f['property'],f['key']))
        os.remove(p)
    save(ROOT+'/known_findings.json',main)

#!/bin/bash
# Offline build of the harness (all check binaries) against /repo's working tree.
cd "$(dirname "$(readlink -f "$0")")" || exit 1
unset GOFLAGS GOTOOLCHAIN GOSUMDB
export GOPROXY=off GOWORK="$PWD/go.work"
mkdir -p bin evidence replay
go build -tags verif ./harness/... || exit 1
echo setup ok

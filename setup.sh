#!/bin/bash
# Offline build of the harness: every check registered in MANIFEST.json, against /repo's working tree.
cd "$(dirname "$(readlink -f "$0")")" || exit 1
unset GOFLAGS GOTOOLCHAIN GOSUMDB
export GOPROXY=off GOWORK="$PWD/go.work"
mkdir -p bin evidence replay
rc=0
for id in $(python3 -c "import json;print(' '.join(c['property_id'].lower() for c in json.load(open('MANIFEST.json'))['checks']))"); do
  go build -tags verif -o "bin/$id" "./harness/checks/$id" || rc=1
  if [ -f "harness/checks/$id/RACE" ]; then go build -race -tags verif -o "bin/$id.race" "./harness/checks/$id" || rc=1; fi
done
[ $rc = 0 ] && echo setup ok
exit $rc

package main

// The workload side of C07: real MPCalContexts running a hand-built archetype (written the way the
// code generator writes archetypes) over real LocalSharedManager variables, wired directly, behind
// resources.Persistent and behind resources.IncMap the way systems/raftkvs/bootstrap/server.go does.

import (
	"bytes"
	"encoding/gob"
	"errors"
	"fmt"
	"hash/fnv"
	"math/rand"
	"os"
	"runtime"
	"strconv"
	"strings"
	"sync"
	"sync/atomic"
	"time"

	"github.com/DistCompiler/pgo/distsys"
	"github.com/DistCompiler/pgo/distsys/resources"
	"github.com/DistCompiler/pgo/distsys/tla"
	"github.com/DistCompiler/pgo/distsys/trace"
	"github.com/dgraph-io/badger/v3"
)

// ---- generated case ------------------------------------------------------------------------------

type VarSpec struct {
	Kind      string `json:"kind"`  // list | fn | acct | reg
	Cells     int    `json:"cells"` // fn: number of indices
	Wrap      string `json:"wrap"`  // direct | persistent | incmap | incmap+persistent
	TimeoutMs int    `json:"timeout_ms"`
}

type Op struct {
	K  string `json:"k"` // r: read cell, a: read-then-append, w: blind write of a unique id (reg), t: transfer V->V2 by D, s: read every account
	V  int    `json:"v"`
	J  int    `json:"j,omitempty"`
	V2 int    `json:"v2,omitempty"`
	D  int    `json:"d,omitempty"`
}

type Section struct {
	Ops           []Op   `json:"ops"`
	FaultAttempts int    `json:"fault_attempts,omitempty"` // the first n attempts of this section abort by injection
	FaultKind     string `json:"fault_kind,omitempty"`     // body | precommit
	FaultPos      int    `json:"fault_pos,omitempty"`      // body: before op FaultPos (== len(ops): after the last op)
}

type Case struct {
	Idx      int         `json:"idx"`
	Mode     string      `json:"mode"` // behav | race
	Seed     int64       `json:"seed"`
	Vars     []VarSpec   `json:"vars"`
	NAcct    int         `json:"n_acct"`
	Plans    [][]Section `json:"-"`
	NCtx     int         `json:"n_ctx"`
	Sections int         `json:"sections"`
	Observer bool        `json:"observer"`
	Disrupt  string      `json:"disrupt,omitempty"` // PGO_DISRUPT_CONCURRENCY for the child
	Heavy    bool        `json:"heavy_perturbation"`
	Directed string      `json:"directed,omitempty"`
}

// Directed cases: opposite / cyclic acquisition orders over managers whose timeout setting is 0 or
// negative (alone, and next to a manager with a positive timeout), so that "a section that cannot get
// access aborts instead of blocking" is exercised for those settings in every run.
const directedBase = 1000

func genDirected(seed int64, idx int, mode string) Case {
	variant := idx - directedBase
	rng := rand.New(rand.NewSource(seed*6151 + int64(idx)*389))
	c := Case{Idx: idx, Mode: mode, Seed: seed, Observer: variant%2 == 0}
	type spec struct {
		name  string
		nctx  int
		vars  []VarSpec
		order func(ci int) []int // managers touched by context ci, in order
	}
	specs := []spec{
		{"opposite-orders-timeout-0", 2, []VarSpec{{Kind: kindList, Cells: 1, Wrap: "direct"}, {Kind: kindList, Cells: 1, Wrap: "direct"}},
			func(ci int) []int { return [][]int{{0, 1}, {1, 0}}[ci%2] }},
		{"cyclic-orders-timeout-0-wrapped", 3, []VarSpec{{Kind: kindList, Cells: 1, Wrap: "incmap"}, {Kind: "fn", Cells: 2, Wrap: "persistent"}, {Kind: kindReg, Cells: 1, Wrap: "incmap+persistent"}},
			func(ci int) []int { return [][]int{{0, 1, 2}, {1, 2, 0}, {2, 0, 1}}[ci%3] }},
		{"zero-timeout-pair-next-to-positive-timeout", 4, []VarSpec{{Kind: kindList, Cells: 1, Wrap: "direct", TimeoutMs: 3}, {Kind: kindList, Cells: 1, Wrap: "direct"}, {Kind: kindList, Cells: 1, Wrap: "incmap"}},
			func(ci int) []int { return [][]int{{1, 2}, {2, 1}, {0, 1}, {0}}[ci%4] }},
		{"opposite-orders-negative-timeout", 2, []VarSpec{{Kind: kindList, Cells: 1, Wrap: "direct", TimeoutMs: -1}, {Kind: kindReg, Cells: 1, Wrap: "direct", TimeoutMs: -1}},
			func(ci int) []int { return [][]int{{0, 1}, {1, 0}}[ci%2] }},
	}
	sp := specs[variant%len(specs)]
	c.Directed = sp.name
	c.NCtx = sp.nctx
	c.Vars = sp.vars
	per := 40
	if mode == "race" {
		per = 15
	}
	for ci := 0; ci < c.NCtx; ci++ {
		var plan []Section
		for k := 0; k < per; k++ {
			var s Section
			for _, v := range sp.order(ci) {
				op := Op{K: "a", V: v}
				switch c.Vars[v].Kind {
				case kindReg:
					op.K = "w"
				case "fn":
					op.J = 1 + rng.Intn(c.Vars[v].Cells)
				}
				if rng.Intn(5) == 0 && op.K == "a" {
					op.K = "r"
				}
				s.Ops = append(s.Ops, op)
			}
			if rng.Intn(10) == 0 {
				s.FaultAttempts, s.FaultKind, s.FaultPos = 1, "body", rng.Intn(len(s.Ops)+1)
			}
			plan = append(plan, s)
		}
		c.Plans = append(c.Plans, plan)
		c.Sections += len(plan)
	}
	return c
}

var timeoutChoices = []int{1, 1, 2, 2, 3, 5, 8, 13, 21, 50}

// pickTimeout draws a lock-timeout setting in ms. 0 (what the raft bootstraps pass when the YAML has no
// sharedResourceTimeout key) and a negative value are ordinary settings: "try once, abort if taken".
func pickTimeout(rng *rand.Rand, nonPositiveOneIn int) int {
	if rng.Intn(nonPositiveOneIn) == 0 {
		if rng.Intn(3) == 0 {
			return -1
		}
		return 0
	}
	return timeoutChoices[rng.Intn(len(timeoutChoices))]
}

func genCase(seed int64, idx int, mode string, thorough bool) Case {
	if idx >= directedBase {
		return genDirected(seed, idx, mode)
	}
	rng := rand.New(rand.NewSource(seed*7919 + int64(idx)*104729 + int64(len(mode))))
	c := Case{Idx: idx, Mode: mode, Seed: seed}
	c.NCtx = 2 + rng.Intn(7)
	nMgr := 1 + rng.Intn(6)
	if nMgr >= 2 && rng.Intn(3) == 0 {
		c.NAcct = 2
		if nMgr >= 3 && rng.Intn(2) == 0 {
			c.NAcct = 3
		}
	}
	base := pickTimeout(rng, 7)
	maxTO := 0
	for v := 0; v < nMgr; v++ {
		vs := VarSpec{Kind: kindList, Cells: 1, TimeoutMs: base}
		if v < c.NAcct {
			vs.Kind = kindAcct
		} else if x := rng.Intn(20); x < 7 {
			vs.Kind = "fn"
			vs.Cells = 2 + rng.Intn(3)
		} else if x < 11 {
			vs.Kind = kindReg
		}
		switch x := rng.Intn(100); {
		case x < 40:
			vs.Wrap = "direct"
		case x < 65:
			vs.Wrap = "incmap"
		case x < 80:
			vs.Wrap = "persistent"
		default:
			vs.Wrap = "incmap+persistent"
		}
		if rng.Intn(5) == 0 {
			vs.TimeoutMs = pickTimeout(rng, 4)
		}
		if vs.TimeoutMs > maxTO {
			maxTO = vs.TimeoutMs
		}
		c.Vars = append(c.Vars, vs)
	}
	total := 320
	switch {
	case maxTO > 20:
		total = 72
	case maxTO > 5:
		total = 160
	}
	if mode == "race" {
		total /= 4
	}
	per := total / c.NCtx
	if per < 12 {
		per = 12
	}
	c.Observer = rng.Intn(4) != 0
	c.Heavy = rng.Intn(3) == 0
	if mode == "behav" && rng.Intn(6) == 0 {
		c.Disrupt = []string{"10us", "30us", "80us"}[rng.Intn(3)]
		per = per / 3
	}
	// list cells
	type cellRef struct{ v, j int }
	var lcells []cellRef
	for v, vs := range c.Vars {
		switch vs.Kind {
		case kindList, kindReg:
			lcells = append(lcells, cellRef{v, 0})
		case "fn":
			for j := 1; j <= vs.Cells; j++ {
				lcells = append(lcells, cellRef{v, j})
			}
		}
	}
	for ci := 0; ci < c.NCtx; ci++ {
		var plan []Section
		for k := 0; k < per; k++ {
			var s Section
			x := rng.Intn(100)
			switch {
			case c.NAcct > 0 && (x < 22 || len(lcells) == 0 && x < 85):
				a := rng.Intn(c.NAcct)
				b := (a + 1 + rng.Intn(c.NAcct-1)) % c.NAcct
				s.Ops = append(s.Ops, Op{K: "t", V: a, V2: b, D: 1 + rng.Intn(9)})
				if len(lcells) > 0 && rng.Intn(3) == 0 {
					lc := lcells[rng.Intn(len(lcells))]
					op := Op{K: "a", V: lc.v, J: lc.j}
					if c.Vars[lc.v].Kind == kindReg {
						op.K = "w"
					}
					if rng.Intn(2) == 0 {
						s.Ops = append(s.Ops, op)
					} else {
						s.Ops = append([]Op{op}, s.Ops...)
					}
				}
			case c.NAcct > 0 && (x < 32 || len(lcells) == 0):
				s.Ops = append(s.Ops, Op{K: "s"})
				if len(lcells) > 0 && rng.Intn(3) == 0 {
					lc := lcells[rng.Intn(len(lcells))]
					s.Ops = append(s.Ops, Op{K: "r", V: lc.v, J: lc.j})
				}
			default:
				n := 1 + rng.Intn(4)
				if n > len(lcells) {
					n = len(lcells)
				}
				perm := rng.Perm(len(lcells))[:n]
				switch rng.Intn(4) {
				case 0: // fixed opposite orders: even contexts ascend, odd contexts descend
					sortInts(perm)
					if ci%2 == 1 {
						for i, j := 0, len(perm)-1; i < j; i, j = i+1, j-1 {
							perm[i], perm[j] = perm[j], perm[i]
						}
					}
				}
				readOnly := x >= 88
				for _, p := range perm {
					lc := lcells[p]
					k := "a"
					if readOnly || rng.Intn(10) < 3 {
						k = "r"
					} else if c.Vars[lc.v].Kind == kindReg {
						k = "w"
					}
					s.Ops = append(s.Ops, Op{K: k, V: lc.v, J: lc.j})
				}
				if rng.Intn(6) == 0 { // read something again at the end (repeatable read / read-own-write)
					o := s.Ops[rng.Intn(len(s.Ops))]
					s.Ops = append(s.Ops, Op{K: "r", V: o.V, J: o.J})
				}
				if rng.Intn(12) == 0 { // second append to a cell already appended to
					o := s.Ops[rng.Intn(len(s.Ops))]
					if o.K == "a" || o.K == "w" {
						s.Ops = append(s.Ops, o)
					}
				}
			}
			if rng.Intn(100) < 12 {
				s.FaultAttempts = 1 + rng.Intn(2)
				if rng.Intn(10) < 7 {
					s.FaultKind = "body"
					s.FaultPos = rng.Intn(len(s.Ops) + 1)
				} else {
					s.FaultKind = "precommit"
				}
			}
			plan = append(plan, s)
		}
		c.Plans = append(c.Plans, plan)
		c.Sections += len(plan)
	}
	return c
}

func sortInts(a []int) {
	for i := 1; i < len(a); i++ {
		for j := i; j > 0 && a[j-1] > a[j]; j-- {
			a[j-1], a[j] = a[j], a[j-1]
		}
	}
}

// ---- run-time state --------------------------------------------------------------------------------

type rawSec struct {
	ctx                 int
	uid                 int32
	k                   int
	begin, commit, done int64
	elems               []trace.Element
	abortKind           string
}

type ctxState struct {
	idx       int
	plan      []Section
	rng       *rand.Rand
	attempt   int32
	lastK     int
	secTries  int
	cur       *rawSec
	cause     string
	flt       *faultRes
	capped    bool
	maxTries  int32
	lockWaits int // tryEnsureLock calls that had to acquire
	timeouts  int // ... that timed out
	local     []*rawSec
	localAb   []*rawSec

	// H8 view (behavioural mode only; atomics so that the monitor goroutine may look)
	parked    atomic.Int64 // id of the tryEnsureLock call the sharer is inside of (without the lock), 0 if none
	parkedMgr atomic.Int32
	held      atomic.Uint64 // managers acquired in the current attempt (bit set)
	callSeq   int64
	finished  atomic.Bool
	goid      atomic.Int64 // id of the goroutine running this context (to find its state in a dump)
}

type faultRes struct {
	distsys.ArchetypeResourceLeafMixin
	armed bool
}

func (r *faultRes) Abort(distsys.ArchetypeInterface) chan struct{} { r.armed = false; return nil }
func (r *faultRes) PreCommit(distsys.ArchetypeInterface) chan error {
	ch := make(chan error, 1)
	if r.armed {
		r.armed = false
		ch <- distsys.ErrCriticalSectionAborted
	} else {
		ch <- nil
	}
	return ch
}
func (r *faultRes) Commit(distsys.ArchetypeInterface) chan struct{} { return nil }
func (r *faultRes) ReadValue(distsys.ArchetypeInterface) (tla.Value, error) {
	return tla.ModuleTRUE, nil
}
func (r *faultRes) WriteValue(distsys.ArchetypeInterface, tla.Value) error {
	r.armed = true
	return nil
}
func (r *faultRes) Close() error { return nil }

type varRT struct {
	spec  VarSpec
	mgr   *resources.LocalSharedManager
	cells []int // cell index per j (index 0 unused for fn; [0] for plain)
}

type rawSample struct {
	mgr int
	val tla.Value
}

type world struct {
	c       Case
	light   bool // race mode: no harness-side synchronisation between sharers
	vars    []varRT
	cells   []Cell
	mgrCell [][]int
	states  []*ctxState
	byCtx   map[*distsys.MPCalContext]*ctxState
	bySh    map[distsys.ArchetypeResource]*ctxState
	mgrIdx  map[*resources.LocalSharedManager]int

	mu       sync.Mutex
	seq      int64
	secs     []*rawSec
	aborts   []*rawSec
	progress atomic.Int64

	samples  []rawSample // observer-local until the observer has stopped
	runErrs  []string
	runErrMu sync.Mutex
}

const procID = 1 // index used by the IncMap wrapping, as raftkvs uses srvId

const archName = "ASharer"

func perturb(rng *rand.Rand, heavy bool, timeout time.Duration) {
	x := rng.Intn(100)
	lim := 30
	if heavy {
		lim = 50
	}
	switch {
	case x < lim:
		for n := 1 + rng.Intn(4); n > 0; n-- {
			runtime.Gosched()
		}
	case x < lim+4:
		time.Sleep(time.Duration(20+rng.Intn(200)) * time.Microsecond)
	case x < lim+5 && heavy:
		d := timeout + timeout/4
		if d > 4*time.Millisecond {
			d = 4 * time.Millisecond
		}
		time.Sleep(d)
	}
}

func (w *world) cellOf(v, j int) int { return w.vars[v].cells[j] }

func (w *world) indices(v, j int) []tla.Value {
	var idx []tla.Value
	if strings.HasPrefix(w.vars[v].spec.Wrap, "incmap") {
		idx = append(idx, tla.MakeNumber(procID))
	}
	if w.vars[v].spec.Kind == "fn" {
		idx = append(idx, tla.MakeNumber(int32(j)))
	}
	return idx
}

// body is the critical section ASharer.sec, written like generated code: resources through
// RequireArchetypeResourceRef, progress in the archetype-local variable k, Goto at the end.
func (w *world) body(st *ctxState) func(distsys.ArchetypeInterface) error {
	maxTO := time.Duration(0)
	for _, v := range w.vars {
		if d := time.Duration(v.spec.TimeoutMs) * time.Millisecond; d > maxTO {
			maxTO = d
		}
	}
	return func(iface distsys.ArchetypeInterface) error {
		var err error
		_ = err
		st.cur = nil
		kRes := iface.RequireArchetypeResource(archName + ".k")
		kVal, err := iface.Read(kRes, nil)
		if err != nil {
			return err
		}
		k := int(kVal.AsNumber())
		if k >= len(st.plan) || st.attempt >= st.maxTries {
			if k < len(st.plan) {
				st.capped = true
			}
			return iface.Goto(archName + ".Done")
		}
		sec := &st.plan[k]
		st.attempt++
		if k != st.lastK {
			st.lastK, st.secTries = k, 0
		}
		st.secTries++
		uid := int32(st.idx)<<22 | st.attempt
		st.cur = &rawSec{ctx: st.idx, uid: uid, k: k}
		st.cause = ""
		if !w.light {
			st.held.Store(0)
			w.mu.Lock()
			w.seq++
			st.cur.begin = w.seq
			w.mu.Unlock()
			w.progress.Add(1)
		}
		inject := st.secTries <= sec.FaultAttempts
		wn := int32(0)
		fail := func(e error) error {
			if errors.Is(e, distsys.ErrCriticalSectionAborted) && st.cause == "" {
				st.cause = "timeout"
			}
			return e
		}
		appendTo := func(v, j int) error {
			h, err := iface.RequireArchetypeResourceRef(fmt.Sprintf("%s.v%d", archName, v))
			if err != nil {
				return fail(err)
			}
			idx := w.indices(v, j)
			old, err := iface.Read(h, idx)
			if err != nil {
				return fail(err)
			}
			perturb(st.rng, w.c.Heavy, maxTO)
			id := uid<<4 | wn
			wn++
			return fail(iface.Write(h, idx, tla.ModuleAppend(old, tla.MakeNumber(id))))
		}
		readCell := func(v, j int) (tla.Value, error) {
			h, err := iface.RequireArchetypeResourceRef(fmt.Sprintf("%s.v%d", archName, v))
			if err != nil {
				return tla.Value{}, fail(err)
			}
			val, err := iface.Read(h, w.indices(v, j))
			return val, fail(err)
		}
		for i, op := range sec.Ops {
			if inject && sec.FaultKind == "body" && sec.FaultPos == i {
				st.cause = "fault-body"
				return distsys.ErrCriticalSectionAborted
			}
			switch op.K {
			case "r":
				if _, err = readCell(op.V, op.J); err != nil {
					return err
				}
			case "a":
				if err = appendTo(op.V, op.J); err != nil {
					return err
				}
			case "w":
				h, err := iface.RequireArchetypeResourceRef(fmt.Sprintf("%s.v%d", archName, op.V))
				if err != nil {
					return err
				}
				id := uid<<4 | wn
				wn++
				if err = fail(iface.Write(h, w.indices(op.V, op.J), tla.MakeNumber(id))); err != nil {
					return err
				}
			case "s":
				order := st.rng.Perm(w.c.NAcct)
				for _, a := range order {
					if _, err = readCell(a, 0); err != nil {
						return err
					}
					perturb(st.rng, w.c.Heavy, maxTO)
				}
			case "t":
				from, err := readCell(op.V, 0)
				if err != nil {
					return err
				}
				perturb(st.rng, w.c.Heavy, maxTO)
				to, err := readCell(op.V2, 0)
				if err != nil {
					return err
				}
				hf, err := iface.RequireArchetypeResourceRef(fmt.Sprintf("%s.v%d", archName, op.V))
				if err != nil {
					return err
				}
				ht, err := iface.RequireArchetypeResourceRef(fmt.Sprintf("%s.v%d", archName, op.V2))
				if err != nil {
					return err
				}
				d := tla.MakeNumber(int32(op.D))
				if err = fail(iface.Write(hf, w.indices(op.V, 0), tla.ModuleMinusSymbol(from, d))); err != nil {
					return err
				}
				perturb(st.rng, w.c.Heavy, maxTO)
				if err = fail(iface.Write(ht, w.indices(op.V2, 0), tla.ModulePlusSymbol(to, d))); err != nil {
					return err
				}
			}
			perturb(st.rng, w.c.Heavy, maxTO)
		}
		if inject && sec.FaultKind == "body" && sec.FaultPos >= len(sec.Ops) {
			st.cause = "fault-body"
			return distsys.ErrCriticalSectionAborted
		}
		if inject && sec.FaultKind == "precommit" {
			flt, err := iface.RequireArchetypeResourceRef(archName + ".flt")
			if err != nil {
				return err
			}
			st.cause = "fault-precommit"
			if err = iface.Write(flt, nil, tla.ModuleTRUE); err != nil {
				return err
			}
		}
		err = iface.Write(kRes, nil, tla.MakeNumber(int32(k+1)))
		if err != nil {
			return err
		}
		return iface.Goto(archName + ".sec")
	}
}

func (w *world) archetype(st *ctxState) distsys.MPCalArchetype {
	jump := distsys.MakeMPCalJumpTable(
		distsys.MPCalCriticalSection{Name: archName + ".sec", Body: w.body(st)},
		distsys.MPCalCriticalSection{Name: archName + ".Done", Body: func(distsys.ArchetypeInterface) error { return distsys.ErrDone }},
	)
	refs := []string{archName + ".flt"}
	for v := range w.vars {
		refs = append(refs, fmt.Sprintf("%s.v%d", archName, v))
	}
	return distsys.MPCalArchetype{
		Name:              archName,
		Label:             archName + ".sec",
		RequiredRefParams: refs,
		RequiredValParams: []string{},
		JumpTable:         jump,
		ProcTable:         distsys.MakeMPCalProcTable(),
		PreAmble: func(iface distsys.ArchetypeInterface) {
			iface.EnsureArchetypeResourceLocal(archName+".k", tla.MakeNumber(0))
		},
	}
}

type nopRecorder struct{}

func (nopRecorder) RecordEvent(trace.Event) {}

// ---- hooks -------------------------------------------------------------------------------------------

func (w *world) installHooks() {
	distsys.VerifHooks = distsys.VerifHookSet{
		CommitPoint: func(ctx *distsys.MPCalContext, _ string, _ tla.Value, elems []trace.Element) {
			st := w.byCtx[ctx]
			if st == nil || st.cur == nil {
				return
			}
			cur := st.cur
			cur.elems = append([]trace.Element(nil), elems...)
			if w.light {
				st.local = append(st.local, cur)
			} else {
				w.mu.Lock()
				w.seq++
				cur.commit = w.seq
				w.secs = append(w.secs, cur)
				w.mu.Unlock()
				w.progress.Add(1)
			}
			// the section holds every lock it took: stretch that window
			perturb(st.rng, w.c.Heavy, 0)
		},
		CommitDone: func(ctx *distsys.MPCalContext, _ string, _ tla.Value) {
			st := w.byCtx[ctx]
			if st == nil || st.cur == nil || w.light {
				return
			}
			w.mu.Lock()
			w.seq++
			st.cur.done = w.seq
			w.mu.Unlock()
		},
		AbortPoint: func(ctx *distsys.MPCalContext, _ string, _ tla.Value, elems []trace.Element) {
			st := w.byCtx[ctx]
			if st == nil || st.cur == nil {
				return
			}
			cur := st.cur
			st.cur = nil
			cur.elems = append([]trace.Element(nil), elems...)
			cur.abortKind = st.cause
			if cur.abortKind == "" {
				cur.abortKind = "timeout"
			}
			if w.light {
				st.localAb = append(st.localAb, cur)
			} else {
				w.mu.Lock()
				w.aborts = append(w.aborts, cur)
				w.mu.Unlock()
				w.progress.Add(1)
			}
			if st.rng.Intn(4) == 0 { // an aborting section still holds its locks here
				perturb(st.rng, w.c.Heavy, 0)
			}
		},
	}
	if w.light {
		return // race batches: no H8 callbacks, they would add synchronisation between sharers
	}
	resources.VerifLocalSharedHooks = resources.VerifLocalSharedHookSet{
		TryLockEnter: func(mgr *resources.LocalSharedManager, sharer distsys.ArchetypeResource, hasLock bool) {
			st := w.bySh[sharer]
			if st == nil || hasLock {
				return
			}
			st.callSeq++
			st.lockWaits++
			st.parkedMgr.Store(int32(w.mgrIdx[mgr]))
			st.parked.Store(st.callSeq)
		},
		TryLockExit: func(mgr *resources.LocalSharedManager, sharer distsys.ArchetypeResource, hasLock bool) {
			st := w.bySh[sharer]
			if st == nil || st.parked.Load() == 0 {
				return
			}
			if hasLock {
				st.held.Store(st.held.Load() | 1<<uint(w.mgrIdx[mgr]))
			} else {
				st.timeouts++
			}
			st.parked.Store(0)
		},
	}
}

// ---- set-up --------------------------------------------------------------------------------------------

func initValue(vs VarSpec) tla.Value {
	switch vs.Kind {
	case kindAcct:
		return tla.MakeNumber(100)
	case kindReg:
		return tla.MakeNumber(0)
	case "fn":
		var dom []tla.Value
		for j := 1; j <= vs.Cells; j++ {
			dom = append(dom, tla.MakeNumber(int32(j)))
		}
		return tla.MakeFunction([]tla.Value{tla.MakeSet(dom...)}, func([]tla.Value) tla.Value { return tla.MakeTuple() })
	}
	return tla.MakeTuple()
}

func toMap(res distsys.ArchetypeResource) distsys.ArchetypeResource {
	return resources.NewIncMap(func(index tla.Value) distsys.ArchetypeResource {
		if index.Equal(tla.MakeNumber(procID)) {
			return res
		}
		panic("wrong index")
	})
}

func newWorld(c Case, db *badger.DB) (*world, []*distsys.MPCalContext) {
	w := &world{c: c, light: c.Mode == "race", byCtx: map[*distsys.MPCalContext]*ctxState{},
		bySh: map[distsys.ArchetypeResource]*ctxState{}, mgrIdx: map[*resources.LocalSharedManager]int{}}
	for v, vs := range c.Vars {
		mgr := resources.NewLocalSharedManager(initValue(vs), resources.WithLocalSharedResourceTimeout(time.Duration(vs.TimeoutMs)*time.Millisecond))
		rt := varRT{spec: vs, mgr: mgr}
		w.mgrIdx[mgr] = v
		var mc []int
		switch vs.Kind {
		case "fn":
			rt.cells = make([]int, vs.Cells+1)
			for j := 1; j <= vs.Cells; j++ {
				rt.cells[j] = len(w.cells)
				mc = append(mc, len(w.cells))
				w.cells = append(w.cells, Cell{Var: v, J: j, Kind: kindList, Mgr: v})
			}
		case kindAcct:
			rt.cells = []int{len(w.cells)}
			mc = append(mc, len(w.cells))
			w.cells = append(w.cells, Cell{Var: v, Kind: kindAcct, Mgr: v, Init: 100})
		case kindReg:
			rt.cells = []int{len(w.cells)}
			mc = append(mc, len(w.cells))
			w.cells = append(w.cells, Cell{Var: v, Kind: kindReg, Mgr: v})
		default:
			rt.cells = []int{len(w.cells)}
			mc = append(mc, len(w.cells))
			w.cells = append(w.cells, Cell{Var: v, Kind: kindList, Mgr: v})
		}
		w.mgrCell = append(w.mgrCell, mc)
		w.vars = append(w.vars, rt)
	}
	var ctxs []*distsys.MPCalContext
	for i := 0; i < c.NCtx; i++ {
		st := &ctxState{idx: i, plan: c.Plans[i], rng: rand.New(rand.NewSource(c.Seed*131 + int64(c.Idx)*17 + int64(i))), lastK: -1, flt: &faultRes{}}
		st.maxTries = int32(4*len(st.plan) + 60)
		for _, vs := range c.Vars {
			if vs.TimeoutMs <= 0 { // "try once": failed attempts cost next to nothing, allow many of them
				st.maxTries = int32(30*len(st.plan) + 300)
			}
		}
		w.states = append(w.states, st)
		cfg := []distsys.MPCalContextConfigFn{distsys.EnsureArchetypeRefParam("flt", st.flt)}
		for v, rt := range w.vars {
			ls := rt.mgr.MakeLocalShared()
			w.bySh[ls] = st
			var res distsys.ArchetypeResource = ls
			if strings.HasSuffix(rt.spec.Wrap, "persistent") {
				res = resources.MakePersistent(fmt.Sprintf("Proc.v%d", v), db, ls)
			}
			if strings.HasPrefix(rt.spec.Wrap, "incmap") {
				res = toMap(res)
			}
			cfg = append(cfg, distsys.EnsureArchetypeRefParam(fmt.Sprintf("v%d", v), res))
		}
		cfg = append(cfg, distsys.SetTraceRecorder(nopRecorder{}))
		ctx := distsys.NewMPCalContext(tla.MakeNumber(int32(i+1)), w.archetype(st), cfg...)
		w.byCtx[ctx] = st
		ctxs = append(ctxs, ctx)
	}
	return w, ctxs
}

// ---- conversion of what was recorded into a History --------------------------------------------------

type rawAcc struct {
	w    bool
	cell int
	list []int32
	n    int32
}

func tupleIDs(v tla.Value) []int32 {
	out := []int32{}
	it := v.AsTuple().Iterator()
	for !it.Done() {
		_, e := it.Next()
		out = append(out, e.AsNumber())
	}
	return out
}

func (w *world) decode(elems []trace.Element) []rawAcc {
	var out []rawAcc
	for _, el := range elems {
		var name string
		var idx []tla.Value
		var val tla.Value
		isW := false
		switch e := el.(type) {
		case trace.ReadElement:
			name, idx, val = e.Name, e.Indices, e.Value
		case trace.WriteElement:
			name, idx, val, isW = e.Name, e.Indices, e.Value, true
		default:
			continue
		}
		if len(name) < 2 || name[0] != 'v' {
			continue
		}
		v, err := strconv.Atoi(name[1:])
		if err != nil || v >= len(w.vars) {
			continue
		}
		rt := w.vars[v]
		if strings.HasPrefix(rt.spec.Wrap, "incmap") && len(idx) > 0 {
			idx = idx[1:]
		}
		j := 0
		if rt.spec.Kind == "fn" {
			if len(idx) != 1 {
				continue
			}
			j = int(idx[0].AsNumber())
		}
		val = val.StripVClock()
		a := rawAcc{w: isW, cell: rt.cells[j]}
		if rt.spec.Kind == kindAcct || rt.spec.Kind == kindReg {
			a.n = val.AsNumber()
		} else {
			a.list = tupleIDs(val)
		}
		out = append(out, a)
	}
	return out
}

func (w *world) decodeState(mgr int, v tla.Value) []rawAcc {
	rt := w.vars[mgr]
	switch rt.spec.Kind {
	case kindAcct, kindReg:
		return []rawAcc{{cell: rt.cells[0], n: v.AsNumber()}}
	case "fn":
		var out []rawAcc
		for j := 1; j <= rt.spec.Cells; j++ {
			out = append(out, rawAcc{cell: rt.cells[j], list: tupleIDs(v.ApplyFunction(tla.MakeNumber(int32(j))))})
		}
		return out
	}
	return []rawAcc{{cell: rt.cells[0], list: tupleIDs(v)}}
}

func isPrefix(a, f []int32) bool {
	if len(a) > len(f) {
		return false
	}
	for i := range a {
		if a[i] != f[i] {
			return false
		}
	}
	return true
}

// buildHistory converts raw records; final may be nil.
func (w *world) buildHistory(secs, aborts []*rawSec, samples []rawSample, final []tla.Value, complete bool) *History {
	h := &History{Cells: append([]Cell(nil), w.cells...), MgrCells: w.mgrCell, HasSeq: !w.light, Complete: complete,
		NAcct: w.c.NAcct, SumConst: int32(100 * w.c.NAcct)}
	secAcc := make([][]rawAcc, len(secs))
	for i, s := range secs {
		secAcc[i] = w.decode(s.elems)
	}
	abAcc := make([][]rawAcc, len(aborts))
	for i, s := range aborts {
		for _, a := range w.decode(s.elems) {
			if a.w {
				abAcc[i] = append(abAcc[i], a)
			}
		}
	}
	smAcc := make([][]rawAcc, len(samples))
	for i, s := range samples {
		smAcc[i] = w.decodeState(s.mgr, s.val)
	}
	var finAcc []rawAcc
	for m, v := range final {
		finAcc = append(finAcc, w.decodeState(m, v)...)
	}
	longest := func(as []rawAcc) {
		for _, a := range as {
			if h.Cells[a.cell].Kind == kindList && len(a.list) > len(h.Cells[a.cell].F) {
				h.Cells[a.cell].F = a.list
			}
		}
	}
	for _, as := range secAcc {
		longest(as)
	}
	for _, as := range smAcc {
		longest(as)
	}
	longest(finAcc)
	enc := func(as []rawAcc) []Access {
		out := make([]Access, 0, len(as))
		for _, a := range as {
			x := Access{W: a.w, C: a.cell}
			if h.Cells[a.cell].Kind != kindList {
				x.N = a.n
			} else if isPrefix(a.list, h.Cells[a.cell].F) {
				x.P = len(a.list)
			} else {
				x.P = -1
				x.L = a.list
			}
			out = append(out, x)
		}
		return out
	}
	for i, s := range secs {
		h.Secs = append(h.Secs, Sec{Ctx: s.ctx, UID: s.uid, K: s.k, Begin: s.begin, Commit: s.commit, Done: s.done, Acc: enc(secAcc[i])})
	}
	for i, s := range aborts {
		h.Aborts = append(h.Aborts, AbortRec{Ctx: s.ctx, UID: s.uid, Kind: s.abortKind, Writes: enc(abAcc[i])})
	}
	for i, s := range samples {
		h.Samples = append(h.Samples, Sample{Mgr: s.mgr, Cells: enc(smAcc[i])})
	}
	if final != nil {
		h.Final = enc(finAcc)
	}
	return h
}

// ---- running one case -----------------------------------------------------------------------------------

// SharerSnap is what the monitor knows about one running sharer from H8 events (and, after a dump, the
// state of its goroutine).
type SharerSnap struct {
	Ctx           int    `json:"ctx"`
	Goid          int64  `json:"goroutine"`
	Parked        int64  `json:"parked_in_tryEnsureLock_call"` // 0: not inside tryEnsureLock without the lock
	Rounds        int    `json:"canary_rounds_in_that_call"`
	WaitMgr       int    `json:"waiting_for_manager"`
	WaitTimeoutUs int64  `json:"timeout_setting_of_that_manager_us"`
	Held          []int  `json:"holds_managers"`
	State         string `json:"goroutine_state,omitempty"`
	InCycle       bool   `json:"deadlocked"`
}

type DeadlockInfo struct {
	BlockedNoTimeout int          `json:"sharers_blocked_without_timeout"`
	Running          int          `json:"running_sharers"`
	Goroutines       string       `json:"goroutines,omitempty"`
	TimeoutMs        int          `json:"canary_period_ms"`
	Sharers          []SharerSnap `json:"sharers"`
}

type Result struct {
	Case        Case          `json:"case"`
	Violations  []Violation   `json:"violations"`
	Stats       OracleStats   `json:"stats"`
	Deadlock    *DeadlockInfo `json:"deadlock,omitempty"`
	Stalled     string        `json:"stalled,omitempty"`
	SetupError  string        `json:"setup_error,omitempty"`
	Capped      bool          `json:"capped,omitempty"`
	RunErrs     []string      `json:"run_errs,omitempty"`
	History     *History      `json:"history,omitempty"`
	Sig         string        `json:"sig"`
	LockWaits   int           `json:"lock_waits"`
	Timeouts    int           `json:"lock_timeouts"`
	Ticks       int           `json:"monitor_ticks"`
	Samples     int           `json:"observer_samples"`
	Complete    bool          `json:"complete"`
	WallMs      int64         `json:"wall_ms"`
	SampleSecs  []any         `json:"sample_sections,omitempty"`
	LeakedLocks []int         `json:"leaked_locks,omitempty"`
	TimerStalls int           `json:"timer_stalls,omitempty"`
}

// canary waits exactly the way LocalSharedManager.acquireWithTimeout waits on a taken lock; one return
// of the canary is one "timeout period of the code" for the deadlock criterion (a counted event).
func canary(d time.Duration) { canaries(1, d) }

// canaries runs n such waits concurrently (one per parked sharer) and returns when all have timed out.
func canaries(n int, d time.Duration) {
	if n < 1 {
		n = 1
	}
	var wg sync.WaitGroup
	for i := 0; i < n; i++ {
		wg.Add(1)
		go func() {
			defer wg.Done()
			full := make(chan struct{}, 1)
			full <- struct{}{}
			select {
			case full <- struct{}{}:
			case <-time.After(d):
			}
		}()
	}
	wg.Wait()
}

// preRounds: the H8 deadlock shape must have persisted unchanged across this many canary rounds (each at
// least one lock-timeout period of the code) before the goroutine states are inspected.
const preRounds = 5

// deadlockTicks: persistence (in rounds) after which a shape whose sharers wait in the *timed* select is
// counted as a timer stall of the machine (evidence only).
const deadlockTicks = 50

type gInfo struct {
	id     string
	state  string
	frames []string
}

func parseGoroutines(dump string) []gInfo {
	var out []gInfo
	for _, blk := range strings.Split(dump, "\n\n") {
		lines := strings.Split(strings.TrimSpace(blk), "\n")
		if len(lines) == 0 || !strings.HasPrefix(lines[0], "goroutine ") {
			continue
		}
		hdr := lines[0]
		g := gInfo{}
		if i := strings.Index(hdr, "["); i > 0 {
			g.id = strings.TrimSpace(hdr[len("goroutine "):i])
			st := hdr[i+1:]
			if j := strings.IndexAny(st, ",]"); j >= 0 {
				st = st[:j]
			}
			g.state = st
		}
		for _, l := range lines[1:] {
			if !strings.HasPrefix(l, "\t") {
				g.frames = append(g.frames, l)
			}
		}
		out = append(out, g)
	}
	return out
}

func untimedBlock(state string) bool {
	switch {
	case strings.HasPrefix(state, "chan send"), strings.HasPrefix(state, "chan receive"), state == "select (no cases)",
		strings.HasPrefix(state, "semacquire"), strings.HasPrefix(state, "sync."):
		return true
	}
	return false
}

func inLocalShared(frames []string, depth int) bool {
	for i, f := range frames {
		if i >= depth {
			break
		}
		if strings.Contains(f, "distsys/resources.(*LocalSharedManager).") || strings.Contains(f, "distsys/resources.(*localShared).") {
			return true
		}
	}
	return false
}

func curGoid() int64 {
	buf := make([]byte, 64)
	buf = buf[:runtime.Stack(buf, false)]
	f := strings.Fields(string(buf))
	if len(f) >= 2 {
		n, _ := strconv.ParseInt(f[1], 10, 64)
		return n
	}
	return 0
}

// deadlockedSet decides, from the H8 snapshot and a goroutine dump, which sharers can never run again:
// the largest set S of sharers such that every member
//   - has been inside one and the same tryEnsureLock call for >= preRounds canary rounds,
//   - is blocked there (its goroutine runs MPCalContext.Run, top frames in localshared.go) WITHOUT a timeout
//     alternative: a plain channel operation, or a select on a manager whose timeout setting is <= 0 —
//     with such a setting the code's expiry case is ready at once, so a goroutine that is parked in that
//     select has no expiry case (Go >= 1.23 runs an expired channel timer when the select starts),
//   - waits for a manager that (H8 acquire events of the current attempts) is held by a member of S.
//
// Nobody outside S can release those locks, nobody inside S can run: a deadlock, decided without
// reference to any duration. Sets state / InCycle in snaps; returns the indices of S.
func deadlockedSet(snaps []SharerSnap, dump string) []int {
	gs := map[string]gInfo{}
	for _, g := range parseGoroutines(dump) {
		gs[g.id] = g
	}
	in := make([]bool, len(snaps))
	for i := range snaps {
		sn := &snaps[i]
		sn.InCycle = false
		g, ok := gs[strconv.FormatInt(sn.Goid, 10)]
		if !ok {
			continue
		}
		sn.State = g.state
		if sn.Parked == 0 || sn.Rounds < preRounds || !inLocalShared(g.frames, 4) {
			continue
		}
		isSharer := false
		for _, f := range g.frames {
			if strings.Contains(f, "distsys.(*MPCalContext).Run") {
				isSharer = true
			}
		}
		if !isSharer {
			continue
		}
		in[i] = untimedBlock(g.state) || (g.state == "select" && sn.WaitTimeoutUs <= 0)
	}
	for changed := true; changed; {
		changed = false
		for i := range snaps {
			if !in[i] {
				continue
			}
			held := false
			for j := range snaps {
				if j == i || !in[j] {
					continue
				}
				for _, m := range snaps[j].Held {
					if m == snaps[i].WaitMgr {
						held = true
					}
				}
			}
			if !held {
				in[i], changed = false, true
			}
		}
	}
	var out []int
	for i := range snaps {
		if in[i] {
			snaps[i].InCycle = true
			out = append(out, i)
		}
	}
	return out
}

func deadlockKey(d *DeadlockInfo) (string, string) {
	var members []string
	zero := false
	for _, sn := range d.Sharers {
		if sn.InCycle {
			members = append(members, fmt.Sprintf("ctx %d [%s] holds %v waits for manager %d (timeout setting %d us)", sn.Ctx, sn.State, sn.Held, sn.WaitMgr, sn.WaitTimeoutUs))
			if sn.State == "select" {
				zero = true
			}
		}
	}
	key := "C07:deadlock:all-sharers-parked-in-tryEnsureLock"
	if d.BlockedNoTimeout < d.Running {
		key = "C07:deadlock:wait-for-cycle-of-sharers-parked-in-tryEnsureLock"
	}
	how := "a channel operation that has no timeout alternative"
	if zero {
		how = "the acquisition select of a manager whose timeout setting is <= 0 (the expiry case would have been ready at once: the select has no expiry case)"
	}
	return key, fmt.Sprintf("%d of %d running sharers are blocked inside tryEnsureLock in %s, each waiting for a variable held by another of them: they block forever instead of aborting: %s",
		d.BlockedNoTimeout, d.Running, how, strings.Join(members, "; "))
}

// observerBlockedInAcquire: the GetState observer is blocked in the untimed acquire().
func observerBlockedInAcquire() (bool, string) {
	dump := allStacks()
	for _, g := range parseGoroutines(dump) {
		isObs := false
		for _, f := range g.frames {
			if strings.Contains(f, "main.runCase.func") {
				isObs = true
			}
		}
		if isObs && len(g.frames) >= 2 && strings.Contains(g.frames[0], "(*LocalSharedManager).acquire") &&
			strings.Contains(g.frames[1], "(*localShared).GetState") && strings.HasPrefix(g.state, "chan send") {
			return true, dump
		}
	}
	return false, dump
}

func runCase(c Case, scratch string) *Result {
	start := time.Now()
	res := &Result{Case: c}
	opts := badger.DefaultOptions(scratch + "/badger").WithLogger(nil).WithMemTableSize(16 << 20).
		WithValueLogFileSize(32 << 20).WithBlockCacheSize(1 << 20).WithNumCompactors(2).WithNumMemtables(2)
	db, err := badger.Open(opts)
	if err != nil {
		res.SetupError = "badger: " + err.Error()
		return res
	}
	// the database is closed on the normal path only: on a hang the sharers are still using it
	w, ctxs := newWorld(c, db)
	w.installHooks()
	maxTO := time.Millisecond
	for _, v := range w.vars {
		if d := v.mgr.VerifTimeout(); d > maxTO {
			maxTO = d
		}
	}

	var wg sync.WaitGroup
	for i, ctx := range ctxs {
		wg.Add(1)
		go func(i int, ctx *distsys.MPCalContext) {
			defer wg.Done()
			defer w.states[i].finished.Store(true)
			w.states[i].goid.Store(curGoid())
			defer func() {
				if e := recover(); e != nil {
					buf := make([]byte, 4096)
					buf = buf[:runtime.Stack(buf, false)]
					w.runErrMu.Lock()
					w.runErrs = append(w.runErrs, fmt.Sprintf("ctx %d panicked: %v\n%s", i, e, buf))
					w.runErrMu.Unlock()
				}
			}()
			if err := ctx.Run(); err != nil {
				w.runErrMu.Lock()
				w.runErrs = append(w.runErrs, fmt.Sprintf("ctx %d Run returned %v", i, err))
				w.runErrMu.Unlock()
			}
		}(i, ctx)
	}
	allDone := make(chan struct{})
	go func() { wg.Wait(); close(allDone) }()

	// observer: GetState() through its own MakeLocalShared(), as a persistence layer would
	stopObs := make(chan struct{})
	obsDone := make(chan struct{})
	var obsCalls atomic.Int64 // odd while the observer is inside GetState (touched by the observer and main only)
	var obsMgr atomic.Int32
	if c.Observer {
		obsRng := rand.New(rand.NewSource(c.Seed*977 + int64(c.Idx)))
		var obs []resources.Persistable
		for _, v := range w.vars {
			obs = append(obs, v.mgr.MakeLocalShared())
		}
		go func() {
			defer close(obsDone)
			for n := 0; n < 400; n++ {
				select {
				case <-stopObs:
					return
				default:
				}
				m := obsRng.Intn(len(obs))
				obsMgr.Store(int32(m))
				obsCalls.Add(1)
				buf, err := obs[m].GetState()
				obsCalls.Add(1)
				if err == nil {
					var v tla.Value
					if derr := gob.NewDecoder(bytes.NewReader(buf)).Decode(&v); derr == nil {
						w.samples = append(w.samples, rawSample{mgr: m, val: v})
					}
				}
				time.Sleep(time.Duration(50+obsRng.Intn(400)) * time.Microsecond)
			}
		}()
	} else {
		close(obsDone)
	}

	// deadlock / stall monitor (behavioural batches only)
	type verdict struct {
		deadlock *DeadlockInfo
		stalled  string
	}
	monCh := make(chan verdict, 1)
	stopMon := make(chan struct{})
	var timerStalls atomic.Int64 // H8 shape persisted across deadlockTicks rounds although the sharers wait in the timed select
	var ticks atomic.Int64
	if !w.light {
		go func() {
			lastProg, idle, round := int64(-1), 0, 0
			sameFor := make([]int, len(w.states))
			lastParked := make([]int64, len(w.states))
			stallLimit := 600
			if maxTO < 10*time.Millisecond {
				stallLimit = 4000
			}
			nCanary := 1
			snapshot := func() []SharerSnap {
				var out []SharerSnap
				for i, st := range w.states {
					if st.finished.Load() {
						continue
					}
					sn := SharerSnap{Ctx: st.idx, Goid: st.goid.Load(), Parked: st.parked.Load(), Rounds: sameFor[i], WaitMgr: -1}
					if sn.Parked != 0 {
						sn.WaitMgr = int(st.parkedMgr.Load())
						sn.WaitTimeoutUs = int64(w.vars[sn.WaitMgr].mgr.VerifTimeout() / time.Microsecond)
					}
					for m := range w.vars {
						if st.held.Load()&(1<<uint(m)) != 0 {
							sn.Held = append(sn.Held, m)
						}
					}
					out = append(out, sn)
				}
				return out
			}
			for {
				select {
				case <-stopMon:
					return
				default:
				}
				canaries(nCanary, maxTO)
				ticks.Add(1)
				round++
				live, cands, minSame := 0, 0, 1<<30
				for i, st := range w.states {
					if st.finished.Load() {
						sameFor[i] = 0
						continue
					}
					live++
					p := st.parked.Load()
					if p != 0 && p == lastParked[i] {
						sameFor[i]++
					} else {
						sameFor[i] = 0
					}
					lastParked[i] = p
					if sameFor[i] >= preRounds {
						cands++
					}
					if sameFor[i] < minSame {
						minSame = sameFor[i]
					}
				}
				nCanary = live
				prog := w.progress.Load()
				if prog == lastProg {
					idle++
				} else {
					idle = 0
				}
				lastProg = prog
				if live > 0 && minSame == deadlockTicks {
					timerStalls.Add(1) // everybody has been in one call for that long, yet not decided below: waits are timed
				}
				if cands >= 1 && round%preRounds == 0 {
					// Some sharers have been inside one tryEnsureLock call for a while. Decide logically, not by
					// duration (see deadlockedSet); sharers waiting in a select that has a live expiry case are
					// merely late (timer / scheduler stalls of the machine) and are never decided.
					snaps := snapshot()
					dump := allStacks()
					if s1 := deadlockedSet(snaps, dump); len(s1) > 0 {
						canaries(nCanary, maxTO)
						for i, st := range w.states { // same calls still?
							if p := st.parked.Load(); p != 0 && p == lastParked[i] && !st.finished.Load() {
								sameFor[i]++
							} else {
								sameFor[i] = 0
							}
						}
						snaps2 := snapshot()
						dump2 := allStacks()
						s2 := deadlockedSet(snaps2, dump2)
						same := len(s1) == len(s2)
						for k := 0; same && k < len(s1); k++ {
							a, b := snaps[s1[k]], snaps2[s2[k]]
							same = a.Ctx == b.Ctx && a.Parked == b.Parked && a.WaitMgr == b.WaitMgr
						}
						if same {
							monCh <- verdict{deadlock: &DeadlockInfo{BlockedNoTimeout: len(s2), Running: len(snaps2), Goroutines: dump2,
								TimeoutMs: int(maxTO / time.Millisecond), Sharers: snaps2}}
							return
						}
					}
				}
				if idle >= stallLimit {
					monCh <- verdict{stalled: fmt.Sprintf("no begin/commit/abort event across %d timeout periods, but not every sharer is parked in tryEnsureLock", idle)}
					return
				}
			}
		}()
	}

	finish := func(complete bool, final []tla.Value) {
		var secs, aborts []*rawSec
		if w.light {
			for _, st := range w.states {
				secs = append(secs, st.local...)
				aborts = append(aborts, st.localAb...)
			}
		} else {
			w.mu.Lock()
			secs = append(secs, w.secs...)
			aborts = append(aborts, w.aborts...)
			w.mu.Unlock()
		}
		var samples []rawSample
		if complete {
			samples = w.samples
		}
		h := w.buildHistory(secs, aborts, samples, final, complete)
		viol, stats := CheckHistory(h)
		res.Violations = append(res.Violations, viol...)
		res.Stats = stats
		res.Complete = complete
		res.Samples = len(samples)
		hs := fnv.New64a()
		for _, s := range h.Secs {
			hs.Write([]byte{byte(s.Ctx)})
		}
		res.Sig = fmt.Sprintf("%016x", hs.Sum64())
		if complete { // sharers have stopped: their counters are stable
			for _, st := range w.states {
				res.LockWaits += st.lockWaits
				res.Timeouts += st.timeouts
				res.Capped = res.Capped || st.capped
			}
		}
		if len(res.Violations) > 0 || res.Deadlock != nil {
			res.History = h
		}
		for i := 0; i < len(h.Secs) && len(res.SampleSecs) < 2; i += 1 + len(h.Secs)/2 {
			if len(h.Secs[i].Acc) >= 2 {
				res.SampleSecs = append(res.SampleSecs, secBrief(h, &h.Secs[i]))
			}
		}
		w.runErrMu.Lock()
		res.RunErrs = append(res.RunErrs, w.runErrs...)
		w.runErrMu.Unlock()
		for _, e := range res.RunErrs {
			res.Violations = append(res.Violations, Violation{Key: "C07:sharer-run-failed", Desc: "a sharing archetype's Run ended abnormally: " + firstLine(e),
				Witness: map[string]any{"oracle": "run", "error": e}})
		}
		res.Ticks = int(ticks.Load())
		res.TimerStalls = int(timerStalls.Load())
		res.WallMs = time.Since(start).Milliseconds()
	}

	select {
	case <-allDone:
	case v := <-monCh:
		if v.deadlock != nil {
			res.Deadlock = v.deadlock
			key, desc := deadlockKey(v.deadlock)
			res.Violations = append(res.Violations, Violation{Key: key, Desc: desc, Witness: map[string]any{"oracle": "deadlock", "deadlock": v.deadlock}})
		} else {
			res.Stalled = v.stalled
		}
		finish(false, nil)
		return res
	}
	close(stopMon)
	close(stopObs)

	// final phase: nobody is running a section any more.
	leak := func(mgrs []int, how string) *Result {
		res.LeakedLocks = mgrs
		res.Violations = append(res.Violations, Violation{Key: "C07:lock-held-by-no-section",
			Desc:    fmt.Sprintf("after every sharer finished, the lock of manager(s) %v is still taken (%s): a finished section left it taken", mgrs, how),
			Witness: map[string]any{"oracle": "leak", "managers": mgrs, "how": how}})
		finish(false, nil)
		return res
	}
	// 1. the observer must stop first (it is the only other party that may legitimately hold a lock).
	//    GetState blocks without a timeout, so a leaked lock parks it for good. Decided logically: if the
	//    observer is blocked in the untimed acquire() although no section is running and nothing else
	//    exists that could release a lock, the lock was left taken. A slow / not yet scheduled observer is
	//    merely waited for (bounded in canary rounds, then inconclusive).
	stopped := false
	for i := 0; i < 40*preRounds && !stopped; i++ {
		select {
		case <-obsDone:
			stopped = true
		default:
			canary(maxTO)
			if i%preRounds == preRounds-1 {
				if b1, _ := observerBlockedInAcquire(); b1 {
					c0 := obsCalls.Load()
					canary(maxTO)
					if b2, dump := observerBlockedInAcquire(); b2 && obsCalls.Load() == c0 && c0%2 == 1 {
						r := leak([]int{int(obsMgr.Load())}, "the observer's GetState() is blocked in the untimed acquire() although no section is running and nothing else could release the lock")
						r.Violations[len(r.Violations)-1].Witness["goroutines"] = dump
						return r
					}
				}
			}
		}
	}
	if !stopped {
		select {
		case <-obsDone:
			stopped = true
		default:
		}
	}
	if !stopped {
		res.Stalled = "the GetState observer did not stop (not blocked in acquire: machine stall)"
		finish(false, nil)
		return res
	}
	// 2. with the observer gone nobody can hold a lock. The final values are read through GetState() (its
	//    acquisition has no timeout); a reader that is blocked in that acquire() although nothing exists
	//    that could release the lock proves the lock was left taken. (A failed *timed* acquisition proves
	//    nothing when the timeout setting is <= 0: both select cases are ready and Go picks at random.)
	type finalOut struct {
		vals []tla.Value
		err  string
	}
	finCh := make(chan finalOut, 1)
	var finMgr atomic.Int32
	go func() {
		var out finalOut
		for m, v := range w.vars {
			finMgr.Store(int32(m))
			buf, err := v.mgr.MakeLocalShared().GetState()
			var val tla.Value
			if err == nil {
				err = gob.NewDecoder(bytes.NewReader(buf)).Decode(&val)
			}
			if err != nil {
				out.err = fmt.Sprintf("GetState of manager %d: %v", m, err)
				break
			}
			out.vals = append(out.vals, val.StripVClock())
		}
		finCh <- out
	}()
	for i := 0; i < 40*preRounds; i++ {
		select {
		case out := <-finCh:
			if out.err != "" {
				res.Stalled = out.err
				finish(false, nil)
				return res
			}
			finish(true, out.vals)
			_ = db.Close()
			return res
		default:
		}
		canary(maxTO)
		if i%preRounds == preRounds-1 {
			if b1, _ := observerBlockedInAcquire(); b1 {
				m := finMgr.Load()
				canary(maxTO)
				if b2, dump := observerBlockedInAcquire(); b2 && finMgr.Load() == m {
					r := leak([]int{int(m)}, "GetState() of the final reader is blocked in the untimed acquire() although no sharer and no observer exists any more")
					r.Violations[len(r.Violations)-1].Witness["goroutines"] = dump
					return r
				}
			}
		}
	}
	res.Stalled = "final read of the shared variables did not return (not blocked in acquire: machine stall)"
	finish(false, nil)
	return res
}

// allStacks returns a dump of every goroutine (for witnesses of hangs), trimmed.
func allStacks() string {
	buf := make([]byte, 1<<18)
	buf = buf[:runtime.Stack(buf, true)]
	return string(buf)
}

func firstLine(s string) string {
	if i := strings.IndexByte(s, '\n'); i >= 0 {
		return s[:i]
	}
	return s
}

func childMain() {
	idx, _ := strconv.Atoi(os.Getenv("C07_CASE"))
	mode := os.Getenv("C07_MODE")
	seed, _ := strconv.ParseInt(os.Getenv("C07_SEED"), 10, 64)
	out := os.Getenv("C07_OUT")
	scratch := os.Getenv("C07_SCRATCH")
	c := genCase(seed, idx, mode, os.Getenv("C07_TIER") == "thorough")
	res := runCase(c, scratch)
	writeJSON(out, res)
	os.Exit(0)
}

#!/usr/bin/env python3
import subprocess,sys,re,os,json,time
# usage: python3 mutations.py quick [mutation names]; needs the scratch worktree:
#   git -C /repo worktree add --detach /tmp/wt-c07 HEAD && git -C /tmp/wt-c07 apply /verif/harness/checks/c07/hooks.patch
os.makedirs('/tmp/c07-mut',exist_ok=True)
WT='/tmp/wt-c07'
LS=WT+'/distsys/resources/localshared.go'
PS=WT+'/distsys/resources/persistent.go'
muts={
 'M12-persistent-done-before-commit': (PS, "\t\tch := res.wrappedRes.Commit(iface)\n\t\tif ch != nil {\n\t\t\t<-ch\n\t\t}\n\t\tdoneCh <- struct{}{}\n", "\t\tdoneCh <- struct{}{}\n\t\tch := res.wrappedRes.Commit(iface)\n\t\tif ch != nil {\n\t\t\t<-ch\n\t\t}\n"),
 'M13-release-in-WriteValue': (LS, "\treturn res.sharedRes.res.WriteValue(iface, value)\n}", "\terr := res.sharedRes.res.WriteValue(iface, value)\n\tres.sharedRes.res.Commit(iface)\n\tres.hasLock = false\n\tres.sharedRes.release()\n\treturn err\n}"),

 'M1-release-in-ReadValue': (LS, "\treturn res.sharedRes.res.ReadValue(iface)\n}", "\tv, err := res.sharedRes.res.ReadValue(iface)\n\tres.hasLock = false\n\tres.sharedRes.release()\n\treturn v, err\n}"),
 'M2-abort-not-restoring': (LS, "\t\tresCh := res.sharedRes.res.Abort(iface)\n\t\tassumeNil(resCh)\n", ""),
 'M3-blocking-acquire': (LS, "\t\tif !res.sharedRes.acquireWithTimeout() {\n\t\t\treturn distsys.ErrCriticalSectionAborted\n\t\t}\n", "\t\tres.sharedRes.acquire()\n"),
 'M4-hasLock-never-reset': (LS, "\t\tres.hasLock = false\n", ""),
 'M5-commit-releases-before-commit': (LS, "\t\tresCh := res.sharedRes.res.Commit(iface)\n\t\tassumeNil(resCh)\n\t\tres.sharedRes.release()\n", "\t\tres.sharedRes.release()\n\t\tresCh := res.sharedRes.res.Commit(iface)\n\t\tassumeNil(resCh)\n"),
 'M6-timeout-ignored': (LS, "\t\tif !res.sharedRes.acquireWithTimeout() {\n\t\t\treturn distsys.ErrCriticalSectionAborted\n\t\t}\n", "\t\tres.sharedRes.acquireWithTimeout()\n"),
 'M7-index-without-lock': (LS, "func (res *localShared) Index(iface distsys.ArchetypeInterface, index tla.Value) (distsys.ArchetypeResource, error) {\n\tif err := res.tryEnsureLock(); err != nil {\n\t\treturn nil, err\n\t}\n", "func (res *localShared) Index(iface distsys.ArchetypeInterface, index tla.Value) (distsys.ArchetypeResource, error) {\n"),
 'M8-getstate-without-lock': (LS, "\tif !res.hasLock {\n\t\tres.sharedRes.acquire()\n\t\tdefer res.sharedRes.release()\n\t}\n", ""),
 'M9-abort-leaks-lock': (LS, "\t\tassumeNil(resCh)\n\t\tres.sharedRes.release()\n\t}\n\treturn nil\n}\n\nfunc (res *localShared) PreCommit", "\t\tassumeNil(resCh)\n\t}\n\treturn nil\n}\n\nfunc (res *localShared) PreCommit"),
 'M10-write-without-lock': (LS, "func (res *localShared) WriteValue(iface distsys.ArchetypeInterface, value tla.Value) error {\n\tif err := res.tryEnsureLock(); err != nil {\n\t\treturn err\n\t}\n", "func (res *localShared) WriteValue(iface distsys.ArchetypeInterface, value tla.Value) error {\n"),
 'M11-lock-capacity-2': (LS, "lockCh:  make(chan struct{}, 1)", "lockCh:  make(chan struct{}, 2)"),
}
def restore():
    subprocess.run(['git','-C',WT,'checkout','--','.'],check=True)
    subprocess.run(['git','-C',WT,'apply','/verif/harness/checks/c07/hooks.patch'],check=False,capture_output=True)
names=sys.argv[2:] or list(muts)
tier=sys.argv[1]
for n in names:
    f,old,new=muts[n]
    s=open(f).read()
    cnt=s.count(old)
    if cnt==0: print(n,'PATTERN NOT FOUND'); continue
    if n=='M4-hasLock-never-reset': s=s.replace(old,new)
    else:
        assert cnt==1,(n,cnt)
        s=s.replace(old,new)
    open(f,'w').write(s)
    t=time.time()
    env=dict(os.environ,VERIF_REPO=WT,VERIF_SEED=os.environ.get('VERIF_SEED','1'))
    p=subprocess.run(['./vcheck','C07',tier],cwd='/verif',env=env,capture_output=True,text=True)
    keys={}
    for l in p.stdout.splitlines():
        m=re.match(r'\s+key=(\S+):',l)
        if m: keys[m.group(1)]=keys.get(m.group(1),0)+1
    last=p.stdout.strip().splitlines()[-1] if p.stdout.strip() else p.stderr[-300:]
    print(f"{n}: exit={p.returncode} {time.time()-t:.0f}s keys={sorted(keys)}\n    {last}",flush=True)
    subprocess.run('rm -rf /tmp/c07-mut/replay-%s; cp -r /verif/bin/alt-$(echo /tmp/wt-c07 | md5sum | cut -c1-8)/replay /tmp/c07-mut/replay-%s 2>/dev/null; rm -rf /verif/bin/alt-$(echo /tmp/wt-c07 | md5sum | cut -c1-8)/replay'%(n,n),shell=True)
    # restore file
    subprocess.run(['git','-C',WT,'checkout','--',os.path.relpath(f,WT)],check=True)
    # re-apply hook lines
    s=open(f).read()
    oldh="func (res *localShared) tryEnsureLock() error {\n"
    if 'verifLSharedTryLockEnter' not in s:
        s=s.replace(oldh,oldh+"\tverifLSharedTryLockEnter(res)\n\tdefer verifLSharedTryLockExit(res)\n")
        open(f,'w').write(s)

// C07 — variables shared between archetypes of a process are serializable.
//
// Workload: 2–8 real MPCalContexts run a hand-built archetype (generated-code conventions) whose
// sections read / read-then-append / transfer over 1–6 real LocalSharedManager variables (plain,
// function-valued with indexed access, behind Persistent, behind IncMap as raftkvs wires them), in
// random and deliberately opposite orders, with lock timeouts 1–50 ms, perturbation between accesses
// and at the H1 commit point (locks held), injected aborts while holding locks (body and PreCommit),
// and an observer calling GetState().
//
// Oracles (oracle.go): list-append version chain, aborted-write invisibility, dependency graph
// (ww/wr/rw + real time) acyclic, commit-point order replays as a serial order, conservation of a sum
// over several variables, observer samples are committed states, final state; logical deadlock
// criterion over H8 events; -race batches with light instrumentation decide only on races on the
// fields the lock protects.
package main

import (
	"encoding/json"
	"fmt"
	"os"
	"path/filepath"
	"strings"
	"sync"
	"time"

	"verifh/common"
)

func writeJSON(path string, v any) {
	buf, err := json.Marshal(v)
	if err != nil {
		buf = []byte(fmt.Sprintf(`{"encode_error":%q}`, err.Error()))
	}
	tmp := path + ".tmp"
	if err := os.WriteFile(tmp, buf, 0o644); err == nil {
		_ = os.Rename(tmp, path)
	}
}

type job struct {
	mode string
	idx  int
}

type jobOut struct {
	job    job
	c      Case
	res    *Result
	child  common.ChildResult
	races  []RaceReport
	failed string
}

func main() {
	if common.ChildRole() == "case" {
		childMain()
		return
	}
	r := common.Start("C07", "exploration")
	if r.Replay != "" {
		doReplay(r)
		return
	}
	nBehav := r.Pick(30, 600)
	nRace := r.Pick(6, 70)
	workers := r.Pick(8, 16)
	raceBin := os.Getenv("VERIF_RACE_BIN")
	if raceBin == "" {
		r.Note("VERIF_RACE_BIN not set: race batches skipped")
		nRace = 0
	}
	scratch := common.Scratch("c07")
	var jobs []job
	// interleave race jobs (long) first so that they overlap with the behavioural ones
	for i := 0; i < nRace; i++ {
		jobs = append(jobs, job{"race", i})
	}
	// directed cases: opposite / cyclic orders over managers with timeout setting 0 or negative
	nDirected := r.Pick(4, 40)
	for i := 0; i < nDirected; i++ {
		jobs = append(jobs, job{"behav", directedBase + i})
	}
	if nRace > 0 {
		for i := 0; i < r.Pick(1, 8); i++ {
			jobs = append(jobs, job{"race", directedBase + i})
		}
	}
	for i := 0; i < nBehav; i++ {
		jobs = append(jobs, job{"behav", i})
	}
	outs := make([]jobOut, len(jobs))
	common.Parallel(len(jobs), workers, func(i int) {
		outs[i] = runJob(r, jobs[i], scratch, raceBin)
	})
	_ = os.RemoveAll(scratch)

	// ---- aggregate ---------------------------------------------------------------------------------
	var distinct common.Distinct
	samples := &common.SampleKeeper{N: 6}
	tot := map[string]int{}
	edges := map[string]int{}
	aborted := map[string]int{}
	wraps := map[string]int{}
	kinds := map[string]int{}
	timeouts := map[int]int{}
	nctx := map[int]int{}
	nmgr := map[int]int{}
	directed := map[string]int{}
	raceSigs := map[string]int{}
	var raceObs []any
	evaluations := 0
	for _, o := range outs {
		tag := fmt.Sprintf("%s case %d", o.job.mode, o.job.idx)
		for _, rr := range o.races {
			raceSigs[rr.Sig]++
			if rr.Deciding {
				tot["races_deciding"]++
				r.Report("C07:data-race:"+rr.Field,
					"the race detector reports two sharers accessing the state that the shared-variable lock protects without synchronisation: "+rr.Sig,
					map[string]any{"case": o.c, "mode": "race", "race": rr, "oracle_key": "race"})
			} else {
				tot["races_observed_not_deciding"]++
				if len(raceObs) < 10 && raceSigs[rr.Sig] == 1 {
					raceObs = append(raceObs, rr)
				}
			}
		}
		if o.res == nil {
			r.Inconclusive(tag + ": " + o.failed)
			continue
		}
		evaluations++
		res := o.res
		if os.Getenv("C07_VERBOSE") != "" {
			fmt.Printf("%s: ctx=%d vars=%d to=%v secs=%d committed=%d aborted=%v waits=%d wall=%dms disrupt=%s heavy=%v\n", tag, o.c.NCtx, len(o.c.Vars), toList(o.c), o.c.Sections,
				res.Stats.Committed, res.Stats.Aborted, res.LockWaits, res.WallMs, o.c.Disrupt, o.c.Heavy)
		}
		for _, v := range res.Violations {
			w := map[string]any{"case": o.c, "mode": o.job.mode, "violation": v.Witness, "oracle_key": v.Key}
			if res.History != nil {
				w["history"] = res.History
			}
			if res.Deadlock != nil {
				w["deadlock"] = res.Deadlock
			}
			r.Report(v.Key, v.Desc, w)
		}
		if res.Stalled != "" {
			r.Inconclusive(tag + ": " + res.Stalled)
			tot["stalled_cases"]++
		}
		if res.Capped {
			tot["attempt_cap_reached_cases"]++
		}
		if !res.Complete {
			tot["incomplete_cases"]++
		}
		tot[o.job.mode+"_cases"]++
		tot["sections_committed"] += res.Stats.Committed
		tot["cross_ctx_edges"] += res.Stats.CrossCtxEdges
		tot["reads_checked"] += res.Stats.ReadsChecked
		tot["audits_checked"] += res.Stats.AuditsChecked
		tot["observer_samples"] += res.Samples
		tot["observer_samples_committed_state"] += res.Stats.SamplesOK
		tot["read_only_sections"] += res.Stats.ROSections
		tot["multi_manager_sections"] += res.Stats.MultiMgrSecs
		tot["lock_acquisitions_h8"] += res.LockWaits
		tot["lock_timeouts_h8"] += res.Timeouts
		tot["monitor_ticks"] += res.Ticks
		tot["timer_stall_events"] += res.TimerStalls
		if res.Stats.MaxListLen > tot["max_list_len"] {
			tot["max_list_len"] = res.Stats.MaxListLen
		}
		for k, v := range res.Stats.Edges {
			edges[k] += v
		}
		for k, v := range res.Stats.Aborted {
			aborted[k] += v
		}
		for _, vs := range o.c.Vars {
			wraps[vs.Wrap]++
			kinds[vs.Kind]++
			timeouts[vs.TimeoutMs]++
		}
		if o.c.Directed != "" {
			directed[o.c.Directed]++
		}
		nctx[o.c.NCtx]++
		nmgr[len(o.c.Vars)]++
		if o.c.Disrupt != "" {
			tot["cases_with_PGO_DISRUPT_CONCURRENCY"]++
		}
		if res.Complete && res.Stats.CrossCtxEdges >= 10 {
			distinct.Add(o.job.mode + ":" + res.Sig)
		}
		samples.Add(map[string]any{"mode": o.job.mode, "case": o.c, "committed": res.Stats.Committed, "aborted": res.Stats.Aborted,
			"edges": res.Stats.Edges, "lock_timeouts": res.Timeouts, "wall_ms": res.WallMs, "sections": res.SampleSecs})
	}
	extra := map[string]any{
		"totals": tot, "edges": edges, "aborted_attempts": aborted, "wrappings": wraps, "variable_kinds": kinds,
		"lock_timeouts_ms": intKeys(timeouts), "contexts_per_case": intKeys(nctx), "managers_per_case": intKeys(nmgr),
		"races_observed": len(raceSigs), "race_observations": raceObs, "deadlock_criterion_pre_rounds": preRounds, "directed_cases": directed,
	}
	floor := r.Pick(10, 100)
	r.Finish(common.Coverage{
		Evaluations:        evaluations,
		DistinctNontrivial: distinct.Len(),
		Rule:               "distinct commit-order signatures (hash of the sequence of context ids at commit points) among completed cases whose committed sections have >= 10 ww/wr/rw dependency edges between different contexts",
		Samples:            samples.S,
		Floor:              floor,
		Extra:              extra,
	}, []string{
		"held on the executions observed: configurations and plans are PRNG-generated (2-8 contexts, 1-6 managers, timeout settings -1, 0, 1-50 ms) plus directed opposite-order cases over managers with timeout setting 0 / negative; interleavings are whatever the Go scheduler, the perturbation and the code's own timeouts produced",
		"the H1 commit-point hook runs while the section still holds every lock it took; its sequence numbers are taken under one harness mutex",
		"real-time edges use a sequence number taken before the attempt's first shared access and one taken after every Commit returned (a subset of true real-time precedence)",
		"deadlock is decided only logically: H8 events show every running sharer inside the same tryEnsureLock call, each waiting for a variable held by another such sharer, unchanged across 5 rounds of canaries that wait exactly like acquireWithTimeout, AND the goroutine states show every one of them blocked without a timeout alternative (a plain channel operation, or the acquisition select of a manager whose timeout setting is <= 0, which Go >= 1.23 never parks in when an expiry case exists); sharers late in the timed select (timer/scheduler stalls of the machine), watchdog expiries and stalls are inconclusive",
		"race batches use no H8 callbacks and no cross-context harness synchronisation; only races whose two accesses are on LocalArchetypeResource.value/oldValue or localShared.hasLock decide",
	})
}

func toList(c Case) []int {
	var out []int
	for _, v := range c.Vars {
		out = append(out, v.TimeoutMs)
	}
	return out
}

func intKeys(m map[int]int) map[string]int {
	out := map[string]int{}
	for k, v := range m {
		out[fmt.Sprint(k)] = v
	}
	return out
}

func runJob(r *common.Run, j job, scratch, raceBin string) jobOut {
	o := jobOut{job: j}
	o.c = genCase(r.Seed, j.idx, j.mode, !r.Quick())
	dir := filepath.Join(scratch, fmt.Sprintf("%s-%d", j.mode, j.idx))
	_ = os.MkdirAll(dir, 0o755)
	defer os.RemoveAll(dir)
	out := filepath.Join(dir, "result.json")
	env := []string{
		fmt.Sprintf("C07_CASE=%d", j.idx), "C07_MODE=" + j.mode, fmt.Sprintf("C07_SEED=%d", r.Seed),
		"C07_OUT=" + out, "C07_SCRATCH=" + dir, "C07_TIER=" + r.Tier,
	}
	exe := ""
	if j.mode == "race" {
		exe = raceBin
		env = append(env, "GORACE=halt_on_error=0 log_path="+filepath.Join(dir, "race"))
	}
	if o.c.Disrupt != "" {
		env = append(env, "PGO_DISRUPT_CONCURRENCY="+o.c.Disrupt)
	}
	o.child = common.RunChild(exe, "case", dir, env, 150*time.Second)
	if j.mode == "race" {
		o.races = parseRaceLogs(dir)
	}
	buf, err := os.ReadFile(out)
	if err != nil {
		tail := o.child.Output
		if len(tail) > 1500 {
			tail = tail[len(tail)-1500:]
		}
		o.failed = fmt.Sprintf("child produced no result (watchdog=%v exit=%d): %s", o.child.TimedOut, o.child.ExitCode, tail)
		return o
	}
	var res Result
	if err := json.Unmarshal(buf, &res); err != nil {
		o.failed = "unreadable result: " + err.Error()
		return o
	}
	if res.SetupError != "" {
		o.failed = "set-up failed: " + res.SetupError
		return o
	}
	o.res = &res
	return o
}

// ---- replay ------------------------------------------------------------------------------------------

func doReplay(r *common.Run) {
	buf, err := os.ReadFile(r.Replay)
	if err != nil {
		fmt.Println("cannot read replay file:", err)
		os.Exit(3)
	}
	var f struct {
		Key     string `json:"key"`
		Witness struct {
			Case      json.RawMessage `json:"case"`
			Mode      string          `json:"mode"`
			History   *History        `json:"history"`
			Deadlock  *DeadlockInfo   `json:"deadlock"`
			Race      *RaceReport     `json:"race"`
			Violation map[string]any  `json:"violation"`
		} `json:"witness"`
	}
	if err := json.Unmarshal(buf, &f); err != nil {
		fmt.Println("cannot parse replay file:", err)
		os.Exit(3)
	}
	n := 0
	var mu sync.Mutex
	report := func(key, desc string, w map[string]any) {
		mu.Lock()
		n++
		mu.Unlock()
		r.Report(key, desc, w)
	}
	if d := f.Witness.Deadlock; d != nil && strings.HasPrefix(f.Key, "C07:deadlock") {
		// re-evaluate the logical criterion on the stored goroutine dump and H8 snapshot
		snaps := append([]SharerSnap(nil), d.Sharers...)
		if set := deadlockedSet(snaps, d.Goroutines); len(set) > 0 {
			d2 := *d
			d2.Sharers, d2.BlockedNoTimeout, d2.Running = snaps, len(set), len(snaps)
			key, desc := deadlockKey(&d2)
			report(key, "replayed: "+desc, map[string]any{"deadlock": &d2})
		}
	}
	if rr := f.Witness.Race; rr != nil {
		classifyRace(rr)
		if rr.Deciding {
			report("C07:data-race:"+rr.Field, "replayed: "+rr.Sig, map[string]any{"race": rr})
		}
	}
	if h := f.Witness.History; h != nil {
		viol, _ := CheckHistory(h)
		keys := map[string]bool{}
		for _, v := range viol {
			if !keys[v.Key] {
				keys[v.Key] = true
				report(v.Key, "replayed: "+v.Desc, map[string]any{"violation": v.Witness, "history": h})
			}
		}
	}
	if n == 0 && f.Witness.Violation != nil && (strings.HasPrefix(f.Key, "C07:sharer-run-failed") || strings.HasPrefix(f.Key, "C07:lock-held-by-no-section")) {
		// nothing to recompute: the witness is the observation itself
		report(f.Key, "replayed (stored observation)", map[string]any{"violation": f.Witness.Violation})
	}
	fmt.Printf("replay of %s: stored key %s, oracle reported %d violation(s)\n", r.Replay, f.Key, n)
	r.Finish(common.Coverage{Evaluations: 1, DistinctNontrivial: 1, Rule: "replay"}, nil)
}

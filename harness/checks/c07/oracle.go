package main

// Offline oracles for C07 over a recorded history of committed / aborted critical sections.
//
// Representation. Every shared variable is split into cells (a plain variable is one cell; a
// function-valued variable has one cell per index). A *list* cell holds a tuple of unique write
// ids and is only ever written by read-then-append, so every value ever observed for it has to be
// a prefix of one longest version F (anything else is a lost update / divergent history). Values
// are therefore stored as "prefix of F of length P" (or explicitly, P = -1, when they are not a
// prefix). An *acct* cell holds a number (conservation workload).
//
// Write id = attemptUID<<4 | writeNo; attemptUID = ctx<<22 | attemptNo, so the owner of every
// element of every list is known.

import (
	"fmt"
	"sort"
	"strings"
)

const (
	kindList = "list"
	kindAcct = "acct" // a number; the accounts' sum is invariant
	kindReg  = "reg"  // a number written blindly (no prior read); every written value is a unique write id
)

type Cell struct {
	Var  int     `json:"var"`
	J    int     `json:"j"` // 0: the variable itself, >0: index into a function-valued variable
	Kind string  `json:"kind"`
	Mgr  int     `json:"mgr"`
	Init int32   `json:"init"`        // acct cells
	F    []int32 `json:"f,omitempty"` // list cells: longest observed version
}

type Access struct {
	W bool    `json:"w,omitempty"`
	C int     `json:"c"`
	P int     `json:"p"`           // list cell: value == F[:P]; -1: explicit value in L
	L []int32 `json:"l,omitempty"` // explicit list (not a prefix of F)
	N int32   `json:"n,omitempty"` // acct cell: value
}

type Sec struct {
	Ctx    int      `json:"ctx"`
	UID    int32    `json:"uid"`
	K      int      `json:"k"`
	Begin  int64    `json:"begin,omitempty"`  // seq taken before the attempt's first shared access
	Commit int64    `json:"commit,omitempty"` // seq taken at the H1 commit point (locks held)
	Done   int64    `json:"done,omitempty"`   // seq taken after every Commit returned (0: not reached)
	Acc    []Access `json:"acc"`
}

type AbortRec struct {
	Ctx    int      `json:"ctx"`
	UID    int32    `json:"uid"`
	Kind   string   `json:"kind"` // timeout | fault-body | fault-precommit
	Writes []Access `json:"writes,omitempty"`
}

type Sample struct {
	Mgr   int      `json:"mgr"`
	Cells []Access `json:"cells"` // one per cell of the manager, in History.MgrCells[Mgr] order
}

type History struct {
	Cells    []Cell     `json:"cells"`
	MgrCells [][]int    `json:"mgr_cells"`
	Secs     []Sec      `json:"secs"` // committed sections; in commit-point order when HasSeq
	Aborts   []AbortRec `json:"aborts"`
	Samples  []Sample   `json:"samples,omitempty"`
	Final    []Access   `json:"final,omitempty"` // one per cell; nil if the run did not finish
	HasSeq   bool       `json:"has_seq"`
	Complete bool       `json:"complete"`
	SumConst int32      `json:"sum_const"`
	NAcct    int        `json:"n_acct"`
}

type Violation struct {
	Key     string         `json:"key"`
	Desc    string         `json:"desc"`
	Witness map[string]any `json:"witness"`
}

type OracleStats struct {
	Committed     int            `json:"committed"`
	Aborted       map[string]int `json:"aborted"`
	Edges         map[string]int `json:"edges"`
	CrossCtxEdges int            `json:"cross_ctx_edges"`
	ReadsChecked  int            `json:"reads_checked"`
	AuditsChecked int            `json:"audits_checked"`
	SamplesOK     int            `json:"samples_ok"`
	MaxListLen    int            `json:"max_list_len"`
	ROSections    int            `json:"read_only_sections"`
	MultiMgrSecs  int            `json:"multi_manager_sections"`
}

func owner(id int32) int32 { return id >> 4 }

func ownerCtx(id int32) int { return int(id >> 26) }

func (h *History) val(a Access) string {
	c := h.Cells[a.C]
	if c.Kind != kindList {
		return fmt.Sprint(a.N)
	}
	if a.P >= 0 {
		if a.P == 0 {
			return "<<>>"
		}
		return fmt.Sprintf("F[:%d](last id %d)", a.P, c.F[a.P-1])
	}
	return fmt.Sprintf("explicit%v", tailIDs(a.L, 6))
}

func tailIDs(l []int32, n int) []int32 {
	if len(l) > n {
		return l[len(l)-n:]
	}
	return l
}

func sameVal(k string, a, b Access) bool {
	if k != kindList {
		return a.N == b.N
	}
	if a.P >= 0 || b.P >= 0 {
		return a.P == b.P
	}
	if len(a.L) != len(b.L) {
		return false
	}
	for i := range a.L {
		if a.L[i] != b.L[i] {
			return false
		}
	}
	return true
}

func (h *History) cellName(c int) string {
	x := h.Cells[c]
	if x.J > 0 {
		return fmt.Sprintf("v%d[%d]", x.Var, x.J)
	}
	return fmt.Sprintf("v%d", x.Var)
}

func secBrief(h *History, s *Sec) map[string]any {
	var acc []string
	for _, a := range s.Acc {
		op := "R"
		if a.W {
			op = "W"
		}
		acc = append(acc, fmt.Sprintf("%s %s=%s", op, h.cellName(a.C), h.val(a)))
	}
	return map[string]any{"ctx": s.Ctx, "uid": s.UID, "section": s.K, "begin_seq": s.Begin, "commit_seq": s.Commit, "done_seq": s.Done, "accesses": acc}
}

// CheckHistory runs every oracle that the history supports. It never trusts wall-clock time.
func CheckHistory(h *History) ([]Violation, OracleStats) {
	st := OracleStats{Aborted: map[string]int{}, Edges: map[string]int{}}
	var out []Violation
	add := func(key, desc string, w map[string]any) {
		if len(out) < 40 {
			out = append(out, Violation{Key: key, Desc: desc, Witness: w})
		}
	}
	st.Committed = len(h.Secs)
	for _, a := range h.Aborts {
		st.Aborted[a.Kind]++
	}
	for _, c := range h.Cells {
		if len(c.F) > st.MaxListLen {
			st.MaxListLen = len(c.F)
		}
	}
	byUID := map[int32]int{}
	for i := range h.Secs {
		byUID[h.Secs[i].UID] = i
	}
	aborted := map[int32]string{}
	for _, a := range h.Aborts {
		aborted[a.UID] = a.Kind
	}

	// ---- 1. inside one section: read-your-writes, repeatable reads, append discipline -----------
	extReads := make([]map[int]Access, len(h.Secs))  // first external read per cell
	lastWrite := make([]map[int]Access, len(h.Secs)) // installed value per cell
	for i := range h.Secs {
		s := &h.Secs[i]
		er, lw := map[int]Access{}, map[int]Access{}
		mgrs := map[int]bool{}
		ro := true
		for _, a := range s.Acc {
			k := h.Cells[a.C].Kind
			mgrs[h.Cells[a.C].Mgr] = true
			if a.W {
				ro = false
				lw[a.C] = a
				continue
			}
			st.ReadsChecked++
			if w, ok := lw[a.C]; ok {
				if !sameVal(k, w, a) {
					add("C07:read-own-write-mismatch", fmt.Sprintf("section read %s = %s after writing %s in the same section", h.cellName(a.C), h.val(a), h.val(w)),
						map[string]any{"oracle": "internal", "section": secBrief(h, s)})
				}
				continue
			}
			if r, ok := er[a.C]; ok {
				if !sameVal(k, r, a) {
					add("C07:non-repeatable-read", fmt.Sprintf("section read %s twice without writing it and saw %s then %s", h.cellName(a.C), h.val(r), h.val(a)),
						map[string]any{"oracle": "internal", "section": secBrief(h, s)})
				}
				continue
			}
			er[a.C] = a
		}
		extReads[i], lastWrite[i] = er, lw
		if ro {
			st.ROSections++
		}
		if len(mgrs) > 1 {
			st.MultiMgrSecs++
		}
	}

	// ---- 2. version chain: every observed list value is a prefix of F; F has no duplicates ------
	divergent := 0
	reportDiv := func(where string, a Access, s *Sec) {
		divergent++
		c := h.Cells[a.C]
		cp := 0
		for cp < len(a.L) && cp < len(c.F) && a.L[cp] == c.F[cp] {
			cp++
		}
		w := map[string]any{"oracle": "version-chain", "cell": h.cellName(a.C), "where": where, "common_prefix_len": cp,
			"observed_len": len(a.L), "longest_len": len(c.F)}
		if cp < len(a.L) {
			w["observed_next_id"] = a.L[cp]
			w["observed_next_owner_ctx"] = ownerCtx(a.L[cp])
		}
		if cp < len(c.F) {
			w["longest_next_id"] = c.F[cp]
			w["longest_next_owner_ctx"] = ownerCtx(c.F[cp])
		}
		if s != nil {
			w["section"] = secBrief(h, s)
		}
		add("C07:divergent-versions", fmt.Sprintf("%s holds/observed a value of %s that is not a prefix of the longest version (they agree on %d elements, then differ): an append was lost or overwritten",
			where, h.cellName(a.C), cp), w)
	}
	for i := range h.Secs {
		for _, a := range h.Secs[i].Acc {
			if h.Cells[a.C].Kind == kindList && a.P < 0 {
				reportDiv("committed section", a, &h.Secs[i])
			}
		}
	}
	for _, a := range h.Final {
		if h.Cells[a.C].Kind == kindList && a.P < 0 {
			reportDiv("final state", a, nil)
		}
	}
	for _, sm := range h.Samples {
		for _, a := range sm.Cells {
			if h.Cells[a.C].Kind == kindList && a.P < 0 {
				reportDiv("GetState observer", a, nil)
			}
		}
	}
	pos := make([]map[int32]int, len(h.Cells)) // id -> position in F
	for ci, c := range h.Cells {
		if c.Kind != kindList {
			continue
		}
		pos[ci] = map[int32]int{}
		for p, id := range c.F {
			if q, dup := pos[ci][id]; dup {
				add("C07:duplicate-append", fmt.Sprintf("id %d occurs twice in %s (positions %d and %d)", id, h.cellName(ci), q, p),
					map[string]any{"oracle": "version-chain", "cell": h.cellName(ci), "id": id})
			}
			pos[ci][id] = p
		}
	}

	// ---- 3. aborted / uncommitted writes must be invisible; committed writes must survive ------
	for ci, c := range h.Cells {
		if c.Kind != kindList {
			continue
		}
		for p, id := range c.F {
			if _, ok := byUID[owner(id)]; ok {
				continue
			}
			if kind, ok := aborted[owner(id)]; ok {
				add("C07:aborted-write-visible", fmt.Sprintf("%s contains id %d at position %d written by an attempt of ctx %d that aborted (%s)", h.cellName(ci), id, p, ownerCtx(id), kind),
					map[string]any{"oracle": "visibility", "cell": h.cellName(ci), "id": id, "abort_kind": kind, "position": p})
			} else if h.Complete {
				add("C07:uncommitted-write-visible", fmt.Sprintf("%s contains id %d written by an attempt of ctx %d that neither committed nor aborted", h.cellName(ci), id, ownerCtx(id)),
					map[string]any{"oracle": "visibility", "cell": h.cellName(ci), "id": id})
			}
		}
	}
	regSeen := func(a Access, where string, s *Sec) {
		if h.Cells[a.C].Kind != kindReg || a.N == 0 {
			return
		}
		if _, ok := byUID[owner(a.N)]; ok {
			return
		}
		w := map[string]any{"oracle": "visibility", "cell": h.cellName(a.C), "id": a.N, "where": where}
		if s != nil {
			w["section"] = secBrief(h, s)
		}
		if kind, ok := aborted[owner(a.N)]; ok {
			w["abort_kind"] = kind
			add("C07:aborted-write-visible", fmt.Sprintf("%s saw %s = %d, written by an attempt of ctx %d that aborted (%s)", where, h.cellName(a.C), a.N, ownerCtx(a.N), kind), w)
		} else if h.Complete {
			add("C07:uncommitted-write-visible", fmt.Sprintf("%s saw %s = %d, written by an attempt of ctx %d that neither committed nor aborted", where, h.cellName(a.C), a.N, ownerCtx(a.N)), w)
		}
	}
	for i := range h.Secs {
		for _, a := range extReads[i] {
			regSeen(a, "a committed section", &h.Secs[i])
		}
	}
	for _, a := range h.Final {
		regSeen(a, "the final state", nil)
	}
	if h.Final != nil {
		for i := range h.Secs {
			s := &h.Secs[i]
			for _, a := range s.Acc {
				if !a.W || h.Cells[a.C].Kind != kindList {
					continue
				}
				// the ids this section appended: elements owned by it in the written value
				var lst []int32
				if a.P >= 0 {
					lst = h.Cells[a.C].F[:a.P]
				} else {
					lst = a.L
				}
				fin := h.Final[a.C]
				for _, id := range lst {
					if owner(id) != s.UID {
						continue
					}
					p, ok := pos[a.C][id]
					if fin.P >= 0 && (!ok || p >= fin.P) {
						add("C07:lost-update", fmt.Sprintf("committed section (ctx %d, uid %d) appended id %d to %s but the final value does not contain it", s.Ctx, s.UID, id, h.cellName(a.C)),
							map[string]any{"oracle": "visibility", "cell": h.cellName(a.C), "id": id, "section": secBrief(h, s)})
					}
				}
			}
		}
	}

	// ---- 4. dependency graph (ww, wr, rw, real time) must be acyclic ---------------------------
	if divergent == 0 {
		if v := checkGraph(h, byUID, extReads, &st); v != nil {
			add(v.Key, v.Desc, v.Witness)
		}
	}

	// ---- 5. the commit-point order is a serial order (replay) + observer samples ---------------
	if h.HasSeq {
		replay(h, extReads, &st, add)
	} else {
		// without a global order: a sample must at least be an installed version of every cell
		installed := make([]map[int]bool, len(h.Cells))
		for ci := range h.Cells {
			installed[ci] = map[int]bool{0: true}
		}
		for i := range h.Secs {
			for c, a := range lastWrite[i] {
				if h.Cells[c].Kind == kindList && a.P >= 0 {
					installed[c][a.P] = true
				}
			}
		}
		for _, sm := range h.Samples {
			ok := true
			for _, a := range sm.Cells {
				if h.Cells[a.C].Kind == kindList && a.P >= 0 && !installed[a.C][a.P] && h.Complete {
					ok = false
					add("C07:observer-saw-uncommitted-state", fmt.Sprintf("GetState returned %s = %s, which no committed section installed", h.cellName(a.C), h.val(a)),
						map[string]any{"oracle": "observer", "cell": h.cellName(a.C), "prefix_len": a.P})
				}
			}
			if ok {
				st.SamplesOK++
			}
		}
	}

	// ---- 6. conservation: every committed section that read every account saw the constant sum --
	if h.NAcct > 0 {
		check := func(vals map[int]int32, what string, s *Sec) {
			if len(vals) != h.NAcct {
				return
			}
			st.AuditsChecked++
			var sum int32
			for _, v := range vals {
				sum += v
			}
			if sum != h.SumConst {
				w := map[string]any{"oracle": "conservation", "sum": sum, "expected": h.SumConst, "where": what}
				if s != nil {
					w["section"] = secBrief(h, s)
				}
				add("C07:invariant-broken:sum", fmt.Sprintf("%s saw account sum %d, expected %d", what, sum, h.SumConst), w)
			}
		}
		for i := range h.Secs {
			vals := map[int]int32{}
			for c, a := range extReads[i] {
				if h.Cells[c].Kind == kindAcct {
					vals[c] = a.N
				}
			}
			check(vals, "a committed section reading all accounts", &h.Secs[i])
		}
		if h.Final != nil {
			vals := map[int]int32{}
			for _, a := range h.Final {
				if h.Cells[a.C].Kind == kindAcct {
					vals[a.C] = a.N
				}
			}
			check(vals, "the final state", nil)
		}
	}
	return out, st
}

// replay applies the committed sections in commit-point order to a sequential model; every external
// read must return the model's current value. Also collects the set of committed states of every
// manager and checks observer samples and the final state against it.
func replay(h *History, extReads []map[int]Access, st *OracleStats, add func(string, string, map[string]any)) {
	cur := make([]Access, len(h.Cells))
	lastWriter := make([]int, len(h.Cells))
	for ci, c := range h.Cells {
		cur[ci] = Access{C: ci, P: 0, N: c.Init}
		lastWriter[ci] = -1
	}
	stateKey := func(m int) string {
		var sb strings.Builder
		for _, c := range h.MgrCells[m] {
			a := cur[c]
			if h.Cells[c].Kind != kindList {
				fmt.Fprintf(&sb, "n%d;", a.N)
			} else if a.P >= 0 {
				fmt.Fprintf(&sb, "p%d;", a.P)
			} else {
				fmt.Fprintf(&sb, "x%v;", a.L)
			}
		}
		return sb.String()
	}
	states := make([]map[string]bool, len(h.MgrCells))
	for m := range h.MgrCells {
		states[m] = map[string]bool{stateKey(m): true}
	}
	mismatches := 0
	for i := range h.Secs {
		s := &h.Secs[i]
		if i > 0 && h.Secs[i-1].Commit >= s.Commit {
			add("C07:harness-history-not-ordered", "internal: committed sections are not in commit-point order", map[string]any{"oracle": "replay"})
			return
		}
		// external reads against the model
		for c, a := range extReads[i] {
			k := h.Cells[c].Kind
			if sameVal(k, cur[c], a) {
				continue
			}
			mismatches++
			if mismatches > 5 {
				continue
			}
			class := "acct-mismatch"
			if k == kindReg {
				class = "register-mismatch"
			}
			if k == kindList {
				switch {
				case a.P >= 0 && cur[c].P >= 0 && a.P < cur[c].P:
					class = "stale-read"
				case a.P >= 0 && cur[c].P >= 0 && a.P > cur[c].P:
					class = "read-of-later-write"
				default:
					class = "divergent"
				}
			}
			w := map[string]any{"oracle": "replay", "cell": h.cellName(c), "read": h.val(a), "model": h.val(cur[c]), "reader": secBrief(h, s)}
			if lw := lastWriter[c]; lw >= 0 {
				w["latest_prior_writer"] = secBrief(h, &h.Secs[lw])
			}
			add("C07:commit-order-replay:"+class, fmt.Sprintf("in commit-point order, section (ctx %d, uid %d, commit seq %d) read %s = %s but the latest prior committed write left %s",
				s.Ctx, s.UID, s.Commit, h.cellName(c), h.val(a), h.val(cur[c])), w)
		}
		// install writes
		touched := map[int]bool{}
		for _, a := range s.Acc {
			if a.W {
				cur[a.C] = a
				lastWriter[a.C] = i
				touched[h.Cells[a.C].Mgr] = true
			}
		}
		for m := range touched {
			states[m][stateKey(m)] = true
		}
	}
	// observer samples: a committed state of the manager
	for _, sm := range h.Samples {
		var sb strings.Builder
		for _, a := range sm.Cells {
			if h.Cells[a.C].Kind != kindList {
				fmt.Fprintf(&sb, "n%d;", a.N)
			} else if a.P >= 0 {
				fmt.Fprintf(&sb, "p%d;", a.P)
			} else {
				fmt.Fprintf(&sb, "x%v;", a.L)
			}
		}
		if states[sm.Mgr][sb.String()] {
			st.SamplesOK++
			continue
		}
		if !h.Complete {
			continue // the committing section may not have been recorded yet
		}
		var vals []string
		for _, a := range sm.Cells {
			vals = append(vals, h.cellName(a.C)+"="+h.val(a))
		}
		add("C07:observer-saw-uncommitted-state", fmt.Sprintf("GetState of manager %d returned %v, which is not the state after any committed section", sm.Mgr, vals),
			map[string]any{"oracle": "observer", "manager": sm.Mgr, "sample": vals})
	}
	if h.Final != nil {
		for _, a := range h.Final {
			k := h.Cells[a.C].Kind
			if !sameVal(k, cur[a.C], a) {
				w := map[string]any{"oracle": "replay-final", "cell": h.cellName(a.C), "final": h.val(a), "model": h.val(cur[a.C])}
				if lw := lastWriter[a.C]; lw >= 0 {
					w["last_committed_writer"] = secBrief(h, &h.Secs[lw])
				}
				add("C07:final-state-mismatch", fmt.Sprintf("final value of %s is %s but the committed sections in commit order leave %s", h.cellName(a.C), h.val(a), h.val(cur[a.C])), w)
			}
		}
	}
}

// ---- dependency graph --------------------------------------------------------------------------

type edgeKey struct{ u, v int }

func checkGraph(h *History, byUID map[int32]int, extReads []map[int]Access, st *OracleStats) *Violation {
	n := len(h.Secs)
	adj := make([][]int, n)
	etype := map[edgeKey]string{}
	ecell := map[edgeKey]int{}
	addEdge := func(u, v int, t string, c int) {
		if u == v {
			return
		}
		k := edgeKey{u, v}
		if _, ok := etype[k]; ok {
			return
		}
		etype[k] = t
		ecell[k] = c
		adj[u] = append(adj[u], v)
		st.Edges[t]++
		if h.Secs[u].Ctx != h.Secs[v].Ctx {
			st.CrossCtxEdges++
		}
	}
	for ci, c := range h.Cells {
		if c.Kind != kindList {
			continue
		}
		// ww: consecutive known committed owners in version order
		prev := -1
		nextWriter := make([]int, len(c.F)+1) // nextWriter[p] = committed section owning the first known id at position >= p
		for p := range c.F {
			o, ok := byUID[owner(c.F[p])]
			if !ok {
				continue
			}
			if prev >= 0 && prev != o {
				addEdge(prev, o, "ww", ci)
			}
			prev = o
		}
		nx := -1
		nextWriter[len(c.F)] = -1
		for p := len(c.F) - 1; p >= 0; p-- {
			if o, ok := byUID[owner(c.F[p])]; ok {
				nx = o
			}
			nextWriter[p] = nx
		}
		for i := range h.Secs {
			a, ok := extReads[i][ci]
			if !ok || a.P < 0 {
				continue
			}
			// wr: the writer of the last known element read
			for p := a.P - 1; p >= 0; p-- {
				if o, ok := byUID[owner(c.F[p])]; ok {
					addEdge(o, i, "wr", ci)
					break
				}
			}
			// rw: the next writer after the version read
			if w := nextWriter[a.P]; w >= 0 {
				addEdge(i, w, "rw", ci)
			}
		}
	}
	for ci, c := range h.Cells {
		if c.Kind != kindReg {
			continue
		}
		for i := range h.Secs {
			if a, ok := extReads[i][ci]; ok && a.N != 0 {
				if o, ok := byUID[owner(a.N)]; ok {
					addEdge(o, i, "wr", ci)
				}
			}
		}
	}
	// real time through a chain of time nodes
	total := n
	tadj := map[int][]int{}
	if h.HasSeq {
		type ev struct {
			seq   int64
			sec   int
			begin bool
		}
		var evs []ev
		for i := range h.Secs {
			s := &h.Secs[i]
			if s.Begin > 0 {
				evs = append(evs, ev{s.Begin, i, true})
			}
			if s.Done > 0 {
				evs = append(evs, ev{s.Done, i, false})
			}
		}
		sort.Slice(evs, func(a, b int) bool { return evs[a].seq < evs[b].seq })
		for k, e := range evs {
			t := n + k
			if k+1 < len(evs) {
				tadj[t] = append(tadj[t], t+1)
			}
			if e.begin {
				tadj[t] = append(tadj[t], e.sec)
			} else {
				adj[e.sec] = append(adj[e.sec], t)
			}
		}
		total = n + len(evs)
		st.Edges["rt_events"] += len(evs)
	}
	succ := func(u int) []int {
		if u < n {
			return adj[u]
		}
		return tadj[u]
	}
	// Tarjan (iterative)
	index := make([]int, total)
	low := make([]int, total)
	onst := make([]bool, total)
	comp := make([]int, total)
	for i := range index {
		index[i] = -1
		comp[i] = -1
	}
	var stack []int
	idx, ncomp := 0, 0
	compSize := []int{}
	type frame struct{ u, i int }
	for root := 0; root < total; root++ {
		if index[root] >= 0 {
			continue
		}
		fr := []frame{{root, 0}}
		index[root], low[root] = idx, idx
		idx++
		stack = append(stack, root)
		onst[root] = true
		for len(fr) > 0 {
			f := &fr[len(fr)-1]
			ss := succ(f.u)
			if f.i < len(ss) {
				v := ss[f.i]
				f.i++
				if index[v] < 0 {
					index[v], low[v] = idx, idx
					idx++
					stack = append(stack, v)
					onst[v] = true
					fr = append(fr, frame{v, 0})
				} else if onst[v] && index[v] < low[f.u] {
					low[f.u] = index[v]
				}
				continue
			}
			u := f.u
			fr = fr[:len(fr)-1]
			if len(fr) > 0 {
				p := fr[len(fr)-1].u
				if low[u] < low[p] {
					low[p] = low[u]
				}
			}
			if low[u] == index[u] {
				size := 0
				for {
					v := stack[len(stack)-1]
					stack = stack[:len(stack)-1]
					onst[v] = false
					comp[v] = ncomp
					size++
					if v == u {
						break
					}
				}
				compSize = append(compSize, size)
				ncomp++
			}
		}
	}
	// find a short cycle in a non-trivial component
	var best []int
	tried := 0
	for s := 0; s < n && tried < 300; s++ {
		if compSize[comp[s]] < 2 {
			continue
		}
		tried++
		// BFS from s back to s inside the component
		prev := map[int]int{}
		q := []int{s}
		found := -1
		for len(q) > 0 && found < 0 {
			u := q[0]
			q = q[1:]
			for _, v := range succ(u) {
				if comp[v] != comp[s] {
					continue
				}
				if v == s {
					found = u
					break
				}
				if _, ok := prev[v]; !ok && v != s {
					prev[v] = u
					q = append(q, v)
				}
			}
		}
		if found < 0 {
			continue
		}
		cyc := []int{}
		for u := found; u != s; u = prev[u] {
			cyc = append(cyc, u)
		}
		cyc = append(cyc, s)
		// reverse to get s -> ... -> found
		for i, j := 0, len(cyc)-1; i < j; i, j = i+1, j-1 {
			cyc[i], cyc[j] = cyc[j], cyc[i]
		}
		secs := 0
		for _, u := range cyc {
			if u < n {
				secs++
			}
		}
		bsecs := 0
		for _, u := range best {
			if u < n {
				bsecs++
			}
		}
		if best == nil || secs < bsecs {
			best = cyc
		}
	}
	if best == nil {
		return nil
	}
	// collapse time nodes
	var nodes []int
	for _, u := range best {
		if u < n {
			nodes = append(nodes, u)
		}
	}
	var steps []map[string]any
	types := map[string]bool{}
	for i, u := range nodes {
		v := nodes[(i+1)%len(nodes)]
		t, ok := etype[edgeKey{u, v}]
		// was the step taken through time nodes in the found cycle?
		direct := false
		for k, x := range best {
			if x == u && best[(k+1)%len(best)] == v {
				direct = true
			}
		}
		step := map[string]any{"from": secBrief(h, &h.Secs[u])}
		if ok && direct {
			step["edge"] = t
			step["cell"] = h.cellName(ecell[edgeKey{u, v}])
		} else {
			t = "rt"
			step["edge"] = "rt"
			step["why"] = fmt.Sprintf("done seq %d < begin seq %d", h.Secs[u].Done, h.Secs[v].Begin)
		}
		types[t] = true
		steps = append(steps, step)
	}
	var tl []string
	for t := range types {
		tl = append(tl, t)
	}
	sort.Strings(tl)
	key := "C07:dependency-cycle:" + strings.Join(tl, "+")
	return &Violation{Key: key,
		Desc:    fmt.Sprintf("the committed sections' dependency graph has a cycle of %d sections (edge kinds %s): no serial order consistent with real time explains what they read and wrote", len(nodes), strings.Join(tl, "+")),
		Witness: map[string]any{"oracle": "graph", "cycle": steps}}
}

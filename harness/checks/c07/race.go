package main

// Race-detector reports (E7): parse GORACE log files, decide only on races whose two accesses are both
// in the code that the shared-variable lock protects (LocalArchetypeResource.value / oldValue,
// localShared.hasLock); everything else is an observation.

import (
	"bufio"
	"fmt"
	"os"
	"path/filepath"
	"regexp"
	"strconv"
	"strings"
)

type raceFrame struct {
	Func string `json:"func"`
	File string `json:"file"`
	Line int    `json:"line"`
}

type RaceReport struct {
	Accesses []string      `json:"accesses"` // "Write at ... by goroutine 12", "Previous read at ..."
	Tops     []raceFrame   `json:"top_frames"`
	Stacks   [][]raceFrame `json:"stacks"`
	SrcLines []string      `json:"source_lines,omitempty"` // source text of the attributed frames (kept for replay)
	Field    string        `json:"field,omitempty"`        // protected field class if deciding
	Deciding bool          `json:"deciding"`
	Sig      string        `json:"sig"`
}

var (
	accessRe = regexp.MustCompile(`^(Write|Read|Previous write|Previous read|Atomic write|Atomic read|Previous atomic write|Previous atomic read) at 0x[0-9a-f]+ by (goroutine \d+|main goroutine)`)
	fileRe   = regexp.MustCompile(`^\s+(\S+\.go):(\d+)`)
)

func parseRaceLogs(dir string) []RaceReport {
	files, _ := filepath.Glob(filepath.Join(dir, "race.*"))
	var out []RaceReport
	for _, f := range files {
		fh, err := os.Open(f)
		if err != nil {
			continue
		}
		sc := bufio.NewScanner(fh)
		sc.Buffer(make([]byte, 1<<20), 1<<24)
		var cur *RaceReport
		inAccess := false
		var pendingFunc string
		flush := func() {
			if cur != nil && len(cur.Stacks) > 0 {
				out = append(out, *cur)
			}
			cur = nil
		}
		for sc.Scan() {
			line := sc.Text()
			switch {
			case strings.HasPrefix(line, "WARNING: DATA RACE"):
				flush()
				cur = &RaceReport{}
				inAccess = false
			case cur == nil:
			case strings.HasPrefix(line, "=================="):
				flush()
			case accessRe.MatchString(line):
				cur.Accesses = append(cur.Accesses, strings.TrimSuffix(line, ":"))
				cur.Stacks = append(cur.Stacks, nil)
				inAccess = true
				pendingFunc = ""
			case strings.HasPrefix(line, "Goroutine ") || strings.HasPrefix(line, "Location "):
				inAccess = false
			case inAccess && strings.TrimSpace(line) == "":
				inAccess = false
			case inAccess:
				if m := fileRe.FindStringSubmatch(line); m != nil && pendingFunc != "" {
					n, _ := strconv.Atoi(m[2])
					fr := raceFrame{Func: pendingFunc, File: m[1], Line: n}
					k := len(cur.Stacks) - 1
					if len(cur.Stacks[k]) < 48 {
						cur.Stacks[k] = append(cur.Stacks[k], fr)
					}
					pendingFunc = ""
				} else {
					pendingFunc = strings.TrimSpace(line)
				}
			}
		}
		flush()
		fh.Close()
	}
	var kept []RaceReport
	for i := range out {
		if len(out[i].Stacks) == 0 || len(out[i].Stacks[0]) == 0 {
			continue
		}
		classifyRace(&out[i])
		kept = append(kept, out[i])
	}
	return kept
}

func protectedFile(f string) bool {
	return strings.HasSuffix(f, "/distsys/archetyperesource.go") || strings.HasSuffix(f, "/distsys/resources/localshared.go")
}

var fieldRe = regexp.MustCompile(`\b(oldValue|value|hasLock)\b`)

func sourceLine(file string, line int) string {
	fh, err := os.Open(file)
	if err != nil {
		return ""
	}
	defer fh.Close()
	sc := bufio.NewScanner(fh)
	for n := 1; sc.Scan(); n++ {
		if n == line {
			return sc.Text()
		}
	}
	return ""
}

// projectFrame reports whether a frame belongs to the code under test or the harness (not the Go
// runtime / standard library): the access is attributed to the innermost such frame, so that e.g. gob
// encoding &res.value inside GetState is attributed to GetState.
func projectFrame(f raceFrame) bool {
	return strings.HasPrefix(f.Func, "github.com/DistCompiler/pgo/") || strings.HasPrefix(f.Func, "main.") || strings.HasPrefix(f.Func, "verifh/")
}

func classifyRace(r *RaceReport) {
	r.Tops = nil
	for _, st := range r.Stacks {
		if len(st) == 0 {
			continue
		}
		top := st[0]
		found := false
		// innermost frame inside the code the lock protects (e.g. GetState handing &res.value to gob) ...
		for _, f := range st {
			if protectedFile(f.File) {
				top, found = f, true
				break
			}
		}
		// ... else the innermost frame of the project
		for _, f := range st {
			if !found && projectFrame(f) {
				top, found = f, true
			}
		}
		r.Tops = append(r.Tops, top)
	}
	for i, st := range r.Stacks { // keep what a reader needs: down to the attributed frame
		cut := len(st)
		for k, f := range st {
			if i < len(r.Tops) && f == r.Tops[i] {
				cut = k + 3
				break
			}
		}
		if cut < len(st) {
			r.Stacks[i] = st[:cut]
		}
	}
	var parts []string
	for _, t := range r.Tops {
		parts = append(parts, fmt.Sprintf("%s@%s:%d", t.Func, filepath.Base(t.File), t.Line))
	}
	r.Sig = strings.Join(parts, " | ")
	if len(r.Tops) < 2 {
		return
	}
	fields := map[string]bool{}
	stored := r.SrcLines
	r.SrcLines = nil
	for i, t := range r.Tops[:2] {
		if !protectedFile(t.File) {
			return
		}
		src := sourceLine(t.File, t.Line)
		if src == "" && i < len(stored) {
			src = stored[i]
		}
		r.SrcLines = append(r.SrcLines, strings.TrimSpace(src))
		m := fieldRe.FindAllString(src, -1)
		if src != "" && len(m) == 0 {
			return // protected file, but the line touches none of the protected fields (e.g. the vector clock)
		}
		for _, x := range m {
			fields[x] = true
		}
	}
	r.Deciding = true
	switch {
	case fields["hasLock"] && !fields["value"] && !fields["oldValue"]:
		r.Field = "localShared.hasLock"
	case fields["hasLock"]:
		r.Field = "mixed"
	case len(fields) == 0:
		r.Field = "shared-variable-state"
	default:
		r.Field = "LocalArchetypeResource.value"
	}
}

package main

import (
	"math/rand"

	rv "verifh/refval"
)

// kind-preserving one-step reductions of a literal (the argument-kind signature, and therefore the
// key, is invariant under shrinking; shrinking only makes the witness small).
func reductions(l rv.Lit) []rv.Lit {
	var out []rv.Lit
	switch l.T {
	case "i":
		try := func(v int64) {
			if v != l.I && (v < 0) == (l.I < 0) && (v == 0) == (l.I == 0) && abs(v) < abs(l.I) {
				out = append(out, rv.LI(v))
			}
		}
		if l.I > 0 {
			try(1)
			try(2)
		} else {
			try(-1)
			try(-2)
		}
		try(l.I / 2)
		if l.I > 0 {
			try(l.I - 1)
		} else {
			try(l.I + 1)
		}
	case "s":
		if len(l.S) > 1 {
			out = append(out, rv.LS(l.S[:1]))
		}
	case "set", "tup", "fn":
		if len(l.Xs) > 1 {
			for i := range l.Xs {
				c := rv.Lit{T: l.T}
				c.Xs = append(append([]rv.Lit(nil), l.Xs[:i]...), l.Xs[i+1:]...)
				if l.T == "fn" {
					c.Ys = append(append([]rv.Lit(nil), l.Ys[:i]...), l.Ys[i+1:]...)
				}
				out = append(out, c)
			}
		}
		for i := range l.Xs {
			for _, r := range reductions(l.Xs[i]) {
				c := rv.Lit{T: l.T, Xs: append([]rv.Lit(nil), l.Xs...), Ys: l.Ys}
				c.Xs[i] = r
				out = append(out, c)
			}
		}
		for i := range l.Ys {
			for _, r := range reductions(l.Ys[i]) {
				c := rv.Lit{T: l.T, Xs: l.Xs, Ys: append([]rv.Lit(nil), l.Ys...)}
				c.Ys[i] = r
				out = append(out, c)
			}
		}
	}
	return out
}

func abs(v int64) int64 {
	if v < 0 {
		return -v
	}
	return v
}

func litSize(l rv.Lit) int {
	n := 1
	if l.T == "i" {
		switch {
		case abs(l.I) > 1000:
			n += 3
		case abs(l.I) > 2:
			n += 1
		}
	}
	n += len(l.S)
	for _, x := range l.Xs {
		n += litSize(x)
	}
	for _, y := range l.Ys {
		n += litSize(y)
	}
	return n
}

// reproduces re-runs the standalone node and reports whether the same key is reported for the root.
func reproduces(node rv.Expr, env []rv.Lit, key string) (Disc, bool) {
	r := NewReal(rand.New(rand.NewSource(11)), nil)
	r.RunCase(&node, env)
	for _, d := range r.discs {
		if d.Key == key && d.Op == node.Op {
			return d, true
		}
	}
	return Disc{}, false
}

// shrink greedily reduces the literals of a discrepancy's reproducer while the same key is reported.
func shrink(d Disc) Disc {
	budget := 200
	best := d
	// literal positions: direct args, substitution keys, environment
	type pos struct {
		get func(n *rv.Expr, env []rv.Lit) *rv.Lit
	}
	var ps []pos
	for i := range d.Node.Args {
		i := i
		if d.Node.Args[i].Op == "lit" {
			ps = append(ps, pos{func(n *rv.Expr, env []rv.Lit) *rv.Lit { return n.Args[i].Lit }})
		}
	}
	for i := range d.Node.Subs {
		for j := range d.Node.Subs[i].Keys {
			i, j := i, j
			if d.Node.Subs[i].Keys[j].Op == "lit" {
				ps = append(ps, pos{func(n *rv.Expr, env []rv.Lit) *rv.Lit { return n.Subs[i].Keys[j].Lit }})
			}
		}
	}
	for i := range d.Env {
		i := i
		ps = append(ps, pos{func(n *rv.Expr, env []rv.Lit) *rv.Lit { return &env[i] }})
	}
	clone := func(n rv.Expr, env []rv.Lit) (rv.Expr, []rv.Lit) {
		c := n
		c.Args = make([]rv.Expr, len(n.Args))
		for i, a := range n.Args {
			c.Args[i] = a
			if a.Lit != nil {
				l := *a.Lit
				c.Args[i].Lit = &l
			}
		}
		c.Subs = make([]rv.Sub, len(n.Subs))
		for i, s := range n.Subs {
			c.Subs[i] = rv.Sub{Val: s.Val, Keys: make([]rv.Expr, len(s.Keys))}
			for j, k := range s.Keys {
				c.Subs[i].Keys[j] = k
				if k.Lit != nil {
					l := *k.Lit
					c.Subs[i].Keys[j].Lit = &l
				}
			}
		}
		return c, append([]rv.Lit(nil), env...)
	}
	improved := true
	for improved && budget > 0 {
		improved = false
		for _, p := range ps {
			curLit := *p.get(&best.Node, best.Env)
			for _, cand := range reductions(curLit) {
				if budget <= 0 {
					break
				}
				if litSize(cand) >= litSize(curLit) {
					continue
				}
				n, env := clone(best.Node, best.Env)
				*p.get(&n, env) = cand
				budget--
				if nd, ok := reproduces(n, env, d.Key); ok {
					nd.CaseID = d.CaseID
					nd.Shrunk = true
					best = nd
					improved = true
					break
				}
			}
		}
	}
	return best
}

package main

import (
	"math/rand"

	rv "verifh/refval"
)

// ---------------------------------------------------------------------------------------------
// Type-directed generator of literals and expressions.

type Ty struct {
	K     string // bool int str set seq fn rec
	A, B  *Ty    // set/seq: A element; fn: A key, B value
	Names []string
	Fs    []*Ty
}

var (
	tBool = &Ty{K: "bool"}
	tInt  = &Ty{K: "int"}
	tStr  = &Ty{K: "str"}
)

func tSet(a *Ty) *Ty   { return &Ty{K: "set", A: a} }
func tSeq(a *Ty) *Ty   { return &Ty{K: "seq", A: a} }
func tFn(a, b *Ty) *Ty { return &Ty{K: "fn", A: a, B: b} }

type G struct {
	rng      *rand.Rand
	boundary bool // prefer edge integers and empty collections
	scope    []*Ty
}

var intEdges = []int64{rv.MinInt, rv.MinInt + 1, -2, -1, 0, 1, 2, rv.MaxInt - 1, rv.MaxInt}
var fieldNames = []string{"a", "b", "c", "d"}
var strPool = []string{"", "a", "b", "ab", "c", "x y", "q\"r"}

func (g *G) p(x float64) bool { return g.rng.Float64() < x }

func (g *G) atomTy() *Ty {
	switch g.rng.Intn(5) {
	case 0:
		return tBool
	case 1:
		return tStr
	}
	return tInt
}

func (g *G) anyTy(d int) *Ty {
	if d <= 0 || g.p(0.45) {
		return g.atomTy()
	}
	switch g.rng.Intn(6) {
	case 0, 1:
		return tSet(g.anyTy(d - 1))
	case 2, 3:
		return tSeq(g.anyTy(d - 1))
	case 4:
		return tFn(g.keyTy(), g.anyTy(d-1))
	}
	n := 1 + g.rng.Intn(3)
	t := &Ty{K: "rec"}
	perm := g.rng.Perm(len(fieldNames))
	for i := 0; i < n; i++ {
		t.Names = append(t.Names, fieldNames[perm[i]])
		t.Fs = append(t.Fs, g.anyTy(d-1))
	}
	return t
}

func (g *G) keyTy() *Ty {
	if g.p(0.15) {
		return tSeq(tInt)
	}
	if g.p(0.3) {
		return tStr
	}
	return tInt
}

func (g *G) size() int {
	if g.boundary && g.p(0.35) {
		return 0
	}
	return g.rng.Intn(5)
}

func (g *G) intLit() int64 {
	pe := 0.04
	if g.boundary {
		pe = 0.5
	}
	if g.p(pe) {
		return intEdges[g.rng.Intn(len(intEdges))]
	}
	if g.p(0.05) {
		return int64(g.rng.Intn(200001) - 100000)
	}
	return int64(g.rng.Intn(9) - 3)
}

// lit generates a literal of type t.
func (g *G) lit(t *Ty) rv.Lit {
	switch t.K {
	case "bool":
		return rv.LB(g.p(0.5))
	case "int":
		return rv.LI(g.intLit())
	case "str":
		return rv.LS(strPool[g.rng.Intn(len(strPool))])
	case "set":
		n := g.size()
		xs := make([]rv.Lit, n)
		for i := range xs {
			xs[i] = g.lit(t.A)
		}
		return rv.LSet(xs...)
	case "seq":
		n := g.size()
		xs := make([]rv.Lit, n)
		for i := range xs {
			xs[i] = g.lit(t.A)
		}
		if n > 0 && g.p(0.04) { // the same sequence written as a function with domain 1..n
			ks := make([]rv.Lit, n)
			for i := range ks {
				ks[i] = rv.LI(int64(i + 1))
			}
			return rv.LFn(ks, xs)
		}
		return rv.LTup(xs...)
	case "fn":
		n := g.size()
		ks := make([]rv.Lit, 0, n)
		vs := make([]rv.Lit, 0, n)
		for i := 0; i < n; i++ {
			ks = append(ks, g.lit(t.A))
			vs = append(vs, g.lit(t.B))
		}
		return rv.LFn(ks, vs)
	case "rec":
		ks := make([]rv.Lit, len(t.Names))
		vs := make([]rv.Lit, len(t.Names))
		for i, n := range t.Names {
			ks[i] = rv.LS(n)
			vs[i] = g.lit(t.Fs[i])
		}
		return rv.LFn(ks, vs)
	}
	panic("lit: " + t.K)
}

// otherKind generates a literal whose top-level kind differs from t's.
func (g *G) otherKind(t *Ty) rv.Lit {
	for {
		c := illTyped[g.rng.Intn(len(illTyped))]
		k := rv.KindSig(c)
		if len(k) >= 3 && k[:3] == t.K[:3] {
			continue
		}
		if t.K == "rec" && c.T == "fn" || t.K == "seq" && c.T == "tup" {
			continue
		}
		return c
	}
}

// representative values of every kind (used for ill-typed arguments and for the kind grid)
var illTyped = []rv.Lit{
	rv.LB(true), rv.LI(0), rv.LI(1), rv.LI(-1), rv.LS("a"), rv.LS(""),
	rv.LSet(), rv.LSet(rv.LI(1)), rv.LSet(rv.LS("a")), rv.LSet(rv.LSet()),
	rv.LTup(), rv.LTup(rv.LI(1)), rv.LTup(rv.LS("a"), rv.LS("b")),
	rv.LFn([]rv.Lit{rv.LI(1)}, []rv.Lit{rv.LI(1)}),
	rv.LFn([]rv.Lit{rv.LI(0)}, []rv.Lit{rv.LI(1)}),
	rv.LFn([]rv.Lit{rv.LS("a")}, []rv.Lit{rv.LI(1)}),
	rv.LFn(nil, nil),
	rv.LDefault(),
}

// ---------------------------------------------------------------------------------------------
// Expressions

func (g *G) leaf(t *Ty) rv.Expr {
	if len(g.scope) > 0 && g.p(0.6) {
		var cands []int
		for i, s := range g.scope {
			if sameTy(s, t) {
				cands = append(cands, i)
			}
		}
		if len(cands) > 0 {
			return rv.EVar(cands[g.rng.Intn(len(cands))])
		}
	}
	return rv.ELit(g.lit(t))
}

func sameTy(a, b *Ty) bool {
	if a.K != b.K {
		return false
	}
	switch a.K {
	case "set", "seq":
		return sameTy(a.A, b.A)
	case "fn":
		return sameTy(a.A, b.A) && sameTy(a.B, b.B)
	case "rec":
		if len(a.Names) != len(b.Names) {
			return false
		}
		for i := range a.Names {
			if a.Names[i] != b.Names[i] || !sameTy(a.Fs[i], b.Fs[i]) {
				return false
			}
		}
	}
	return true
}

// smallSet generates a set-typed expression whose value is small (bound sets of binders).
func (g *G) smallSet(elem *Ty, d int) rv.Expr {
	if elem.K == "int" && g.p(0.35) {
		lo := int64(g.rng.Intn(4) - 1)
		return rv.EOp("ModuleDotDotSymbol", rv.ELit(rv.LI(lo)), rv.ELit(rv.LI(lo+int64(g.rng.Intn(4))-1)))
	}
	return g.expr(tSet(elem), d)
}

// withScope runs f with extra slots bound.
func (g *G) withScope(ts []*Ty, f func()) {
	n := len(g.scope)
	g.scope = append(g.scope, ts...)
	f()
	g.scope = g.scope[:n]
}

// expr generates an expression of type t with operator depth <= d.
func (g *G) expr(t *Ty, d int) rv.Expr {
	if d <= 0 || g.p(0.2) {
		return g.leaf(t)
	}
	for tries := 0; tries < 8; tries++ {
		if e, ok := g.produce(t, d); ok {
			return e
		}
	}
	return g.leaf(t)
}

func (g *G) op2(op string, a, b *Ty, d int) rv.Expr {
	return rv.EOp(op, g.expr(a, d-1), g.expr(b, d-1))
}

var intBin = []string{"ModulePlusSymbol", "ModuleMinusSymbol", "ModuleAsteriskSymbol", "ModuleDivSymbol", "ModulePercentSymbol", "ModuleSuperscriptSymbol"}
var intCmp = []string{"ModuleLessThanOrEqualSymbol", "ModuleGreaterThanOrEqualSymbol", "ModuleLessThanSymbol", "ModuleGreaterThanSymbol"}

// generic productions available for every result type
func (g *G) generic(t *Ty, d int) (rv.Expr, bool) {
	switch g.rng.Intn(7) {
	case 0: // CHOOSE
		var e rv.Expr
		set := g.smallSet(t, d-1)
		g.withScope([]*Ty{t}, func() {
			body := g.expr(tBool, d-1)
			e = rv.Expr{Op: "choose", Args: []rv.Expr{set}, Body: &body}
		})
		return e, true
	case 1: // f[x]
		k := g.keyTy()
		return rv.EOp("apply", g.expr(tFn(k, t), d-1), g.expr(k, d-1)), true
	case 2: // s[i]
		return rv.EOp("apply", g.expr(tSeq(t), d-1), rv.ELit(rv.LI(int64(g.rng.Intn(4))))), true
	case 3:
		return rv.EOp("ModuleHead", g.expr(tSeq(t), d-1)), true
	case 4:
		return rv.EOp("if", g.expr(tBool, d-1), g.expr(t, d-1), g.expr(t, d-1)), true
	case 5: // r.f
		n := fieldNames[g.rng.Intn(len(fieldNames))]
		rt := &Ty{K: "rec", Names: []string{n}, Fs: []*Ty{t}}
		if g.p(0.5) {
			o := fieldNames[(g.rng.Intn(len(fieldNames)-1)+1+indexOf(fieldNames, n))%len(fieldNames)]
			rt = &Ty{K: "rec", Names: []string{n, o}, Fs: []*Ty{t, g.atomTy()}}
		}
		return rv.EOp("apply", g.expr(rt, d-1), rv.ELit(rv.LS(n))), true
	case 6:
		return rv.Expr{Op: "select", Args: []rv.Expr{g.smallSet(t, d-1)}, Idx: g.rng.Intn(4)}, true
	}
	return rv.Expr{}, false
}

func indexOf(xs []string, x string) int {
	for i, y := range xs {
		if x == y {
			return i
		}
	}
	return 0
}

func (g *G) binder(op string, nsets int, bodyTy *Ty, d int) rv.Expr {
	var sets []rv.Expr
	var ts []*Ty
	for i := 0; i < nsets; i++ {
		et := g.atomTy()
		if g.p(0.25) {
			et = g.anyTy(1)
		}
		ts = append(ts, et)
		sets = append(sets, g.smallSet(et, d-1))
	}
	var e rv.Expr
	g.withScope(ts, func() {
		body := g.expr(bodyTy, d-1)
		e = rv.Expr{Op: op, Args: sets, Body: &body}
	})
	return e
}

func (g *G) produce(t *Ty, d int) (rv.Expr, bool) {
	if g.p(0.15) {
		return g.generic(t, d)
	}
	switch t.K {
	case "bool":
		switch g.rng.Intn(14) {
		case 0, 1:
			a := g.anyTy(2)
			op := "ModuleEqualsSymbol"
			if g.p(0.4) {
				op = "ModuleNotEqualsSymbol"
			}
			return g.op2(op, a, a, d), true
		case 2:
			return g.op2(intCmp[g.rng.Intn(4)], tInt, tInt, d), true
		case 3, 4:
			a := g.anyTy(1)
			op := "ModuleInSymbol"
			if g.p(0.3) {
				op = "ModuleNotInSymbol"
			}
			return g.op2(op, a, tSet(a), d), true
		case 5:
			a := tSet(g.anyTy(1))
			return g.op2("ModuleSubsetOrEqualSymbol", a, a, d), true
		case 6:
			return rv.EOp("ModuleLogicalNotSymbol", g.expr(tBool, d-1)), true
		case 7:
			return g.op2("ModuleEquivSymbol", tBool, tBool, d), true
		case 8:
			return g.op2([]string{"and", "or", "implies"}[g.rng.Intn(3)], tBool, tBool, d), true
		case 9, 10:
			op := "forall"
			if g.p(0.5) {
				op = "exists"
			}
			return g.binder(op, 1+g.rng.Intn(3), tBool, d), true
		case 11:
			return rv.EOp("ModuleIsFiniteSet", g.expr(tSet(g.anyTy(1)), d-1)), true
		case 12:
			return rv.EOp("ModuleAssert", g.expr(tBool, d-1), rv.ELit(rv.LS("msg"))), true
		case 13: // x \in Seq(S)
			a := g.atomTy()
			return rv.EOp("ModuleInSymbol", g.expr(tSeq(a), d-1), rv.EOp("ModuleSeq", g.expr(tSet(a), d-1))), true
		}
	case "int":
		switch g.rng.Intn(8) {
		case 0, 1, 2:
			return g.op2(intBin[g.rng.Intn(len(intBin))], tInt, tInt, d), true
		case 3:
			return rv.EOp("ModuleNegationSymbol", g.expr(tInt, d-1)), true
		case 4, 5:
			return rv.EOp("ModuleCardinality", g.expr(tSet(g.anyTy(1)), d-1)), true
		case 6, 7:
			return rv.EOp("ModuleLen", g.expr(tSeq(g.anyTy(1)), d-1)), true
		}
	case "str":
		switch g.rng.Intn(3) {
		case 0:
			return rv.EOp("ModuleToString", g.expr(g.anyTy(1), d-1)), true
		case 1:
			return g.op2("ModuleOSymbol", tStr, tStr, d), true
		}
		return g.generic(t, d)
	case "set":
		switch g.rng.Intn(14) {
		case 0, 1, 2:
			return g.op2([]string{"ModuleUnionSymbol", "ModuleIntersectSymbol", "ModuleBackslashSymbol"}[g.rng.Intn(3)], t, t, d), true
		case 3:
			var e rv.Expr
			set := g.expr(t, d-1)
			g.withScope([]*Ty{t.A}, func() {
				body := g.expr(tBool, d-1)
				e = rv.Expr{Op: "setref", Args: []rv.Expr{set}, Body: &body}
			})
			return e, true
		case 4:
			return g.binder("setcomp", 1+g.rng.Intn(2), t.A, d), true
		case 5:
			if t.A.K == "int" {
				return g.op2("ModuleDotDotSymbol", tInt, tInt, d), true
			}
		case 6:
			if t.A.K == "set" {
				return rv.EOp("ModulePrefixSubsetSymbol", g.expr(t.A, d-1)), true
			}
		case 7, 8:
			return rv.EOp("ModulePrefixUnionSymbol", g.expr(tSet(t), d-1)), true
		case 9:
			return rv.EOp("ModuleDomainSymbol", g.expr(tFn(t.A, g.atomTy()), d-1)), true
		case 10:
			if t.A.K == "seq" {
				n := 2 + g.rng.Intn(2)
				args := make([]rv.Expr, n)
				for i := range args {
					args[i] = g.smallSet(t.A.A, d-1)
				}
				return rv.Expr{Op: "cross", Args: args}, true
			}
		case 11:
			if t.A.K == "rec" {
				args := make([]rv.Expr, len(t.A.Names))
				for i := range args {
					args[i] = g.smallSet(t.A.Fs[i], d-1)
				}
				return rv.Expr{Op: "recset", Names: t.A.Names, Args: args}, true
			}
			if t.A.K == "fn" {
				return rv.EOp("fnset", g.smallSet(t.A.A, d-1), g.smallSet(t.A.B, d-1)), true
			}
		case 12, 13:
			n := g.rng.Intn(4)
			args := make([]rv.Expr, n)
			for i := range args {
				args[i] = g.expr(t.A, d-1)
			}
			return rv.Expr{Op: "mkset", Args: args}, true
		}
	case "seq":
		switch g.rng.Intn(8) {
		case 0, 1:
			return g.op2("ModuleOSymbol", t, t, d), true
		case 2:
			return rv.EOp("ModuleAppend", g.expr(t, d-1), g.expr(t.A, d-1)), true
		case 3:
			return rv.EOp("ModuleTail", g.expr(t, d-1)), true
		case 4:
			return rv.EOp("ModuleSubSeq", g.expr(t, d-1), rv.ELit(rv.LI(int64(g.rng.Intn(5)-1))), rv.ELit(rv.LI(int64(g.rng.Intn(5))))), true
		case 5, 6:
			n := g.rng.Intn(4)
			args := make([]rv.Expr, n)
			for i := range args {
				args[i] = g.expr(t.A, d-1)
			}
			return rv.Expr{Op: "mktup", Args: args}, true
		case 7: // [i \in 1..n |-> e]: a sequence in TLA+, a "function" for the runtime
			var e rv.Expr
			set := rv.EOp("ModuleDotDotSymbol", rv.ELit(rv.LI(1)), rv.ELit(rv.LI(int64(g.rng.Intn(4)))))
			g.withScope([]*Ty{tInt}, func() {
				body := g.expr(t.A, d-1)
				e = rv.Expr{Op: "mkfn", Args: []rv.Expr{set}, Body: &body}
			})
			return e, true
		}
	case "fn":
		switch g.rng.Intn(6) {
		case 0:
			return g.op2("ModuleColonGreaterThanSymbol", t.A, t.B, d), true
		case 1, 2:
			return g.op2("ModuleDoubleAtSignSymbol", t, t, d), true
		case 3:
			var e rv.Expr
			set := g.smallSet(t.A, d-1)
			g.withScope([]*Ty{t.A}, func() {
				body := g.expr(t.B, d-1)
				e = rv.Expr{Op: "mkfn", Args: []rv.Expr{set}, Body: &body}
			})
			return e, true
		case 4, 5:
			return g.except(t, t.A, t.B, d), true
		}
	case "rec":
		if g.p(0.5) {
			args := make([]rv.Expr, len(t.Names))
			for i := range args {
				args[i] = g.expr(t.Fs[i], d-1)
			}
			return rv.Expr{Op: "mkrec", Names: t.Names, Args: args}, true
		}
		i := g.rng.Intn(len(t.Names))
		src := g.expr(t, d-1)
		var e rv.Expr
		g.withScope([]*Ty{t.Fs[i]}, func() {
			val := g.exprNoExcept(t.Fs[i], d-1)
			e = rv.Expr{Op: "except", Args: []rv.Expr{src}, Subs: []rv.Sub{{Keys: []rv.Expr{rv.ELit(rv.LS(t.Names[i]))}, Val: val}}}
		})
		return e, true
	}
	return rv.Expr{}, false
}

// exprNoExcept: values of EXCEPT substitutions must not contain a nested EXCEPT (an inner @ would
// shadow the outer one in TLA+ text).
func (g *G) exprNoExcept(t *Ty, d int) rv.Expr {
	for i := 0; i < 6; i++ {
		e := g.expr(t, d)
		bad := false
		e.Walk(func(x *rv.Expr) {
			if x.Op == "except" {
				bad = true
			}
		})
		if !bad {
			return e
		}
	}
	return rv.ELit(g.lit(t))
}

// except builds [f EXCEPT ![k1]..[kn] = e, ...] with 1-3 substitutions of 1-2 keys.
func (g *G) except(t, kt, vt *Ty, d int) rv.Expr {
	src := g.expr(t, d-1)
	nsub := 1 + g.rng.Intn(3)
	e := rv.Expr{Op: "except", Args: []rv.Expr{src}}
	for s := 0; s < nsub; s++ {
		keys := []rv.Expr{g.expr(kt, d-1)}
		valTy := vt
		if (vt.K == "fn" || vt.K == "seq") && g.p(0.6) { // nested path
			if vt.K == "fn" {
				keys = append(keys, g.expr(vt.A, d-1))
				valTy = vt.B
			} else {
				keys = append(keys, rv.ELit(rv.LI(int64(g.rng.Intn(4)))))
				valTy = vt.A
			}
		}
		var val rv.Expr
		g.withScope([]*Ty{valTy}, func() { val = g.exprNoExcept(valTy, d-1) })
		e.Subs = append(e.Subs, rv.Sub{Keys: keys, Val: val})
	}
	return e
}

// ---------------------------------------------------------------------------------------------
// Operator-targeted cases: root operator fixed, arguments literals (depth 1) or expressions.

type opGen struct {
	name string
	gen  func(g *G, d int) rv.Expr
}

func (g *G) related(t *Ty, l rv.Lit) rv.Lit {
	// a set/sequence related to l: permuted, with an element dropped or added
	out := rv.Lit{T: l.T, Xs: append([]rv.Lit(nil), l.Xs...), Ys: append([]rv.Lit(nil), l.Ys...)}
	if l.T != "set" && l.T != "tup" {
		return g.lit(t)
	}
	if l.T == "set" {
		g.rng.Shuffle(len(out.Xs), func(i, j int) { out.Xs[i], out.Xs[j] = out.Xs[j], out.Xs[i] })
	}
	switch g.rng.Intn(4) {
	case 0:
		if len(out.Xs) > 0 {
			out.Xs = out.Xs[1:]
		}
	case 1:
		out.Xs = append(out.Xs, g.lit(t.A))
	case 2:
		return g.lit(t)
	}
	return out
}

func opGens() []opGen {
	L := rv.ELit
	un := func(name string, t func(g *G) *Ty) opGen {
		return opGen{name, func(g *G, d int) rv.Expr { return rv.EOp(name, g.expr(t(g), d-1)) }}
	}
	bin := func(name string, t func(g *G) (*Ty, *Ty)) opGen {
		return opGen{name, func(g *G, d int) rv.Expr {
			a, b := t(g)
			return rv.EOp(name, g.expr(a, d-1), g.expr(b, d-1))
		}}
	}
	ii := func(g *G) (*Ty, *Ty) { return tInt, tInt }
	bb := func(g *G) (*Ty, *Ty) { return tBool, tBool }
	var out []opGen
	for _, n := range append(append([]string{}, intBin...), intCmp...) {
		out = append(out, bin(n, ii))
	}
	out = append(out,
		opGen{"ModuleDotDotSymbol", func(g *G, d int) rv.Expr {
			a := g.intLit()
			b := a + int64(g.rng.Intn(7)) - 2
			if b > rv.MaxInt {
				b = rv.MaxInt
			}
			if b < rv.MinInt {
				b = rv.MinInt
			}
			if g.p(0.1) {
				b = g.intLit()
			}
			return rv.EOp("ModuleDotDotSymbol", L(rv.LI(a)), L(rv.LI(b)))
		}},
		un("ModuleNegationSymbol", func(g *G) *Ty { return tInt }),
		un("ModuleLogicalNotSymbol", func(g *G) *Ty { return tBool }),
		bin("ModuleEquivSymbol", bb),
		bin("and", bb), bin("or", bb), bin("implies", bb),
		opGen{"ModuleAssert", func(g *G, d int) rv.Expr {
			return rv.EOp("ModuleAssert", g.expr(tBool, d-1), L(g.lit(tStr)))
		}},
		un("ModuleToString", func(g *G) *Ty { return g.anyTy(2) }),
	)
	eq := func(name string) opGen {
		return opGen{name, func(g *G, d int) rv.Expr {
			t := g.anyTy(3)
			if d > 1 {
				return rv.EOp(name, g.expr(t, d-1), g.expr(t, d-1))
			}
			a := g.lit(t)
			b := g.lit(t)
			if g.p(0.4) {
				b = permuteLit(a, g.rng)
			}
			return rv.EOp(name, L(a), L(b))
		}}
	}
	out = append(out, eq("ModuleEqualsSymbol"), eq("ModuleNotEqualsSymbol"))
	in := func(name string) opGen {
		return opGen{name, func(g *G, d int) rv.Expr {
			t := g.anyTy(2)
			if d > 1 {
				return rv.EOp(name, g.expr(t, d-1), g.expr(tSet(t), d-1))
			}
			s := g.lit(tSet(t))
			x := g.lit(t)
			if len(s.Xs) > 0 && g.p(0.5) {
				x = permuteLit(s.Xs[g.rng.Intn(len(s.Xs))], g.rng)
			}
			return rv.EOp(name, L(x), L(s))
		}}
	}
	out = append(out, in("ModuleInSymbol"), in("ModuleNotInSymbol"))
	for _, n := range []string{"ModuleIntersectSymbol", "ModuleUnionSymbol", "ModuleBackslashSymbol", "ModuleSubsetOrEqualSymbol"} {
		name := n
		out = append(out, opGen{name, func(g *G, d int) rv.Expr {
			t := tSet(g.anyTy(2))
			if d > 1 {
				return rv.EOp(name, g.expr(t, d-1), g.expr(t, d-1))
			}
			a := g.lit(t)
			return rv.EOp(name, L(a), L(g.related(t, a)))
		}})
	}
	anySet := func(g *G) *Ty { return tSet(g.anyTy(2)) }
	anySeq := func(g *G) *Ty { return tSeq(g.anyTy(2)) }
	out = append(out,
		un("ModulePrefixSubsetSymbol", anySet),
		un("ModulePrefixUnionSymbol", func(g *G) *Ty { return tSet(tSet(g.anyTy(1))) }),
		un("ModuleIsFiniteSet", anySet),
		un("ModuleCardinality", anySet),
		un("ModuleSeq", func(g *G) *Ty { return tSet(g.atomTy()) }),
		opGen{"in-Seq", func(g *G, d int) rv.Expr {
			a := g.atomTy()
			s := g.lit(tSet(a))
			var xs []rv.Lit
			for i, n := 0, g.rng.Intn(4); i < n; i++ {
				if len(s.Xs) > 0 && g.p(0.85) {
					xs = append(xs, s.Xs[g.rng.Intn(len(s.Xs))])
				} else {
					xs = append(xs, g.lit(a))
				}
			}
			return rv.EOp("ModuleInSymbol", L(rv.LTup(xs...)), rv.EOp("ModuleSeq", L(s)))
		}},
		un("ModuleLen", anySeq),
		opGen{"ModuleOSymbol", func(g *G, d int) rv.Expr {
			t := anySeq(g)
			if g.p(0.1) {
				t = tStr
			}
			return rv.EOp("ModuleOSymbol", g.expr(t, d-1), g.expr(t, d-1))
		}},
		opGen{"ModuleAppend", func(g *G, d int) rv.Expr {
			t := anySeq(g)
			return rv.EOp("ModuleAppend", g.expr(t, d-1), g.expr(t.A, d-1))
		}},
		un("ModuleHead", anySeq),
		un("ModuleTail", anySeq),
		opGen{"ModuleSubSeq", func(g *G, d int) rv.Expr {
			t := anySeq(g)
			return rv.EOp("ModuleSubSeq", g.expr(t, d-1), L(rv.LI(int64(g.rng.Intn(7)-1))), L(rv.LI(int64(g.rng.Intn(7)-1))))
		}},
		opGen{"ModuleSelectSeq", func(g *G, d int) rv.Expr {
			return rv.EOp("ModuleSelectSeq", g.expr(anySeq(g), d-1), L(g.lit(g.anyTy(1))))
		}},
		opGen{"ModuleColonGreaterThanSymbol", func(g *G, d int) rv.Expr {
			return rv.EOp("ModuleColonGreaterThanSymbol", g.expr(g.anyTy(1), d-1), g.expr(g.anyTy(2), d-1))
		}},
		opGen{"ModuleDoubleAtSignSymbol", func(g *G, d int) rv.Expr {
			t := tFn(g.keyTy(), g.anyTy(1))
			return rv.EOp("ModuleDoubleAtSignSymbol", g.expr(t, d-1), g.expr(t, d-1))
		}},
		opGen{"ModuleDomainSymbol", func(g *G, d int) rv.Expr {
			var t *Ty
			if g.p(0.3) {
				t = g.anyTy(1)
				for t.K != "rec" {
					t = g.anyTy(1)
				}
			} else {
				t = tFn(g.keyTy(), g.anyTy(1))
			}
			return rv.EOp("ModuleDomainSymbol", g.expr(t, d-1))
		}},
	)
	// built-in syntax helpers
	out = append(out,
		opGen{"forall", func(g *G, d int) rv.Expr { return g.binder("forall", 1+g.rng.Intn(3), tBool, d+1) }},
		opGen{"exists", func(g *G, d int) rv.Expr { return g.binder("exists", 1+g.rng.Intn(3), tBool, d+1) }},
		opGen{"setcomp", func(g *G, d int) rv.Expr { return g.binder("setcomp", 1+g.rng.Intn(3), g.anyTy(1), d+1) }},
		opGen{"mkfn", func(g *G, d int) rv.Expr { return g.binder("mkfn", 1+g.rng.Intn(3), g.anyTy(1), d+1) }},
		opGen{"choose", func(g *G, d int) rv.Expr {
			t := g.anyTy(1)
			var e rv.Expr
			set := g.expr(tSet(t), d-1)
			g.withScope([]*Ty{t}, func() {
				body := g.expr(tBool, d)
				if g.p(0.3) {
					body = L(rv.LB(true))
				}
				e = rv.Expr{Op: "choose", Args: []rv.Expr{set}, Body: &body}
			})
			return e
		}},
		opGen{"setref", func(g *G, d int) rv.Expr {
			t := g.anyTy(1)
			var e rv.Expr
			set := g.expr(tSet(t), d-1)
			g.withScope([]*Ty{t}, func() {
				body := g.expr(tBool, d)
				e = rv.Expr{Op: "setref", Args: []rv.Expr{set}, Body: &body}
			})
			return e
		}},
		opGen{"cross", func(g *G, d int) rv.Expr {
			n := 2 + g.rng.Intn(2)
			args := make([]rv.Expr, n)
			for i := range args {
				args[i] = g.expr(tSet(g.anyTy(1)), d-1)
			}
			return rv.Expr{Op: "cross", Args: args}
		}},
		opGen{"recset", func(g *G, d int) rv.Expr {
			n := 1 + g.rng.Intn(3)
			perm := g.rng.Perm(len(fieldNames))
			e := rv.Expr{Op: "recset"}
			for i := 0; i < n; i++ {
				e.Names = append(e.Names, fieldNames[perm[i]])
				e.Args = append(e.Args, g.expr(tSet(g.anyTy(1)), d-1))
			}
			return e
		}},
		opGen{"fnset", func(g *G, d int) rv.Expr {
			return rv.EOp("fnset", g.expr(tSet(g.keyTy()), d-1), g.expr(tSet(g.anyTy(1)), d-1))
		}},
		opGen{"mkrec", func(g *G, d int) rv.Expr {
			n := 1 + g.rng.Intn(3)
			perm := g.rng.Perm(len(fieldNames))
			e := rv.Expr{Op: "mkrec"}
			for i := 0; i < n; i++ {
				e.Names = append(e.Names, fieldNames[perm[i]])
				e.Args = append(e.Args, g.expr(g.anyTy(2), d-1))
			}
			return e
		}},
		opGen{"mkset", func(g *G, d int) rv.Expr {
			t := g.anyTy(2)
			e := rv.Expr{Op: "mkset"}
			for i, n := 0, g.rng.Intn(5); i < n; i++ {
				e.Args = append(e.Args, g.expr(t, d-1))
			}
			return e
		}},
		opGen{"mktup", func(g *G, d int) rv.Expr {
			e := rv.Expr{Op: "mktup"}
			for i, n := 0, g.rng.Intn(5); i < n; i++ {
				e.Args = append(e.Args, g.expr(g.anyTy(2), d-1))
			}
			return e
		}},
		opGen{"apply", func(g *G, d int) rv.Expr {
			switch g.rng.Intn(3) {
			case 0:
				t := tFn(g.keyTy(), g.anyTy(1))
				f := g.lit(t)
				k := g.lit(t.A)
				if len(f.Xs) > 0 && g.p(0.7) {
					k = f.Xs[g.rng.Intn(len(f.Xs))]
				}
				return rv.EOp("apply", L(f), L(k))
			case 1:
				return rv.EOp("apply", g.expr(anySeq(g), d-1), L(rv.LI(int64(g.rng.Intn(7)-1))))
			}
			t := g.anyTy(1)
			for t.K != "rec" {
				t = g.anyTy(1)
			}
			return rv.EOp("apply", g.expr(t, d-1), L(rv.LS(fieldNames[g.rng.Intn(len(fieldNames))])))
		}},
		opGen{"select", func(g *G, d int) rv.Expr {
			return rv.Expr{Op: "select", Args: []rv.Expr{g.expr(tSet(g.anyTy(1)), d-1)}, Idx: g.rng.Intn(6)}
		}},
		opGen{"except", func(g *G, d int) rv.Expr {
			switch g.rng.Intn(3) {
			case 0:
				vt := g.anyTy(1)
				if g.p(0.4) {
					vt = tFn(g.keyTy(), g.atomTy())
				}
				t := tFn(g.keyTy(), vt)
				e := g.except(t, t.A, t.B, d+1)
				// make keys hit the domain most of the time
				if e.Args[0].Op == "lit" && len(e.Args[0].Lit.Xs) > 0 {
					for i := range e.Subs {
						if g.p(0.7) {
							e.Subs[i].Keys[0] = L(e.Args[0].Lit.Xs[g.rng.Intn(len(e.Args[0].Lit.Xs))])
						}
					}
				}
				return e
			case 1:
				t := anySeq(g)
				e := g.except(tFn(tInt, t.A), tInt, t.A, d+1)
				e.Args[0] = g.expr(t, d-1)
				for i := range e.Subs {
					e.Subs[i].Keys[0] = L(rv.LI(int64(g.rng.Intn(6) - 1)))
				}
				return e
			}
			t := g.anyTy(1)
			for t.K != "rec" {
				t = g.anyTy(2)
			}
			e, _ := g.produce(t, 1)
			for e.Op != "except" {
				e, _ = g.produce(t, 1)
			}
			return e
		}},
	)
	for _, c := range []string{"ModuleTRUE", "ModuleFALSE", "ModuleBOOLEAN", "ModuleZero", "ModuledefaultInitValue"} {
		name := c
		out = append(out, opGen{name, func(g *G, d int) rv.Expr { return rv.Expr{Op: name} }})
	}
	return out
}

// illType replaces one direct argument of the root by a literal of another kind.
func (g *G) illType(e rv.Expr) rv.Expr {
	if len(e.Args) == 0 {
		return e
	}
	i := g.rng.Intn(len(e.Args))
	out := e
	out.Args = append([]rv.Expr(nil), e.Args...)
	out.Args[i] = rv.ELit(illTyped[g.rng.Intn(len(illTyped))])
	return out
}

// permuteLit rebuilds the same value in a different construction order.
func permuteLit(l rv.Lit, rng *rand.Rand) rv.Lit {
	out := rv.Lit{T: l.T, B: l.B, I: l.I, S: l.S}
	for _, x := range l.Xs {
		out.Xs = append(out.Xs, permuteLit(x, rng))
	}
	for _, y := range l.Ys {
		out.Ys = append(out.Ys, permuteLit(y, rng))
	}
	switch l.T {
	case "set":
		rng.Shuffle(len(out.Xs), func(i, j int) { out.Xs[i], out.Xs[j] = out.Xs[j], out.Xs[i] })
	case "fn":
		// only safe when keys are distinct (later pairs overwrite earlier ones)
		v := l.V()
		if len(v.D) == len(l.Xs) {
			rng.Shuffle(len(out.Xs), func(i, j int) {
				out.Xs[i], out.Xs[j] = out.Xs[j], out.Xs[i]
				out.Ys[i], out.Ys[j] = out.Ys[j], out.Ys[i]
			})
		}
	}
	return out
}

package main

import (
	"encoding/json"
	"fmt"
	"math/rand"
	"os"
	"runtime/debug"
	"runtime/metrics"
	"time"

	rv "verifh/refval"
)

// Case is one top-level expression to evaluate.
type Case struct {
	ID   string   `json:"id"`
	Expr rv.Expr  `json:"expr"`
	Env  []rv.Lit `json:"env,omitempty"`
}

// BatchSpec tells a child which cases to generate and run. Cases are a pure function of
// (Seed, Kind, index), so the parent can resume a batch after a child died.
type BatchSpec struct {
	Name     string   `json:"name"`
	Kind     string   `json:"kind"` // smoke grid ops comp
	Seed     int64    `json:"seed"`
	Count    int      `json:"count"`
	From     int      `json:"from"`
	Quar     []string `json:"quar"`
	CurFile  string   `json:"cur_file"`
	PendFile string   `json:"pend_file"`
	OutFile  string   `json:"out_file"`
	// suspicion thresholds (not deciding: a suspect is re-run alone)
	WatchMs  int   `json:"watch_ms"`
	Ratio    int64 `json:"ratio"`
	MemLimit int64 `json:"mem_limit"`
}

type watchCfg struct {
	watch    time.Duration
	ratio    int64
	memLimit uint64
}

// guarded runs f in a goroutine and watches it. It returns "" when f finished, otherwise "hang" (the
// reference evaluator has since performed ratio x the steps it needed for the same case AND the
// watchdog has expired) or "runaway" (the heap passed memLimit although the reference result is small).
func guarded(cfg watchCfg, c *Case, f func()) string {
	done := make(chan struct{})
	var pan any
	go func() {
		defer func() {
			pan = recover()
			close(done)
		}()
		f()
	}()
	t := time.NewTimer(40 * time.Millisecond)
	select {
	case <-done:
		t.Stop()
		if pan != nil {
			panic(pan)
		}
		return ""
	case <-t.C:
	}
	start := time.Now()
	one := func() int64 {
		ev := &rv.Evaluator{Limit: 2_000_000}
		env := make([]rv.V, len(c.Env))
		for i, l := range c.Env {
			env[i] = l.V()
		}
		_, _ = ev.Eval(&c.Expr, env)
		if ev.Steps < 1 {
			return 1
		}
		return ev.Steps
	}
	need := one()
	var spent int64
	lastMem := time.Time{}
	for {
		select {
		case <-done:
			if pan != nil {
				panic(pan)
			}
			return ""
		default:
		}
		for burst := time.Now(); spent < cfg.ratio*need && time.Since(burst) < 2*time.Millisecond; {
			spent += one()
		}
		if time.Since(lastMem) > 25*time.Millisecond {
			// runtime/metrics does not stop the world (ReadMemStats waits for a running GC cycle, which
			// starves this monitor exactly when the heap is exploding)
			metrics.Read(memSample)
			lastMem = time.Now()
			if memSample[0].Value.Kind() == metrics.KindUint64 && memSample[0].Value.Uint64() > cfg.memLimit {
				return "runaway"
			}
		}
		if spent >= cfg.ratio*need && time.Since(start) >= cfg.watch {
			return "hang"
		}
		time.Sleep(time.Millisecond)
	}
}

var memSample = []metrics.Sample{{Name: "/memory/classes/heap/objects:bytes"}}

type childOut struct {
	f *os.File
}

func (o *childOut) emit(rec map[string]any) {
	buf, err := json.Marshal(rec)
	if err != nil {
		buf = []byte(fmt.Sprintf(`{"kind":"encode-error","err":%q}`, err.Error()))
	}
	o.f.Write(append(buf, '\n'))
}

func pendingRec(r *Real) any {
	if p := r.pending.Load(); p != nil {
		return map[string]any{"op": p.Node.Op, "sig": p.Sig, "node": p.Node, "env": p.Env, "tla": p.Node.TLA(len(p.Env)), "ref_steps": p.RefSteps}
	}
	return nil
}

// genCase produces case i of a batch.
func genCase(spec *BatchSpec, gens []opGen, grid []Case, i int) Case {
	if spec.Kind == "grid" {
		return grid[i]
	}
	rng := rand.New(rand.NewSource(spec.Seed*7919 + int64(i)*104729 + 17))
	g := &G{rng: rng}
	id := fmt.Sprintf("%s/%d", spec.Name, i)
	switch spec.Kind {
	case "smoke":
		og := gens[i%len(gens)]
		return Case{ID: id + ":" + og.name, Expr: og.gen(g, 1)}
	case "ops":
		og := gens[rng.Intn(len(gens))]
		mode := rng.Intn(10)
		g.boundary = mode >= 6 && mode < 8
		e := og.gen(g, 1)
		if mode >= 8 {
			e = g.illType(e)
		}
		return Case{ID: id + ":" + og.name, Expr: e}
	case "comp":
		d := 2 + rng.Intn(2)
		if rng.Intn(3) == 0 {
			og := gens[rng.Intn(len(gens))]
			return Case{ID: id + ":" + og.name, Expr: og.gen(g, d)}
		}
		return Case{ID: id, Expr: g.expr(g.anyTy(2), d)}
	}
	panic("bad batch kind " + spec.Kind)
}

func runBatchChild() {
	debug.SetGCPercent(100)
	buf, err := os.ReadFile(os.Getenv("VERIF_C03_SPEC"))
	if err != nil {
		fmt.Println("cannot read spec:", err)
		os.Exit(4)
	}
	var spec BatchSpec
	if err := json.Unmarshal(buf, &spec); err != nil {
		fmt.Println("bad spec:", err)
		os.Exit(4)
	}
	of, err := os.OpenFile(spec.OutFile, os.O_CREATE|os.O_WRONLY|os.O_APPEND, 0o644)
	if err != nil {
		fmt.Println(err)
		os.Exit(4)
	}
	out := &childOut{f: of}
	cur, err := os.OpenFile(spec.CurFile, os.O_CREATE|os.O_WRONLY, 0o644)
	if err != nil {
		fmt.Println(err)
		os.Exit(4)
	}
	quar := map[string]bool{}
	for _, q := range spec.Quar {
		quar[q] = true
	}
	cfg := watchCfg{watch: time.Duration(spec.WatchMs) * time.Millisecond, ratio: spec.Ratio, memLimit: uint64(spec.MemLimit)}
	gens := opGens()
	var grid []Case
	if spec.Kind == "grid" {
		grid = gridCases()
		if spec.Count > len(grid) {
			spec.Count = len(grid)
		}
	}
	real := NewReal(rand.New(rand.NewSource(spec.Seed+99)), quar)
	if spec.PendFile != "" {
		real.pendFile, _ = os.OpenFile(spec.PendFile, os.O_CREATE|os.O_WRONLY, 0o644)
	}
	ends := map[string]int{}
	shrunkPerKey := map[string]int{}
	var samples []any
	ran := 0
	stats := func(kind string) map[string]any {
		return map[string]any{"kind": kind, "ran": ran, "calls": real.calls, "unknown": real.unknown, "skipped_calls": real.skipped,
			"ends": ends, "triples": real.triples, "samples": samples}
	}
	for i := spec.From; i < spec.Count; i++ {
		c := genCase(&spec, gens, grid, i)
		// the case goes to disk before the call: a process-fatal outcome still has its input
		cb, _ := json.Marshal(map[string]any{"i": i, "case": c})
		cur.WriteAt(append(cb, '\n'), 0)
		cur.Truncate(int64(len(cb) + 1))
		nd := len(real.discs)
		var end string
		if why := guarded(cfg, &c, func() { end = real.RunCase(&c.Expr, c.Env) }); why != "" {
			out.emit(map[string]any{"kind": "suspect", "i": i, "why": why, "case": c, "pending": pendingRec(real)})
			out.emit(stats("partial"))
			os.Exit(3)
		}
		ran++
		if len(end) > 8 && end[:8] == "skipped:" {
			ends["skipped"]++
		} else {
			ends[end]++
		}
		if len(samples) < 3 && i%97 == 3 {
			samples = append(samples, map[string]any{"case": c.ID, "tla": c.Expr.TLA(0), "end": end})
		}
		for k := nd; k < len(real.discs); k++ {
			d := real.discs[k]
			d.CaseID = c.ID
			if shrunkPerKey[d.Key] < 2 {
				shrunkPerKey[d.Key]++
				sc := Case{ID: c.ID + "/shrink", Expr: d.Node, Env: d.Env}
				if why := guarded(cfg, &sc, func() { d = shrink(d) }); why != "" {
					out.emit(map[string]any{"kind": "disc", "i": i, "disc": d})
					out.emit(map[string]any{"kind": "suspect", "i": i, "why": why, "case": sc, "pending": nil, "during": "shrink"})
					out.emit(stats("partial"))
					os.Exit(3)
				}
			}
			out.emit(map[string]any{"kind": "disc", "i": i, "disc": d})
		}
		real.discs = real.discs[:0]
		if ran%2000 == 0 {
			out.emit(map[string]any{"kind": "progress", "next": i + 1})
		}
	}
	out.emit(stats("end"))
	of.Close()
	os.Exit(0)
}

// SoloSpec is a single case re-run alone in a fresh process with a longer watchdog.
type SoloSpec struct {
	Case     Case   `json:"case"`
	WatchMs  int    `json:"watch_ms"`
	Ratio    int64  `json:"ratio"`
	MemLimit int64  `json:"mem_limit"`
	OutFile  string `json:"out_file"`
	PendFile string `json:"pend_file"`
	Shrink   bool   `json:"shrink"`
}

func runSoloChild() {
	buf, err := os.ReadFile(os.Getenv("VERIF_C03_SPEC"))
	if err != nil {
		fmt.Println("cannot read spec:", err)
		os.Exit(4)
	}
	var spec SoloSpec
	if err := json.Unmarshal(buf, &spec); err != nil {
		fmt.Println("bad spec:", err)
		os.Exit(4)
	}
	cfg := watchCfg{watch: time.Duration(spec.WatchMs) * time.Millisecond, ratio: spec.Ratio, memLimit: uint64(spec.MemLimit)}
	real := NewReal(rand.New(rand.NewSource(7)), nil)
	if spec.PendFile != "" {
		real.pendFile, _ = os.OpenFile(spec.PendFile, os.O_CREATE|os.O_WRONLY, 0o644)
	}
	var end string
	t0 := time.Now()
	why := guarded(cfg, &spec.Case, func() { end = real.RunCase(&spec.Case.Expr, spec.Case.Env) })
	if os.Getenv("VERIF_C03_DEBUG") != "" {
		metrics.Read(memSample)
		fmt.Fprintf(os.Stderr, "guarded returned %q after %v, heap %d MiB\n", why, time.Since(t0), memSample[0].Value.Uint64()>>20)
	}
	res := map[string]any{"kind": "solo", "why": why, "end": end, "pending": pendingRec(real)}
	if why == "" {
		discs := real.discs
		if spec.Shrink {
			for i := range discs {
				discs[i] = shrink(discs[i])
			}
		}
		res["discs"] = discs
	}
	out, _ := json.Marshal(res)
	os.WriteFile(spec.OutFile, append(out, '\n'), 0o644)
	os.Exit(0)
}

// C03 — TLA+ operators evaluate as TLA+ defines them, or fail loudly.
//
// Workload: generated applications of every exported operator of distsys/tla (all Module* symbols,
// the builtins.go helpers, Value.ApplyFunction/SelectElement, the value constructors the compiler
// emits for set/tuple/record literals) on well-typed, boundary and ill-typed arguments, plus short
// random compositions, run against the REAL library in child processes.
//
// Oracle: an independent reference evaluator (verifh/refval) with TLC's semantics, applied to the
// canonical form of the actual arguments of every single library call (local judgement), with the
// allowance table of the property statement. The reference is calibrated against the real TLC.
package main

import (
	"encoding/json"
	"fmt"
	"os"
	"path/filepath"
	"sort"
	"strings"
	"sync"
	"time"

	"verifh/common"
	rv "verifh/refval"
)

type parent struct {
	r       *common.Run
	scratch string

	mu          sync.Mutex
	quar        map[string]bool
	hangConfirm map[string]int // key -> confirmed hangs
	hangSeen    map[string]int // key -> suspects not re-confirmed because the key is already confirmed
	inflight    map[string]chan struct{}
	t0          time.Time
	discs       map[string][]Disc
	discCount   map[string]int
	triples     map[string]int
	ends        map[string]int
	samples     []any
	cases       int
	calls       int
	unknown     int
	skipped     int
	restarts    int
	soloRuns    int
	fatal       int
	nfile       int
}

func (p *parent) quarList() []string {
	p.mu.Lock()
	defer p.mu.Unlock()
	out := make([]string, 0, len(p.quar))
	for k := range p.quar {
		out = append(out, k)
	}
	sort.Strings(out)
	return out
}

func (p *parent) file(name string) string {
	p.mu.Lock()
	defer p.mu.Unlock()
	p.nfile++
	return filepath.Join(p.scratch, fmt.Sprintf("%s-%d", name, p.nfile))
}

func writeJSON(path string, v any) {
	buf, err := json.Marshal(v)
	if err != nil {
		panic(err)
	}
	if err := os.WriteFile(path, buf, 0o644); err != nil {
		panic(err)
	}
}

type soloResult struct {
	Why     string         `json:"why"`
	End     string         `json:"end"`
	Pending map[string]any `json:"pending"`
	Discs   []Disc         `json:"discs"`
	ok      bool
	child   common.ChildResult
}

func (p *parent) solo(c Case, shrink bool) soloResult {
	watch, ratio := p.r.Pick(8000, 20000), int64(20000)
	spec := SoloSpec{Case: c, WatchMs: watch, Ratio: ratio, MemLimit: 2 << 30, OutFile: p.file("solo-out"), PendFile: p.file("solo-pend"), Shrink: shrink}
	sf := p.file("solo-spec")
	writeJSON(sf, spec)
	p.mu.Lock()
	p.soloRuns++
	p.mu.Unlock()
	tc := time.Now()
	defer func() {
		if os.Getenv("VERIF_C03_DEBUG") != "" {
			fmt.Fprintf(os.Stderr, "[%6.1fs] solo %s ran %.1fs\n", time.Since(p.t0).Seconds(), c.ID, time.Since(tc).Seconds())
		}
	}()
	res := common.RunChild("", "solo", p.scratch, []string{"VERIF_C03_SPEC=" + sf}, time.Duration(watch)*time.Millisecond+60*time.Second)
	var sr soloResult
	sr.child = res
	if buf, err := os.ReadFile(spec.OutFile); err == nil && json.Unmarshal(buf, &sr) == nil {
		sr.ok = true
	}
	if sr.Pending == nil {
		sr.Pending = readPending(spec.PendFile)
	}
	os.Remove(res.OutPath)
	os.Remove(spec.PendFile)
	return sr
}

// readPending reads the pending library call a child persisted before entering it (nil if none).
func readPending(path string) map[string]any {
	buf, err := os.ReadFile(path)
	if err != nil {
		return nil
	}
	var m map[string]any
	if json.Unmarshal([]byte(strings.TrimSpace(string(buf))), &m) != nil || m["op"] == nil {
		return nil
	}
	var node rv.Expr
	var env []rv.Lit
	nb, _ := json.Marshal(m["node"])
	eb, _ := json.Marshal(m["env"])
	if json.Unmarshal(nb, &node) == nil {
		_ = json.Unmarshal(eb, &env)
		m["tla"] = node.TLA(len(env))
	}
	return m
}

func (p *parent) addDisc(d Disc) {
	p.mu.Lock()
	defer p.mu.Unlock()
	p.discCount[d.Key]++
	if len(p.discs[d.Key]) < 3 {
		p.discs[d.Key] = append(p.discs[d.Key], d)
	}
}

// handleSuspect decides what a child that stopped on case c means.
func (p *parent) handleSuspect(batch string, c Case, why string, pending map[string]any) {
	op, sig := "", ""
	if pending != nil {
		op, _ = pending["op"].(string)
		sig, _ = pending["sig"].(string)
	}
	key := "C03:" + op + ":" + sig + ":hang" // provisional; only used to de-duplicate confirmations
	limit := p.r.Pick(1, 2)
	for {
		p.mu.Lock()
		if pending != nil && p.hangConfirm[key] >= limit {
			p.hangSeen[key]++
			p.mu.Unlock()
			return
		}
		ch, busy := p.inflight[key]
		if !busy {
			ch = make(chan struct{})
			p.inflight[key] = ch
			p.mu.Unlock()
			defer func() {
				p.mu.Lock()
				delete(p.inflight, key)
				p.mu.Unlock()
				close(ch)
			}()
			break
		}
		p.mu.Unlock()
		<-ch // another batch is confirming the same shape right now
	}
	sr := p.solo(c, false)
	switch {
	case !sr.ok:
		p.r.Inconclusive(fmt.Sprintf("%s: case %s stopped the batch child (%s) and its solo re-run produced no result (exit %d, timed out %v)", batch, c.ID, why, sr.child.ExitCode, sr.child.TimedOut))
	case sr.Why == "":
		for _, d := range sr.Discs {
			p.addDisc(d)
		}
		p.r.Inconclusive(fmt.Sprintf("%s: case %s looked like a %s in the batch child but finished when re-run alone", batch, c.ID, why))
	default:
		if sr.Pending != nil {
			op, _ = sr.Pending["op"].(string)
			sig, _ = sr.Pending["sig"].(string)
			pending = sr.Pending
		}
		if pending == nil || op == "" || sig == "" {
			// no library call was pending: the time is being spent in the harness itself (or between
			// calls); that is never evidence against the library
			p.r.Inconclusive(fmt.Sprintf("%s: case %s does not finish (%s, also alone) but no library call was pending — not attributable to the library: %s", batch, c.ID, sr.Why, c.Expr.TLA(len(c.Env))))
			return
		}
		key = "C03:" + op + ":" + sig + ":hang"
		tla, _ := pending["tla"].(string)
		desc := fmt.Sprintf("%s%s does not return: %s (reference needed %v steps; reproduced alone in a fresh process: %s)", op, sig, tla, pending["ref_steps"], sr.Why)
		p.mu.Lock()
		p.hangConfirm[key]++
		p.quar[op+sig] = true
		p.mu.Unlock()
		p.r.Report(key, desc, map[string]any{"class": "hang", "how": sr.Why, "case": c, "pending": pending})
	}
}

// runBatch runs one batch to completion, restarting the child after every case that stopped it.
func (p *parent) runBatch(spec BatchSpec) {
	spec.OutFile = p.file("out-" + spec.Name)
	spec.CurFile = p.file("cur-" + spec.Name)
	spec.PendFile = p.file("pend-" + spec.Name)
	defer os.Remove(spec.PendFile)
	spec.WatchMs, spec.Ratio, spec.MemLimit = p.r.Pick(1500, 4000), 1000, 700<<20
	defer os.Remove(spec.OutFile)
	defer os.Remove(spec.CurFile)
	deaths := 0 // consecutive children that died without a word
	for attempt := 0; attempt < 400; attempt++ {
		spec.Quar = p.quarList()
		os.Remove(spec.OutFile)
		sf := p.file("spec-" + spec.Name)
		writeJSON(sf, spec)
		tc := time.Now()
		res := common.RunChild("", "batch", p.scratch, []string{"VERIF_C03_SPEC=" + sf}, time.Duration(p.r.Pick(240, 1500))*time.Second)
		if os.Getenv("VERIF_C03_DEBUG") != "" {
			fmt.Fprintf(os.Stderr, "[%6.1fs] batch %s from %d ran %.1fs exit=%d\n", time.Since(p.t0).Seconds(), spec.Name, spec.From, time.Since(tc).Seconds(), res.ExitCode)
		}
		os.Remove(sf)
		os.Remove(res.OutPath)
		recs, complete, _ := common.ReadJSONL(spec.OutFile)
		next := -1
		var suspect map[string]any
		for _, rec := range recs {
			switch rec["kind"] {
			case "disc":
				var d Disc
				buf, _ := json.Marshal(rec["disc"])
				if json.Unmarshal(buf, &d) == nil {
					p.addDisc(d)
				}
			case "suspect":
				suspect = rec
			case "end", "partial":
				p.absorbEnd(rec)
			}
		}
		if complete {
			return
		}
		p.mu.Lock()
		p.restarts++
		p.mu.Unlock()
		if suspect == nil && len(recs) == 0 {
			deaths++
			if deaths >= 3 {
				p.r.Inconclusive(fmt.Sprintf("%s: three children in a row died without output (exit %d, timed out %v); batch abandoned at case %d. tail: %s", spec.Name, res.ExitCode, res.TimedOut, spec.From, tail(res.Output, 300)))
				return
			}
		} else {
			deaths = 0
		}
		if suspect != nil {
			var c Case
			buf, _ := json.Marshal(suspect["case"])
			_ = json.Unmarshal(buf, &c)
			pend, _ := suspect["pending"].(map[string]any)
			if pend == nil && suspect["during"] == nil {
				pend = readPending(spec.PendFile)
			}
			why, _ := suspect["why"].(string)
			p.handleSuspect(spec.Name, c, why, pend)
			next = int(suspect["i"].(float64)) + 1
		} else {
			// the child died without saying why: the case on disk is the one it was running
			var cur struct {
				I    int  `json:"i"`
				Case Case `json:"case"`
			}
			buf, err := os.ReadFile(spec.CurFile)
			if err != nil || json.Unmarshal([]byte(strings.TrimSpace(string(buf))), &cur) != nil {
				p.r.Inconclusive(fmt.Sprintf("%s: child died (exit %d, timed out %v) and left no current case; batch abandoned. tail: %s", spec.Name, res.ExitCode, res.TimedOut, tail(res.Output, 300)))
				return
			}
			if res.TimedOut {
				p.r.Inconclusive(fmt.Sprintf("%s: batch watchdog expired at case %s", spec.Name, cur.Case.ID))
			} else {
				p.handleFatal(spec.Name, cur.Case, res)
			}
			next = cur.I + 1
		}
		spec.From = next
		if spec.From >= spec.Count {
			// account for the partial batch: no end record, count the cases that ran
			return
		}
	}
	p.r.Inconclusive(spec.Name + ": too many child restarts; batch abandoned")
}

func tail(s string, n int) string {
	if len(s) > n {
		return s[len(s)-n:]
	}
	return s
}

// handleFatal: the child process died while running c (fatal error, harness bug). Re-run alone.
func (p *parent) handleFatal(batch string, c Case, res common.ChildResult) {
	p.mu.Lock()
	p.fatal++
	p.mu.Unlock()
	sr := p.solo(c, false)
	if sr.ok {
		p.r.Inconclusive(fmt.Sprintf("%s: child died at case %s (exit %d) but the case completes when re-run alone. tail: %s", batch, c.ID, res.ExitCode, tail(res.Output, 400)))
		return
	}
	out := tail(sr.child.Output, 1500)
	if strings.Contains(out, "fatal error:") || strings.Contains(out, "stack overflow") {
		p.r.Report("C03:process-fatal:"+c.Expr.Op, "evaluating "+c.Expr.TLA(0)+" kills the process: "+firstLine(out, "fatal error"), map[string]any{"class": "process-fatal", "case": c, "output": out})
		return
	}
	p.r.Inconclusive(fmt.Sprintf("%s: case %s kills the child, also alone (exit %d); looks like a harness bug: %s", batch, c.ID, sr.child.ExitCode, tail(out, 400)))
}

func firstLine(s, marker string) string {
	for _, l := range strings.Split(s, "\n") {
		if strings.Contains(l, marker) {
			return l
		}
	}
	return ""
}

func (p *parent) absorbEnd(rec map[string]any) {
	p.mu.Lock()
	defer p.mu.Unlock()
	num := func(k string) int {
		f, _ := rec[k].(float64)
		return int(f)
	}
	p.cases += num("ran")
	p.calls += num("calls")
	p.unknown += num("unknown")
	p.skipped += num("skipped_calls")
	if m, ok := rec["triples"].(map[string]any); ok {
		for k, v := range m {
			f, _ := v.(float64)
			p.triples[k] += int(f)
		}
	}
	if m, ok := rec["ends"].(map[string]any); ok {
		for k, v := range m {
			f, _ := v.(float64)
			p.ends[k] += int(f)
		}
	}
	if s, ok := rec["samples"].([]any); ok && len(p.samples) < 8 {
		p.samples = append(p.samples, s...)
	}
}

func describe(d Disc) string {
	s := fmt.Sprintf("%s%s %s: %s — TLA+/TLC: %s; runtime: %s", d.Op, d.Sig, d.Class, d.TLA, d.Expected, d.Actual)
	if d.Detail != "" {
		s += " (" + d.Detail + ")"
	}
	if len(s) > 600 {
		s = s[:600] + "…"
	}
	return s
}

func main() {
	switch common.ChildRole() {
	case "batch":
		runBatchChild()
		return
	case "solo":
		runSoloChild()
		return
	}
	r := common.Start("C03", "exploration")
	p := &parent{r: r, scratch: common.Scratch("c03"), quar: map[string]bool{}, hangConfirm: map[string]int{}, hangSeen: map[string]int{}, inflight: map[string]chan struct{}{}, t0: time.Now(),
		discs: map[string][]Disc{}, discCount: map[string]int{}, triples: map[string]int{}, ends: map[string]int{}}
	defer os.RemoveAll(p.scratch)

	if r.Replay != "" {
		p.replay()
		os.RemoveAll(p.scratch)
		r.Finish(common.Coverage{Evaluations: 1, Rule: "replay of one stored case"}, nil)
		return
	}

	if v := os.Getenv("VERIF_C03_CALONLY"); v != "" {
		// development aid: only calibrate the reference against TLC, with "<values>,<errors>" cases
		var nv, ne int
		fmt.Sscanf(v, "%d,%d", &nv, &ne)
		cal := &calibration{}
		cal.run(p, nv, ne, 12)
		buf, _ := json.MarshalIndent(cal.summary(), "", " ")
		fmt.Println(string(buf))
		os.RemoveAll(p.scratch)
		os.Exit(0)
	}
	workers := r.Pick(8, 16)
	// TLC calibration runs beside the workload (it is I/O and JVM bound)
	cal := &calibration{}
	var calWG sync.WaitGroup
	calWG.Add(1)
	onlyA := os.Getenv("VERIF_C03_PHASES") == "A" // development aid: deterministic phase only
	go func() {
		defer calWG.Done()
		if !onlyA {
			cal.run(p, r.Pick(80, 1500), r.Pick(4, 150), r.Pick(5, 14))
		}
	}()

	// phase A: deterministic grid + one smoke pass over every operator; establishes the quarantine
	// list of (operator, signature) shapes with a confirmed hang
	phaseA := []BatchSpec{{Name: "smoke", Kind: "smoke", Seed: r.Seed, Count: len(opGens()) * 8}}
	nGrid := len(gridCases())
	for i, chunks := 0, 4; i < chunks; i++ {
		phaseA = append(phaseA, BatchSpec{Name: fmt.Sprintf("grid%d", i), Kind: "grid", Seed: r.Seed, From: nGrid * i / chunks, Count: nGrid * (i + 1) / chunks})
	}
	// phase B: random operator applications and compositions
	nOps, nComp := r.Pick(12000, 800000), r.Pick(2000, 80000)
	if onlyA {
		nOps, nComp = 0, 0
	}
	per := r.Pick(4000, 25000)
	var phaseB []BatchSpec
	for i, done := 0, 0; done < nOps; i, done = i+1, done+per {
		phaseB = append(phaseB, BatchSpec{Name: fmt.Sprintf("ops%d", i), Kind: "ops", Seed: r.Seed*1000 + int64(i), Count: min(per, nOps-done)})
	}
	for i, done := 0, 0; done < nComp; i, done = i+1, done+per/2 {
		phaseB = append(phaseB, BatchSpec{Name: fmt.Sprintf("comp%d", i), Kind: "comp", Seed: r.Seed*1000 + 500 + int64(i), Count: min(per/2, nComp-done)})
	}
	// one pool: the deterministic batches go first, so that hang confirmations (which establish the
	// quarantine list) overlap with the random batches
	all := append(phaseA, phaseB...)
	t0 := time.Now()
	common.Parallel(len(all), workers-1, func(i int) { p.runBatch(all[i]) })
	r.Note("workload (grid, smoke, random applications and compositions; incl. hang confirmations) took %.1fs", time.Since(t0).Seconds())
	calWG.Wait()
	r.Note("TLC calibration finished %.1fs after the start of the workload", time.Since(t0).Seconds())

	// report
	keys := make([]string, 0, len(p.discs))
	for k := range p.discs {
		keys = append(keys, k)
	}
	sort.Strings(keys)
	classCount := map[string]int{}
	for _, k := range keys {
		ds := p.discs[k]
		sort.Slice(ds, func(i, j int) bool { return len(ds[i].TLA) < len(ds[j].TLA) })
		classCount[ds[0].Class] += p.discCount[k]
		for i := 0; i < p.discCount[k]; i++ {
			r.Report(k, describe(ds[0]), ds[min(i, len(ds)-1)])
		}
	}
	os.RemoveAll(p.scratch) // Finish exits the process: deferred clean-up would not run
	distinct := len(p.triples)
	extra := map[string]any{
		"judged_library_calls":                   p.calls,
		"calls_reference_declined":               p.unknown,
		"calls_skipped_quarantined_or_too_big":   p.skipped,
		"case_endings":                           p.ends,
		"discrepancy_keys":                       p.discCount,
		"discrepancies_by_class":                 classCount,
		"hangs_confirmed":                        p.hangConfirm,
		"hang_suspects_same_key_not_reconfirmed": p.hangSeen,
		"quarantined_shapes":                     p.quarList(),
		"child_restarts":                         p.restarts,
		"solo_reruns":                            p.soloRuns,
		"process_fatal_cases":                    p.fatal,
		"operators_covered":                      opsCovered(p.triples),
		"tlc_calibration":                        cal.summary(),
	}
	r.Finish(common.Coverage{
		Evaluations:        p.cases,
		DistinctNontrivial: distinct,
		Rule:               "distinct (operator, argument-kind signature, outcome class) triples over all judged library calls; outcome class is value / loud ErrTLAType / other panic (hangs are reported separately)",
		Samples:            p.samples,
		Floor:              r.Pick(400, 800),
		Extra:              extra,
	}, []string{
		"the reference evaluator (verifh/refval) encodes TLC 1.8.0 semantics; it is calibrated against the real TLC on a seeded sample each run, disagreements are inconclusive",
		"inputs on which TLC's own answer depends on its enumeration order (a predicate failing on some elements while deciding on others, sets with incomparable elements nested inside values) are not judged",
		"CHOOSE/ToString(composite)/SelectElement are only required to be in range and to be functions of the value, as the statement allows",
		"a loud ErrTLAType is accepted where a function-represented sequence meets a sequence operator, a tuple meets DOMAIN/@@, and for EXCEPT outside the domain",
		"hang = reproduced alone in a fresh process while the reference had redone its work >= 20000 times and the watchdog expired, or the heap passed 2 GiB for a result of a few elements",
	})
}

func opsCovered(triples map[string]int) int {
	ops := map[string]bool{}
	for k := range triples {
		ops[strings.SplitN(k, " ", 2)[0]] = true
	}
	return len(ops)
}

func (p *parent) replay() {
	buf, err := os.ReadFile(p.r.Replay)
	if err != nil {
		fmt.Println("cannot read replay file:", err)
		os.RemoveAll(p.scratch)
		os.Exit(3)
	}
	var rep struct {
		Key     string          `json:"key"`
		Witness json.RawMessage `json:"witness"`
	}
	if err := json.Unmarshal(buf, &rep); err != nil {
		fmt.Println("bad replay file:", err)
		os.RemoveAll(p.scratch)
		os.Exit(3)
	}
	var c Case
	var d Disc
	var hw struct {
		Case    *Case `json:"case"`
		Pending *struct {
			Node json.RawMessage `json:"node"`
			Env  json.RawMessage `json:"env"`
		} `json:"pending"`
	}
	if json.Unmarshal(rep.Witness, &d) == nil && d.Op != "" {
		c = Case{ID: "replay", Expr: d.Node, Env: d.Env}
	} else if json.Unmarshal(rep.Witness, &hw) == nil && hw.Case != nil {
		c = *hw.Case
		if hw.Pending != nil && json.Unmarshal(hw.Pending.Node, &c.Expr) == nil {
			c.Env = nil
			_ = json.Unmarshal(hw.Pending.Env, &c.Env)
		}
	} else {
		fmt.Println("replay file holds no case")
		os.RemoveAll(p.scratch)
		os.Exit(3)
	}
	fmt.Println("replaying:", c.Expr.TLA(len(c.Env)))
	sr := p.solo(c, false)
	switch {
	case !sr.ok:
		fmt.Println("solo run produced no result; output tail:", tail(sr.child.Output, 800))
		p.r.Inconclusive("replay child produced no result")
	case sr.Why != "" && sr.Pending == nil:
		p.r.Inconclusive("replayed case does not finish, but no library call was pending")
	case sr.Why != "":
		op, _ := sr.Pending["op"].(string)
		sig, _ := sr.Pending["sig"].(string)
		p.r.Report("C03:"+op+":"+sig+":hang", "does not return: "+c.Expr.TLA(len(c.Env)), map[string]any{"class": "hang", "how": sr.Why, "case": c, "pending": sr.Pending})
	default:
		if len(sr.Discs) == 0 {
			fmt.Println("the stored case no longer deviates; ended with:", sr.End)
		}
		for _, d := range sr.Discs {
			fmt.Println("  ", describe(d))
			p.r.Report(d.Key, describe(d), d)
		}
	}
}

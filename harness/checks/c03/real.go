package main

import (
	"encoding/json"
	"errors"
	"fmt"
	"math/rand"
	"os"
	"sort"
	"strconv"
	"strings"
	"sync/atomic"
	"time"

	rv "verifh/refval"

	"github.com/DistCompiler/pgo/distsys/tla"
)

// Disc is one judged operator application on which the runtime deviates from the statement.
type Disc struct {
	Op       string   `json:"op"`
	Sig      string   `json:"sig"`
	Class    string   `json:"class"`
	Key      string   `json:"key"`
	Node     rv.Expr  `json:"node"` // standalone reproducer: direct arguments are literals
	Env      []rv.Lit `json:"env,omitempty"`
	TLA      string   `json:"tla"`
	Expected string   `json:"expected"`
	Actual   string   `json:"actual"`
	Detail   string   `json:"detail,omitempty"`
	CaseID   string   `json:"case,omitempty"`
	Shrunk   bool     `json:"shrunk,omitempty"`
}

type pendingCall struct {
	Node     rv.Expr
	Env      []rv.Lit
	Sig      string
	RefSteps int64
	Start    time.Time
}

// Real interprets expressions against the real runtime library, judging every library call locally:
// the reference is applied to the canonical form of the ACTUAL arguments of that call.
type Real struct {
	rng      *rand.Rand
	discs    []Disc
	calls    int // judged library calls
	unknown  int // calls the reference declined to predict
	skipped  int // calls skipped (quarantined operator shapes / results too large)
	triples  map[string]int
	pending  atomic.Pointer[pendingCall]
	quar     map[string]bool
	pendFile *os.File // the pending library call is also kept on disk: it survives a killed or crashed child
	noMeta   bool     // disable the order-dependence re-runs (used while shrinking / classifying)
}

func NewReal(rng *rand.Rand, quar map[string]bool) *Real {
	return &Real{rng: rng, triples: map[string]int{}, quar: quar}
}

const maxArgNodes = 4000

// maxSeqBase: VERIF_C03_SEQCAP overrides it (development aid, to watch the factorial blow-up being keyed)
var maxSeqBase = func() int {
	if n, err := strconv.Atoi(os.Getenv("VERIF_C03_SEQCAP")); err == nil && n > 0 {
		return n
	}
	return 6
}()

// persistPending writes the pending call at offset 0 of the pending file ("x" = none).
func (r *Real) persistPending(pc *pendingCall) {
	if r.pendFile == nil {
		return
	}
	buf := []byte("x\n")
	if pc != nil {
		if b, err := json.Marshal(map[string]any{"op": pc.Node.Op, "sig": pc.Sig, "node": pc.Node, "env": pc.Env, "ref_steps": pc.RefSteps}); err == nil {
			buf = append(b, '\n')
		}
	}
	r.pendFile.WriteAt(buf, 0)
	r.pendFile.Truncate(int64(len(buf)))
}

type abortCase struct{ why string }
type nestedPanic struct{ orig any }

var moduleOps = map[string]func(a []tla.Value) tla.Value{
	"ModuleTRUE":                     func(a []tla.Value) tla.Value { return tla.ModuleTRUE },
	"ModuleFALSE":                    func(a []tla.Value) tla.Value { return tla.ModuleFALSE },
	"ModuleBOOLEAN":                  func(a []tla.Value) tla.Value { return tla.ModuleBOOLEAN },
	"ModuleZero":                     func(a []tla.Value) tla.Value { return tla.ModuleZero },
	"ModuledefaultInitValue":         func(a []tla.Value) tla.Value { return tla.ModuledefaultInitValue },
	"ModuleAssert":                   func(a []tla.Value) tla.Value { return tla.ModuleAssert(a[0], a[1]) },
	"ModuleToString":                 func(a []tla.Value) tla.Value { return tla.ModuleToString(a[0]) },
	"ModuleEqualsSymbol":             func(a []tla.Value) tla.Value { return tla.ModuleEqualsSymbol(a[0], a[1]) },
	"ModuleNotEqualsSymbol":          func(a []tla.Value) tla.Value { return tla.ModuleNotEqualsSymbol(a[0], a[1]) },
	"ModuleLogicalNotSymbol":         func(a []tla.Value) tla.Value { return tla.ModuleLogicalNotSymbol(a[0]) },
	"ModuleEquivSymbol":              func(a []tla.Value) tla.Value { return tla.ModuleEquivSymbol(a[0], a[1]) },
	"ModulePlusSymbol":               func(a []tla.Value) tla.Value { return tla.ModulePlusSymbol(a[0], a[1]) },
	"ModuleMinusSymbol":              func(a []tla.Value) tla.Value { return tla.ModuleMinusSymbol(a[0], a[1]) },
	"ModuleAsteriskSymbol":           func(a []tla.Value) tla.Value { return tla.ModuleAsteriskSymbol(a[0], a[1]) },
	"ModuleSuperscriptSymbol":        func(a []tla.Value) tla.Value { return tla.ModuleSuperscriptSymbol(a[0], a[1]) },
	"ModuleLessThanOrEqualSymbol":    func(a []tla.Value) tla.Value { return tla.ModuleLessThanOrEqualSymbol(a[0], a[1]) },
	"ModuleGreaterThanOrEqualSymbol": func(a []tla.Value) tla.Value { return tla.ModuleGreaterThanOrEqualSymbol(a[0], a[1]) },
	"ModuleLessThanSymbol":           func(a []tla.Value) tla.Value { return tla.ModuleLessThanSymbol(a[0], a[1]) },
	"ModuleGreaterThanSymbol":        func(a []tla.Value) tla.Value { return tla.ModuleGreaterThanSymbol(a[0], a[1]) },
	"ModuleDotDotSymbol":             func(a []tla.Value) tla.Value { return tla.ModuleDotDotSymbol(a[0], a[1]) },
	"ModuleDivSymbol":                func(a []tla.Value) tla.Value { return tla.ModuleDivSymbol(a[0], a[1]) },
	"ModulePercentSymbol":            func(a []tla.Value) tla.Value { return tla.ModulePercentSymbol(a[0], a[1]) },
	"ModuleNegationSymbol":           func(a []tla.Value) tla.Value { return tla.ModuleNegationSymbol(a[0]) },
	"ModuleInSymbol":                 func(a []tla.Value) tla.Value { return tla.ModuleInSymbol(a[0], a[1]) },
	"ModuleNotInSymbol":              func(a []tla.Value) tla.Value { return tla.ModuleNotInSymbol(a[0], a[1]) },
	"ModuleIntersectSymbol":          func(a []tla.Value) tla.Value { return tla.ModuleIntersectSymbol(a[0], a[1]) },
	"ModuleUnionSymbol":              func(a []tla.Value) tla.Value { return tla.ModuleUnionSymbol(a[0], a[1]) },
	"ModuleSubsetOrEqualSymbol":      func(a []tla.Value) tla.Value { return tla.ModuleSubsetOrEqualSymbol(a[0], a[1]) },
	"ModuleBackslashSymbol":          func(a []tla.Value) tla.Value { return tla.ModuleBackslashSymbol(a[0], a[1]) },
	"ModulePrefixSubsetSymbol":       func(a []tla.Value) tla.Value { return tla.ModulePrefixSubsetSymbol(a[0]) },
	"ModulePrefixUnionSymbol":        func(a []tla.Value) tla.Value { return tla.ModulePrefixUnionSymbol(a[0]) },
	"ModuleIsFiniteSet":              func(a []tla.Value) tla.Value { return tla.ModuleIsFiniteSet(a[0]) },
	"ModuleCardinality":              func(a []tla.Value) tla.Value { return tla.ModuleCardinality(a[0]) },
	"ModuleSeq":                      func(a []tla.Value) tla.Value { return tla.ModuleSeq(a[0]) },
	"ModuleLen":                      func(a []tla.Value) tla.Value { return tla.ModuleLen(a[0]) },
	"ModuleOSymbol":                  func(a []tla.Value) tla.Value { return tla.ModuleOSymbol(a[0], a[1]) },
	"ModuleAppend":                   func(a []tla.Value) tla.Value { return tla.ModuleAppend(a[0], a[1]) },
	"ModuleHead":                     func(a []tla.Value) tla.Value { return tla.ModuleHead(a[0]) },
	"ModuleTail":                     func(a []tla.Value) tla.Value { return tla.ModuleTail(a[0]) },
	"ModuleSubSeq":                   func(a []tla.Value) tla.Value { return tla.ModuleSubSeq(a[0], a[1], a[2]) },
	"ModuleSelectSeq":                func(a []tla.Value) tla.Value { return tla.ModuleSelectSeq(a[0], a[1]) },
	"ModuleColonGreaterThanSymbol":   func(a []tla.Value) tla.Value { return tla.ModuleColonGreaterThanSymbol(a[0], a[1]) },
	"ModuleDoubleAtSignSymbol":       func(a []tla.Value) tla.Value { return tla.ModuleDoubleAtSignSymbol(a[0], a[1]) },
	"ModuleDomainSymbol":             func(a []tla.Value) tla.Value { return tla.ModuleDomainSymbol(a[0]) },
}

// arity of the Module operators (for validation of replayed/generated expressions)
var moduleArity = map[string]int{"ModuleTRUE": 0, "ModuleFALSE": 0, "ModuleBOOLEAN": 0, "ModuleZero": 0, "ModuledefaultInitValue": 0,
	"ModuleToString": 1, "ModuleLogicalNotSymbol": 1, "ModuleNegationSymbol": 1, "ModulePrefixSubsetSymbol": 1, "ModulePrefixUnionSymbol": 1,
	"ModuleIsFiniteSet": 1, "ModuleCardinality": 1, "ModuleSeq": 1, "ModuleLen": 1, "ModuleHead": 1, "ModuleTail": 1, "ModuleDomainSymbol": 1,
	"ModuleSubSeq": 3}

func arityOK(e *rv.Expr) bool {
	if _, ok := moduleOps[e.Op]; !ok {
		return true
	}
	want, ok := moduleArity[e.Op]
	if !ok {
		want = 2
	}
	return len(e.Args) == want
}

func ext(env []tla.Value, xs ...tla.Value) []tla.Value {
	return append(env[:len(env):len(env)], xs...)
}

// Eval interprets e; library panics propagate (wrapped in nestedPanic once judged).
func (r *Real) Eval(e *rv.Expr, env []tla.Value) tla.Value {
	switch e.Op {
	case "lit":
		return rv.ToTLA(*e.Lit)
	case "var":
		return env[e.Var]
	case "and":
		if !r.Eval(&e.Args[0], env).AsBool() {
			return tla.ModuleFALSE
		}
		return tla.MakeBool(r.Eval(&e.Args[1], env).AsBool())
	case "or":
		if r.Eval(&e.Args[0], env).AsBool() {
			return tla.ModuleTRUE
		}
		return tla.MakeBool(r.Eval(&e.Args[1], env).AsBool())
	case "implies":
		if !r.Eval(&e.Args[0], env).AsBool() {
			return tla.ModuleTRUE
		}
		return tla.MakeBool(r.Eval(&e.Args[1], env).AsBool())
	case "if":
		if r.Eval(&e.Args[0], env).AsBool() {
			return r.Eval(&e.Args[1], env)
		}
		return r.Eval(&e.Args[2], env)
	}
	if !arityOK(e) {
		panic(abortCase{"bad arity for " + e.Op})
	}
	args := make([]tla.Value, len(e.Args))
	for i := range e.Args {
		args[i] = r.Eval(&e.Args[i], env)
	}
	var subKeys [][]tla.Value
	for i := range e.Subs {
		var ks []tla.Value
		for j := range e.Subs[i].Keys {
			ks = append(ks, r.Eval(&e.Subs[i].Keys[j], env))
		}
		subKeys = append(subKeys, ks)
	}
	return r.call(e, args, subKeys, env)
}

// invoke performs the library call the compiler would emit for node e.
func (r *Real) invoke(e *rv.Expr, args []tla.Value, subKeys [][]tla.Value, env []tla.Value) tla.Value {
	if f, ok := moduleOps[e.Op]; ok {
		return f(args)
	}
	switch e.Op {
	case "forall":
		return tla.QuantifiedUniversal(args, func(b []tla.Value) bool { return r.Eval(e.Body, ext(env, b...)).AsBool() })
	case "exists":
		return tla.QuantifiedExistential(args, func(b []tla.Value) bool { return r.Eval(e.Body, ext(env, b...)).AsBool() })
	case "choose":
		return tla.Choose(args[0], func(x tla.Value) bool { return r.Eval(e.Body, ext(env, x)).AsBool() })
	case "setref":
		return tla.SetRefinement(args[0], func(x tla.Value) bool { return r.Eval(e.Body, ext(env, x)).AsBool() })
	case "setcomp":
		return tla.SetComprehension(args, func(b []tla.Value) tla.Value { return r.Eval(e.Body, ext(env, b...)) })
	case "mkfn":
		return tla.MakeFunction(args, func(b []tla.Value) tla.Value { return r.Eval(e.Body, ext(env, b...)) })
	case "cross":
		return tla.CrossProduct(args...)
	case "recset", "mkrec":
		fs := make([]tla.RecordField, len(args))
		for i := range args {
			fs[i] = tla.RecordField{Key: tla.MakeString(e.Names[i]), Value: args[i]}
		}
		if e.Op == "recset" {
			return tla.MakeRecordSet(fs)
		}
		return tla.MakeRecord(fs)
	case "fnset":
		return tla.MakeFunctionSet(args[0], args[1])
	case "mkset":
		return tla.MakeSet(args...)
	case "mktup":
		return tla.MakeTuple(args...)
	case "apply":
		return args[0].ApplyFunction(args[1])
	case "select":
		return args[0].SelectElement(uint(e.Idx))
	case "except":
		subs := make([]tla.FunctionSubstitutionRecord, len(e.Subs))
		for i := range e.Subs {
			val := &e.Subs[i].Val
			subs[i] = tla.FunctionSubstitutionRecord{Keys: subKeys[i], Value: func(anchor tla.Value) tla.Value {
				return r.Eval(val, ext(env, anchor))
			}}
		}
		return tla.FunctionSubstitution(args[0], subs)
	}
	panic(abortCase{"unknown operator " + e.Op})
}

func lits(vs []tla.Value) []rv.Lit {
	out := make([]rv.Lit, len(vs))
	for i, v := range vs {
		out[i] = rv.LitFromTLA(v)
	}
	return out
}

func vsOf(ls []rv.Lit) []rv.V {
	out := make([]rv.V, len(ls))
	for i, l := range ls {
		out[i] = l.V()
	}
	return out
}

// standalone copies node e with its direct arguments replaced by literals.
func standalone(e *rv.Expr, argLits []rv.Lit, keyLits [][]rv.Lit) rv.Expr {
	n := *e
	n.Args = make([]rv.Expr, len(argLits))
	for i, l := range argLits {
		n.Args[i] = rv.ELit(l)
	}
	if len(e.Subs) > 0 {
		n.Subs = make([]rv.Sub, len(e.Subs))
		for i := range e.Subs {
			n.Subs[i].Val = e.Subs[i].Val
			for _, l := range keyLits[i] {
				n.Subs[i].Keys = append(n.Subs[i].Keys, rv.ELit(l))
			}
		}
	}
	return n
}

// positions whose value TLC's result does not depend on the kind of
var opaque = map[string][]int{"ModuleAssert": {1}, "ModuleAppend": {1}, "ModuleColonGreaterThanSymbol": {0, 1}, "ModuleSelectSeq": {0, 1}}

func signature(e *rv.Expr, argLits []rv.Lit, keyLits [][]rv.Lit) string {
	parts := make([]string, 0, len(argLits)+len(keyLits))
	for i, l := range argLits {
		s := rv.KindSig(l)
		for _, p := range opaque[e.Op] {
			if p == i {
				s = "_"
			}
		}
		if e.Op == "mktup" || e.Op == "mkrec" {
			s = "_"
		}
		parts = append(parts, s)
	}
	for _, ks := range keyLits {
		kk := make([]string, len(ks))
		for i, k := range ks {
			kk[i] = rv.KindSig(k)
		}
		parts = append(parts, "!"+strings.Join(kk, "."))
	}
	if e.Op == "select" {
		parts = append(parts, fmt.Sprintf("#%d", e.Idx))
	}
	return "(" + strings.Join(parts, ",") + ")"
}

// the statement's documented restriction: a sequence is not accepted where a function is required, or
// vice versa. seqOnly lists sequence positions, fnOnly function positions.
var seqOnly = map[string][]int{"ModuleLen": {0}, "ModuleOSymbol": {0, 1}, "ModuleAppend": {0}, "ModuleHead": {0}, "ModuleTail": {0}, "ModuleSubSeq": {0}, "ModuleSelectSeq": {0}}
var fnOnly = map[string][]int{"ModuleDomainSymbol": {0}, "ModuleDoubleAtSignSymbol": {0, 1}}

func restrictionApplies(op string, argLits []rv.Lit) bool {
	for _, p := range seqOnly[op] {
		if p < len(argLits) && argLits[p].T == "fn" {
			return true
		}
	}
	for _, p := range fnOnly[op] {
		if p < len(argLits) && argLits[p].T == "tup" {
			return true
		}
	}
	return false
}

type outcome struct {
	kind string // value errtype panic
	val  tla.Value
	pan  any
}

func (o outcome) String() string {
	switch o.kind {
	case "value":
		return "value " + o.val.String()
	case "errtype":
		return fmt.Sprintf("loud type error: %v", o.pan)
	}
	return fmt.Sprintf("panic (not ErrTLAType): %v", o.pan)
}

func classifyPanic(p any) string {
	if err, ok := p.(error); ok && errors.Is(err, tla.ErrTLAType) {
		return "errtype"
	}
	return "panic"
}

// try runs one library call, converting a panic of the call itself into an outcome. Panics that were
// already judged deeper (nestedPanic) and aborts propagate.
func (r *Real) try(e *rv.Expr, args []tla.Value, subKeys [][]tla.Value, env []tla.Value) (o outcome) {
	defer func() {
		if p := recover(); p != nil {
			switch p.(type) {
			case abortCase, nestedPanic:
				panic(p)
			}
			o = outcome{kind: classifyPanic(p), pan: p}
		}
	}()
	return outcome{kind: "value", val: r.invoke(e, args, subKeys, env)}
}

type expectation struct {
	val     rv.V
	cands   []rv.V
	choice  bool
	err     error
	outside bool // EXCEPT left the domain
	steps   int64
}

func (x expectation) String() string {
	switch {
	case x.err != nil:
		return x.err.Error()
	case x.choice:
		return "any of " + rv.V{K: rv.KSet, E: x.cands}.String()
	}
	return "value " + x.val.String()
}

func expect(e *rv.Expr, argLits []rv.Lit, keyLits [][]rv.Lit, envLits []rv.Lit) expectation {
	ev := &rv.Evaluator{Limit: 3_000_000}
	na := rv.NodeArgs{Args: vsOf(argLits)}
	for _, ks := range keyLits {
		na.SubKeys = append(na.SubKeys, vsOf(ks))
	}
	env := vsOf(envLits)
	var x expectation
	if rv.IsChoice(e.Op) {
		x.choice = true
		x.cands, x.err = ev.Candidates(e, na, env)
	} else {
		x.val, x.err = ev.ApplyNode(e, na, env)
	}
	x.outside = ev.ExceptOutside
	x.steps = ev.Steps
	if ev.Free && !rv.IsUnknown(x.err) && e.Op != "ModuleToString" {
		x.err = &rv.UnknownError{Why: "the body goes through CHOOSE/SelectElement/ToString, whose result TLA+ leaves open"}
	}
	return x
}

// judge compares an outcome with the expectation; "" means the statement is respected.
func judge(e *rv.Expr, argLits []rv.Lit, x expectation, o outcome) (class, detail string) {
	if x.err != nil {
		if rv.IsUnknown(x.err) {
			return "", ""
		}
		switch o.kind {
		case "errtype":
			return "", ""
		case "panic":
			return "panic-not-errtype", ""
		}
		c := rv.ErrClass(x.err)
		if c == "compare" {
			return "value-on-incomparable", ""
		}
		return "value-on-" + c, ""
	}
	switch o.kind {
	case "panic":
		return "panic-not-errtype", ""
	case "errtype":
		if restrictionApplies(e.Op, argLits) || (e.Op == "except" && x.outside) {
			return "", ""
		}
		return "errtype-where-tlc-value", ""
	}
	got := rv.FromTLA(o.val)
	if x.choice {
		for _, c := range x.cands {
			if rv.Same(c, got) {
				return "", ""
			}
		}
		return "choice-outside-candidates", ""
	}
	if e.Op == "ModuleToString" && len(argLits) == 1 && (argLits[0].T == "set" || argLits[0].T == "tup" || argLits[0].T == "fn" || argLits[0].T == "dflt") {
		// TLA+ leaves the string open (ToString(v) is some string determined by v); TLC's rendering is
		// only demanded for atoms. Being a function of the value is checked separately.
		if got.K == rv.KStr {
			return "", ""
		}
		return "wrong-value", "not a string"
	}
	if x.val.K == rv.KSeqSet {
		if w, ok := seqWitness(x.val, got); ok {
			return "wrong-value", w
		}
		return "", ""
	}
	if rv.Same(x.val, got) {
		return "", ""
	}
	return "wrong-value", ""
}

// seqWitness finds a sequence over S that the finite set `got` wrongly excludes (or a member that is
// not in Seq(S)).
func seqWitness(seqset, got rv.V) (string, bool) {
	if got.K != rv.KSet {
		return "not a set", true
	}
	for _, m := range got.E {
		ok, err := rv.Member(m, seqset)
		if err != nil || !ok {
			return fmt.Sprintf("%s is a member of the result but not of %s", m, seqset), true
		}
	}
	cands := [][]rv.V{nil}
	if len(seqset.E) > 0 {
		cands = append(cands, []rv.V{seqset.E[0]}, []rv.V{seqset.E[0], seqset.E[0]})
	}
	for _, cand := range cands {
		t := rv.MkTuple(cand)
		if !got.Has(t) {
			return fmt.Sprintf("%s \\in %s is TRUE in TLA+, but the result set does not contain it (so the membership test is FALSE)", t, seqset), true
		}
	}
	return "", false
}

func (r *Real) call(e *rv.Expr, args []tla.Value, subKeys [][]tla.Value, env []tla.Value) tla.Value {
	argLits, envLits := lits(args), lits(env)
	keyLits := make([][]rv.Lit, len(subKeys))
	for i := range subKeys {
		keyLits[i] = lits(subKeys[i])
	}
	sig := signature(e, argLits, keyLits)
	x := expect(e, argLits, keyLits, envLits)
	if x.err != nil && rv.IsUnknown(x.err) {
		r.unknown++
		if u := x.err.(*rv.UnknownError); strings.Contains(u.Why, "too large") || strings.Contains(u.Why, "too many") || strings.Contains(u.Why, "step limit") || strings.Contains(u.Why, "SUBSET of") {
			r.skipped++
			panic(abortCase{"result too large for the reference: " + u.Why})
		}
	}
	if r.quar[e.Op+sig] {
		r.skipped++
		panic(abortCase{"quarantined after confirmed hang: " + e.Op + sig})
	}
	// workload caps: the n! blow-up of ModuleSeq is a recorded defect (C03:ModuleSeq:(set):hang); beyond
	// maxSeqBase elements the call would only burn the budget, and values of thousands of nodes make the
	// harness's own canonicalisation quadratic.
	if e.Op == "ModuleSeq" && len(argLits) == 1 && argLits[0].T == "set" && len(argLits[0].Xs) > maxSeqBase {
		r.skipped++
		panic(abortCase{"Seq of a set with more than 6 elements (known factorial blow-up)"})
	}
	total := 0
	for _, l := range argLits {
		total += litSize(l)
	}
	if total > maxArgNodes {
		r.skipped++
		panic(abortCase{"arguments too large for the harness"})
	}
	node := standalone(e, argLits, keyLits)
	before := len(r.discs)
	outer := r.pending.Load()
	pc := &pendingCall{Node: node, Env: envLits, Sig: sig, RefSteps: x.steps, Start: time.Now()}
	r.pending.Store(pc)
	r.persistPending(pc)
	o := r.try(e, args, subKeys, env)
	r.pending.Store(outer) // the enclosing library call (whose body we are in) is pending again
	r.persistPending(outer)
	r.calls++
	r.triples[e.Op+" "+sig+" "+o.kind]++
	tainted := len(r.discs) != before
	if !tainted {
		class, detail := judge(e, argLits, x, o)
		if class != "" {
			class = r.refine(class, e, argLits, keyLits, envLits, x)
			r.record(e, node, envLits, sig, class, x, o.String(), detail)
		} else if !r.noMeta && o.kind == "value" {
			r.meta(e, node, argLits, keyLits, envLits, sig, x, o)
		}
	}
	if o.kind != "value" {
		panic(nestedPanic{o.pan})
	}
	return o.val
}

func (r *Real) record(e *rv.Expr, node rv.Expr, envLits []rv.Lit, sig, class string, x expectation, actual, detail string) {
	ksig := sig
	switch class {
	case "value-on-incomparable":
		ksig = "mixed-kinds"
	case "seq-vs-function-confusion":
		ksig = "seq-as-function"
	}
	r.discs = append(r.discs, Disc{Op: e.Op, Sig: sig, Class: class, Key: "C03:" + e.Op + ":" + ksig + ":" + class,
		Node: node, Env: envLits, TLA: node.TLA(len(envLits)), Expected: x.String(), Actual: actual, Detail: detail})
}

func anySeqFn(ls ...[]rv.Lit) bool {
	for _, l := range ls {
		for _, x := range l {
			if rv.HasSeqFn(x) {
				return true
			}
		}
	}
	return false
}

// collapses reports whether some set (or function domain) inside l has fewer elements in TLA+ than in
// the runtime's representation.
func collapses(l rv.Lit) bool {
	switch l.T {
	case "set":
		seen := map[string]bool{}
		distinctRuntime := 0
		for _, x := range l.Xs {
			k := litKey(x)
			if !seen[k] {
				seen[k] = true
				distinctRuntime++
			}
		}
		if len(l.V().E) < distinctRuntime {
			return true
		}
	case "fn":
		seen := map[string]bool{}
		distinctRuntime := 0
		for _, x := range l.Xs {
			k := litKey(x)
			if !seen[k] {
				seen[k] = true
				distinctRuntime++
			}
		}
		if len(l.V().D) < distinctRuntime {
			return true
		}
	}
	for _, x := range l.Xs {
		if collapses(x) {
			return true
		}
	}
	for _, y := range l.Ys {
		if collapses(y) {
			return true
		}
	}
	return false
}

// litKey identifies a literal up to the runtime's own notion of equality (representation kept, sets
// and function pairs in canonical order).
func litKey(l rv.Lit) string {
	switch l.T {
	case "set":
		ks := make([]string, len(l.Xs))
		for i, x := range l.Xs {
			ks[i] = litKey(x)
		}
		sort.Strings(ks)
		return "{" + strings.Join(ks, ",") + "}"
	case "tup":
		ks := make([]string, len(l.Xs))
		for i, x := range l.Xs {
			ks[i] = litKey(x)
		}
		return "<" + strings.Join(ks, ",") + ">"
	case "fn":
		m := map[string]string{}
		for i := range l.Xs {
			m[litKey(l.Xs[i])] = litKey(l.Ys[i])
		}
		ks := make([]string, 0, len(m))
		for k, v := range m {
			ks = append(ks, k+":>"+v)
		}
		sort.Strings(ks)
		return "(" + strings.Join(ks, ",") + ")"
	}
	return l.T + ":" + l.TLA()
}

func uniform(ls []rv.Lit) []tla.Value {
	out := make([]tla.Value, len(ls))
	for i, l := range ls {
		out[i] = rv.ToTLA(rv.FromV(l.V(), true))
	}
	return out
}

// refine narrows a discrepancy class: if the arguments contain a sequence represented as a function
// (domain 1..n) and the same call on the same abstract values, all sequences represented as tuples,
// respects the statement, the deviation is the runtime treating <<a, b>> and (1 :> a @@ 2 :> b) as
// different values.
func (r *Real) refine(class string, e *rv.Expr, argLits []rv.Lit, keyLits [][]rv.Lit, envLits []rv.Lit, x expectation) string {
	if class == "panic-not-errtype" || !anySeqFn(append(keyLits, argLits, envLits)...) {
		return class
	}
	// When TLC raises, the call is only re-examined if an argument holds the same TLA+ value twice (once as
	// a tuple, once as a function): such a value only exists because the runtime keeps the two apart.
	if x.err != nil {
		any := false
		for _, ls := range append(keyLits, argLits, envLits) {
			for _, l := range ls {
				any = any || collapses(l)
			}
		}
		if !any {
			return class
		}
	}
	sub := &Real{rng: r.rng, triples: map[string]int{}, noMeta: true}
	ks := make([][]tla.Value, len(keyLits))
	for i := range keyLits {
		ks[i] = uniform(keyLits[i])
	}
	ok := false
	func() {
		defer func() {
			if p := recover(); p != nil {
				ok = false
			}
		}()
		uargs := uniform(argLits)
		o := sub.try(e, uargs, ks, uniform(envLits))
		c, _ := judge(e, lits(uargs), x, o)
		ok = c == "" && len(sub.discs) == 0
	}()
	if ok {
		return "seq-vs-function-confusion"
	}
	return class
}

// meta runs the metamorphic checks of operators whose result TLA+ fixes only as "a function of the
// value": CHOOSE, ToString (and the compiler's SelectElement, which must enumerate the set).
func (r *Real) meta(e *rv.Expr, node rv.Expr, argLits []rv.Lit, keyLits [][]rv.Lit, envLits []rv.Lit, sig string, x expectation, o outcome) {
	switch e.Op {
	case "choose", "ModuleToString":
		first := rv.FromTLA(o.val)
		for round := 0; round < 3; round++ {
			pl := make([]rv.Lit, len(argLits))
			for i, l := range argLits {
				pl[i] = permuteLit(l, r.rng)
			}
			pargs := make([]tla.Value, len(pl))
			for i, l := range pl {
				pargs[i] = rv.ToTLA(l)
			}
			env := make([]tla.Value, len(envLits))
			for i, l := range envLits {
				env[i] = rv.ToTLA(l)
			}
			sub := &Real{rng: r.rng, triples: map[string]int{}, noMeta: true}
			var o2 outcome
			aborted := false
			func() {
				defer func() {
					if p := recover(); p != nil {
						aborted = true
					}
				}()
				o2 = sub.try(e, pargs, nil, env)
			}()
			if aborted || len(sub.discs) > 0 || o2.kind != "value" {
				return
			}
			second := rv.FromTLA(o2.val)
			if !rv.Same(first, second) {
				n2 := standalone(e, pl, keyLits)
				r.record(e, node, envLits, sig, "not-a-function-of-value", x,
					fmt.Sprintf("%s for %s, but %s for the equal value %s built in another order", o.val, node.TLA(len(envLits)), o2.val, n2.TLA(len(envLits))), "")
				return
			}
		}
	case "select":
		if e.Idx != 0 || len(x.cands) == 0 {
			return
		}
		var got []rv.V
		for i := range x.cands {
			var o2 outcome
			ne := *e
			ne.Idx = i
			func() {
				defer func() {
					if p := recover(); p != nil {
						o2 = outcome{kind: "panic", pan: p}
					}
				}()
				o2 = (&Real{rng: r.rng, triples: map[string]int{}, noMeta: true}).try(&ne, []tla.Value{rv.ToTLA(argLits[0])}, nil, nil)
			}()
			if o2.kind != "value" {
				return
			}
			got = append(got, rv.FromTLA(o2.val))
		}
		if !rv.Same(rv.MkSet(got), rv.MkSet(x.cands)) {
			r.record(e, node, envLits, sig, "select-does-not-enumerate-set", x, fmt.Sprintf("indices 0..%d select %s", len(x.cands)-1, rv.MkSet(got)), "")
		}
	}
}

// RunCase evaluates a whole case; the result says how the top level ended.
func (r *Real) RunCase(e *rv.Expr, env []rv.Lit) (end string) {
	defer func() {
		if p := recover(); p != nil {
			switch q := p.(type) {
			case abortCase:
				end = "skipped: " + q.why
			case nestedPanic:
				end = "library panic"
			default:
				end = "native type error"
				if classifyPanic(p) != "errtype" {
					panic(p) // a bug of the harness itself: let the child die loudly
				}
			}
		}
	}()
	bad := false
	e.Walk(func(x *rv.Expr) {
		if x.Lit != nil && !litInRange(*x.Lit) {
			bad = true
		}
	})
	for _, l := range env {
		bad = bad || !litInRange(l)
	}
	if bad {
		return "skipped: literal outside the 32-bit range"
	}
	tenv := make([]tla.Value, len(env))
	for i, l := range env {
		tenv[i] = rv.ToTLA(l)
	}
	r.Eval(e, tenv)
	return "value"
}

func litInRange(l rv.Lit) bool {
	if l.T == "i" && (l.I > rv.MaxInt || l.I < rv.MinInt) {
		return false
	}
	for _, x := range l.Xs {
		if !litInRange(x) {
			return false
		}
	}
	for _, y := range l.Ys {
		if !litInRange(y) {
			return false
		}
	}
	return true
}

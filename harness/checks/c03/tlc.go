package main

import (
	"context"
	"fmt"
	"math/rand"
	"os"
	"os/exec"
	"path/filepath"
	"regexp"
	"strconv"
	"strings"
	"sync"
	"time"

	"verifh/common"
	rv "verifh/refval"
)

// Calibration of the reference evaluator against the real TLC. A disagreement is a bug of the
// harness (of refval), never a violation of the property: it makes the run inconclusive.

type calCase struct {
	id    string
	expr  rv.Expr
	text  string // TLA+ text of the expression
	check string // value cases: a Boolean TLA+ expression that must print TRUE
	want  string // human-readable prediction
	isErr bool
}

type calibration struct {
	mu            sync.Mutex
	valueCases    int
	valueAgree    int
	errCases      int
	errAgree      int
	disagreements []string
	tlcRuns       int
	tlcFailures   int
	considered    int
	notCalibrable int
	samples       []string
}

func (c *calibration) summary() map[string]any {
	c.mu.Lock()
	defer c.mu.Unlock()
	return map[string]any{
		"value_cases": c.valueCases, "value_agree": c.valueAgree, "error_cases": c.errCases, "error_agree": c.errAgree,
		"disagreements": c.disagreements, "tlc_runs": c.tlcRuns, "tlc_failures": c.tlcFailures,
		"expressions_considered": c.considered, "not_calibrable": c.notCalibrable, "samples": c.samples,
	}
}

func onlyInts(v rv.V) bool {
	switch v.K {
	case rv.KInt, rv.KBool:
		return true
	case rv.KSet:
		for _, e := range v.E {
			if !onlyInts(e) {
				return false
			}
		}
		return true
	case rv.KFn:
		for i := range v.D {
			if !onlyInts(v.D[i]) || !onlyInts(v.R[i]) {
				return false
			}
		}
		return true
	}
	return false
}

// calibrable builds the TLC check for a closed expression, or reports that TLC cannot be asked.
func calibrable(c Case) (calCase, bool) {
	e := c.Expr
	bad := false
	nChoose := 0
	e.Walk(func(x *rv.Expr) {
		switch x.Op {
		case "select", "ModuleSelectSeq":
			bad = true
		case "choose":
			nChoose++
		case "ModuleSuperscriptSymbol":
			if len(x.Args) == 2 && x.Args[1].Op == "lit" && x.Args[1].Lit.T == "i" && x.Args[1].Lit.I > 64 {
				bad = true
			}
		case "ModuleToString":
			if len(x.Args) != 1 || x.Args[0].Op != "lit" || (x.Args[0].Lit.T != "i" && x.Args[0].Lit.T != "b" && x.Args[0].Lit.T != "s") {
				bad = true
			}
		case "lit":
			if !rv.WellFormed(x.Lit.V()) || !litInRange(*x.Lit) {
				bad = true
			}
		}
		if !arityOK(x) {
			bad = true
		}
	})
	if bad || e.Op == "ModuleSeq" || len(c.Env) > 0 || (nChoose > 0 && !(nChoose == 1 && e.Op == "choose")) {
		return calCase{}, false
	}
	ev := &rv.Evaluator{Limit: 200_000}
	cc := calCase{id: c.ID, expr: e, text: e.TLA(0)}
	if e.Op == "choose" {
		set, err := ev.Eval(&e.Args[0], nil)
		if err != nil {
			return calCase{}, false
		}
		cands, err := ev.Candidates(&e, rv.NodeArgs{Args: []rv.V{set}}, nil)
		if err != nil {
			if rv.IsUnknown(err) {
				return calCase{}, false
			}
			cc.isErr, cc.want = true, err.Error()
			return cc, true
		}
		cs := rv.V{K: rv.KSet, E: cands}
		cc.check = "(" + cc.text + ") \\in " + rv.FromV(cs, true).TLA()
		cc.want = "any of " + cs.String()
		return cc, true
	}
	v, err := ev.Eval(&e, nil)
	if err != nil {
		if rv.IsUnknown(err) {
			return calCase{}, false
		}
		cc.isErr, cc.want = true, err.Error()
		return cc, true
	}
	if v.K == rv.KSeqSet || !rv.WellFormed(v) {
		return calCase{}, false
	}
	cc.check = "(" + cc.text + ") = " + rv.FromV(v, true).TLA()
	cc.want = v.String()
	return cc, true
}

const calOffset = 770000

const moduleHead = "EXTENDS Integers, Sequences, FiniteSets, TLC\nCONSTANT defaultInitValue\n"

var printed = regexp.MustCompile(`(?m)^<<(\d+), (.*)>>\s*$`)

// runTLC evaluates the ASSUMEs of a generated module; returns TLC's output.
func runTLC(dir, name string, assumes []string) (string, error) {
	_ = os.MkdirAll(dir, 0o755)
	var sb strings.Builder
	sb.WriteString("---- MODULE " + name + " ----\n" + moduleHead)
	for _, a := range assumes {
		sb.WriteString("ASSUME " + a + "\n")
	}
	sb.WriteString("====\n")
	if err := os.WriteFile(filepath.Join(dir, name+".tla"), []byte(sb.String()), 0o644); err != nil {
		return "", err
	}
	if err := os.WriteFile(filepath.Join(dir, name+".cfg"), []byte("CONSTANT defaultInitValue = defaultInitValue\n"), 0o644); err != nil {
		return "", err
	}
	ctx, cancel := context.WithTimeout(context.Background(), 240*time.Second)
	defer cancel()
	cmd := exec.CommandContext(ctx, "tlc", "-workers", "1", "-config", name+".cfg", name+".tla")
	cmd.Dir = dir
	cmd.Env = append(os.Environ(), "JAVA_TOOL_OPTIONS=-XX:TieredStopAtLevel=1 -Xmx1g")
	out, err := cmd.CombinedOutput()
	if ctx.Err() != nil {
		return string(out), fmt.Errorf("tlc timed out")
	}
	_ = err // TLC exits non-zero on evaluation errors; the output is what counts
	return string(out), nil
}

func parseFailed(out string) bool {
	return strings.Contains(out, "Parsing or semantic analysis failed") || strings.Contains(out, "*** Errors:") || strings.Contains(out, "Fatal errors while parsing") || strings.Contains(out, "TLC can't handle a number this big")
}

func tlcError(out string) string {
	i := strings.Index(out, "Error:")
	if i < 0 {
		return ""
	}
	s := out[i:]
	if j := strings.Index(s, "Finished in"); j > 0 {
		s = s[:j]
	}
	s = strings.Join(strings.Fields(s), " ")
	if len(s) > 300 {
		s = s[:300]
	}
	return s
}

func (c *calibration) disagree(p *parent, format string, a ...any) {
	msg := fmt.Sprintf(format, a...)
	c.mu.Lock()
	if len(c.disagreements) < 40 {
		c.disagreements = append(c.disagreements, msg)
	}
	c.mu.Unlock()
	p.r.Inconclusive("reference evaluator disagrees with TLC (harness bug, fix refval): " + msg)
}

func (c *calibration) run(p *parent, nValue, nErr, workers int) {
	rng := p.r.Rand("tlc-calibration")
	grid := gridCases()
	gens := opGens()
	var values, errs []calCase
	seen := map[string]bool{}
	for attempts := 0; attempts < 200*(nValue+nErr) && (len(values) < nValue || len(errs) < nErr); attempts++ {
		var cs Case
		switch rng.Intn(4) {
		case 0:
			cs = grid[rng.Intn(len(grid))]
		case 1:
			spec := BatchSpec{Name: "cal-comp", Kind: "comp", Seed: p.r.Seed*31 + 5}
			cs = genCase(&spec, gens, nil, rng.Intn(1<<30))
		default:
			spec := BatchSpec{Name: "cal-ops", Kind: "ops", Seed: p.r.Seed*31 + 7}
			cs = genCase(&spec, gens, nil, rng.Intn(1<<30))
		}
		c.considered++
		cc, ok := calibrable(cs)
		if !ok || seen[cc.text] || len(cc.text) > 1500 {
			c.notCalibrable++
			continue
		}
		seen[cc.text] = true
		if cc.isErr {
			if len(errs) < nErr {
				errs = append(errs, cc)
			}
		} else if len(values) < nValue {
			values = append(values, cc)
		}
	}
	for i := 0; i < 4 && i < len(values); i++ {
		c.samples = append(c.samples, values[i].check)
	}
	for i := 0; i < 3 && i < len(errs); i++ {
		c.samples = append(c.samples, errs[i].text+"  -- expected: "+errs[i].want)
	}
	dir := filepath.Join(p.scratch, "tlc")
	// value cases in batches; error cases one TLC process each
	const per = 250
	type job struct {
		vals []calCase
		err  *calCase
		n    int
	}
	var jobs []job
	for i := 0; i < len(values); i += per {
		jobs = append(jobs, job{vals: values[i:min(i+per, len(values))], n: len(jobs)})
	}
	for i := range errs {
		jobs = append(jobs, job{err: &errs[i], n: len(jobs)})
	}
	_ = rand.Int
	common.Parallel(len(jobs), workers, func(ji int) {
		j := jobs[ji]
		jd := filepath.Join(dir, fmt.Sprintf("j%d", j.n))
		defer os.RemoveAll(jd)
		if j.err != nil {
			c.errorCase(p, jd, *j.err)
			return
		}
		c.valueBatch(p, jd, j.vals)
	})
}

func (c *calibration) count(f func()) {
	c.mu.Lock()
	f()
	c.mu.Unlock()
}

func (c *calibration) errorCase(p *parent, dir string, cc calCase) {
	out, err := runTLC(dir, "CalE", []string{fmt.Sprintf("PrintT(<<%d, (%s) = (%s), %s>>)", calOffset, cc.text, cc.text, cc.text)})
	c.count(func() { c.tlcRuns++ })
	if err != nil || parseFailed(out) {
		c.count(func() { c.tlcFailures++ })
		p.r.Inconclusive(fmt.Sprintf("TLC could not be asked about %s: %v %s", cc.text, err, tlcError(out)))
		return
	}
	c.count(func() { c.errCases++ })
	for _, m := range printed.FindAllStringSubmatch(out, -1) {
		if m[1] == strconv.Itoa(calOffset) {
			c.disagree(p, "%s: reference predicts %s, TLC prints %s", cc.text, cc.want, m[2])
			return
		}
	}
	if tlcError(out) == "" {
		c.count(func() { c.tlcFailures++ })
		p.r.Inconclusive("TLC neither printed nor reported an error for " + cc.text)
		return
	}
	c.count(func() { c.errAgree++ })
}

func (c *calibration) valueBatch(p *parent, dir string, vals []calCase) {
	from := 0
	for round := 0; from < len(vals) && round < 12; round++ {
		var as []string
		for i := from; i < len(vals); i++ {
			as = append(as, fmt.Sprintf("PrintT(<<%d, %s>>)", calOffset+i, vals[i].check))
		}
		out, err := runTLC(filepath.Join(dir, fmt.Sprintf("r%d", round)), "CalV", as)
		c.count(func() { c.tlcRuns++ })
		if err != nil || parseFailed(out) {
			c.count(func() { c.tlcFailures++ })
			p.r.Inconclusive(fmt.Sprintf("TLC calibration batch failed to run: %v %s", err, tail(out, 300)))
			return
		}
		last := from - 1
		for _, m := range printed.FindAllStringSubmatch(out, -1) {
			i, _ := strconv.Atoi(m[1])
			i -= calOffset
			if i < from || i >= len(vals) {
				continue
			}
			last = i
			c.count(func() { c.valueCases++ })
			if m[2] == "TRUE" {
				c.count(func() { c.valueAgree++ })
			} else {
				c.disagree(p, "%s: reference predicts %s, TLC says the check is %s", vals[i].text, vals[i].want, m[2])
			}
		}
		if last+1 < len(vals) {
			// TLC stopped at assumption last+1
			bad := vals[last+1]
			c.count(func() { c.valueCases++ })
			c.disagree(p, "%s: reference predicts %s, TLC raises: %s", bad.text, bad.want, tlcError(out))
		}
		from = last + 2
	}
}

package main

import (
	"fmt"

	rv "verifh/refval"
)

// gridCases is the deterministic part of the workload (same for every seed): boundary integers for
// every arithmetic operator, every pair of value kinds for the comparing operators, every argument
// position of every operator replaced by every kind of value, and hand-picked boundary shapes.
func gridCases() []Case {
	L := rv.ELit
	I := func(i int64) rv.Expr { return L(rv.LI(i)) }
	var out []Case
	add := func(tag string, e rv.Expr) {
		out = append(out, Case{ID: fmt.Sprintf("grid/%d:%s", len(out), tag), Expr: e})
	}
	ints := []int64{rv.MinInt, rv.MinInt + 1, -46341, -7, -2, -1, 0, 1, 2, 3, 7, 31, 46341, rv.MaxInt - 1, rv.MaxInt}
	for _, op := range append(append([]string{"ModuleDotDotSymbol"}, intBin...), intCmp...) {
		for _, a := range ints {
			for _, b := range ints {
				add("int", rv.EOp(op, I(a), I(b)))
			}
		}
	}
	for _, a := range ints {
		add("int", rv.EOp("ModuleNegationSymbol", I(a)))
	}

	reps := append(append([]rv.Lit{}, illTyped...), rv.LB(false), rv.LI(2), rv.LS("b"),
		rv.LSet(rv.LI(1), rv.LI(2)), rv.LSet(rv.LI(2), rv.LI(1)), rv.LTup(rv.LI(1), rv.LI(2)),
		rv.LFn([]rv.Lit{rv.LI(1), rv.LI(2)}, []rv.Lit{rv.LI(1), rv.LI(2)}),
		rv.LFn([]rv.Lit{rv.LI(2), rv.LI(1)}, []rv.Lit{rv.LI(2), rv.LI(1)}),
		rv.LFn([]rv.Lit{rv.LS("a"), rv.LS("b")}, []rv.Lit{rv.LI(1), rv.LS("x")}),
		rv.LSet(rv.LTup(rv.LI(1))), rv.LTup(rv.LTup()), rv.LSet(rv.LB(true)))
	one := L(rv.LI(1))
	for _, x := range reps {
		for _, y := range reps {
			add("kinds", rv.EOp("ModuleEqualsSymbol", L(x), L(y)))
			add("kinds", rv.EOp("ModuleNotEqualsSymbol", L(x), L(y)))
			add("kinds", rv.EOp("ModuleInSymbol", L(x), L(rv.LSet(y))))
			add("kinds", rv.EOp("ModuleNotInSymbol", L(x), L(rv.LSet(y))))
			for _, op := range []string{"ModuleUnionSymbol", "ModuleIntersectSymbol", "ModuleBackslashSymbol", "ModuleSubsetOrEqualSymbol"} {
				add("kinds", rv.EOp(op, L(rv.LSet(x)), L(rv.LSet(y))))
			}
			add("kinds", rv.Expr{Op: "mkset", Args: []rv.Expr{L(x), L(y)}})
			add("kinds", rv.EOp("ModuleDoubleAtSignSymbol", L(rv.LFn([]rv.Lit{x}, []rv.Lit{rv.LI(1)})), L(rv.LFn([]rv.Lit{y}, []rv.Lit{rv.LI(2)}))))
			add("kinds", rv.EOp("apply", L(rv.LFn([]rv.Lit{x}, []rv.Lit{rv.LI(1)})), L(y)))
			add("kinds", rv.EOp("ModulePrefixUnionSymbol", L(rv.LSet(rv.LSet(x), rv.LSet(y)))))
		}
	}
	// tuples holding the model value defaultInitValue (what uninitialised PlusCal variables contain)
	td := rv.LTup(rv.LDefault())
	for _, op := range []string{"ModuleEqualsSymbol", "ModuleNotEqualsSymbol"} {
		add("dflt", rv.EOp(op, L(td), L(td)))
		add("dflt", rv.EOp(op, L(td), L(rv.LTup(rv.LI(1)))))
		add("dflt", rv.EOp(op, L(rv.LTup(rv.LI(1))), L(td)))
		add("dflt", rv.EOp(op, L(rv.LSet(rv.LDefault())), L(rv.LSet(rv.LDefault()))))
		add("dflt", rv.EOp(op, L(rv.LFn([]rv.Lit{rv.LI(0)}, []rv.Lit{rv.LDefault()})), L(rv.LFn([]rv.Lit{rv.LI(0)}, []rv.Lit{rv.LDefault()}))))
	}

	// every operator, every argument position, every kind
	s12 := rv.LSet(rv.LI(1), rv.LI(2))
	t12 := rv.LTup(rv.LI(1), rv.LI(2))
	f := rv.LFn([]rv.Lit{rv.LI(0), rv.LI(5)}, []rv.Lit{rv.LI(1), rv.LI(2)})
	base := []rv.Expr{
		rv.EOp("ModuleAssert", L(rv.LB(true)), L(rv.LS("m"))), rv.EOp("ModuleAssert", L(rv.LB(false)), L(rv.LS("m"))),
		rv.EOp("ModuleToString", one), rv.EOp("ModuleLogicalNotSymbol", L(rv.LB(true))),
		rv.EOp("ModuleEquivSymbol", L(rv.LB(true)), L(rv.LB(false))),
		rv.EOp("ModulePlusSymbol", one, one), rv.EOp("ModuleMinusSymbol", one, one), rv.EOp("ModuleAsteriskSymbol", one, one),
		rv.EOp("ModuleSuperscriptSymbol", one, one), rv.EOp("ModuleLessThanOrEqualSymbol", one, one), rv.EOp("ModuleGreaterThanOrEqualSymbol", one, one),
		rv.EOp("ModuleLessThanSymbol", one, one), rv.EOp("ModuleGreaterThanSymbol", one, one), rv.EOp("ModuleDotDotSymbol", one, one),
		rv.EOp("ModuleDivSymbol", one, one), rv.EOp("ModulePercentSymbol", one, one), rv.EOp("ModuleNegationSymbol", one),
		rv.EOp("ModuleInSymbol", one, L(s12)), rv.EOp("ModuleNotInSymbol", one, L(s12)),
		rv.EOp("ModuleIntersectSymbol", L(s12), L(s12)), rv.EOp("ModuleUnionSymbol", L(s12), L(s12)),
		rv.EOp("ModuleSubsetOrEqualSymbol", L(s12), L(s12)), rv.EOp("ModuleBackslashSymbol", L(s12), L(s12)),
		rv.EOp("ModulePrefixSubsetSymbol", L(s12)), rv.EOp("ModulePrefixUnionSymbol", L(rv.LSet(s12))),
		rv.EOp("ModuleIsFiniteSet", L(s12)), rv.EOp("ModuleCardinality", L(s12)), rv.EOp("ModuleSeq", L(s12)),
		rv.EOp("ModuleInSymbol", L(t12), rv.EOp("ModuleSeq", L(s12))),
		rv.EOp("ModuleLen", L(t12)), rv.EOp("ModuleOSymbol", L(t12), L(t12)), rv.EOp("ModuleAppend", L(t12), one),
		rv.EOp("ModuleHead", L(t12)), rv.EOp("ModuleTail", L(t12)), rv.EOp("ModuleSubSeq", L(t12), one, one),
		rv.EOp("ModuleSelectSeq", L(t12), one),
		rv.EOp("ModuleColonGreaterThanSymbol", one, one), rv.EOp("ModuleDoubleAtSignSymbol", L(f), L(f)), rv.EOp("ModuleDomainSymbol", L(f)),
		rv.EOp("apply", L(f), L(rv.LI(0))), rv.EOp("apply", L(t12), one),
		rv.EOp("fnset", L(s12), L(s12)), {Op: "cross", Args: []rv.Expr{L(s12), L(s12)}},
		{Op: "recset", Names: []string{"a", "b"}, Args: []rv.Expr{L(s12), L(s12)}},
		{Op: "select", Args: []rv.Expr{L(s12)}, Idx: 0},
		binderCase("forall", L(s12)), binderCase("exists", L(s12)), binderCase("choose", L(s12)), binderCase("setref", L(s12)),
		binderCase("setcomp", L(s12)), binderCase("mkfn", L(s12)),
		{Op: "except", Args: []rv.Expr{L(f)}, Subs: []rv.Sub{{Keys: []rv.Expr{L(rv.LI(0))}, Val: one}}},
		{Op: "except", Args: []rv.Expr{L(t12)}, Subs: []rv.Sub{{Keys: []rv.Expr{one}, Val: one}}},
	}
	for _, b := range base {
		add("base", b)
		for i := range b.Args {
			for _, x := range reps {
				m := b
				m.Args = append([]rv.Expr(nil), b.Args...)
				m.Args[i] = L(x)
				add("illtyped", m)
			}
		}
		for si := range b.Subs {
			for _, x := range reps {
				m := b
				m.Subs = []rv.Sub{{Keys: []rv.Expr{L(x)}, Val: b.Subs[si].Val}}
				add("illtyped", m)
			}
		}
	}
	// non-Boolean bodies
	for _, op := range []string{"forall", "exists", "choose", "setref"} {
		body := one
		add("body", rv.Expr{Op: op, Args: []rv.Expr{L(s12)}, Body: &body})
	}

	// hand-picked boundary shapes
	S := func(xs ...rv.Lit) rv.Lit { return rv.LSet(xs...) }
	T := func(xs ...rv.Lit) rv.Lit { return rv.LTup(xs...) }
	li := func(xs ...int64) []rv.Lit {
		o := make([]rv.Lit, len(xs))
		for i, x := range xs {
			o[i] = rv.LI(x)
		}
		return o
	}
	for n := 0; n <= 5; n++ {
		var xs []int64
		for i := 1; i <= n; i++ {
			xs = append(xs, int64(i))
		}
		add("subset", rv.EOp("ModulePrefixSubsetSymbol", L(S(li(xs...)...))))
		add("card", rv.EOp("ModuleCardinality", L(S(li(xs...)...))))
		add("seq", rv.EOp("ModuleSeq", L(S(li(xs...)...))))
		add("len", rv.EOp("ModuleLen", L(T(li(xs...)...))))
		add("tostring", rv.EOp("ModuleToString", L(S(li(xs...)...))))
		add("tostring", rv.EOp("ModuleToString", L(T(li(xs...)...))))
		body := L(rv.LB(true))
		add("choose", rv.Expr{Op: "choose", Args: []rv.Expr{L(S(li(xs...)...))}, Body: &body})
		for idx := 0; idx <= n; idx++ {
			add("select", rv.Expr{Op: "select", Args: []rv.Expr{L(S(li(xs...)...))}, Idx: idx})
		}
		for m := -1; m <= n+1; m++ {
			add("apply", rv.EOp("apply", L(T(li(xs...)...)), I(int64(m))))
			for k := -1; k <= n+1; k++ {
				add("subseq", rv.EOp("ModuleSubSeq", L(T(li(xs...)...)), I(int64(m)), I(int64(k))))
			}
			add("except", rv.Expr{Op: "except", Args: []rv.Expr{L(T(li(xs...)...))}, Subs: []rv.Sub{{Keys: []rv.Expr{I(int64(m))}, Val: rv.EOp("ModulePlusSymbol", rv.EVar(0), one)}}})
		}
	}
	add("tostring", rv.EOp("ModuleToString", L(T(S(li(1, 2)...)))))
	add("tostring", rv.EOp("ModuleToString", L(rv.LFn(li(1, 0), []rv.Lit{S(li(2, 1)...), T()}))))
	add("union", rv.EOp("ModulePrefixUnionSymbol", L(S())))
	add("union", rv.EOp("ModulePrefixUnionSymbol", L(S(S()))))
	add("union", rv.EOp("ModulePrefixUnionSymbol", L(S(S(), S(S())))))
	add("union", rv.EOp("ModulePrefixUnionSymbol", L(S(S(li(1)...), S(li(2, 3)...)))))
	add("union", rv.EOp("ModulePrefixUnionSymbol", L(S(S(li(1, 2)...), S(li(2, 3)...), S()))))
	add("seqmem", rv.EOp("ModuleInSymbol", L(T(li(1, 1)...)), rv.EOp("ModuleSeq", L(S(li(1)...)))))
	add("seqmem", rv.EOp("ModuleInSymbol", L(T(li(1, 2)...)), rv.EOp("ModuleSeq", L(S(li(1, 2)...)))))
	add("seqmem", rv.EOp("ModuleInSymbol", L(T(li(1)...)), rv.EOp("ModuleSeq", L(S(li(1, 2)...)))))
	add("seqmem", rv.EOp("ModuleInSymbol", L(T()), rv.EOp("ModuleSeq", L(S(li(1, 2)...)))))
	add("seqmem", rv.EOp("ModuleInSymbol", L(T(li(3)...)), rv.EOp("ModuleSeq", L(S(li(1, 2)...)))))
	add("seqmem", rv.EOp("ModuleInSymbol", L(T()), rv.EOp("ModuleSeq", L(S()))))
	for _, e := range []rv.Expr{L(T()), L(rv.LS("")), L(rv.LS("abc"))} {
		add("seqops", rv.EOp("ModuleHead", e))
		add("seqops", rv.EOp("ModuleTail", e))
		add("seqops", rv.EOp("ModuleLen", e))
		add("seqops", rv.EOp("ModuleOSymbol", e, e))
	}
	add("seqops", rv.EOp("ModuleOSymbol", L(rv.LS("ab")), L(rv.LS("cd"))))
	// sequences written as functions and vice versa
	f12 := rv.LFn(li(1, 2), li(1, 2))
	f1a := rv.LFn(li(1), []rv.Lit{rv.LS("a")})
	for _, p := range [][2]rv.Lit{{t12, f12}, {f12, t12}, {T(), rv.LFn(nil, nil)}, {rv.LFn(nil, nil), T()}} {
		add("seqfn", rv.EOp("ModuleEqualsSymbol", L(p[0]), L(p[1])))
		add("seqfn", rv.EOp("ModuleNotEqualsSymbol", L(p[0]), L(p[1])))
		add("seqfn", rv.EOp("ModuleInSymbol", L(p[0]), L(S(p[1]))))
		add("seqfn", rv.EOp("ModuleCardinality", L(S(p[0], p[1]))))
		add("seqfn", rv.EOp("ModuleUnionSymbol", L(S(p[0])), L(S(p[1]))))
		add("seqfn", rv.EOp("ModuleIntersectSymbol", L(S(p[0])), L(S(p[1]))))
		add("seqfn", rv.EOp("ModuleBackslashSymbol", L(S(p[0])), L(S(p[1]))))
		add("seqfn", rv.EOp("ModuleSubsetOrEqualSymbol", L(S(p[0])), L(S(p[1]))))
	}
	t1, f1 := T(li(1)...), rv.LFn(li(1), li(1))
	add("seqfn", rv.EOp("ModuleDoubleAtSignSymbol", L(rv.LFn([]rv.Lit{t1}, li(1))), L(rv.LFn([]rv.Lit{f1}, li(2)))))
	add("seqfn", rv.EOp("ModuleDomainSymbol", L(rv.LFn([]rv.Lit{t1, f1}, li(1, 1)))))
	add("seqfn", rv.EOp("ModulePrefixSubsetSymbol", L(S(t1, f1))))
	add("seqfn", rv.Expr{Op: "select", Args: []rv.Expr{L(S(t1, f1))}, Idx: 1})
	add("seqfn", rv.Expr{Op: "except", Args: []rv.Expr{L(rv.LFn([]rv.Lit{f1}, li(1)))}, Subs: []rv.Sub{{Keys: []rv.Expr{L(t1)}, Val: one}}})
	add("seqfn", rv.Expr{Op: "except", Args: []rv.Expr{L(rv.LFn([]rv.Lit{t1}, li(1)))}, Subs: []rv.Sub{{Keys: []rv.Expr{L(f1)}, Val: one}}})
	add("seqfn", rv.Expr{Op: "mkset", Args: []rv.Expr{L(t1), L(f1)}})
	add("seqfn", rv.EOp("ModuleCardinality", rv.Expr{Op: "mkset", Args: []rv.Expr{L(t1), L(f1)}}))
	add("seqfn", rv.EOp("ModuleLen", L(f1a)))
	add("seqfn", rv.EOp("ModuleHead", L(f12)))
	add("seqfn", rv.EOp("ModuleTail", L(f12)))
	add("seqfn", rv.EOp("ModuleAppend", L(f12), one))
	add("seqfn", rv.EOp("ModuleOSymbol", L(f12), L(t12)))
	add("seqfn", rv.EOp("ModuleOSymbol", L(t12), L(f12)))
	add("seqfn", rv.EOp("ModuleSubSeq", L(f12), one, one))
	add("seqfn", rv.EOp("ModuleDomainSymbol", L(t12)))
	add("seqfn", rv.EOp("ModuleDomainSymbol", L(T())))
	add("seqfn", rv.EOp("ModuleDoubleAtSignSymbol", L(T(li(1)...)), L(rv.LFn(li(2), li(2)))))
	add("seqfn", rv.EOp("ModuleDoubleAtSignSymbol", L(rv.LFn(li(2), li(2))), L(T(li(1)...))))
	add("seqfn", rv.EOp("ModuleInSymbol", L(f12), rv.EOp("ModuleSeq", L(s12))))
	// EXCEPT: outside the domain, nested paths, several substitutions, @
	at := rv.EVar(0)
	ff := rv.LFn(li(0, 5), []rv.Lit{f, f})
	add("except", rv.Expr{Op: "except", Args: []rv.Expr{L(f)}, Subs: []rv.Sub{{Keys: []rv.Expr{I(9)}, Val: one}}})
	add("except", rv.Expr{Op: "except", Args: []rv.Expr{L(f)}, Subs: []rv.Sub{{Keys: []rv.Expr{I(0)}, Val: rv.EOp("ModulePlusSymbol", at, at)}, {Keys: []rv.Expr{I(0)}, Val: rv.EOp("ModulePlusSymbol", at, one)}}})
	add("except", rv.Expr{Op: "except", Args: []rv.Expr{L(ff)}, Subs: []rv.Sub{{Keys: []rv.Expr{I(0), I(5)}, Val: rv.EOp("ModuleAsteriskSymbol", at, I(10))}}})
	add("except", rv.Expr{Op: "except", Args: []rv.Expr{L(ff)}, Subs: []rv.Sub{{Keys: []rv.Expr{I(0), I(7)}, Val: one}}})
	add("except", rv.Expr{Op: "except", Args: []rv.Expr{L(ff)}, Subs: []rv.Sub{{Keys: []rv.Expr{I(0), I(5), I(1)}, Val: one}}})
	add("except", rv.Expr{Op: "except", Args: []rv.Expr{L(rv.LTup(t12, t12))}, Subs: []rv.Sub{{Keys: []rv.Expr{I(2), I(1)}, Val: L(rv.LS("x"))}, {Keys: []rv.Expr{I(1)}, Val: at}}})
	add("except", rv.Expr{Op: "except", Args: []rv.Expr{L(rv.LFn([]rv.Lit{rv.LS("a"), rv.LS("b")}, li(1, 2)))}, Subs: []rv.Sub{{Keys: []rv.Expr{L(rv.LS("b"))}, Val: rv.EOp("ModuleMinusSymbol", at, one)}}})
	// quantifiers / comprehension / functions over 0..3 bound sets including empty ones
	sets := []rv.Lit{S(), s12, S(li(3)...)}
	for _, a := range sets {
		for _, b := range sets {
			for _, op := range []string{"forall", "exists"} {
				body := rv.EOp("ModuleLessThanSymbol", rv.EVar(0), rv.EVar(1))
				add("quant", rv.Expr{Op: op, Args: []rv.Expr{L(a), L(b)}, Body: &body})
				body3 := rv.EOp("ModuleEqualsSymbol", rv.EOp("ModulePlusSymbol", rv.EVar(0), rv.EVar(1)), rv.EVar(2))
				add("quant", rv.Expr{Op: op, Args: []rv.Expr{L(a), L(b), L(S(li(3, 4)...))}, Body: &body3})
			}
			sum := rv.EOp("ModulePlusSymbol", rv.EVar(0), rv.EVar(1))
			add("comp", rv.Expr{Op: "setcomp", Args: []rv.Expr{L(a), L(b)}, Body: &sum})
			add("comp", rv.Expr{Op: "mkfn", Args: []rv.Expr{L(a), L(b)}, Body: &sum})
			add("comp", rv.Expr{Op: "cross", Args: []rv.Expr{L(a), L(b)}})
			add("comp", rv.Expr{Op: "cross", Args: []rv.Expr{L(a), L(b), L(s12)}})
			add("comp", rv.EOp("fnset", L(a), L(b)))
			add("comp", rv.Expr{Op: "recset", Names: []string{"x", "y"}, Args: []rv.Expr{L(a), L(b)}})
		}
	}
	unsat := L(rv.LB(false))
	add("choose", rv.Expr{Op: "choose", Args: []rv.Expr{L(s12)}, Body: &unsat})
	add("choose", rv.Expr{Op: "choose", Args: []rv.Expr{L(S())}, Body: &unsat})
	gt := rv.EOp("ModuleGreaterThanSymbol", rv.EVar(0), one)
	add("choose", rv.Expr{Op: "choose", Args: []rv.Expr{L(S(li(3, 1, 2)...))}, Body: &gt})
	add("choose", rv.Expr{Op: "choose", Args: []rv.Expr{L(S(li(2, 1, 3)...))}, Body: &gt})
	for _, c := range []string{"ModuleTRUE", "ModuleFALSE", "ModuleBOOLEAN", "ModuleZero", "ModuledefaultInitValue"} {
		add("const", rv.Expr{Op: c})
	}
	return out
}

func binderCase(op string, set rv.Expr) rv.Expr {
	var body rv.Expr
	switch op {
	case "setcomp", "mkfn":
		body = rv.EOp("ModulePlusSymbol", rv.EVar(0), rv.ELit(rv.LI(1)))
	default:
		body = rv.EOp("ModuleGreaterThanSymbol", rv.EVar(0), rv.ELit(rv.LI(1)))
	}
	return rv.Expr{Op: op, Args: []rv.Expr{set}, Body: &body}
}

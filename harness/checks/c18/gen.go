package main

// Case model and generator: hand-built archetypes following the code generator's conventions, described
// as data so that the same case can be executed by a child process and stored in a replay file.

import (
	"fmt"
	"math/rand"
)

// VS is a value specification (what the generator can write down statically).
type VS struct {
	K    string   `json:"k"` // n | s | t | r | d (defaultInitValue)
	N    int      `json:"n,omitempty"`
	S    string   `json:"s,omitempty"`
	L    []VS     `json:"l,omitempty"`
	Keys []string `json:"keys,omitempty"` // record keys, parallel to L
}

func vsN(n int) VS    { return VS{K: "n", N: n} }
func vsS(s string) VS { return VS{K: "s", S: s} }
func vsT(l ...VS) VS  { return VS{K: "t", L: l} }
func vsEnvInit() VS   { return vsT(vsN(0), vsS("init"), vsN(0), vsN(0), vsN(0)) }
func (v VS) toMV() mv {
	switch v.K {
	case "n":
		return mv{K: mvNum, N: int64(v.N)}
	case "s":
		return mv{K: mvStr, S: v.S}
	case "t":
		out := mv{K: mvTuple}
		for _, e := range v.L {
			out.L = append(out.L, e.toMV())
		}
		return out
	case "r":
		var pairs []mvKV
		for i, e := range v.L {
			pairs = append(pairs, mvKV{mv{K: mvStr, S: v.Keys[i]}, e.toMV()})
		}
		return mvFuncOf(pairs)
	case "d":
		return mv{K: mvDefault}
	}
	panic("bad VS")
}

type OpSpec struct {
	Kind  string `json:"kind"` // read | write | fault
	Res   string `json:"res"`  // parameter / local name (without archetype prefix)
	Idx   []VS   `json:"idx,omitempty"`
	Dst   int    `json:"dst,omitempty"`   // read: register
	Src   int    `json:"src"`             // write: payload register, -1 = none
	Await int    `json:"await,omitempty"` // read of a shared variable: abort until value's step >= Await
	Fault string `json:"fault,omitempty"` // fault: read | write | precommit | hard
	Count int    `json:"count,omitempty"` // fault fires on the first Count attempts of the label
	Step  int    `json:"step"`
}

type LabelSpec struct {
	Name string   `json:"name"` // short label name
	Ops  []OpSpec `json:"ops"`
}

type LocalSpec struct {
	Name    string `json:"name"`
	Init    VS     `json:"init"`
	IsParam bool   `json:"is_param,omitempty"` // value parameter rather than local
}

type ArchSpec struct {
	Name     string      `json:"name"`
	SelfN    int         `json:"self_n"`
	SelfStr  bool        `json:"self_str,omitempty"` // self is the string "n<SelfN>" instead of the number
	Locals   []LocalSpec `json:"locals"`
	Labels   []LabelSpec `json:"labels"`
	NetPort  int         `json:"net_port"`
	RnetPort int         `json:"rnet_port"`
	Wrapped  []string    `json:"wrapped,omitempty"` // system cases: names of the wrapped resources
}

// isWrapped reports whether the runtime's calls on the named resource are logged by a wrapper.
func (a *ArchSpec) isWrapped(name string) bool {
	if a.Wrapped != nil {
		for _, w := range a.Wrapped {
			if w == name {
				return true
			}
		}
		return false
	}
	k := resKind(name)
	return k != "local" && k != "fault"
}

func (a *ArchSpec) selfText() string {
	if a.SelfStr {
		return fmt.Sprintf("%q", fmt.Sprintf("n%d", a.SelfN))
	}
	return fmt.Sprint(a.SelfN)
}

func (a *ArchSpec) selfVS() VS {
	if a.SelfStr {
		return vsS(fmt.Sprintf("n%d", a.SelfN))
	}
	return vsN(a.SelfN)
}

// Key identifies an archetype instance (also the vector-clock key).
func (a *ArchSpec) Key() string { return a.Name + "/" + a.selfText() }

type SharedSpec struct {
	Name  string `json:"name"`
	Init  VS     `json:"init"`
	Owner int    `json:"owner"` // archetype index of the only writer, -1: anybody
}

type Case struct {
	ID      int          `json:"id"`
	Shape   string       `json:"shape"`
	Archs   []ArchSpec   `json:"archs"`
	Shared  []SharedSpec `json:"shared"`
	Disrupt string       `json:"disrupt,omitempty"` // PGO_DISRUPT_CONCURRENCY for the child
	Steps   int          `json:"steps"`
	System  string       `json:"system,omitempty"` // "" (hand-built archetypes) | dqueue | locksvc (shipped generated code)
	Peers   int          `json:"peers,omitempty"`
	Items   int          `json:"items,omitempty"`
	Seed    int64        `json:"seed,omitempty"`
}

func stdLocals() []LocalSpec {
	return []LocalSpec{
		{Name: "v", Init: vsEnvInit()},
		{Name: "f", Init: vsT(vsN(0), vsN(0), vsN(0))},
		{Name: "g", Init: VS{K: "r", Keys: []string{"a", "b"}, L: []VS{vsN(0), vsN(0)}}},
		{Name: "h", Init: vsT(vsT(vsN(0), vsN(0)), vsT(vsN(0), vsN(0)))},
		{Name: "p", Init: vsT(vsN(0), vsS("param"), vsN(0), vsN(0), vsN(0)), IsParam: true},
	}
}

type genState struct {
	rng      *rand.Rand
	c        *Case
	step     int
	pendNet  []int
	pendRnet []int
	pendCh   []int
	lastSh   []int // last write step by the owner of awaited shared variables
}

func (g *genState) nextStep() int { g.step++; return g.step }

func (g *genState) localOp(regs *int) OpSpec {
	r := g.rng
	src := -1
	if *regs > 0 && r.Intn(3) > 0 {
		src = r.Intn(*regs)
	}
	switch r.Intn(11) {
	case 0:
		*regs++
		return OpSpec{Kind: "read", Res: "v", Dst: *regs - 1, Src: -1, Step: g.nextStep()}
	case 1:
		return OpSpec{Kind: "write", Res: "v", Src: src, Step: g.nextStep()}
	case 2:
		*regs++
		return OpSpec{Kind: "read", Res: "f", Idx: []VS{vsN(1 + r.Intn(3))}, Dst: *regs - 1, Src: -1, Step: g.nextStep()}
	case 3:
		return OpSpec{Kind: "write", Res: "f", Idx: []VS{vsN(1 + r.Intn(3))}, Src: src, Step: g.nextStep()}
	case 4:
		*regs++
		return OpSpec{Kind: "read", Res: "f", Dst: *regs - 1, Src: -1, Step: g.nextStep()}
	case 5:
		return OpSpec{Kind: "write", Res: "g", Idx: []VS{vsS([]string{"a", "b"}[r.Intn(2)])}, Src: src, Step: g.nextStep()}
	case 6:
		*regs++
		return OpSpec{Kind: "read", Res: "g", Idx: []VS{vsS([]string{"a", "b"}[r.Intn(2)])}, Dst: *regs - 1, Src: -1, Step: g.nextStep()}
	case 7:
		return OpSpec{Kind: "write", Res: "h", Idx: []VS{vsN(1 + r.Intn(2)), vsN(1 + r.Intn(2))}, Src: src, Step: g.nextStep()}
	case 8:
		*regs++
		if r.Intn(2) == 0 {
			return OpSpec{Kind: "read", Res: "h", Idx: []VS{vsN(1 + r.Intn(2))}, Dst: *regs - 1, Src: -1, Step: g.nextStep()}
		}
		return OpSpec{Kind: "read", Res: "h", Idx: []VS{vsN(1 + r.Intn(2)), vsN(1 + r.Intn(2))}, Dst: *regs - 1, Src: -1, Step: g.nextStep()}
	case 9:
		if r.Intn(2) == 0 {
			*regs++
			return OpSpec{Kind: "read", Res: "p", Dst: *regs - 1, Src: -1, Step: g.nextStep()}
		}
		return OpSpec{Kind: "write", Res: "p", Src: src, Step: g.nextStep()}
	default:
		return OpSpec{Kind: "write", Res: "v", Src: src, Step: g.nextStep()}
	}
}

// knowledgeRead returns a read that can teach archetype i something from another archetype, or ok=false.
func (g *genState) knowledgeRead(i int, regs *int) (OpSpec, bool) {
	r := g.rng
	var cands []func() OpSpec
	self := g.c.Archs[i].selfVS()
	if g.pendNet[i] > 0 {
		cands = append(cands, func() OpSpec {
			g.pendNet[i]--
			return OpSpec{Kind: "read", Res: "net", Idx: []VS{self}, Src: -1}
		})
	}
	if g.pendRnet[i] > 0 {
		cands = append(cands, func() OpSpec {
			g.pendRnet[i]--
			return OpSpec{Kind: "read", Res: "rnet", Idx: []VS{self}, Src: -1}
		})
	}
	if g.pendCh[i] > 0 {
		cands = append(cands, func() OpSpec {
			g.pendCh[i]--
			return OpSpec{Kind: "read", Res: "ic", Src: -1}
		})
	}
	for k, sh := range g.c.Shared {
		if sh.Owner >= 0 && sh.Owner != i && g.lastSh[k] > 0 {
			k := k
			cands = append(cands, func() OpSpec {
				return OpSpec{Kind: "read", Res: g.c.Shared[k].Name, Await: g.lastSh[k], Src: -1}
			})
		}
	}
	if len(cands) == 0 {
		return OpSpec{}, false
	}
	op := cands[r.Intn(len(cands))]()
	*regs++
	op.Dst = *regs - 1
	op.Step = g.nextStep()
	return op, true
}

type pendingSend struct {
	kind string
	to   int
}

// crossWrite returns a write visible to other archetypes (not relaxed).
func (g *genState) crossWrite(i int, regs int, sends *[]pendingSend, shWrites *[]int, allowTCP bool) (OpSpec, bool) {
	r := g.rng
	n := len(g.c.Archs)
	src := -1
	if regs > 0 && r.Intn(3) > 0 {
		src = r.Intn(regs)
	}
	j := r.Intn(n - 1)
	if j >= i {
		j++
	}
	var owned []int
	for k, sh := range g.c.Shared {
		if sh.Owner == i {
			owned = append(owned, k)
		}
	}
	for try := 0; try < 6; try++ {
		switch r.Intn(4) {
		case 0:
			if !allowTCP {
				continue
			}
			*sends = append(*sends, pendingSend{"net", j})
			return OpSpec{Kind: "write", Res: "net", Idx: []VS{g.c.Archs[j].selfVS()}, Src: src, Step: g.nextStep()}, true
		case 1:
			*sends = append(*sends, pendingSend{"ch", j})
			return OpSpec{Kind: "write", Res: fmt.Sprintf("oc%d", j), Src: src, Step: g.nextStep()}, true
		case 2:
			if len(owned) == 0 {
				continue
			}
			k := owned[r.Intn(len(owned))]
			st := g.nextStep()
			*shWrites = append(*shWrites, k, st)
			return OpSpec{Kind: "write", Res: g.c.Shared[k].Name, Src: src, Step: st}, true
		case 3:
			return OpSpec{Kind: "write", Res: "shx", Idx: []VS{vsN(1 + r.Intn(2))}, Src: src, Step: g.nextStep()}, true
		}
	}
	return OpSpec{}, false
}

func (g *genState) block(i int) LabelSpec {
	r := g.rng
	a := &g.c.Archs[i]
	n := len(g.c.Archs)
	var ops []OpSpec
	regs := 0
	var sends []pendingSend
	var shWrites []int
	relaxed := r.Intn(7) == 0
	nops := 1 + r.Intn(5)
	if r.Intn(4) == 0 {
		// the shape of interest: publish something, then learn something else in the same section
		if w, ok := g.crossWrite(i, regs, &sends, &shWrites, !relaxed); ok {
			if kr, ok2 := g.knowledgeRead(i, &regs); ok2 {
				if r.Intn(2) == 0 {
					ops = append(ops, g.localOp(&regs))
				}
				ops = append(ops, w, kr)
			} else {
				ops = append(ops, w)
			}
		}
	}
	for len(ops) < nops {
		switch r.Intn(10) {
		case 0, 1, 2:
			if kr, ok := g.knowledgeRead(i, &regs); ok {
				ops = append(ops, kr)
				continue
			}
			ops = append(ops, g.localOp(&regs))
		case 3, 4, 5:
			if w, ok := g.crossWrite(i, regs, &sends, &shWrites, !relaxed); ok {
				ops = append(ops, w)
				continue
			}
			ops = append(ops, g.localOp(&regs))
		case 6:
			// plain reads: lengths, shared variables without await
			regs++
			self := a.selfVS()
			switch r.Intn(4) {
			case 0:
				ops = append(ops, OpSpec{Kind: "read", Res: "nlen", Idx: []VS{self}, Dst: regs - 1, Src: -1, Step: g.nextStep()})
			case 1:
				ops = append(ops, OpSpec{Kind: "read", Res: "rlen", Idx: []VS{self}, Dst: regs - 1, Src: -1, Step: g.nextStep()})
			case 2:
				ops = append(ops, OpSpec{Kind: "read", Res: "shx", Idx: []VS{vsN(1 + r.Intn(2))}, Dst: regs - 1, Src: -1, Step: g.nextStep()})
			default:
				k := r.Intn(len(g.c.Shared))
				op := OpSpec{Kind: "read", Res: g.c.Shared[k].Name, Dst: regs - 1, Src: -1, Step: g.nextStep()}
				if g.c.Shared[k].Name == "shx" {
					op.Idx = []VS{vsN(1 + r.Intn(2))}
				}
				ops = append(ops, op)
			}
		default:
			ops = append(ops, g.localOp(&regs))
		}
	}
	// fault somewhere (before/after reads and writes)
	if r.Intn(3) == 0 {
		modes := []string{"read", "write", "precommit"}
		if relaxed {
			modes = modes[:2]
		}
		f := OpSpec{Kind: "fault", Res: "flt", Fault: modes[r.Intn(len(modes))], Count: 1 + r.Intn(2), Src: -1, Step: g.nextStep()}
		pos := r.Intn(len(ops) + 1)
		if f.Fault == "read" || f.Fault == "precommit" {
			// the non-firing / precommit variant reads flt into a register nobody uses
			regs++
			f.Dst = regs - 1
		}
		ops = append(ops[:pos], append([]OpSpec{f}, ops[pos:]...)...)
	}
	if relaxed {
		j := r.Intn(n - 1)
		if j >= i {
			j++
		}
		src := -1
		if regs > 0 && r.Intn(3) > 0 {
			// only registers filled by reads are usable; pick a read's Dst
			var ds []int
			for _, o := range ops {
				if o.Kind == "read" {
					ds = append(ds, o.Dst)
				}
			}
			if len(ds) > 0 {
				src = ds[r.Intn(len(ds))]
			}
		}
		ops = append(ops, OpSpec{Kind: "write", Res: "rnet", Idx: []VS{g.c.Archs[j].selfVS()}, Src: src, Step: g.nextStep()})
		sends = append(sends, pendingSend{"rnet", j})
	}
	fixSrcs(ops)
	for _, s := range sends {
		switch s.kind {
		case "net":
			g.pendNet[s.to]++
		case "rnet":
			g.pendRnet[s.to]++
		case "ch":
			g.pendCh[s.to]++
		}
	}
	for k := 0; k+1 < len(shWrites); k += 2 {
		g.lastSh[shWrites[k]] = shWrites[k+1]
	}
	return LabelSpec{Name: fmt.Sprintf("l%d", len(a.Labels)), Ops: ops}
}

// fixSrcs makes every write's payload register refer to a register already filled at that point.
func fixSrcs(ops []OpSpec) {
	filled := map[int]bool{}
	var order []int
	for k := range ops {
		o := &ops[k]
		if o.Kind == "write" && o.Src >= 0 && !filled[o.Src] {
			if len(order) > 0 {
				o.Src = order[len(order)-1]
			} else {
				o.Src = -1
			}
		}
		if o.Kind == "read" || (o.Kind == "fault" && (o.Fault == "read" || o.Fault == "precommit")) {
			filled[o.Dst] = true
			if o.Kind == "read" {
				order = append(order, o.Dst)
			}
		}
	}
}

func genCase(rng *rand.Rand, id int) *Case {
	n := 2 + rng.Intn(4)
	c := &Case{ID: id, Shape: "random"}
	names := []string{"AA", "AB", "AC"}
	strSelf := rng.Intn(5) == 0
	for i := 0; i < n; i++ {
		c.Archs = append(c.Archs, ArchSpec{Name: names[rng.Intn(1+min(2, n-1))], SelfN: i + 1, SelfStr: strSelf && rng.Intn(2) == 0, Locals: stdLocals()})
	}
	c.Shared = []SharedSpec{
		{Name: "sh0", Init: vsEnvInit(), Owner: rng.Intn(n)},
		{Name: "sh1", Init: vsEnvInit(), Owner: rng.Intn(n)},
		{Name: "shx", Init: vsT(vsEnvInit(), vsEnvInit()), Owner: -1},
	}
	if rng.Intn(4) == 0 {
		c.Disrupt = []string{"50us", "200us"}[rng.Intn(2)]
	}
	g := &genState{rng: rng, c: c, pendNet: make([]int, n), pendRnet: make([]int, n), pendCh: make([]int, n), lastSh: make([]int, len(c.Shared))}
	blocks := 6 + rng.Intn(14)
	for b := 0; b < blocks; b++ {
		i := rng.Intn(n)
		c.Archs[i].Labels = append(c.Archs[i].Labels, g.block(i))
	}
	g.drain()
	// some archetypes end with a hard error instead of Done
	for i := range c.Archs {
		if rng.Intn(7) == 0 {
			a := &c.Archs[i]
			a.Labels = append(a.Labels, LabelSpec{Name: fmt.Sprintf("l%d", len(a.Labels)), Ops: []OpSpec{
				{Kind: "read", Res: "v", Dst: 0, Src: -1, Step: g.nextStep()},
				{Kind: "write", Res: "f", Idx: []VS{vsN(2)}, Src: 0, Step: g.nextStep()},
				{Kind: "fault", Res: "flt", Fault: "hard", Src: -1, Step: g.nextStep()},
			}})
		}
	}
	c.Steps = g.step
	return c
}

// drain appends receive sections so that every message sent is eventually read.
func (g *genState) drain() {
	for i := range g.c.Archs {
		a := &g.c.Archs[i]
		self := a.selfVS()
		for g.pendNet[i]+g.pendRnet[i]+g.pendCh[i] > 0 {
			var ops []OpSpec
			regs := 0
			if g.rng.Intn(2) == 0 && g.pendNet[i] > 0 {
				regs++
				ops = append(ops, OpSpec{Kind: "read", Res: "nlen", Idx: []VS{self}, Dst: regs - 1, Src: -1, Step: g.nextStep()})
			}
			for k := 0; k < 3; k++ {
				op, ok := g.drainRead(i, &regs)
				if !ok {
					break
				}
				ops = append(ops, op)
			}
			if g.rng.Intn(2) == 0 && regs > 0 {
				ops = append(ops, OpSpec{Kind: "write", Res: "v", Src: regs - 1, Step: g.nextStep()})
			}
			a.Labels = append(a.Labels, LabelSpec{Name: fmt.Sprintf("l%d", len(a.Labels)), Ops: ops})
		}
		if len(a.Labels) == 0 {
			regs := 0
			a.Labels = append(a.Labels, LabelSpec{Name: "l0", Ops: []OpSpec{g.localOp(&regs)}})
		}
	}
}

func (g *genState) drainRead(i int, regs *int) (OpSpec, bool) {
	self := g.c.Archs[i].selfVS()
	var op OpSpec
	switch {
	case g.pendNet[i] > 0:
		g.pendNet[i]--
		op = OpSpec{Kind: "read", Res: "net", Idx: []VS{self}, Src: -1}
	case g.pendRnet[i] > 0:
		g.pendRnet[i]--
		op = OpSpec{Kind: "read", Res: "rnet", Idx: []VS{self}, Src: -1}
	case g.pendCh[i] > 0:
		g.pendCh[i]--
		op = OpSpec{Kind: "read", Res: "ic", Src: -1}
	default:
		return OpSpec{}, false
	}
	*regs++
	op.Dst = *regs - 1
	op.Step = g.nextStep()
	return op, true
}

// ---- fixed shapes -----------------------------------------------------------------------------

// shapeTWR: T publishes on link2; W publishes on link1 and then reads link2 in the same section; R reads
// link1 (optionally through extra relays). kind selects the resource kind of link1.
func shapeTWR(id int, kind string, relays int) *Case {
	c := &Case{ID: id, Shape: fmt.Sprintf("twr-%s-relay%d", kind, relays)}
	n := 3 + relays
	for i := 0; i < n; i++ {
		c.Archs = append(c.Archs, ArchSpec{Name: []string{"AT", "AW", "AR"}[min(i, 2)], SelfN: i + 1, Locals: stdLocals()})
	}
	c.Shared = []SharedSpec{
		{Name: "sh0", Init: vsEnvInit(), Owner: 1},
		{Name: "sh1", Init: vsEnvInit(), Owner: 0},
		{Name: "shx", Init: vsT(vsEnvInit(), vsEnvInit()), Owner: -1},
	}
	step := 0
	ns := func() int { step++; return step }
	T, W := &c.Archs[0], &c.Archs[1]
	// T writes sh1
	tw := ns()
	T.Labels = []LabelSpec{{Name: "l0", Ops: []OpSpec{{Kind: "write", Res: "sh1", Src: -1, Step: tw}}}}
	// W: write link1 to archetype 2, then read sh1 (await T's value)
	var w OpSpec
	ww := ns()
	switch kind {
	case "localshared":
		w = OpSpec{Kind: "write", Res: "sh0", Src: -1, Step: ww}
	case "tcpmailbox", "tcpmailbox-length":
		w = OpSpec{Kind: "write", Res: "net", Idx: []VS{c.Archs[2].selfVS()}, Src: -1, Step: ww}
	case "chan":
		w = OpSpec{Kind: "write", Res: "oc2", Src: -1, Step: ww}
	}
	W.Labels = []LabelSpec{{Name: "l0", Ops: []OpSpec{w, {Kind: "read", Res: "sh1", Await: tw, Dst: 0, Src: -1, Step: ns()}}}}
	// readers / relays
	for i := 2; i < n; i++ {
		a := &c.Archs[i]
		var rd OpSpec
		if i == 2 {
			switch kind {
			case "localshared":
				rd = OpSpec{Kind: "read", Res: "sh0", Await: ww, Dst: 0, Src: -1, Step: ns()}
			case "tcpmailbox", "tcpmailbox-length":
				rd = OpSpec{Kind: "read", Res: "net", Idx: []VS{a.selfVS()}, Dst: 0, Src: -1, Step: ns()}
			case "chan":
				rd = OpSpec{Kind: "read", Res: "ic", Dst: 0, Src: -1, Step: ns()}
			}
		} else {
			rd = OpSpec{Kind: "read", Res: "net", Idx: []VS{a.selfVS()}, Dst: 0, Src: -1, Step: ns()}
		}
		ops := []OpSpec{rd}
		if i == 2 && kind == "tcpmailbox-length" {
			// a section that only looks at the length, then the section that receives
			a.Labels = append(a.Labels, LabelSpec{Name: "lq", Ops: []OpSpec{
				{Kind: "read", Res: "nlen", Idx: []VS{a.selfVS()}, Await: 1, Dst: 0, Src: -1, Step: ns()},
			}})
		}
		if i+1 < n {
			// store in a local, forward from the next section
			ops = append(ops, OpSpec{Kind: "write", Res: "v", Src: 0, Step: ns()})
			a.Labels = append(a.Labels, LabelSpec{Name: "l0", Ops: ops})
			a.Labels = append(a.Labels, LabelSpec{Name: "l1", Ops: []OpSpec{
				{Kind: "read", Res: "v", Dst: 0, Src: -1, Step: ns()},
				{Kind: "write", Res: "net", Idx: []VS{c.Archs[i+1].selfVS()}, Src: 0, Step: ns()},
			}})
		} else {
			a.Labels = append(a.Labels, LabelSpec{Name: "l0", Ops: ops})
		}
	}
	c.Steps = step
	return c
}

func fixedCases() []*Case {
	var out []*Case
	for _, k := range []string{"localshared", "tcpmailbox", "chan"} {
		out = append(out, shapeTWR(0, k, 0))
	}
	out = append(out, shapeTWR(0, "tcpmailbox", 2), shapeTWR(0, "chan", 1), shapeTWR(0, "tcpmailbox-length", 0))
	return out
}

package main

// A tiny, independent model of the TLA+ values that appear in trace logs: parser for the text the
// runtime prints (Value.String()) and the few operations the replay oracle needs (apply an index
// path, substitute at an index path, canonical text). It deliberately does not use the tla package.

import (
	"fmt"
	"sort"
	"strconv"
	"strings"
)

type mvKind byte

const (
	mvNum mvKind = iota
	mvStr
	mvBool
	mvDefault
	mvTuple
	mvSet
	mvFunc
)

type mv struct {
	K mvKind
	N int64
	S string
	L []mv   // tuple / set members
	F []mvKV // function pairs, sorted by canonical key
}

type mvKV struct {
	Key mv
	Val mv
}

func (v mv) canon() string {
	var sb strings.Builder
	v.write(&sb)
	return sb.String()
}

func (v mv) write(sb *strings.Builder) {
	switch v.K {
	case mvNum:
		sb.WriteString(strconv.FormatInt(v.N, 10))
	case mvStr:
		sb.WriteString(strconv.Quote(v.S))
	case mvBool:
		if v.N != 0 {
			sb.WriteString("TRUE")
		} else {
			sb.WriteString("FALSE")
		}
	case mvDefault:
		sb.WriteString("defaultInitValue")
	case mvTuple:
		sb.WriteString("<<")
		for i, e := range v.L {
			if i > 0 {
				sb.WriteString(", ")
			}
			e.write(sb)
		}
		sb.WriteString(">>")
	case mvSet:
		parts := make([]string, len(v.L))
		for i, e := range v.L {
			parts[i] = e.canon()
		}
		sort.Strings(parts)
		sb.WriteString("{" + strings.Join(parts, ", ") + "}")
	case mvFunc:
		sb.WriteString("[")
		for i, kv := range v.F {
			if i > 0 {
				sb.WriteString(", ")
			}
			kv.Key.write(sb)
			sb.WriteString(" |-> ")
			kv.Val.write(sb)
		}
		sb.WriteString("]")
	}
}

func mvFuncOf(pairs []mvKV) mv {
	sort.Slice(pairs, func(i, j int) bool { return pairs[i].Key.canon() < pairs[j].Key.canon() })
	return mv{K: mvFunc, F: pairs}
}

type tlaParser struct {
	s string
	i int
}

func parseTLA(s string) (v mv, err error) {
	p := &tlaParser{s: s}
	defer func() {
		if e := recover(); e != nil {
			err = fmt.Errorf("cannot parse TLA value %q at %d: %v", s, p.i, e)
		}
	}()
	v = p.value()
	p.ws()
	if p.i != len(p.s) {
		panic("trailing text")
	}
	return v, nil
}

func (p *tlaParser) ws() {
	for p.i < len(p.s) && (p.s[p.i] == ' ' || p.s[p.i] == '\n' || p.s[p.i] == '\t') {
		p.i++
	}
}

func (p *tlaParser) has(tok string) bool {
	p.ws()
	return strings.HasPrefix(p.s[p.i:], tok)
}

func (p *tlaParser) eat(tok string) {
	if !p.has(tok) {
		panic("expected " + tok)
	}
	p.i += len(tok)
}

func (p *tlaParser) value() mv {
	p.ws()
	if p.i >= len(p.s) {
		panic("unexpected end")
	}
	const emptyFn = `[x \in {} |-> x]`
	switch {
	case p.has(emptyFn):
		p.i += len(emptyFn)
		return mv{K: mvFunc}
	case p.has("<<"):
		p.eat("<<")
		out := mv{K: mvTuple}
		if p.has(">>") {
			p.eat(">>")
			return out
		}
		for {
			out.L = append(out.L, p.value())
			if p.has(",") {
				p.eat(",")
				continue
			}
			p.eat(">>")
			return out
		}
	case p.has("{"):
		p.eat("{")
		out := mv{K: mvSet}
		if p.has("}") {
			p.eat("}")
			return out
		}
		for {
			out.L = append(out.L, p.value())
			if p.has(",") {
				p.eat(",")
				continue
			}
			p.eat("}")
			return out
		}
	case p.has("("):
		// ((k) :> (v) @@ (k) :> (v))
		p.eat("(")
		var pairs []mvKV
		for {
			p.eat("(")
			k := p.value()
			p.eat(")")
			p.eat(":>")
			p.eat("(")
			v := p.value()
			p.eat(")")
			pairs = append(pairs, mvKV{k, v})
			if p.has("@@") {
				p.eat("@@")
				continue
			}
			p.eat(")")
			return mvFuncOf(pairs)
		}
	case p.has("\""):
		// Go-quoted string
		j := p.i + 1
		for j < len(p.s) {
			if p.s[j] == '\\' {
				j += 2
				continue
			}
			if p.s[j] == '"' {
				break
			}
			j++
		}
		if j >= len(p.s) {
			panic("unterminated string")
		}
		str, err := strconv.Unquote(p.s[p.i : j+1])
		if err != nil {
			panic(err)
		}
		p.i = j + 1
		return mv{K: mvStr, S: str}
	case p.has("TRUE"):
		p.eat("TRUE")
		return mv{K: mvBool, N: 1}
	case p.has("FALSE"):
		p.eat("FALSE")
		return mv{K: mvBool}
	case p.has("defaultInitValue"):
		p.eat("defaultInitValue")
		return mv{K: mvDefault}
	default:
		j := p.i
		if j < len(p.s) && p.s[j] == '-' {
			j++
		}
		st := j
		for j < len(p.s) && p.s[j] >= '0' && p.s[j] <= '9' {
			j++
		}
		if j == st {
			panic("unexpected character")
		}
		n, err := strconv.ParseInt(p.s[p.i:j], 10, 64)
		if err != nil {
			panic(err)
		}
		p.i = j
		return mv{K: mvNum, N: n}
	}
}

// apply follows an index path (tuple: 1-based number; function: key).
func (v mv) apply(path []mv) (mv, error) {
	cur := v
	for _, ix := range path {
		switch cur.K {
		case mvTuple:
			if ix.K != mvNum || ix.N < 1 || int(ix.N) > len(cur.L) {
				return mv{}, fmt.Errorf("index %s out of range of %s", ix.canon(), cur.canon())
			}
			cur = cur.L[ix.N-1]
		case mvFunc:
			found := false
			kc := ix.canon()
			for _, kv := range cur.F {
				if kv.Key.canon() == kc {
					cur, found = kv.Val, true
					break
				}
			}
			if !found {
				return mv{}, fmt.Errorf("key %s not in domain of %s", kc, cur.canon())
			}
		default:
			return mv{}, fmt.Errorf("cannot index %s with %s", cur.canon(), ix.canon())
		}
	}
	return cur, nil
}

// subst returns v with the element at path replaced by nv.
func (v mv) subst(path []mv, nv mv) (mv, error) {
	if len(path) == 0 {
		return nv, nil
	}
	ix := path[0]
	switch v.K {
	case mvTuple:
		if ix.K != mvNum || ix.N < 1 || int(ix.N) > len(v.L) {
			return mv{}, fmt.Errorf("index %s out of range of %s", ix.canon(), v.canon())
		}
		out := mv{K: mvTuple, L: append([]mv{}, v.L...)}
		sub, err := out.L[ix.N-1].subst(path[1:], nv)
		if err != nil {
			return mv{}, err
		}
		out.L[ix.N-1] = sub
		return out, nil
	case mvFunc:
		out := mv{K: mvFunc, F: append([]mvKV{}, v.F...)}
		kc := ix.canon()
		for i, kv := range out.F {
			if kv.Key.canon() == kc {
				sub, err := kv.Val.subst(path[1:], nv)
				if err != nil {
					return mv{}, err
				}
				out.F[i] = mvKV{kv.Key, sub}
				return out, nil
			}
		}
		return mv{}, fmt.Errorf("key %s not in domain of %s", kc, v.canon())
	}
	return mv{}, fmt.Errorf("cannot index %s with %s", v.canon(), ix.canon())
}

// canonText parses and re-prints; on parse failure returns the text unchanged with a marker.
func canonText(s string) string {
	v, err := parseTLA(s)
	if err != nil {
		return "?unparsed:" + s
	}
	return v.canon()
}

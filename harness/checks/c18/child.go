package main

// Child process: executes one case on real MPCalContexts with tracing enabled (PGO_TRACE_DIR is set in
// the environment at process start by the parent) and writes the ground-truth log:
//   att  : an invocation of a section body (an attempt)            — written by the hand-built body
//   op   : a read/write the body performed through ArchetypeInterface, with its result
//   res  : a call the runtime made on a wrapped resource (Index/ReadValue/WriteValue/PreCommit/Commit/Abort)
//   h    : H1 hook callbacks (loop head, commit point, abort point, run exit) with the in-flight elements

import (
	"encoding/json"
	"errors"
	"fmt"
	"io"
	"log"
	"os"
	"sync"
	"time"

	"verifh/common"

	"github.com/DistCompiler/pgo/distsys"
	"github.com/DistCompiler/pgo/distsys/resources"
	"github.com/DistCompiler/pgo/distsys/tla"
	"github.com/DistCompiler/pgo/distsys/trace"
)

const attemptCapPerLabel = 4000

var errBoom = errors.New("c18: injected hard error")
var errAttemptCap = errors.New("c18: attempt cap reached")

// gtRec is one ground-truth record (all kinds share this struct).
type gtRec struct {
	Seq   int64           `json:"seq"`
	K     string          `json:"k,omitempty"`
	Kind  string          `json:"kind,omitempty"` // "end"
	A     string          `json:"a,omitempty"`    // archetype key
	Att   int             `json:"att,omitempty"`
	Label string          `json:"label,omitempty"`
	I     int             `json:"i"`
	T     string          `json:"t,omitempty"` // read | write
	Pre   string          `json:"pre,omitempty"`
	Name  string          `json:"name,omitempty"`
	Idx   []string        `json:"idx,omitempty"`
	Val   string          `json:"val,omitempty"`
	Err   string          `json:"err,omitempty"`
	Clk   json.RawMessage `json:"clk,omitempty"`  // sink clock snapshot (op) / clock attached to the value (res)
	Call  string          `json:"call,omitempty"` // res: call name
	Res   string          `json:"res,omitempty"`
	Ev    string          `json:"ev,omitempty"` // h: loop | commit | abort | exit
	Elems []elemRec       `json:"elems,omitempty"`
	Msg   string          `json:"msg,omitempty"`
}

type elemRec struct {
	Tag    string   `json:"tag"`
	Prefix string   `json:"prefix"`
	Name   string   `json:"name"`
	Idx    []string `json:"idx"`
	Val    string   `json:"val"`
	Old    *string  `json:"old,omitempty"`
}

type gtLog struct{ w *common.JSONLWriter }

func (l *gtLog) emit(r gtRec) {
	buf, _ := json.Marshal(r)
	var m map[string]any
	_ = json.Unmarshal(buf, &m)
	l.w.Emit(m)
}

func vsToTLA(v VS) tla.Value {
	switch v.K {
	case "n":
		return tla.MakeNumber(int32(v.N))
	case "s":
		return tla.MakeString(v.S)
	case "t":
		var l []tla.Value
		for _, e := range v.L {
			l = append(l, vsToTLA(e))
		}
		return tla.MakeTuple(l...)
	case "r":
		var f []tla.RecordField
		for i, e := range v.L {
			f = append(f, tla.RecordField{Key: tla.MakeString(v.Keys[i]), Value: vsToTLA(e)})
		}
		return tla.MakeRecord(f)
	case "d":
		return tla.Value{}
	}
	panic("bad VS")
}

func strs(vs []tla.Value) []string {
	out := make([]string, len(vs))
	for i, v := range vs {
		out[i] = v.String()
	}
	return out
}

func clkJSON(c tla.VClock) json.RawMessage {
	buf, err := json.Marshal(c)
	if err != nil {
		return nil
	}
	return buf
}

// ---- fault resource ---------------------------------------------------------------------------

type faultRes struct {
	distsys.ArchetypeResourceLeafMixin
	failRead, failWrite, failPre, hard bool
	n                                  int32
}

func (f *faultRes) Abort(distsys.ArchetypeInterface) chan struct{} {
	f.failRead, f.failWrite, f.failPre = false, false, false
	return nil
}
func (f *faultRes) PreCommit(distsys.ArchetypeInterface) chan error {
	if f.failPre {
		f.failPre = false
		ch := make(chan error, 1)
		ch <- distsys.ErrCriticalSectionAborted
		return ch
	}
	return nil
}
func (f *faultRes) Commit(distsys.ArchetypeInterface) chan struct{} { return nil }
func (f *faultRes) ReadValue(distsys.ArchetypeInterface) (tla.Value, error) {
	if f.hard {
		return tla.Value{}, errBoom
	}
	if f.failRead {
		f.failRead = false
		return tla.Value{}, distsys.ErrCriticalSectionAborted
	}
	f.n++
	return tla.MakeTuple(tla.MakeString("flt"), tla.MakeNumber(f.n)), nil
}
func (f *faultRes) WriteValue(distsys.ArchetypeInterface, tla.Value) error {
	if f.failWrite {
		f.failWrite = false
		return distsys.ErrCriticalSectionAborted
	}
	return nil
}
func (f *faultRes) Close() error { return nil }

// ---- wrapper resource -------------------------------------------------------------------------

type wrapRes struct {
	inner distsys.ArchetypeResource
	a     *archRT
	name  string
	path  []string
}

func (w *wrapRes) rec(call string) gtRec {
	return gtRec{K: "res", A: w.a.key, Att: w.a.att, Res: w.name, Idx: w.path, Call: call}
}

func errText(err error) string {
	switch {
	case err == nil:
		return ""
	case errors.Is(err, distsys.ErrCriticalSectionAborted):
		return "abort"
	default:
		return "hard:" + err.Error()
	}
}

func (w *wrapRes) Abort(iface distsys.ArchetypeInterface) chan struct{} {
	w.a.rt.log.emit(w.rec("Abort"))
	return w.inner.Abort(iface)
}
func (w *wrapRes) PreCommit(iface distsys.ArchetypeInterface) chan error {
	w.a.rt.log.emit(w.rec("PreCommit"))
	return w.inner.PreCommit(iface)
}
func (w *wrapRes) Commit(iface distsys.ArchetypeInterface) chan struct{} {
	w.a.rt.log.emit(w.rec("Commit"))
	return w.inner.Commit(iface)
}
func (w *wrapRes) ReadValue(iface distsys.ArchetypeInterface) (tla.Value, error) {
	v, err := w.inner.ReadValue(iface)
	r := w.rec("ReadValue")
	r.Err = errText(err)
	if err == nil {
		r.Val = v.String()
		if c := v.GetVClock(); c != nil {
			r.Clk = clkJSON(*c)
		}
	}
	w.a.rt.log.emit(r)
	return v, err
}
func (w *wrapRes) WriteValue(iface distsys.ArchetypeInterface, value tla.Value) error {
	err := w.inner.WriteValue(iface, value)
	r := w.rec("WriteValue")
	r.Err = errText(err)
	r.Val = value.String()
	if c := value.GetVClock(); c != nil {
		r.Clk = clkJSON(*c)
	}
	w.a.rt.log.emit(r)
	return err
}
func (w *wrapRes) Index(iface distsys.ArchetypeInterface, index tla.Value) (distsys.ArchetypeResource, error) {
	sub, err := w.inner.Index(iface, index)
	if err != nil {
		r := w.rec("Index")
		r.Err = errText(err)
		r.Val = index.String()
		w.a.rt.log.emit(r)
		return nil, err
	}
	np := append(append([]string{}, w.path...), index.String())
	return &wrapRes{inner: sub, a: w.a, name: w.name, path: np}, nil
}
func (w *wrapRes) Close() error { return w.inner.Close() }

// ---- runtime ----------------------------------------------------------------------------------

type caseRT struct {
	c     *Case
	log   *gtLog
	archs []*archRT
}

type archRT struct {
	rt       *caseRT
	spec     *ArchSpec
	idx      int
	key      string
	att      int
	labelAtt map[string]int
	flt      *faultRes
	refs     map[string]bool
}

func (a *archRT) handle(iface distsys.ArchetypeInterface, res string) (distsys.ArchetypeResourceHandle, error) {
	full := a.spec.Name + "." + res
	if a.refs[res] {
		return iface.RequireArchetypeResourceRef(full)
	}
	return iface.RequireArchetypeResource(full), nil
}

func (a *archRT) body(li int) func(distsys.ArchetypeInterface) error {
	lab := a.spec.Labels[li]
	full := a.spec.Name + "." + lab.Name
	next := a.spec.Name + ".Done"
	if li+1 < len(a.spec.Labels) {
		next = a.spec.Name + "." + a.spec.Labels[li+1].Name
	}
	lg := a.rt.log
	return func(iface distsys.ArchetypeInterface) error {
		a.att++
		a.labelAtt[full]++
		lg.emit(gtRec{K: "att", A: a.key, Att: a.att, Label: full})
		if a.labelAtt[full] > attemptCapPerLabel {
			return errAttemptCap
		}
		fires := func(op OpSpec) bool { return a.labelAtt[full] <= op.Count }
		regs := map[int]tla.Value{}
		sink := iface.GetVClockSink()
		for opi, op := range lab.Ops {
			var idx []tla.Value
			for _, ix := range op.Idx {
				idx = append(idx, vsToTLA(ix))
			}
			h, err := a.handle(iface, op.Res)
			if err != nil {
				return err
			}
			rec := gtRec{K: "op", A: a.key, Att: a.att, I: opi, Pre: a.spec.Name, Name: op.Res, Idx: strs(idx), Label: full}
			doRead := func() (tla.Value, error) {
				v, err := iface.Read(h, idx)
				rec.T, rec.Err = "read", errText(err)
				if err == nil {
					rec.Val = v.String()
				}
				rec.Clk = clkJSON(sink.GetVClock())
				lg.emit(rec)
				return v, err
			}
			doWrite := func(payload tla.Value) error {
				val := tla.MakeTuple(tla.MakeNumber(int32(op.Step)), tla.MakeString(a.key), tla.MakeNumber(int32(a.att)), tla.MakeNumber(int32(opi)), payload)
				rec.Clk = clkJSON(sink.GetVClock())
				err := iface.Write(h, idx, val)
				rec.T, rec.Err, rec.Val = "write", errText(err), val.String()
				lg.emit(rec)
				return err
			}
			switch op.Kind {
			case "read":
				v, err := doRead()
				if err != nil {
					return err
				}
				if op.Await > 0 {
					ok := v.IsTuple() && v.AsTuple().Len() > 0 && v.AsTuple().Get(0).IsNumber() && int(v.AsTuple().Get(0).AsNumber()) >= op.Await
					if v.IsNumber() { // a mailbox length
						ok = int(v.AsNumber()) >= op.Await
					}
					if !ok {
						time.Sleep(300 * time.Microsecond)
						return distsys.ErrCriticalSectionAborted
					}
				}
				regs[op.Dst] = v
			case "write":
				payload := tla.MakeNumber(0)
				if p, ok := regs[op.Src]; ok && op.Src >= 0 {
					payload = p
				}
				if err := doWrite(payload); err != nil {
					return err
				}
			case "fault":
				switch op.Fault {
				case "hard":
					a.flt.hard = true
					_, err := doRead()
					return err
				case "read":
					a.flt.failRead = fires(op)
					v, err := doRead()
					if err != nil {
						return err
					}
					regs[op.Dst] = v
				case "write":
					a.flt.failWrite = fires(op)
					if err := doWrite(tla.MakeNumber(0)); err != nil {
						return err
					}
				case "precommit":
					v, err := doRead()
					if err != nil {
						return err
					}
					regs[op.Dst] = v
					a.flt.failPre = fires(op)
				}
			}
		}
		err := iface.Goto(next)
		lg.emit(gtRec{K: "op", A: a.key, Att: a.att, I: len(lab.Ops), T: "write", Pre: "", Name: ".pc", Val: tla.MakeString(next).String(), Err: errText(err), Label: full, Clk: clkJSON(sink.GetVClock())})
		return err
	}
}

func renderElems(elems []trace.Element) []elemRec {
	out := []elemRec{}
	for _, e := range elems {
		switch e := e.(type) {
		case trace.ReadElement:
			out = append(out, elemRec{Tag: "read", Prefix: e.Prefix, Name: e.Name, Idx: strs(e.Indices), Val: e.Value.String()})
		case trace.WriteElement:
			r := elemRec{Tag: "write", Prefix: e.Prefix, Name: e.Name, Idx: strs(e.Indices), Val: e.Value.String()}
			if e.OldValueHint != nil {
				s := e.OldValueHint.String()
				r.Old = &s
			}
			out = append(out, r)
		}
	}
	return out
}

func exitNow() { os.Exit(0) }

func childMain() {
	log.SetOutput(io.Discard)
	if len(os.Args) < 4 {
		fmt.Println("usage (child): <bin> child <case.json> <out.jsonl>")
		os.Exit(3)
	}
	buf, err := os.ReadFile(os.Args[2])
	if err != nil {
		panic(err)
	}
	var c Case
	if err := json.Unmarshal(buf, &c); err != nil {
		panic(err)
	}
	w := common.NewJSONLWriter(os.Args[3])
	rt := &caseRT{c: &c, log: &gtLog{w: w}}
	finish := func(complete bool) {
		if complete {
			w.Emit(map[string]any{"kind": "end"})
		}
		w.Close()
	}

	hk := func(ev string) func(*distsys.MPCalContext, string, tla.Value, []trace.Element) {
		return func(_ *distsys.MPCalContext, arch string, self tla.Value, elems []trace.Element) {
			rt.log.emit(gtRec{K: "h", Ev: ev, A: arch + "/" + self.String(), Elems: renderElems(elems)})
		}
	}
	distsys.VerifHooks.CommitPoint = hk("commit")
	distsys.VerifHooks.AbortPoint = hk("abort")
	distsys.VerifHooks.LoopHead = func(_ *distsys.MPCalContext, arch string, self tla.Value, err error) {
		rt.log.emit(gtRec{K: "h", Ev: "loop", A: arch + "/" + self.String(), Err: errText(err)})
	}
	distsys.VerifHooks.RunExit = func(_ *distsys.MPCalContext, arch string, self tla.Value, err error) {
		rt.log.emit(gtRec{K: "h", Ev: "exit", A: arch + "/" + self.String(), Err: errText(err)})
	}

	defer func() {
		// a panic while setting up (typically: a port taken by another process meanwhile)
		if e := recover(); e != nil {
			rt.log.emit(gtRec{K: "panic", A: "setup", Msg: fmt.Sprint(e)})
			finish(false)
			os.Exit(0)
		}
	}()
	if c.System != "" {
		runSystem(&c, rt, finish)
		return
	}
	n := len(c.Archs)
	selfOf := func(i int) tla.Value { return vsToTLA(c.Archs[i].selfVS()) }
	chans := make([]chan tla.Value, n)
	for i := range chans {
		chans[i] = make(chan tla.Value, 4096)
	}
	var shared []*resources.LocalSharedManager
	for _, s := range c.Shared {
		shared = append(shared, resources.NewLocalSharedManager(vsToTLA(s.Init), resources.WithLocalSharedResourceTimeout(4*time.Millisecond)))
	}
	addrFn := func(me int, relaxed bool) resources.MailboxesAddressMappingFn {
		return func(idx tla.Value) (resources.MailboxKind, string) {
			for j := range c.Archs {
				if selfOf(j).Equal(idx) {
					port := c.Archs[j].NetPort
					if relaxed {
						port = c.Archs[j].RnetPort
					}
					kind := resources.MailboxesRemote
					if j == me {
						kind = resources.MailboxesLocal
					}
					return kind, fmt.Sprintf("127.0.0.1:%d", port)
				}
			}
			panic(fmt.Sprintf("c18: no archetype with self %v", idx))
		}
	}
	mbOpts := []resources.MailboxesOption{resources.WithMailboxesReadTimeout(4 * time.Millisecond)}

	var ctxs []*distsys.MPCalContext
	for i := range c.Archs {
		spec := &c.Archs[i]
		a := &archRT{rt: rt, spec: spec, idx: i, key: spec.Key(), labelAtt: map[string]int{}, flt: &faultRes{}, refs: map[string]bool{}}
		rt.archs = append(rt.archs, a)
		var sections []distsys.MPCalCriticalSection
		for li, lab := range spec.Labels {
			sections = append(sections, distsys.MPCalCriticalSection{Name: spec.Name + "." + lab.Name, Body: a.body(li)})
		}
		sections = append(sections, distsys.MPCalCriticalSection{Name: spec.Name + ".Done", Body: func(distsys.ArchetypeInterface) error { return distsys.ErrDone }})
		wrap := func(name string, r distsys.ArchetypeResource) distsys.MPCalContextConfigFn {
			a.refs[name] = true
			return distsys.EnsureArchetypeRefParam(name, &wrapRes{inner: r, a: a, name: name})
		}
		net := resources.NewTCPMailboxes(addrFn(i, false), mbOpts...)
		rnet := resources.NewRelaxedMailboxes(addrFn(i, true), mbOpts...)
		// start listening now (mailboxes are realised lazily on first Index; generated systems begin by reading
		// their own mailbox, ours may not)
		for _, mb := range []*resources.Mailboxes{net, rnet} {
			if _, err := mb.Index(distsys.ArchetypeInterface{}, selfOf(i)); err != nil {
				panic(err)
			}
		}
		cfg := []distsys.MPCalContextConfigFn{
			wrap("net", net), wrap("nlen", resources.NewMailboxesLength(net)),
			wrap("rnet", rnet), wrap("rlen", resources.NewMailboxesLength(rnet)),
			wrap("ic", resources.NewInputChan(chans[i], resources.WithInputChanReadTimeout(3*time.Millisecond))),
		}
		for j := range c.Archs {
			if j != i {
				cfg = append(cfg, wrap(fmt.Sprintf("oc%d", j), resources.NewOutputChan(chans[j])))
			}
		}
		for k, s := range c.Shared {
			cfg = append(cfg, wrap(s.Name, shared[k].MakeLocalShared()))
		}
		a.refs["flt"] = true
		cfg = append(cfg, distsys.EnsureArchetypeRefParam("flt", a.flt))
		var refNames, valNames []string
		for name := range a.refs {
			refNames = append(refNames, spec.Name+"."+name)
		}
		var locals []LocalSpec
		for _, l := range spec.Locals {
			if l.IsParam {
				cfg = append(cfg, distsys.EnsureArchetypeValueParam(l.Name, vsToTLA(l.Init)))
				valNames = append(valNames, spec.Name+"."+l.Name)
			} else {
				locals = append(locals, l)
			}
		}
		arch := distsys.MPCalArchetype{
			Name: spec.Name, Label: spec.Name + "." + spec.Labels[0].Name,
			RequiredRefParams: refNames, RequiredValParams: valNames,
			JumpTable: distsys.MakeMPCalJumpTable(sections...), ProcTable: distsys.MakeMPCalProcTable(),
			PreAmble: func(iface distsys.ArchetypeInterface) {
				for _, l := range locals {
					iface.EnsureArchetypeResourceLocal(spec.Name+"."+l.Name, vsToTLA(l.Init))
				}
			},
		}
		ctxs = append(ctxs, distsys.NewMPCalContext(selfOf(i), arch, cfg...))
	}

	var wg sync.WaitGroup
	var fatal sync.Once
	for i, ctx := range ctxs {
		wg.Add(1)
		go func(i int, ctx *distsys.MPCalContext) {
			defer wg.Done()
			defer func() {
				if e := recover(); e != nil {
					// a panic inside the runtime: record it and end the case (the other archetypes may now wait forever)
					fatal.Do(func() {
						rt.log.emit(gtRec{K: "panic", A: rt.archs[i].key, Msg: fmt.Sprint(e)})
						finish(false)
						os.Exit(0)
					})
					select {}
				}
			}()
			err := ctx.Run()
			rt.log.emit(gtRec{K: "exit", A: rt.archs[i].key, Err: errText(err)})
		}(i, ctx)
	}
	done := make(chan struct{})
	go func() { wg.Wait(); close(done) }()
	select {
	case <-done:
		finish(true)
	case <-time.After(45 * time.Second):
		fatal.Do(func() {
			rt.log.emit(gtRec{K: "hang"})
			finish(false)
			os.Exit(0)
		})
	}
}

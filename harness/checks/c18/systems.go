package main

// "System" cases: the shipped generated archetypes of systems/dqueue and systems/locksvc in their shipped
// wirings (TCP mailboxes + channels; relaxed mailboxes + a lock-state resource), with every resource wrapped.
// There is no hand-built body here, so the ground truth is: H1 hooks (attempt boundaries and in-flight
// elements) and the wrappers' resource-level calls.

import (
	"fmt"
	"math/rand"
	"sync"
	"time"

	"github.com/DistCompiler/pgo/distsys"
	"github.com/DistCompiler/pgo/distsys/resources"
	"github.com/DistCompiler/pgo/distsys/tla"
	"github.com/DistCompiler/pgo/systems/dqueue"
	"github.com/DistCompiler/pgo/systems/locksvc"
)

func systemCase(kind string, rng *rand.Rand) *Case {
	c := &Case{Shape: kind, System: kind}
	switch kind {
	case "dqueue":
		c.Peers = 1 + rng.Intn(3)
		c.Items = 3 + rng.Intn(8)
		c.Archs = append(c.Archs, ArchSpec{Name: "AProducer", SelfN: 0, Wrapped: []string{"net", "s"},
			Locals: []LocalSpec{{Name: "requester", Init: VS{K: "d"}}}, Labels: []LabelSpec{{Name: "p"}}})
		for i := 1; i <= c.Peers; i++ {
			c.Archs = append(c.Archs, ArchSpec{Name: "AConsumer", SelfN: i, Wrapped: []string{"net", "proc"}, Labels: []LabelSpec{{Name: "c"}}})
		}
	case "locksvc":
		c.Peers = 1 + rng.Intn(4)
		c.Archs = append(c.Archs, ArchSpec{Name: "AServer", SelfN: 0, Wrapped: []string{"network"},
			Locals: []LocalSpec{{Name: "msg", Init: VS{K: "d"}}, {Name: "q", Init: vsT()}}, Labels: []LabelSpec{{Name: "serverLoop"}}})
		for i := 1; i <= c.Peers; i++ {
			c.Archs = append(c.Archs, ArchSpec{Name: "AClient", SelfN: i, Wrapped: []string{"network", "hasLock"}, Labels: []LabelSpec{{Name: "acquireLock"}}})
		}
	}
	c.Seed = rng.Int63()
	return c
}

// acceptRes is a leaf resource that accepts any write (the lock-state variable of locksvc clients).
type acceptRes struct {
	distsys.ArchetypeResourceLeafMixin
}

func (acceptRes) Abort(distsys.ArchetypeInterface) chan struct{}  { return nil }
func (acceptRes) PreCommit(distsys.ArchetypeInterface) chan error { return nil }
func (acceptRes) Commit(distsys.ArchetypeInterface) chan struct{} { return nil }
func (acceptRes) ReadValue(distsys.ArchetypeInterface) (tla.Value, error) {
	return tla.ModuleFALSE, nil
}
func (acceptRes) WriteValue(distsys.ArchetypeInterface, tla.Value) error { return nil }
func (acceptRes) Close() error                                           { return nil }

func runSystem(c *Case, rt *caseRT, finish func(bool)) {
	n := len(c.Archs)
	rng := rand.New(rand.NewSource(c.Seed))
	startDelay := make([]time.Duration, n)
	for i := range startDelay {
		startDelay[i] = time.Duration(rng.Intn(2000)) * time.Microsecond
	}
	itemDelay := make([]time.Duration, c.Items+1)
	for i := range itemDelay {
		itemDelay[i] = time.Duration(rng.Intn(3000)) * time.Microsecond
	}
	var clients sync.WaitGroup
	selfOf := func(i int) tla.Value { return tla.MakeNumber(int32(c.Archs[i].SelfN)) }
	addrFn := func(me int) resources.MailboxesAddressMappingFn {
		return func(idx tla.Value) (resources.MailboxKind, string) {
			j := int(idx.AsNumber())
			kind := resources.MailboxesRemote
			if j == me {
				kind = resources.MailboxesLocal
			}
			return kind, fmt.Sprintf("127.0.0.1:%d", c.Archs[j].NetPort)
		}
	}
	mbOpts := []resources.MailboxesOption{resources.WithMailboxesReadTimeout(5 * time.Millisecond)}
	ctxs := make([]*distsys.MPCalContext, n)
	mk := func(i int) *archRT {
		a := &archRT{rt: rt, spec: &c.Archs[i], idx: i, key: c.Archs[i].Key(), labelAtt: map[string]int{}, refs: map[string]bool{}}
		rt.archs = append(rt.archs, a)
		return a
	}
	wrap := func(a *archRT, name string, r distsys.ArchetypeResource) distsys.MPCalContextConfigFn {
		return distsys.EnsureArchetypeRefParam(name, &wrapRes{inner: r, a: a, name: name})
	}
	var driver func(stopAll func())
	switch c.System {
	case "dqueue":
		in := make(chan tla.Value, c.Items)
		out := make(chan tla.Value, c.Items)
		for i := 0; i < n; i++ {
			a := mk(i)
			net := resources.NewTCPMailboxes(addrFn(i), mbOpts...)
			if _, err := net.Index(distsys.ArchetypeInterface{}, selfOf(i)); err != nil {
				panic(err)
			}
			if i == 0 {
				ctxs[i] = distsys.NewMPCalContext(selfOf(i), dqueue.AProducer, distsys.DefineConstantValue("PRODUCER", selfOf(0)),
					wrap(a, "net", net), wrap(a, "s", resources.NewInputChan(in, resources.WithInputChanReadTimeout(3*time.Millisecond))))
			} else {
				ctxs[i] = distsys.NewMPCalContext(selfOf(i), dqueue.AConsumer, distsys.DefineConstantValue("PRODUCER", selfOf(0)),
					wrap(a, "net", net), wrap(a, "proc", resources.NewOutputChan(out)))
			}
		}
		driver = func(stopAll func()) {
			go func() {
				for k := 1; k <= c.Items; k++ {
					time.Sleep(itemDelay[k])
					in <- tla.MakeTuple(tla.MakeString("item"), tla.MakeNumber(int32(k)))
				}
			}()
			for k := 0; k < c.Items; k++ {
				<-out
			}
			stopAll()
		}
	case "locksvc":
		for i := 0; i < n; i++ {
			a := mk(i)
			net := resources.NewRelaxedMailboxes(addrFn(i), mbOpts...)
			if _, err := net.Index(distsys.ArchetypeInterface{}, selfOf(i)); err != nil {
				panic(err)
			}
			if i == 0 {
				ctxs[i] = distsys.NewMPCalContext(selfOf(i), locksvc.AServer, wrap(a, "network", net))
			} else {
				clients.Add(1)
				ctxs[i] = distsys.NewMPCalContext(selfOf(i), locksvc.AClient, wrap(a, "network", net),
					wrap(a, "hasLock", resources.NewIncMap(func(tla.Value) distsys.ArchetypeResource { return acceptRes{} })))
			}
		}
		driver = func(stopAll func()) {
			clients.Wait()
			stopAll()
		}
	default:
		panic("unknown system " + c.System)
	}

	var wg sync.WaitGroup
	var fatal sync.Once
	for i, ctx := range ctxs {
		wg.Add(1)
		go func(i int, ctx *distsys.MPCalContext) {
			defer wg.Done()
			defer func() {
				if e := recover(); e != nil {
					fatal.Do(func() {
						rt.log.emit(gtRec{K: "panic", A: rt.archs[i].key, Msg: fmt.Sprint(e)})
						finish(false)
						exitNow()
					})
					select {}
				}
			}()
			if i > 0 {
				time.Sleep(startDelay[i])
			}
			err := ctx.Run()
			rt.log.emit(gtRec{K: "exit", A: rt.archs[i].key, Err: errText(err)})
			if c.System == "locksvc" && i > 0 {
				clients.Done()
			}
		}(i, ctx)
	}
	done := make(chan struct{})
	go func() {
		driver(func() {
			// peers first (they are the only ones that still send), then the server/producer
			for i := n - 1; i >= 0; i-- {
				ctxs[i].Stop()
			}
		})
		wg.Wait()
		close(done)
	}()
	select {
	case <-done:
		finish(true)
	case <-time.After(45 * time.Second):
		fatal.Do(func() {
			rt.log.emit(gtRec{K: "hang"})
			finish(false)
			exitNow()
		})
	}
}

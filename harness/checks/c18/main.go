// C18 — execution traces are faithful and causally consistent.
//
// Workload: PRNG-generated and fixed-shape systems of 2–5 hand-built archetypes (generated-code conventions)
// that communicate over locals, indexed locals, value parameters, LocalShared variables (plain and indexed),
// InputChan/OutputChan, TCP mailboxes, relaxed mailboxes and mailbox-length resources, with injected aborts
// (fault resource: failing read / failing write / failing PreCommit, before and after reads and writes), natural
// aborts (mailbox/channel/lock timeouts, awaits), hard errors, relays over several hops (through locals and
// links) and sections that publish a value and then learn something else. Every value written is unique.
// Each case runs in a child process with PGO_TRACE_DIR set at process start; the JSON log files written there
// are parsed back and judged offline against the ground truth (body-level operations, wrapper-resource calls,
// H1/H3 hook callbacks). See oracle.go for the oracles (i)–(vi).
package main

import (
	"encoding/json"
	"fmt"
	"net"
	"os"
	"path/filepath"
	"sort"
	"strings"
	"sync"
	"time"

	"verifh/common"
)

var (
	portMu    sync.Mutex
	portsUsed = map[int]bool{}
)

func freePort() int {
	for try := 0; try < 200; try++ {
		l, err := net.Listen("tcp", "127.0.0.1:0")
		if err != nil {
			continue
		}
		p := l.Addr().(*net.TCPAddr).Port
		l.Close()
		portMu.Lock()
		dup := portsUsed[p]
		portsUsed[p] = true
		portMu.Unlock()
		if !dup {
			return p
		}
	}
	return 0 // the child will fail to listen; the case is then retried / inconclusive
}

type caseResult struct {
	Case         *Case
	Verdict      *verdict
	Inconclusive string
	Recs         []gtRec
	Events       map[string][]tEvent
	Panic        string
	Wall         time.Duration
}

func runCase(c *Case) *caseResult {
	res := &caseResult{Case: c}
	dir := common.Scratch("c18")
	if keep := os.Getenv("C18_KEEP"); keep != "" {
		fmt.Println("keeping", dir)
	} else {
		defer os.RemoveAll(dir)
	}
	for i := range c.Archs {
		c.Archs[i].NetPort, c.Archs[i].RnetPort = freePort(), freePort()
	}
	defer func() {
		portMu.Lock()
		for i := range c.Archs {
			delete(portsUsed, c.Archs[i].NetPort)
			delete(portsUsed, c.Archs[i].RnetPort)
		}
		portMu.Unlock()
	}()
	buf, _ := json.Marshal(c)
	casePath, gtPath, traceDir := filepath.Join(dir, "case.json"), filepath.Join(dir, "gt.jsonl"), filepath.Join(dir, "trace")
	if err := os.WriteFile(casePath, buf, 0o644); err != nil {
		res.Inconclusive = err.Error()
		return res
	}
	env := []string{"PGO_TRACE_DIR=" + traceDir}
	if c.Disrupt != "" {
		env = append(env, "PGO_DISRUPT_CONCURRENCY="+c.Disrupt)
	}
	cr := common.RunChild("", "case", dir, env, 90*time.Second, "child", casePath, gtPath)
	res.Wall = cr.Wall
	recs, complete, err := readGT(gtPath)
	if err != nil {
		res.Inconclusive = fmt.Sprintf("no ground-truth log (exit %d): %v: %s", cr.ExitCode, err, tailStr(cr.Output, 400))
		return res
	}
	events, problems := parseTraceDir(traceDir)
	res.Recs, res.Events = recs, events
	for _, r := range recs {
		switch r.K {
		case "panic":
			res.Panic = r.Msg
		case "hang":
			res.Inconclusive = "case did not finish within the child's watchdog"
		case "exit":
			if strings.Contains(r.Err, "attempt cap") {
				res.Inconclusive = "attempt cap reached (" + r.A + ")"
			}
		}
	}
	if !complete && res.Panic == "" && res.Inconclusive == "" {
		res.Inconclusive = fmt.Sprintf("child ended without end record (exit %d, timed out %v): %s", cr.ExitCode, cr.TimedOut, tailStr(cr.Output, 400))
	}
	// partial logs are still judged: every oracle only looks at attempts whose event was already due
	res.Verdict = evaluate(c, recs, events, problems)
	if len(res.Verdict.Stats.Inconsistent) > 0 && res.Inconclusive == "" && res.Panic == "" {
		res.Inconclusive = "harness-side inconsistency: " + res.Verdict.Stats.Inconsistent[0]
	}
	return res
}

func tailStr(s string, n int) string {
	if len(s) > n {
		return s[len(s)-n:]
	}
	return s
}

func panicKey(msg string) (key string, decides bool) {
	switch {
	case strings.Contains(msg, "trace accumulator corrupted"):
		return "C18:trace:panic:accumulator-corrupted", true
	case strings.Contains(msg, "oldValueHintReceiver"):
		return "C18:trace:panic:old-value-hint-receiver", true
	case strings.Contains(msg, "with empty name"):
		return "C18:trace:panic:empty-name", true
	case strings.Contains(msg, "should be unreachable"):
		return "C18:trace:panic:unknown-element", true
	}
	return "", false
}

type replayWitness struct {
	Case    *Case               `json:"case"`
	Finding finding             `json:"finding"`
	Recs    []gtRec             `json:"ground_truth"`
	Events  map[string][]tEvent `json:"events"`
}

func main() {
	if common.ChildRole() == "case" {
		childMain()
		return
	}
	r := common.Start("C18", "exploration")
	if r.Replay != "" {
		replay(r)
		return
	}
	total := r.Pick(48, 600)
	workers := r.Pick(8, 16)
	rng := r.Rand("cases")
	cases := fixedCases()
	sysRng := r.Rand("systems")
	for k := 0; k < r.Pick(4, 40); k++ { // shipped generated systems in their shipped wirings
		cases = append(cases, systemCase([]string{"dqueue", "locksvc"}[k%2], sysRng))
	}
	for len(cases) < total {
		cases = append(cases, genCase(rng, 0))
	}
	for i, c := range cases {
		c.ID = i
	}
	if only := os.Getenv("C18_ONLY"); only != "" { // development aid: run a single case of the list
		var k int
		fmt.Sscan(only, &k)
		cases = cases[k : k+1]
	}

	var mu sync.Mutex
	var agg caseStats
	agg.CrossEdges, agg.AbortKinds = map[string]int{}, map[string]int{}
	var sigs common.Distinct
	samples := &common.SampleKeeper{N: 6}
	evaluated, nontrivial := 0, 0
	var childWall, childWallMax time.Duration
	shapes := map[string]int{}
	edgeCases := map[string]int{}

	common.Parallel(len(cases), workers, func(i int) {
		c := cases[i]
		res := runCase(c)
		if res.Panic != "" && strings.Contains(res.Panic, "could not listen") {
			res = runCase(c) // port taken by another process: one retry with fresh ports
		}
		mu.Lock()
		defer mu.Unlock()
		if res.Panic != "" {
			if key, ok := panicKey(res.Panic); ok {
				r.Report(key, "the runtime panicked with tracing enabled: "+res.Panic, replayWitness{Case: c, Finding: finding{Key: key, Desc: res.Panic}, Recs: res.Recs, Events: res.Events})
			} else {
				r.Inconclusive(fmt.Sprintf("case %d (%s): panic in child: %s", c.ID, c.Shape, tailStr(res.Panic, 200)))
			}
		}
		if res.Verdict != nil {
			for _, f := range res.Verdict.Findings {
				r.Report(f.Key, f.Desc, replayWitness{Case: c, Finding: f, Recs: res.Recs, Events: res.Events})
			}
		}
		if res.Inconclusive != "" {
			r.Inconclusive(fmt.Sprintf("case %d (%s): %s", c.ID, c.Shape, res.Inconclusive))
			return
		}
		if res.Verdict == nil || res.Panic != "" {
			return
		}
		evaluated++
		st := res.Verdict.Stats
		childWall += res.Wall
		if res.Wall > childWallMax {
			childWallMax = res.Wall
		}
		shapes[c.Shape]++
		agg.Events += st.Events
		agg.AbortEvents += st.AbortEvents
		agg.Elements += st.Elements
		agg.SameArchEdges += st.SameArchEdges
		agg.LaterWitnessEdges += st.LaterWitnessEdges
		agg.LocalReadsReplayed += st.LocalReadsReplayed
		agg.HintsChecked += st.HintsChecked
		agg.SharedHintsChecked += st.SharedHintsChecked
		agg.LengthReads += st.LengthReads
		agg.LengthMsgsIdentified += st.LengthMsgsIdentified
		agg.WrapperElemsCompared += st.WrapperElemsCompared
		agg.HookEventsCompared += st.HookEventsCompared
		agg.UnloggedAttempts += st.UnloggedAttempts
		agg.UnidentifiedReads += st.UnidentifiedReads
		agg.DuplicateDeliveries += st.DuplicateDeliveries
		if st.MaxHops > agg.MaxHops {
			agg.MaxHops = st.MaxHops
		}
		cross := 0
		var kinds []string
		for k, n := range st.CrossEdges {
			agg.CrossEdges[k] += n
			cross += n
			kinds = append(kinds, k)
			edgeCases[k]++
		}
		for k, n := range st.AbortKinds {
			agg.AbortKinds[k] += n
			kinds = append(kinds, "abort:"+k)
		}
		sort.Strings(kinds)
		if cross > 0 && st.AbortEvents > 0 {
			nontrivial++
			sigs.Add(fmt.Sprintf("n=%d hops=%d %s", len(c.Archs), st.MaxHops, strings.Join(kinds, ",")))
		}
		samples.Add(sampleOf(c, res))
	})

	extra := map[string]any{
		"cases_generated": len(cases), "cases_judged": evaluated, "cases_nontrivial": nontrivial, "shapes": shapes,
		"events_parsed_back": agg.Events, "aborted_events": agg.AbortEvents, "elements_compared": agg.Elements,
		"cross_archetype_reads_with_identified_writer_event": agg.CrossEdges, "cases_with_edge_kind": edgeCases,
		"same_archetype_reads_with_identified_writer_event": agg.SameArchEdges,
		"edges_where_writer_learned_after_writing":          agg.LaterWitnessEdges,
		"max_relay_hops_seen_in_a_read_value":               agg.MaxHops,
		"local_reads_replayed":                              agg.LocalReadsReplayed, "local_hints_checked": agg.HintsChecked, "localshared_hints_checked": agg.SharedHintsChecked,
		"length_reads": agg.LengthReads, "length_messages_identified": agg.LengthMsgsIdentified,
		"elements_compared_with_resource_calls": agg.WrapperElemsCompared, "events_compared_with_inflight_elements": agg.HookEventsCompared,
		"attempts_ending_in_hard_error_not_logged": agg.UnloggedAttempts, "reads_whose_writer_has_no_event": agg.UnidentifiedReads,
		"abort_kinds": agg.AbortKinds, "length_or_positional_identifications_skipped_because_of_duplicate_deliveries": agg.DuplicateDeliveries,
		"child_wall_total_s": childWall.Seconds(), "child_wall_max_s": childWallMax.Seconds(),
	}
	r.Finish(common.Coverage{
		Evaluations:        evaluated,
		DistinctNontrivial: sigs.Len(),
		Rule:               "a case counts if its parsed-back logs contain at least one read whose writer is an event of another archetype and at least one aborted event; distinct by (archetype count, relay depth, set of link kinds carrying such reads, set of abort kinds)",
		Samples:            samples.S,
		Floor:              r.Pick(12, 100),
		Extra:              extra,
	}, []string{
		"Attempts are delimited by the H1 hooks (commit point / abort entry / loop head) and by the hand-built section bodies, independently of the recorder.",
		"An attempt that ends in a hard error, and the Done pseudo-label, are neither committed nor aborted: no event is demanded for them (none is written by the pinned tree); an event for them would be reported as extra.",
		"'Dominates the writer's' is read literally: component-wise >= the clock logged with the writer's event. A reader that knows the writer's own component and everything the writer knew when it wrote, but not what the writer learned later in the same section, is keyed reader-misses-writer-later-witness:<resource kind>.",
		"A mailbox-length read of n > 0 is treated as reading the n messages then pending (the code merges their clocks); their senders are identified from the reader's subsequent deliveries.",
		"Relaxed mailboxes are used within their documented restriction (the send is the last operation of its section, no abort after it).",
		"Relays over several hops are covered by checking every direct edge (including edges through the relay's own local variables) plus monotonicity of each archetype's clock; dominance is transitive.",
		"Schedules are those the Go scheduler, PGO_DISRUPT_CONCURRENCY (a quarter of the cases) and the injected aborts produced; not exhaustive.",
	})
}

func sampleOf(c *Case, res *caseResult) any {
	var archs []string
	labels := 0
	for _, a := range c.Archs {
		archs = append(archs, a.Key())
		labels += len(a.Labels)
	}
	s := map[string]any{"case": c.ID, "shape": c.Shape, "archetypes": archs, "labels": labels, "events": res.Verdict.Stats.Events,
		"aborted_events": res.Verdict.Stats.AbortEvents, "cross_edges": res.Verdict.Stats.CrossEdges, "max_hops": res.Verdict.Stats.MaxHops}
	for _, a := range c.Archs {
		if evs := res.Events[a.Key()]; len(evs) > 0 {
			e := evs[len(evs)-1]
			s["last_event_of_"+a.Key()] = map[string]any{"elements": strElems(fromTElems(e.Elems)), "clock": e.Clock, "is_abort": e.IsAbort}
			break
		}
	}
	return s
}

func replay(r *common.Run) {
	buf, err := os.ReadFile(r.Replay)
	if err != nil {
		fmt.Println("cannot read replay file:", err)
		os.Exit(3)
	}
	var f struct {
		Witness replayWitness `json:"witness"`
	}
	if err := json.Unmarshal(buf, &f); err != nil || f.Witness.Case == nil {
		fmt.Println("cannot decode replay file:", err)
		os.Exit(3)
	}
	w := f.Witness
	v := evaluate(w.Case, w.Recs, w.Events, nil)
	for _, r2 := range w.Recs {
		if r2.K == "panic" {
			if key, ok := panicKey(r2.Msg); ok {
				r.Report(key, "the runtime panicked with tracing enabled: "+r2.Msg, w)
			}
		}
	}
	for _, fd := range v.Findings {
		fmt.Printf("replayed oracle: %s — %s\n", fd.Key, fd.Desc)
		r.Report(fd.Key, fd.Desc, replayWitness{Case: w.Case, Finding: fd, Recs: w.Recs, Events: w.Events})
	}
	r.Finish(common.Coverage{Evaluations: 1, DistinctNontrivial: 1, Rule: "replay of one stored case (oracle re-run on the stored ground truth and events)"}, nil)
}

package main

// Offline oracles over (case, ground-truth log, parsed PGO_TRACE_DIR logs).

import (
	"bufio"
	"encoding/json"
	"fmt"
	"os"
	"path/filepath"
	"sort"
	"strings"
)

// ---- parsed trace events ------------------------------------------------------------------------

type tElem struct {
	Tag    string   `json:"tag"`
	Prefix string   `json:"prefix"`
	Name   string   `json:"name"`
	Self   string   `json:"self"`
	Idx    []string `json:"idx"`
	Val    string   `json:"val"`
	Old    *string  `json:"old,omitempty"`
}

type tEvent struct {
	Key     string         `json:"key"`
	Elems   []tElem        `json:"elems"`
	Clock   map[string]int `json:"clock"`
	IsAbort bool           `json:"is_abort"`
	File    string         `json:"file"`
	Line    int            `json:"line"`
}

type rawEvent struct {
	ArchetypeName string `json:"archetypeName"`
	Self          string `json:"self"`
	CsElements    []struct {
		Tag  string `json:"tag"`
		Name struct {
			Prefix string `json:"prefix"`
			Name   string `json:"name"`
			Self   string `json:"self"`
		} `json:"name"`
		Indices  []string `json:"indices"`
		Value    string   `json:"value"`
		OldValue *string  `json:"oldValue"`
	} `json:"csElements"`
	Clock   [][]json.RawMessage `json:"clock"`
	IsAbort *bool               `json:"isAbort"`
}

func parseClock(raw [][]json.RawMessage) (map[string]int, error) {
	out := map[string]int{}
	for _, pair := range raw {
		if len(pair) != 2 {
			return nil, fmt.Errorf("clock pair of length %d", len(pair))
		}
		var id []string
		var n int
		if err := json.Unmarshal(pair[0], &id); err != nil || len(id) != 2 {
			return nil, fmt.Errorf("bad clock key %s", pair[0])
		}
		if err := json.Unmarshal(pair[1], &n); err != nil {
			return nil, fmt.Errorf("bad clock value %s", pair[1])
		}
		k := id[0] + "/" + id[1]
		if _, dup := out[k]; dup {
			return nil, fmt.Errorf("duplicate clock key %s", k)
		}
		out[k] = n
	}
	return out, nil
}

func parseClockJSON(raw json.RawMessage) map[string]int {
	if len(raw) == 0 {
		return nil
	}
	var pairs [][]json.RawMessage
	if json.Unmarshal(raw, &pairs) != nil {
		return nil
	}
	m, _ := parseClock(pairs)
	return m
}

// parseTraceDir reads every log file under dir; events are grouped per archetype key in file order.
func parseTraceDir(dir string) (byKey map[string][]tEvent, problems []string) {
	byKey = map[string][]tEvent{}
	files, _ := filepath.Glob(filepath.Join(dir, "*.log"))
	sort.Strings(files)
	fileOf := map[string]string{}
	for _, f := range files {
		fh, err := os.Open(f)
		if err != nil {
			problems = append(problems, err.Error())
			continue
		}
		sc := bufio.NewScanner(fh)
		sc.Buffer(make([]byte, 1<<20), 1<<28)
		line := 0
		for sc.Scan() {
			line++
			txt := strings.TrimSpace(sc.Text())
			if txt == "" {
				continue
			}
			var re rawEvent
			if err := json.Unmarshal([]byte(txt), &re); err != nil {
				problems = append(problems, fmt.Sprintf("%s:%d: not JSON: %v", filepath.Base(f), line, err))
				continue
			}
			ev := tEvent{Key: re.ArchetypeName + "/" + re.Self, File: filepath.Base(f), Line: line}
			if re.IsAbort == nil {
				problems = append(problems, fmt.Sprintf("%s:%d: no isAbort field", filepath.Base(f), line))
			} else {
				ev.IsAbort = *re.IsAbort
			}
			clk, err := parseClock(re.Clock)
			if err != nil {
				problems = append(problems, fmt.Sprintf("%s:%d: %v", filepath.Base(f), line, err))
			}
			ev.Clock = clk
			for _, e := range re.CsElements {
				ev.Elems = append(ev.Elems, tElem{Tag: e.Tag, Prefix: e.Name.Prefix, Name: e.Name.Name, Self: e.Name.Self, Idx: e.Indices, Val: e.Value, Old: e.OldValue})
			}
			if prev, ok := fileOf[ev.Key]; ok && prev != ev.File {
				problems = append(problems, fmt.Sprintf("events of %s spread over files %s and %s", ev.Key, prev, ev.File))
			}
			fileOf[ev.Key] = ev.File
			byKey[ev.Key] = append(byKey[ev.Key], ev)
		}
		fh.Close()
	}
	return
}

func readGT(path string) (recs []gtRec, complete bool, err error) {
	fh, err := os.Open(path)
	if err != nil {
		return nil, false, err
	}
	defer fh.Close()
	sc := bufio.NewScanner(fh)
	sc.Buffer(make([]byte, 1<<20), 1<<28)
	for sc.Scan() {
		var r gtRec
		if json.Unmarshal(sc.Bytes(), &r) != nil {
			continue
		}
		if r.Kind == "end" {
			complete = true
			continue
		}
		recs = append(recs, r)
	}
	return recs, complete, sc.Err()
}

// ---- ground truth structure ---------------------------------------------------------------------

type attempt struct {
	Att      int
	Label    string
	Ops      []gtRec // body-level operations
	Res      []gtRec // resource-level calls
	Outcome  string  // commit | abort | "" (hard error / still running)
	Due      bool    // the runtime went on after the attempt ended: its event must have been recorded
	HookElem []elemRec
	HasHook  bool
}

type archGT struct {
	Key      string
	Spec     *ArchSpec
	Attempts []*attempt
	Logged   []*attempt // attempts that committed or aborted, in program order
	Exited   bool
}

type finding struct {
	Key     string `json:"key"`
	Desc    string `json:"desc"`
	Arch    string `json:"arch,omitempty"`
	EventNo int    `json:"event_no,omitempty"` // 1-based index of the event in the archetype's log
	Detail  any    `json:"detail,omitempty"`
}

type caseStats struct {
	Events, AbortEvents, Elements            int
	CrossEdges                               map[string]int // resource kind -> reads whose writer event was identified (other archetype)
	SameArchEdges                            int
	LaterWitnessEdges                        int // edges whose writer learned something after the write in the same section
	MaxHops                                  int
	LocalReadsReplayed, HintsChecked         int
	SharedHintsChecked                       int
	LengthReads, LengthMsgsIdentified        int
	WrapperElemsCompared, HookEventsCompared int
	UnloggedAttempts                         int // attempts that ended in a hard error (no event expected)
	UnidentifiedReads                        int
	DuplicateDeliveries                      int // identifications skipped because the mailbox delivered some message twice
	AbortKinds                               map[string]int
	Inconsistent                             []string // harness-side inconsistencies => inconclusive
}

type verdict struct {
	Findings []finding
	Stats    caseStats
}

func (v *verdict) add(key, desc, arch string, evNo int, detail any) {
	for _, f := range v.Findings {
		if f.Key == key {
			return // one report per key and case
		}
	}
	v.Findings = append(v.Findings, finding{Key: key, Desc: desc, Arch: arch, EventNo: evNo, Detail: detail})
}

// buildGTSystem: no hand-built bodies; attempts are delimited by the H1 hooks alone. A loop head with a nil error
// starts an attempt; a loop head with the abort error is followed by the abort hook (which ends the current
// attempt) and then by the next attempt.
func buildGTSystem(c *Case, recs []gtRec) (map[string]*archGT, []string) {
	var bad []string
	gts := map[string]*archGT{}
	for i := range c.Archs {
		a := &c.Archs[i]
		gts[a.Key()] = &archGT{Key: a.Key(), Spec: a}
	}
	cur := map[string]*attempt{}
	start := func(g *archGT) {
		at := &attempt{Att: len(g.Attempts) + 1}
		g.Attempts = append(g.Attempts, at)
		cur[g.Key] = at
	}
	for _, r := range recs {
		g := gts[r.A]
		if g == nil {
			continue
		}
		switch r.K {
		case "res":
			if at := cur[r.A]; at != nil {
				at.Res = append(at.Res, r)
			}
		case "h":
			switch r.Ev {
			case "loop", "exit":
				for _, p := range g.Attempts {
					if p.Outcome != "" {
						p.Due = true
					}
				}
				if r.Ev == "loop" && r.Err == "" {
					start(g)
				}
				if r.Ev == "exit" {
					g.Exited = true
				}
			case "commit", "abort":
				at := cur[r.A]
				if at == nil || at.Outcome != "" {
					bad = append(bad, fmt.Sprintf("%s hook %s without a fresh attempt", r.A, r.Ev))
					continue
				}
				at.Outcome, at.HookElem, at.HasHook = r.Ev, r.Elems, true
				if r.Ev == "abort" {
					start(g)
				}
			}
		}
	}
	for _, g := range gts {
		for _, at := range g.Attempts {
			if at.Outcome != "" {
				g.Logged = append(g.Logged, at)
			}
		}
	}
	return gts, bad
}

func buildGT(c *Case, recs []gtRec) (map[string]*archGT, []string) {
	if c.System != "" {
		return buildGTSystem(c, recs)
	}
	var bad []string
	gts := map[string]*archGT{}
	for i := range c.Archs {
		a := &c.Archs[i]
		gts[a.Key()] = &archGT{Key: a.Key(), Spec: a}
	}
	cur := map[string]*attempt{}
	for _, r := range recs {
		g := gts[r.A]
		if g == nil {
			if r.K == "hang" || r.K == "panic" {
				continue
			}
			bad = append(bad, fmt.Sprintf("record for unknown archetype %q", r.A))
			continue
		}
		switch r.K {
		case "att":
			if p := cur[r.A]; p != nil && p.Outcome == "" {
				bad = append(bad, fmt.Sprintf("%s attempt %d has no outcome but is followed by attempt %d", r.A, p.Att, r.Att))
			}
			at := &attempt{Att: r.Att, Label: r.Label}
			g.Attempts = append(g.Attempts, at)
			cur[r.A] = at
		case "op":
			if at := cur[r.A]; at != nil && at.Att == r.Att {
				at.Ops = append(at.Ops, r)
			} else {
				bad = append(bad, fmt.Sprintf("%s op outside attempt", r.A))
			}
		case "res":
			if at := cur[r.A]; at != nil && at.Att == r.Att {
				at.Res = append(at.Res, r)
			}
		case "h":
			at := cur[r.A]
			switch r.Ev {
			case "commit", "abort":
				if at == nil || at.Outcome != "" {
					bad = append(bad, fmt.Sprintf("%s hook %s without a fresh attempt", r.A, r.Ev))
					continue
				}
				at.Outcome, at.HookElem, at.HasHook = r.Ev, r.Elems, true
			case "loop", "exit":
				for _, p := range g.Attempts {
					if p.Outcome != "" {
						p.Due = true
					}
				}
				if r.Ev == "exit" {
					g.Exited = true
				}
			}
		}
	}
	for _, g := range gts {
		for _, at := range g.Attempts {
			if at.Outcome != "" {
				g.Logged = append(g.Logged, at)
			}
		}
	}
	return gts, bad
}

// ---- helpers ------------------------------------------------------------------------------------

type cmpElem struct {
	Tag, Prefix, Name string
	Idx               []string
	Val               string
}

func (e cmpElem) String() string {
	return fmt.Sprintf("%s %s.%s%v = %s", e.Tag, e.Prefix, e.Name, e.Idx, e.Val)
}

func canonIdx(idx []string) []string {
	out := make([]string, len(idx))
	for i, s := range idx {
		out[i] = canonText(s)
	}
	return out
}

func sameIdx(a, b []string) bool {
	if len(a) != len(b) {
		return false
	}
	for i := range a {
		if a[i] != b[i] {
			return false
		}
	}
	return true
}

func (e cmpElem) eq(o cmpElem) bool {
	return e.Tag == o.Tag && e.Prefix == o.Prefix && e.Name == o.Name && sameIdx(e.Idx, o.Idx) && e.Val == o.Val
}

func fromTElems(es []tElem) []cmpElem {
	out := make([]cmpElem, len(es))
	for i, e := range es {
		out[i] = cmpElem{e.Tag, e.Prefix, e.Name, canonIdx(e.Idx), canonText(e.Val)}
	}
	return out
}

func isSubseq(small, big []cmpElem) (bool, int) {
	j := 0
	firstMissing := -1
	for i := range big {
		if j < len(small) && small[j].eq(big[i]) {
			j++
		} else if firstMissing < 0 {
			firstMissing = i
		}
	}
	return j == len(small), firstMissing
}

// diffShape names how got differs from want (structural, for the finding key).
func diffShape(got, want []cmpElem) string {
	if len(got) < len(want) {
		if ok, at := isSubseq(got, want); ok {
			s := "missing-" + want[at].Tag
			if len(want[at].Idx) > 0 {
				s += "-indexed"
			}
			return s
		}
	}
	if len(got) > len(want) {
		if ok, at := isSubseq(want, got); ok {
			return "extra-" + got[at].Tag
		}
	}
	for i := 0; i < len(got) && i < len(want); i++ {
		g, w := got[i], want[i]
		if g.eq(w) {
			continue
		}
		switch {
		case g.Tag != w.Tag:
			return "wrong-tag-or-order"
		case g.Prefix != w.Prefix || g.Name != w.Name:
			return "wrong-name"
		case !sameIdx(g.Idx, w.Idx):
			return "wrong-indices"
		default:
			return "wrong-value"
		}
	}
	return "length-differs"
}

func dominates(a, b map[string]int) (bool, []string) {
	var missing []string
	for k, n := range b {
		if a[k] < n {
			missing = append(missing, k)
		}
	}
	sort.Strings(missing)
	return len(missing) == 0, missing
}

func resKind(name string) string {
	switch {
	case name == "net":
		return "tcpmailbox"
	case name == "rnet":
		return "relaxedmailbox"
	case name == "nlen":
		return "tcpmailbox-length"
	case name == "rlen":
		return "relaxedmailbox-length"
	case name == "ic":
		return "chan"
	case strings.HasPrefix(name, "sh"):
		return "localshared"
	case strings.HasPrefix(name, "oc"):
		return "chan"
	case name == "flt":
		return "fault"
	}
	return "local"
}

func hopsOf(v mv) int {
	d := 0
	for v.K == mvTuple && len(v.L) == 5 && v.L[0].K == mvNum && v.L[1].K == mvStr {
		d++
		v = v.L[4]
	}
	return d
}

type writeRef struct {
	Arch string
	Att  int
	Op   int
	Res  string
	Clk  map[string]int // sink clock right before the write
}

// ---- the oracle ---------------------------------------------------------------------------------

func evaluate(c *Case, recs []gtRec, events map[string][]tEvent, parseProblems []string) *verdict {
	v := &verdict{}
	st := &v.Stats
	st.CrossEdges = map[string]int{}
	st.AbortKinds = map[string]int{}
	for _, p := range parseProblems {
		v.add("C18:trace:log-malformed", "trace log could not be parsed back: "+p, "", 0, nil)
	}
	gts, bad := buildGT(c, recs)
	st.Inconsistent = bad

	keys := make([]string, 0, len(gts))
	for k := range gts {
		keys = append(keys, k)
	}
	sort.Strings(keys)
	for k := range events {
		if gts[k] == nil {
			v.add("C18:trace:event-of-unknown-archetype", "the trace directory holds events of "+k+", which is not an archetype of the case", k, 0, nil)
		}
	}

	// Events and attempts correspond by position. When an archetype's event count is wrong (an event missing,
	// duplicated or spurious: reported once by oracle (i)), positions are only trusted up to the first event whose
	// elements no longer match the attempt at the same position, so that one lost event is not reported again as
	// hundreds of element/clock mismatches.
	aligned := map[string]int{}
	for k, g := range gts {
		evs := events[k]
		n := min(len(evs), len(g.Logged))
		aligned[k] = n
		if len(evs) == len(g.Logged) {
			continue
		}
		for i := 0; i < n; i++ {
			if !elemsEq(fromTElems(evs[i].Elems), expectedElems(c, g, g.Logged[i])) {
				aligned[k] = i
				break
			}
		}
	}
	// attempt -> event (by position among logged attempts)
	eventOf := func(a string, att int) (*tEvent, int) {
		g := gts[a]
		if g == nil {
			return nil, -1
		}
		for i, at := range g.Logged {
			if at.Att == att {
				if i < aligned[a] {
					return &events[a][i], i
				}
				return nil, -1
			}
		}
		return nil, -1
	}

	// every envelope written anywhere, by canonical text
	writes := map[string]writeRef{}
	for _, k := range keys {
		for _, at := range gts[k].Attempts {
			for _, op := range at.Ops {
				if op.T == "write" && op.Name != ".pc" && op.Err == "" {
					writes[canonText(op.Val)] = writeRef{Arch: k, Att: at.Att, Op: op.I, Res: op.Name, Clk: parseClockJSON(op.Clk)}
				}
			}
		}
	}

	for _, k := range keys {
		g := gts[k]
		evs := events[k]
		st.Events += len(evs)
		// (i) bijection attempts <-> events, in program order, isAbort matching
		due := 0
		for _, at := range g.Logged {
			if at.Due {
				due++
			}
		}
		for _, at := range g.Attempts {
			if at.Outcome == "" && c.System == "" {
				st.UnloggedAttempts++
			}
		}
		if len(evs) > len(g.Logged) {
			v.add("C18:trace:extra-event", fmt.Sprintf("%s: %d events logged for %d attempts that committed or aborted", k, len(evs), len(g.Logged)), k, len(g.Logged)+1,
				map[string]any{"events": len(evs), "attempts": len(g.Logged), "first_extra": evs[len(g.Logged)]})
		}
		if len(evs) < due {
			first := g.Logged[len(evs)]
			v.add("C18:trace:missing-event:"+first.Outcome, fmt.Sprintf("%s: attempt %d (%s, %s) ended and the archetype went on, but only %d events were logged for %d such attempts",
				k, first.Att, first.Label, first.Outcome, len(evs), due), k, len(evs)+1, map[string]any{"attempt": first.Att, "label": first.Label, "ops": first.Ops})
		}
		n := aligned[k]
		locals := newLocalState(g.Spec)
		prevClock := map[string]int{}
		for i := 0; i < n; i++ {
			ev, at := &evs[i], g.Logged[i]
			st.Elements += len(ev.Elems)
			if ev.IsAbort {
				st.AbortEvents++
			}
			if ev.IsAbort != (at.Outcome == "abort") {
				v.add("C18:trace:isabort-mismatch:"+at.Outcome, fmt.Sprintf("%s event %d: attempt %d %sed but the event says isAbort=%v", k, i+1, at.Att, at.Outcome, ev.IsAbort), k, i+1, ev)
			}
			if at.Outcome == "abort" {
				st.AbortKinds[abortKind(at)]++
			}
			// (ii) element-wise equality with what the body performed
			want := expectedElems(c, g, at)
			got := fromTElems(ev.Elems)
			if shape := diffShape(got, want); c.System == "" && !elemsEq(got, want) {
				v.add("C18:trace:elements-mismatch:"+shape, fmt.Sprintf("%s event %d (attempt %d, %s): logged elements differ from the operations the attempt performed", k, i+1, at.Att, at.Label),
					k, i+1, map[string]any{"logged": strElems(got), "performed": strElems(want), "file": ev.File, "line": ev.Line})
			}
			for _, e := range ev.Elems {
				if e.Self != g.Spec.selfText() {
					v.add("C18:trace:element-self-mismatch", fmt.Sprintf("%s event %d: element self %s", k, i+1, e.Self), k, i+1, ev)
				}
			}
			// (ii-b) against the calls the runtime made on wrapped resources
			var wantRes, gotRes []cmpElem
			for _, rc := range at.Res {
				if rc.Err != "" {
					continue
				}
				switch rc.Call {
				case "ReadValue":
					wantRes = append(wantRes, cmpElem{"read", g.Spec.Name, rc.Res, canonIdx(rc.Idx), canonText(rc.Val)})
				case "WriteValue":
					wantRes = append(wantRes, cmpElem{"write", g.Spec.Name, rc.Res, canonIdx(rc.Idx), canonText(rc.Val)})
				}
			}
			for _, e := range got {
				if e.Prefix == g.Spec.Name && g.Spec.isWrapped(e.Name) {
					gotRes = append(gotRes, e)
				}
			}
			st.WrapperElemsCompared += len(wantRes)
			if !elemsEq(gotRes, wantRes) {
				v.add("C18:trace:elements-differ-from-resource-calls:"+diffShape(gotRes, wantRes), fmt.Sprintf("%s event %d (attempt %d): logged elements differ from the successful ReadValue/WriteValue calls on the resources", k, i+1, at.Att),
					k, i+1, map[string]any{"logged": strElems(gotRes), "resource_calls": strElems(wantRes)})
			}
			// (ii-c) against the in-flight elements seen by the H1/H3 hook when the attempt ended
			if at.HasHook {
				var hk []cmpElem
				for _, e := range at.HookElem {
					hk = append(hk, cmpElem{e.Tag, e.Prefix, e.Name, canonIdx(e.Idx), canonText(e.Val)})
				}
				st.HookEventsCompared++
				if !elemsEq(got, hk) {
					v.add("C18:trace:logged-differs-from-inflight:"+diffShape(got, hk), fmt.Sprintf("%s event %d: logged elements differ from the elements in flight at the %s point", k, i+1, at.Outcome),
						k, i+1, map[string]any{"logged": strElems(got), "in_flight": strElems(hk)})
				}
			}
			// (iii) replay of archetype-local state from the log alone
			locals.replay(v, k, i+1, ev)
			// (iv) own component = index of the event; clocks never regress; nothing from the future
			if ev.Clock[k] != i+1 {
				v.add("C18:vclock:own-component-not-attempt-index", fmt.Sprintf("%s event %d carries own clock component %d", k, i+1, ev.Clock[k]), k, i+1,
					map[string]any{"clock": ev.Clock, "is_abort": ev.IsAbort, "prev_clock": prevClock})
			}
			if ok, miss := dominates(ev.Clock, prevClock); !ok {
				v.add("C18:vclock:clock-regressed", fmt.Sprintf("%s event %d: clock lost components %v of the previous event", k, i+1, miss), k, i+1,
					map[string]any{"clock": ev.Clock, "prev_clock": prevClock})
			}
			prevClock = ev.Clock
			for ck, cn := range ev.Clock {
				og := gts[ck]
				if og == nil {
					v.add("C18:vclock:unknown-component", fmt.Sprintf("%s event %d: clock names %s, which is not an archetype of the case", k, i+1, ck), k, i+1, ev.Clock)
					continue
				}
				if ck != k && cn > len(og.Attempts)+1 {
					v.add("C18:vclock:component-from-future", fmt.Sprintf("%s event %d: clock component %s=%d but that archetype made %d attempts", k, i+1, ck, cn, len(og.Attempts)), k, i+1, ev.Clock)
				}
			}
			// (vi) no causality cycle between two events
			for ck, cn := range ev.Clock {
				if ck == k || cn < 1 || cn > aligned[ck] {
					continue
				}
				other := events[ck][cn-1]
				if other.Clock[k] >= i+1 {
					v.add("C18:vclock:causality-cycle", fmt.Sprintf("%s event %d knows %s event %d and vice versa", k, i+1, ck, cn), k, i+1,
						map[string]any{"clock": ev.Clock, "other_clock": other.Clock})
				}
			}
			// (v) reader dominates writer
			v.checkReads(c, gts, events, writes, eventOf, g, i, at, ev)
		}
	}
	checkSharedHints(c, v, gts, recs, events, aligned)
	if c.System != "" {
		v.checkSystemEdges(c, gts, events, aligned)
	}
	return v
}

// expectedElems: what the event of the attempt must contain — from the hand-built body's own log, or (system cases,
// no such log) the elements that were in flight when the H1 hook saw the attempt end.
func expectedElems(c *Case, g *archGT, at *attempt) []cmpElem {
	if c.System != "" {
		var hk []cmpElem
		for _, e := range at.HookElem {
			hk = append(hk, cmpElem{e.Tag, e.Prefix, e.Name, canonIdx(e.Idx), canonText(e.Val)})
		}
		return hk
	}
	want := []cmpElem{{"read", "", ".pc", []string{}, canonText(fmt.Sprintf("%q", at.Label))}}
	for _, op := range at.Ops {
		if op.Err == "" {
			want = append(want, cmpElem{op.T, op.Pre, op.Name, canonIdx(op.Idx), canonText(op.Val)})
		}
	}
	return want
}

func elemsEq(a, b []cmpElem) bool {
	if len(a) != len(b) {
		return false
	}
	for i := range a {
		if !a[i].eq(b[i]) {
			return false
		}
	}
	return true
}

func strElems(es []cmpElem) []string {
	out := make([]string, len(es))
	for i, e := range es {
		out[i] = e.String()
	}
	return out
}

func abortKind(at *attempt) string {
	for _, op := range at.Ops {
		if op.Err == "abort" {
			return "op:" + resKind(op.Name) + ":" + op.T
		}
	}
	if len(at.Ops) > 0 && at.Ops[len(at.Ops)-1].Name == ".pc" {
		return "precommit"
	}
	for _, rc := range at.Res {
		if rc.Err == "abort" {
			return "res:" + rc.Res + ":" + rc.Call
		}
	}
	return "await"
}

// ---- (iii) local state replay -------------------------------------------------------------------

type localState struct {
	spec  *ArchSpec
	state map[string]mv // "prefix.name"
}

func newLocalState(a *ArchSpec) *localState {
	ls := &localState{spec: a, state: map[string]mv{}}
	for _, l := range a.Locals {
		ls.state[a.Name+"."+l.Name] = l.Init.toMV()
	}
	ls.state["..pc"] = mv{K: mvStr, S: a.Name + "." + a.Labels[0].Name}
	return ls
}

func (ls *localState) replay(v *verdict, k string, evNo int, ev *tEvent) {
	work := map[string]mv{}
	for n, x := range ls.state {
		work[n] = x
	}
	written := map[string]bool{}
	for ei, e := range ev.Elems {
		name := e.Prefix + "." + e.Name
		cur, ok := work[name]
		if !ok {
			continue // not archetype-local state
		}
		kind := "local"
		if e.Name == ".pc" {
			kind = "pc"
		}
		var path []mv
		okPath := true
		for _, s := range e.Idx {
			p, err := parseTLA(s)
			if err != nil {
				okPath = false
			}
			path = append(path, p)
		}
		val, err := parseTLA(e.Val)
		if err != nil || !okPath {
			v.add("C18:trace:value-unparsable", fmt.Sprintf("%s event %d element %d: %v", k, evNo, ei, err), k, evNo, e)
			continue
		}
		at, aerr := cur.apply(path)
		switch e.Tag {
		case "read":
			v.Stats.LocalReadsReplayed++
			if aerr != nil || at.canon() != val.canon() {
				shape := "plain"
				if len(path) > 0 {
					shape = "indexed"
				}
				v.add("C18:replay:read-mismatch:"+kind+":"+shape, fmt.Sprintf("%s event %d: logged read of %s%v = %s, but replaying the committed writes gives %s", k, evNo, name, e.Idx, val.canon(), at.canon()),
					k, evNo, map[string]any{"element": e, "replayed": at.canon(), "apply_error": fmt.Sprint(aerr)})
			}
		case "write":
			shape := "plain"
			if len(path) > 0 {
				shape = "indexed"
			}
			if written[name] {
				shape += "-chain"
			}
			v.Stats.HintsChecked++
			if e.Old == nil {
				v.add("C18:hint:missing:"+kind+":"+shape, fmt.Sprintf("%s event %d: write to %s%v carries no previous-value hint", k, evNo, name, e.Idx), k, evNo, e)
			} else if aerr == nil && canonText(*e.Old) != at.canon() {
				v.add("C18:hint:wrong:"+kind+":"+shape, fmt.Sprintf("%s event %d: write to %s%v has previous-value hint %s but the variable held %s", k, evNo, name, e.Idx, canonText(*e.Old), at.canon()),
					k, evNo, map[string]any{"element": e, "replayed_previous": at.canon()})
			}
			nv, serr := cur.subst(path, val)
			if serr != nil {
				v.Stats.Inconsistent = append(v.Stats.Inconsistent, fmt.Sprintf("%s event %d: cannot replay write %s%v: %v", k, evNo, name, e.Idx, serr))
				continue
			}
			work[name] = nv
			written[name] = true
		}
	}
	if !ev.IsAbort {
		ls.state = work
	}
}

// ---- (v) dominance ------------------------------------------------------------------------------

func (v *verdict) checkReads(c *Case, gts map[string]*archGT, events map[string][]tEvent, writes map[string]writeRef,
	eventOf func(string, int) (*tEvent, int), g *archGT, i int, at *attempt, ev *tEvent) {
	k := g.Key
	check := func(kind string, valText string, viaLength bool) {
		w, ok := writes[valText]
		if !ok {
			return
		}
		if w.Arch == k && w.Att == at.Att {
			return // own write in the same attempt
		}
		wev, wi := eventOf(w.Arch, w.Att)
		if wev == nil {
			v.Stats.UnidentifiedReads++
			return
		}
		v.checkEdge(kind, k, i, ev, w.Arch, wi, wev, w.Clk, w.Res, valText, viaLength)
	}
	for _, e := range ev.Elems {
		if e.Tag != "read" || e.Prefix != g.Spec.Name {
			continue
		}
		kind := resKind(e.Name)
		if kind == "fault" {
			continue
		}
		if kind == "tcpmailbox-length" || kind == "relaxedmailbox-length" {
			continue // handled below from the resource-level log
		}
		val, err := parseTLA(e.Val)
		if err != nil {
			continue
		}
		if h := hopsOf(val); h > v.Stats.MaxHops {
			v.Stats.MaxHops = h
		}
		check(kind, val.canon(), false)
	}
	// mailbox length: the reader observed the first n undelivered messages of its mailbox
	for _, rc := range at.Res {
		if rc.Call != "ReadValue" || rc.Err != "" || (rc.Res != "nlen" && rc.Res != "rlen") {
			continue
		}
		v.Stats.LengthReads++
		nv, err := parseTLA(rc.Val)
		if err != nil || nv.K != mvNum || nv.N <= 0 {
			continue
		}
		box := map[string]string{"nlen": "net", "rlen": "rnet"}[rc.Res]
		msgs, dup := pendingMessages(g, box, at, rc.Seq, int(nv.N))
		if dup {
			v.Stats.DuplicateDeliveries++
		}
		for _, m := range msgs {
			v.Stats.LengthMsgsIdentified++
			check(resKind(rc.Res), m, true)
		}
	}
}

// checkEdge: the reader's event must dominate the writer's event (statement, read literally).
func (v *verdict) checkEdge(kind, k string, i int, ev *tEvent, wArch string, wi int, wev *tEvent, wClk map[string]int, wRes, valText string, viaLength bool) {
	if wArch == k {
		v.Stats.SameArchEdges++
	} else {
		v.Stats.CrossEdges[kind]++
	}
	later := false
	if ok, _ := dominates(wClk, wev.Clock); !ok && wArch != k {
		later = true
		v.Stats.LaterWitnessEdges++
	}
	ok, missing := dominates(ev.Clock, wev.Clock)
	if ok {
		return
	}
	shape := "reader-misses-write-time-knowledge"
	if ev.Clock[wArch] < wev.Clock[wArch] {
		shape = "reader-misses-writer-own-component"
	} else if d, _ := dominates(ev.Clock, wClk); d && later {
		shape = "reader-misses-writer-later-witness"
	}
	v.add("C18:vclock:"+shape+":"+kind,
		fmt.Sprintf("%s event %d read (%s) a value written by %s event %d, but its clock lacks %v of the writer's logged clock", k, i+1, kind, wArch, wi+1, missing),
		k, i+1, map[string]any{"reader_clock": ev.Clock, "writer_clock": wev.Clock, "writer_clock_at_write": wClk, "value": valText,
			"writer": wArch, "writer_event": wi + 1, "writer_resource": wRes, "missing": missing, "via_length": viaLength,
			"writer_elements": strElems(fromTElems(wev.Elems)), "reader_elements": strElems(fromTElems(ev.Elems))})
}

// checkSystemEdges (system cases): values are not unique, so messages are identified positionally: the k-th committed
// write of value x to mailbox d (when only one archetype ever writes x to d) is the k-th committed read of x from d.
func (v *verdict) checkSystemEdges(c *Case, gts map[string]*archGT, events map[string][]tEvent, aligned map[string]int) {
	type ref struct {
		arch string
		ev   int // index among logged attempts
		clk  map[string]int
		res  string
	}
	type key struct{ dest, val string }
	wr := map[key][]ref{}
	writers := map[key]map[string]bool{}
	rd := map[key][]ref{}
	selfKey := map[string]string{}
	for _, a := range c.Archs {
		selfKey[a.selfText()] = a.Key()
	}
	kind := map[string]string{"dqueue": "tcpmailbox", "locksvc": "relaxedmailbox"}[c.System]
	for ak, g := range gts {
		for li, at := range g.Logged {
			if at.Outcome != "commit" {
				continue
			}
			for _, rc := range at.Res {
				if (rc.Res != "net" && rc.Res != "network") || rc.Err != "" || len(rc.Idx) != 1 {
					continue
				}
				kk := key{canonText(rc.Idx[0]), canonText(rc.Val)}
				switch rc.Call {
				case "WriteValue":
					wr[kk] = append(wr[kk], ref{ak, li, parseClockJSON(rc.Clk), rc.Res})
					if writers[kk] == nil {
						writers[kk] = map[string]bool{}
					}
					writers[kk][ak] = true
				case "ReadValue":
					rd[kk] = append(rd[kk], ref{ak, li, parseClockJSON(rc.Clk), rc.Res})
				}
			}
		}
	}
	for kk, reads := range rd {
		if len(writers[kk]) != 1 {
			v.Stats.UnidentifiedReads += len(reads)
			continue
		}
		ws := wr[kk]
		for n, r := range reads {
			if n >= len(ws) || r.ev >= aligned[r.arch] || ws[n].ev >= aligned[ws[n].arch] {
				v.Stats.UnidentifiedReads++
				continue
			}
			w := ws[n]
			// the clock carried by the value names the writer's attempt; if it disagrees with the position, the
			// mailbox duplicated or reordered something (another property's concern) and the pairing is unknown
			if own, has := r.clk[w.arch]; has && own != w.ev+1 {
				v.Stats.UnidentifiedReads++
				v.Stats.DuplicateDeliveries++
				continue
			}
			v.checkEdge(kind, r.arch, r.ev, &events[r.arch][r.ev], w.arch, w.ev, &events[w.arch][w.ev], w.clk, w.res, kk.val, false)
		}
	}
}

// pendingMessages lists (canonical text of) the first n messages of the mailbox that had not been consumed at time seq:
// messages in first-delivery order, minus those read earlier by a committed attempt or earlier in this attempt.
func pendingMessages(g *archGT, box string, cur *attempt, seq int64, n int) (out []string, duplicates bool) {
	type info struct {
		gone      bool
		committed int
	}
	var order []string
	seen := map[string]*info{}
	for _, at := range g.Attempts {
		inAttempt := map[string]bool{}
		for _, rc := range at.Res {
			if rc.Res != box || rc.Call != "ReadValue" || rc.Err != "" {
				continue
			}
			m := canonText(rc.Val)
			inf := seen[m]
			if inf == nil {
				inf = &info{}
				seen[m] = inf
				order = append(order, m)
			}
			// the same message twice in one attempt, or consumed by two committed attempts: the mailbox delivered a
			// duplicate (exactly-once delivery is another property's concern); positions can then not be trusted
			if inAttempt[m] {
				duplicates = true
			}
			inAttempt[m] = true
			if at.Outcome == "commit" {
				inf.committed++
				if inf.committed > 1 {
					duplicates = true
				}
			}
			if rc.Seq < seq && (at == cur || at.Outcome == "commit") {
				inf.gone = true
			}
		}
	}
	if duplicates {
		return nil, true
	}
	for _, m := range order {
		if len(out) == n {
			break
		}
		if !seen[m].gone {
			out = append(out, m)
		}
	}
	return out, false
}

// ---- previous-value hints of LocalShared variables ----------------------------------------------

// The wrappers log every call under the variable's lock (Commit/Abort are logged before the lock is released), so
// the resource-level records of one shared variable are a serial history of sections.
func checkSharedHints(c *Case, v *verdict, gts map[string]*archGT, recs []gtRec, events map[string][]tEvent, aligned map[string]int) {
	type secKey struct {
		a   string
		att int
	}
	for _, sh := range c.Shared {
		cur := sh.Init.toMV()
		work := map[secKey]mv{}
		expect := map[secKey][]string{} // expected hints of the section's writes to this variable, in order
		for _, r := range recs {
			if r.K != "res" || r.Res != sh.Name {
				continue
			}
			sk := secKey{r.A, r.Att}
			if _, ok := work[sk]; !ok && (r.Call == "ReadValue" || r.Call == "WriteValue") && r.Err == "" {
				work[sk] = cur
			}
			switch r.Call {
			case "WriteValue":
				if r.Err != "" {
					continue
				}
				var path []mv
				for _, s := range r.Idx {
					p, _ := parseTLA(s)
					path = append(path, p)
				}
				old, err := work[sk].apply(path)
				if err != nil {
					expect[sk] = append(expect[sk], "?")
					continue
				}
				expect[sk] = append(expect[sk], old.canon())
				nv, _ := parseTLA(r.Val)
				if w2, err := work[sk].subst(path, nv); err == nil {
					work[sk] = w2
				}
			case "Commit":
				if w, ok := work[sk]; ok {
					cur = w
					delete(work, sk)
				}
			case "Abort":
				delete(work, sk)
			}
		}
		for sk, hints := range expect {
			g := gts[sk.a]
			if g == nil {
				continue
			}
			for i, at := range g.Logged {
				if at.Att != sk.att || i >= aligned[sk.a] {
					continue
				}
				ev := events[sk.a][i]
				j := 0
				for _, e := range ev.Elems {
					if e.Tag != "write" || e.Prefix != g.Spec.Name || e.Name != sh.Name {
						continue
					}
					if j < len(hints) && hints[j] != "?" {
						v.Stats.SharedHintsChecked++
						if e.Old == nil {
							v.add("C18:hint:missing:localshared", fmt.Sprintf("%s event %d: write to shared %s carries no previous-value hint", sk.a, i+1, sh.Name), sk.a, i+1, e)
						} else if canonText(*e.Old) != hints[j] {
							v.add("C18:hint:wrong:localshared", fmt.Sprintf("%s event %d: write to shared %s%v has previous-value hint %s but the variable held %s", sk.a, i+1, sh.Name, e.Idx, canonText(*e.Old), hints[j]),
								sk.a, i+1, map[string]any{"element": e, "expected": hints[j]})
						}
					}
					j++
				}
			}
		}
	}
}

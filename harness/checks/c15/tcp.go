package main

import (
	"fmt"
	"net"
	"os"
	"regexp"
	"strconv"
	"sync"

	"verifh/adapters"
	"verifh/common"

	"github.com/DistCompiler/pgo/distsys"
	"github.com/DistCompiler/pgo/distsys/resources"
	"github.com/DistCompiler/pgo/distsys/tla"
	"github.com/DistCompiler/pgo/distsys/trace"
	"github.com/DistCompiler/pgo/systems/locksvc"
)

// lockRes is the harness hasLock[self] cell: a plain transactional boolean.
type lockRes struct {
	distsys.ArchetypeResourceLeafMixin
	cur, old bool
	client   int
	log      func(map[string]any)
}

func (l *lockRes) Abort(distsys.ArchetypeInterface) chan struct{} {
	l.cur = l.old
	l.log(map[string]any{"kind": "lockabort", "client": l.client, "val": l.cur})
	return nil
}
func (l *lockRes) PreCommit(distsys.ArchetypeInterface) chan error { return nil }
func (l *lockRes) Commit(distsys.ArchetypeInterface) chan struct{} { l.old = l.cur; return nil }
func (l *lockRes) ReadValue(distsys.ArchetypeInterface) (tla.Value, error) {
	return tla.MakeBool(l.cur), nil
}
func (l *lockRes) WriteValue(_ distsys.ArchetypeInterface, v tla.Value) error {
	l.cur = v.AsBool()
	l.log(map[string]any{"kind": "lockwrite", "client": l.client, "val": l.cur})
	return nil
}
func (l *lockRes) Close() error { return nil }

type nullRec struct{}

func (nullRec) RecordEvent(trace.Event) {}

func freePorts(n int) []int {
	var ls []net.Listener
	var ps []int
	for i := 0; i < n; i++ {
		l, err := net.Listen("tcp", "127.0.0.1:0")
		if err != nil {
			panic(err)
		}
		ls = append(ls, l)
		ps = append(ps, l.Addr().(*net.TCPAddr).Port)
	}
	for _, l := range ls {
		l.Close()
	}
	return ps
}

// tcpChild runs the shipped wiring: AServer + N AClients over relaxed mailboxes on 127.0.0.1; every
// commit point (H1: all pre-commits done, commits not yet issued) is logged under one mutex.
func tcpChild() {
	nc, _ := strconv.Atoi(os.Getenv("C15_CLIENTS"))
	seed, _ := strconv.ParseInt(os.Getenv("C15_SEED"), 10, 64)
	w := common.NewJSONLWriter(fmt.Sprintf("%s/tcp-%d.jsonl", os.Getenv("C15_OUT"), seed))
	ports := freePorts(nc + 1)
	addrFn := func(me tla.Value) func(idx tla.Value) (resources.MailboxKind, string) {
		return func(idx tla.Value) (resources.MailboxKind, string) {
			addr := fmt.Sprintf("127.0.0.1:%d", ports[int(idx.AsNumber())])
			if me.Equal(idx) {
				return resources.MailboxesLocal, addr
			}
			return resources.MailboxesRemote, addr
		}
	}
	var mu sync.Mutex
	distsys.VerifExtraConfig = []distsys.MPCalContextConfigFn{distsys.SetTraceRecorder(nullRec{})}
	distsys.VerifHooks.CommitPoint = func(ctx *distsys.MPCalContext, archetype string, self tla.Value, elems []trace.Element) {
		mu.Lock()
		defer mu.Unlock()
		rec := map[string]any{"kind": "commit", "arch": archetype, "self": int(self.AsNumber())}
		var ops []string
		for i, e := range elems {
			switch e := e.(type) {
			case trace.ReadElement:
				if i == 0 && e.Name == ".pc" {
					rec["label"] = e.Value.StripVClock().AsString()
				}
				ops = append(ops, fmt.Sprintf("R %s%v=%s", e.Name, e.Indices, e.Value.StripVClock().String()))
			case trace.WriteElement:
				ops = append(ops, fmt.Sprintf("W %s%v=%s", e.Name, e.Indices, e.Value.StripVClock().String()))
			}
		}
		rec["ops"] = ops
		w.Emit(rec)
	}
	srv := distsys.NewMPCalContext(tla.MakeNumber(0), locksvc.AServer,
		distsys.DefineConstantValue("NumClients", tla.MakeNumber(int32(nc))),
		distsys.EnsureArchetypeRefParam("network", resources.NewRelaxedMailboxes(addrFn(tla.MakeNumber(0)))))
	go func() { _ = srv.Run() }()
	var wg sync.WaitGroup
	errs := make(chan error, nc)
	for c := 1; c <= nc; c++ {
		c := c
		wg.Add(1)
		go func() {
			defer wg.Done()
			id := tla.MakeNumber(int32(c))
			ctx := distsys.NewMPCalContext(id, locksvc.AClient,
				distsys.DefineConstantValue("NumClients", tla.MakeNumber(int32(nc))),
				distsys.EnsureArchetypeRefParam("network", resources.NewRelaxedMailboxes(addrFn(id))),
				distsys.EnsureArchetypeRefParam("hasLock", resources.NewIncMap(func(index tla.Value) distsys.ArchetypeResource {
					return &lockRes{client: c, log: func(m map[string]any) {
						mu.Lock()
						defer mu.Unlock()
						w.Emit(m)
					}}
				})))
			if err := ctx.Run(); err != nil {
				errs <- fmt.Errorf("client %d: %w", c, err)
			}
		}()
	}
	wg.Wait()
	srv.Stop()
	close(errs)
	for e := range errs {
		w.Emit(map[string]any{"kind": "error", "err": e.Error()})
	}
	w.Emit(map[string]any{"kind": "end"})
	w.Close()
}

var reMsg = regexp.MustCompile(`W msg\[\]=\(\("from"\) :> \((\d+)\) @@ \("type"\) :> \((\d+)\)\)`)

// checkTCPLog decides mutual exclusion on the sequence of hasLock writes/rollbacks (taken under one
// mutex as they happen: with relaxed mailboxes a section's send precedes its commit point, so the
// commit-point order of different processes is NOT the order of their effects) and service order
// against the order in which the server's serverReceive sections committed LockMsgs.
func checkTCPLog(recs []map[string]any, nc int) (vs []adapters.Violation, commits int, order []int) {
	cur := map[int]bool{}
	var lockRecv []int
	unlocked := map[int]bool{}
	for _, rec := range recs {
		switch rec["kind"] {
		case "error":
			vs = append(vs, adapters.Violation{Key: "C15:tcp:archetype-error", Desc: fmt.Sprint(rec["err"])})
		case "lockwrite", "lockabort":
			c := int(rec["client"].(float64))
			was := cur[c]
			cur[c] = rec["val"].(bool)
			var holders []int
			for k, v := range cur {
				if v {
					holders = append(holders, k)
				}
			}
			if len(holders) > 1 {
				vs = append(vs, adapters.Violation{Key: "C15:tcp:two-holders", Desc: fmt.Sprintf("hasLock is TRUE at clients %v at once (event seq %v)", holders, rec["seq"])})
			}
			if rec["kind"] == "lockwrite" && cur[c] && !was {
				order = append(order, c)
				if k := len(order); k > len(lockRecv) || lockRecv[k-1] != c {
					vs = append(vs, adapters.Violation{Key: "C15:tcp:service-order", Desc: fmt.Sprintf("client %d took the lock as number %d but the server received lock requests in order %v", c, k, lockRecv)})
				}
			}
			if rec["kind"] == "lockwrite" && !cur[c] && was {
				unlocked[c] = true
			}
		case "commit":
			commits++
			if rec["label"] == "AServer.serverReceive" {
				for _, o := range rec["ops"].([]any) {
					if m := reMsg.FindStringSubmatch(o.(string)); m != nil && m[2] == "1" {
						from, _ := strconv.Atoi(m[1])
						lockRecv = append(lockRecv, from)
					}
				}
			}
		}
	}
	if len(order) != nc || len(unlocked) != nc {
		vs = append(vs, adapters.Violation{Key: "C15:tcp:not-all-served", Desc: fmt.Sprintf("%d of %d clients took the lock, %d released it, though every client ran to completion (server saw lock requests %v)", len(order), nc, len(unlocked), lockRecv)})
	}
	return
}

// C15 — generated lock service: one holder at a time, grants only to waiting clients, FIFO service.
//
// Setting (a) simsched: the shipped locksvc.AServer/AClient archetypes run one attempt at a time over the
// spec's bag network (any delivery order); monitors after every committed step: Safety, grant-only-to-head,
// grant only to a client that requested and was not served, service order = order in which the server
// received the lock requests; a sample of traces is validated by TLC against the shipped locksvc.tla with
// the spec's own Safety invariant.
// Setting (b) real wiring: relaxed mailboxes over TCP as in the repository's test, with a harness hasLock
// resource; mutual exclusion and service order are decided on the commit-point log (H1), not wall-clock.
package main

import (
	"fmt"
	"os"
	"strings"
	"sync"
	"time"

	"verifh/adapters"
	"verifh/common"
)

func main() {
	r := common.Start("C15", "exploration")
	if common.ChildRole() == "tcp" {
		tcpChild()
		return
	}
	if r.Replay != "" {
		replay(r)
		return
	}
	scratch := common.Scratch("c15")
	defer os.RemoveAll(scratch)

	var distinct common.Distinct
	var samples common.SampleKeeper
	samples.N = 4
	runs := r.Pick(300, 20000)
	tlcRuns := r.Pick(3, 40)
	var mu sync.Mutex
	evals, steps, aborts := 0, 0, 0
	labels := map[string]int{}
	type tj struct {
		sim    *adapters.Sim
		states []string
		seed   int64
		nc     int
	}
	var tlcJobs []tj
	common.Parallel(runs, 8, func(i int) {
		seed := r.Seed*1_000_003 + int64(i)
		nc := 1 + i%6
		sim := adapters.Locksvc(seed, nc)
		capture := i < tlcRuns*2 && nc >= 2
		out := sim.Run(2000, capture)
		mu.Lock()
		defer mu.Unlock()
		evals++
		steps += out.Result.Steps
		aborts += out.Result.Aborts
		for l, c := range out.Labels {
			labels[l] += c
		}
		if out.Result.Err != nil && !out.Result.MonitorErr {
			r.Report("C15:sim:archetype-error", fmt.Sprintf("NumClients=%d seed=%d: %v", nc, seed, out.Result.Err),
				map[string]any{"setting": "sim", "num_clients": nc, "seed": seed, "steps": out.StepLog, "error": out.Result.Err.Error()})
		}
		for _, v := range out.Violations {
			r.Report(v.Key, v.Desc, map[string]any{"setting": "sim", "num_clients": nc, "seed": seed, "steps": out.StepLog})
		}
		if nc >= 2 {
			distinct.Add(fmt.Sprintf("%d:%s", nc, out.Signature))
		}
		if i < 4 {
			samples.Add(map[string]any{"setting": "sim", "num_clients": nc, "seed": seed, "commits": out.Result.Steps, "aborted_attempts": out.Result.Aborts, "steps": out.StepLog})
		}
		if capture && len(tlcJobs) < tlcRuns && len(out.States) > 5 {
			tlcJobs = append(tlcJobs, tj{sim, out.States, seed, nc})
		}
	})
	// TLC: the recorded traces must be behaviours of the shipped spec, with Safety as written
	tlcOK := 0
	common.Parallel(len(tlcJobs), 4, func(i int) {
		j := tlcJobs[i]
		v := j.sim.Validate(scratch, j.states, 5*time.Minute)
		mu.Lock()
		defer mu.Unlock()
		switch v.Kind {
		case "ok":
			tlcOK++
		case "step":
			r.Report("C15:tlc:step-not-in-Next", fmt.Sprintf("locksvc trace (NumClients=%d seed=%d): step %d -> %d is not a step of the spec", j.nc, j.seed, v.RejectedAt, v.RejectedAt+1),
				map[string]any{"setting": "sim+tlc", "num_clients": j.nc, "seed": j.seed, "rejected_at": v.RejectedAt, "state_before": j.states[min(v.RejectedAt-1, len(j.states)-1)], "state_after": j.states[min(v.RejectedAt, len(j.states)-1)]})
		case "invariant":
			r.Report("C15:tlc:invariant:"+v.Invariant, fmt.Sprintf("spec invariant %s violated on a recorded state (NumClients=%d seed=%d)", v.Invariant, j.nc, j.seed),
				map[string]any{"setting": "sim+tlc", "detail": v.Detail})
		default:
			r.Inconclusive(fmt.Sprintf("tlc %s: %s", v.Kind, tailStr(v.Detail, 300)))
		}
	})

	// (b) real wiring over TCP
	tcpRuns := r.Pick(2, 40)
	tcpOK, tcpCommits := 0, 0
	for i := 0; i < tcpRuns && r.Violations() == 0; i++ {
		nc := []int{3, 8, 1, 5, 12, 20}[i%6]
		res := common.RunChild("", "tcp", scratch, []string{fmt.Sprintf("C15_CLIENTS=%d", nc), fmt.Sprintf("C15_SEED=%d", r.Seed*100+int64(i)), "C15_OUT=" + scratch}, 120*time.Second)
		recs, complete, _ := common.ReadJSONL(fmt.Sprintf("%s/tcp-%d.jsonl", scratch, r.Seed*100+int64(i)))
		if res.TimedOut || !complete {
			r.Inconclusive(fmt.Sprintf("tcp run %d clients=%d: timedout=%v complete=%v exit=%d %s", i, nc, res.TimedOut, complete, res.ExitCode, tailStr(res.Output, 400)))
			continue
		}
		vs, commits, order := checkTCPLog(recs, nc)
		evals++
		tcpCommits += commits
		for _, v := range vs {
			r.Report(v.Key, v.Desc, map[string]any{"setting": "tcp", "num_clients": nc, "log": recs})
		}
		if len(vs) == 0 {
			tcpOK++
		}
		distinct.Add(fmt.Sprintf("tcp:%d:%v", nc, order))
		if i < 2 {
			samples.Add(map[string]any{"setting": "tcp", "num_clients": nc, "lock_order": order, "commit_point_events": commits})
		}
	}

	r.Finish(common.Coverage{
		Evaluations:        evals,
		DistinctNontrivial: distinct.Len(),
		Rule:               "one evaluation = one complete run of the lock service (simulated with a seeded scheduler over the spec's bag network, or real relaxed mailboxes over TCP); non-trivial = at least 2 clients; distinct by the hash of the sequence of (process,label) commits (sim) or the observed grant order (tcp)",
		Samples:            samples.S,
		Floor:              20,
		Extra: map[string]any{
			"sim_runs": runs, "sim_committed_steps": steps, "sim_aborted_attempts": aborts, "labels_committed": labels,
			"tlc_traces_validated": tlcOK, "tlc_traces_submitted": len(tlcJobs),
			"tcp_runs_ok": tcpOK, "tcp_runs": tcpRuns, "tcp_commit_point_events": tcpCommits,
		},
	}, []string{
		"sim runs exercise the generated Go and distsys core over harness resources implementing the spec's ReliableLink macro; production mailboxes are exercised by the tcp runs only",
		"service order is compared with the order in which the SERVER committed serverReceive for LockMsgs (the statement's 'order their requests reached the server')",
	})
}

func tailStr(s string, n int) string {
	if len(s) > n {
		return s[len(s)-n:]
	}
	return s
}

// replay re-executes a stored simulated case (deterministic from its seed) or re-judges a stored TCP log.
func replay(r *common.Run) {
	key, _, wit, err := r.LoadReplay()
	if err != nil {
		fmt.Println("cannot read replay file:", err)
		os.Exit(3)
	}
	if wit["setting"] == "tcp" {
		var recs []map[string]any
		_ = common.Remarshal(wit["log"], &recs)
		nc, _ := wit["num_clients"].(float64)
		vs, _, _ := checkTCPLog(recs, int(nc))
		for _, v := range vs {
			r.Report(v.Key, v.Desc, wit)
		}
		r.FinishReplay(key)
	}
	nc, _ := wit["num_clients"].(float64)
	seed, _ := wit["seed"].(float64)
	sim := adapters.Locksvc(int64(seed), int(nc))
	out := sim.Run(2000, true)
	if out.Result.Err != nil && !out.Result.MonitorErr {
		r.Report("C15:sim:archetype-error", out.Result.Err.Error(), wit)
	}
	for _, v := range out.Violations {
		r.Report(v.Key, v.Desc, map[string]any{"setting": "sim", "num_clients": nc, "seed": seed, "steps": out.StepLog})
	}
	if strings.HasPrefix(key, "C15:tlc:") && len(out.States) > 1 {
		scratch := common.Scratch("c15r")
		defer os.RemoveAll(scratch)
		if v := sim.Validate(scratch, out.States, 5*time.Minute); v.Kind == "step" || v.Kind == "invariant" {
			r.Report(key, fmt.Sprintf("TLC again: %s at %d %s", v.Kind, v.RejectedAt, v.Invariant), wit)
		}
	}
	r.FinishReplay(key)
}

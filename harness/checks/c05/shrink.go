package main

import (
	"sort"
	"strings"
)

// reductions returns all one-step reductions of n (smaller or simpler nodes).
func reductions(n *node) []*node {
	var out []*node
	// a child in place of the whole
	for _, e := range n.E {
		out = append(out, e.clone())
	}
	// one element (set/tuple) or pair (function) removed
	switch n.K {
	case "set", "tup":
		for i := range n.E {
			c := n.clone()
			c.E = append(c.E[:i:i], c.E[i+1:]...)
			out = append(out, c)
		}
	case "fn":
		for i := 0; i < n.pairs(); i++ {
			c := n.clone()
			c.E = append(c.E[:2*i:2*i], c.E[2*i+2:]...)
			out = append(out, c)
		}
	}
	// leaf simplifications
	switch n.K {
	case "int":
		if n.I != 0 {
			out = append(out, nInt(0))
		}
	case "str":
		if n.S != "" {
			out = append(out, nStr(""))
			if len(n.S) > 1 {
				out = append(out, nStr(n.S[:1]), nStr(n.S[len(n.S)-1:]))
			}
		}
	case "bool":
		if n.B {
			out = append(out, nBool(false))
		}
	}
	// a child reduced in place
	for i, e := range n.E {
		for _, r := range reductions(e) {
			c := n.clone()
			c.E[i] = r
			out = append(out, normalize(c))
		}
	}
	return out
}

// shrink greedily reduces the nodes of spec while a failure of the same class is still reported.
func (e *env) shrink(spec caseSpec, class string, budget int) (caseSpec, *failure) {
	scratch := newEnv(e.causal) // do not pollute the counters
	cur := spec
	best := hasClass(scratch.runCase(cur), class)
	if best == nil {
		return spec, nil // not reproducible (should not happen: cases are deterministic)
	}
	improved := true
	for improved && budget > 0 {
		improved = false
		for i := range cur.Nodes {
			for _, r := range reductions(cur.Nodes[i]) {
				if budget <= 0 {
					break
				}
				budget--
				cand := caseSpec{Phase: cur.Phase, RSeed: cur.RSeed, Nodes: append([]*node{}, cur.Nodes...)}
				cand.Nodes[i] = r
				if f := hasClass(scratch.runCase(cand), class); f != nil {
					cur, best, improved = cand, f, true
					break
				}
			}
			if improved {
				break
			}
		}
	}
	return cur, best
}

// finding is what a child hands to the parent.
type finding struct {
	Key     string    `json:"key"`
	Desc    string    `json:"desc"`
	Spec    caseSpec  `json:"spec"`
	Fail    failure   `json:"failure"`
	Role    string    `json:"role"`
	Orig    *caseSpec `json:"original_case,omitempty"`
	Printed []string  `json:"nodes_as_tla,omitempty"`
}

// triage turns the failures of one case into findings with narrow keys.
func (e *env) triage(spec caseSpec, fs []failure, role string) []finding {
	var out []finding
	done := map[string]bool{}
	for _, f := range fs {
		if done[f.Class] {
			continue
		}
		done[f.Class] = true
		sp, fl := spec, f
		// a panic met in a pair/map case: is one operand alone enough (as a "value" case)?
		if strings.HasPrefix(f.Class, "panic:") && spec.Phase != "value" && spec.Phase != "wire" {
			scratch := newEnv(e.causal)
			for _, i := range f.Ops {
				if i < 0 || i >= len(spec.Nodes) {
					continue
				}
				single := caseSpec{Phase: "value", Nodes: []*node{spec.Nodes[i]}, RSeed: spec.RSeed}
				if g := hasClass(scratch.runCase(single), f.Class); g != nil {
					sp, fl = single, *g
					break
				}
			}
		}
		if sp.Phase == "value" || sp.Phase == "pair" {
			if s2, f2 := e.shrink(sp, fl.Class, 150); f2 != nil {
				sp, fl = s2, *f2
			}
		}
		shape := fl.Shape
		if shape == "" {
			switch sp.Phase {
			case "value":
				shape = sp.Nodes[0].skeleton(3)
			case "pair":
				var parts []string
				for _, i := range fl.Ops {
					if i >= 0 && i < len(sp.Nodes) {
						parts = append(parts, sp.Nodes[i].skeleton(2))
					}
				}
				sort.Strings(parts)
				shape = strings.Join(parts, "-vs-")
			case "map":
				if len(fl.Ops) > 0 && fl.Ops[0] < len(sp.Nodes) {
					shape = "key-" + sp.Nodes[fl.Ops[0]].skeleton(2)
				}
			}
		}
		key := "C05:" + fl.Class
		if shape != "" {
			key += ":" + shape
		}
		fd := finding{Key: key, Desc: fl.Detail, Spec: sp, Fail: fl, Role: role}
		if sp.Phase != spec.Phase || len(sp.Nodes) != len(spec.Nodes) || (len(sp.Nodes) > 0 && sp.Nodes[0] != spec.Nodes[0]) {
			o := spec
			if o.Phase == "map" { // pools are long; the shrunk case is self-contained
				o.Nodes = nil
			}
			fd.Orig = &o
		}
		for _, n := range sp.Nodes {
			if len(fd.Printed) < 6 {
				fd.Printed = append(fd.Printed, short(n.render()))
			}
		}
		out = append(out, fd)
	}
	return out
}

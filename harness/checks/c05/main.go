// C05 — value equality, hashing, printing and wire encoding are coherent.
//
// Reference model: the harness's own canonical form of TLA+ values (node.go; tuples are functions with domain
// 1..n for the PRINT oracle; a kind-distinguishing variant for the EQUAL/HASH/MAP/GOB oracles; records are
// functions with string keys, sets are order-free). Real tla.Values are built from generated
// nodes in many different ways (build.go) and the real Equal / Hash / String / gob code, hashmap.HashMap and
// immutable.Map with tla.ValueHasher are compared with the canonical form (oracles.go); vector clocks and the
// CRDT wire states round-trip through gob (crdt.go). The printed form is decided by a recursive-descent parser
// for exactly the printed sub-language (parse.go), calibrated through real TLC on a seeded sample (tlc.go).
//
// Two child processes run the same oracles on different seeded streams: "plain" (no PGO_TRACE_DIR: WrapCausal is
// the identity) and "causal" (PGO_TRACE_DIR set at process start: values are wrapped with vector clocks at
// random nesting positions, and clocks must survive the wire).
package main

import (
	"encoding/binary"
	"encoding/json"
	"fmt"
	"hash/fnv"
	"os"
	"path/filepath"
	"runtime/debug"
	"runtime/pprof"
	"sort"
	"strconv"
	"strings"
	"sync"
	"time"

	"verifh/common"

	"github.com/DistCompiler/pgo/distsys/tla"
)

type counts struct {
	Value, Pair, Map, Wire int
}

type childCfg struct {
	Seed    int64    `json:"seed"`
	Counts  counts   `json:"counts"`
	Workers int      `json:"workers"`
	Dir     string   `json:"dir"`
	Single  string   `json:"single,omitempty"` // "phase:index": run only this case (after a fatal crash)
	Skip    []string `json:"skip,omitempty"`   // "phase:index" cases known to kill the process
	Replay  string   `json:"replay,omitempty"` // replay file
}

var phaseSalt = map[string]uint64{"value": 11, "pair": 12, "map": 13, "wire": 14}

func roleSalt(role string) uint64 {
	if strings.HasSuffix(role, "causal") {
		return 2
	}
	return 1
}

func plainHash(n *node) (h uint32, ok bool) {
	pi := try(func() { h = (&builder{}).build(n).Hash() })
	return h, pi == nil
}

var collisionLeaves = [][]*node{
	{nBool(false), nInt(0), nSet(), nFn()}, // all hash to fnv(0) on the pinned tree
	{nBool(true), nInt(1)},
}

// collisionFamily: structurally identical values whose leaves are swapped inside one hash-collision class.
func collisionFamily(rng interface{ Intn(int) int }, depth int) []*node {
	var shape func(d int) *node
	shape = func(d int) *node {
		if d == 0 || rng.Intn(3) == 0 {
			return &node{K: "leaf", I: int32(rng.Intn(2))}
		}
		k := []string{"set", "tup", "fn"}[rng.Intn(3)]
		n := &node{K: k}
		for i := 1 + rng.Intn(2); i > 0; i-- {
			if k == "fn" {
				n.E = append(n.E, nStr([]string{"a", "b", "c"}[i]), shape(d-1))
			} else {
				n.E = append(n.E, shape(d-1))
			}
		}
		return n
	}
	sh := shape(depth)
	var inst func(n *node) *node
	inst = func(n *node) *node {
		if n.K == "leaf" {
			cl := collisionLeaves[n.I]
			return cl[rng.Intn(len(cl))].clone()
		}
		c := &node{K: n.K}
		for _, e := range n.E {
			c.E = append(c.E, inst(e))
		}
		return c
	}
	var out []*node
	for i := 2 + rng.Intn(3); i > 0; i-- {
		out = append(out, normalize(inst(sh)))
	}
	return out
}

// genCase derives the case (phase, index) of a role deterministically from the seed.
func genCase(seed int64, role, phase string, idx int) caseSpec {
	rng := newRng(mix(uint64(seed), roleSalt(role), phaseSalt[phase], uint64(idx)))
	spec := caseSpec{Phase: phase, RSeed: rng.Uint64()}
	o := genOpts{dflt: 0.015}
	switch phase {
	case "value":
		budget := 8 + rng.Intn(30)
		spec.Nodes = []*node{gen(rng, 1+rng.Intn(4), &budget, o)}
	case "pair":
		budget := 6 + rng.Intn(20)
		a := gen(rng, 1+rng.Intn(3), &budget, o)
		var b, c *node
		switch x := rng.Intn(20); {
		case x == 0: // hash-collision pair crafted from the implementation's own hash: {e} vs the number hash(e)
			if h, ok := plainHash(a); ok {
				a, b = nSet(a), nInt(int32(h))
			} else {
				b = near(rng, a, o)
			}
		case x == 1:
			fam := collisionFamily(rng, 2)
			a, b = fam[0], fam[1]
			if len(fam) > 2 {
				c = fam[2]
			}
		case x < 4:
			b = a.clone()
		default:
			b = near(rng, a, o)
		}
		if c == nil {
			switch x := rng.Intn(10); {
			case x < 5:
				c = near(rng, b, o)
			case x < 8:
				c = near(rng, a, o)
			default:
				c = a.clone()
			}
		}
		spec.Nodes = []*node{a, b, c}
	case "map":
		var pool []*node
		for i := 3 + rng.Intn(6); i > 0; i-- {
			budget := 10
			n := gen(rng, rng.Intn(3), &budget, genOpts{dflt: 0.01})
			pool = append(pool, n)
			for j := rng.Intn(3); j > 0; j-- {
				pool = append(pool, near(rng, n, genOpts{}))
			}
			if rng.Intn(3) == 0 {
				if h, ok := plainHash(n); ok {
					pool = append(pool, nSet(n), nInt(int32(h)))
				}
			}
		}
		if rng.Intn(2) == 0 {
			pool = append(pool, collisionFamily(rng, 2)...)
		}
		if rng.Intn(2) == 0 { // many sets of small ints
			for i := 5 + rng.Intn(25); i > 0; i-- {
				var es []*node
				for b := 0; b < 6; b++ {
					if rng.Intn(2) == 0 {
						es = append(es, nInt(int32(b)))
					}
				}
				pool = append(pool, nSet(es...))
			}
		}
		spec.Nodes = pool
	case "wire":
	}
	return spec
}

func hash64(s string) uint64 {
	h := fnv.New64a()
	h.Write([]byte(s))
	return h.Sum64()
}

type keyAgg struct {
	Count    int       `json:"count"`
	Findings []finding `json:"findings"`
}

type childStats struct {
	Role            string         `json:"role"`
	VClocksEnabled  bool           `json:"vclocks_enabled"`
	Cases           map[string]int `json:"cases"`
	OracleChecks    map[string]int `json:"oracle_checks"`
	Recipes         map[string]int `json:"recipes"`
	HashCollisions  int            `json:"hash_collisions_between_distinct_values"`
	WrappedValues   int            `json:"causally_wrapped_values"`
	UnshrunkRepeats map[string]int `json:"unshrunk_repeats_by_class"`
	Samples         []any          `json:"samples"`
}

func childMain(role string) {
	var cfg childCfg
	if err := json.Unmarshal([]byte(os.Getenv("C05_CFG")), &cfg); err != nil {
		fmt.Println("bad C05_CFG:", err)
		os.Exit(3)
	}
	if pf := os.Getenv("C05_PROF"); pf != "" { // development aid
		f, _ := os.Create(pf)
		_ = pprof.StartCPUProfile(f)
		defer pprof.StopCPUProfile()
	}
	// a runaway recursion in the code under test should die quickly, not after growing a 1 GB stack
	debug.SetMaxStack(64 << 20)
	causal := strings.HasSuffix(role, "causal")
	enabled := tla.WrapCausal(tla.MakeNumber(1), tla.VClock{}.Inc("a", tla.MakeNumber(1))).GetVClock() != nil
	out := common.NewJSONLWriter(filepath.Join(cfg.Dir, role+".jsonl"))
	out.Emit(map[string]any{"kind": "start", "vclocks_enabled": enabled})

	type job struct {
		phase string
		idx   int
	}
	var jobs []job
	switch {
	case cfg.Replay != "":
	case cfg.Single != "":
		p := strings.SplitN(cfg.Single, ":", 2)
		i, _ := strconv.Atoi(p[1])
		jobs = append(jobs, job{p[0], i})
	default:
		skip := map[string]bool{}
		for _, s := range cfg.Skip {
			skip[s] = true
		}
		for _, ph := range []struct {
			name string
			n    int
		}{{"value", cfg.Counts.Value}, {"pair", cfg.Counts.Pair}, {"map", cfg.Counts.Map}, {"wire", cfg.Counts.Wire}} {
			for i := 0; i < ph.n; i++ {
				if !skip[fmt.Sprintf("%s:%d", ph.name, i)] {
					jobs = append(jobs, job{ph.name, i})
				}
			}
		}
	}

	var mu sync.Mutex
	agg := map[string]*keyAgg{}
	total := newEnv(causal)
	stats := childStats{Role: role, VClocksEnabled: enabled, Cases: map[string]int{}, UnshrunkRepeats: map[string]int{}}
	distinct := map[uint64]struct{}{}
	record := func(fds []finding) {
		mu.Lock()
		defer mu.Unlock()
		for _, fd := range fds {
			a := agg[fd.Key]
			if a == nil {
				a = &keyAgg{}
				agg[fd.Key] = a
			}
			a.Count++
			if len(a.Findings) < 3 {
				a.Findings = append(a.Findings, fd)
			}
		}
	}

	if cfg.Replay != "" {
		buf, err := os.ReadFile(cfg.Replay)
		var rf struct {
			Witness finding `json:"witness"`
		}
		if err == nil {
			err = json.Unmarshal(buf, &rf)
		}
		if err != nil || rf.Witness.Spec.Phase == "" {
			fmt.Println("cannot read replay file:", err)
			os.Exit(3)
		}
		e := newEnv(causal)
		fs := e.runCase(rf.Witness.Spec)
		record(e.triage(rf.Witness.Spec, fs, role))
		if rf.Witness.Orig != nil && len(rf.Witness.Orig.Nodes) > 0 {
			fs = e.runCase(*rf.Witness.Orig)
			record(e.triage(*rf.Witness.Orig, fs, role))
		}
		total = e
	}

	workers := cfg.Workers
	if workers < 1 {
		workers = 1
	}
	var wg sync.WaitGroup
	for w := 0; w < workers && len(jobs) > 0; w++ {
		wg.Add(1)
		go func(w int) {
			defer wg.Done()
			e := newEnv(causal)
			cur, _ := os.Create(filepath.Join(cfg.Dir, fmt.Sprintf("cur-%s-%d", role, w)))
			defer cur.Close()
			local := map[uint64]struct{}{}
			cases := map[string]int{}
			shrunk := map[string]int{}
			unshrunk := map[string]int{}
			var samples []any
			for j := w; j < len(jobs); j += workers {
				jb := jobs[j]
				if cur != nil {
					cur.WriteAt([]byte(fmt.Sprintf("%-8s %12d\n", jb.phase, jb.idx)), 0)
				}
				spec := genCase(cfg.Seed, role, jb.phase, jb.idx)
				for _, n := range spec.Nodes {
					if n.depth() >= 2 {
						local[hash64(n.kcanon())] = struct{}{}
					}
				}
				fs := e.runCase(spec)
				cases[jb.phase]++
				if w == 0 && len(samples) < 8 && cases[jb.phase] <= 2 {
					s := map[string]any{"phase": jb.phase, "index": jb.idx, "failures": len(fs)}
					var vs []string
					for i, n := range spec.Nodes {
						if i < 3 {
							vs = append(vs, short(n.render()))
						}
					}
					s["values_as_tla"] = vs
					if jb.phase == "map" {
						s["pool_size"] = len(spec.Nodes)
					}
					if jb.phase == "value" && len(fs) == 0 {
						s["printed_by_String"] = show((&builder{}).build(spec.Nodes[0]))
					}
					samples = append(samples, s)
				}
				if len(fs) == 0 {
					continue
				}
				// bounded triage effort: every localised (class, shape) is shrunk a few times; classes whose key
				// depends on shrinking are shrunk up to 8 times per worker, further repeats are counted only
				var todo []failure
				for _, f := range fs {
					pre := f.Class + "|" + f.Shape
					limit := 8
					if f.Shape != "" {
						limit = 2
					}
					if shrunk[pre] >= limit {
						if f.Shape != "" {
							// key is known without shrinking
							record([]finding{{Key: "C05:" + f.Class + ":" + f.Shape, Desc: f.Detail, Spec: caseSpec{Phase: spec.Phase, RSeed: spec.RSeed}, Fail: f, Role: role}})
						} else {
							unshrunk[f.Class]++
						}
						continue
					}
					shrunk[pre]++
					todo = append(todo, f)
				}
				if len(todo) > 0 {
					record(e.triage(spec, todo, role))
				}
			}
			mu.Lock()
			for k, v := range e.counts {
				total.counts[k] += v
			}
			for k, v := range e.recipes {
				total.recipes[k] += v
			}
			total.hashCollisions += e.hashCollisions
			total.wrappedValues += e.wrappedValues
			for k := range local {
				distinct[k] = struct{}{}
			}
			for k, v := range cases {
				stats.Cases[k] += v
			}
			for k, v := range unshrunk {
				stats.UnshrunkRepeats[k] += v
			}
			if w == 0 {
				stats.Samples = samples
			}
			mu.Unlock()
		}(w)
	}
	wg.Wait()

	keys := make([]string, 0, len(agg))
	for k := range agg {
		keys = append(keys, k)
	}
	sort.Strings(keys)
	for _, k := range keys {
		buf, _ := json.Marshal(agg[k])
		var m map[string]any
		_ = json.Unmarshal(buf, &m)
		m["kind"] = "finding"
		m["key"] = k
		out.Emit(m)
	}
	stats.OracleChecks, stats.Recipes = total.counts, total.recipes
	stats.HashCollisions, stats.WrappedValues = total.hashCollisions, total.wrappedValues
	buf, _ := json.Marshal(stats)
	var m map[string]any
	_ = json.Unmarshal(buf, &m)
	m["kind"] = "stats"
	out.Emit(m)
	// distinct non-trivial values, for the parent to merge
	db := make([]byte, 0, 8*len(distinct))
	for k := range distinct {
		db = binary.LittleEndian.AppendUint64(db, k)
	}
	_ = os.WriteFile(filepath.Join(cfg.Dir, role+".distinct"), db, 0o644)
	out.Emit(map[string]any{"kind": "end"})
	out.Close()
}

type childOutcome struct {
	role     string
	res      common.ChildResult
	recs     []map[string]any
	complete bool
}

func launch(role string, cfg childCfg, watchdog time.Duration) childOutcome {
	js, _ := json.Marshal(cfg)
	env := []string{"C05_CFG=" + string(js)}
	if strings.HasSuffix(role, "causal") {
		td := filepath.Join(cfg.Dir, "trace-"+role)
		_ = os.MkdirAll(td, 0o755)
		env = append(env, "PGO_TRACE_DIR="+td)
	} else {
		env = append(env, "PGO_TRACE_DIR=")
	}
	res := common.RunChild("", role, cfg.Dir, env, watchdog)
	recs, complete, _ := common.ReadJSONL(filepath.Join(cfg.Dir, role+".jsonl"))
	return childOutcome{role, res, recs, complete}
}

func tailOf(s string, n int) string {
	if len(s) > n {
		return s[len(s)-n:]
	}
	return s
}

// absorb feeds a child's findings into the run; returns its stats record.
func absorb(r *common.Run, oc childOutcome, keyCounts map[string]int) map[string]any {
	var stats map[string]any
	for _, rec := range oc.recs {
		switch rec["kind"] {
		case "finding":
			key, _ := rec["key"].(string)
			cnt, _ := rec["count"].(float64)
			keyCounts[key] += int(cnt)
			fl, _ := rec["findings"].([]any)
			for _, f := range fl {
				fm, _ := f.(map[string]any)
				desc, _ := fm["desc"].(string)
				r.Report(key, desc, fm)
			}
		case "stats":
			stats = rec
		}
	}
	return stats
}

func main() {
	if role := common.ChildRole(); role != "" {
		childMain(role)
		return
	}
	r := common.Start("C05", "exploration")
	dir := common.Scratch("c05")
	cleanup := func() {
		if os.Getenv("C05_KEEP") == "" {
			_ = os.RemoveAll(dir)
		} else {
			fmt.Println("scratch kept:", dir)
		}
	}
	defer cleanup()

	keyCounts := map[string]int{}

	if r.Replay != "" {
		buf, err := os.ReadFile(r.Replay)
		var rf struct {
			Witness struct {
				Role  string `json:"role"`
				Fatal string `json:"fatal_case"`
			} `json:"witness"`
		}
		if err == nil {
			err = json.Unmarshal(buf, &rf)
		}
		if err != nil {
			fmt.Println("cannot read replay file:", err)
			cleanup()
			os.Exit(3)
		}
		role := "replay-plain"
		if strings.HasSuffix(rf.Witness.Role, "causal") {
			role = "replay-causal"
		}
		cfg := childCfg{Seed: r.Seed, Workers: 1, Dir: dir, Replay: r.Replay}
		if rf.Witness.Fatal != "" {
			cfg.Replay, cfg.Single = "", rf.Witness.Fatal
			role = strings.TrimPrefix(role, "replay-")
		}
		oc := launch(role, cfg, 5*time.Minute)
		n := 0
		if !oc.complete && !oc.res.TimedOut && rf.Witness.Fatal != "" {
			r.Report("C05:fatal-crash:"+strings.SplitN(rf.Witness.Fatal, ":", 2)[0], "the case kills the process again", map[string]any{"role": role, "fatal_case": rf.Witness.Fatal, "output_tail": tailOf(oc.res.Output, 3000)})
			n = 1
		} else if !oc.complete {
			r.Inconclusive("replay child did not finish: " + tailOf(oc.res.Output, 500))
		}
		absorb(r, oc, keyCounts)
		for _, c := range keyCounts {
			n += c
		}
		cleanup()
		r.Finish(common.Coverage{Evaluations: 1, DistinctNontrivial: n, Rule: "replay of one stored case", Samples: []any{r.Replay}}, nil)
		return
	}

	cnt := counts{
		Value: r.Pick(4500, 200000),
		Pair:  r.Pick(12000, 450000),
		Map:   r.Pick(800, 20000),
		Wire:  r.Pick(300, 8000),
	}
	workers := r.Pick(4, 8)
	watchdog := time.Duration(r.Pick(8, 40)) * time.Minute

	var wg sync.WaitGroup
	outcomes := make([]childOutcome, 2)
	for i, role := range []string{"plain", "causal"} {
		wg.Add(1)
		go func(i int, role string) {
			defer wg.Done()
			cfg := childCfg{Seed: r.Seed, Counts: cnt, Workers: workers, Dir: dir}
			for attempt := 0; ; attempt++ {
				oc := launch(role, cfg, watchdog)
				outcomes[i] = oc
				if oc.complete || oc.res.TimedOut || attempt >= 2 {
					return
				}
				// the process died (fatal error, stack overflow, unrecovered panic): find the case by running the
				// in-flight ones alone, report it, and run the child again without it
				var inflight []string
				files, _ := filepath.Glob(filepath.Join(dir, "cur-"+role+"-*"))
				for _, f := range files {
					if b, err := os.ReadFile(f); err == nil {
						if fl := strings.Fields(string(b)); len(fl) == 2 {
							inflight = append(inflight, fl[0]+":"+fl[1])
						}
					}
				}
				found := false
				for _, c := range inflight {
					single := launch(role, childCfg{Seed: r.Seed, Workers: 1, Dir: dir, Single: c}, 5*time.Minute)
					if !single.complete && !single.res.TimedOut {
						found = true
						cfg.Skip = append(cfg.Skip, c)
						r.Report("C05:fatal-crash:"+strings.SplitN(c, ":", 2)[0], fmt.Sprintf("case %s of child %s kills the process (not a recoverable panic)", c, role),
							map[string]any{"role": role, "fatal_case": c, "seed": r.Seed, "output_tail": tailOf(single.res.Output, 3000)})
					}
				}
				if !found {
					r.Inconclusive(fmt.Sprintf("child %s died (exit %d) and no in-flight case %v reproduces it: %s", role, oc.res.ExitCode, inflight, tailOf(oc.res.Output, 600)))
					return
				}
			}
		}(i, role)
	}
	var calib calibResult
	wg.Add(1)
	go func() {
		defer wg.Done()
		calib = calibrate(uint64(r.Seed), r.Pick(250, 400), r.Pick(1, 8), dir)
	}()
	wg.Wait()

	evals := 0
	extra := map[string]any{}
	var samples []any
	distinct := map[uint64]struct{}{}
	for _, oc := range outcomes {
		if !oc.complete {
			if oc.res.TimedOut {
				r.Inconclusive(fmt.Sprintf("child %s: watchdog expired: %s", oc.role, tailOf(oc.res.Output, 400)))
			} else {
				r.Inconclusive(fmt.Sprintf("child %s did not finish (exit %d)", oc.role, oc.res.ExitCode))
			}
			continue
		}
		st := absorb(r, oc, keyCounts)
		if st == nil {
			r.Inconclusive("child " + oc.role + " wrote no stats")
			continue
		}
		if en, _ := st["vclocks_enabled"].(bool); en != (oc.role == "causal") {
			r.Inconclusive(fmt.Sprintf("child %s: vector clocks enabled = %v, expected %v", oc.role, en, oc.role == "causal"))
			continue
		}
		if cs, ok := st["cases"].(map[string]any); ok {
			for _, v := range cs {
				if f, ok := v.(float64); ok {
					evals += int(f)
				}
			}
		}
		if ss, ok := st["samples"].([]any); ok && oc.role == "plain" {
			samples = append(samples, ss...)
		} else if ok && len(ss) > 0 {
			samples = append(samples, ss[0])
		}
		delete(st, "samples")
		delete(st, "kind")
		delete(st, "seq")
		extra["child_"+oc.role] = st
		if db, err := os.ReadFile(filepath.Join(dir, oc.role+".distinct")); err == nil {
			for i := 0; i+8 <= len(db); i += 8 {
				distinct[binary.LittleEndian.Uint64(db[i:])] = struct{}{}
			}
		}
	}
	for _, s := range calib.inconclusive {
		r.Inconclusive(s)
	}
	evals += calib.cases
	extra["tlc_calibration"] = map[string]any{"cases_answered_by_tlc": calib.cases, "agree_equal": calib.agreeTrue, "agree_different": calib.agreeFalse, "problems": len(calib.inconclusive)}
	for _, c := range calib.samples {
		samples = append(samples, map[string]any{"phase": "tlc-calibration", "case": c})
	}
	extra["finding_hits_by_key"] = keyCounts
	cleanup()
	r.Finish(common.Coverage{
		Evaluations:        evals,
		DistinctNontrivial: len(distinct),
		Rule: "one evaluation = one generated case run through the real tla/hashmap/resources code (value: one value built 3 ways, all laws + printed form + gob; pair: a near-equal triple; map: 40-120 operations on a pool of keys; wire: one VClock and 2-3 replicas each of GCounter/AWORSet/LWWSet) or one TLC-calibrated printed form; " +
			"distinct_nontrivial = distinct canonical forms among the generated values that are collections with at least one element (union over both children, measured by hashing the canonical form)",
		Samples: samples,
		Floor:   r.Pick(2000, 50000),
		Extra:   extra,
	}, []string{
		"for Equal/Hash/maps/gob 'the same value' is decided by the harness's kind-distinguishing canonical form: sets are order-free, records are functions with string keys, a tuple is only equal to a tuple and a function (also one with domain 1..n, also the empty one) only to a function — sequences and functions are distinct values in this runtime's fragment (C03's documented restriction); values of different kinds are different; defaultInitValue is a model value equal only to itself",
		"for the printed form the mathematical canonical form is used (a printed (1 :> a @@ 2 :> b) or [x \\in {} |-> x] denotes the TLA+ value that is also written <<a, b>> resp. <<>>)",
		"the printed form is decided by the harness's parser for the printed sub-language with TLA+ semantics ({x, x} = {x}, @@ left-biased); the parser and canonical form are calibrated through TLC on TLC-comparable (homogeneously typed) values only",
		"CRDT states have no Equal: 'decodes to an equal value' is decided on their complete content (unexported maps read by reflection), on Read() and on their behaviour under one further Write",
		"strings range over printable ASCII; control characters are outside the stated universe",
		"triage effort is bounded: per worker at most 8 failures of a class whose key needs shrinking are shrunk, further ones are only counted (unshrunk_repeats_by_class)",
	})
}

package main

// Builds real tla.Values from nodes in many different ways ("constructions of one mathematical value"),
// and reads a tla.Value back into the canonical form through its exported accessors.

import (
	"bytes"
	"encoding/gob"
	"encoding/json"
	"fmt"
	"math/rand"
	"sort"
	"strings"

	"github.com/DistCompiler/pgo/distsys/tla"
	"github.com/benbjohnson/immutable"
)

type clockModel map[string]int // "archetype|selfcanon" -> count

type builder struct {
	rng    *rand.Rand
	varied bool    // false: plain constructors in the given order
	wrap   float64 // probability of causal wrapping of a (sub)value (only effective with vector clocks enabled)
	gobp   float64 // probability of passing a (sub)value through gob while building
	// observations
	wrapped int
	recipes map[string]int
}

type buildError struct{ err error }

func (b *builder) note(r string) {
	if b.recipes != nil {
		b.recipes[r]++
	}
}

func junk(i int) tla.Value { return tla.MakeString(fmt.Sprintf("~junk~%d~", i)) }

func genClock(rng *rand.Rand) tla.VClock {
	var c tla.VClock
	names := []string{"AServer", "AClient", "A"}
	for i := rng.Intn(5); i > 0; i-- {
		var self tla.Value
		if rng.Intn(2) == 0 {
			self = tla.MakeNumber(int32(rng.Intn(4)))
		} else {
			self = tla.MakeString([]string{"n1", "n2", `q"`}[rng.Intn(3)])
		}
		nm := names[rng.Intn(len(names))]
		for k := 1 + rng.Intn(3); k > 0; k-- {
			c = c.Inc(nm, self)
		}
	}
	return c
}

func gobRoundTrip(v tla.Value) (tla.Value, error) {
	var buf bytes.Buffer
	if err := gob.NewEncoder(&buf).Encode(&v); err != nil {
		return tla.Value{}, fmt.Errorf("encode: %w", err)
	}
	var out tla.Value
	if err := gob.NewDecoder(&buf).Decode(&out); err != nil {
		return tla.Value{}, fmt.Errorf("decode: %w", err)
	}
	return out, nil
}

func (b *builder) post(v tla.Value) tla.Value {
	if b.varied && b.gobp > 0 && b.rng.Float64() < b.gobp {
		out, err := gobRoundTrip(v)
		if err != nil {
			panic(buildError{err})
		}
		b.note("via-gob")
		v = out
	}
	if b.varied && b.wrap > 0 && b.rng.Float64() < b.wrap {
		v = tla.WrapCausal(v, genClock(b.rng))
		b.wrapped++
	}
	return v
}

func (b *builder) build(n *node) tla.Value {
	switch n.K {
	case "bool":
		return b.post(tla.MakeBool(n.B))
	case "int":
		return b.post(tla.MakeNumber(n.I))
	case "str":
		return b.post(tla.MakeString(n.S))
	case "dflt":
		return tla.Value{}
	case "set":
		es := make([]tla.Value, len(n.E))
		for i, e := range n.E {
			es[i] = b.build(e)
		}
		return b.post(b.buildSet(n, es))
	case "tup":
		es := make([]tla.Value, len(n.E))
		for i, e := range n.E {
			es[i] = b.build(e)
		}
		return b.post(b.buildTuple(es))
	case "fn":
		ks := make([]tla.Value, n.pairs())
		vs := make([]tla.Value, n.pairs())
		for i := range ks {
			ks[i] = b.build(n.key(i))
			vs[i] = b.build(n.val(i))
		}
		return b.post(b.buildFn(n, ks, vs))
	}
	panic("bad node")
}

func (b *builder) buildSet(n *node, es []tla.Value) tla.Value {
	if !b.varied {
		return tla.MakeSet(es...)
	}
	rng := b.rng
	sh := append([]tla.Value{}, es...)
	rng.Shuffle(len(sh), func(i, j int) { sh[i], sh[j] = sh[j], sh[i] })
	switch r := rng.Intn(8); r {
	case 0:
		b.note("set:MakeSet-shuffled")
		return tla.MakeSet(sh...)
	case 1: // duplicates, the second copy built differently
		b.note("set:MakeSet-duplicates")
		for i := range n.E {
			if rng.Intn(2) == 0 {
				sh = append(sh, b.build(n.E[i]))
			}
		}
		rng.Shuffle(len(sh), func(i, j int) { sh[i], sh[j] = sh[j], sh[i] })
		return tla.MakeSet(sh...)
	case 2: // union of two overlapping parts
		b.note("set:union")
		var l, rr []tla.Value
		for _, e := range sh {
			switch rng.Intn(3) {
			case 0:
				l = append(l, e)
			case 1:
				rr = append(rr, e)
			default:
				l = append(l, e)
				rr = append(rr, e)
			}
		}
		return tla.ModuleUnionSymbol(tla.MakeSet(l...), tla.MakeSet(rr...))
	case 3: // persistent map, junk added and deleted again
		b.note("set:map-set-delete")
		m := immutable.NewMap[tla.Value, bool](tla.ValueHasher{})
		j := junk(rng.Intn(3))
		for i, e := range sh {
			if i == len(sh)/2 {
				m = m.Set(j, true)
			}
			m = m.Set(e, true)
		}
		m = m.Delete(j)
		return tla.MakeSetFromMap(m)
	case 4: // (S \cup J) \ J
		b.note("set:backslash")
		j1, j2 := junk(3), junk(4)
		all := append(append([]tla.Value{j1}, sh...), j2)
		return tla.ModuleBackslashSymbol(tla.MakeSet(all...), tla.MakeSet(j2, j1))
	case 5: // (S \cup {j1}) \cap (S \cup {j2})
		b.note("set:intersect")
		a := append([]tla.Value{junk(5)}, sh...)
		c := append(append([]tla.Value{}, es...), junk(6))
		return tla.ModuleIntersectSymbol(tla.MakeSet(a...), tla.MakeSet(c...))
	case 6: // DOMAIN of a function with these keys
		b.note("set:domain")
		fs := make([]tla.RecordField, len(sh))
		for i, e := range sh {
			fs[i] = tla.RecordField{Key: e, Value: tla.MakeNumber(int32(i))}
		}
		return tla.ModuleDomainSymbol(tla.MakeRecord(fs))
	default: // set refinement over a superset
		b.note("set:refinement")
		all := append(append([]tla.Value{}, sh...), junk(7))
		return tla.SetRefinement(tla.MakeSet(all...), func(v tla.Value) bool {
			return !(v.IsString() && strings.HasPrefix(v.AsString(), "~junk~"))
		})
	}
}

func (b *builder) buildTuple(es []tla.Value) tla.Value {
	if !b.varied {
		return tla.MakeTuple(es...)
	}
	rng := b.rng
	n := len(es)
	switch rng.Intn(6) {
	case 0:
		b.note("tuple:MakeTuple")
		return tla.MakeTuple(es...)
	case 1:
		b.note("tuple:append-chain")
		t := tla.MakeTuple()
		for _, e := range es {
			t = tla.ModuleAppend(t, e)
		}
		return t
	case 2:
		b.note("tuple:concat")
		k := rng.Intn(n + 1)
		return tla.ModuleOSymbol(tla.MakeTuple(es[:k]...), tla.MakeTuple(es[k:]...))
	case 3:
		b.note("tuple:tail")
		return tla.ModuleTail(tla.MakeTuple(append([]tla.Value{junk(8)}, es...)...))
	case 4:
		b.note("tuple:subseq")
		all := append(append([]tla.Value{junk(9)}, es...), junk(10))
		return tla.ModuleSubSeq(tla.MakeTuple(all...), tla.MakeNumber(2), tla.MakeNumber(int32(n+1)))
	default:
		if n == 0 {
			return tla.MakeTuple()
		}
		b.note("tuple:except")
		i := rng.Intn(n)
		tmp := append([]tla.Value{}, es...)
		tmp[i] = junk(11)
		return tla.FunctionSubstitution(tla.MakeTuple(tmp...), []tla.FunctionSubstitutionRecord{
			{Keys: []tla.Value{tla.MakeNumber(int32(i + 1))}, Value: func(tla.Value) tla.Value { return es[i] }},
		})
	}
}

func (b *builder) buildFn(n *node, ks, vs []tla.Value) tla.Value {
	fs := make([]tla.RecordField, len(ks))
	for i := range ks {
		fs[i] = tla.RecordField{Key: ks[i], Value: vs[i]}
	}
	if !b.varied {
		return tla.MakeRecord(fs)
	}
	rng := b.rng
	rng.Shuffle(len(fs), func(i, j int) { fs[i], fs[j] = fs[j], fs[i] })
	switch rng.Intn(6) {
	case 0:
		b.note("function:MakeRecord-shuffled")
		return tla.MakeRecord(fs)
	case 1: // k :> v @@ ...
		b.note("function:colon-greater-chain")
		if len(fs) == 0 {
			return tla.MakeRecord(nil)
		}
		acc := tla.ModuleColonGreaterThanSymbol(fs[0].Key, fs[0].Value)
		for _, f := range fs[1:] {
			one := tla.ModuleColonGreaterThanSymbol(f.Key, f.Value)
			if rng.Intn(2) == 0 {
				acc = tla.ModuleDoubleAtSignSymbol(acc, one)
			} else {
				acc = tla.ModuleDoubleAtSignSymbol(one, acc)
			}
		}
		return acc
	case 2: // [x \in S |-> ...]
		b.note("function:MakeFunction")
		dom := make([]tla.Value, len(fs))
		for i, f := range fs {
			dom[i] = f.Key
		}
		lookup := map[string]tla.Value{}
		for i := 0; i < n.pairs(); i++ {
			lookup[n.key(i).kcanon()] = vs[i]
		}
		return tla.MakeFunction([]tla.Value{tla.MakeSet(dom...)}, func(args []tla.Value) tla.Value {
			c, _ := canonOf(args[0])
			v, ok := lookup[c]
			if !ok {
				panic(fmt.Sprintf("harness: MakeFunction body called with %v which is not in the domain", args[0]))
			}
			return v
		})
	case 3: // EXCEPT
		if len(fs) == 0 {
			return tla.MakeRecord(nil)
		}
		b.note("function:except")
		i := rng.Intn(len(fs))
		tmp := append([]tla.RecordField{}, fs...)
		tmp[i].Value = junk(12)
		return tla.FunctionSubstitution(tla.MakeRecord(tmp), []tla.FunctionSubstitutionRecord{
			{Keys: []tla.Value{fs[i].Key}, Value: func(tla.Value) tla.Value { return fs[i].Value }},
		})
	case 4: // persistent map with a junk key added and deleted
		b.note("function:map-set-delete")
		m := immutable.NewMap[tla.Value, tla.Value](tla.ValueHasher{})
		j := junk(13)
		m = m.Set(j, j)
		for _, f := range fs {
			m = m.Set(f.Key, junk(14))
		}
		for _, f := range fs {
			m = m.Set(f.Key, f.Value)
		}
		return tla.MakeRecordFromMap(m.Delete(j))
	default: // f @@ g with overlapping domains: left operand wins
		b.note("function:override")
		var l, r []tla.RecordField
		for _, f := range fs {
			switch rng.Intn(3) {
			case 0:
				l = append(l, f)
			case 1:
				r = append(r, f)
			default:
				l = append(l, f)
				r = append(r, tla.RecordField{Key: f.Key, Value: junk(15)})
			}
		}
		return tla.ModuleDoubleAtSignSymbol(tla.MakeRecord(l), tla.MakeRecord(r))
	}
}

// ---- reading a tla.Value back -----------------------------------------------------------------------------

func kindOf(v tla.Value) string {
	switch {
	case v.IsBool():
		return "bool"
	case v.IsNumber():
		return "int"
	case v.IsString():
		return "string"
	case v.IsSet():
		if v.AsSet().Len() == 0 {
			return "empty-set"
		}
		return "set"
	case v.IsTuple():
		if v.AsTuple().Len() == 0 {
			return "empty-tuple"
		}
		return "tuple"
	case v.IsFunction():
		if v.AsFunction().Len() == 0 {
			return "empty-function"
		}
		return "function"
	}
	return "default"
}

// canonOf reads v through its accessors into the kind-distinguishing canonical form (node.kcanon). problems lists structural anomalies (the same element twice in a set,
// the same key twice in a function, Len() disagreeing with iteration).
type dupProblem struct {
	msg  string
	a, b tla.Value // two members with the same canonical form held side by side
}

func (d dupProblem) String() string { return d.msg }

func canonOf(v tla.Value) (canon string, problems []dupProblem) {
	switch {
	case v.IsBool():
		if v.AsBool() {
			return "T", nil
		}
		return "F", nil
	case v.IsNumber():
		return canonInt(int64(v.AsNumber())), nil
	case v.IsString():
		return canonStr(v.AsString()), nil
	case v.IsSet():
		it := v.AsSet().Iterator()
		var es []string
		seen := map[string]tla.Value{}
		for !it.Done() {
			e, _, _ := it.Next()
			c, ps := canonOf(e)
			problems = append(problems, ps...)
			if first, dup := seen[c]; dup {
				problems = append(problems, dupProblem{"set holds the same element twice: " + c, first, e})
			}
			seen[c] = e
			es = append(es, c)
		}
		if len(es) != v.AsSet().Len() {
			problems = append(problems, dupProblem{msg: fmt.Sprintf("set Len()=%d but iteration yields %d", v.AsSet().Len(), len(es))})
		}
		return canonSet(es), problems
	case v.IsTuple():
		it := v.AsTuple().Iterator()
		var es []string
		for !it.Done() {
			_, e := it.Next()
			c, ps := canonOf(e)
			problems = append(problems, ps...)
			es = append(es, c)
		}
		return kcanonTuple(es), problems
	case v.IsFunction():
		it := v.AsFunction().Iterator()
		var ps []kv
		seen := map[string]tla.Value{}
		for !it.Done() {
			k, e, _ := it.Next()
			kc, p1 := canonOf(k)
			vc, p2 := canonOf(e)
			problems = append(append(problems, p1...), p2...)
			if first, dup := seen[kc]; dup {
				problems = append(problems, dupProblem{"function holds the same key twice: " + kc, first, k})
				continue
			}
			seen[kc] = k
			ps = append(ps, kv{kc, vc})
		}
		return canonFn(ps), problems
	}
	return "D", nil
}

// clockSig renders the vector clocks attached anywhere inside v (order-free), to compare before/after encoding.
func clockSig(v tla.Value) string {
	var sb strings.Builder
	if c := v.GetVClock(); c != nil {
		sb.WriteString("@" + vclockSig(*c))
	}
	switch {
	case v.IsSet():
		it := v.AsSet().Iterator()
		var es []string
		for !it.Done() {
			e, _, _ := it.Next()
			c, _ := canonOf(e)
			es = append(es, c+clockSig(e))
		}
		sort.Strings(es)
		sb.WriteString("{" + strings.Join(es, ",") + "}")
	case v.IsTuple():
		it := v.AsTuple().Iterator()
		sb.WriteString("<")
		for !it.Done() {
			_, e := it.Next()
			sb.WriteString(clockSig(e) + ",")
		}
		sb.WriteString(">")
	case v.IsFunction():
		it := v.AsFunction().Iterator()
		var es []string
		for !it.Done() {
			k, e, _ := it.Next()
			c, _ := canonOf(k)
			es = append(es, c+clockSig(k)+"=>"+clockSig(e))
		}
		sort.Strings(es)
		sb.WriteString("[" + strings.Join(es, ",") + "]")
	}
	return sb.String()
}

// vclockSig: order-free rendering of a vector clock through its exported MarshalJSON.
func vclockSig(c tla.VClock) (sig string) {
	defer func() {
		if r := recover(); r != nil {
			sig = fmt.Sprintf("clock-panic:%v", r)
		}
	}()
	js, err := c.MarshalJSON()
	if err != nil {
		return "clock-error:" + err.Error()
	}
	var pairs []json.RawMessage
	if err := json.Unmarshal(js, &pairs); err != nil {
		return "clock-json-error:" + err.Error()
	}
	parts := make([]string, len(pairs))
	for i, p := range pairs {
		parts[i] = string(p)
	}
	sort.Strings(parts)
	return strings.Join(parts, "|")
}

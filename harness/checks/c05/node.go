package main

// The harness's own notion of "a TLA+ value": a small tree (node) from which
//   - the canonical form ("same mathematical value" <=> same canon string) is computed directly,
//   - real tla.Values are built in many different ways (build.go),
//   - an independent TLA+ expression is rendered for TLC calibration.
// No code of distsys/tla is used here.

import (
	"fmt"
	"math/rand"
	"regexp"
	"sort"
	"strconv"
	"strings"
)

// node kinds: bool int str set tup fn dflt.  fn keeps alternating key,value in E.
type node struct {
	K string  `json:"k"`
	B bool    `json:"b,omitempty"`
	I int32   `json:"i,omitempty"`
	S string  `json:"s,omitempty"`
	E []*node `json:"e,omitempty"`
}

func nBool(b bool) *node        { return &node{K: "bool", B: b} }
func nInt(i int32) *node        { return &node{K: "int", I: i} }
func nStr(s string) *node       { return &node{K: "str", S: s} }
func nDflt() *node              { return &node{K: "dflt"} }
func nSet(es ...*node) *node    { return &node{K: "set", E: es} }
func nTup(es ...*node) *node    { return &node{K: "tup", E: es} }
func nFn(kvs ...*node) *node    { return &node{K: "fn", E: kvs} }
func (n *node) pairs() int      { return len(n.E) / 2 }
func (n *node) key(i int) *node { return n.E[2*i] }
func (n *node) val(i int) *node { return n.E[2*i+1] }

func (n *node) clone() *node {
	c := *n
	c.E = make([]*node, len(n.E))
	for i, e := range n.E {
		c.E[i] = e.clone()
	}
	return &c
}

func (n *node) size() int {
	s := 1
	for _, e := range n.E {
		s += e.size()
	}
	return s
}

func (n *node) depth() int {
	d := 0
	for _, e := range n.E {
		if x := e.depth(); x > d {
			d = x
		}
	}
	return d + 1
}

// ---- canonical forms ------------------------------------------------------------------------------
// canon(): the MATHEMATICAL form (what a printed TLA+ expression denotes; used by the print oracle, by TLC
// calibration and by the generators to keep set members / function keys distinct under either reading):
// bool: T / F ; int: i<dec> ; string: Go-quoted ; defaultInitValue: D ;
// set: {c1,c2,...} sorted, duplicates collapsed ;
// function (incl. tuples = functions with domain 1..n, records = functions with string keys):
//      [k1=>v1,k2=>v2,...] sorted by key canon.

func canonInt(i int64) string  { return "i" + strconv.FormatInt(i, 10) }
func canonStr(s string) string { return strconv.Quote(s) }

func canonSet(elems []string) string {
	sort.Strings(elems)
	var sb strings.Builder
	sb.WriteByte('{')
	prev := ""
	first := true
	for _, e := range elems {
		if !first && e == prev {
			continue
		}
		if !first {
			sb.WriteByte(',')
		}
		sb.WriteString(e)
		prev, first = e, false
	}
	sb.WriteByte('}')
	return sb.String()
}

type kv struct{ k, v string }

// canonFn: pairs must have distinct keys (callers resolve duplicates by their own semantics first).
func canonFn(ps []kv) string {
	sort.Slice(ps, func(i, j int) bool { return ps[i].k < ps[j].k })
	var sb strings.Builder
	sb.WriteByte('[')
	for i, p := range ps {
		if i > 0 {
			sb.WriteByte(',')
		}
		sb.WriteString(p.k)
		sb.WriteString("=>")
		sb.WriteString(p.v)
	}
	sb.WriteByte(']')
	return sb.String()
}

func canonTuple(elems []string) string {
	ps := make([]kv, len(elems))
	for i, e := range elems {
		ps[i] = kv{canonInt(int64(i + 1)), e}
	}
	return canonFn(ps)
}

func (n *node) canon() string {
	switch n.K {
	case "bool":
		if n.B {
			return "T"
		}
		return "F"
	case "int":
		return canonInt(int64(n.I))
	case "str":
		return canonStr(n.S)
	case "dflt":
		return "D"
	case "set":
		es := make([]string, len(n.E))
		for i, e := range n.E {
			es[i] = e.canon()
		}
		return canonSet(es)
	case "tup":
		es := make([]string, len(n.E))
		for i, e := range n.E {
			es[i] = e.canon()
		}
		return canonTuple(es)
	case "fn":
		ps := make([]kv, n.pairs())
		for i := range ps {
			ps[i] = kv{n.key(i).canon(), n.val(i).canon()}
		}
		return canonFn(ps)
	}
	panic("bad node kind " + n.K)
}

// kcanon: the kind-distinguishing canonical form used by the EQUAL/HASH/MAP/GOB oracles: in this runtime's
// universe a tuple is only the same value as another tuple; a function (incl. records, incl. one with domain
// 1..n) is only the same value as another function. Tuples are written <c1,c2,...>.
func kcanonTuple(elems []string) string { return "<" + strings.Join(elems, ",") + ">" }

func (n *node) kcanon() string {
	switch n.K {
	case "set":
		es := make([]string, len(n.E))
		for i, e := range n.E {
			es[i] = e.kcanon()
		}
		return canonSet(es)
	case "tup":
		es := make([]string, len(n.E))
		for i, e := range n.E {
			es[i] = e.kcanon()
		}
		return kcanonTuple(es)
	case "fn":
		ps := make([]kv, n.pairs())
		for i := range ps {
			ps[i] = kv{n.key(i).kcanon(), n.val(i).kcanon()}
		}
		return canonFn(ps)
	}
	return n.canon()
}

// isSeqDomain: fn node whose keys are exactly the ints 1..n (n>=0); returns values in index order.
func (n *node) seqValues() ([]*node, bool) {
	if n.K != "fn" {
		return nil, false
	}
	p := n.pairs()
	out := make([]*node, p)
	for i := 0; i < p; i++ {
		k := n.key(i)
		if k.K != "int" || k.I < 1 || int(k.I) > p || out[k.I-1] != nil {
			return nil, false
		}
		out[k.I-1] = n.val(i)
	}
	return out, true
}

// skeleton: kind structure of a (shrunk) node, used in finding keys.
func (n *node) skeleton(depth int) string {
	name := map[string]string{"bool": "bool", "int": "int", "str": "string", "set": "set", "tup": "tuple", "fn": "function", "dflt": "default"}[n.K]
	if len(n.E) == 0 || depth == 0 {
		if n.K == "set" || n.K == "tup" || n.K == "fn" {
			if len(n.E) == 0 {
				return "empty-" + name
			}
		}
		return name
	}
	seen := map[string]bool{}
	var parts []string
	if n.K == "fn" {
		for i := 0; i < n.pairs(); i++ {
			s := n.key(i).skeleton(depth-1) + ":>" + n.val(i).skeleton(depth-1)
			if !seen[s] {
				seen[s] = true
				parts = append(parts, s)
			}
		}
	} else {
		for _, e := range n.E {
			s := e.skeleton(depth - 1)
			if !seen[s] {
				seen[s] = true
				parts = append(parts, s)
			}
		}
	}
	sort.Strings(parts)
	return name + "[" + strings.Join(parts, ",") + "]"
}

// ---- rendering as a TLA+ expression (independent of tla.Value.String) ---------------------------------

var identRe = regexp.MustCompile(`^[a-z][a-zA-Z0-9]*$`)

func tlaString(s string) string {
	var sb strings.Builder
	sb.WriteByte('"')
	for i := 0; i < len(s); i++ {
		switch s[i] {
		case '\\':
			sb.WriteString(`\\`)
		case '"':
			sb.WriteString(`\"`)
		default:
			sb.WriteByte(s[i])
		}
	}
	sb.WriteByte('"')
	return sb.String()
}

func (n *node) render() string { return n.renderD(0) }

// renderD: d numbers the bound variables of nested function constructors.
func (n *node) renderD(d int) string {
	switch n.K {
	case "bool":
		if n.B {
			return "TRUE"
		}
		return "FALSE"
	case "int":
		if n.I == -2147483648 {
			return "((-2147483647) - 1)"
		}
		if n.I < 0 {
			return "(" + strconv.Itoa(int(n.I)) + ")"
		}
		return strconv.Itoa(int(n.I))
	case "str":
		return tlaString(n.S)
	case "dflt":
		return "defaultInitValue"
	case "set":
		type ce struct{ c, r string }
		es := make([]ce, len(n.E))
		for i, e := range n.E {
			es[i] = ce{e.canon(), e.renderD(d + 1)}
		}
		sort.Slice(es, func(i, j int) bool { return es[i].c < es[j].c })
		rs := make([]string, len(es))
		for i, e := range es {
			rs[i] = e.r
		}
		return "{" + strings.Join(rs, ", ") + "}"
	case "tup":
		rs := make([]string, len(n.E))
		for i, e := range n.E {
			rs[i] = e.renderD(d + 1)
		}
		return "<<" + strings.Join(rs, ", ") + ">>"
	case "fn":
		if n.pairs() == 0 {
			return "<<>>"
		}
		allIdent := true
		for i := 0; i < n.pairs(); i++ {
			if n.key(i).K != "str" || !identRe.MatchString(n.key(i).S) {
				allIdent = false
			}
		}
		if allIdent {
			rs := make([]string, n.pairs())
			for i := range rs {
				rs[i] = n.key(i).S + " |-> " + n.val(i).renderD(d+1)
			}
			sort.Strings(rs)
			return "[" + strings.Join(rs, ", ") + "]"
		}
		v := fmt.Sprintf("fnx%d", d)
		ks := make([]string, n.pairs())
		cs := make([]string, n.pairs())
		for i := range ks {
			k := n.key(i).renderD(d + 1)
			ks[i] = k
			cs[i] = v + " = " + k + " -> " + n.val(i).renderD(d+1)
		}
		return "[" + v + " \\in {" + strings.Join(ks, ", ") + "} |-> CASE " + strings.Join(cs, " [] ") + "]"
	}
	panic("bad node kind")
}

// ---- generators --------------------------------------------------------------------------------------

// splitmix64-based source: cheap to seed per case.
type sm64 struct{ s uint64 }

func (r *sm64) Uint64() uint64 {
	r.s += 0x9e3779b97f4a7c15
	z := r.s
	z = (z ^ (z >> 30)) * 0xbf58476d1ce4e5b9
	z = (z ^ (z >> 27)) * 0x94d049bb133111eb
	return z ^ (z >> 31)
}
func (r *sm64) Int63() int64    { return int64(r.Uint64() >> 1) }
func (r *sm64) Seed(seed int64) { r.s = uint64(seed) }

func mix(a uint64, bs ...uint64) uint64 {
	r := sm64{s: a}
	x := r.Uint64()
	for _, b := range bs {
		r.s = x ^ (b * 0x9e3779b97f4a7c15)
		x = r.Uint64()
	}
	return x
}

func newRng(seed uint64) *rand.Rand { return rand.New(&sm64{s: seed}) }

const strAlphabet = ` !"#$%&'()*+,-./0123456789:;<=>?@ABCXYZ[\]^_` + "`" + `abcxyz{|}~`

var commonStrings = []string{"", "a", "b", "c", "cmd", "elem", "key", "value", "mtype", `"`, `\`, `\"`, `a"b`, `x\y`, `\\`, `""`, "hello world", "<<>>", "{}", "TRUE", "defaultInitValue", "1", "@@", ":>", `\n`, `\t`, " "}

func genString(rng *rand.Rand) string {
	if rng.Intn(3) > 0 {
		return commonStrings[rng.Intn(len(commonStrings))]
	}
	n := rng.Intn(7)
	b := make([]byte, n)
	for i := range b {
		switch rng.Intn(6) {
		case 0:
			b[i] = '"'
		case 1:
			b[i] = '\\'
		default:
			b[i] = strAlphabet[rng.Intn(len(strAlphabet))]
		}
	}
	return string(b)
}

var edgeInts = []int32{0, 1, -1, 2, -2, 2147483647, -2147483648, 2147483646, -2147483647, 65536, 255, 256}

func genInt(rng *rand.Rand) int32 {
	switch rng.Intn(10) {
	case 0:
		return edgeInts[rng.Intn(len(edgeInts))]
	case 1:
		return int32(rng.Uint32())
	default:
		return int32(rng.Intn(9) - 2)
	}
}

type genOpts struct {
	dflt float64 // probability that a leaf is defaultInitValue
}

func genLeaf(rng *rand.Rand, o genOpts) *node {
	if o.dflt > 0 && rng.Float64() < o.dflt {
		return nDflt()
	}
	switch x := rng.Intn(10); {
	case x < 2:
		return nBool(rng.Intn(2) == 0)
	case x < 6:
		return nInt(genInt(rng))
	default:
		return nStr(genString(rng))
	}
}

// gen: untyped (heterogeneous) values nested up to depth; budget bounds the total size.
func gen(rng *rand.Rand, depth int, budget *int, o genOpts) *node {
	*budget--
	if depth <= 0 || *budget <= 0 || rng.Intn(10) < 3 {
		return genLeaf(rng, o)
	}
	size := rng.Intn(5)
	if rng.Intn(8) == 0 {
		size = 0
	}
	switch rng.Intn(7) {
	case 0, 1: // set
		var es []*node
		seen := map[string]bool{}
		for i := 0; i < size; i++ {
			e := gen(rng, depth-1, budget, o)
			if c := e.canon(); !seen[c] {
				seen[c] = true
				es = append(es, e)
			}
		}
		return nSet(es...)
	case 2, 3: // tuple
		var es []*node
		for i := 0; i < size; i++ {
			es = append(es, gen(rng, depth-1, budget, o))
		}
		return nTup(es...)
	default: // function
		var kvs []*node
		seen := map[string]bool{}
		style := rng.Intn(6)
		off := int32(rng.Intn(3)) // 0: domain 0..n-1, 1: domain 1..n (a sequence!), 2: 2..n+1
		for i := 0; i < size; i++ {
			var k *node
			switch style {
			case 0, 1: // record
				k = nStr([]string{"a", "b", "c", "cmd", "elem", "key", "value", "mtype"}[rng.Intn(8)])
			case 2: // int-indexed, possibly a sequence
				k = nInt(int32(i) + off)
			case 3: // string keys, arbitrary
				k = nStr(genString(rng))
			default:
				k = gen(rng, depth-1, budget, o)
			}
			if c := k.canon(); !seen[c] {
				seen[c] = true
				kvs = append(kvs, k, gen(rng, depth-1, budget, o))
			}
		}
		return nFn(kvs...)
	}
}

// ---- near-equal perturbations (pairs / triples) --------------------------------------------------------

// paths to all subnodes
func (n *node) walk(f func(p *node)) {
	f(n)
	for _, e := range n.E {
		e.walk(f)
	}
}

func normalize(n *node) *node {
	// re-establish "distinct set elements / distinct function keys" after a perturbation
	for i, e := range n.E {
		n.E[i] = normalize(e)
	}
	switch n.K {
	case "set":
		seen := map[string]bool{}
		var es []*node
		for _, e := range n.E {
			if c := e.canon(); !seen[c] {
				seen[c] = true
				es = append(es, e)
			}
		}
		n.E = es
	case "fn":
		seen := map[string]bool{}
		var es []*node
		for i := 0; i < n.pairs(); i++ {
			if c := n.key(i).canon(); !seen[c] {
				seen[c] = true
				es = append(es, n.key(i), n.val(i))
			}
		}
		n.E = es
	}
	return n
}

// near returns a value close to n: usually different, sometimes the same mathematical value in another kind.
func near(rng *rand.Rand, n *node, o genOpts) *node {
	c := n.clone()
	var all []*node
	c.walk(func(p *node) { all = append(all, p) })
	t := all[rng.Intn(len(all))]
	b := 6
	switch t.K {
	case "bool":
		t.B = !t.B
	case "int":
		switch rng.Intn(4) {
		case 0:
			t.I++
		case 1:
			t.I = -t.I
		case 2:
			*t = *nStr(strconv.Itoa(int(t.I)))
		default:
			*t = *nBool(t.I != 0)
		}
	case "str":
		switch rng.Intn(4) {
		case 0:
			t.S += "x"
		case 1:
			t.S = strings.ToUpper(t.S) + " "
		case 2:
			*t = *nTup(nStr(t.S))
		default:
			if len(t.S) > 0 {
				t.S = t.S[:len(t.S)-1]
			} else {
				*t = *nTup()
			}
		}
	case "dflt":
		*t = *genLeaf(rng, genOpts{})
	case "set":
		switch rng.Intn(6) {
		case 0: // same elements as a tuple
			t.K = "tup"
		case 1: // drop one
			if len(t.E) > 0 {
				i := rng.Intn(len(t.E))
				t.E = append(t.E[:i:i], t.E[i+1:]...)
			} else {
				*t = *nTup()
			}
		case 2: // add one
			t.E = append(t.E, gen(rng, 1, &b, o))
		case 3: // wrap
			*t = *nSet(t.clone())
		case 4: // empty set vs empty tuple vs empty function
			if len(t.E) == 0 {
				*t = *[]*node{nTup(), nFn()}[rng.Intn(2)]
			} else {
				t.E = t.E[:1]
			}
		default: // characteristic function
			var kvs []*node
			for _, e := range t.E {
				kvs = append(kvs, e, nBool(true))
			}
			*t = *nFn(kvs...)
		}
	case "tup":
		switch rng.Intn(7) {
		case 0: // the same value as a function with domain 1..n (SAME mathematical value)
			var kvs []*node
			for i, e := range t.E {
				kvs = append(kvs, nInt(int32(i+1)), e)
			}
			*t = *nFn(kvs...)
		case 1: // function with domain 0..n-1 (different)
			var kvs []*node
			for i, e := range t.E {
				kvs = append(kvs, nInt(int32(i)), e)
			}
			*t = *nFn(kvs...)
		case 2: // swap two
			if len(t.E) >= 2 {
				i, j := rng.Intn(len(t.E)), rng.Intn(len(t.E))
				t.E[i], t.E[j] = t.E[j], t.E[i]
			} else {
				t.E = append(t.E, gen(rng, 1, &b, o))
			}
		case 3: // drop last
			if len(t.E) > 0 {
				t.E = t.E[:len(t.E)-1]
			} else {
				*t = *nSet()
			}
		case 4: // append
			t.E = append(t.E, gen(rng, 1, &b, o))
		case 5: // as a set
			t.K = "set"
		default: // unwrap / wrap
			if len(t.E) == 1 {
				*t = *t.E[0]
			} else {
				*t = *nTup(t.clone())
			}
		}
	case "fn":
		switch rng.Intn(6) {
		case 0: // as a tuple if it is a sequence (SAME value), else values in order
			if vs, ok := t.seqValues(); ok {
				*t = *nTup(vs...)
			} else {
				var vs []*node
				for i := 0; i < t.pairs(); i++ {
					vs = append(vs, t.val(i))
				}
				*t = *nTup(vs...)
			}
		case 1: // change one value
			if t.pairs() > 0 {
				i := rng.Intn(t.pairs())
				t.E[2*i+1] = near(rng, t.E[2*i+1], o)
			} else {
				*t = *[]*node{nTup(), nSet()}[rng.Intn(2)]
			}
		case 2: // change one key
			if t.pairs() > 0 {
				i := rng.Intn(t.pairs())
				t.E[2*i] = near(rng, t.E[2*i], o)
			} else {
				*t = *nTup()
			}
		case 3: // drop a pair
			if t.pairs() > 0 {
				i := rng.Intn(t.pairs())
				t.E = append(t.E[:2*i:2*i], t.E[2*i+2:]...)
			} else {
				*t = *nSet()
			}
		case 4: // add a pair
			t.E = append(t.E, gen(rng, 1, &b, o), gen(rng, 1, &b, o))
		default: // swap two values
			if t.pairs() >= 2 {
				i, j := rng.Intn(t.pairs()), rng.Intn(t.pairs())
				t.E[2*i+1], t.E[2*j+1] = t.E[2*j+1], t.E[2*i+1]
			} else {
				*t = *nSet(t.clone())
			}
		}
	}
	return normalize(c)
}

// ---- TLC-comparable (typed) values for calibration -------------------------------------------------------

type ty struct {
	K      string // int str bool set seq tup rec fn
	Elem   *ty
	Key    *ty
	Tup    []*ty
	Fields []string
	FTys   []*ty
}

func genType(rng *rand.Rand, depth int) *ty {
	if depth <= 0 || rng.Intn(4) == 0 {
		return &ty{K: []string{"int", "str", "bool", "int", "str"}[rng.Intn(5)]}
	}
	switch rng.Intn(6) {
	case 0, 1:
		return &ty{K: "set", Elem: genType(rng, depth-1)}
	case 2:
		return &ty{K: "seq", Elem: genType(rng, depth-1)}
	case 3:
		t := &ty{K: "tup"}
		for i := rng.Intn(4); i > 0; i-- {
			t.Tup = append(t.Tup, genType(rng, depth-1))
		}
		return t
	case 4:
		t := &ty{K: "rec"}
		names := []string{"a", "b", "cmd", "elem", "mtype"}
		rng.Shuffle(len(names), func(i, j int) { names[i], names[j] = names[j], names[i] })
		for i := 1 + rng.Intn(3); i > 0; i-- {
			t.Fields = append(t.Fields, names[i])
			t.FTys = append(t.FTys, genType(rng, depth-1))
		}
		return t
	default:
		return &ty{K: "fn", Key: genType(rng, depth-1), Elem: genType(rng, depth-1)}
	}
}

func genTyped(rng *rand.Rand, t *ty, dflt float64) *node {
	if dflt > 0 && rng.Float64() < dflt {
		return nDflt()
	}
	switch t.K {
	case "int":
		v := genInt(rng)
		if v == -2147483648 { // TLC cannot read the literal
			v = -2147483647
		}
		return nInt(v)
	case "str":
		return nStr(genString(rng))
	case "bool":
		return nBool(rng.Intn(2) == 0)
	case "set":
		var es []*node
		seen := map[string]bool{}
		for i := rng.Intn(4); i > 0; i-- {
			e := genTyped(rng, t.Elem, dflt)
			if c := e.canon(); !seen[c] {
				seen[c] = true
				es = append(es, e)
			}
		}
		return nSet(es...)
	case "seq":
		var es []*node
		for i := rng.Intn(4); i > 0; i-- {
			es = append(es, genTyped(rng, t.Elem, dflt))
		}
		return nTup(es...)
	case "tup":
		var es []*node
		for _, et := range t.Tup {
			es = append(es, genTyped(rng, et, dflt))
		}
		return nTup(es...)
	case "rec":
		var kvs []*node
		for i, f := range t.Fields {
			kvs = append(kvs, nStr(f), genTyped(rng, t.FTys[i], dflt))
		}
		return nFn(kvs...)
	case "fn":
		var kvs []*node
		seen := map[string]bool{}
		n := rng.Intn(4)
		seqDomain := t.Key.K == "int" && rng.Intn(2) == 0
		for i := 0; i < n; i++ {
			var k *node
			if seqDomain {
				k = nInt(int32(i + 1))
			} else {
				k = genTyped(rng, t.Key, 0) // model values as keys would make CASE arms incomparable-safe anyway; keep keys plain
			}
			if c := k.canon(); !seen[c] {
				seen[c] = true
				kvs = append(kvs, k, genTyped(rng, t.Elem, dflt))
			}
		}
		return nFn(kvs...)
	}
	panic("bad type")
}

// perturbTyped changes n into a different value of the same type (still TLC-comparable with n).
func perturbTyped(rng *rand.Rand, n *node, t *ty) *node {
	c := n.clone()
	if !perturbIn(rng, c, t) {
		return nil
	}
	c = normalize(c)
	if c.canon() == n.canon() {
		return nil
	}
	return c
}

func perturbIn(rng *rand.Rand, n *node, t *ty) bool {
	if n.K == "dflt" {
		return false
	}
	switch t.K {
	case "int":
		if n.I < 2147483647 {
			n.I++
		} else {
			n.I--
		}
		return true
	case "str":
		n.S += "x"
		return true
	case "bool":
		n.B = !n.B
		return true
	case "set", "seq":
		if len(n.E) == 0 {
			n.E = append(n.E, genTyped(rng, t.Elem, 0))
			return true
		}
		if rng.Intn(3) == 0 {
			n.E = n.E[:len(n.E)-1]
			return true
		}
		return perturbIn(rng, n.E[rng.Intn(len(n.E))], t.Elem)
	case "tup":
		if len(n.E) == 0 {
			return false
		}
		i := rng.Intn(len(n.E))
		return perturbIn(rng, n.E[i], t.Tup[i])
	case "rec":
		i := rng.Intn(n.pairs())
		return perturbIn(rng, n.E[2*i+1], t.FTys[i])
	case "fn":
		if n.pairs() == 0 {
			return false
		}
		i := rng.Intn(n.pairs())
		if rng.Intn(4) == 0 {
			n.E = append(n.E[:2*i:2*i], n.E[2*i+2:]...)
			return true
		}
		return perturbIn(rng, n.E[2*i+1], t.Elem)
	}
	return false
}

func (t *ty) String() string {
	switch t.K {
	case "set", "seq":
		return t.K + "(" + t.Elem.String() + ")"
	case "tup":
		var ps []string
		for _, e := range t.Tup {
			ps = append(ps, e.String())
		}
		return "tup(" + strings.Join(ps, ",") + ")"
	case "rec":
		var ps []string
		for i, f := range t.Fields {
			ps = append(ps, f+":"+t.FTys[i].String())
		}
		return "rec(" + strings.Join(ps, ",") + ")"
	case "fn":
		return fmt.Sprintf("fn(%s->%s)", t.Key, t.Elem)
	}
	return t.K
}

package main

// Recursive-descent parser for exactly the sub-language of TLA+ that tla.Value.String() prints:
//
//	value  ::= TRUE | FALSE | -?digits | "..." | defaultInitValue
//	         | { value, ... } | << value, ... >>
//	         | ( (value) :> (value) @@ (value) :> (value) ... )
//	         | [x \in {} |-> x]
//
// It returns the canonical form of the DENOTED value with TLA+ semantics: {1, 1} = {1};
// f @@ g is left-biased; a function whose domain is 1..n is the tuple; strings know the TLA+ escapes
// \" \\ \t \n \f \r only.

import (
	"fmt"
	"strconv"
	"strings"
)

type parser struct {
	s   string
	pos int
}

type parseError struct{ msg string }

func (e parseError) Error() string { return e.msg }

func (p *parser) fail(format string, a ...any) {
	ctx := p.s[p.pos:]
	if len(ctx) > 30 {
		ctx = ctx[:30]
	}
	panic(parseError{fmt.Sprintf("at offset %d (%q): %s", p.pos, ctx, fmt.Sprintf(format, a...))})
}

func (p *parser) has(lit string) bool { return strings.HasPrefix(p.s[p.pos:], lit) }

func (p *parser) eat(lit string) {
	if !p.has(lit) {
		p.fail("expected %q", lit)
	}
	p.pos += len(lit)
}

func (p *parser) tryEat(lit string) bool {
	if p.has(lit) {
		p.pos += len(lit)
		return true
	}
	return false
}

// parsePrinted returns the canonical form denoted by the printed text.
func parsePrinted(s string) (canon string, err error) {
	defer func() {
		if r := recover(); r != nil {
			if pe, ok := r.(parseError); ok {
				err = pe
				return
			}
			panic(r)
		}
	}()
	p := &parser{s: s}
	canon = p.value()
	if p.pos != len(p.s) {
		p.fail("trailing input")
	}
	return canon, nil
}

func isIdentChar(c byte) bool {
	return c == '_' || (c >= '0' && c <= '9') || (c >= 'a' && c <= 'z') || (c >= 'A' && c <= 'Z')
}

func (p *parser) keyword(w string) bool {
	if !p.has(w) {
		return false
	}
	end := p.pos + len(w)
	if end < len(p.s) && isIdentChar(p.s[end]) {
		return false
	}
	p.pos = end
	return true
}

func (p *parser) value() string {
	if p.pos >= len(p.s) {
		p.fail("unexpected end")
	}
	switch c := p.s[p.pos]; {
	case p.keyword("TRUE"):
		return "T"
	case p.keyword("FALSE"):
		return "F"
	case p.keyword("defaultInitValue"):
		return "D"
	case c == '-' || (c >= '0' && c <= '9'):
		return p.number()
	case c == '"':
		return canonStr(p.str())
	case c == '{':
		p.eat("{")
		var es []string
		if !p.tryEat("}") {
			for {
				es = append(es, p.value())
				if p.tryEat("}") {
					break
				}
				p.eat(", ")
			}
		}
		return canonSet(es)
	case p.has("<<"):
		p.eat("<<")
		var es []string
		if !p.tryEat(">>") {
			for {
				es = append(es, p.value())
				if p.tryEat(">>") {
					break
				}
				p.eat(", ")
			}
		}
		return canonTuple(es)
	case c == '[':
		p.eat(`[x \in {} |-> x]`)
		return canonFn(nil)
	case c == '(':
		p.eat("(")
		var ps []kv
		seen := map[string]bool{}
		for {
			p.eat("(")
			k := p.value()
			p.eat(") :> (")
			v := p.value()
			p.eat(")")
			if !seen[k] { // @@ is left-biased
				seen[k] = true
				ps = append(ps, kv{k, v})
			}
			if p.tryEat(")") {
				break
			}
			p.eat(" @@ ")
		}
		return canonFn(ps)
	}
	p.fail("unexpected character")
	return ""
}

func (p *parser) number() string {
	start := p.pos
	if p.s[p.pos] == '-' {
		p.pos++
	}
	d := p.pos
	for p.pos < len(p.s) && p.s[p.pos] >= '0' && p.s[p.pos] <= '9' {
		p.pos++
	}
	if p.pos == d {
		p.fail("digits expected")
	}
	v, err := strconv.ParseInt(p.s[start:p.pos], 10, 64)
	if err != nil {
		p.fail("number: %v", err)
	}
	return canonInt(v)
}

func (p *parser) str() string {
	p.eat(`"`)
	var sb strings.Builder
	for {
		if p.pos >= len(p.s) {
			p.fail("unterminated string")
		}
		c := p.s[p.pos]
		p.pos++
		switch {
		case c == '"':
			return sb.String()
		case c == '\\':
			if p.pos >= len(p.s) {
				p.fail("unterminated escape")
			}
			e := p.s[p.pos]
			p.pos++
			switch e {
			case '"':
				sb.WriteByte('"')
			case '\\':
				sb.WriteByte('\\')
			case 't':
				sb.WriteByte('\t')
			case 'n':
				sb.WriteByte('\n')
			case 'f':
				sb.WriteByte('\f')
			case 'r':
				sb.WriteByte('\r')
			default:
				p.pos--
				p.fail("escape \\%c is not a TLA+ string escape", e)
			}
		case c < 0x20 || c > 0x7e:
			p.pos--
			p.fail("character %#x outside printable ASCII inside a string", c)
		default:
			sb.WriteByte(c)
		}
	}
}

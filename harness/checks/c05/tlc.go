package main

// Calibration of the printed-form parser (and of the canonical form) against real TLC:
// for a seeded sample of TLC-comparable values, TLC evaluates  printed = expression  where `printed` is the
// text produced by the real tla.Value.String() and `expression` is rendered by the harness from its own
// node (the same value, or a near miss of the same type). The harness's verdict on the same question is
// parse(printed) == canon(node). Any disagreement, or TLC failing on the batch, is a harness problem:
// the batch is inconclusive, never a violation.

import (
	"context"
	"fmt"
	"os"
	"os/exec"
	"path/filepath"
	"regexp"
	"strconv"
	"strings"
	"time"

	"github.com/DistCompiler/pgo/distsys/tla"
)

type calibCase struct {
	Type     string `json:"type"`
	Printed  string `json:"printed"`
	Expr     string `json:"expression"`
	Harness  bool   `json:"harness_says_equal"`
	SameNode bool   `json:"same_node"`
}

type calibResult struct {
	cases        int
	agreeTrue    int
	agreeFalse   int
	inconclusive []string
	samples      []calibCase
}

var tlcLine = regexp.MustCompile(`<<"r", (\d+), (TRUE|FALSE)>>`)

func genCalibCases(seed uint64, n int) []calibCase {
	var out []calibCase
	for i := 0; len(out) < n && i < 20*n; i++ {
		rng := newRng(mix(seed, 0xca11b, uint64(i)))
		t := genType(rng, 1+rng.Intn(3))
		a := genTyped(rng, t, 0.03)
		b := a
		same := true
		if rng.Intn(2) == 0 {
			if p := perturbTyped(rng, a, t); p != nil {
				b, same = p, false
			}
		}
		var printed string
		bd := &builder{rng: newRng(rng.Uint64()), varied: true}
		if pi := try(func() { printed = bd.build(a).String() }); pi != nil {
			continue // e.g. the known panic on tuples holding defaultInitValue while building a set
		}
		pc, err := parsePrinted(printed)
		if err != nil {
			// the children report this as a violation on their own sample; it cannot be calibrated
			continue
		}
		out = append(out, calibCase{Type: t.String(), Printed: printed, Expr: b.render(), Harness: pc == b.canon(), SameNode: same})
	}
	return out
}

func runTLCBatch(dir string, batch int, cases []calibCase, watchdog time.Duration) (verdicts map[int]bool, problem string) {
	mod := fmt.Sprintf("Calib%d", batch)
	bdir := filepath.Join(dir, mod)
	if err := os.MkdirAll(bdir, 0o755); err != nil {
		return nil, err.Error()
	}
	var sb strings.Builder
	fmt.Fprintf(&sb, "---- MODULE %s ----\nEXTENDS Integers, Sequences, FiniteSets, TLC\nCONSTANT defaultInitValue\n", mod)
	for i, c := range cases {
		fmt.Fprintf(&sb, "ASSUME PrintT(<<\"r\", %d, (%s) = (%s)>>)\n", i, c.Printed, c.Expr)
	}
	sb.WriteString("====\n")
	if err := os.WriteFile(filepath.Join(bdir, mod+".tla"), []byte(sb.String()), 0o644); err != nil {
		return nil, err.Error()
	}
	if err := os.WriteFile(filepath.Join(bdir, mod+".cfg"), []byte("CONSTANT defaultInitValue = defaultInitValue\n"), 0o644); err != nil {
		return nil, err.Error()
	}
	ctx, cancel := context.WithTimeout(context.Background(), watchdog)
	defer cancel()
	cmd := exec.CommandContext(ctx, "tlc", "-workers", "1", "-metadir", filepath.Join(bdir, "states"), "-config", mod+".cfg", mod+".tla")
	cmd.Dir = bdir
	outb, err := cmd.CombinedOutput()
	out := string(outb)
	verdicts = map[int]bool{}
	for _, m := range tlcLine.FindAllStringSubmatch(out, -1) {
		i, _ := strconv.Atoi(m[1])
		verdicts[i] = m[2] == "TRUE"
	}
	if ctx.Err() != nil {
		return verdicts, "TLC watchdog expired"
	}
	if len(verdicts) < len(cases) {
		tail := out
		if idx := strings.Index(tail, "Error:"); idx >= 0 {
			tail = tail[idx:]
		}
		if len(tail) > 600 {
			tail = tail[:600]
		}
		next := len(verdicts)
		detail := ""
		if next < len(cases) {
			detail = fmt.Sprintf(" (first unanswered case %d: (%s) = (%s))", next, short(cases[next].Printed), short(cases[next].Expr))
		}
		return verdicts, fmt.Sprintf("TLC answered %d of %d cases, err=%v%s: %s", len(verdicts), len(cases), err, detail, strings.TrimSpace(tail))
	}
	return verdicts, ""
}

func calibrate(seed uint64, perBatch, batches int, dir string) calibResult {
	var res calibResult
	if _, err := exec.LookPath("tlc"); err != nil {
		res.inconclusive = append(res.inconclusive, "calibration: tlc not on PATH")
		return res
	}
	_ = tla.ModuleTRUE
	type br struct {
		cases    []calibCase
		verdicts map[int]bool
		problem  string
	}
	results := make([]br, batches)
	done := make(chan int, batches)
	sem := make(chan struct{}, 4)
	for b := 0; b < batches; b++ {
		go func(b int) {
			sem <- struct{}{}
			defer func() { <-sem; done <- b }()
			cs := genCalibCases(mix(seed, uint64(b)), perBatch)
			v, p := runTLCBatch(dir, b, cs, 5*time.Minute)
			results[b] = br{cs, v, p}
		}(b)
	}
	for b := 0; b < batches; b++ {
		<-done
	}
	for b, r := range results {
		if r.problem != "" {
			res.inconclusive = append(res.inconclusive, fmt.Sprintf("calibration batch %d: %s", b, r.problem))
		}
		for i, c := range r.cases {
			v, ok := r.verdicts[i]
			if !ok {
				continue
			}
			res.cases++
			if v != c.Harness {
				res.inconclusive = append(res.inconclusive, fmt.Sprintf("calibration disagreement (harness bug): TLC says (%s) = (%s) is %v, the parser says %v", short(c.Printed), short(c.Expr), v, c.Harness))
				continue
			}
			if v {
				res.agreeTrue++
			} else {
				res.agreeFalse++
			}
			if len(res.samples) < 3 && len(c.Printed) > 12 && len(c.Printed) < 160 {
				res.samples = append(res.samples, c)
			}
		}
	}
	return res
}

package main

// Phase "wire": gob round-trips of tla.VClock and of the CRDT states that distsys/resources broadcasts
// (GCounter, AWORSet, LWWSet), alone and inside the RPC argument struct (an interface-typed field).
// The states have no Equal; "decodes to an equal value" is decided on their complete content (read through
// exported API where there is one, through reflection for the unexported maps) and on Read().

import (
	"bytes"
	"encoding/gob"
	"fmt"
	"math/rand"
	"reflect"
	"sort"
	"strings"
	"time"
	"unsafe"

	"github.com/DistCompiler/pgo/distsys/resources"
	"github.com/DistCompiler/pgo/distsys/tla"
	"github.com/benbjohnson/immutable"
)

func unexported[T any](structPtr any, field string) (out T, err error) {
	rv := reflect.ValueOf(structPtr).Elem()
	f := rv.FieldByName(field)
	if !f.IsValid() {
		return out, fmt.Errorf("no field %s in %s", field, rv.Type())
	}
	v := reflect.NewAt(f.Type(), unsafe.Pointer(f.UnsafeAddr())).Elem().Interface()
	t, ok := v.(T)
	if !ok {
		return out, fmt.Errorf("field %s of %s has type %s", field, rv.Type(), f.Type())
	}
	return t, nil
}

func gcounterContent(c resources.GCounter) string {
	if c.Map == nil {
		return "nil"
	}
	var ps []string
	it := c.Iterator()
	for !it.Done() {
		k, v, _ := it.Next()
		kc, _ := canonOf(k)
		ps = append(ps, fmt.Sprintf("%s:%d", kc, v))
	}
	sort.Strings(ps)
	return "gc[" + strings.Join(ps, " ") + "]"
}

func aworsetContent(s resources.AWORSet) (string, error) {
	var parts []string
	for _, f := range []string{"addMap", "remMap"} {
		m, err := unexported[*immutable.Map[tla.Value, resources.GCounter]](&s, f)
		if err != nil {
			return "", err
		}
		var ps []string
		if m != nil {
			it := m.Iterator()
			for !it.Done() {
				k, v, _ := it.Next()
				kc, _ := canonOf(k)
				ps = append(ps, kc+"->"+gcounterContent(v))
			}
		}
		sort.Strings(ps)
		parts = append(parts, f+"{"+strings.Join(ps, " ")+"}")
	}
	return strings.Join(parts, " "), nil
}

func lwwsetContent(s resources.LWWSet) (string, error) {
	var parts []string
	for _, f := range []string{"addSet", "remSet"} {
		m, err := unexported[*immutable.Map[tla.Value, time.Time]](&s, f)
		if err != nil {
			return "", err
		}
		var ps []string
		if m != nil {
			it := m.Iterator()
			for !it.Done() {
				k, v, _ := it.Next()
				kc, _ := canonOf(k)
				ps = append(ps, fmt.Sprintf("%s->%d", kc, v.UnixNano()))
			}
		}
		sort.Strings(ps)
		parts = append(parts, f+"{"+strings.Join(ps, " ")+"}")
	}
	return strings.Join(parts, " "), nil
}

func crdtContent(v resources.CRDTValue) (string, error) {
	switch s := v.(type) {
	case resources.GCounter:
		return gcounterContent(s), nil
	case resources.AWORSet:
		return aworsetContent(s)
	case resources.LWWSet:
		return lwwsetContent(s)
	}
	return "", fmt.Errorf("unknown CRDT type %T", v)
}

// sendCRDT: direct (interface-typed top-level value, as a stream would) or inside ReceiveValueArgs (net/rpc).
func sendCRDT(v resources.CRDTValue, inArgs bool) (out resources.CRDTValue, err error) {
	var buf bytes.Buffer
	enc, dec := gob.NewEncoder(&buf), gob.NewDecoder(&buf)
	if inArgs {
		if err = enc.Encode(resources.ReceiveValueArgs{Value: v}); err != nil {
			return nil, fmt.Errorf("encode: %w", err)
		}
		var got resources.ReceiveValueArgs
		if err = dec.Decode(&got); err != nil {
			return nil, fmt.Errorf("decode: %w", err)
		}
		return got.Value, nil
	}
	if err = enc.Encode(&v); err != nil {
		return nil, fmt.Errorf("encode: %w", err)
	}
	if err = dec.Decode(&out); err != nil {
		return nil, fmt.Errorf("decode: %w", err)
	}
	return out, nil
}

func genID(rng *rand.Rand) *node {
	switch rng.Intn(4) {
	case 0:
		return nStr([]string{"n1", "n2", "n3", `q"\`}[rng.Intn(4)])
	case 1:
		return nTup(nStr("node"), nInt(int32(rng.Intn(3))))
	default:
		return nInt(int32(rng.Intn(4)))
	}
}

func (e *env) runWire(spec caseSpec) (fs []failure) {
	rng := newRng(mix(spec.RSeed, 5))
	b := &builder{rng: newRng(mix(spec.RSeed, 6)), varied: true, recipes: e.recipes}
	fail := func(class, format string, a ...any) {
		fs = append(fs, failure{Class: class, Detail: fmt.Sprintf(format, a...)})
	}
	// --- tla.VClock
	if pi := try(func() {
		e.tick("vclock-roundtrip")
		var c tla.VClock
		model := map[string]int{}
		type ck struct {
			name string
			self *node
		}
		var keys []ck
		for i := rng.Intn(5); i > 0; i-- {
			k := ck{[]string{"AServer", "AClient", `A"x`}[rng.Intn(3)], genID(rng)}
			keys = append(keys, k)
			for j := 1 + rng.Intn(3); j > 0; j-- {
				c = c.Inc(k.name, b.build(k.self))
				model[k.name+"|"+k.self.canon()]++
			}
		}
		if rng.Intn(3) == 0 {
			c = c.Merge(genClock(rng)).Merge(c)
		}
		var buf bytes.Buffer
		var out tla.VClock
		if err := gob.NewEncoder(&buf).Encode(&c); err != nil {
			fail("wire:VClock:error", "encode %v: %v", c, err)
			return
		}
		if err := gob.NewDecoder(&buf).Decode(&out); err != nil {
			fail("wire:VClock:error", "decode %v: %v", c, err)
			return
		}
		if a, d := vclockSig(c), vclockSig(out); a != d {
			fail("wire:VClock:content-differs", "sent %s received %s", short(a), short(d))
			return
		}
		for _, k := range keys {
			if got, was := out.Get(k.name, b.build(k.self)), c.Get(k.name, b.build(k.self)); got != was || got < model[k.name+"|"+k.self.canon()] {
				fail("wire:VClock:entry-differs", "entry <<%q, %s>>: sent %d (incremented %d times), received %d", k.name, k.self.render(), was, model[k.name+"|"+k.self.canon()], got)
				return
			}
		}
	}); pi != nil {
		fail("wire:VClock:"+pi.class, "%s", pi.msg)
	}

	// --- CRDT states
	nrep := 2 + rng.Intn(2)
	ids := make([]*node, nrep)
	for i := range ids {
		ids[i] = nInt(int32(i + 1))
		if rng.Intn(3) == 0 {
			ids[i] = nTup(nStr("r"), nInt(int32(i+1)))
		}
	}
	elemPool := make([]*node, 1+rng.Intn(4))
	for i := range elemPool {
		bd := 6
		elemPool[i] = gen(rng, 2, &bd, genOpts{})
	}
	for _, typ := range []string{"GCounter", "AWORSet", "LWWSet"} {
		if pi := try(func() {
			reps := make([]resources.CRDTValue, nrep)
			for i := range reps {
				switch typ {
				case "GCounter":
					reps[i] = resources.GCounter{}.Init()
				case "AWORSet":
					reps[i] = resources.AWORSet{}.Init()
				default:
					reps[i] = resources.LWWSet{}.Init()
				}
			}
			for op := rng.Intn(12); op > 0; op-- {
				i := rng.Intn(nrep)
				if rng.Intn(4) == 0 {
					reps[i] = reps[i].Merge(reps[rng.Intn(nrep)])
					continue
				}
				if typ == "GCounter" {
					reps[i] = reps[i].Write(b.build(ids[i]), tla.MakeNumber(int32(1+rng.Intn(3))))
				} else {
					cmd := tla.MakeRecord([]tla.RecordField{
						{Key: tla.MakeString("cmd"), Value: tla.MakeNumber(int32(1 + rng.Intn(2)))},
						{Key: tla.MakeString("elem"), Value: b.build(elemPool[rng.Intn(len(elemPool))])},
					})
					reps[i] = reps[i].Write(b.build(ids[i]), cmd)
				}
			}
			for _, st := range reps {
				inArgs := rng.Intn(2) == 0
				e.tick("crdt-roundtrip:" + typ)
				before, err := crdtContent(st)
				if err != nil {
					fail("harness:cannot-read-crdt-state", "%v", err)
					return
				}
				got, err := sendCRDT(st, inArgs)
				if err != nil {
					fail("wire:"+typ+":error", "state %s (in RPC args: %v): %v", short(before), inArgs, err)
					return
				}
				if reflect.TypeOf(got) != reflect.TypeOf(st) {
					fail("wire:"+typ+":type-changed", "sent %T received %T", st, got)
					return
				}
				after, err := crdtContent(got)
				if err != nil {
					fail("harness:cannot-read-crdt-state", "%v", err)
					return
				}
				if before != after {
					fail("wire:"+typ+":content-differs", "sent %s received %s (in RPC args: %v)", short(before), short(after), inArgs)
					return
				}
				r1, _ := canonOf(st.Read())
				r2, _ := canonOf(got.Read())
				if r1 != r2 {
					fail("wire:"+typ+":read-differs", "Read() before %s after %s", short(r1), short(r2))
					return
				}
				// the decoded state must behave like the original under the next operation
				var next tla.Value
				if typ == "GCounter" {
					next = tla.MakeNumber(2)
				} else {
					next = tla.MakeRecord([]tla.RecordField{
						{Key: tla.MakeString("cmd"), Value: tla.MakeNumber(int32(1 + rng.Intn(2)))},
						{Key: tla.MakeString("elem"), Value: b.build(elemPool[rng.Intn(len(elemPool))])},
					})
				}
				who := b.build(ids[rng.Intn(nrep)])
				n1, n2 := st.Write(who, next), got.Write(who, next)
				r1, _ = canonOf(n1.Read())
				r2, _ = canonOf(n2.Read())
				if r1 != r2 {
					fail("wire:"+typ+":decoded-state-behaves-differently", "after Write(%s, %s): Read() %s on the original, %s on the decoded copy", show(who), show(next), short(r1), short(r2))
					return
				}
				if typ != "LWWSet" { // LWWSet stamps wall-clock time on every write
					c1, _ := crdtContent(n1)
					c2, _ := crdtContent(n2)
					if c1 != c2 {
						fail("wire:"+typ+":decoded-state-behaves-differently", "after Write(%s, %s): %s on the original, %s on the decoded copy", show(who), show(next), short(c1), short(c2))
					}
				}
			}
		}); pi != nil {
			fail("wire:"+typ+":"+pi.class, "%s", pi.msg)
		}
	}
	return fs
}

package main

import (
	"bytes"
	"encoding/gob"
	"errors"
	"fmt"
	"runtime"
	"sort"
	"strings"

	"github.com/DistCompiler/pgo/distsys/hashmap"
	"github.com/DistCompiler/pgo/distsys/resources"
	"github.com/DistCompiler/pgo/distsys/tla"
	"github.com/benbjohnson/immutable"
)

// A case is fully described by (phase, nodes, rseed): running it again gives the same verdict.
type caseSpec struct {
	Phase string  `json:"phase"`
	Nodes []*node `json:"nodes"`
	RSeed uint64  `json:"rseed,string"`
}

type failure struct {
	Class  string `json:"class"`           // oracle and outcome, e.g. "equal:same-value-unequal"
	Shape  string `json:"shape,omitempty"` // localised operand kinds when the oracle can tell
	Ops    []int  `json:"ops,omitempty"`   // indices of spec.Nodes involved
	Detail string `json:"detail"`
}

type env struct {
	causal  bool
	counts  map[string]int // oracle evaluations by name
	recipes map[string]int
	// observations
	hashCollisions int // distinct values with equal Hash met by an oracle
	wrappedValues  int
}

func newEnv(causal bool) *env {
	return &env{causal: causal, counts: map[string]int{}, recipes: map[string]int{}}
}

func (e *env) tick(name string) { e.counts[name]++ }

// ---- panic capture --------------------------------------------------------------------------------------

type panicInfo struct {
	class string
	msg   string
}

func classifyPanic(r any) panicInfo {
	if be, ok := r.(buildError); ok {
		return panicInfo{"gob:while-building:error", be.err.Error()}
	}
	if err, ok := r.(error); ok {
		var re runtime.Error
		if errors.As(err, &re) {
			if strings.Contains(err.Error(), "nil pointer") {
				return panicInfo{"panic:nil-deref", err.Error()}
			}
			return panicInfo{"panic:runtime-error", err.Error()}
		}
		if errors.Is(err, tla.ErrTLAType) {
			return panicInfo{"panic:tla-type-error", err.Error()}
		}
		return panicInfo{"panic:error", err.Error()}
	}
	return panicInfo{"panic:other", fmt.Sprint(r)}
}

// try runs f; a panic is returned instead of propagating.
func try(f func()) (pi *panicInfo) {
	defer func() {
		if r := recover(); r != nil {
			p := classifyPanic(r)
			pi = &p
		}
	}()
	f()
	return nil
}

func safeEqual(a, b tla.Value) (eq bool, pi *panicInfo) {
	pi = try(func() { eq = a.Equal(b) })
	return
}

func safeHash(a tla.Value) (h uint32, pi *panicInfo) {
	pi = try(func() { h = a.Hash() })
	return
}

func short(s string) string {
	if len(s) > 300 {
		return s[:300] + "…"
	}
	return s
}

func show(v tla.Value) (s string) {
	if pi := try(func() { s = v.String() }); pi != nil {
		return "<String() panicked: " + pi.msg + ">"
	}
	return short(s)
}

// localise descends into two values with the same structure to the innermost pair on which bad() still holds,
// and returns the kinds of that pair (sorted).
func localise(a, b tla.Value, bad func(a, b tla.Value) bool) string {
	var sub string
	_ = try(func() {
		switch {
		case a.IsSet() && b.IsSet():
			bi := map[string]tla.Value{}
			it := b.AsSet().Iterator()
			for !it.Done() {
				e, _, _ := it.Next()
				c, _ := canonOf(e)
				bi[c] = e
			}
			it = a.AsSet().Iterator()
			for !it.Done() {
				e, _, _ := it.Next()
				c, _ := canonOf(e)
				if o, ok := bi[c]; ok && bad(e, o) {
					sub = localise(e, o, bad)
					return
				}
			}
		case a.IsTuple() && b.IsTuple() && a.AsTuple().Len() == b.AsTuple().Len():
			for i := 0; i < a.AsTuple().Len(); i++ {
				x, y := a.AsTuple().Get(i), b.AsTuple().Get(i)
				if bad(x, y) {
					sub = localise(x, y, bad)
					return
				}
			}
		case a.IsFunction() && b.IsFunction():
			type ent struct{ k, v tla.Value }
			bi := map[string]ent{}
			it := b.AsFunction().Iterator()
			for !it.Done() {
				k, v, _ := it.Next()
				c, _ := canonOf(k)
				bi[c] = ent{k, v}
			}
			it = a.AsFunction().Iterator()
			for !it.Done() {
				k, v, _ := it.Next()
				c, _ := canonOf(k)
				if o, ok := bi[c]; ok {
					if bad(k, o.k) {
						sub = localise(k, o.k, bad)
						return
					}
					if bad(v, o.v) {
						sub = localise(v, o.v, bad)
						return
					}
				}
			}
		}
	})
	if sub != "" {
		return sub
	}
	return kindsPair(a, b)
}

func kindsPair(a, b tla.Value) string {
	ks := []string{kindOf(a), kindOf(b)}
	sort.Strings(ks)
	return ks[0] + "-vs-" + ks[1]
}

func sameCanon(a, b tla.Value) bool {
	ca, _ := canonOf(a)
	cb, _ := canonOf(b)
	return ca == cb
}

func badSameUnequal(a, b tla.Value) bool {
	if !sameCanon(a, b) {
		return false
	}
	e1, p1 := safeEqual(a, b)
	e2, p2 := safeEqual(b, a)
	return p1 != nil || p2 != nil || !e1 || !e2
}

func badDiffEqual(a, b tla.Value) bool {
	if sameCanon(a, b) {
		return false
	}
	e1, _ := safeEqual(a, b)
	e2, _ := safeEqual(b, a)
	return e1 || e2
}

func badHash(a, b tla.Value) bool {
	if !sameCanon(a, b) {
		return false
	}
	ha, _ := safeHash(a)
	hb, _ := safeHash(b)
	return ha != hb
}

// comparePair checks Equal against the canonical forms (want = same mathematical value), symmetry and
// Equal => equal Hash. ok reports that Equal agreed with want in both directions.
func (e *env) comparePair(a, b tla.Value, want bool, ops []int, fs *[]failure) (ok bool) {
	e.tick("equal-vs-canonical-form")
	e1, p1 := safeEqual(a, b)
	e2, p2 := safeEqual(b, a)
	if p1 != nil || p2 != nil {
		p := p1
		if p == nil {
			p = p2
		}
		*fs = append(*fs, failure{Class: p.class, Ops: ops, Detail: fmt.Sprintf("Equal panicked on %s and %s: %s", show(a), show(b), p.msg)})
		return false
	}
	e.tick("equal-symmetric")
	if e1 != e2 {
		*fs = append(*fs, failure{Class: "equal:asymmetric", Shape: localise(a, b, func(x, y tla.Value) bool {
			r1, _ := safeEqual(x, y)
			r2, _ := safeEqual(y, x)
			return r1 != r2
		}), Ops: ops, Detail: fmt.Sprintf("a.Equal(b)=%v but b.Equal(a)=%v for a=%s b=%s", e1, e2, show(a), show(b))})
		return false
	}
	if e1 != want {
		if want {
			*fs = append(*fs, failure{Class: "equal:same-value-unequal", Shape: localise(a, b, badSameUnequal), Ops: ops,
				Detail: fmt.Sprintf("%s and %s denote the same value but Equal is false", show(a), show(b))})
		} else {
			*fs = append(*fs, failure{Class: "equal:different-values-equal", Shape: localise(a, b, badDiffEqual), Ops: ops,
				Detail: fmt.Sprintf("%s and %s denote different values but Equal is true", show(a), show(b))})
		}
		return false
	}
	ha, pa := safeHash(a)
	hb, pb := safeHash(b)
	if pa != nil || pb != nil {
		p := pa
		if p == nil {
			p = pb
		}
		*fs = append(*fs, failure{Class: p.class, Ops: ops, Detail: "Hash panicked: " + p.msg})
		return false
	}
	if e1 {
		e.tick("equal-implies-equal-hash")
		if ha != hb {
			*fs = append(*fs, failure{Class: "hash:equal-values-hash-differently", Shape: localise(a, b, badHash), Ops: ops,
				Detail: fmt.Sprintf("%s (hash %#x) Equal %s (hash %#x)", show(a), ha, show(b), hb)})
			return false
		}
	} else if ha == hb {
		e.hashCollisions++
	}
	return true
}

// dupFailure: a collection holds two members with the same canonical form. If the implementation's Equal says
// they differ, that disagreement is the root cause and is reported as such.
func (e *env) dupFailure(p dupProblem, where string) failure {
	if p.a != (tla.Value{}) || p.b != (tla.Value{}) {
		var sub []failure
		if !e.comparePair(p.a, p.b, true, []int{0}, &sub) && len(sub) > 0 {
			return sub[0]
		}
	}
	return failure{Class: "collection:equal-members-kept-twice", Ops: []int{0}, Detail: where + ": " + p.msg}
}

// ---- gob ------------------------------------------------------------------------------------------------------

type wireKV struct {
	K tla.Value
	N int32
}

type wireMsg struct {
	Tag  int
	V    tla.Value
	Vs   []tla.Value
	KVs  []wireKV // like resources.GCounterKeyVal / AWORSetKeyVal
	Tail string
}

var gobModes = []string{"single", "stream", "twopc-struct", "slices-in-struct"}

// gobVia sends v (with companions) the way the runtime does and returns the decoded copy of v.
func gobVia(mode string, v tla.Value, others []tla.Value) (out tla.Value, err error) {
	var buf bytes.Buffer
	enc := gob.NewEncoder(&buf)
	dec := gob.NewDecoder(&buf)
	switch mode {
	case "single":
		if err = enc.Encode(&v); err != nil {
			return out, fmt.Errorf("encode: %w", err)
		}
		if err = dec.Decode(&out); err != nil {
			return out, fmt.Errorf("decode: %w", err)
		}
	case "stream": // tcpmailboxes: one long-lived encoder per connection, a tag then the value, many times
		seq := append(append([]tla.Value{}, others...), v)
		for i := range seq {
			if err = enc.Encode(i + 2); err != nil {
				return out, fmt.Errorf("encode tag: %w", err)
			}
			if err = enc.Encode(&seq[i]); err != nil {
				return out, fmt.Errorf("encode: %w", err)
			}
		}
		for i := range seq {
			var tag int
			if err = dec.Decode(&tag); err != nil {
				return out, fmt.Errorf("decode tag: %w", err)
			}
			if tag != i+2 {
				return out, fmt.Errorf("decode: tag %d, want %d (stream desynchronised)", tag, i+2)
			}
			var d tla.Value
			if err = dec.Decode(&d); err != nil {
				return out, fmt.Errorf("decode: %w", err)
			}
			out = d
		}
	case "twopc-struct": // net/rpc argument structs
		req := resources.TwoPCRequest{RequestType: 1, Value: v, Version: 7, SenderTime: 42}
		if len(others) > 0 {
			req.Sender = others[0]
		}
		if err = enc.Encode(&req); err != nil {
			return out, fmt.Errorf("encode: %w", err)
		}
		var got resources.TwoPCRequest
		if err = dec.Decode(&got); err != nil {
			return out, fmt.Errorf("decode: %w", err)
		}
		if got.Version != 7 || got.SenderTime != 42 || got.RequestType != 1 {
			return out, fmt.Errorf("decode: neighbouring struct fields changed: %+v", got)
		}
		out = got.Value
	case "slices-in-struct":
		msg := wireMsg{Tag: 5, Vs: append(append([]tla.Value{}, others...), v), KVs: []wireKV{{v, 3}, {v, 4}}, Tail: "end"}
		if len(others) > 0 {
			msg.V = others[0]
		}
		if err = enc.Encode(&msg); err != nil {
			return out, fmt.Errorf("encode: %w", err)
		}
		var got wireMsg
		if err = dec.Decode(&got); err != nil {
			return out, fmt.Errorf("decode: %w", err)
		}
		if got.Tag != 5 || got.Tail != "end" || len(got.Vs) != len(msg.Vs) || len(got.KVs) != 2 || got.KVs[0].N != 3 || got.KVs[1].N != 4 {
			return out, fmt.Errorf("decode: message frame changed: tag=%d tail=%q len=%d", got.Tag, got.Tail, len(got.Vs))
		}
		out = got.Vs[len(got.Vs)-1]
		if eq, pi := safeEqual(out, got.KVs[1].K); pi == nil && !eq {
			return out, fmt.Errorf("decode: the same value decoded differently in two places of one message: %s vs %s", show(out), show(got.KVs[1].K))
		}
	}
	return out, nil
}

func (e *env) checkGob(mode string, v tla.Value, others []tla.Value, canon string, fs *[]failure) {
	e.tick("gob-roundtrip:" + mode)
	var d tla.Value
	var err error
	if pi := try(func() { d, err = gobVia(mode, v, others) }); pi != nil {
		*fs = append(*fs, failure{Class: "gob:" + mode + ":" + pi.class, Ops: []int{0}, Detail: fmt.Sprintf("gob round-trip of %s panicked: %s", show(v), pi.msg)})
		return
	}
	if err != nil {
		*fs = append(*fs, failure{Class: "gob:" + mode + ":error", Ops: []int{0}, Detail: fmt.Sprintf("gob round-trip of %s: %v", show(v), err)})
		return
	}
	dc, probs := canonOf(d)
	if len(probs) > 0 {
		f := e.dupFailure(probs[0], "decoded copy of "+show(v))
		if !strings.HasPrefix(f.Class, "equal:") {
			f.Class = "gob:" + mode + ":" + f.Class
		}
		*fs = append(*fs, f)
		return
	}
	if dc != canon {
		*fs = append(*fs, failure{Class: "gob:" + mode + ":content-differs", Ops: []int{0}, Detail: fmt.Sprintf("sent %s, received %s %v", show(v), show(d), probs)})
		return
	}
	e1, p1 := safeEqual(d, v)
	e2, p2 := safeEqual(v, d)
	if p1 != nil || p2 != nil {
		p := p1
		if p == nil {
			p = p2
		}
		*fs = append(*fs, failure{Class: p.class, Ops: []int{0}, Detail: "Equal(decoded, sent) panicked: " + p.msg})
		return
	}
	if !e1 || !e2 {
		*fs = append(*fs, failure{Class: "gob:" + mode + ":decoded-unequal", Shape: localise(v, d, badSameUnequal), Ops: []int{0},
			Detail: fmt.Sprintf("sent %s, received %s with the same content, but Equal is false", show(v), show(d))})
		return
	}
	hv, _ := safeHash(v)
	hd, _ := safeHash(d)
	if hv != hd {
		*fs = append(*fs, failure{Class: "gob:" + mode + ":hash-differs", Shape: localise(v, d, badHash), Ops: []int{0},
			Detail: fmt.Sprintf("sent %s (hash %#x), received Equal value with hash %#x", show(v), hv, hd)})
		return
	}
	e.tick("gob-clock-preserved")
	if cs, cd := clockSig(v), clockSig(d); cs != cd {
		*fs = append(*fs, failure{Class: "gob:" + mode + ":clock-changed", Ops: []int{0},
			Detail: fmt.Sprintf("vector clocks attached to %s changed in transit: sent %s received %s", show(v), short(cs), short(cd))})
	}
}

// ---- phase "value": one value, several constructions -------------------------------------------------------------------

func (e *env) builders(rng uint64) []*builder {
	wrap := 0.0
	if e.causal {
		wrap = 0.12
	}
	return []*builder{
		{rng: newRng(mix(rng, 1)), varied: false, recipes: e.recipes},
		{rng: newRng(mix(rng, 2)), varied: true, wrap: wrap, gobp: 0.01, recipes: e.recipes},
		{rng: newRng(mix(rng, 3)), varied: true, wrap: wrap * 2, gobp: 0.01, recipes: e.recipes},
	}
}

func (e *env) runValue(spec caseSpec) (fs []failure) {
	n := spec.Nodes[0]
	canon := n.kcanon()    // Equal / Hash / gob / read-back: tuples and functions are distinct kinds
	mathCanon := n.canon() // printed form: what the TLA+ expression denotes
	rng := newRng(mix(spec.RSeed, 99))
	bs := e.builders(spec.RSeed)
	vals := make([]tla.Value, len(bs))
	for i, b := range bs {
		if pi := try(func() { vals[i] = b.build(n) }); pi != nil {
			return append(fs, failure{Class: pi.class, Ops: []int{0}, Detail: fmt.Sprintf("building %s panicked: %s", short(n.render()), pi.msg)})
		}
		e.wrappedValues += b.wrapped
	}
	// what was built is what was asked for
	for i, v := range vals {
		e.tick("content-read-back")
		var c string
		var probs []dupProblem
		if pi := try(func() { c, probs = canonOf(v) }); pi != nil {
			return append(fs, failure{Class: pi.class, Ops: []int{0}, Detail: "reading the value back panicked: " + pi.msg})
		}
		if len(probs) > 0 {
			return append(fs, e.dupFailure(probs[0], fmt.Sprintf("construction %d of %s", i, short(n.render()))))
		}
		if c != canon {
			return append(fs, failure{Class: "construct:content-differs", Ops: []int{0}, Detail: fmt.Sprintf("construction %d of %s reads back as %s", i, short(n.render()), show(v))})
		}
	}
	// reflexive
	for _, v := range vals {
		e.tick("equal-reflexive")
		eq, pi := safeEqual(v, v)
		if pi != nil {
			return append(fs, failure{Class: pi.class, Ops: []int{0}, Detail: fmt.Sprintf("v.Equal(v) panicked for v=%s: %s", show(v), pi.msg)})
		}
		if !eq {
			return append(fs, failure{Class: "equal:not-reflexive", Shape: localise(v, v, func(x, y tla.Value) bool { r, _ := safeEqual(x, y); return !r }), Ops: []int{0},
				Detail: fmt.Sprintf("v.Equal(v) is false for v=%s", show(v))})
		}
	}
	allEqual := true
	for i := range vals {
		for j := i + 1; j < len(vals); j++ {
			if !e.comparePair(vals[i], vals[j], true, []int{0}, &fs) {
				allEqual = false
			}
		}
	}
	// printed form
	for _, v := range vals {
		e.tick("printed-form-denotes-value")
		var s string
		if pi := try(func() { s = v.String() }); pi != nil {
			fs = append(fs, failure{Class: pi.class, Ops: []int{0}, Detail: "String() panicked: " + pi.msg})
			continue
		}
		pc, err := parsePrinted(s)
		if err != nil {
			fs = append(fs, failure{Class: "string:not-in-printed-tla-sublanguage", Ops: []int{0}, Detail: fmt.Sprintf("String() = %s: %v", short(s), err)})
		} else if pc != mathCanon {
			fs = append(fs, failure{Class: "string:denotes-other-value", Ops: []int{0}, Detail: fmt.Sprintf("String() = %s denotes %s, the value is %s", short(s), short(pc), short(mathCanon))})
		}
	}
	if len(fs) > 0 || !allEqual {
		return fs
	}
	// membership / lookup agree with equality
	if pi := try(func() {
		e.tick("set-membership-agrees")
		if s := tla.MakeSet(vals[0], vals[1], vals[2]); s.AsSet().Len() != 1 {
			fs = append(fs, failure{Class: "set:equal-members-kept-twice", Ops: []int{0}, Detail: fmt.Sprintf("MakeSet of three constructions of %s has %d elements", show(vals[0]), s.AsSet().Len())})
		}
		if !tla.ModuleInSymbol(vals[1], tla.MakeSet(vals[0], junk(20))).AsBool() {
			fs = append(fs, failure{Class: "set:membership-misses-equal-value", Ops: []int{0}, Detail: fmt.Sprintf("%s \\in {%s, junk} is FALSE", show(vals[1]), show(vals[0]))})
		}
		e.tick("function-lookup-agrees")
		f := tla.ModuleDoubleAtSignSymbol(tla.ModuleColonGreaterThanSymbol(vals[0], tla.MakeNumber(7)), tla.ModuleColonGreaterThanSymbol(junk(21), tla.MakeNumber(8)))
		if got, ok := f.AsFunction().Get(vals[2]); !ok || !got.Equal(tla.MakeNumber(7)) {
			fs = append(fs, failure{Class: "function:lookup-misses-equal-key", Ops: []int{0}, Detail: fmt.Sprintf("(%s :> 7)[%s] not found", show(vals[0]), show(vals[2]))})
		}
	}); pi != nil {
		fs = append(fs, failure{Class: pi.class, Ops: []int{0}, Detail: "membership/lookup panicked: " + pi.msg})
	}
	// wire: one of the constructions, in one of the shapes the runtime uses (gob dominates the cost of a case)
	{
		i := rng.Intn(len(vals))
		mode := gobModes[rng.Intn(len(gobModes))]
		var others []tla.Value
		for j := range vals {
			if j != i && rng.Intn(2) == 0 {
				others = append(others, vals[j])
			}
		}
		e.checkGob(mode, vals[i], others, canon, &fs)
	}
	return fs
}

// ---- phase "pair": three near-equal values -------------------------------------------------------------------------------

func (e *env) runPair(spec caseSpec) (fs []failure) {
	wrap := 0.0
	if e.causal {
		wrap = 0.1
	}
	vals := make([]tla.Value, len(spec.Nodes))
	canons := make([]string, len(spec.Nodes))
	for i, n := range spec.Nodes {
		b := &builder{rng: newRng(mix(spec.RSeed, uint64(i))), varied: true, wrap: wrap, gobp: 0.004, recipes: e.recipes}
		if pi := try(func() { vals[i] = b.build(n) }); pi != nil {
			return append(fs, failure{Class: pi.class, Ops: []int{i}, Detail: fmt.Sprintf("building %s panicked: %s", short(n.render()), pi.msg)})
		}
		e.wrappedValues += b.wrapped
		canons[i] = n.kcanon()
	}
	eq := map[[2]int]bool{}
	okAll := true
	for i := range vals {
		for j := i + 1; j < len(vals); j++ {
			want := canons[i] == canons[j]
			ok := e.comparePair(vals[i], vals[j], want, []int{i, j}, &fs)
			okAll = okAll && ok
			r, _ := safeEqual(vals[i], vals[j])
			eq[[2]int{i, j}] = r
			if ok {
				// consequence for sets built from both
				e.tick("set-size-agrees")
				if pi := try(func() {
					wantLen := 2
					if want {
						wantLen = 1
					}
					if got := tla.MakeSet(vals[i], vals[j]).AsSet().Len(); got != wantLen {
						fs = append(fs, failure{Class: "set:size-disagrees-with-equality", Shape: kindsPair(vals[i], vals[j]), Ops: []int{i, j},
							Detail: fmt.Sprintf("{%s, %s} has %d elements, want %d", show(vals[i]), show(vals[j]), got, wantLen)})
					}
				}); pi != nil {
					fs = append(fs, failure{Class: pi.class, Ops: []int{i, j}, Detail: "MakeSet panicked: " + pi.msg})
				}
			}
		}
	}
	if len(vals) == 3 && len(fs) == 0 {
		e.tick("equal-transitive")
		if eq[[2]int{0, 1}] && eq[[2]int{1, 2}] && !eq[[2]int{0, 2}] {
			fs = append(fs, failure{Class: "equal:not-transitive", Ops: []int{0, 1, 2}, Detail: fmt.Sprintf("a=b, b=c but a/=c for %s, %s, %s", show(vals[0]), show(vals[1]), show(vals[2]))})
		}
	}
	return fs
}

// ---- phase "map": hashmap.HashMap and immutable.Map keyed by values ------------------------------------------------------------

func (e *env) runMap(spec caseSpec) (fs []failure) {
	rng := newRng(mix(spec.RSeed, 7))
	pool := spec.Nodes
	canons := make([]string, len(pool))
	for i, n := range pool {
		canons[i] = n.kcanon()
	}
	mk := func(i int) (v tla.Value, pi *panicInfo) {
		b := &builder{rng: newRng(rng.Uint64()), varied: true, recipes: e.recipes}
		if e.causal {
			b.wrap = 0.1
		}
		pi = try(func() { v = b.build(pool[i]) })
		return
	}
	hm := hashmap.New[int]()
	im := immutable.NewMap[tla.Value, int](tla.ValueHasher{})
	mb := immutable.NewMapBuilder[tla.Value, int](tla.ValueHasher{})
	modelHM := map[string]int{}
	modelIM := map[string]int{}
	stored := map[string]tla.Value{}
	nops := 40 + rng.Intn(80)
	// rootCause: the map disagreed with the model on key k (canon c): if the stored key is not Equal to k
	// (or hashes differently) the cause is Equal/Hash, reported as such.
	rootCause := func(k tla.Value, c string, op int) bool {
		s, ok := stored[c]
		if !ok {
			return false
		}
		var sub []failure
		if !e.comparePair(k, s, true, []int{op}, &sub) {
			fs = append(fs, sub...)
			return true
		}
		return false
	}
	for op := 0; op < nops; op++ {
		i := rng.Intn(len(pool))
		k, pi := mk(i)
		if pi != nil {
			return append(fs, failure{Class: pi.class, Ops: []int{i}, Detail: "building a key panicked: " + pi.msg})
		}
		c := canons[i]
		var stop bool
		if s, ok := stored[c]; ok {
			// the key was used before in another construction: if Equal/Hash already disagree on the two, that is
			// the root cause of whatever the maps would do next; report it and end the case
			var sub []failure
			if !e.comparePair(k, s, true, []int{i}, &sub) {
				return append(fs, sub...)
			}
		}
		pi = try(func() {
			switch rng.Intn(5) {
			case 0, 1: // set
				e.tick("map-set")
				hm.Set(k, op)
				im = im.Set(k, op)
				mb.Set(k, op)
				modelHM[c] = op
				modelIM[c] = op
				stored[c] = k
			case 2: // delete (immutable maps only)
				e.tick("map-delete")
				im = im.Delete(k)
				mb.Delete(k)
				delete(modelIM, c)
			default: // get
				e.tick("map-get")
				check := func(name string, got int, ok bool, model map[string]int) {
					want, wok := model[c]
					if ok == wok && (!ok || got == want) {
						return
					}
					stop = true
					if rootCause(k, c, i) {
						return
					}
					switch {
					case wok && !ok:
						fs = append(fs, failure{Class: name + ":get-misses-equal-key", Shape: kindOf(k), Ops: []int{i}, Detail: fmt.Sprintf("key %s was stored (as %s) but Get does not find it", show(k), show(stored[c]))})
					case !wok && ok:
						fs = append(fs, failure{Class: name + ":get-finds-absent-key", Shape: kindOf(k), Ops: []int{i}, Detail: fmt.Sprintf("key %s was never stored (or was deleted) but Get returns %d", show(k), got)})
					default:
						fs = append(fs, failure{Class: name + ":get-returns-other-binding", Shape: kindOf(k), Ops: []int{i}, Detail: fmt.Sprintf("key %s bound to %d but Get returns %d", show(k), want, got)})
					}
				}
				g, ok := hm.Get(k)
				check("hashmap", g, ok, modelHM)
				g, ok = im.Get(k)
				check("immutable-map", g, ok, modelIM)
				g, ok = mb.Get(k)
				check("immutable-map-builder", g, ok, modelIM)
			}
		})
		if pi != nil {
			return append(fs, failure{Class: pi.class, Ops: []int{i}, Detail: "map operation panicked: " + pi.msg})
		}
		if stop {
			return fs
		}
	}
	// final census
	if pi := try(func() {
		e.tick("map-census")
		census := func(name string, keys []tla.Value, vals []int, model map[string]int) {
			seen := map[string]tla.Value{}
			for x, k := range keys {
				c, _ := canonOf(k)
				if first, dup := seen[c]; dup {
					var sub []failure
					if !e.comparePair(k, first, true, nil, &sub) {
						fs = append(fs, sub...)
					} else {
						fs = append(fs, failure{Class: name + ":holds-equal-keys-twice", Shape: kindOf(k), Detail: fmt.Sprintf("key %s occurs twice", show(k))})
					}
					return
				}
				seen[c] = k
				want, ok := model[c]
				if !ok {
					fs = append(fs, failure{Class: name + ":holds-absent-key", Shape: kindOf(k), Detail: fmt.Sprintf("key %s should not be present", show(k))})
					return
				}
				if vals != nil && vals[x] != want {
					fs = append(fs, failure{Class: name + ":iteration-returns-other-binding", Shape: kindOf(k), Detail: fmt.Sprintf("key %s bound to %d, iteration yields %d", show(k), want, vals[x])})
					return
				}
			}
			if len(seen) != len(model) {
				fs = append(fs, failure{Class: name + ":size-disagrees", Detail: fmt.Sprintf("%d distinct keys stored, structure holds %d", len(model), len(seen))})
			}
		}
		census("hashmap-keys", hm.Keys(), nil, modelHM)
		var ks []tla.Value
		var vs []int
		it := im.Iterator()
		for !it.Done() {
			k, v, _ := it.Next()
			ks, vs = append(ks, k), append(vs, v)
		}
		census("immutable-map", ks, vs, modelIM)
		if im.Len() != len(modelIM) {
			fs = append(fs, failure{Class: "immutable-map:len-disagrees", Detail: fmt.Sprintf("Len()=%d, %d distinct keys stored", im.Len(), len(modelIM))})
		}
		ks, vs = nil, nil
		it = mb.Map().Iterator()
		for !it.Done() {
			k, v, _ := it.Next()
			ks, vs = append(ks, k), append(vs, v)
		}
		census("immutable-map-builder", ks, vs, modelIM)
	}); pi != nil {
		fs = append(fs, failure{Class: pi.class, Detail: "map census panicked: " + pi.msg})
	}
	return fs
}

func (e *env) runCase(spec caseSpec) []failure {
	switch spec.Phase {
	case "value":
		return e.runValue(spec)
	case "pair":
		return e.runPair(spec)
	case "map":
		return e.runMap(spec)
	case "wire":
		return e.runWire(spec)
	}
	panic("unknown phase " + spec.Phase)
}

func hasClass(fs []failure, class string) *failure {
	for i := range fs {
		if fs[i].Class == class {
			return &fs[i]
		}
	}
	return nil
}

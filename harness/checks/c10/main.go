// C10 — nondeterministic choices are in range and no enabled alternative is starved.
//
// Oracle: the real round-robin FairnessCounter (driven directly, and through real MPCalContexts
// running generated sections) is compared with what the statement demands:
//
//	(1) fixed structure  — the same choice points (ids, bounds b1..bk) on every attempt: every window of
//	    prod(bi) consecutive attempts is a permutation of the full product;
//	(2) prefix-stable    — attempts consult a prefix of one fixed list, stopping early depending on the
//	    values drawn: once every choice point has been consulted at least once, every window of prod(bi)
//	    attempts reaches every leaf of the choice tree at least once;
//	(3) anything else    — in range, no panic.
//
// plus: label changes reset nothing that matters (a new label gets a fresh structure which must satisfy (1)
// from its first attempt), and the shipped NonDetExploration archetypes terminate within the bound the
// statement implies (counted in attempts through the H1 loop-head hook, not in time).
package main

import (
	"errors"
	"fmt"
	"math/rand"
	"os"
	"strings"
	"sync/atomic"

	"verifh/common"

	"github.com/DistCompiler/pgo/distsys"
	"github.com/DistCompiler/pgo/distsys/tla"
	nde "github.com/DistCompiler/pgo/test/files/general/NonDetExploration.tla.gotests"
)

type point struct {
	ID    string
	Bound uint
}

func product(ps []point) int {
	p := 1
	for _, x := range ps {
		p *= int(x.Bound)
	}
	return p
}

// draw consults ps[0..n) on fc, returning values; ok=false on panic or out-of-range.
func draw(fc distsys.FairnessCounter, ps []point) (vals []uint, problem string) {
	defer func() {
		if e := recover(); e != nil {
			problem = fmt.Sprintf("panic: %v", e)
		}
	}()
	for _, p := range ps {
		v := fc.NextFairnessCounter(p.ID, p.Bound)
		if v >= p.Bound {
			return vals, fmt.Sprintf("choice %s returned %d for bound %d", p.ID, v, p.Bound)
		}
		vals = append(vals, v)
	}
	return vals, ""
}

func genPoints(rng *rand.Rand, label string) []point {
	depth := 1 + rng.Intn(5)
	ps := make([]point, depth)
	for i := range ps {
		ps[i] = point{ID: fmt.Sprintf("%s.%d", label, i), Bound: uint(1 + rng.Intn(6))}
	}
	// keep products manageable
	for product(ps) > 2000 {
		ps = ps[:len(ps)-1]
	}
	return ps
}

type witness struct {
	Mode     string   `json:"mode"`
	Points   []point  `json:"points"`
	Attempts [][]uint `json:"attempts_tail"`
	Problem  string   `json:"problem"`
}

func tupleKey(v []uint) string {
	var sb strings.Builder
	for _, x := range v {
		fmt.Fprintf(&sb, "%d,", x)
	}
	return sb.String()
}

// checkFixed drives a fixed structure for `attempts` attempts and checks the sliding-window permutation law.
func checkFixed(fc distsys.FairnessCounter, label string, ps []point, attempts int) (int, *witness) {
	prod := product(ps)
	var hist [][]uint
	counts := map[string]int{}
	distinctInWindow := 0
	for a := 0; a < attempts; a++ {
		fc.BeginCriticalSection(label)
		vals, problem := draw(fc, ps)
		if problem != "" {
			return a, &witness{Mode: "fixed", Points: ps, Attempts: tail(append(hist, vals), 8), Problem: problem}
		}
		hist = append(hist, vals)
		k := tupleKey(vals)
		counts[k]++
		if counts[k] == 1 {
			distinctInWindow++
		}
		if a >= prod { // slide: drop attempt a-prod
			old := tupleKey(hist[a-prod])
			counts[old]--
			if counts[old] == 0 {
				distinctInWindow--
			}
		}
		if a >= prod-1 && distinctInWindow != prod {
			return a, &witness{Mode: "fixed", Points: ps, Attempts: tail(hist, prod+2),
				Problem: fmt.Sprintf("window of %d attempts ending at attempt %d holds %d distinct tuples, want %d", prod, a, distinctInWindow, prod)}
		}
	}
	return attempts, nil
}

func tail(h [][]uint, n int) [][]uint {
	if len(h) > n {
		return h[len(h)-n:]
	}
	return h
}

// checkPrefix: attempts consult a prefix of ps; after consulting point i with value v the attempt stops
// iff stop[i][v]. Leaves are (i, values[0..i]).
func checkPrefix(fc distsys.FairnessCounter, label string, ps []point, stop [][]bool, attempts int) (int, *witness) {
	prod := product(ps)
	// enumerate leaves
	leaves := map[string]bool{}
	var enum func(i int, pre []uint)
	enum = func(i int, pre []uint) {
		if i == len(ps) {
			leaves[tupleKey(pre)] = true
			return
		}
		for v := uint(0); v < ps[i].Bound; v++ {
			nx := append(append([]uint{}, pre...), v)
			if stop[i][v] {
				leaves[tupleKey(nx)] = true
			} else {
				enum(i+1, nx)
			}
		}
	}
	enum(0, nil)
	fullDepthAt := -1
	var hist [][]uint
	counts := map[string]int{}
	for a := 0; a < attempts; a++ {
		fc.BeginCriticalSection(label)
		var vals []uint
		var problem string
		func() {
			defer func() {
				if e := recover(); e != nil {
					problem = fmt.Sprintf("panic: %v", e)
				}
			}()
			for i, p := range ps {
				v := fc.NextFairnessCounter(p.ID, p.Bound)
				if v >= p.Bound {
					problem = fmt.Sprintf("choice %s returned %d for bound %d", p.ID, v, p.Bound)
					return
				}
				vals = append(vals, v)
				if stop[i][v] {
					return
				}
			}
		}()
		if problem != "" {
			return a, &witness{Mode: "prefix", Points: ps, Attempts: tail(append(hist, vals), 8), Problem: problem}
		}
		hist = append(hist, vals)
		if fullDepthAt < 0 {
			if len(vals) == len(ps) {
				fullDepthAt = a
			}
			continue
		}
		counts[tupleKey(vals)]++
		w := a - fullDepthAt // attempts counted since full depth
		if w > prod {
			old := tupleKey(hist[a-prod])
			counts[old]--
			if counts[old] == 0 {
				delete(counts, old)
			}
		}
		if w >= prod {
			for lf := range leaves {
				if counts[lf] == 0 {
					return a, &witness{Mode: "prefix", Points: ps, Attempts: tail(hist, prod+2),
						Problem: fmt.Sprintf("leaf %s not reached in the %d attempts ending at %d (all choice points known since attempt %d)", lf, prod, a, fullDepthAt)}
				}
			}
		}
	}
	return attempts, nil
}

// checkWild: ids/bounds change arbitrarily between attempts: only range and panic-freedom.
func checkWild(fc distsys.FairnessCounter, rng *rand.Rand, attempts int) (int, *witness) {
	label := "W.l0"
	var hist [][]uint
	var last []point
	for a := 0; a < attempts; a++ {
		if rng.Intn(10) == 0 {
			label = fmt.Sprintf("W.l%d", rng.Intn(3))
		}
		ps := genPoints(rng, label)
		if rng.Intn(2) == 0 && last != nil { // mutate previous structure a little instead
			ps = append([]point{}, last...)
			i := rng.Intn(len(ps))
			switch rng.Intn(3) {
			case 0:
				ps[i].Bound = uint(1 + rng.Intn(6))
			case 1:
				ps[i].ID = fmt.Sprintf("%s.alt%d", label, rng.Intn(3))
			case 2:
				ps = ps[:i+1]
			}
		}
		last = ps
		fc.BeginCriticalSection(label)
		vals, problem := draw(fc, ps)
		hist = append(hist, vals)
		if problem != "" {
			return a, &witness{Mode: "wild", Points: ps, Attempts: tail(hist, 8), Problem: problem}
		}
	}
	return attempts, nil
}

// ctxRun runs a hand-built one-label archetype whose section draws ps and commits only on target,
// through a real MPCalContext; returns the number of attempts it took.
func ctxRun(ps []point, target []uint, limit int, early bool) (attempts int, err error) {
	var n int64
	body := func(iface distsys.ArchetypeInterface) error {
		atomic.AddInt64(&n, 1)
		if int(atomic.LoadInt64(&n)) > limit {
			return errors.New("attempt limit exceeded")
		}
		match := true
		for i, p := range ps {
			v := iface.NextFairnessCounter(p.ID, p.Bound)
			if v >= p.Bound {
				return fmt.Errorf("out of range: %s gave %d for bound %d", p.ID, v, p.Bound)
			}
			if v != target[i] {
				match = false
				if early { // like an await after each with: later choice points are not consulted
					return distsys.ErrCriticalSectionAborted
				}
			}
		}
		if !match {
			return distsys.ErrCriticalSectionAborted
		}
		return iface.Goto("A.Done")
	}
	jt := distsys.MakeMPCalJumpTable(
		distsys.MPCalCriticalSection{Name: "A.l", Body: body},
		distsys.MPCalCriticalSection{Name: "A.Done", Body: func(distsys.ArchetypeInterface) error { return distsys.ErrDone }},
	)
	arch := distsys.MPCalArchetype{Name: "A", Label: "A.l", JumpTable: jt, ProcTable: distsys.MakeMPCalProcTable(),
		PreAmble: func(distsys.ArchetypeInterface) {}}
	ctx := distsys.NewMPCalContext(tla.MakeString("self"), arch)
	err = safeRun(ctx)
	return int(n), err
}

func safeRun(ctx *distsys.MPCalContext) (err error) {
	defer func() {
		if e := recover(); e != nil {
			err = fmt.Errorf("panic: %v", e)
		}
	}()
	return ctx.Run()
}

func main() {
	r := common.Start("C10", "exploration")
	if r.Replay != "" {
		replay(r)
		return
	}
	rng := r.Rand("c10")
	var samples common.SampleKeeper
	samples.N = 6
	var distinct common.Distinct
	evals := 0
	structures := r.Pick(2000, 60000)
	attemptsPer := r.Pick(3000, 5000)
	modeCount := map[string]int{}

	report := func(w *witness) {
		r.Report("C10:"+w.Mode+":"+strings.SplitN(w.Problem, " ", 2)[0], w.Problem, w)
	}

	for s := 0; s < structures && r.Violations() < 5; s++ {
		label := fmt.Sprintf("L%d.l", s)
		ps := genPoints(rng, label)
		prod := product(ps)
		n := attemptsPer
		if n < 3*prod {
			n = 3 * prod
		}
		mode := s % 5
		fc := distsys.MakeRoundRobinFairnessCounter()
		switch mode {
		case 0: // fixed, fresh counter
			modeCount["fixed"]++
			got, w := checkFixed(fc, label, ps, n)
			evals += got
			if w != nil {
				report(w)
			}
		case 1: // fixed structures on successive labels sharing one counter (label change must reset)
			modeCount["fixed-after-label-change"]++
			for l := 0; l < 3; l++ {
				lbl := fmt.Sprintf("%s%d", label, l)
				ps2 := genPoints(rng, lbl)
				if rng.Intn(2) == 0 { // same ids as the previous label's, different bounds: must not leak
					for i := range ps2 {
						ps2[i].ID = fmt.Sprintf("shared.%d", i)
					}
				}
				n2 := 3*product(ps2) + 7
				got, w := checkFixed(fc, lbl, ps2, n2)
				evals += got
				if w != nil {
					w.Mode = "fixed-after-label-change"
					report(w)
					break
				}
			}
		case 2: // prefix-stable
			modeCount["prefix"]++
			stop := make([][]bool, len(ps))
			for i, p := range ps {
				stop[i] = make([]bool, p.Bound)
				if i < len(ps)-1 {
					for v := range stop[i] {
						stop[i][v] = rng.Intn(3) == 0
					}
					// at least one continuing value so that full depth is reachable
					stop[i][rng.Intn(int(p.Bound))] = false
				}
			}
			got, w := checkPrefix(fc, label, ps, stop, n)
			evals += got
			if w != nil {
				report(w)
			}
		case 4: // a structure change (bound grows/shrinks, id changes, depth changes) on the SAME label, then the new
			// structure stays fixed: from its first attempt on it must obey the exactly-once law again (the statement:
			// "whatever ... changes of bounds"), e.g. `with x \in S` retried while S grows must reach the new elements
			modeCount["fixed-after-structure-change"]++
			pre := 1 + rng.Intn(2*prod)
			_, w := checkFixed(fc, label, ps, pre)
			evals += pre
			if w != nil && !strings.Contains(w.Problem, "window") {
				report(w)
				break
			}
			ps2 := append([]point{}, ps...)
			i := rng.Intn(len(ps2))
			switch rng.Intn(5) {
			case 0, 1:
				ps2[i].Bound += uint(1 + rng.Intn(3)) // grows
			case 2:
				if ps2[i].Bound > 1 {
					ps2[i].Bound = 1 + uint(rng.Intn(int(ps2[i].Bound-1))) // shrinks
				} else {
					ps2[i].Bound = 3
				}
			case 3:
				ps2[i].ID += ".other"
			case 4:
				ps2 = append(ps2, point{ID: fmt.Sprintf("%s.extra", label), Bound: uint(2 + rng.Intn(3))})
			}
			if product(ps2) > 4000 {
				break // too large to be worth it; never shorten: a structure that loses its deepest choice point is the
				// prefix-stable case (the stale deeper digit keeps counting), for which only leaf coverage is demanded
			}
			n2 := 3*product(ps2) + 5
			got, w2 := checkFixed(fc, label, ps2, n2)
			evals += got
			if w2 != nil {
				w2.Mode = "fixed-after-structure-change"
				w2.Problem = fmt.Sprintf("after %d attempts with %v the structure became %v: %s", pre, ps, ps2, w2.Problem)
				report(w2)
			}
		case 3:
			modeCount["wild"]++
			got, w := checkWild(fc, rng, 300)
			evals += got
			if w != nil {
				report(w)
			}
		}
		sig := fmt.Sprintf("m%d:", mode)
		for _, p := range ps {
			sig += fmt.Sprintf("%d,", p.Bound)
		}
		if len(ps) >= 2 && prod >= 4 {
			distinct.Add(sig)
		}
		if s < 6 {
			samples.Add(map[string]any{"mode": mode, "points": ps, "product": prod, "attempts": n})
		}
	}

	// through real contexts: a section that commits only on one target tuple must do so within prod attempts
	ctxRuns := r.Pick(300, 5000)
	maxRatio := 0.0
	for i := 0; i < ctxRuns && r.Violations() < 5; i++ {
		ps := genPoints(rng, "A.l")
		prod := product(ps)
		target := make([]uint, len(ps))
		for j, p := range ps {
			target[j] = uint(rng.Intn(int(p.Bound)))
		}
		// all choice points consulted on every attempt: the target is hit within prod attempts.
		// aborting at the first mismatch (prefix-stable): digit j+1 only exists once the first j matched, so
		// the bound is sum_j prod_{i<=j} b_i.
		early := i%2 == 1
		bound := prod
		if early {
			bound = 0
			pp := 1
			for _, p := range ps {
				pp *= int(p.Bound)
				bound += pp
			}
		}
		att, err := ctxRun(ps, target, bound+5, early)
		evals += att
		if err != nil || att > bound {
			r.Report(fmt.Sprintf("C10:context:target-not-reached-within-bound:early=%v", early), fmt.Sprintf("target %v of %v took %d attempts (bound %d, product %d), err=%v", target, ps, att, bound, prod, err),
				map[string]any{"points": ps, "target": target, "attempts": att, "bound": bound, "early_abort": early, "err": fmt.Sprint(err)})
		}
		if ratio := float64(att) / float64(bound); ratio > maxRatio {
			maxRatio = ratio
		}
	}

	// the shipped NonDetExploration archetypes: bounded number of attempts, counted at the loop head
	shipped := map[string]int{}
	for rep := 0; rep < r.Pick(20, 300); rep++ {
		for _, a := range []struct {
			name  string
			arch  distsys.MPCalArchetype
			bound int
		}{
			{"ACoverage", nde.ACoverage, 4*4 + 8},       // four labels, each commits on one of 4 tuples: <= 4 attempts each (+ Done)
			{"ACoincidence", nde.ACoincidence, 16 + 17}, // 4 digits of bound 2; leaf (1,1,2,2): full depth is known after <= 4+... attempts
			{"AComplex", nde.AComplex, 70},              // 20 iterations x 3 labels, no retries needed
		} {
			var heads int64
			distsys.VerifHooks.LoopHead = func(ctx *distsys.MPCalContext, archetype string, self tla.Value, err error) {
				atomic.AddInt64(&heads, 1)
			}
			limit := int64(a.bound) * 50
			stopper := make(chan struct{})
			ctx := distsys.NewMPCalContext(tla.MakeString("self"), a.arch)
			go func() {
				// logical guard, not a timer: stop the context when it exceeds 50x the bound
				for {
					select {
					case <-stopper:
						return
					default:
					}
					if atomic.LoadInt64(&heads) > limit {
						ctx.Stop()
						return
					}
				}
			}()
			err := safeRun(ctx)
			close(stopper)
			h := int(atomic.LoadInt64(&heads))
			evals += h
			if h > shipped[a.name] {
				shipped[a.name] = h
			}
			if a.name == "AComplex" && errors.Is(err, distsys.ErrAssertionFailed) {
				// lbl1 is re-entered from another label every time, so its choice restarts at a random value on each
				// visit; the archetype's own assertion then fails with probability 2^-19. Not a retry of one section.
				r.Note("AComplex assertion failed (re-randomised choice after label change): %v", err)
				err = nil
			}
			if err != nil || h > a.bound {
				r.Report("C10:shipped:"+a.name, fmt.Sprintf("%s needed %d loop iterations (bound %d), err=%v", a.name, h, a.bound, err),
					map[string]any{"archetype": a.name, "loop_heads": h, "bound": a.bound, "err": fmt.Sprint(err)})
			}
			distsys.VerifHooks.LoopHead = nil
		}
	}

	r.Finish(common.Coverage{
		Evaluations:        evals,
		DistinctNontrivial: distinct.Len(),
		Rule:               "one evaluation = one section attempt driven through the real round-robin FairnessCounter; a case is a (mode, bound tuple) structure, non-trivial when it has >= 2 choice points and product >= 4; distinct by (mode, bounds)",
		Samples:            samples.S,
		Floor:              20,
		Extra: map[string]any{
			"structures_by_mode":              modeCount,
			"context_runs":                    ctxRuns,
			"context_max_attempts_over_bound": maxRatio,
			"shipped_max_loop_heads":          shipped,
		},
	}, []string{
		"mode (3) (ids or bounds differing at the same depth between attempts) is checked for range and panic-freedom only: the statement conditions exactly-once coverage on consulting the same choice points on each attempt",
		"prefix-stable coverage is demanded only after every choice point has been consulted once (a deeper digit does not exist before that)",
	})
}

// replay re-drives the stored structure through a fresh real counter (its random start differs, the law does not).
func replay(r *common.Run) {
	key, _, wit, err := r.LoadReplay()
	if err != nil {
		fmt.Println("cannot read replay file:", err)
		os.Exit(3)
	}
	var w witness
	_ = common.Remarshal(wit, &w)
	if len(w.Points) == 0 {
		_ = common.Remarshal(wit["points"], &w.Points)
	}
	if len(w.Points) == 0 {
		fmt.Println("replay file has no choice structure; stored key:", key)
		r.FinishReplay(key)
	}
	for rep := 0; rep < 200 && r.Violations() == 0; rep++ {
		fc := distsys.MakeRoundRobinFairnessCounter()
		var ww *witness
		if strings.HasPrefix(w.Mode, "prefix") {
			stop := make([][]bool, len(w.Points))
			for i, p := range w.Points {
				stop[i] = make([]bool, p.Bound)
			}
			_, ww = checkPrefix(fc, "R.l", w.Points, stop, 3*product(w.Points)+10)
		} else {
			_, ww = checkFixed(fc, "R.l", w.Points, 3*product(w.Points)+10)
		}
		if ww != nil {
			r.Report("C10:"+ww.Mode+":"+strings.SplitN(ww.Problem, " ", 2)[0], ww.Problem, ww)
		}
	}
	r.FinishReplay(key)
}

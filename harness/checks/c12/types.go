package main

// Per-type adapters: canonical state (always obtained through the type's own GobEncode and the exported
// wire structs, sorted — never through String()), canonical reads, the op-based reference semantics the
// property statement declares, and a small model of the documented state-based algorithm that is used
// ONLY to classify the cause of a failure (design-level vs. the code deviating from its own documented
// algorithm); the model never decides a violation.

import (
	"bytes"
	"encoding/gob"
	"errors"
	"fmt"
	"io"
	"reflect"
	"sort"
	"strings"
	"time"
	"unsafe"

	"github.com/DistCompiler/pgo/distsys/resources"
	"github.com/DistCompiler/pgo/distsys/tla"
	"github.com/benbjohnson/immutable"
)

// ---------------------------------------------------------------------------------------------
// identifiers

// env maps replica / element indices of a case to tla values and back (by Equal, not by String()).
type env struct {
	ids   []tla.Value
	elems []tla.Value
}

func mkVal(flavour string, kind string, i int) tla.Value {
	switch flavour {
	case "str":
		return tla.MakeString(fmt.Sprintf("%s%d", kind, i))
	case "mixed":
		switch i % 5 {
		case 0:
			return tla.MakeTuple(tla.MakeString(kind), tla.MakeNumber(int32(i)))
		case 1:
			return tla.MakeString(fmt.Sprintf("%s-%d", kind, i))
		case 2:
			return tla.MakeNumber(int32(1000 + i))
		case 3:
			return tla.MakeRecord([]tla.RecordField{{Key: tla.MakeString("k"), Value: tla.MakeString(kind)}, {Key: tla.MakeString("i"), Value: tla.MakeNumber(int32(i))}})
		default:
			return tla.MakeTuple(tla.MakeNumber(int32(i)), tla.MakeBool(i%2 == 0), tla.MakeString(kind))
		}
	default: // "num"
		if kind == "r" {
			return tla.MakeNumber(int32(i + 1))
		}
		return tla.MakeNumber(int32(i))
	}
}

func newEnv(c *Case) *env {
	e := &env{}
	for i := 0; i < c.Replicas; i++ {
		e.ids = append(e.ids, mkVal(c.Flavour, "r", i))
	}
	for i := 0; i < c.Elems; i++ {
		e.elems = append(e.elems, mkVal(c.Flavour, "e", i))
	}
	return e
}

func lookup(tab []tla.Value, prefix string, v tla.Value) string {
	for i, t := range tab {
		if t.Equal(v) {
			return fmt.Sprintf("%s%d", prefix, i)
		}
	}
	return "?" + v.String()
}

func (e *env) rep(v tla.Value) string  { return lookup(e.ids, "r", v) }
func (e *env) elem(v tla.Value) string { return lookup(e.elems, "e", v) }

// ---------------------------------------------------------------------------------------------
// canonical states

type cst interface{ String() string }

type vc map[string]int64

func (v vc) String() string {
	ks := make([]string, 0, len(v))
	for k := range v {
		ks = append(ks, k)
	}
	sort.Strings(ks)
	var sb strings.Builder
	sb.WriteString("{")
	for i, k := range ks {
		if i > 0 {
			sb.WriteString(",")
		}
		fmt.Fprintf(&sb, "%s:%d", k, v[k])
	}
	sb.WriteString("}")
	return sb.String()
}

func (v vc) clone() vc {
	o := vc{}
	for k, x := range v {
		o[k] = x
	}
	return o
}

func vcMax(a, b vc) vc {
	o := a.clone()
	for k, x := range b {
		if y, ok := o[k]; !ok || y < x {
			o[k] = x
		}
	}
	return o
}

func vcEqual(a, b vc) bool {
	if len(a) != len(b) {
		return false
	}
	for k, x := range a {
		if y, ok := b[k]; !ok || x != y {
			return false
		}
	}
	return true
}

// vcLess: a < b in the vector clock order (absent = 0).
func vcLess(a, b vc) bool {
	strict := false
	for k, x := range a {
		if x > b[k] {
			return false
		}
		if x < b[k] {
			strict = true
		}
	}
	for k, y := range b {
		if _, ok := a[k]; !ok && y > 0 {
			strict = true
		}
	}
	return strict
}

type vcMap map[string]vc

func (m vcMap) String() string {
	ks := make([]string, 0, len(m))
	for k := range m {
		ks = append(ks, k)
	}
	sort.Strings(ks)
	var sb strings.Builder
	for i, k := range ks {
		if i > 0 {
			sb.WriteString(" ")
		}
		sb.WriteString(k + "=>" + m[k].String())
	}
	return sb.String()
}

func (m vcMap) clone() vcMap {
	o := vcMap{}
	for k, v := range m {
		o[k] = v.clone()
	}
	return o
}

func vcMapEqual(a, b vcMap) bool {
	if len(a) != len(b) {
		return false
	}
	for k, x := range a {
		y, ok := b[k]
		if !ok || !vcEqual(x, y) {
			return false
		}
	}
	return true
}

type gcState struct{ m vc }

func (s gcState) String() string { return "G" + s.m.String() }

type awState struct{ add, rem vcMap }

func (s awState) String() string { return "A[" + s.add.String() + "] R[" + s.rem.String() + "]" }

type tsMap map[string]int64

func (m tsMap) String() string { return vc(m).String() }

type lwState struct{ add, rem tsMap }

func (s lwState) String() string { return "A" + s.add.String() + " R" + s.rem.String() }

// ---------------------------------------------------------------------------------------------
// the adapter interface

type opRec struct {
	Rep int
	Add bool
	E   int
	N   int32
	Obs uint64 // AWORSet remove: adds (op bits) known to the issuing replica when the remove was issued
	TS  int64  // LWW: wall-clock nanoseconds the implementation stamped the op with
}

type crdtType interface {
	Name() string
	Init() resources.CRDTValue
	Canon(e *env, v resources.CRDTValue) (cst, error)
	Fast(e *env, v resources.CRDTValue) (cst, bool) // in-memory form; false: not available, use Canon
	ReadCanon(e *env, v tla.Value) string
	WriteArg(e *env, st Step) tla.Value
	RefRead(know uint64, ops []opRec, elems int) string
	DescribeOp(st Step) string
	// model of the documented algorithm — cause classification only
	ModelWrite(c cst, rep string, st Step, actual cst) cst
	ModelMerge(a, b cst) cst
	ModelRead(c cst) string
	DiffTag(op string, want, got cst) string
}

func typeByName(n string) crdtType {
	switch n {
	case "GCounter":
		return gcType{}
	case "AWORSet":
		return awType{}
	case "LWWSet":
		return lwType{}
	}
	return nil
}

func setCmd(e *env, st Step) tla.Value {
	cmd := int32(2)
	if st.Add {
		cmd = 1
	}
	return tla.MakeRecord([]tla.RecordField{
		{Key: tla.MakeString("cmd"), Value: tla.MakeNumber(cmd)},
		{Key: tla.MakeString("elem"), Value: e.elems[st.E]},
	})
}

func readSet(e *env, v tla.Value) string {
	var out []string
	it := v.AsSet().Iterator()
	for !it.Done() {
		k, _, _ := it.Next()
		out = append(out, e.elem(k))
	}
	sort.Strings(out)
	return "[" + strings.Join(out, " ") + "]"
}

func fmtSet(present map[int]bool) string {
	var out []string
	for i, p := range present {
		if p {
			out = append(out, fmt.Sprintf("e%d", i))
		}
	}
	sort.Strings(out)
	return "[" + strings.Join(out, " ") + "]"
}

func describeSetOp(st Step) string {
	if st.Add {
		return fmt.Sprintf("add(e%d)", st.E)
	}
	return fmt.Sprintf("rem(e%d)", st.E)
}

// ---------------------------------------------------------------------------------------------
// GCounter

type gcType struct{}

func (gcType) Name() string                       { return "GCounter" }
func (gcType) Init() resources.CRDTValue          { return resources.GCounter{}.Init() }
func (gcType) DescribeOp(st Step) string          { return fmt.Sprintf("inc(%d)", st.N) }
func (gcType) WriteArg(e *env, st Step) tla.Value { return tla.MakeNumber(st.N) }

func vcFromWire(e *env, raw []byte) (vc, error) {
	dec := gob.NewDecoder(bytes.NewReader(raw))
	out := vc{}
	for {
		var kv resources.GCounterKeyVal
		if err := dec.Decode(&kv); err != nil {
			if errors.Is(err, io.EOF) {
				return out, nil
			}
			return nil, err
		}
		k := e.rep(kv.K)
		if _, dup := out[k]; dup {
			return nil, fmt.Errorf("wire form lists key %s twice", k)
		}
		out[k] = int64(kv.V)
	}
}

func (gcType) Canon(e *env, v resources.CRDTValue) (cst, error) {
	g, ok := v.(resources.GCounter)
	if !ok {
		return nil, fmt.Errorf("value has dynamic type %T, want resources.GCounter", v)
	}
	raw, err := g.GobEncode()
	if err != nil {
		return nil, err
	}
	m, err := vcFromWire(e, raw)
	if err != nil {
		return nil, err
	}
	return gcState{m}, nil
}

func (gcType) ReadCanon(e *env, v tla.Value) string { return fmt.Sprint(v.AsNumber()) }

func (gcType) RefRead(know uint64, ops []opRec, elems int) string {
	var sum int64
	for i, o := range ops {
		if know&(1<<uint(i)) != 0 {
			sum += int64(o.N)
		}
	}
	return fmt.Sprint(sum)
}

func (gcType) ModelWrite(c cst, rep string, st Step, actual cst) cst {
	m := c.(gcState).m.clone()
	m[rep] += int64(st.N)
	return gcState{m}
}
func (gcType) ModelMerge(a, b cst) cst { return gcState{vcMax(a.(gcState).m, b.(gcState).m)} }
func (gcType) ModelRead(c cst) string {
	var s int64
	for _, x := range c.(gcState).m {
		s += x
	}
	return fmt.Sprint(s)
}
func (gcType) DiffTag(op string, want, got cst) string {
	w, g := want.(gcState).m, got.(gcState).m
	if vcEqual(w, g) {
		return ""
	}
	below, above := false, false
	for k, x := range w {
		if g[k] < x {
			below = true
		} else if g[k] > x {
			above = true
		}
	}
	for k, y := range g {
		if _, ok := w[k]; !ok && y > 0 {
			above = true
		}
	}
	switch {
	case below && !above:
		return op + "-below-documented"
	case above && !below:
		return op + "-above-documented"
	}
	return op + "-differs-from-documented"
}

// ---------------------------------------------------------------------------------------------
// AWORSet

type awType struct{}

func (awType) Name() string                       { return "AWORSet" }
func (awType) Init() resources.CRDTValue          { return resources.AWORSet{}.Init() }
func (awType) DescribeOp(st Step) string          { return describeSetOp(st) }
func (awType) WriteArg(e *env, st Step) tla.Value { return setCmd(e, st) }

func (awType) Canon(e *env, v resources.CRDTValue) (cst, error) {
	s, ok := v.(resources.AWORSet)
	if !ok {
		return nil, fmt.Errorf("value has dynamic type %T, want resources.AWORSet", v)
	}
	raw, err := s.GobEncode()
	if err != nil {
		return nil, err
	}
	var maps resources.AddRemMaps
	if err := gob.NewDecoder(bytes.NewReader(raw)).Decode(&maps); err != nil {
		return nil, err
	}
	conv := func(kvs []resources.AWORSetKeyVal) (vcMap, error) {
		out := vcMap{}
		for _, kv := range kvs {
			k := e.elem(kv.K)
			if _, dup := out[k]; dup {
				return nil, fmt.Errorf("wire form lists element %s twice", k)
			}
			clock := vc{}
			if kv.V.Map != nil {
				it := kv.V.Iterator()
				for !it.Done() {
					id, n, _ := it.Next()
					clock[e.rep(id)] = int64(n)
				}
			}
			out[k] = clock
		}
		return out, nil
	}
	st := awState{}
	if st.add, err = conv(maps.AddMap); err != nil {
		return nil, err
	}
	if st.rem, err = conv(maps.RemMap); err != nil {
		return nil, err
	}
	return st, nil
}

func (awType) ReadCanon(e *env, v tla.Value) string { return readSet(e, v) }

// RefRead: the add-wins set contains exactly the elements having an add not observed by a remove.
func (awType) RefRead(know uint64, ops []opRec, elems int) string {
	present := map[int]bool{}
	for i, a := range ops {
		if !a.Add || know&(1<<uint(i)) == 0 {
			continue
		}
		covered := false
		for j, r := range ops {
			if r.Add || r.E != a.E || know&(1<<uint(j)) == 0 {
				continue
			}
			if r.Obs&(1<<uint(i)) != 0 {
				covered = true
				break
			}
		}
		if !covered {
			present[a.E] = true
		}
	}
	return fmtSet(present)
}

// documented algorithm (aworset.go doc comments / shopcart.tla)
func (awType) ModelWrite(c cst, rep string, st Step, actual cst) cst {
	s := c.(awState)
	add, rem := s.add.clone(), s.rem.clone()
	k := fmt.Sprintf("e%d", st.E)
	var base vc
	if x, ok := add[k]; ok {
		base = x
	} else if x, ok := rem[k]; ok {
		base = x
	} else {
		base = vc{}
	}
	base = base.clone()
	base[rep]++
	delete(add, k)
	delete(rem, k)
	if st.Add {
		add[k] = base
	} else {
		rem[k] = base
	}
	return awState{add, rem}
}

func mergeKeysModel(a, b vcMap) vcMap {
	o := a.clone()
	for k, v := range b {
		if x, ok := o[k]; ok {
			o[k] = vcMax(x, v)
		} else {
			o[k] = v.clone()
		}
	}
	return o
}

func (awType) ModelMerge(a, b cst) cst {
	x, y := a.(awState), b.(awState)
	addK, remK := mergeKeysModel(x.add, y.add), mergeKeysModel(x.rem, y.rem)
	add, rem := vcMap{}, vcMap{}
	for k, av := range addK {
		if rv, ok := remK[k]; !ok || !vcLess(av, rv) {
			add[k] = av
		}
	}
	for k, rv := range remK {
		if av, ok := addK[k]; !ok || vcLess(av, rv) {
			rem[k] = rv
		}
	}
	return awState{add, rem}
}

func (awType) ModelRead(c cst) string {
	s := c.(awState)
	var out []string
	for k, av := range s.add {
		if rv, ok := s.rem[k]; !ok || !vcLess(av, rv) {
			out = append(out, k)
		}
	}
	sort.Strings(out)
	return "[" + strings.Join(out, " ") + "]"
}

func (awType) DiffTag(op string, want, got cst) string {
	w, g := want.(awState), got.(awState)
	if vcMapEqual(w.add, g.add) && vcMapEqual(w.rem, g.rem) {
		return ""
	}
	return op + "-differs-from-documented"
}

// ---------------------------------------------------------------------------------------------
// LWWSet

type lwType struct{}

func (lwType) Name() string                       { return "LWWSet" }
func (lwType) Init() resources.CRDTValue          { return resources.LWWSet{}.Init() }
func (lwType) DescribeOp(st Step) string          { return describeSetOp(st) }
func (lwType) WriteArg(e *env, st Step) tla.Value { return setCmd(e, st) }

func (lwType) Canon(e *env, v resources.CRDTValue) (cst, error) {
	s, ok := v.(resources.LWWSet)
	if !ok {
		return nil, fmt.Errorf("value has dynamic type %T, want resources.LWWSet", v)
	}
	raw, err := s.GobEncode()
	if err != nil {
		return nil, err
	}
	dec := gob.NewDecoder(bytes.NewReader(raw))
	readMap := func() (tsMap, error) {
		var n int
		if err := dec.Decode(&n); err != nil {
			return nil, err
		}
		out := tsMap{}
		for i := 0; i < n; i++ {
			var el tla.Value
			if err := dec.Decode(&el); err != nil {
				return nil, err
			}
			var ts time.Time
			if err := dec.Decode(&ts); err != nil {
				return nil, err
			}
			k := e.elem(el)
			if _, dup := out[k]; dup {
				return nil, fmt.Errorf("wire form lists element %s twice", k)
			}
			out[k] = ts.UnixNano()
		}
		return out, nil
	}
	st := lwState{}
	if st.add, err = readMap(); err != nil {
		return nil, err
	}
	if st.rem, err = readMap(); err != nil {
		return nil, err
	}
	return st, nil
}

func (lwType) ReadCanon(e *env, v tla.Value) string { return readSet(e, v) }

// RefRead: the set reflects the latest add or remove of each element from any replica.
func (lwType) RefRead(know uint64, ops []opRec, elems int) string {
	latest := map[int]int{}
	for i, o := range ops {
		if know&(1<<uint(i)) == 0 {
			continue
		}
		if j, ok := latest[o.E]; !ok || ops[j].TS < o.TS {
			latest[o.E] = i
		}
	}
	present := map[int]bool{}
	for e, i := range latest {
		present[e] = ops[i].Add
	}
	return fmtSet(present)
}

// intended algorithm: two timestamp maps, pointwise max on merge, add-biased on equal timestamps.
func (lwType) ModelWrite(c cst, rep string, st Step, actual cst) cst {
	s := c.(lwState)
	add, rem := tsMap(vc(s.add).clone()), tsMap(vc(s.rem).clone())
	k := fmt.Sprintf("e%d", st.E)
	// the timestamp is the implementation's own clock reading: take it from the actual result, but it must be
	// fresh (the harness makes the wall clock strictly advance between operations)
	a := actual.(lwState)
	var max int64
	for _, m := range []tsMap{s.add, s.rem} {
		for _, t := range m {
			if t > max {
				max = t
			}
		}
	}
	if st.Add {
		if t, ok := a.add[k]; ok && t > max {
			add[k] = t
		} else {
			add[k] = -1 // forces a difference
		}
	} else {
		if t, ok := a.rem[k]; ok && t > max {
			rem[k] = t
		} else {
			rem[k] = -1
		}
	}
	return lwState{add, rem}
}
func (lwType) ModelMerge(a, b cst) cst {
	x, y := a.(lwState), b.(lwState)
	return lwState{tsMap(vcMax(vc(x.add), vc(y.add))), tsMap(vcMax(vc(x.rem), vc(y.rem)))}
}
func (lwType) ModelRead(c cst) string {
	s := c.(lwState)
	var out []string
	for k, at := range s.add {
		if rt, ok := s.rem[k]; !ok || at >= rt {
			out = append(out, k)
		}
	}
	sort.Strings(out)
	return "[" + strings.Join(out, " ") + "]"
}

func tsDiff(want, got tsMap) (below, other bool) {
	for k, x := range want {
		y, ok := got[k]
		if !ok || y < x {
			below = true
		} else if y > x {
			other = true
		}
	}
	for k := range got {
		if _, ok := want[k]; !ok {
			other = true
		}
	}
	return
}

func (lwType) DiffTag(op string, want, got cst) string {
	w, g := want.(lwState), got.(lwState)
	ab, ao := tsDiff(w.add, g.add)
	rb, ro := tsDiff(w.rem, g.rem)
	var tags []string
	if ab {
		tags = append(tags, op+"-add-timestamp-below-max")
	}
	if rb {
		tags = append(tags, op+"-rem-timestamp-below-max")
	}
	if ao {
		tags = append(tags, op+"-add-timestamp-wrong")
	}
	if ro {
		tags = append(tags, op+"-rem-timestamp-wrong")
	}
	return strings.Join(tags, "+")
}

// ---------------------------------------------------------------------------------------------
// in-memory canonical forms (speed): the unexported maps are read directly. Every state a replica holds in a
// run, every gob copy, every state of a re-evaluated/shrunk witness and a sample of the law-check products are
// ALSO canonicalised through GobEncode + wire structs and the two forms must agree, so the wire path stays the
// reference; the in-memory form only avoids building a gob decoder for each of the ~10^6 law-check products.

func unexported(v any, name string) (any, bool) {
	rv := reflect.ValueOf(v)
	if rv.Kind() != reflect.Struct {
		return nil, false
	}
	cp := reflect.New(rv.Type()).Elem()
	cp.Set(rv)
	f := cp.FieldByName(name)
	if !f.IsValid() {
		return nil, false
	}
	return reflect.NewAt(f.Type(), unsafe.Pointer(f.UnsafeAddr())).Elem().Interface(), true
}

func vcOf(e *env, g resources.GCounter) vc {
	out := vc{}
	if g.Map == nil {
		return out
	}
	it := g.Iterator()
	for !it.Done() {
		id, n, _ := it.Next()
		out[e.rep(id)] = int64(n)
	}
	return out
}

func (gcType) Fast(e *env, v resources.CRDTValue) (cst, bool) {
	g, ok := v.(resources.GCounter)
	if !ok || g.Map == nil {
		return nil, false
	}
	return gcState{vcOf(e, g)}, true
}

func (awType) Fast(e *env, v resources.CRDTValue) (cst, bool) {
	s, ok := v.(resources.AWORSet)
	if !ok {
		return nil, false
	}
	get := func(name string) (vcMap, bool) {
		x, ok := unexported(s, name)
		if !ok {
			return nil, false
		}
		m, ok := x.(*immutable.Map[tla.Value, resources.GCounter])
		if !ok || m == nil {
			return nil, false
		}
		out := vcMap{}
		it := m.Iterator()
		for !it.Done() {
			k, clock, _ := it.Next()
			out[e.elem(k)] = vcOf(e, clock)
		}
		if len(out) != m.Len() {
			return nil, false
		}
		return out, true
	}
	add, ok1 := get("addMap")
	rem, ok2 := get("remMap")
	if !ok1 || !ok2 {
		return nil, false
	}
	return awState{add, rem}, true
}

func (lwType) Fast(e *env, v resources.CRDTValue) (cst, bool) {
	s, ok := v.(resources.LWWSet)
	if !ok {
		return nil, false
	}
	get := func(name string) (tsMap, bool) {
		x, ok := unexported(s, name)
		if !ok {
			return nil, false
		}
		m, ok := x.(*immutable.Map[tla.Value, time.Time])
		if !ok || m == nil {
			return nil, false
		}
		out := tsMap{}
		it := m.Iterator()
		for !it.Done() {
			k, ts, _ := it.Next()
			out[e.elem(k)] = ts.UnixNano()
		}
		if len(out) != m.Len() {
			return nil, false
		}
		return out, true
	}
	add, ok1 := get("addSet")
	rem, ok2 := get("remSet")
	if !ok1 || !ok2 {
		return nil, false
	}
	return lwState{add, rem}, true
}

package main

import (
	"bytes"
	"encoding/gob"
	"fmt"
	"sort"
	"strings"
	"time"

	"github.com/DistCompiler/pgo/distsys/resources"
	"github.com/DistCompiler/pgo/distsys/tla"
)

// ---------------------------------------------------------------------------------------------
// cases

// Step kinds: "upd" (local update at replica R), "send" (replica R puts a snapshot of its state on the wire
// as message M), "deliver" (replica R merges message M — any message, any number of times, in any order;
// Wire: the snapshot went through gob first), "gob" (replica R's own state is replaced by its gob round-trip).
type Step struct {
	K    string `json:"k"`
	R    int    `json:"r"`
	M    int    `json:"m,omitempty"`
	Wire bool   `json:"wire,omitempty"`
	Add  bool   `json:"add,omitempty"`
	E    int    `json:"e,omitempty"`
	N    int32  `json:"n,omitempty"`
}

type Case struct {
	Type     string `json:"type"`
	Flavour  string `json:"flavour"`
	Replicas int    `json:"replicas"`
	Elems    int    `json:"elems"`
	Steps    []Step `json:"steps"`
}

func (c *Case) clone() *Case {
	o := *c
	o.Steps = append([]Step(nil), c.Steps...)
	return &o
}

func (c *Case) Pretty() []string {
	t := typeByName(c.Type)
	var out []string
	for i, s := range c.Steps {
		var d string
		switch s.K {
		case "upd":
			d = fmt.Sprintf("r%d: %s", s.R, t.DescribeOp(s))
		case "send":
			d = fmt.Sprintf("r%d: snapshot -> m%d", s.R, s.M)
		case "deliver":
			w := ""
			if s.Wire {
				w = " (through gob)"
			}
			d = fmt.Sprintf("r%d: merge m%d%s", s.R, s.M, w)
		case "gob":
			d = fmt.Sprintf("r%d: state := gob round-trip of own state", s.R)
		}
		out = append(out, fmt.Sprintf("%d %s", i, d))
	}
	return out
}

// ---------------------------------------------------------------------------------------------
// guarded calls into the code under test

type panicErr struct {
	where string
	val   any
}

func (p *panicErr) Error() string { return fmt.Sprintf("panic in %s: %v", p.where, p.val) }

// gobErr: the value could not be encoded/decoded (transport failure) — decided under law "gob".
type gobErr struct{ msg string }

func (g *gobErr) Error() string { return g.msg }

func guard(where string, f func()) (err error) {
	defer func() {
		if e := recover(); e != nil {
			err = &panicErr{where, e}
		}
	}()
	f()
	return nil
}

func doMerge(a, b resources.CRDTValue) (out resources.CRDTValue, err error) {
	err = guard("Merge", func() { out = a.Merge(b) })
	if err == nil && out == nil {
		err = &panicErr{"Merge", "returned nil"}
	}
	return
}

func doWrite(a resources.CRDTValue, id, arg tla.Value) (out resources.CRDTValue, err error) {
	err = guard("Write", func() { out = a.Write(id, arg) })
	if err == nil && out == nil {
		err = &panicErr{"Write", "returned nil"}
	}
	return
}

// doGob sends the value the way the CRDT resource does: inside resources.ReceiveValueArgs over encoding/gob.
func doGob(a resources.CRDTValue) (out resources.CRDTValue, err error) {
	var inner error
	err = guard("gob", func() {
		var buf bytes.Buffer
		if e := gob.NewEncoder(&buf).Encode(&resources.ReceiveValueArgs{Value: a}); e != nil {
			inner = &gobErr{fmt.Sprintf("gob encode of %T: %v", a, e)}
			return
		}
		var args resources.ReceiveValueArgs
		if e := gob.NewDecoder(&buf).Decode(&args); e != nil {
			inner = &gobErr{fmt.Sprintf("gob decode of %T: %v", a, e)}
			return
		}
		out = args.Value
	})
	if err == nil {
		err = inner
	}
	if err == nil && out == nil {
		err = &gobErr{"gob round-trip produced a nil value"}
	}
	return
}

// sv is a state value with what the harness knows about it.
type sv struct {
	v     resources.CRDTValue
	know  uint64 // set of update ops (bits) merged into it
	c     cst
	cs    string // c.String()
	read  string
	first [2]int // (step, replica) at which a replica first held it
}

type evalCtx struct {
	t     crdtType
	env   *env
	model bool            // also compare every operation with the documented-algorithm model
	tags  map[string]bool // deviations from the documented algorithm observed (model only)
	wire  bool            // canonicalise law-check products through the wire form too (re-evaluation of witnesses)

	fastCount, wireCount, noFast int
	classCount                   [3]int
	mergeClass                   int
}

const (
	clsTrace = iota
	clsGobCopy
	clsProduct
)

var sampleEvery = [3]int{4, 8, 64}

// finish canonicalises a value. In full mode (x.wire: re-evaluation and shrinking of witnesses) always through
// GobEncode and the exported wire structs, cross-checked against the in-memory form. In the bulk law checks the
// wire path is sampled: every 4th state held by a replica, every 8th gob copy, every 64th law-check product
// (building gob decoders for tla.Value dominates the cost otherwise); all others use the in-memory form.
func (x *evalCtx) finish(v resources.CRDTValue, know uint64, class int) (*sv, error) {
	var c, fc cst
	var cerr error
	fastOK := false
	if err := guard("state inspection", func() { fc, fastOK = x.t.Fast(x.env, v) }); err != nil {
		return nil, err
	}
	wire := x.wire
	if !wire && fastOK {
		x.classCount[class]++
		wire = x.classCount[class]%sampleEvery[class] == 0
		if !wire {
			x.fastCount++
		}
	}
	if wire || !fastOK {
		if err := guard("GobEncode", func() { c, cerr = x.t.Canon(x.env, v) }); err != nil {
			return nil, err
		}
		if cerr != nil {
			return nil, &gobErr{fmt.Sprintf("GobEncode / decoding into the exported wire structs: %v", cerr)}
		}
		x.wireCount++
		if fastOK && fc.String() != c.String() {
			return nil, &gobErr{fmt.Sprintf("wire form %s differs from the in-memory state %s", c, fc)}
		}
		if !fastOK {
			x.noFast++
		}
	} else {
		c = fc
	}
	var rd string
	if err := guard("Read", func() { rd = x.t.ReadCanon(x.env, v.Read()) }); err != nil {
		return nil, err
	}
	s := &sv{v: v, know: know, c: c, cs: c.String(), read: rd}
	if x.model {
		if mr := x.t.ModelRead(c); mr != rd {
			x.tags["read-differs-from-documented"] = true
		}
	}
	return s, nil
}

func (x *evalCtx) addTags(t string) {
	for _, p := range strings.Split(t, "+") {
		if p != "" {
			x.tags[p] = true
		}
	}
}

func (x *evalCtx) merge(a, b *sv) (*sv, error) {
	v, err := doMerge(a.v, b.v)
	if err != nil {
		return nil, err
	}
	s, err := x.finish(v, a.know|b.know, x.mergeClass)
	if err != nil {
		return nil, err
	}
	if x.model {
		x.addTags(x.t.DiffTag("merge", x.t.ModelMerge(a.c, b.c), s.c))
	}
	return s, nil
}

func (x *evalCtx) gob(a *sv) (*sv, error) {
	v, err := doGob(a.v)
	if err != nil {
		return nil, err
	}
	s, err := x.finish(v, a.know, clsGobCopy)
	if err != nil {
		return nil, err
	}
	if x.model && s.cs != a.cs {
		x.tags["gob-changes-state"] = true
	}
	return s, nil
}

// ---------------------------------------------------------------------------------------------
// executing a case

type trace struct {
	c      *Case
	at     [][]*sv // at[i+1][r]: state of replica r after steps[0..i]; at[0]: initial
	ops    []opRec
	opStep []int // step index of each op
	states []*sv // distinct state objects in order of first appearance
	msgs   map[int]*sv
	// statistics
	concurrentMerges, staleDeliveries, dupDeliveries, wireDeliveries, gobSteps int
	writers                                                                    map[int]bool
	clockTrouble                                                               bool // LWW: wall clock did not strictly advance
}

var errTooManyOps = fmt.Errorf("more than 64 update operations")

func (x *evalCtx) execute(c *Case) (*trace, error) {
	tr := &trace{c: c, msgs: map[int]*sv{}, writers: map[int]bool{}}
	x.mergeClass = clsTrace
	defer func() { x.mergeClass = clsProduct }()
	cur := make([]*sv, c.Replicas)
	for r := range cur {
		var v resources.CRDTValue
		if err := guard("Init", func() { v = x.t.Init() }); err != nil {
			return tr, err
		}
		s, err := x.finish(v, 0, clsTrace)
		if err != nil {
			return tr, err
		}
		s.first = [2]int{-1, r}
		cur[r] = s
		tr.states = append(tr.states, s)
	}
	tr.at = append(tr.at, append([]*sv(nil), cur...))
	delivered := map[[2]int]bool{} // (replica, msg)
	latestMsg := map[int]int{}     // sender -> latest msg id
	msgSender := map[int]int{}
	var lastTS int64
	for i, st := range c.Steps {
		if st.R < 0 || st.R >= c.Replicas {
			return tr, fmt.Errorf("step %d: replica %d out of range", i, st.R)
		}
		old := cur[st.R]
		var nw *sv
		switch st.K {
		case "upd":
			if len(tr.ops) >= 64 {
				return tr, errTooManyOps
			}
			var t0 int64
			if x.t.Name() == "LWWSet" {
				// serialised ops; the wall clock must strictly advance between them so that timestamp order = issue
				// order even after gob strips the monotonic reading
				for {
					t0 = time.Now().UnixNano()
					if t0 > lastTS {
						break
					}
				}
			}
			v, err := doWrite(old.v, x.env.ids[st.R], x.t.WriteArg(x.env, st))
			if err != nil {
				return tr, err
			}
			bit := uint64(1) << uint(len(tr.ops))
			s, err := x.finish(v, old.know|bit, clsTrace)
			if err != nil {
				return tr, err
			}
			op := opRec{Rep: st.R, Add: st.Add, E: st.E, N: st.N}
			if !st.Add {
				for j, o := range tr.ops {
					if o.Add && o.E == st.E && old.know&(1<<uint(j)) != 0 {
						op.Obs |= 1 << uint(j)
					}
				}
			}
			op.TS = int64(len(tr.ops)) // "latest" = issue order; the harness serialises all updates of a run
			if x.t.Name() == "LWWSet" {
				t1 := time.Now().UnixNano()
				if t1 < t0 {
					tr.clockTrouble = true // the wall clock stepped back during the call: nothing can be decided
				}
				lastTS = t0
				if t1 > lastTS {
					lastTS = t1
				}
			}
			if x.model {
				want := x.t.ModelWrite(old.c, fmt.Sprintf("r%d", st.R), st, s.c)
				x.addTags(x.t.DiffTag("write", want, s.c))
			}
			tr.ops = append(tr.ops, op)
			tr.opStep = append(tr.opStep, i)
			tr.writers[st.R] = true
			nw = s
		case "send":
			tr.msgs[st.M] = old
			latestMsg[st.R] = st.M
			msgSender[st.M] = st.R
		case "deliver":
			m, ok := tr.msgs[st.M]
			if !ok {
				break // the send was shrunk away: nothing arrives
			}
			if st.Wire {
				g, err := x.gob(m)
				if err != nil {
					return tr, err
				}
				m = g
				tr.wireDeliveries++
			}
			if old.know&^m.know != 0 && m.know&^old.know != 0 {
				tr.concurrentMerges++
			}
			if delivered[[2]int{st.R, st.M}] {
				tr.dupDeliveries++
			} else if latestMsg[msgSender[st.M]] != st.M || cur[msgSender[st.M]] != tr.msgs[st.M] {
				tr.staleDeliveries++
			}
			delivered[[2]int{st.R, st.M}] = true
			s, err := x.merge(old, m)
			if err != nil {
				return tr, err
			}
			nw = s
		case "gob":
			s, err := x.gob(old)
			if err != nil {
				return tr, err
			}
			tr.gobSteps++
			nw = s
		default:
			return tr, fmt.Errorf("step %d: unknown kind %q", i, st.K)
		}
		if nw != nil {
			nw.first = [2]int{i, st.R}
			cur[st.R] = nw
			tr.states = append(tr.states, nw)
		}
		tr.at = append(tr.at, append([]*sv(nil), cur...))
	}
	return tr, nil
}

// ---------------------------------------------------------------------------------------------
// expressions over visited states, law instances

type Ref struct {
	Step int `json:"step"` // -1: initial state
	Rep  int `json:"rep"`
}

// Expr: a leaf (the state replica Rep holds after step Step, or a fresh Init() state) or L.Merge(R);
// G: the result is passed through gob before use.
type Expr struct {
	S    *Ref  `json:"s,omitempty"`
	Init bool  `json:"init,omitempty"`
	L    *Expr `json:"l,omitempty"`
	R    *Expr `json:"r,omitempty"`
	G    bool  `json:"g,omitempty"`
}

func leaf(s *sv, g bool) *Expr { return &Expr{S: &Ref{s.first[0], s.first[1]}, G: g} }
func mrg(l, r *Expr) *Expr     { return &Expr{L: l, R: r} }

func (e *Expr) String() string {
	var s string
	switch {
	case e.Init:
		s = "init"
	case e.S != nil:
		if e.S.Step < 0 {
			s = fmt.Sprintf("r%d@start", e.S.Rep)
		} else {
			s = fmt.Sprintf("r%d@%d", e.S.Rep, e.S.Step)
		}
	default:
		s = "(" + e.L.String() + " ⊔ " + e.R.String() + ")"
	}
	if e.G {
		s = "gob(" + s + ")"
	}
	return s
}

func (e *Expr) clone() *Expr {
	if e == nil {
		return nil
	}
	o := *e
	if e.S != nil {
		r := *e.S
		o.S = &r
	}
	o.L, o.R = e.L.clone(), e.R.clone()
	return &o
}

func (e *Expr) walk(f func(*Expr)) {
	if e == nil {
		return
	}
	f(e)
	e.L.walk(f)
	e.R.walk(f)
}

// Instance of a law. Level: "state" (canonical wire states of A and B must be equal), "read" (reads of A and B
// must be equal), "ref" (read of A must equal the op-based reference for A's knowledge), "conv" (A and B have
// equal knowledge, so their reads must be equal).
type Instance struct {
	Law   string `json:"law"`
	Level string `json:"level"`
	A     *Expr  `json:"a"`
	B     *Expr  `json:"b,omitempty"`
}

func (in *Instance) clone() *Instance {
	o := *in
	o.A, o.B = in.A.clone(), in.B.clone()
	return &o
}

func (x *evalCtx) evalExpr(tr *trace, e *Expr) (*sv, error) {
	var s *sv
	switch {
	case e.Init:
		var v resources.CRDTValue
		if err := guard("Init", func() { v = x.t.Init() }); err != nil {
			return nil, err
		}
		var err error
		if s, err = x.finish(v, 0, clsTrace); err != nil {
			return nil, err
		}
	case e.S != nil:
		if e.S.Step+1 < 0 || e.S.Step+1 >= len(tr.at) || e.S.Rep < 0 || e.S.Rep >= len(tr.at[0]) {
			return nil, fmt.Errorf("reference %v outside the case", *e.S)
		}
		s = tr.at[e.S.Step+1][e.S.Rep]
	default:
		l, err := x.evalExpr(tr, e.L)
		if err != nil {
			return nil, err
		}
		r, err := x.evalExpr(tr, e.R)
		if err != nil {
			return nil, err
		}
		if s, err = x.merge(l, r); err != nil {
			return nil, err
		}
	}
	if e.G {
		return x.gob(s)
	}
	return s, nil
}

// Outcome of evaluating one instance on one case.
type Outcome struct {
	Fails  bool     `json:"fails"`
	Law    string   `json:"law"`
	Level  string   `json:"level"`
	Detail string   `json:"detail"`
	Tags   []string `json:"deviations_from_documented_algorithm"`
	Dir    string   `json:"direction,omitempty"` // ref level on sets: spurious / missing elements
	Panic  string   `json:"panic,omitempty"`
	Error  string   `json:"error,omitempty"`
}

func setDiff(got, want string) (spurious, missing []string) {
	g := strings.Fields(strings.Trim(got, "[]"))
	w := strings.Fields(strings.Trim(want, "[]"))
	gm, wm := map[string]bool{}, map[string]bool{}
	for _, s := range g {
		gm[s] = true
	}
	for _, s := range w {
		wm[s] = true
	}
	for _, s := range g {
		if !wm[s] {
			spurious = append(spurious, s)
		}
	}
	for _, s := range w {
		if !gm[s] {
			missing = append(missing, s)
		}
	}
	return
}

// evaluate runs the case and the instance with the documented-algorithm model switched on.
func evaluate(c *Case, in *Instance, full bool) Outcome {
	t := typeByName(c.Type)
	out := Outcome{Law: in.Law, Level: in.Level}
	if t == nil {
		out.Error = "unknown type " + c.Type
		return out
	}
	x := &evalCtx{t: t, env: newEnv(c), model: true, wire: full, mergeClass: clsProduct, tags: map[string]bool{}}
	fail := func(err error) Outcome {
		switch e := err.(type) {
		case *panicErr:
			out.Panic = e.where
			out.Fails = in.Law == "panic"
			out.Detail = e.Error()
		case *gobErr:
			out.Fails = in.Law == "gob"
			out.Detail = e.Error()
			x.tags["gob-transport-failure"] = true
			if !out.Fails {
				out.Error = e.Error()
			}
		default:
			out.Error = err.Error()
		}
		for k := range x.tags {
			out.Tags = append(out.Tags, k)
		}
		sort.Strings(out.Tags)
		return out
	}
	tr, err := x.execute(c)
	if err != nil {
		return fail(err)
	}
	if tr.clockTrouble {
		out.Error = "wall clock did not strictly advance"
		return out
	}
	var a, b *sv
	if in.A != nil {
		if a, err = x.evalExpr(tr, in.A); err != nil {
			return fail(err)
		}
	}
	if in.B != nil {
		if b, err = x.evalExpr(tr, in.B); err != nil {
			return fail(err)
		}
	}
	for k := range x.tags {
		out.Tags = append(out.Tags, k)
	}
	sort.Strings(out.Tags)
	switch in.Level {
	case "state":
		if a.cs != b.cs {
			out.Fails = true
			out.Detail = fmt.Sprintf("%s = %s   but   %s = %s", in.A, a.cs, in.B, b.cs)
		}
	case "read":
		if a.read != b.read {
			out.Fails = true
			out.Detail = fmt.Sprintf("Read(%s) = %s   but   Read(%s) = %s   (states %s / %s)", in.A, a.read, in.B, b.read, a.cs, b.cs)
		}
	case "conv":
		if a.know == b.know && a.read != b.read {
			out.Fails = true
			out.Detail = fmt.Sprintf("%s and %s have merged the same updates %s but read %s and %s (states %s / %s)", in.A, in.B, opNames(tr, a.know), a.read, b.read, a.cs, b.cs)
		}
	case "ref":
		want := t.RefRead(a.know, tr.ops, c.Elems)
		if a.read != want {
			out.Fails = true
			out.Detail = fmt.Sprintf("Read(%s) = %s, declared semantics over the updates it has merged %s gives %s (state %s)", in.A, a.read, opNames(tr, a.know), want, a.cs)
			if t.Name() != "GCounter" {
				sp, mi := setDiff(a.read, want)
				// direction of the smallest differing element (a state can have both kinds at once)
				switch {
				case len(mi) == 0 || (len(sp) > 0 && sp[0] < mi[0]):
					out.Dir = "spurious"
				default:
					out.Dir = "missing"
				}
			}
		}
	}
	return out
}

func opNames(tr *trace, know uint64) string {
	var out []string
	for i := range tr.ops {
		if know&(1<<uint(i)) != 0 {
			out = append(out, fmt.Sprintf("#%d", tr.opStep[i]))
		}
	}
	return "{" + strings.Join(out, ",") + "}"
}

// ---------------------------------------------------------------------------------------------
// shrinking (greedy, bounded) and canonical renaming

func removeStep(c *Case, in *Instance, j int) (*Case, *Instance) {
	nc := c.clone()
	nc.Steps = append(nc.Steps[:j:j], c.Steps[j+1:]...)
	ni := in.clone()
	fix := func(e *Expr) {
		if e.S != nil && e.S.Step >= j {
			e.S.Step--
		}
	}
	ni.A.walk(fix)
	ni.B.walk(fix)
	return nc, ni
}

func sameFailure(a, b Outcome) bool {
	return b.Fails && a.Law == b.Law && a.Level == b.Level && a.Dir == b.Dir && a.Panic == b.Panic && (len(a.Tags) == 0) == (len(b.Tags) == 0)
}

func shrink(c *Case, in *Instance, orig Outcome, budget int) (*Case, *Instance, Outcome, int) {
	used := 0
	try := func(nc *Case, ni *Instance) bool {
		if used >= budget {
			return false
		}
		used++
		o := evaluate(nc, ni, true)
		if sameFailure(orig, o) {
			c, in, orig = nc, ni, o
			return true
		}
		return false
	}
	for changed := true; changed && used < budget; {
		changed = false
		for j := len(c.Steps) - 1; j >= 0; j-- {
			nc, ni := removeStep(c, in, j)
			if try(nc, ni) {
				changed = true
			}
		}
	}
	// simplifications that keep the shape
	for j := range c.Steps {
		if c.Steps[j].Wire {
			nc := c.clone()
			nc.Steps[j].Wire = false
			try(nc, in)
		}
		if c.Steps[j].K == "upd" && c.Steps[j].N > 1 {
			nc := c.clone()
			nc.Steps[j].N = 1
			try(nc, in)
		}
	}
	countG := func(in *Instance) int {
		n := 0
		f := func(e *Expr) {
			if e.G {
				n++
			}
		}
		in.A.walk(f)
		in.B.walk(f)
		return n
	}
	for progress := true; progress; {
		progress = false
		for k, n := 0, countG(in); k < n; k++ {
			ni := in.clone()
			idx := 0
			clear := func(e *Expr) {
				if e.G {
					if idx == k {
						e.G = false
					}
					idx++
				}
			}
			ni.A.walk(clear)
			ni.B.walk(clear)
			if try(c, ni) {
				progress = true
				break
			}
		}
	}
	if c.Flavour != "num" {
		nc := c.clone()
		nc.Flavour = "num"
		try(nc, in)
	}
	nc, ni := canonicalise(c, in)
	if o := evaluate(nc, ni, true); sameFailure(orig, o) {
		c, in, orig = nc, ni, o
	}
	return c, in, orig, used
}

// canonicalise renames replicas, elements and messages in order of first appearance and trims the counts.
func canonicalise(c *Case, in *Instance) (*Case, *Instance) {
	nc, ni := c.clone(), in.clone()
	rmap, emap, mmap := map[int]int{}, map[int]int{}, map[int]int{}
	rn := func(r int) int {
		if v, ok := rmap[r]; ok {
			return v
		}
		rmap[r] = len(rmap)
		return rmap[r]
	}
	for j := range nc.Steps {
		s := &nc.Steps[j]
		s.R = rn(s.R)
		if s.K == "upd" && c.Type != "GCounter" {
			if v, ok := emap[s.E]; ok {
				s.E = v
			} else {
				emap[s.E] = len(emap)
				s.E = emap[s.E]
			}
		}
		if s.K == "send" || s.K == "deliver" {
			if v, ok := mmap[s.M]; ok {
				s.M = v
			} else {
				mmap[s.M] = len(mmap) + 1
				s.M = mmap[s.M]
			}
		}
	}
	fix := func(e *Expr) {
		if e.S != nil {
			e.S.Rep = rn(e.S.Rep)
		}
	}
	ni.A.walk(fix)
	ni.B.walk(fix)
	nc.Replicas = len(rmap)
	if nc.Replicas == 0 {
		nc.Replicas = 1
	}
	nc.Elems = len(emap)
	if nc.Elems == 0 {
		nc.Elems = 1
	}
	if nc.Flavour == "mixed" {
		// mixed identifiers depend on the index: renaming would change the values; keep the counts instead
		return c, in
	}
	return nc, ni
}

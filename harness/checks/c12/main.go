// C12 — CRDT data types are semilattices with their declared read semantics.
//
// Workload: generated histories over 2–5 replicas and 1–4 elements, 1–40 steps drawn from {local update at r,
// r puts a snapshot on the wire, r merges any message on the wire (current, stale, its own, duplicate; with or
// without a gob round-trip), gob round-trip of r's own state}, run against the real resources.GCounter /
// AWORSet / LWWSet through the public CRDTValue interface.
//
// Oracles (all on states actually visited by the run, and on the merges of pairs/triples of them):
//
//	comm       a⊔b = b⊔a                       (state and Read)
//	assoc      (a⊔b)⊔c = a⊔(b⊔c)               (state and Read)
//	idem       a⊔a = a                         (state and Read)
//	inflation  w=Write(a): w⊔a = w and a⊔w = w (state and Read)  — a local update never moves a state down
//	identity   Init()⊔a = a⊔Init() = a         (implied by the statement: every reachable state is above Init)
//	gob        transport round-trip keeps state and Read; every law above also runs on round-tripped operands
//	convergence  two states that have merged the same set of update ids Read the same value
//	read       Read = the declared op-based semantics over the update ids merged into the state
//	           (counter: sum; add-wins set: adds not observed by a remove; LWW: latest op per element)
//
// States are compared through the type's own GobEncode decoded into the exported wire structs and sorted — never
// through String(). A failing run is shrunk (greedy step removal with the law instance pinned to (step, replica)
// references) and keyed C12:<Type>:<law>:<cause>, where <cause> says whether every operation in the witness
// behaved as the documented algorithm prescribes ("design") or names how the code deviated from it.
package main

import (
	"encoding/json"
	"fmt"
	"hash/fnv"
	"math/rand"
	"os"
	"runtime"
	"runtime/debug"
	"runtime/pprof"
	"sort"
	"strings"
	"sync"
	"time"

	"verifh/common"
)

// ---------------------------------------------------------------------------------------------
// generation

func genCase(rng *rand.Rand, typ string) *Case {
	c := &Case{Type: typ, Replicas: 2 + rng.Intn(4), Elems: 1 + rng.Intn(4)}
	switch rng.Intn(4) {
	case 0:
		c.Flavour = "str"
	case 1:
		c.Flavour = "mixed"
	default:
		c.Flavour = "num"
	}
	n := 1 + rng.Intn(40)
	nextMsg := 1
	var msgs []int
	deliveredTo := map[int][]int{}
	upd := func(r int) Step {
		st := Step{K: "upd", R: r}
		if typ == "GCounter" {
			st.N = int32(1 + rng.Intn(9))
		} else {
			st.Add = rng.Intn(100) < 55
			st.E = rng.Intn(c.Elems)
		}
		return st
	}
	for len(c.Steps) < n {
		r := rng.Intn(c.Replicas)
		p := rng.Intn(100)
		switch {
		case p < 40:
			c.Steps = append(c.Steps, upd(r))
		case p < 65:
			s := rng.Intn(c.Replicas - 1)
			if s >= r {
				s++
			}
			m := nextMsg
			nextMsg++
			msgs = append(msgs, m)
			c.Steps = append(c.Steps, Step{K: "send", R: s, M: m}, Step{K: "deliver", R: r, M: m, Wire: rng.Intn(2) == 0})
			deliveredTo[r] = append(deliveredTo[r], m)
		case p < 80 && len(msgs) > 0:
			m := msgs[rng.Intn(len(msgs))]
			c.Steps = append(c.Steps, Step{K: "deliver", R: r, M: m, Wire: rng.Intn(2) == 0})
			deliveredTo[r] = append(deliveredTo[r], m)
		case p < 90 && len(deliveredTo[r]) > 0:
			d := deliveredTo[r]
			c.Steps = append(c.Steps, Step{K: "deliver", R: r, M: d[rng.Intn(len(d))], Wire: rng.Intn(2) == 0})
		case p < 96:
			c.Steps = append(c.Steps, Step{K: "gob", R: r})
		default:
			c.Steps = append(c.Steps, upd(r))
		}
	}
	return c
}

// ---------------------------------------------------------------------------------------------
// checking one run

type failure struct {
	in     *Instance
	detail string
}

type runStats struct {
	lawEvals   map[string]int
	states     int
	products   int
	convGroups int // knowledge sets reached by >= 2 different derivations
	nontrivial bool
	inconcl    string
	tr         *trace
	wire, fast int // states canonicalised through the wire form / in memory only
	noFast     int
}

type lawSink struct {
	byLaw map[string]map[string]*failure // law -> level -> first failure
	evals map[string]int
}

func (ls *lawSink) record(law, level string, a, b *Expr, detail string) {
	if ls.byLaw[law] == nil {
		ls.byLaw[law] = map[string]*failure{}
	}
	if ls.byLaw[law][level] == nil {
		ls.byLaw[law][level] = &failure{in: &Instance{Law: law, Level: level, A: a, B: b}, detail: detail}
	}
}

// operand: a state plus the expression that denotes it
type operand struct {
	s *sv
	e *Expr
}

func checkRun(c *Case, rng *rand.Rand, maxPairs, maxTriples int) (fails []*failure, st runStats) {
	t := typeByName(c.Type)
	x := &evalCtx{t: t, env: newEnv(c), mergeClass: clsProduct}
	ls := &lawSink{byLaw: map[string]map[string]*failure{}, evals: map[string]int{}}
	st.lawEvals = ls.evals
	collect := func() []*failure {
		st.wire, st.fast, st.noFast = x.wireCount, x.fastCount, x.noFast
		laws := make([]string, 0, len(ls.byLaw))
		for l := range ls.byLaw {
			laws = append(laws, l)
		}
		sort.Strings(laws)
		for _, l := range laws {
			m := ls.byLaw[l]
			// prefer the observable (Read-level) instance
			for _, lvl := range []string{"read", "ref", "conv", "state", ""} {
				if f := m[lvl]; f != nil {
					fails = append(fails, f)
					break
				}
			}
		}
		return fails
	}
	// hard: an error from the code under test that ends the run
	hard := func(err error, a, b *Expr) {
		switch e := err.(type) {
		case *panicErr:
			ls.record("panic", "", a, b, e.Error())
		case *gobErr:
			ls.record("gob", "", a, b, e.Error())
		default:
			st.inconcl = "harness: " + err.Error()
		}
	}
	tr, err := x.execute(c)
	st.tr = tr
	if err != nil {
		hard(err, nil, nil)
		return collect(), st
	}
	if tr.clockTrouble {
		st.inconcl = "wall clock did not strictly advance between LWW operations"
		return nil, st
	}
	st.nontrivial = len(tr.writers) >= 2 && tr.concurrentMerges >= 1

	// convergence bookkeeping: knowledge -> first derivation seen
	type conv struct {
		o     operand
		multi bool
	}
	groups := map[uint64]*conv{}
	observe := func(o operand) {
		// read vs. declared semantics
		ls.evals["read"]++
		if want := t.RefRead(o.s.know, tr.ops, c.Elems); want != o.s.read {
			ls.record("read", "ref", o.e, nil, fmt.Sprintf("Read=%s reference=%s", o.s.read, want))
		}
		g := groups[o.s.know]
		if g == nil {
			groups[o.s.know] = &conv{o: o}
			return
		}
		ls.evals["convergence"]++
		if !g.multi {
			g.multi = true
			st.convGroups++
		}
		if g.o.s.read != o.s.read {
			ls.record("convergence", "conv", g.o.e, o.e, fmt.Sprintf("%s vs %s", g.o.s.read, o.s.read))
		}
	}
	same := func(law string, a, b operand) {
		ls.evals[law]++
		if a.s.cs != b.s.cs {
			ls.record(law, "state", a.e, b.e, a.s.cs+" vs "+b.s.cs)
		}
		if a.s.read != b.s.read {
			ls.record(law, "read", a.e, b.e, a.s.read+" vs "+b.s.read)
		}
	}
	merge := func(a, b operand) (operand, bool) {
		s, err := x.merge(a.s, b.s)
		e := mrg(a.e, b.e)
		if err != nil {
			hard(err, e, nil)
			return operand{}, false
		}
		st.products++
		return operand{s, e}, true
	}

	// distinct visited states
	var U []operand
	seen := map[string]bool{}
	for _, s := range tr.states {
		k := fmt.Sprintf("%x|%s", s.know, s.cs)
		if seen[k] {
			continue
		}
		seen[k] = true
		U = append(U, operand{s, leaf(s, false)})
	}
	st.states = len(U)
	G := make([]operand, len(U)) // gob round-tripped copies
	initS, err := x.evalExpr(tr, &Expr{Init: true})
	if err != nil {
		hard(err, &Expr{Init: true}, nil)
		return collect(), st
	}
	initO := operand{initS, &Expr{Init: true}}
	for i, u := range U {
		observe(u)
		if aa, ok := merge(u, u); ok {
			same("idem", aa, u)
		}
		gs, err := x.gob(u.s)
		if err != nil {
			hard(err, leaf(u.s, true), nil)
			G[i] = u
		} else {
			G[i] = operand{gs, leaf(u.s, true)}
			same("gob", G[i], u)
		}
		if ia, ok := merge(initO, u); ok {
			same("identity", ia, u)
		}
		if ai, ok := merge(u, initO); ok {
			same("identity", ai, u)
		}
	}
	// inflation at every update
	for k := range tr.ops {
		i := tr.opStep[k]
		r := c.Steps[i].R
		a := operand{tr.at[i][r], leaf(tr.at[i][r], false)}
		w := operand{tr.at[i+1][r], leaf(tr.at[i+1][r], false)}
		if wa, ok := merge(w, a); ok {
			same("inflation", wa, w)
		}
		if aw, ok := merge(a, w); ok {
			same("inflation", aw, w)
		}
	}
	pick := func(i int) operand {
		if rng.Intn(4) == 0 {
			return G[i]
		}
		return U[i]
	}
	// pairs
	type pr struct{ i, j int }
	var pairs []pr
	for i := range U {
		for j := i + 1; j < len(U); j++ {
			pairs = append(pairs, pr{i, j})
		}
	}
	if len(pairs) > maxPairs {
		rng.Shuffle(len(pairs), func(a, b int) { pairs[a], pairs[b] = pairs[b], pairs[a] })
		pairs = pairs[:maxPairs]
	}
	for _, p := range pairs {
		a, b := pick(p.i), pick(p.j)
		ab, ok1 := merge(a, b)
		ba, ok2 := merge(b, a)
		if ok1 && ok2 {
			same("comm", ab, ba)
		}
		if ok1 {
			observe(ab)
		}
		if ok2 {
			observe(ba)
		}
	}
	// triples
	if n := len(U); n > 0 {
		total := n * n * n
		cnt := maxTriples
		if total < cnt {
			cnt = total
		}
		for q := 0; q < cnt; q++ {
			var i, j, k int
			if total <= maxTriples {
				i, j, k = q/(n*n), (q/n)%n, q%n
			} else {
				i, j, k = rng.Intn(n), rng.Intn(n), rng.Intn(n)
			}
			a, b, cc := pick(i), pick(j), pick(k)
			ab, ok := merge(a, b)
			if !ok {
				continue
			}
			bc, ok := merge(b, cc)
			if !ok {
				continue
			}
			l, ok1 := merge(ab, cc)
			r, ok2 := merge(a, bc)
			if ok1 && ok2 {
				same("assoc", l, r)
				observe(l)
				observe(r)
			}
		}
	}
	return collect(), st
}

// ---------------------------------------------------------------------------------------------
// keys and reporting

func causeOf(o Outcome) string {
	if len(o.Tags) == 0 {
		return "design"
	}
	return "impl(" + strings.Join(o.Tags, "+") + ")"
}

func keyOf(c *Case, o Outcome) string {
	law := o.Law
	switch {
	case o.Law == "panic":
		return fmt.Sprintf("C12:%s:panic:%s", c.Type, o.Panic)
	case o.Law == "read" && o.Dir != "":
		law = "read-" + o.Dir + "-element"
	}
	return fmt.Sprintf("C12:%s:%s:%s", c.Type, law, causeOf(o))
}

var lawText = map[string]string{
	"comm":        "Merge is not commutative",
	"assoc":       "Merge is not associative",
	"idem":        "Merge is not idempotent",
	"inflation":   "a local update moved the state down (or sideways in) the merge order",
	"identity":    "a reachable state is not above the initial state",
	"gob":         "state or Read changed by gob transport",
	"convergence": "two states that merged the same updates read different values",
	"read":        "Read disagrees with the declared semantics over the updates merged into the state",
	"panic":       "the code under test panicked",
}

type witness struct {
	Case        *Case     `json:"case"`
	Instance    *Instance `json:"instance"`
	Outcome     Outcome   `json:"outcome"`
	Pretty      []string  `json:"case_pretty"`
	A           string    `json:"a"`
	B           string    `json:"b,omitempty"`
	Shrunk      bool      `json:"shrunk"`
	OrigSteps   int       `json:"steps_before_shrinking"`
	ShrinkEvals int       `json:"shrink_evaluations"`
	Original    *Case     `json:"original_case,omitempty"`
}

func mkWitness(c *Case, in *Instance, o Outcome) *witness {
	w := &witness{Case: c, Instance: in, Outcome: o, Pretty: c.Pretty()}
	if in.A != nil {
		w.A = in.A.String()
	}
	if in.B != nil {
		w.B = in.B.String()
	}
	return w
}

func describe(c *Case, o Outcome) string {
	return fmt.Sprintf("%s %s: %s — %s [%d steps, %d replicas]", c.Type, o.Law+"/"+o.Level, lawText[o.Law], o.Detail, len(c.Steps), c.Replicas)
}

// ---------------------------------------------------------------------------------------------

type agg struct {
	mu           sync.Mutex
	runs         map[string]int
	steps        map[string]int
	updates      map[string]int
	states       map[string]int
	products     map[string]int
	lawEvals     map[string]map[string]int
	failures     map[string]int // "<Type>:<law>/<level>"
	keys         map[string]int
	concurrent   map[string]int
	stale        map[string]int
	dup          map[string]int
	wire         map[string]int
	gobSteps     map[string]int
	convGroups   map[string]int
	wireN, fastN map[string]int
	noFast       int
	shrinks      int
	shrinkEvals  int
	preKeyCount  map[string]int
	notRepro     int
	done         int
}

func newAgg() *agg {
	m := func() map[string]int { return map[string]int{} }
	return &agg{runs: m(), steps: m(), updates: m(), states: m(), products: m(), lawEvals: map[string]map[string]int{},
		failures: m(), keys: m(), concurrent: m(), stale: m(), dup: m(), wire: m(), gobSteps: m(), convGroups: m(), preKeyCount: m(), wireN: m(), fastN: m()}
}

func caseSig(c *Case) string {
	buf, _ := json.Marshal(c)
	h := fnv.New64a()
	h.Write(buf)
	return fmt.Sprintf("%016x", h.Sum64())
}

func replay(r *common.Run) {
	buf, err := os.ReadFile(r.Replay)
	if err != nil {
		fmt.Println("cannot read replay file:", err)
		os.Exit(3)
	}
	var f struct {
		Key     string  `json:"key"`
		Witness witness `json:"witness"`
	}
	if err := json.Unmarshal(buf, &f); err != nil || f.Witness.Case == nil || f.Witness.Instance == nil {
		fmt.Println("replay file not understood:", err)
		os.Exit(3)
	}
	o := evaluate(f.Witness.Case, f.Witness.Instance, true)
	for _, l := range f.Witness.Case.Pretty() {
		fmt.Println("   ", l)
	}
	fmt.Printf("  instance: law=%s level=%s A=%v B=%v\n", f.Witness.Instance.Law, f.Witness.Instance.Level, f.Witness.Instance.A, f.Witness.Instance.B)
	if o.Fails {
		r.Report(keyOf(f.Witness.Case, o), describe(f.Witness.Case, o), mkWitness(f.Witness.Case, f.Witness.Instance, o))
	} else {
		fmt.Printf("replay: the stored case no longer fails (outcome %+v)\n", o)
	}
	r.Finish(common.Coverage{Evaluations: 1, DistinctNontrivial: 1, Rule: "replay of one stored case", Samples: []any{f.Witness.Case}}, nil)
}

var stopProf = func() {}

func main() {
	r := common.Start("C12", "exploration")
	debug.SetGCPercent(400)
	if pf := os.Getenv("C12_PROF"); pf != "" {
		f, _ := os.Create(pf)
		pprof.StartCPUProfile(f)
		defer pprof.StopCPUProfile()
		stopProf = pprof.StopCPUProfile
	}
	if r.Replay != "" {
		replay(r)
		return
	}
	types := []string{"GCounter", "AWORSet", "LWWSet"}
	if only := os.Getenv("C12_TYPES"); only != "" {
		types = strings.Split(only, ",")
	}
	runsPerType := r.Pick(900, 10000)
	maxPairs := r.Pick(150, 200)
	maxTriples := r.Pick(150, 250)
	workers := r.Pick(8, 16)
	if n := runtime.NumCPU(); workers > n {
		workers = n
	}
	const shrinkPerPreKey = 4
	const shrinkBudget = 400

	ag := newAgg()
	var distinct common.Distinct
	var samples common.SampleKeeper
	samples.N = 6
	total := runsPerType * len(types)

	work := func(idx int) {
		typ := types[idx%len(types)]
		n := idx / len(types)
		rng := r.Rand(fmt.Sprintf("c12/%s/%d", typ, n))
		c := genCase(rng, typ)
		fails, st := checkRun(c, rng, maxPairs, maxTriples)
		if st.inconcl != "" {
			r.Inconclusive(fmt.Sprintf("%s run %d: %s", typ, n, st.inconcl))
			return
		}
		if st.nontrivial {
			distinct.Add(caseSig(c))
		}
		if n < 2 {
			samples.Add(map[string]any{"type": typ, "replicas": c.Replicas, "elements": c.Elems, "identifiers": c.Flavour, "steps": c.Pretty()})
		}
		ag.mu.Lock()
		ag.done++
		ag.runs[typ]++
		ag.steps[typ] += len(c.Steps)
		ag.states[typ] += st.states
		ag.products[typ] += st.products
		ag.convGroups[typ] += st.convGroups
		ag.wireN[typ] += st.wire
		ag.fastN[typ] += st.fast
		ag.noFast += st.noFast
		if st.tr != nil {
			ag.updates[typ] += len(st.tr.ops)
			ag.concurrent[typ] += st.tr.concurrentMerges
			ag.stale[typ] += st.tr.staleDeliveries
			ag.dup[typ] += st.tr.dupDeliveries
			ag.wire[typ] += st.tr.wireDeliveries
			ag.gobSteps[typ] += st.tr.gobSteps
		}
		if ag.lawEvals[typ] == nil {
			ag.lawEvals[typ] = map[string]int{}
		}
		for l, k := range st.lawEvals {
			ag.lawEvals[typ][l] += k
		}
		ag.mu.Unlock()

		for _, f := range fails {
			o := evaluate(c, f.in, false)
			ag.mu.Lock()
			ag.failures[fmt.Sprintf("%s:%s/%s", typ, f.in.Law, f.in.Level)]++
			ag.mu.Unlock()
			if !o.Fails {
				if o.Error == "wall clock did not strictly advance" {
					r.Inconclusive(fmt.Sprintf("%s run %d: %s during re-evaluation", typ, n, o.Error))
					continue
				}
				// the fast path and the pinned re-evaluation disagree: harness problem or nondeterminism in the code
				ag.mu.Lock()
				ag.notRepro++
				ag.mu.Unlock()
				r.Report(fmt.Sprintf("C12:%s:%s:not-reproducible", typ, f.in.Law),
					fmt.Sprintf("%s %s failed in the run (%s) but not when the same case was re-executed (%+v)", typ, f.in.Law, f.detail, o),
					mkWitness(c, f.in, o))
				continue
			}
			pre := keyOf(c, o)
			ag.mu.Lock()
			ag.preKeyCount[pre]++
			doShrink := ag.preKeyCount[pre] <= shrinkPerPreKey
			ag.mu.Unlock()
			fc, fi, fo := c, f.in, o
			w := (*witness)(nil)
			if doShrink {
				if o2 := evaluate(c, f.in, true); sameFailure(o, o2) {
					o = o2
				}
				var used int
				fc, fi, fo, used = shrink(c, f.in, o, shrinkBudget)
				w = mkWitness(fc, fi, fo)
				w.Shrunk, w.OrigSteps, w.ShrinkEvals, w.Original = true, len(c.Steps), used, c
				ag.mu.Lock()
				ag.shrinks++
				ag.shrinkEvals += used
				ag.mu.Unlock()
			} else {
				w = mkWitness(c, f.in, o)
				w.OrigSteps = len(c.Steps)
			}
			key := keyOf(fc, fo)
			ag.mu.Lock()
			ag.keys[key]++
			ag.mu.Unlock()
			r.Report(key, describe(fc, fo), w)
		}
	}

	doneCh := make(chan struct{})
	go func() {
		common.Parallel(total, workers, work)
		close(doneCh)
	}()
	watchdog := time.Duration(r.Pick(15, 60)) * time.Minute
	select {
	case <-doneCh:
	case <-time.After(watchdog):
		r.Inconclusive(fmt.Sprintf("watchdog: only %d of %d runs finished", ag.done, total))
	}

	ag.mu.Lock()
	evals := 0
	for _, n := range ag.runs {
		evals += n
	}
	perType := map[string]any{}
	for _, t := range types {
		perType[t] = map[string]any{
			"runs": ag.runs[t], "steps": ag.steps[t], "updates": ag.updates[t], "distinct_states_visited": ag.states[t],
			"merges_evaluated_by_law_checks": ag.products[t], "law_evaluations": ag.lawEvals[t],
			"history_merges_of_concurrent_states": ag.concurrent[t], "stale_deliveries": ag.stale[t], "duplicate_deliveries": ag.dup[t],
			"deliveries_through_gob": ag.wire[t], "own_state_gob_roundtrips": ag.gobSteps[t],
			"knowledge_sets_reached_by_two_or_more_derivations": ag.convGroups[t],
			"states_canonicalised_through_wire_form":            ag.wireN[t],
			"states_canonicalised_in_memory_only":               ag.fastN[t],
		}
	}
	extra := map[string]any{
		"per_type":                          perType,
		"failing_law_instances_by_type_law": ag.failures,
		"reports_by_key":                    ag.keys,
		"witnesses_shrunk":                  ag.shrinks,
		"shrink_evaluations":                ag.shrinkEvals,
		"not_reproducible":                  ag.notRepro,
		"in_memory_form_unavailable":        ag.noFast,
		"bounds":                            map[string]any{"runs_per_type": runsPerType, "max_pairs_per_run": maxPairs, "max_triples_per_run": maxTriples, "replicas": "2-5", "elements": "1-4", "steps": "1-40"},
	}
	ag.mu.Unlock()

	stopProf()
	r.Finish(common.Coverage{
		Evaluations:        evals,
		DistinctNontrivial: distinct.Len(),
		Rule: "one evaluation = one generated history (2-5 replicas, 1-4 elements, 1-40 steps of update / snapshot / merge of any earlier snapshot with or without gob / own-state gob) " +
			"executed on the real type with all law, convergence and reference-read oracles; non-trivial = at least two replicas issued updates and at least one merge in the history joined " +
			"two states neither of which had seen all updates of the other; distinct by hash of the generated case",
		Samples: samples.S,
		Floor:   r.Pick(200, 2000),
		Extra:   extra,
	}, []string{
		"state equality is equality of the type's own wire form (GobEncode decoded into the exported structs, sorted); timestamps compare by wall-clock nanoseconds",
		"LWW: the harness serialises the updates of a run and spins until the wall clock has strictly advanced between them; 'latest' in the reference is issue order; a run in which the clock stepped back is inconclusive",
		"AWORSet reference: a remove observes exactly the adds of that element contained in the issuing replica's state (by update id) when it is issued",
		"the documented-algorithm model (aworset.go doc comments / shopcart.tla, pointwise max for GCounter and LWWSet) is used only to label the cause of an already established failure, never to decide one",
		"triples (and pairs beyond the cap) of visited states are sampled, not exhausted",
	})
}

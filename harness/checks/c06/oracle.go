package main

import (
	"fmt"
	"sort"
	"strings"
)

// Finding is one violation of the statement found in one case's history.
type Finding struct {
	Key    string `json:"key"`
	Desc   string `json:"desc"`
	Detail any    `json:"detail,omitempty"`
}

// Stats is what the oracle observed in one case (for the evidence file).
type Stats struct {
	SentCommitted  int    `json:"sent_committed"`
	RecvCommitted  int    `json:"recv_committed"`
	Links          int    `json:"links"`
	SenderAborts   int    `json:"sender_aborts"`
	SenderAbortsAS int    `json:"sender_aborts_after_send"` // aborted attempts that had sent >= 1 message
	SenderPlanned  int    `json:"sender_planned_faults"`
	SenderNatural  int    `json:"sender_natural_aborts"` // aborts the mailboxes caused themselves (timeouts, full buffers)
	RecvAborts     int    `json:"recv_aborts"`
	RecvAbortsAR   int    `json:"recv_aborts_after_receive"` // aborted attempts that had obtained >= 1 message
	Redelivered    int    `json:"redelivered_reads"`         // reads that had to (and did) replay an aborted attempt's reads
	ReadTimeouts   int    `json:"read_timeouts"`
	LenReads       int    `json:"len_reads"`
	LenPositive    int    `json:"len_reads_positive"`
	Batches        int    `json:"tcp_batches_checked"`
	MultiBatches   int    `json:"tcp_batches_with_2plus_messages"`
	Redials        int    `json:"redials"`
	CommitNetErr   int    `json:"commit_phase_network_errors"`
	PreNetErr      int    `json:"precommit_phase_network_errors"`
	WriteNetErr    int    `json:"write_network_errors"`
	DialFail       int    `json:"dial_failures"`
	ProxyDelays    int    `json:"proxy_delays"`
	H6Sleeps       int    `json:"h6_sleeps"`
	H6Active       bool   `json:"h6_active"`
	Pauses         int    `json:"receiver_pauses"`
	DupBatches     int    `json:"duplicated_batches"`
	Directed       int    `json:"directed_full_buffer_cases"`
	ParkedCommits  int    `json:"commits_completed_while_receiver_parked"`
	Events         int    `json:"events"`
	OrderSig       string `json:"-"`
	AbortSig       string `json:"-"`
}

type readRec struct {
	id  MID
	seq int64
	att int
}

type lenRec struct {
	n        int
	t0, t1   int64
	consumed int // committed reads + reads of the current attempt at the time of the length read
	att      int
}

type batchID struct{ S, Sec, Att, R int }

type closeEv struct {
	Seq     int64  `json:"seq"`
	Phase   string `json:"phase"`
	Timeout bool   `json:"timeout"`
}

const inf = int64(1) << 62

// judge runs the offline oracle over one case's event log. conclusive=false means the history cannot decide
// (the run did not reach quiescence + drain, or a harness invariant is broken); problems says why.
func judge(c *Case, evs []Ev) (fs []Finding, st Stats, conclusive bool, problems []string) {
	st.Events = len(evs)
	addK := func(key, desc string, detail any) {
		full := "C06:" + c.Kind + ":" + key
		for i := range fs {
			if fs[i].Key == full {
				return // one finding per key per case; the first witness is kept
			}
		}
		fs = append(fs, Finding{Key: full, Desc: desc, Detail: detail})
	}

	atCommit := c.Kind == "tcp" || c.Kind == "chan" || c.Kind == "customch" // message becomes visible at the sender's commit (else: at the write)

	// ------------------------------------------------------------------ senders
	type secInfo struct {
		att    int
		cp, cd int64
	}
	secs := make([][]secInfo, c.NS)
	for s := range secs {
		secs[s] = make([]secInfo, len(c.Senders[s].Sections))
		for i := range secs[s] {
			secs[s][i] = secInfo{att: -1, cp: inf, cd: inf}
		}
	}
	written := map[MID]int64{} // id -> sequence point before the write call
	batches := map[batchID][]MID{}
	attSent := map[[3]int]int{} // (s,sec,att) -> messages sent in the attempt
	senderExit := make([]bool, c.NS)
	recvDone := make([]bool, c.NR)
	quiesced, pxIdle, ended := false, false, false
	releaseSeq, releaseReason, releaseCDs := inf, "", 0 // directed full-buffer scenario
	var orderSig []string
	abortSig := map[string]int{}

	pidx := func(p string) int {
		n := 0
		fmt.Sscanf(p[1:], "%d", &n)
		return n
	}
	// commit-phase network errors per link, redials per link
	type linkEv struct {
		seq     int64
		timeout bool
		desync  bool // the commit ack could not be decoded (acks out of step) or the connection was closed under Commit's feet: another goroutine uses the connection
	}
	commitErrs := map[string][]linkEv{}
	closes := map[string][]closeEv{} // per link: every time the sender itself closed the link's connection after an error
	accepts := map[string][]int64{}

	for _, e := range evs {
		switch {
		case e.K == "end":
			ended = true
		case e.K == "overrun" || e.K == "overflow":
			problems = append(problems, "runaway case stopped early ("+e.K+")")
		case e.K == "release":
			releaseSeq, releaseReason, releaseCDs = e.Seq, e.Txt, e.N
		case e.K == "quiesce":
			quiesced, pxIdle = true, e.N == 1
		case e.K == "log":
			switch e.Cls {
			case "commit-neterr":
				st.CommitNetErr++
				commitErrs[e.Link] = append(commitErrs[e.Link], linkEv{e.Seq, e.TO,
					strings.Contains(e.Txt, "gob: decoding into local type") || strings.Contains(e.Txt, "use of closed network connection")})
				if e.Link != "" {
					closes[e.Link] = append(closes[e.Link], closeEv{e.Seq, e.Cls, e.TO})
				}
			case "precommit-neterr":
				st.PreNetErr++
				closes[e.Link] = append(closes[e.Link], closeEv{e.Seq, e.Cls, e.TO})
			case "write-neterr":
				st.WriteNetErr++
				closes[e.Link] = append(closes[e.Link], closeEv{e.Seq, e.Cls, e.TO})
			case "dial-fail":
				st.DialFail++
			case "h6":
				if strings.Contains(e.Txt, "active") {
					st.H6Active = true
				} else {
					st.H6Sleeps++
				}
			}
		case e.K == "px-accept":
			accepts[e.Link] = append(accepts[e.Link], e.Seq)
			if e.N > 0 {
				st.Redials++
			}
		case e.K == "px-delay":
			st.ProxyDelays++
		case e.K == "px-dialfail":
			problems = append(problems, "proxy could not reach the receiver (harness-made connection failure)")
		case e.K == "pause":
			st.Pauses++
		case e.K == "run-exit" && strings.HasPrefix(e.P, "S"):
			senderExit[pidx(e.P)] = true
			if e.Txt != "<nil>" {
				addK("run-error", "a context's Run returned an error under timeouts only: "+e.Txt, e)
			}
		case e.K == "run-exit" && strings.HasPrefix(e.P, "R"):
			addK("run-error", "a receiver's Run ended on its own: "+e.Txt, e)
		case e.K == "done":
			recvDone[pidx(e.P)] = true
		case strings.HasPrefix(e.P, "S"):
			s := pidx(e.P)
			switch e.K {
			case "w":
				written[*e.ID] = e.T0
				b := batchID{s, e.Sec, e.Att, e.To}
				batches[b] = append(batches[b], *e.ID)
				attSent[[3]int{s, e.Sec, e.Att}]++
			case "fault":
				st.SenderPlanned++
				abortSig[fmt.Sprintf("S:%s:%d", e.Cls, e.N)]++
			case "ab":
				st.SenderAborts++
				if attSent[[3]int{s, e.Sec, e.Att}] > 0 {
					st.SenderAbortsAS++
				}
			case "cp":
				if e.Sec < len(secs[s]) {
					if secs[s][e.Sec].att != -1 {
						problems = append(problems, fmt.Sprintf("sender %d section %d reached its commit point twice", s, e.Sec))
					}
					secs[s][e.Sec].att, secs[s][e.Sec].cp = e.Att, e.Seq
					orderSig = append(orderSig, e.P)
				}
			case "cd":
				if e.Sec < len(secs[s]) {
					secs[s][e.Sec].cd = e.Seq
				}
			}
		}
	}
	st.SenderNatural = st.SenderAborts - st.SenderPlanned
	for s := range secs {
		for i := range secs[s] {
			if secs[s][i].att == -1 {
				problems = append(problems, fmt.Sprintf("sender %d did not commit section %d (run incomplete)", s, i))
				goto sendersChecked
			}
		}
	}
sendersChecked:
	complete := ended && quiesced && pxIdle && len(problems) == 0
	for s := range senderExit {
		complete = complete && senderExit[s]
	}
	for r := range recvDone {
		complete = complete && recvDone[r]
	}

	// ---- directed full-buffer scenario: nobody reads, nothing delays an ack (no proxy, no H6, write timeout of
	// seconds). A full receive buffer may only make the NEXT section's pre-commit wait; a section whose pre-commit
	// was acknowledged must complete its Commit while the receiver is still parked. The controller released the
	// receiver only after it saw buffer+1 commits complete or a commit-phase network error logged by the sender.
	commitBlocked := false
	if c.Directed == "fullbuf" {
		st.Directed = 1
		var blockedAt []linkEv
		for _, les := range commitErrs {
			for _, le := range les {
				if le.seq < releaseSeq {
					blockedAt = append(blockedAt, le)
				}
			}
		}
		switch {
		case releaseSeq == inf || releaseReason == "watchdog":
			problems = append(problems, "directed full-buffer case: neither buffer+1 commits nor a commit-phase error were observed")
		case len(blockedAt) > 0:
			commitBlocked = true
			var open []string
			for s := range secs {
				for i, si := range secs[s] {
					if si.cp < releaseSeq && si.cd > releaseSeq {
						open = append(open, fmt.Sprintf("S%d section %d (pre-commit acknowledged at %d)", s, i, si.cp))
					}
				}
			}
			addK("commit-blocked-by-full-receive-buffer",
				fmt.Sprintf("receiver parked with a full receive buffer (size %d), no injected ack delay, write timeout %d ms: after %d commits had completed, the Commit of %v did not complete - the sender logged a commit-phase network error while the receiver was still parked (a full buffer must only abort the section in flight, not hold back the ack of an accepted commit)", c.ChanSize, c.WriteMs, releaseCDs, open),
				map[string]any{"chan_size": c.ChanSize, "write_ms": c.WriteMs, "commits_completed_while_parked": releaseCDs,
					"release_seq": releaseSeq, "commit_phase_errors_before_release": len(blockedAt), "sections_in_commit": open})
		default:
			st.ParkedCommits = releaseCDs
		}
	}

	// sent_committed per link, in commit order, and the batch of every committed (section, destination)
	sent := map[[2]int][]MID{}
	committedBatch := map[batchID]bool{}
	for s := range secs {
		for i, si := range secs[s] {
			if si.att < 0 {
				continue
			}
			seen := map[int]bool{}
			for _, d := range c.Senders[s].Sections[i].Sends {
				if seen[d] {
					continue
				}
				seen[d] = true
				b := batchID{s, i, si.att, d}
				sent[[2]int{s, d}] = append(sent[[2]int{s, d}], batches[b]...)
				committedBatch[b] = true
				st.SentCommitted += len(batches[b])
				if c.Kind == "tcp" {
					st.Batches++
					if len(batches[b]) > 1 {
						st.MultiBatches++
					}
				}
			}
		}
	}
	st.Links = len(sent)
	cause := func(id MID) int64 { // earliest point at which the message may be visible to the receiver
		if id[0] < 0 || id[0] >= c.NS || id[1] < 0 || id[1] >= len(secs[id[0]]) {
			return inf
		}
		if atCommit {
			si := secs[id[0]][id[1]]
			if si.att == id[2] {
				return si.cp
			}
			return inf
		}
		if t, ok := written[id]; ok {
			return t
		}
		return inf
	}

	// ------------------------------------------------------------------ receivers
	committed := make([][]readRec, c.NR) // C[r]: what committed sections obtained, in order
	fresh := make([][]readRec, c.NR)     // F[r]: deliveries that were not replays of aborted reads
	lens := make([][]lenRec, c.NR)
	commitSeqOf := make([][]int64, c.NR) // commit point of each element of C[r]
	for r := 0; r < c.NR; r++ {
		name := fmt.Sprintf("R%d", r)
		var expect []MID // ids that must be delivered next, in order (reads of aborted attempts)
		var cur []readRec
		for _, e := range evs {
			if e.P != name {
				continue
			}
			switch e.K {
			case "r":
				id := *e.ID
				if len(expect) > 0 {
					if expect[0] != id {
						addK("aborted-read-not-redelivered-first",
							fmt.Sprintf("receiver %d: an aborted section had read %v; the next delivery was %v instead", r, expect[0], id),
							map[string]any{"receiver": r, "expected_next": expect, "got": id, "seq": e.Seq})
						// resynchronise: if the id is further down the list drop what was skipped, else treat as fresh
						pos := -1
						for i, x := range expect {
							if x == id {
								pos = i
								break
							}
						}
						if pos >= 0 {
							expect = expect[pos+1:]
						} else {
							fresh[r] = append(fresh[r], readRec{id, e.Seq, e.Att})
						}
					} else {
						expect = expect[1:]
						st.Redelivered++
					}
				} else {
					fresh[r] = append(fresh[r], readRec{id, e.Seq, e.Att})
				}
				cur = append(cur, readRec{id, e.Seq, e.Att})
			case "rbad":
				addK("invented", fmt.Sprintf("receiver %d obtained a value no sender wrote: %s", r, e.Txt), e)
			case "rto":
				st.ReadTimeouts++
			case "len":
				st.LenReads++
				if e.N > 0 {
					st.LenPositive++
				}
				lens[r] = append(lens[r], lenRec{n: e.N, t0: e.T0, t1: e.Seq, consumed: len(committed[r]) + len(cur), att: e.Att})
			case "fault":
				abortSig[fmt.Sprintf("R:%s:%d", e.Cls, e.N)]++
			case "ab":
				st.RecvAborts++
				if len(cur) > 0 {
					st.RecvAbortsAR++
					ids := make([]MID, len(cur))
					for i, x := range cur {
						ids[i] = x.id
					}
					expect = append(ids, expect...)
				}
				cur = nil
			case "cp":
				for _, x := range cur {
					committed[r] = append(committed[r], x)
					commitSeqOf[r] = append(commitSeqOf[r], e.Seq)
				}
				if len(cur) > 0 {
					orderSig = append(orderSig, name)
				}
				cur = nil
			}
		}
		st.RecvCommitted += len(committed[r])
	}

	// ------------------------------------------------------------------ per-link comparison
	dupDeliveries := map[MID]int{} // id -> number of deliveries beyond the first (over F)
	for r := 0; r < c.NR; r++ {
		cnt := map[MID]int{}
		for _, x := range fresh[r] {
			cnt[x.id]++
		}
		for id, n := range cnt {
			if n > 1 {
				dupDeliveries[id] = n - 1
			}
		}
	}
	for r := 0; r < c.NR; r++ {
		perSender := map[int][]readRec{}
		for _, x := range committed[r] {
			id := x.id
			if _, ok := written[id]; !ok {
				addK("invented", fmt.Sprintf("receiver %d committed message %v which no sender attempt wrote", r, id),
					map[string]any{"receiver": r, "id": id, "seq": x.seq})
				continue
			}
			if id[0] < 0 || id[0] >= c.NS {
				continue
			}
			if si := secs[id[0]][id[1]]; si.att != id[2] {
				addK("aborted-section-message-delivered",
					fmt.Sprintf("receiver %d committed message %v written by attempt %d of sender %d section %d, which aborted (committed attempt: %d)", r, id, id[2], id[0], id[1], si.att),
					map[string]any{"receiver": r, "id": id, "seq": x.seq, "committed_attempt": si.att})
				continue
			}
			if cz := cause(id); x.seq < cz {
				addK("delivered-before-sender-commit",
					fmt.Sprintf("receiver %d obtained message %v at %d, before its sender reached the commit point (%d): recv_committed is not a prefix of sent_committed", r, id, x.seq, cz),
					map[string]any{"receiver": r, "id": id, "read_seq": x.seq, "sender_commit_point": cz})
			}
			perSender[id[0]] = append(perSender[id[0]], x)
		}
		for s := 0; s < c.NS; s++ {
			want := sent[[2]int{s, r}]
			got := perSender[s]
			if len(want) == 0 && len(got) == 0 {
				continue
			}
			// wrong destination?
			var gotIDs []MID
			for _, x := range got {
				gotIDs = append(gotIDs, x.id)
			}
			if sameSeq(want, gotIDs) {
				continue
			}
			wantPos := map[MID]int{}
			for i, id := range want {
				wantPos[id] = i
			}
			cnt := map[MID]int{}
			var dedup []MID
			misrouted := false
			for _, id := range gotIDs {
				if _, ok := wantPos[id]; !ok {
					misrouted = true
					addK("misdelivered", fmt.Sprintf("receiver %d committed message %v which sender %d addressed to another receiver", r, id, s),
						map[string]any{"receiver": r, "id": id})
					continue
				}
				cnt[id]++
				if cnt[id] == 1 {
					dedup = append(dedup, id)
				}
			}
			_ = misrouted
			var lost []MID
			for _, id := range want {
				if cnt[id] == 0 {
					lost = append(lost, id)
				}
			}
			var dups []MID
			for _, id := range dedup {
				if cnt[id] > 1 {
					dups = append(dups, id)
				}
			}
			// order of first deliveries vs order sent (ignoring lost ones)
			reordered := false
			last := -1
			var firstBad MID
			for _, id := range dedup {
				if wantPos[id] < last {
					reordered = true
					firstBad = id
					break
				}
				last = wantPos[id]
			}
			link := fmt.Sprintf("%d>%d", s, r)
			detail := map[string]any{"sender": s, "receiver": r, "sent_committed": trimIDs(want), "recv_committed": trimIDs(gotIDs),
				"sender_side_timeouts_on_link": closes[link]}
			if len(lost) > 0 {
				if complete {
					detail["lost"] = trimIDs(lost)
					addK("message-lost", fmt.Sprintf("link %s: %d committed message(s) never obtained by the receiver after quiescence and drain, first %v", link, len(lost), lost[0]), detail)
				} else {
					problems = append(problems, fmt.Sprintf("link %s misses %d messages but the run did not reach quiescence+drain", link, len(lost)))
				}
			}
			if reordered {
				detail["first_out_of_order"] = firstBad
				// epoch of a message = number of times the sender itself had abandoned a connection of this link
				// (after one of its own timeouts) before the message was handed to the network
				epoch := func(id MID) int {
					t := written[id]
					if atCommit {
						t = secs[id[0]][id[1]].cd // a batch whose commit was resent travels (also) on the last connection
					}
					n := 0
					for _, ce := range closes[link] {
						if ce.Seq < t {
							n++
						}
					}
					return n
				}
				key, desc := classifyReorder(c, link, dedup, wantPos, epoch, firstBad)
				addK(key, desc, detail)
			}
			if len(dups) > 0 {
				key, desc := classifyDup(c, s, r, gotIDs, dups, cnt, func(sec int) (int64, int64) { return secs[s][sec].cp, secs[s][sec].cd },
					func(lo, hi int64) (timeouts, desyncs int) {
						for _, le := range commitErrs[link] {
							if le.timeout && le.seq > lo && le.seq < hi {
								timeouts++
							}
						}
						if t, ok := stragglers(evs)[s]; ok {
							for _, le := range commitErrs[""] { // gob errors carry no address: attributed by the commit window
								if le.desync && le.seq > lo && le.seq < hi && le.seq > t {
									desyncs++
								}
							}
						}
						return
					}, batches)
				detail["duplicated"] = trimIDs(dups)
				st.DupBatches++
				if commitBlocked {
					// the duplicates of this case come from commits held back by the full buffer, not from an ack-path delay
					key = "commit-blocked-by-full-receive-buffer"
				}
				addK(key, desc, detail)
			}
		}
	}

	// ------------------------------------------------------------------ TCP: batches arrive together, contiguously
	if c.Kind == "tcp" {
		for r := 0; r < c.NR; r++ {
			stream := committed[r]
			for i := 0; i < len(stream); {
				id := stream[i].id
				b := batchID{id[0], id[1], id[2], r}
				j := i
				for j < len(stream) && stream[j].id[0] == id[0] && stream[j].id[1] == id[1] && stream[j].id[2] == id[2] {
					j++
				}
				full := batches[b]
				var run []MID
				for _, x := range stream[i:j] {
					run = append(run, x.id)
				}
				if committedBatch[b] && !wholeRuns(run, full) {
					addK("batch-not-contiguous",
						fmt.Sprintf("receiver %d: the messages of sender %d section %d did not arrive together: run %v of batch %v", r, id[0], id[1], run, full),
						map[string]any{"receiver": r, "batch": full, "run": run, "stream_around": trimReads(stream, i, j)})
				}
				i = j
			}
		}
	}

	// ------------------------------------------------------------------ reported length <= pending
	if c.mailboxKind() {
		for r := 0; r < c.NR; r++ {
			if len(lens[r]) == 0 {
				continue
			}
			// all messages addressed to r with their earliest visibility point, sorted
			var vis []int64
			for id, t0 := range written {
				_ = t0
				// destination of id
				if destOf(c, id) != r {
					continue
				}
				cz := cause(id)
				if cz == inf {
					continue
				}
				for k := 0; k <= dupDeliveries[id]; k++ {
					vis = append(vis, cz)
				}
			}
			sort.Slice(vis, func(i, j int) bool { return vis[i] < vis[j] })
			for _, l := range lens[r] {
				visible := sort.Search(len(vis), func(i int) bool { return vis[i] >= l.t1 })
				bound := visible - l.consumed
				if l.n > bound || l.n < 0 {
					addK("length-exceeds-pending",
						fmt.Sprintf("receiver %d read length %d, but at most %d messages can be pending (%d visible by then, %d consumed)", r, l.n, bound, visible, l.consumed),
						map[string]any{"receiver": r, "length": l.n, "bound": bound, "visible": visible, "consumed": l.consumed, "t0": l.t0, "t1": l.t1})
				}
			}
		}
	}

	if len(orderSig) > 400 {
		orderSig = orderSig[:400]
	}
	st.OrderSig = strings.Join(orderSig, "")
	var ak []string
	for k := range abortSig {
		ak = append(ak, k)
	}
	sort.Strings(ak)
	st.AbortSig = strings.Join(ak, ",")
	return fs, st, complete, problems
}

func destOf(c *Case, id MID) int {
	if id[0] < 0 || id[0] >= c.NS || id[1] < 0 || id[1] >= len(c.Senders[id[0]].Sections) {
		return -1
	}
	s := c.Senders[id[0]].Sections[id[1]].Sends
	if id[3] < 0 || id[3] >= len(s) {
		return -1
	}
	return s[id[3]]
}

func sameSeq(a, b []MID) bool {
	if len(a) != len(b) {
		return false
	}
	for i := range a {
		if a[i] != b[i] {
			return false
		}
	}
	return true
}

// wholeRuns: run is one or more complete copies of full, back to back.
func wholeRuns(run, full []MID) bool {
	if len(full) == 0 || len(run)%len(full) != 0 {
		return false
	}
	for i, x := range run {
		if x != full[i%len(full)] {
			return false
		}
	}
	return true
}

// classifyDup decides whether the duplicates on link s>r have exactly the shape of the known defect:
// the link's committed sequence splits into whole batches; every batch that occurs n >= 2 times does so as n
// complete copies (a copy may trail behind later batches: it comes from the first connection's handler, which
// is still alive); the sender logged at least n-1 network *timeouts* in the commit phase of that very section on
// that very link (after each it redialled and resent the batch although the earlier connection's handler had
// already been handed the commit); and with the later copies removed the link equals what was sent.
// Anything else is an unexplained duplication.
func classifyDup(c *Case, s, r int, got, dups []MID, cnt map[MID]int, window func(sec int) (int64, int64),
	errsIn func(lo, hi int64) (timeouts, desyncs int), batches map[batchID][]MID) (key, desc string) {
	generic := func(why string) (string, string) {
		return "duplicated", fmt.Sprintf("link %d>%d: message %v obtained %d times by committed sections (%s)", s, r, dups[0], cnt[dups[0]], why)
	}
	if c.Kind != "tcp" {
		return generic("no resend protocol on this kind of link")
	}
	copies := map[batchID]int{}
	for i := 0; i < len(got); {
		id := got[i]
		b := batchID{id[0], id[1], id[2], r}
		full := batches[b]
		if len(full) == 0 || i+len(full) > len(got) || !sameSeq(got[i:i+len(full)], full) {
			return generic("copies are not whole batches")
		}
		copies[b]++
		i += len(full)
	}
	var secsDup []int
	viaDesync := false
	for b, n := range copies {
		if n < 2 {
			continue
		}
		lo, hi := window(b.Sec)
		t, d := errsIn(lo, hi)
		if t+d < n-1 {
			return generic(fmt.Sprintf("batch of section %d delivered %d times but the sender logged only %d commit-phase timeouts on the link", b.Sec, n, t))
		}
		if t < n-1 {
			viaDesync = true
		}
		secsDup = append(secsDup, b.Sec)
	}
	sort.Ints(secsDup)
	if viaDesync {
		return "batch-duplicated-after-commit-disturbed-by-straggling-precommit",
			fmt.Sprintf("link %d>%d: the whole batch of section(s) %v was delivered more than once; a pre-commit handshake that outlived its aborted attempt (IncMap.PreCommit does not wait for it) used the connection concurrently (acks out of step / connection closed under Commit), Commit got a non-timeout error, redialled and resent the batch", s, r, secsDup)
	}
	return "batch-duplicated-after-commit-ack-timeout",
		fmt.Sprintf("link %d>%d: the whole batch of section(s) %v was delivered more than once; the sender's read of the commit ack timed out, it redialled and resent the batch although the earlier connection's handler had already been handed the commit", s, r, secsDup)
}

// classifyReorder decides whether a reordering on a link has exactly the shape of the known defect: the sender
// abandoned a connection after one of its own timeouts while that connection's handler still held accepted
// messages; the handler of the next connection then published newer messages first. Structurally: the first
// deliveries on the link are a merge of the per-connection streams, each of which is in the order sent. A
// reordering *within* the messages of one connection is something else.
func classifyReorder(c *Case, link string, dedup []MID, wantPos map[MID]int, epoch func(MID) int, firstBad MID) (key, desc string) {
	generic := func(why string) (string, string) {
		return "reordered", fmt.Sprintf("link %s: receiver's committed sections obtained %v before an earlier-sent message (%s)", link, firstBad, why)
	}
	if !c.mailboxKind() {
		return generic("no connections on this kind of link")
	}
	lastIn := map[int]int{}
	epochs := map[int]bool{}
	for _, id := range dedup {
		e := epoch(id)
		epochs[e] = true
		if l, ok := lastIn[e]; ok && wantPos[id] < l {
			return generic(fmt.Sprintf("messages sent over the same connection (the link's connection #%d) changed order", e))
		}
		lastIn[e] = wantPos[id]
	}
	if len(epochs) < 2 {
		return generic("the sender never abandoned a connection of this link")
	}
	if c.Kind == "tcp" {
		return "batch-overtaken-after-sender-timeout-redial",
			fmt.Sprintf("link %s: committed batch %v was published by an abandoned connection's handler after batches the sender sent later over a new connection (it had redialled after one of its own timeouts)", link, firstBad[:2])
	}
	return "message-overtaken-after-write-timeout-redial",
		fmt.Sprintf("link %s: message %v, still held by an abandoned connection's handler, was overtaken by messages the sender sent later over a new connection (it had redialled after a write timeout)", link, firstBad[:2])
}

func trimIDs(ids []MID) any {
	if len(ids) <= 60 {
		return ids
	}
	return map[string]any{"len": len(ids), "head": ids[:30], "tail": ids[len(ids)-30:]}
}

func trimReads(stream []readRec, i, j int) []MID {
	lo, hi := i-3, j+3
	if lo < 0 {
		lo = 0
	}
	if hi > len(stream) {
		hi = len(stream)
	}
	var out []MID
	for _, x := range stream[lo:hi] {
		out = append(out, x.id)
	}
	return out
}

// classifyCrash recognises, in the history of a child that died with a panic, the shape of the known IncMap
// defect: IncMap.PreCommit returns as soon as ONE element's pre-commit fails, so the pre-commit handshake of
// another destination keeps running while the context aborts and retries the section; when that straggler then
// times out it closes and nils the connection the retry is using, and the retry's PreCommit/Commit goroutine
// panics. Structure looked for: the panic comes from a tcpMailboxesRemote goroutine, and some sender had an
// attempt that wrote to >= 2 destinations and was aborted after a pre-commit timeout on one of its links.
func classifyCrash(c *Case, evs []Ev, out string) (key string, ok bool) {
	if c.Kind == "single" && strings.Contains(out, "panic: can't abort SingleOutputChan") {
		// known shape: the abort that panicked was caused by the resource's own write timeout (the harness
		// aborts sections of this kind only before the send, when the resource is not part of the attempt)
		last := map[string]string{}
		for _, e := range evs {
			if strings.HasPrefix(e.P, "S") && (e.K == "werr" || e.K == "w" || e.K == "fault" || e.K == "att") {
				last[e.P] = e.K
			}
		}
		for _, k := range last {
			if k == "werr" {
				return "C06:single:process-crash:own-write-timeout-abort-panics", true
			}
		}
		return "", false
	}
	if c.Kind != "tcp" {
		return "", false
	}
	remote := strings.Contains(out, "tcpMailboxesRemote") &&
		(strings.Contains(out, "no connection available while doing") || strings.Contains(out, "nil pointer dereference"))
	// the straggler nils the connection in the middle of the retried attempt: the next write redials but does not
	// send the begin record again, and the receiver's handler panics
	local := strings.Contains(out, "tcpMailboxesLocal") && strings.Contains(out, "must always start with tcpMailboxBegin")
	if !remote && !local {
		return "", false
	}
	// some sender must have left a straggler behind before the crash (its effects - stolen or surplus acks, a
	// connection closed at an arbitrary later moment - outlast the section in which it was created)
	if len(stragglers(evs)) > 0 {
		return "C06:tcp:process-crash:precommit-outlives-aborted-attempt-through-incmap", true
	}
	return "", false
}

// stragglers returns, per sender, the sequence number of the first abort of an attempt that had written to >= 2
// destinations and saw a pre-commit network error on one of its links: from then on a pre-commit goroutine of
// the other destination may still be running (IncMap.PreCommit returned without waiting for it).
func stragglers(evs []Ev) map[int]int64 { return stragglerAborts(evs, false) }

// stragglersLast: the same, but the LAST such abort per sender.
func stragglersLast(evs []Ev) map[int]int64 { return stragglerAborts(evs, true) }

func stragglerAborts(evs []Ev, last bool) map[int]int64 {
	type att struct{ s, sec, att int }
	out := map[int]int64{}
	dests := map[att]map[int]bool{}
	preErr := map[att]bool{}
	cur := map[int]att{} // sender -> attempt in flight
	for _, e := range evs {
		if strings.HasPrefix(e.P, "S") {
			s := 0
			fmt.Sscanf(e.P[1:], "%d", &s)
			a := att{s, e.Sec, e.Att}
			switch e.K {
			case "att":
				cur[s] = a
			case "w":
				if dests[a] == nil {
					dests[a] = map[int]bool{}
				}
				dests[a][e.To] = true
			case "ab":
				if _, seen := out[s]; (last || !seen) && preErr[a] && len(dests[a]) >= 2 {
					out[s] = e.Seq
				}
			}
		}
		if e.K == "log" && e.Cls == "precommit-neterr" && e.Link != "" {
			s := 0
			fmt.Sscanf(e.Link, "%d>", &s)
			if a, ok := cur[s]; ok {
				preErr[a] = true
			}
		}
	}
	return out
}

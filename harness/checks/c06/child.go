package main

import (
	"encoding/json"
	"fmt"
	"log"
	"math/rand"
	"net"
	"os"
	"regexp"
	"strings"
	"sync"
	"sync/atomic"
	"time"

	"github.com/DistCompiler/pgo/distsys"
	"github.com/DistCompiler/pgo/distsys/resources"
	"github.com/DistCompiler/pgo/distsys/tla"
	"github.com/DistCompiler/pgo/distsys/trace"
	"github.com/DistCompiler/pgo/systems/raftkvs"
)

// ---------------------------------------------------------------------------------------------
// fault resource (E1): a sibling resource of the section whose PreCommit fails when armed
// ---------------------------------------------------------------------------------------------

type fltRes struct {
	distsys.ArchetypeResourceLeafMixin
	armed bool
	slow  time.Duration
}

func (r *fltRes) Abort(distsys.ArchetypeInterface) chan struct{} { r.armed = false; return nil }
func (r *fltRes) PreCommit(distsys.ArchetypeInterface) chan error {
	if !r.armed {
		return nil
	}
	r.armed = false
	ch := make(chan error, 1)
	if r.slow > 0 {
		d := r.slow
		go func() { time.Sleep(d); ch <- distsys.ErrCriticalSectionAborted }()
	} else {
		ch <- distsys.ErrCriticalSectionAborted
	}
	return ch
}
func (r *fltRes) Commit(distsys.ArchetypeInterface) chan struct{}         { return nil }
func (r *fltRes) ReadValue(distsys.ArchetypeInterface) (tla.Value, error) { return tla.ModuleTRUE, nil }
func (r *fltRes) WriteValue(distsys.ArchetypeInterface, tla.Value) error  { return nil }
func (r *fltRes) Close() error                                            { return nil }

// ---------------------------------------------------------------------------------------------
// library log capture: the mailboxes report every network error they recover from through log.Printf
// ---------------------------------------------------------------------------------------------

var addrRe = regexp.MustCompile(`->(\d+\.\d+\.\d+\.\d+:\d+)`)
var dialRe = regexp.MustCompile(`failed to dial (\S+),`)

type logCap struct {
	ev          *evLog
	byAddr      map[string]string // dial address -> link "s>r"
	other       int64
	onCommitErr func() // called (after the event was logged) for every commit-phase network error
}

func (c *logCap) Write(p []byte) (int, error) {
	s := strings.TrimSpace(string(p))
	cls := ""
	switch {
	case strings.Contains(s, "network error during commit:"):
		cls = "commit-neterr"
	case strings.Contains(s, "pre-commit handshake"):
		cls = "precommit-neterr"
	case strings.Contains(s, "network error during remote value write"):
		cls = "write-neterr"
	case strings.Contains(s, "failed to dial"):
		cls = "dial-fail"
	case strings.Contains(s, "during handleConn") || strings.Contains(s, "handleConn decode err"):
		cls = "handleconn-err"
	case strings.Contains(s, "verif-mbox:"):
		cls = "h6"
	default:
		atomic.AddInt64(&c.other, 1)
		return len(p), nil
	}
	e := Ev{K: "log", P: "log", Cls: cls, TO: strings.Contains(s, "i/o timeout")}
	if len(s) > 200 {
		s = s[:200]
	}
	e.Txt = s
	if m := addrRe.FindStringSubmatch(s); m != nil {
		e.Link = c.byAddr[m[1]]
	} else if m := dialRe.FindStringSubmatch(s); m != nil {
		e.Link = c.byAddr[m[1]]
	}
	c.ev.emit(e)
	if cls == "commit-neterr" && c.onCommitErr != nil {
		c.onCommitErr()
	}
	return len(p), nil
}

// ---------------------------------------------------------------------------------------------
// processes
// ---------------------------------------------------------------------------------------------

type world struct {
	c        *Case
	ev       *evLog
	recs     map[*distsys.MPCalContext]*procRec
	quiesced atomic.Bool
	chans    []chan tla.Value

	// directed full-buffer scenario
	release  chan struct{} // closed when the parked receivers may start reading
	released atomic.Bool
	sig      chan string // reasons to release: "cd" (enough commits completed) | "commit-neterr"
	cdCount  atomic.Int32
}

// procRec is the per-context recorder; it is only touched by the goroutine running that context.
type procRec struct {
	w      *world
	name   string
	sender bool
	idx    int
	self   tla.Value

	// sender
	plan     *SenderPlan
	sec, att int
	faultIdx int
	flt      *fltRes

	// receiver
	rplan      *ReceiverPlan
	rng        *rand.Rand
	committed  int // messages obtained by committed sections
	inAttempt  int
	sections   int
	expected   int
	idleAfterQ int
	pausing    bool
	parked     atomic.Bool
	finished   bool
	done       chan struct{}
}

func ridVal(r int) tla.Value { return tla.MakeNumber(int32(r + 1)) }

func mkMsg(id MID, pad string) tla.Value {
	elems := []tla.Value{tla.MakeNumber(int32(id[0])), tla.MakeNumber(int32(id[1])), tla.MakeNumber(int32(id[2])), tla.MakeNumber(int32(id[3]))}
	if pad != "" {
		elems = append(elems, tla.MakeString(pad))
	}
	return tla.MakeTuple(elems...)
}

func parseMsg(v tla.Value) (id MID, ok bool) {
	defer func() {
		if recover() != nil {
			ok = false
		}
	}()
	if !v.IsTuple() {
		return id, false
	}
	t := v.AsTuple()
	if t.Len() < 4 {
		return id, false
	}
	for i := 0; i < 4; i++ {
		e := t.Get(i)
		if !e.IsNumber() {
			return id, false
		}
		id[i] = int(e.AsNumber())
	}
	return id, true
}

// sender archetype, written the way the code generator writes one: one label that loops, a Done label.
//
//	archetype ASender(ref net[_], ref flt) { snd: while (sec < N) { net[d1] := m1; net[d2] := m2; ...; sec := sec + 1 } }
func senderArch(p *procRec, pad string) distsys.MPCalArchetype {
	ev := p.w.ev
	jt := distsys.MakeMPCalJumpTable(
		distsys.MPCalCriticalSection{
			Name: "ASender.snd",
			Body: func(iface distsys.ArchetypeInterface) error {
				var err error
				_ = err
				if p.sec >= len(p.plan.Sections) {
					return iface.Goto("ASender.Done")
				}
				sec := &p.plan.Sections[p.sec]
				p.att++
				ev.emit(Ev{K: "att", P: p.name, Sec: p.sec, Att: p.att})
				net, err := iface.RequireArchetypeResourceRef("ASender.net")
				if err != nil {
					return err
				}
				flt, err := iface.RequireArchetypeResourceRef("ASender.flt")
				if err != nil {
					return err
				}
				var fault *Fault
				if p.faultIdx < len(sec.Faults) {
					fault = &sec.Faults[p.faultIdx]
				}
				for i, dest := range sec.Sends {
					if fault != nil && fault.Kind == "body" && fault.After == i {
						p.faultIdx++
						ev.emit(Ev{K: "fault", P: p.name, Sec: p.sec, Att: p.att, Cls: "body", N: i})
						return distsys.ErrCriticalSectionAborted
					}
					id := MID{p.idx, p.sec, p.att, i}
					t0 := ev.tick()
					err = iface.Write(net, []tla.Value{ridVal(dest)}, mkMsg(id, pad))
					if err != nil {
						ev.emit(Ev{K: "werr", P: p.name, Sec: p.sec, Att: p.att, To: dest, ID: &id, T0: t0, Txt: err.Error()})
						return err
					}
					ev.emit(Ev{K: "w", P: p.name, Sec: p.sec, Att: p.att, To: dest, ID: &id, T0: t0})
				}
				if fault != nil && fault.Kind == "body" && fault.After >= len(sec.Sends) {
					p.faultIdx++
					ev.emit(Ev{K: "fault", P: p.name, Sec: p.sec, Att: p.att, Cls: "body", N: len(sec.Sends)})
					return distsys.ErrCriticalSectionAborted
				}
				if fault != nil && fault.Kind == "precommit" {
					p.faultIdx++
					p.flt.armed = true
					p.flt.slow = time.Duration(fault.SlowMs) * time.Millisecond
					ev.emit(Ev{K: "fault", P: p.name, Sec: p.sec, Att: p.att, Cls: "precommit", N: len(sec.Sends)})
					err = iface.Write(flt, nil, tla.ModuleTRUE)
					if err != nil {
						return err
					}
				}
				return iface.Goto("ASender.snd")
			},
		},
		distsys.MPCalCriticalSection{
			Name: "ASender.Done",
			Body: func(distsys.ArchetypeInterface) error { return distsys.ErrDone },
		},
	)
	return distsys.MPCalArchetype{
		Name:              "ASender",
		Label:             "ASender.snd",
		RequiredRefParams: []string{"ASender.net", "ASender.flt"},
		RequiredValParams: []string{},
		JumpTable:         jt,
		ProcTable:         distsys.MakeMPCalProcTable(),
		PreAmble:          func(distsys.ArchetypeInterface) {},
	}
}

const (
	idleDrain     = 12 // consecutive empty attempts after quiescence that end a receiver which has everything it expects
	idleDrainLong = 80 // ... and one that still misses messages (a loss verdict needs a long, counted drain)
)

// receiver archetype:
//
//	archetype AReceiver(ref net[_], ref netLen[_], ref flt) { rcv: while (TRUE) { [n := netLen[self];] m1 := net[self]; ...; } }
func receiverArch(p *procRec) distsys.MPCalArchetype {
	ev := p.w.ev
	mailbox := p.w.c.mailboxKind()
	jt := distsys.MakeMPCalJumpTable(
		distsys.MPCalCriticalSection{
			Name: "AReceiver.rcv",
			Body: func(iface distsys.ArchetypeInterface) error {
				var err error
				_ = err
				if !p.finished && p.committed > 6*p.expected+200 {
					// far more than was ever sent: the history already shows it; stop instead of reading for ever
					ev.emit(Ev{K: "overrun", P: p.name, N: p.committed})
					p.finished = true
				}
				if p.finished {
					return iface.Goto("AReceiver.Done")
				}
				if p.w.c.Directed == "fullbuf" && p.att >= 1 && !p.w.released.Load() {
					// directed scenario: the listener exists (first read done); now do not read until released
					ev.emit(Ev{K: "parked", P: p.name})
					p.parked.Store(true)
					<-p.w.release
				}
				quiet := p.w.quiesced.Load()
				if p.pausing && !quiet {
					p.pausing = false
					ev.emit(Ev{K: "pause", P: p.name, N: p.rplan.PauseMs})
					time.Sleep(time.Duration(p.rplan.PauseMs) * time.Millisecond)
				}
				p.att++
				p.inAttempt = 0
				ev.emit(Ev{K: "att", P: p.name, Att: p.att})
				net, err := iface.RequireArchetypeResourceRef("AReceiver.net")
				if err != nil {
					return err
				}
				netLen, err := iface.RequireArchetypeResourceRef("AReceiver.netLen")
				if err != nil {
					return err
				}
				flt, err := iface.RequireArchetypeResourceRef("AReceiver.flt")
				if err != nil {
					return err
				}
				k := 1 + p.rng.Intn(p.rplan.MaxK)
				if rest := p.expected - p.committed; rest < k {
					k = rest
				}
				if k < 1 {
					k = 1
				}
				// harness faults of this attempt
				abortAfter, preFault := -1, false
				if !quiet && p.rng.Intn(100) < p.rplan.AbortPct {
					if p.rng.Intn(3) == 0 {
						preFault = true
					} else {
						abortAfter = 1 + p.rng.Intn(k)
					}
				}
				readLen := func() error {
					t0 := ev.tick()
					v, err := iface.Read(netLen, []tla.Value{p.self})
					if err != nil {
						return err
					}
					n := -1 << 20
					if v.IsNumber() {
						n = int(v.AsNumber())
					}
					ev.emit(Ev{K: "len", P: p.name, Att: p.att, N: n, T0: t0})
					return nil
				}
				lenBefore := mailbox && p.rng.Intn(100) < p.rplan.LenPct
				lenAfter := mailbox && p.rng.Intn(100) < p.rplan.LenPct
				if lenBefore {
					if err = readLen(); err != nil {
						return err
					}
				}
				for i := 0; i < k; i++ {
					t0 := ev.tick()
					var v tla.Value
					v, err = iface.Read(net, []tla.Value{p.self})
					if err != nil {
						ev.emit(Ev{K: "rto", P: p.name, Att: p.att, T0: t0, N: p.inAttempt})
						if quiet && p.inAttempt == 0 {
							p.idleAfterQ++
							limit := idleDrain
							if p.committed < p.expected {
								limit = idleDrainLong
							}
							if p.idleAfterQ >= limit {
								p.finished = true
							}
						}
						return err
					}
					if p.w.c.Kind == "customch" && v.Equal(tla.ModuleTRUE) {
						// documented: CustomInChan yields TRUE instead of aborting when nothing arrives in time
						ev.emit(Ev{K: "rdef", P: p.name, Att: p.att, T0: t0})
						if quiet && p.inAttempt == 0 {
							p.idleAfterQ++
							limit := idleDrain
							if p.committed < p.expected {
								limit = idleDrainLong
							}
							if p.idleAfterQ >= limit {
								p.finished = true
							}
						}
						break
					}
					p.idleAfterQ = 0
					id, ok := parseMsg(v)
					if !ok {
						ev.emit(Ev{K: "rbad", P: p.name, Att: p.att, T0: t0, Txt: truncate(v.String(), 120)})
					} else {
						ev.emit(Ev{K: "r", P: p.name, Att: p.att, ID: &id, T0: t0})
					}
					p.inAttempt++
					if abortAfter == i+1 {
						ev.emit(Ev{K: "fault", P: p.name, Att: p.att, Cls: "body", N: i + 1})
						return distsys.ErrCriticalSectionAborted
					}
				}
				if lenAfter {
					if err = readLen(); err != nil {
						return err
					}
				}
				if preFault {
					p.flt.armed = true
					p.flt.slow = 0
					ev.emit(Ev{K: "fault", P: p.name, Att: p.att, Cls: "precommit", N: p.inAttempt})
					err = iface.Write(flt, nil, tla.ModuleTRUE)
					if err != nil {
						return err
					}
				}
				return iface.Goto("AReceiver.rcv")
			},
		},
		distsys.MPCalCriticalSection{
			Name: "AReceiver.Done",
			Body: func(distsys.ArchetypeInterface) error {
				ev.emit(Ev{K: "done", P: p.name})
				close(p.done)
				// do not run the resources' Close (receiver shutdown is outside the statement): park here
				select {}
			},
		},
	)
	return distsys.MPCalArchetype{
		Name:              "AReceiver",
		Label:             "AReceiver.rcv",
		RequiredRefParams: []string{"AReceiver.net", "AReceiver.netLen", "AReceiver.flt"},
		RequiredValParams: []string{},
		JumpTable:         jt,
		ProcTable:         distsys.MakeMPCalProcTable(),
		PreAmble:          func(distsys.ArchetypeInterface) {},
	}
}

func truncate(s string, n int) string {
	if len(s) > n {
		return s[:n]
	}
	return s
}

// kernelQuiet reports whether no TCP socket with a local or remote port in ports (other than listeners) has
// bytes in its send or receive queue (/proc/net/tcp). False if the table cannot be read.
func kernelQuiet(ports map[int]bool) bool {
	buf, err := os.ReadFile("/proc/net/tcp")
	if err != nil {
		return false
	}
	for i, line := range strings.Split(string(buf), "\n") {
		f := strings.Fields(line)
		if i == 0 || len(f) < 5 {
			continue
		}
		if f[3] == "0A" { // LISTEN
			continue
		}
		var lp, rp int
		if j := strings.IndexByte(f[1], ':'); j >= 0 {
			fmt.Sscanf(f[1][j+1:], "%X", &lp)
		}
		if j := strings.IndexByte(f[2], ':'); j >= 0 {
			fmt.Sscanf(f[2][j+1:], "%X", &rp)
		}
		if !ports[lp] && !ports[rp] {
			continue
		}
		if f[4] != "00000000:00000000" {
			return false
		}
	}
	return true
}

func freePort() int {
	l, err := net.Listen("tcp", "127.0.0.1:0")
	if err != nil {
		panic(err)
	}
	defer l.Close()
	return l.Addr().(*net.TCPAddr).Port
}

// childMain runs one case: argv = <case.json> <events.jsonl>
func childMain(args []string) {
	if len(args) < 2 {
		fmt.Println("child: need <case> <events>")
		os.Exit(3)
	}
	buf, err := os.ReadFile(args[0])
	if err != nil {
		fmt.Println("child:", err)
		os.Exit(3)
	}
	var c Case
	if err := json.Unmarshal(buf, &c); err != nil {
		fmt.Println("child:", err)
		os.Exit(3)
	}
	ev := newEvLog(args[1])
	w := &world{c: &c, ev: ev, recs: map[*distsys.MPCalContext]*procRec{}}
	w.release, w.sig = make(chan struct{}), make(chan string, 4)
	lc := &logCap{ev: ev, byAddr: map[string]string{}}
	if c.Directed == "fullbuf" {
		lc.onCommitErr = func() {
			select {
			case w.sig <- "commit-neterr":
			default:
			}
		}
	}
	log.SetFlags(0)
	log.SetOutput(lc)

	pad := ""
	if c.Pad > 0 {
		pad = strings.Repeat("x", c.Pad)
	}

	// H1 hooks: commit point (all PreCommits succeeded, no Commit issued yet), commit done, abort entry.
	distsys.VerifHooks.CommitPoint = func(ctx *distsys.MPCalContext, _ string, _ tla.Value, _ []trace.Element) {
		if p := w.recs[ctx]; p != nil {
			ev.emit(Ev{K: "cp", P: p.name, Sec: p.sec, Att: p.att})
		}
	}
	distsys.VerifHooks.CommitDone = func(ctx *distsys.MPCalContext, _ string, _ tla.Value) {
		p := w.recs[ctx]
		if p == nil {
			return
		}
		ev.emit(Ev{K: "cd", P: p.name, Sec: p.sec, Att: p.att})
		if p.sender && c.Directed == "fullbuf" && p.sec < len(p.plan.Sections) {
			// buffer size + 1 commits complete on a correct mailbox while nobody reads (the last one is accepted
			// speculatively before the handler blocks on the full buffer)
			if int(w.cdCount.Add(1)) == c.ChanSize+1 {
				select {
				case w.sig <- "cd":
				default:
				}
			}
		}
		if p.sender {
			p.sec++
			p.att = 0
			p.faultIdx = 0
		} else {
			p.committed += p.inAttempt
			if p.inAttempt > 0 {
				p.sections++
				if p.rplan.PauseEvery > 0 && p.sections%p.rplan.PauseEvery == 0 {
					p.pausing = true
				}
			}
			p.inAttempt = 0
		}
	}
	distsys.VerifHooks.AbortPoint = func(ctx *distsys.MPCalContext, _ string, _ tla.Value, _ []trace.Element) {
		if p := w.recs[ctx]; p != nil {
			ev.emit(Ev{K: "ab", P: p.name, Sec: p.sec, Att: p.att})
			if !p.sender {
				p.inAttempt = 0
			}
		}
	}

	mopts := []resources.MailboxesOption{
		resources.WithMailboxesReceiveChanSize(c.ChanSize),
		resources.WithMailboxesReadTimeout(time.Duration(c.ReadMs) * time.Millisecond),
		resources.WithMailboxesWriteTimeout(time.Duration(c.WriteMs) * time.Millisecond),
		resources.WithMailboxesDialTimeout(time.Duration(c.DialMs) * time.Millisecond),
	}
	newMailboxes := resources.NewTCPMailboxes
	if c.Kind == "relaxed" {
		newMailboxes = resources.NewRelaxedMailboxes
	}

	// addresses: every link gets its own dial address, so that the library's own error log lines identify the link
	listenAddr := make([]string, c.NR)
	ports := make([]int, c.NR)
	dial := make([][]string, c.NS)
	var proxies []*proxy
	if c.mailboxKind() {
		for r := 0; r < c.NR; r++ {
			ports[r] = freePort()
			if c.Proxy {
				listenAddr[r] = fmt.Sprintf("127.0.0.1:%d", ports[r])
			} else {
				listenAddr[r] = fmt.Sprintf("0.0.0.0:%d", ports[r]) // reached through 127.0.0.(10+s), one loopback address per sender
			}
		}
		plans := map[[2]int][]Delay{}
		for _, l := range c.Links {
			plans[[2]int{l.S, l.R}] = l.Delays
		}
		for s := 0; s < c.NS; s++ {
			dial[s] = make([]string, c.NR)
			for r := 0; r < c.NR; r++ {
				link := fmt.Sprintf("%d>%d", s, r)
				if c.Proxy {
					px := newProxy(link, fmt.Sprintf("127.0.0.1:%d", ports[r]), plans[[2]int{s, r}], ev)
					proxies = append(proxies, px)
					dial[s][r] = px.addr()
				} else {
					dial[s][r] = fmt.Sprintf("127.0.0.%d:%d", 10+s, ports[r])
				}
				lc.byAddr[dial[s][r]] = link
			}
		}
	} else {
		w.chans = make([]chan tla.Value, c.NR)
		for r := range w.chans {
			w.chans[r] = make(chan tla.Value, c.ChanSize)
		}
	}

	// receivers
	var rctx []*distsys.MPCalContext
	var rrecs []*procRec
	for r := 0; r < c.NR; r++ {
		r := r
		p := &procRec{w: w, name: fmt.Sprintf("R%d", r), idx: r, self: ridVal(r), rplan: &c.Receivers[r],
			rng: rand.New(rand.NewSource(c.Receivers[r].Seed)), expected: c.expected(r), flt: &fltRes{}, done: make(chan struct{})}
		var net, netLen distsys.ArchetypeResource
		if c.mailboxKind() {
			mb := newMailboxes(func(idx tla.Value) (resources.MailboxKind, string) {
				if !idx.Equal(p.self) {
					panic(fmt.Errorf("receiver %d indexed its network with %v", r, idx))
				}
				return resources.MailboxesLocal, listenAddr[r]
			}, mopts...)
			net, netLen = mb, resources.NewMailboxesLength(mb)
		} else {
			net = resources.NewIncMap(func(idx tla.Value) distsys.ArchetypeResource {
				if c.Kind == "customch" {
					return raftkvs.NewCustomInChan(w.chans[r], time.Duration(c.ReadMs)*time.Millisecond)
				}
				return resources.NewInputChan(w.chans[r], resources.WithInputChanReadTimeout(time.Duration(c.ReadMs)*time.Millisecond))
			})
			netLen = resources.NewIncMap(func(idx tla.Value) distsys.ArchetypeResource { return &fltRes{} }) // never read for channel kinds
		}
		ctx := distsys.NewMPCalContext(p.self, receiverArch(p),
			distsys.EnsureArchetypeRefParam("net", net),
			distsys.EnsureArchetypeRefParam("netLen", netLen),
			distsys.EnsureArchetypeRefParam("flt", p.flt))
		w.recs[ctx] = p
		rctx = append(rctx, ctx)
		rrecs = append(rrecs, p)
	}
	// senders
	var sctx []*distsys.MPCalContext
	for s := 0; s < c.NS; s++ {
		s := s
		p := &procRec{w: w, name: fmt.Sprintf("S%d", s), sender: true, idx: s, self: tla.MakeNumber(int32(101 + s)),
			plan: &c.Senders[s], flt: &fltRes{}}
		var net distsys.ArchetypeResource
		if c.mailboxKind() {
			net = newMailboxes(func(idx tla.Value) (resources.MailboxKind, string) {
				r := int(idx.AsNumber()) - 1
				return resources.MailboxesRemote, dial[s][r]
			}, mopts...)
		} else {
			net = resources.NewIncMap(func(idx tla.Value) distsys.ArchetypeResource {
				r := int(idx.AsNumber()) - 1
				if c.Kind == "single" {
					return resources.NewSingleOutputChan(w.chans[r])
				}
				return resources.NewOutputChan(w.chans[r])
			})
		}
		ctx := distsys.NewMPCalContext(p.self, senderArch(p, pad),
			distsys.EnsureArchetypeRefParam("net", net),
			distsys.EnsureArchetypeRefParam("flt", p.flt))
		w.recs[ctx] = p
		sctx = append(sctx, ctx)
	}

	ev.emit(Ev{K: "start", P: "ctl", Txt: fmt.Sprintf("kind=%s ns=%d nr=%d proxy=%v mbox=%q", c.Kind, c.NS, c.NR, c.Proxy, os.Getenv("VERIF_MBOX"))})

	for i, ctx := range rctx {
		i, ctx := i, ctx
		go func() {
			err := ctx.Run()
			ev.emit(Ev{K: "run-exit", P: rrecs[i].name, Txt: fmt.Sprint(err)})
		}()
	}
	// wait until every receiver listens (its listener is created by its first read); otherwise the first dials
	// would be refused, which is a connection failure and outside the statement
	if c.mailboxKind() {
		for r := 0; r < c.NR; r++ {
			ok := false
			for try := 0; try < 2000 && !ok; try++ {
				conn, err := net.DialTimeout("tcp", fmt.Sprintf("127.0.0.1:%d", ports[r]), 200*time.Millisecond)
				if err == nil {
					conn.Close()
					ok = true
				} else {
					time.Sleep(2 * time.Millisecond)
				}
			}
			if !ok {
				ev.emit(Ev{K: "setup-failed", P: "ctl", Txt: "receiver never listened"})
				os.Exit(4)
			}
		}
	}
	if c.Directed == "fullbuf" {
		for _, p := range rrecs {
			for try := 0; try < 20000 && !p.parked.Load(); try++ {
				time.Sleep(time.Millisecond)
			}
			if !p.parked.Load() {
				ev.emit(Ev{K: "setup-failed", P: "ctl", Txt: "receiver never parked"})
				os.Exit(4)
			}
		}
		go func() {
			// release the receivers only after the decisive event was observed: either buffer+1 commits completed
			// (H1 CommitDone) while nobody read, or the library logged a commit-phase network error
			reason := "watchdog"
			select {
			case reason = <-w.sig:
			case <-time.After(60 * time.Second):
			}
			ev.emit(Ev{K: "release", P: "ctl", Txt: reason, N: int(w.cdCount.Load())})
			w.released.Store(true)
			close(w.release)
		}()
	}
	var wg sync.WaitGroup
	for i, ctx := range sctx {
		i, ctx := i, ctx
		wg.Add(1)
		go func() {
			defer wg.Done()
			err := ctx.Run()
			ev.emit(Ev{K: "run-exit", P: fmt.Sprintf("S%d", i), Txt: fmt.Sprint(err)})
		}()
	}
	wg.Wait()
	ev.emit(Ev{K: "senders-done", P: "ctl"})
	// quiescence: every sender has returned (all its commits were acknowledged and its connections are closed)
	// and the proxies have passed on everything they were given
	pxIdle := true
	for _, px := range proxies {
		ok := false
		for try := 0; try < 20000 && !ok; try++ {
			if px.idle() && atomic.LoadInt32(&px.active) == 0 {
				ok = true
			} else {
				time.Sleep(time.Millisecond)
			}
		}
		pxIdle = pxIdle && ok
	}
	// ... and the kernel holds no byte for any connection of the case any more (closed sockets deliver their
	// send queues in the background; with a zero window that can take seconds): every handler has read its
	// stream to the end. The receivers keep reading while we wait.
	if c.mailboxKind() {
		watch := map[int]bool{}
		for _, p := range ports {
			watch[p] = true
		}
		for _, px := range proxies {
			watch[px.ln.Addr().(*net.TCPAddr).Port] = true
		}
		ok := false
		for try := 0; try < 20000 && !ok; try++ {
			if kernelQuiet(watch) {
				ok = true
			} else {
				time.Sleep(2 * time.Millisecond)
			}
		}
		pxIdle = pxIdle && ok
	}
	w.quiesced.Store(true)
	ev.emit(Ev{K: "quiesce", P: "ctl", N: map[bool]int{true: 1, false: 0}[pxIdle]})
	for _, p := range rrecs {
		<-p.done
	}
	ev.emit(Ev{K: "end", P: "ctl", N: int(atomic.LoadInt64(&lc.other))})
	os.Exit(0)
}

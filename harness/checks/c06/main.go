// C06 — mailboxes and channels are reliable FIFO exactly-once transactional links.
//
// Workload: generated topologies of 1–4 senders × 1–3 receivers, each a real MPCalContext running a
// hand-built archetype (generator conventions) over NewTCPMailboxes / NewRelaxedMailboxes (+
// NewMailboxesLength) / OutputChan→InputChan / OutputChan→raftkvs.CustomInChan / SingleOutputChan→InputChan,
// every sender writing through ONE IncMap to 1–2 destinations per section, with seeded aborts on both sides
// (body abort after k sends / k receives, failing PreCommit of a sibling resource), tiny read/write/dial
// timeouts, small receive buffers with receivers that stop reading for a while, and a byte-forwarding proxy per
// link that delays (never breaks) connections. One case = one child process (a panic in a mailbox goroutine
// ends one case only).
//
// Oracle (offline, over the child's event log; ids are <<sender, section, attempt, k>>): see oracle.go.
package main

import (
	"encoding/json"
	"fmt"
	"hash/fnv"
	"math/rand"
	"os"
	"path/filepath"
	"regexp"
	"sort"
	"strings"
	"sync"
	"time"

	"verifh/common"
)

func pick(rng *rand.Rand, xs ...int) int { return xs[rng.Intn(len(xs))] }

func genCase(rng *rand.Rand, n int, h6, race bool) Case {
	c := Case{N: n, Seed: rng.Int63(), Race: race}
	switch x := rng.Intn(100); {
	case x < 52:
		c.Kind = "tcp"
	case x < 70:
		c.Kind = "relaxed"
	case x < 84:
		c.Kind = "chan"
	case x < 94:
		c.Kind = "customch"
	default:
		c.Kind = "single"
	}
	if k := os.Getenv("VERIF_C06_KIND"); k != "" { // development aid (mutation runs): only this kind of link
		c.Kind = k
	}
	c.NS = 1 + rng.Intn(4)
	c.NR = 1 + rng.Intn(3)
	c.ChanSize = 1 + rng.Intn(4)
	c.ReadMs = pick(rng, 5, 8, 12, 20, 30)
	c.WriteMs = pick(rng, 5, 8, 12, 20, 50)
	c.DialMs = pick(rng, 20, 50, 100)
	target := 220
	if race {
		target = 70 // the race-detector build is 5-10x slower
	}
	if c.mailboxKind() {
		c.Proxy = rng.Intn(100) < 55
	}
	oneSend := c.Kind == "relaxed" || c.Kind == "single"
	if c.Kind == "single" && rng.Intn(2) == 0 {
		c.ChanSize = target + 64 // the channel never fills: SingleOutputChan's write can only time out by scheduling delay
	}
	if race {
		// the race-detector build is several times slower: with the smallest timeouts nothing would ever commit
		c.ReadMs, c.WriteMs, c.DialMs = 3*c.ReadMs, 4*c.WriteMs, 4*c.DialMs
		if c.ReadMs > 60 {
			c.ReadMs = 60
		}
	}
	if c.mailboxKind() && !race && rng.Intn(100) < 12 {
		// big messages: a stopped receiver / a delaying proxy now fills the socket buffers, so that writes block
		// and time out ("full buffers")
		c.Pad = pick(rng, 64<<10, 256<<10)
		target = 48
		c.Proxy = true
		if c.WriteMs < 20 {
			c.WriteMs = 20
		}
	}
	perSender := target / c.NS
	for s := 0; s < c.NS; s++ {
		var sp SenderPlan
		total := 0
		for total < perSender {
			var sec SectionPlan
			nm := 0
			switch x := rng.Intn(100); {
			case x < 10:
				nm = 0
			case x < 50:
				nm = 1
			case x < 80:
				nm = 2
			default:
				nm = 3
			}
			if oneSend && nm > 1 {
				nm = 1
			}
			d1 := rng.Intn(c.NR)
			d2 := d1
			if c.NR > 1 && rng.Intn(100) < 45 {
				d2 = rng.Intn(c.NR)
			}
			for i := 0; i < nm; i++ {
				if rng.Intn(2) == 0 {
					sec.Sends = append(sec.Sends, d1)
				} else {
					sec.Sends = append(sec.Sends, d2)
				}
			}
			if rng.Intn(100) < 25 {
				for k := 1 + rng.Intn(2); k > 0; k-- {
					if oneSend {
						// documented usage rule: nothing may abort the section after a successful send
						sec.Faults = append(sec.Faults, Fault{Kind: "body", After: 0})
					} else if rng.Intn(3) == 0 {
						sec.Faults = append(sec.Faults, Fault{Kind: "precommit", SlowMs: pick(rng, 0, 0, 1, c.WriteMs/2, c.WriteMs)})
					} else {
						sec.Faults = append(sec.Faults, Fault{Kind: "body", After: rng.Intn(nm + 1)})
					}
				}
			}
			total += nm
			sp.Sections = append(sp.Sections, sec)
		}
		c.Senders = append(c.Senders, sp)
	}
	for r := 0; r < c.NR; r++ {
		rp := ReceiverPlan{Seed: rng.Int63(), MaxK: 1 + rng.Intn(3), AbortPct: pick(rng, 0, 10, 20, 35)}
		if c.mailboxKind() {
			rp.LenPct = pick(rng, 0, 15, 40)
		}
		if rng.Intn(100) < 60 {
			rp.PauseEvery = 8 + rng.Intn(25)
			rp.PauseMs = pick(rng, c.WriteMs+2, 2*c.WriteMs+5, 3*c.WriteMs, 60)
		}
		c.Receivers = append(c.Receivers, rp)
	}
	if c.Proxy && rng.Intn(100) < 70 {
		for s := 0; s < c.NS; s++ {
			for r := 0; r < c.NR; r++ {
				lp := LinkPlan{S: s, R: r}
				for k := rng.Intn(9); k > 0; k-- {
					d := Delay{Dir: "s2c", Conn: pick(rng, 0, 0, 0, 0, 1, 1, 2), Chunk: rng.Intn(40), Ms: pick(rng, c.WriteMs/2, c.WriteMs+c.WriteMs/2+3, 3*c.WriteMs)}
					if rng.Intn(4) == 0 || (c.Pad > 0 && rng.Intn(2) == 0) {
						d.Dir = "c2s"
					}
					if c.Pad > 0 {
						d.Ms = pick(rng, 3*c.WriteMs, 6*c.WriteMs, 150)
					}
					lp.Delays = append(lp.Delays, d)
				}
				if len(lp.Delays) > 0 {
					c.Links = append(c.Links, lp)
				}
			}
		}
	}
	if c.mailboxKind() && h6 && rng.Intn(100) < 50 {
		c.Mbox = fmt.Sprintf("seed=%d;p=%d;max=%d", rng.Intn(1<<30), pick(rng, 1, 3, 8), pick(rng, c.WriteMs/2+1, 2*c.WriteMs, 3*c.WriteMs))
	}
	return c
}

// genDirected builds a directed full-buffer case (see oracle.go): 1-2 senders, one parked receiver, receive
// buffer 1-2, no proxy, no H6, generous write timeout so that scheduling stalls cannot explain an ack timeout;
// every sender commits buffer+3 one-message sections.
func genDirected(rng *rand.Rand, n int) Case {
	c := Case{N: n, Seed: rng.Int63(), Kind: "tcp", Directed: "fullbuf", NS: 1 + (n/2)%2, NR: 1,
		ChanSize: 1 + n%2, ReadMs: 20, WriteMs: pick(rng, 3000, 4000, 5000), DialMs: 2000}
	for s := 0; s < c.NS; s++ {
		var sp SenderPlan
		for i := 0; i < c.ChanSize+3; i++ {
			sp.Sections = append(sp.Sections, SectionPlan{Sends: []int{0}})
		}
		c.Senders = append(c.Senders, sp)
	}
	c.Receivers = []ReceiverPlan{{Seed: rng.Int63(), MaxK: 1}}
	return c
}

// witness is what a replay file holds: the generated case, the recorded history, the oracle's finding.
type witness struct {
	Case    Case    `json:"case"`
	Finding Finding `json:"finding"`
	Events  []Ev    `json:"events,omitempty"`
	Output  string  `json:"child_output_tail,omitempty"`
}

var digits = regexp.MustCompile(`0x[0-9a-f]+|\d+`)
var nonAlnum = regexp.MustCompile(`[^a-zA-Z]+`)

func crashKey(kind, out string) (key, line string) {
	for _, l := range strings.Split(out, "\n") {
		if strings.HasPrefix(l, "panic: ") || strings.HasPrefix(l, "fatal error: ") {
			line = l
			break
		}
	}
	if line == "" || strings.Contains(line, "could not listen on address") {
		return "", "" // a port picked by the harness was taken meanwhile by another process: nothing was observed
	}
	slug := strings.Trim(nonAlnum.ReplaceAllString(digits.ReplaceAllString(line, ""), "-"), "-")
	if len(slug) > 70 {
		slug = slug[:70]
	}
	return "C06:" + kind + ":process-crash:" + strings.ToLower(slug), line
}

var raceFn = regexp.MustCompile(`(?m)^(?:Write|Read|Previous write|Previous read) at .*\n\s+(\S+)\(`)

func raceSigs(dir string) map[string]int {
	out := map[string]int{}
	files, _ := filepath.Glob(filepath.Join(dir, "race.*"))
	for _, f := range files {
		buf, err := os.ReadFile(f)
		if err != nil {
			continue
		}
		for _, blk := range strings.Split(string(buf), "WARNING: DATA RACE")[1:] {
			ms := raceFn.FindAllStringSubmatch(blk, 2)
			var fns []string
			for _, m := range ms {
				fns = append(fns, m[1])
			}
			out[strings.Join(fns, " <-> ")]++
		}
	}
	return out
}

func main() {
	if common.ChildRole() == "case" {
		childMain(os.Args[1:])
		return
	}
	r := common.Start("C06", "exploration")
	assumptions := []string{
		"absent connection failure: the harness never breaks a connection; its proxy only delays bytes; connections closed by the mailboxes themselves after one of their own timeouts count as timeouts",
		"relaxed mailboxes and SingleOutputChan are used within their documented rule (at most one send per section, nothing aborts the section after the send; SingleOutputChan's channel never fills)",
		"held = on the generated topologies, abort patterns and the interleavings these runs produced; a loss verdict is taken only after every sender returned, the proxies drained and the receiver saw a counted number of consecutive empty reads",
		"data races reported by the race detector in mailbox code are listed as observations (DESIGN E7): they do not decide this property",
	}
	if r.Replay != "" {
		replay(r, assumptions)
		return
	}
	nCases := r.Pick(36, 600)
	workers := r.Pick(8, 14)
	rng := r.Rand("cases")
	raceBin := os.Getenv("VERIF_RACE_BIN")
	cases := make([]Case, nCases)
	for i := range cases {
		cases[i] = genCase(rng, i, true, raceBin != "" && i%6 == 5)
	}
	drng := r.Rand("directed")
	for k := r.Pick(3, 16); k > 0; k-- {
		cases = append(cases, genDirected(drng, len(cases)))
	}
	nCases = len(cases)
	scratch := common.Scratch("c06")
	defer os.RemoveAll(scratch)

	var mu sync.Mutex
	tot := map[string]int{}
	kinds := map[string]int{}
	races := map[string]int{}
	var distinct common.Distinct
	samples := common.SampleKeeper{N: 6}
	evaluations := 0
	var walls []float64
	addStats := func(st Stats) {
		buf, _ := json.Marshal(st)
		var m map[string]any
		_ = json.Unmarshal(buf, &m)
		for k, v := range m {
			switch x := v.(type) {
			case float64:
				tot[k] += int(x)
			case bool:
				if x {
					tot[k]++
				}
			}
		}
	}

	common.Parallel(nCases, workers, func(i int) {
		c := &cases[i]
		dir := filepath.Join(scratch, fmt.Sprintf("case-%d", i))
		_ = os.MkdirAll(dir, 0o755)
		defer os.RemoveAll(dir)
		casePath, evPath := filepath.Join(dir, "case.json"), filepath.Join(dir, "events.jsonl")
		buf, _ := json.Marshal(c)
		_ = os.WriteFile(casePath, buf, 0o644)
		exe := ""
		env := []string{"VERIF_MBOX=" + c.Mbox}
		if c.Race {
			exe = raceBin
			env = append(env, "GORACE=halt_on_error=0 log_path="+filepath.Join(dir, "race"))
		}
		res := common.RunChild(exe, "case", dir, env, time.Duration(r.Pick(100, 240))*time.Second, casePath, evPath)
		evs, _, _ := readEvents(evPath)
		mu.Lock()
		walls = append(walls, res.Wall.Seconds())
		mu.Unlock()
		if os.Getenv("VERIF_C06_DEBUG") != "" {
			fmt.Printf("debug: case %d %s %dx%d proxy=%v race=%v pad=%d chan=%d r/w=%d/%d wall=%.1fs events=%d\n", i, c.Kind, c.NS, c.NR, c.Proxy, c.Race, c.Pad, c.ChanSize, c.ReadMs, c.WriteMs, res.Wall.Seconds(), len(evs))
		}
		label := fmt.Sprintf("case %d (%s %dx%d proxy=%v race=%v %s)", i, c.Kind, c.NS, c.NR, c.Proxy, c.Race, c.Directed)
		if c.Race {
			rs := raceSigs(dir)
			mu.Lock()
			for k, v := range rs {
				races[k] += v
			}
			mu.Unlock()
		}
		if res.TimedOut {
			r.Inconclusive(label + ": watchdog")
			return
		}
		if c.Race && res.ExitCode == 66 {
			res.ExitCode = 0 // the race detector's exit status when it reported something (GORACE exitcode default)
		}
		if res.ExitCode == 5 {
			res.ExitCode = 0 // event cap reached: judge what was recorded; the case cannot be complete
		}
		if res.ExitCode != 0 {
			if key, line := crashKey(c.Kind, res.Output); key != "" {
				if k2, ok := classifyCrash(c, evs, res.Output); ok {
					key = k2
				}
				tail := res.Output
				if len(tail) > 6000 {
					tail = tail[:3000] + "\n…\n" + tail[len(tail)-3000:]
				}
				f := Finding{Key: key, Desc: "the process died under timeouts/aborts only: " + line}
				r.Report(key, f.Desc, witness{Case: *c, Finding: f, Events: tailEvents(evs, 3000), Output: tail})
				mu.Lock()
				evaluations++
				mu.Unlock()
				return
			}
			r.Inconclusive(fmt.Sprintf("%s: child exit %d: %s", label, res.ExitCode, truncate(strings.TrimSpace(res.Output), 200)))
			return
		}
		fs, st, conclusive, problems := judge(c, evs)
		if c.Directed != "" && hasKey(fs, "commit-blocked-by-full-receive-buffer") {
			// confirm by running the case once more: a freak multi-second stall of the handler goroutine must not
			// be reported as a held-back ack
			dir2 := filepath.Join(scratch, fmt.Sprintf("case-%d-confirm", i))
			_ = os.MkdirAll(dir2, 0o755)
			defer os.RemoveAll(dir2)
			ev2 := filepath.Join(dir2, "events.jsonl")
			res2 := common.RunChild(exe, "case", dir2, env, time.Duration(r.Pick(100, 240))*time.Second, casePath, ev2)
			evs2, _, _ := readEvents(ev2)
			fs2, _, _, _ := judge(c, evs2)
			if res2.TimedOut || res2.ExitCode != 0 || !hasKey(fs2, "commit-blocked-by-full-receive-buffer") {
				r.Inconclusive(label + ": commit blocked by a full receive buffer in one run, not confirmed by the re-run")
				return
			}
		}
		for _, f := range fs {
			r.Report(f.Key, f.Desc, witness{Case: *c, Finding: f, Events: evs})
		}
		mu.Lock()
		defer mu.Unlock()
		if !conclusive {
			r.Inconclusive(label + ": " + strings.Join(problems, "; "))
			if len(fs) == 0 {
				return
			}
		}
		evaluations++
		kinds[c.Kind]++
		addStats(st)
		nontrivial := st.SentCommitted >= 20 && st.RecvAbortsAR >= 1
		if c.Kind == "tcp" || c.Kind == "chan" || c.Kind == "customch" {
			nontrivial = nontrivial && st.SenderAbortsAS >= 1
		}
		if nontrivial {
			h := fnv.New64a()
			h.Write([]byte(st.OrderSig))
			distinct.Add(fmt.Sprintf("%s|%dx%d|%s|%x", c.Kind, c.NS, c.NR, st.AbortSig, h.Sum64()))
		}
		samples.Add(map[string]any{
			"case": map[string]any{"n": c.N, "kind": c.Kind, "senders": c.NS, "receivers": c.NR, "chan_size": c.ChanSize,
				"read_ms": c.ReadMs, "write_ms": c.WriteMs, "proxy": c.Proxy, "pad_bytes": c.Pad, "delayed_links": len(c.Links), "race": c.Race, "mbox": c.Mbox, "directed": c.Directed,
				"first_sections_of_sender_0": firstN(c.Senders[0].Sections, 4), "receiver_0": c.Receivers[0]},
			"observed":        st,
			"findings":        len(fs),
			"history_excerpt": excerpt(evs, 40),
		})
	})

	extra := map[string]any{"totals": tot, "cases_by_kind": kinds, "events": tot["events"]}
	if len(walls) > 0 {
		sort.Float64s(walls)
		sum := 0.0
		for _, w := range walls {
			sum += w
		}
		extra["case_wall_s"] = map[string]any{"mean": sum / float64(len(walls)), "median": walls[len(walls)/2], "max": walls[len(walls)-1]}
	}
	if len(races) > 0 {
		keys := make([]string, 0, len(races))
		for k := range races {
			keys = append(keys, k)
		}
		sort.Strings(keys)
		var list []any
		for _, k := range keys {
			list = append(list, map[string]any{"functions": k, "reports": races[k]})
		}
		extra["races_observed"] = list
		r.Note("race detector reports in -race cases (observations, not verdicts): %d distinct function pairs", len(races))
	} else {
		extra["races_observed"] = []any{}
	}
	_ = os.RemoveAll(scratch) // Finish exits the process: deferred calls do not run
	r.Finish(common.Coverage{
		Evaluations:        evaluations,
		DistinctNontrivial: distinct.Len(),
		Rule:               "distinct (link kind, senders x receivers, set of harness abort shapes, commit-order signature) among conclusive cases with >= 20 committed messages, >= 1 receiver attempt aborted after obtaining a message and (kinds that can abort after a send) >= 1 sender attempt aborted after sending",
		Samples:            samples.S,
		Floor:              r.Pick(10, 200),
		Extra:              extra,
	}, assumptions)
}

// excerpt returns n consecutive events from the middle of a history (sends, reads, commit/abort points, log lines).
func excerpt(evs []Ev, n int) []Ev {
	if len(evs) <= n {
		return evs
	}
	mid := len(evs) / 2
	return evs[mid : mid+n]
}

func hasKey(fs []Finding, suffix string) bool {
	for _, f := range fs {
		if strings.HasSuffix(f.Key, ":"+suffix) {
			return true
		}
	}
	return false
}

func firstN(s []SectionPlan, n int) []SectionPlan {
	if len(s) > n {
		return s[:n]
	}
	return s
}

func tailEvents(evs []Ev, n int) []Ev {
	if len(evs) > n {
		return evs[len(evs)-n:]
	}
	return evs
}

func replay(r *common.Run, assumptions []string) {
	buf, err := os.ReadFile(r.Replay)
	if err != nil {
		fmt.Println("cannot read replay file:", err)
		os.Exit(3)
	}
	var f struct {
		Witness witness `json:"witness"`
	}
	if err := json.Unmarshal(buf, &f); err != nil {
		fmt.Println("cannot parse replay file:", err)
		os.Exit(3)
	}
	w := f.Witness
	n := 0
	if strings.Contains(w.Finding.Key, ":process-crash:") {
		// the history ends with the crash; the stored output is the witness
		if k2, ok := classifyCrash(&w.Case, w.Events, w.Output); ok {
			w.Finding.Key = k2
		}
		r.Report(w.Finding.Key, w.Finding.Desc, w)
		n = 1
	} else {
		fs, _, _, _ := judge(&w.Case, w.Events)
		for _, x := range fs {
			r.Report(x.Key, x.Desc, witness{Case: w.Case, Finding: x, Events: w.Events})
			n++
		}
	}
	fmt.Printf("replay: oracle re-run over %d recorded events, %d finding(s)\n", len(w.Events), n)
	r.Finish(common.Coverage{Evaluations: 1, DistinctNontrivial: 1, Rule: "replay of one recorded history"}, assumptions)
}

package main

import (
	"net"
	"sync"
	"sync/atomic"
	"time"
)

// proxy is a byte-forwarding TCP proxy for one (sender, receiver) link. It can hold back chosen chunks
// for a while ("slow receiver" / "slow network" at the byte level). It never drops, reorders or invents
// bytes and never closes a connection unless one of the two ends did.
type proxy struct {
	link     string
	target   string
	ln       net.Listener
	delays   map[[3]int]int // (dir 0=c2s 1=s2c, conn, chunk) -> ms
	conns    int32
	inflight int64 // bytes read from one side and not yet written to the other
	active   int32 // live pump goroutines
	log      *evLog
	mu       sync.Mutex
	closed   bool
}

func newProxy(link, target string, plan []Delay, log *evLog) *proxy {
	ln, err := net.Listen("tcp", "127.0.0.1:0")
	if err != nil {
		panic(err)
	}
	p := &proxy{link: link, target: target, ln: ln, delays: map[[3]int]int{}, log: log}
	for _, d := range plan {
		dir := 0
		if d.Dir == "s2c" {
			dir = 1
		}
		p.delays[[3]int{dir, d.Conn, d.Chunk}] = d.Ms
	}
	go p.serve()
	return p
}

func (p *proxy) addr() string { return p.ln.Addr().String() }

func (p *proxy) serve() {
	for {
		c, err := p.ln.Accept()
		if err != nil {
			return
		}
		n := int(atomic.AddInt32(&p.conns, 1)) - 1
		p.log.emit(Ev{K: "px-accept", P: "px", Link: p.link, N: n})
		t, err := net.Dial("tcp", p.target)
		if err != nil {
			// the receiver is not listening: this would be a connection failure made by the harness
			p.log.emit(Ev{K: "px-dialfail", P: "px", Link: p.link, N: n, Txt: err.Error()})
			c.Close()
			continue
		}
		atomic.AddInt32(&p.active, 2)
		go p.pump(0, n, c, t)
		go p.pump(1, n, t, c)
	}
}

func (p *proxy) pump(dir, conn int, src, dst net.Conn) {
	defer atomic.AddInt32(&p.active, -1)
	buf := make([]byte, 64<<10)
	chunk := 0
	for {
		n, err := src.Read(buf)
		if n > 0 {
			atomic.AddInt64(&p.inflight, int64(n))
			if ms, ok := p.delays[[3]int{dir, conn, chunk}]; ok && ms > 0 {
				d := "c2s"
				if dir == 1 {
					d = "s2c"
				}
				p.log.emit(Ev{K: "px-delay", P: "px", Link: p.link, N: conn, To: chunk, Cls: d, Att: ms})
				time.Sleep(time.Duration(ms) * time.Millisecond)
			}
			_, werr := dst.Write(buf[:n])
			atomic.AddInt64(&p.inflight, -int64(n))
			chunk++
			if werr != nil {
				err = werr
			}
		}
		if err != nil {
			// one end went away (the sender closes after a timeout, or everything shuts down): pass it on
			dst.Close()
			src.Close()
			return
		}
	}
}

func (p *proxy) idle() bool {
	return atomic.LoadInt64(&p.inflight) == 0
}

func (p *proxy) close() {
	p.ln.Close()
}

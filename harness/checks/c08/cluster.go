package main

import (
	"encoding/json"
	"fmt"
	"os"
	"path/filepath"
	"sort"
	"time"

	"verifh/cluster"
	"verifh/common"
)

type clusterEvidence struct {
	runs  int
	extra map[string]any
}

func clusterChild() {
	var cfg cluster.RaftRun
	if err := json.Unmarshal([]byte(os.Getenv("C08_CFG")), &cfg); err != nil {
		panic(err)
	}
	cluster.RaftChild(cfg, os.Getenv("C08_OUT"), os.Getenv("C08_SCRATCH"))
}

// runClusters: real raftkvs clusters through bootstrap.NewServer/NewClient with a crash-stop of a minority;
// the child evaluates the order-robust Raft monitors online at every commit point (H1) and at the quiescent point.
func runClusters(r *common.Run, scratch string, distinct *common.Distinct, samples *common.SampleKeeper) clusterEvidence {
	n := r.Pick(2, 40)
	ev := clusterEvidence{extra: map[string]any{}}
	events, maxTerm, truncs, crashes, committed, unproductive := 0, 0, 0, 0, 0, 0
	labels := map[string]int{}
	race := os.Getenv("VERIF_RACE_BIN")
	raceReports := 0
	for i := 0; i < n && r.Violations() == 0; i++ {
		rng := r.Rand(fmt.Sprintf("c08-cluster-%d", i))
		ns := []int{3, 5, 3, 1, 3, 5}[i%6]
		cfg := cluster.RaftRun{NS: ns, NC: 2 + rng.Intn(3), Persist: i%3 == 2, Seed: r.Seed*100 + int64(i), OpsPerClient: 25, Keys: 2, PutPct: 60,
			Scale: 3, ReqTimeout: time.Duration(15+rng.Intn(30)) * time.Millisecond, Disrupt: time.Duration(rng.Intn(25)) * time.Microsecond, MaxWall: 40 * time.Second}
		if ns >= 3 {
			cfg.Crash = 1 + rng.Intn((ns-1)/2)
			cfg.CrashAfter = 5 + rng.Intn(30)
		}
		exe := ""
		env := []string{}
		if race != "" && i%2 == 1 { // every second cluster under the race detector, all timeouts x6
			exe = race
			cfg.Scale = 8
			cfg.MaxWall = 120 * time.Second
			env = append(env, fmt.Sprintf("GORACE=halt_on_error=0 log_path=%s", filepath.Join(scratch, fmt.Sprintf("race-%d", i))))
		}
		dir := filepath.Join(scratch, fmt.Sprintf("cl-%d", i))
		os.MkdirAll(dir, 0o755)
		out := filepath.Join(dir, "report.jsonl")
		buf, _ := json.Marshal(cfg)
		res := common.RunChild(exe, "cluster", dir, append(env, "C08_CFG="+string(buf), "C08_OUT="+out, "C08_SCRATCH="+dir), cfg.MaxWall+60*time.Second)
		recs, complete, _ := common.ReadJSONL(out)
		if exe != "" {
			matches, _ := filepath.Glob(filepath.Join(scratch, fmt.Sprintf("race-%d*", i)))
			for _, m := range matches {
				b, _ := os.ReadFile(m)
				c := countRaces(string(b))
				raceReports += c
				if c > 0 {
					r.Note("race detector: %d report(s) in cluster run %d: %s", c, i, firstRaceStack(string(b)))
				}
			}
		}
		if !complete || res.TimedOut {
			r.Inconclusive(fmt.Sprintf("cluster run %d (NS=%d) incomplete: timedout=%v exit=%d %s", i, ns, res.TimedOut, res.ExitCode, tailStr(res.Output, 300)))
			os.RemoveAll(dir)
			continue
		}
		ev.runs++
		for _, rec := range recs {
			switch rec["kind"] {
			case "violation":
				r.Report(fmt.Sprint(rec["key"]), fmt.Sprint(rec["desc"]), map[string]any{"setting": "cluster", "cfg": cfg, "report": recs})
			case "stats":
				e := int(rec["commit_point_events"].(float64))
				events += e
				if t := int(rec["max_term"].(float64)); t > maxTerm {
					maxTerm = t
				}
				truncs += int(rec["truncations"].(float64))
				crashes += int(rec["crashed"].(float64))
				committed += int(rec["entries_committed"].(float64))
				if rec["completed_ops"].(float64) == 0 {
					unproductive++
				}
				for l, c := range rec["labels"].(map[string]any) {
					labels[l] += int(c.(float64))
				}
				var lh []string
				for t, l := range rec["leaders_by_term"].(map[string]any) {
					lh = append(lh, fmt.Sprintf("%s:%v", t, l))
				}
				sort.Strings(lh)
				if ns >= 2 {
					distinct.Add(fmt.Sprintf("cluster ns%d crash%v %v", ns, rec["crashed"], lh))
				}
				if i < 2 {
					samples.Add(map[string]any{"setting": "cluster", "cfg": cfg, "stats": rec})
				}
			}
		}
		os.RemoveAll(dir)
	}
	ev.extra = map[string]any{"runs": ev.runs, "commit_point_events": events, "max_term": maxTerm, "log_truncations": truncs, "crashes": crashes,
		"entries_committed": committed, "unproductive_runs": unproductive, "labels": labels, "race_reports_observed": raceReports}
	return ev
}

func countRaces(s string) int {
	n := 0
	for i := 0; i+18 <= len(s); i++ {
		if s[i:i+18] == "WARNING: DATA RACE" {
			n++
		}
	}
	return n
}

func firstRaceStack(s string) string {
	if len(s) > 1200 {
		return s[:1200]
	}
	return s
}

package main

import (
	"verifh/common"
)

type clusterEvidence struct {
	runs  int
	extra map[string]any
}

func clusterChild() {}

func runClusters(r *common.Run, scratch string, distinct *common.Distinct, samples *common.SampleKeeper) clusterEvidence {
	return clusterEvidence{extra: map[string]any{"runs": 0, "note": "not built yet"}}
}

// C08 — generated Raft KV store keeps the Raft safety invariants.
//
// (a) simsched: the shipped raftkvs archetypes (5 per server + clients + crashers) run one attempt at a time over
// harness resources implementing the spec's mapping macros, with per-link FIFO delivery (the property's
// quantifier); after every committed step Go monitors evaluate ElectionSafety, LogMatching, LeaderCompleteness,
// StateMachineSafety, ApplyLogOK, plogOK, LeaderAppendOnly and their history-strengthened forms; a sample of
// traces is sent to TLC which evaluates the invariants as written in raftkvs.tla on the visited states and
// checks every step against Next.
// (b) real clusters through raftkvs/bootstrap over 127.0.0.1 with crash-stop of a minority, monitored through
// the commit-point log (H1) with order-robust history forms — see cluster.go.
package main

import (
	"fmt"
	"os"
	"sort"
	"strings"
	"sync"
	"time"

	"verifh/adapters"
	"verifh/common"
	"verifh/simsched"
)

type policy struct {
	name  string
	apply func(rs *adapters.RaftSim, seed int64)
}

func policies() []policy {
	return []policy{
		{"uniform", func(rs *adapters.RaftSim, seed int64) {}},
		{"pct-bursts", func(rs *adapters.RaftSim, seed int64) {
			// one process at a time is starved for a burst of commits
			s := rs.Sched
			base := s.Eligible
			var victim *simsched.Proc
			until := 0
			s.Eligible = func(p *simsched.Proc, step int) bool {
				if base != nil && !base(p, step) {
					return false
				}
				if step >= until {
					victim = s.Procs[s.Rng.Intn(len(s.Procs))]
					until = step + 5 + s.Rng.Intn(40)
				}
				return p != victim
			}
		}},
		{"partition-by-starvation", func(rs *adapters.RaftSim, seed int64) {
			// all five archetypes of one server are starved for a while: messages to it queue up, others time out
			s := rs.Sched
			base := s.Eligible
			group := ""
			until, next := 0, 30
			s.Eligible = func(p *simsched.Proc, step int) bool {
				if base != nil && !base(p, step) {
					return false
				}
				if step >= next {
					group = fmt.Sprintf("srv%d", 1+s.Rng.Intn(rs.Opts.NS))
					until = step + 20 + s.Rng.Intn(80)
					next = until + 20 + s.Rng.Intn(60)
				}
				if step < until && p.Group == group {
					return false
				}
				return true
			}
		}},
		{"crash-leader-after-append", func(rs *adapters.RaftSim, seed int64) {
			// crashers target servers 1..MaxNodeFail; let one fire only while its target is leader and holds
			// an entry beyond its commit index
			s := rs.Sched
			base := s.Eligible
			st := s.Store
			s.Eligible = func(p *simsched.Proc, step int) bool {
				if base != nil && !base(p, step) {
					return false
				}
				if p.Arch.Name == "AServerCrasher" && p.PC() == "AServerCrasher.serverCrash" {
					target := p.Local("srvId")
					if st.Get("state").ApplyFunction(target).AsString() != "leader" {
						return step > 600 // eventually allow it anyway
					}
					ll := st.Get("log").ApplyFunction(target).AsTuple().Len()
					return ll > int(st.Get("commitIndex").ApplyFunction(target).AsNumber()) || step > 600
				}
				return true
			}
		}},
	}
}

// figure8 steers a 5-server run through the schedule of Figure 8 of the Raft paper: a leader of an old term
// replicates an entry to a minority and is partitioned away; another server is elected, appends a competing
// entry and is partitioned before replicating it; the first leader returns, is re-elected and finishes
// replicating its OLD-term entry to a majority; then the second server returns and is elected. Safe Raft never
// counts the old-term entry as committed on replica count alone. Phases are (eligible servers, who may time out,
// goal, step budget); partitions are starvation, so every schedule is one the real system can produce.
func figure8(rs *adapters.RaftSim, seed int64) { scripted(rs, "figure-8") }

// scripted installs a phase script: (eligible servers, who may time out, goal, step budget) per phase.
// "re-election" (3 servers): elect 1, let clients get entries committed (so the leader's matchIndex/nextIndex are
// non-trivial), depose it by electing 2, then elect 1 again: the step in which a server becomes leader for the second
// time must re-initialise its bookkeeping exactly as the spec says.
func scripted(rs *adapters.RaftSim, variant string) {
	s := rs.Sched
	st := s.Store
	srvOf := func(p *simsched.Proc) int {
		var n int
		if _, err := fmt.Sscanf(p.Group, "srv%d", &n); err != nil {
			return 0
		}
		return n
	}
	state := func(i int) string { return st.Get("state").ApplyFunction(simsched.N(i)).AsString() }
	term := func(i int) int { return int(st.Get("currentTerm").ApplyFunction(simsched.N(i)).AsNumber()) }
	logLen := func(i int) int { return st.Get("log").ApplyFunction(simsched.N(i)).AsTuple().Len() }
	commit := func(i int) int { return int(st.Get("commitIndex").ApplyFunction(simsched.N(i)).AsNumber()) }
	all := func(xs ...int) map[int]bool {
		m := map[int]bool{}
		for _, x := range xs {
			m[x] = true
		}
		return m
	}
	if variant == "re-election" {
		t1 := 0
		phasesRe := []phase{
			{"elect-1", all(1, 2, 3), nil, true, 1, func() bool { t1 = term(1); return state(1) == "leader" }, 400},
			{"serve-clients", all(1, 2, 3), nil, true, 0, func() bool { return commit(1) >= 1 && commit(2) >= 1 }, 500},
			{"elect-2", all(1, 2, 3), nil, true, 2, func() bool { return state(2) == "leader" && term(2) > t1 }, 500},
			{"serve-clients-2", all(1, 2, 3), nil, true, 0, func() bool { return commit(2) >= 2 && logLen(1) == logLen(2) }, 400},
			{"catch-up-1", all(1, 2, 3), nil, true, 0, func() bool { return logLen(1) == logLen(2) && logLen(3) == logLen(2) }, 300},
			{"elect-1-again", all(1, 2, 3), nil, true, 1, func() bool { return state(1) == "leader" && term(1) > term(2) }, 600},
			{"serve-clients-3", all(1, 2, 3), nil, true, 0, func() bool { return false }, 60},
		}
		installPhases(rs, phasesRe, srvOf, state, false)
		return
	}
	phases := []phase{
		{"elect-1", all(1, 2, 3, 4, 5), nil, false, 1, func() bool { return state(1) == "leader" }, 400},
		{"append-and-replicate-to-2", all(1, 2), all(2), true, 0, func() bool { return logLen(1) >= 1 && logLen(2) >= 1 }, 400},
		{"elect-5-without-1-2", all(3, 4, 5), nil, false, 5, func() bool { return state(5) == "leader" }, 500},
		{"5-appends-unreplicated", all(5), all(5), true, 0, func() bool { return logLen(5) >= 1 }, 400},
		{"re-elect-1-without-5", all(1, 2, 3, 4), nil, false, 1, func() bool { return state(1) == "leader" && term(1) > term(5) }, 800},
		{"1-replicates-old-entry-to-3", all(1, 2, 3, 4), nil, false, 0, func() bool { return logLen(3) >= 1 && commit(1) >= 1 }, 250},
		{"elect-5-without-1", all(2, 3, 4, 5), nil, false, 5, func() bool { return state(5) == "leader" && term(5) > term(1) }, 900},
		{"5-overwrites", all(2, 3, 4, 5), nil, false, 0, func() bool { return false }, 200},
	}
	installPhases(rs, phases, srvOf, state, true)
}

type phase struct {
	name        string
	servers     map[int]bool // servers whose archetypes may run
	aserverOnly map[int]bool // of those, servers restricted to their AServer (message handling) archetype
	clients     bool
	lt          int // server whose election timer may fire
	goal        func() bool
	budget      int
}

func installPhases(rs *adapters.RaftSim, phases []phase, srvOf func(*simsched.Proc) int, state func(int) string, delayOldLeader bool) {
	s := rs.Sched
	base := s.Eligible
	cur, since, lastStep := 0, 0, -1
	rs.Params["fig8_goals_met"] = 0
	if delayOldLeader {
		// while 5 is being elected for the second time the old leader's traffic to it stays in flight
		rs.LinkDelay = func(dest, src int) bool { return cur >= 6 && dest == 5 && src == 1 }
	}
	s.Eligible = func(p *simsched.Proc, step int) bool {
		if base != nil && !base(p, step) {
			return false
		}
		if step != lastStep {
			lastStep = step
			since++
			for cur < len(phases)-1 && (phases[cur].goal() || since > phases[cur].budget) {
				if phases[cur].goal() {
					rs.Params["fig8_goals_met"] = rs.Params["fig8_goals_met"].(int) + 1
				}
				cur++
				since = 0
				rs.Params["phase"] = phases[cur].name
			}
		}
		ph := phases[cur]
		if cur == len(phases)-1 && since > ph.budget && !delayOldLeader {
			return false // script finished: let the run end
		}
		switch p.Group {
		case "client":
			return ph.clients
		case "crasher":
			return false
		}
		n := srvOf(p)
		if !ph.servers[n] {
			return false
		}
		if ph.aserverOnly[n] && p.Arch.Name != "AServer" {
			return false
		}
		return true
	}
	s.Choice = func(p *simsched.Proc, id string, ceiling uint) uint {
		switch id {
		case "coin.lt":
			if n := srvOf(p); n == phases[cur].lt && (state(n) != "candidate" || s.Rng.Intn(100) < 10) {
				return 0 // below any bias: the timer fires (rarely again while already a candidate)
			}
			return ceiling - 1
		case "coin.fd":
			return ceiling - 1 // nobody is suspected: partitions are silence, not failure reports
		case "coin.to":
			if s.Rng.Intn(100) < 15 {
				return 0
			}
			return ceiling - 1
		}
		return uint(s.Rng.Intn(int(ceiling)))
	}
}

func main() {
	r := common.Start("C08", "exploration")
	if common.ChildRole() == "cluster" {
		clusterChild()
		return
	}
	if r.Replay != "" {
		replay(r)
		return
	}
	scratch := common.Scratch("c08")
	defer os.RemoveAll(scratch)
	var mu sync.Mutex
	var distinct common.Distinct
	var samples common.SampleKeeper
	samples.N = 5
	pols := policies()

	runs := r.Pick(24, 3000)
	if os.Getenv("C08_ONLY") == "tlc" { // development aid: only the TLC traces
		runs = 0
	}
	steps := r.Pick(800, 1500)
	evals, totSteps, totAborts := 0, 0, 0
	labels := map[string]int{}
	maxTerm, elections, truncations, crashes, applied, leaderChanges := 0, 0, 0, 0, 0, 0
	perPolicy := map[string]int{}
	fig8Goals := map[string]int{} // number of the 7 scenario goals met -> runs
	common.Parallel(runs, 8, func(i int) {
		seed := r.Seed*1_000_003 + int64(i)
		rng := r.Rand(fmt.Sprintf("c08-%d", i))
		ns := []int{3, 3, 5, 2, 4, 1, 3, 5}[i%8]
		o := adapters.RaftOpts{NS: ns, NC: 1 + rng.Intn(3), MaxNodeFail: 0, BufferSize: 2 + rng.Intn(4), FIFO: true, Exact: false,
			Keys: 1 + rng.Intn(2), BiasFD: 3, BiasLeaderTimeout: 3, BiasClientTimeout: 10, CrashAfter: 30 + rng.Intn(200)}
		if ns >= 3 {
			o.MaxNodeFail = rng.Intn((ns-1)/2 + 1)
		}
		o.RealShared = i%3 == 0 && i < 600 // production LocalShared/IncMap binding of the plain per-server variables (costly: state read back through gob)
		if rng.Intn(5) == 0 {              // election storm
			o.BiasLeaderTimeout = 25
		}
		pol := pols[i%len(pols)]
		if i%6 == 5 || os.Getenv("C08_ONLY") == "figure-8" { // directed scenario on five servers
			pol = policy{"figure-8", figure8}
			ns = 5
			o.NS, o.NC, o.MaxNodeFail, o.BufferSize, o.Keys = 5, 1+rng.Intn(2), 0, 12, 1
		}
		rs := adapters.Raftkvs(seed, o)
		pol.apply(rs, seed)
		runSteps := steps
		if pol.name == "figure-8" {
			runSteps = 3500
		}
		out := rs.Run(runSteps, false)
		mu.Lock()
		defer mu.Unlock()
		evals++
		perPolicy[pol.name]++
		if g, ok := rs.Params["fig8_goals_met"]; ok {
			fig8Goals[fmt.Sprint(g)]++
		}
		totSteps += out.Result.Steps
		totAborts += out.Result.Aborts
		for l, c := range out.Labels {
			labels[l] += c
		}
		if rs.MaxTerm > maxTerm {
			maxTerm = rs.MaxTerm
		}
		elections += len(rs.Leaders)
		if len(rs.Leaders) > 1 {
			leaderChanges += len(rs.Leaders) - 1
		}
		truncations += rs.Truncations
		crashes += rs.Crashes
		applied += rs.Applied
		wit := func() map[string]any {
			return map[string]any{"setting": "sim", "opts": o, "policy": pol.name, "seed": seed, "steps": out.StepLog}
		}
		if out.Result.Err != nil && !out.Result.MonitorErr {
			r.Report("C08:sim:archetype-error", fmt.Sprintf("%v (NS=%d seed=%d policy=%s)", out.Result.Err, ns, seed, pol.name), wit())
		}
		for _, v := range out.Violations {
			r.Report(v.Key, v.Desc, wit())
		}
		var terms []int
		for t := range rs.Leaders {
			terms = append(terms, t)
		}
		sort.Ints(terms)
		lh := ""
		for _, t := range terms {
			lh += fmt.Sprintf("%d:%d,", t, rs.Leaders[t])
		}
		if ns >= 2 {
			distinct.Add(fmt.Sprintf("ns%d crash%d leaders[%s]", ns, rs.Crashes, lh))
		}
		if i < 5 {
			samples.Add(map[string]any{"setting": "sim", "opts": o, "policy": pol.name, "commits": out.Result.Steps, "aborted_attempts": out.Result.Aborts,
				"leaders_by_term": lh, "truncations": rs.Truncations, "crashes": rs.Crashes, "entries_committed": rs.Applied, "first_steps": head(out.StepLog, 25)})
		}
	})

	// TLC on recorded traces (spec-exact requests so that the trace is a behaviour of the shipped spec)
	tlcN := r.Pick(3, 24)
	tlcOK, tlcStates := 0, 0
	common.Parallel(tlcN, 6, func(i int) {
		seed := r.Seed*7_000_003 + int64(i)
		rng := r.Rand(fmt.Sprintf("c08-tlc-%d", i))
		ns := []int{3, 2, 3, 1}[i%4]
		o := adapters.RaftOpts{NS: ns, NC: 1 + rng.Intn(2), MaxNodeFail: 0, BufferSize: 3, FIFO: true, Exact: true,
			BiasFD: 3, BiasLeaderTimeout: 4, BiasClientTimeout: 10, CrashAfter: 60}
		if ns == 3 {
			o.MaxNodeFail = 1
		}
		tlcSteps := 250
		reelect := i%3 == 1
		if reelect { // scripted re-election: a server leads, is deposed, and leads again with non-trivial bookkeeping
			o.NS, o.NC, o.MaxNodeFail = 3, 1, 0
			ns = 3
			tlcSteps = 1500
		}
		o.RealShared = i%2 == 1
		rs := adapters.Raftkvs(seed, o)
		if reelect {
			scripted(rs, "re-election")
		}
		out := rs.Run(tlcSteps, true)
		if out.Result.Err != nil || len(out.States) < 10 {
			mu.Lock()
			if out.Result.Err != nil && !out.Result.MonitorErr {
				r.Report("C08:sim:archetype-error", fmt.Sprintf("%v (tlc run NS=%d seed=%d)", out.Result.Err, ns, seed), map[string]any{"opts": o, "seed": seed, "steps": out.StepLog})
			}
			for _, v := range out.Violations {
				r.Report(v.Key, v.Desc, map[string]any{"opts": o, "seed": seed, "steps": out.StepLog})
			}
			mu.Unlock()
			return
		}
		v := rs.Validate(scratch, out.States, 8*time.Minute)
		mu.Lock()
		defer mu.Unlock()
		r.Note("tlc trace %d: NS=%d scripted-re-election=%v goals_met=%v states=%d becomeLeader_steps=%d verdict=%s idle=%v aborts=%d phase=%v state=%s terms=%s last=%v", i, ns, reelect, rs.Params["fig8_goals_met"], len(out.States), out.Labels["AServerBecomeLeader.serverBecomeLeaderLoop"], v.Kind, out.Result.EndedIdle, out.Result.Aborts, rs.Params["phase"], rs.Sched.Store.Get("state").String(), rs.Sched.Store.Get("currentTerm").String(), tailS(out.StepLog, 14))
		switch v.Kind {
		case "ok":
			tlcOK++
			tlcStates += len(out.States)
		case "invariant":
			r.Report("C08:tlc:invariant:"+v.Invariant, fmt.Sprintf("TLC: invariant %s of raftkvs.tla is violated on state %d of a recorded trace (NS=%d seed=%d)", v.Invariant, v.InvariantAt, ns, seed),
				map[string]any{"opts": o, "seed": seed, "steps": out.StepLog, "tlc": v.Detail})
		case "step":
			// a step outside Next is C02's subject, but it also voids this trace as evidence for C08
			r.Report("C08:tlc:step-not-in-Next", fmt.Sprintf("TLC: step %d -> %d of a recorded raftkvs trace is not a step of the spec (NS=%d seed=%d): %s", v.RejectedAt, v.RejectedAt+1, ns, seed, out.StepLog[min(v.RejectedAt-1, len(out.StepLog)-1)]),
				map[string]any{"opts": o, "seed": seed, "steps": out.StepLog, "rejected_at": v.RejectedAt, "state_before": out.States[v.RejectedAt-1], "state_after": out.States[min(v.RejectedAt, len(out.States)-1)]})
		default:
			r.Inconclusive(fmt.Sprintf("tlc %s: %s", v.Kind, tailStr(v.Detail, 400)))
		}
	})

	clusterEv := clusterEvidence{extra: map[string]any{}}
	if os.Getenv("C08_ONLY") == "" {
		clusterEv = runClusters(r, scratch, &distinct, &samples)
	}
	evals += clusterEv.runs

	var never []string
	for _, l := range raftLabels {
		if labels[l] == 0 {
			never = append(never, l)
		}
	}
	r.Finish(common.Coverage{
		Evaluations:        evals,
		DistinctNontrivial: distinct.Len(),
		Rule:               "one evaluation = one run of the Raft KV store (simulated: up to ~1200 committed steps under a seeded scheduler policy with per-link FIFO delivery and crash-stop of a minority; or a real bootstrap cluster with a crash); non-trivial = at least 2 servers; distinct by (cluster size, crashes, leader-per-term history)",
		Samples:            samples.S,
		Floor:              8,
		Extra: map[string]any{
			"sim_runs": runs, "sim_runs_per_policy": perPolicy, "figure8_goals_met_histogram": fig8Goals, "sim_committed_steps": totSteps, "sim_aborted_attempts": totAborts,
			"labels_committed": labels, "labels_never_committed": never,
			"max_term": maxTerm, "leaders_elected": elections, "leader_changes": leaderChanges, "log_truncations": truncations, "crashes": crashes, "entries_committed": applied,
			"tlc_traces_validated": tlcOK, "tlc_traces_submitted": tlcN, "tlc_states_validated": tlcStates,
			"cluster":                    clusterEv.extra,
			"reached_interesting_region": truncations > 0 && leaderChanges > 0,
		},
	}, []string{
		"sim runs exercise generated Go + distsys core over harness resources implementing the spec's mapping macros with per-link FIFO delivery; production resources are exercised by the cluster runs",
		"crash-stop = the spec's own crasher processes (sim) / Server.Close (cluster), minority only",
		"TLC evaluates the invariants as written on the visited states of spec-exact traces; it does not explore",
	})
}

var raftLabels = []string{
	"AServer.serverLoop", "AServer.handleMsg", "AServerRequestVote.serverRequestVoteLoop", "AServerRequestVote.requestVoteLoop",
	"AServerAppendEntries.serverAppendEntriesLoop", "AServerAppendEntries.appendEntriesLoop",
	"AServerAdvanceCommitIndex.serverAdvanceCommitIndexLoop", "AServerAdvanceCommitIndex.applyLoop",
	"AServerBecomeLeader.serverBecomeLeaderLoop", "AClient.clientLoop", "AClient.sndReq", "AClient.rcvResp",
	"AServerCrasher.serverCrash", "AServerCrasher.fdUpdate",
}

func head(s []string, n int) []string {
	if len(s) > n {
		return s[:n]
	}
	return s
}

func tailStr(s string, n int) string {
	if len(s) > n {
		return s[len(s)-n:]
	}
	return s
}

// replay re-executes a stored simulated case (deterministic from opts, policy and seed) and re-evaluates the
// monitors; for a cluster witness it re-reports what the online monitors of that run recorded.
func replay(r *common.Run) {
	key, _, wit, err := r.LoadReplay()
	if err != nil {
		fmt.Println("cannot read replay file:", err)
		os.Exit(3)
	}
	if wit["setting"] == "cluster" {
		var recs []map[string]any
		_ = common.Remarshal(wit["report"], &recs)
		for _, rec := range recs {
			if rec["kind"] == "violation" {
				r.Report(fmt.Sprint(rec["key"]), fmt.Sprint(rec["desc"]), wit)
			}
		}
		r.FinishReplay(key)
	}
	var o adapters.RaftOpts
	_ = common.Remarshal(wit["opts"], &o)
	seed, _ := wit["seed"].(float64)
	rs := adapters.Raftkvs(int64(seed), o)
	name, _ := wit["policy"].(string)
	steps := 1500
	if name == "figure-8" {
		figure8(rs, int64(seed))
		steps = 3500
	} else {
		for _, p := range policies() {
			if p.name == name {
				p.apply(rs, int64(seed))
			}
		}
	}
	capture := strings.HasPrefix(key, "C08:tlc:")
	if capture {
		steps = 250
	}
	out := rs.Run(steps, capture)
	for _, v := range out.Violations {
		r.Report(v.Key, v.Desc, map[string]any{"setting": "sim", "opts": o, "policy": name, "seed": int64(seed), "steps": out.StepLog})
	}
	if out.Result.Err != nil && !out.Result.MonitorErr {
		r.Report("C08:sim:archetype-error", out.Result.Err.Error(), wit)
	}
	if capture && len(out.States) > 1 {
		scratch := common.Scratch("c08r")
		defer os.RemoveAll(scratch)
		if v := rs.Validate(scratch, out.States, 8*time.Minute); v.Kind == "step" || v.Kind == "invariant" {
			r.Report(key, fmt.Sprintf("TLC again: %s (step %d, invariant %s)", v.Kind, v.RejectedAt, v.Invariant), wit)
		}
	}
	r.FinishReplay(key)
}

func tailS(s []string, n int) []string {
	if len(s) > n {
		return s[len(s)-n:]
	}
	return s
}

// C17 — Run/Stop/Close lifecycle: stops cleanly, never deadlocks, closes once.
//
// Workload: the enumerated product
//
//	end cause {Done, Stop, assertion, Error label, resource hard error (read / pre-commit), Close error, section panic, never started}
//	x #Stop callers {0,1,2,3,5} x Stop timing {before Run, during a section, during commit, during cleanup, after return}
//	x cleanup {instant, gated} x second Run {none, after, during} x resource mix {locals, IncMap with 0..3 realised
//	elements, HashMap; thorough: TCP mailbox pair, failure detector, nested context}
//
// run on real MPCalContexts in child processes ("det" scenarios: the positions are realised with gates at the H1 hook
// points and inside wrapper resources; "arrived" is decided from goroutine states, not from time), plus free-running
// repetitions with PRNG yielding jitter ("jit" scenarios), the latter under the race detector.
//
// Oracles: every Stop call returns and Run returns (non-termination = the Go runtime's own deadlock abort in a
// timer-free child, or, in mixes with timers/sockets, a structural wait-for cycle in the goroutine dump; a bare watchdog
// expiry is inconclusive); no commit point after a Stop call returned; Close counted per wrapper instance = 1 for
// every configured resource and every map element once a started run has ended; Run's result distinguishes normal
// termination / assertion / Error label / resource error; a second Run does not execute anything.
package main

import (
	"encoding/json"
	"fmt"
	"os"
	"os/signal"
	"path/filepath"
	"regexp"
	"sort"
	"strings"
	"sync"
	"syscall"
	"time"

	"verifh/common"
)

var smallMixes = []string{"locals", "incmap0", "incmap1", "incmap2", "incmap3", "hashmap"}
var realMixes = []string{"tcp", "fd", "nested"}
var endsRun = []string{"done", "assert", "errlabel", "reserr", "reserr-pc", "closeerr", "panic"} // ends the archetype reaches by itself
var stopCounts = []int{1, 2, 3, 5}

func enumerateDet(mixes []string, seconds []string, reduced bool) []Scenario {
	var out []Scenario
	add := func(s Scenario) {
		s.Mode = "det"
		out = append(out, s)
	}
	for _, mix := range mixes {
		for _, second := range seconds {
			ends := endsRun
			stops := stopCounts
			if reduced {
				ends = []string{"done", "assert", "reserr"}
				stops = []int{1, 3}
			}
			if second != "during" {
				// no Stop caller at all: every end cause the archetype reaches by itself
				for _, e := range ends {
					for _, cl := range []string{"instant", "gated"} {
						add(Scenario{Mix: mix, End: e, Stops: 0, Timing: "none", Cleanup: cl, Second: second})
					}
				}
				// never started: Run never called (0..5 Stop callers), or all Stop callers first and then Run
				for _, k := range append([]int{0}, stops...) {
					if second == "none" {
						add(Scenario{Mix: mix, End: "never", Stops: k, Timing: "norun", Cleanup: "instant", Second: second})
					}
					if k > 0 {
						add(Scenario{Mix: mix, End: "never", Stops: k, Timing: "before", Cleanup: "instant", Second: second})
					}
				}
			}
			for _, k := range stops {
				for _, cl := range []string{"instant", "gated"} {
					for _, e := range append([]string{"stop"}, ends...) {
						add(Scenario{Mix: mix, End: e, Stops: k, Timing: "section", Cleanup: cl, Second: second})
						if second != "during" {
							add(Scenario{Mix: mix, End: e, Stops: k, Timing: "commit", Cleanup: cl, Second: second})
						}
					}
					if second != "during" {
						for _, e := range ends {
							add(Scenario{Mix: mix, End: e, Stops: k, Timing: "cleanup", Cleanup: cl, Second: second})
							if cl == "instant" {
								add(Scenario{Mix: mix, End: e, Stops: k, Timing: "after", Cleanup: cl, Second: second})
							}
						}
					}
				}
			}
		}
	}
	return out
}

func enumerateJit(r *common.Run, mixes []string, reps int) []Scenario {
	rng := r.Rand("jit")
	var out []Scenario
	for rep := 0; rep < reps; rep++ {
		for _, mix := range mixes {
			for _, e := range append([]string{"stop"}, endsRun...) {
				for _, k := range stopCounts {
					for _, cl := range []string{"instant", "gated"} {
						out = append(out, Scenario{Mode: "jit", Mix: mix, End: e, Stops: k, Timing: "jit", Cleanup: cl, Second: "none", Jitter: rng.Int63()})
					}
				}
			}
		}
	}
	return out
}

// ---------------------------------------------------------------------------------------------
// oracle
// ---------------------------------------------------------------------------------------------

type violation struct {
	Key  string
	Desc string
}

type event struct {
	Seq int64  `json:"seq"`
	Ev  string `json:"ev"`
	Who string `json:"who"`
}

// expectedRun returns the result class Run must report.
func expectedRun(S Scenario, o Obs) string {
	byEnd := map[string]string{"done": "nil", "stop": "nil", "assert": "assert", "errlabel": "fallthrough", "reserr": "reserr",
		"reserr-pc": "reserr", "closeerr": "closeerr", "panic": "panic:c17: injected section panic", "never": "nil"}
	if !o.Started {
		return "nil"
	}
	switch S.Timing {
	case "before":
		return "nil"
	case "commit": // the Stop request is seen at the label boundary after the last work section: the final label never runs
		if S.End == "closeerr" {
			return "closeerr" // the Close error is reported whatever ended the run
		}
		return "nil"
	case "jit":
		if !o.FinalExecuted { // stopped at an earlier label boundary
			if S.End == "closeerr" {
				return "closeerr"
			}
			return "nil"
		}
	}
	return byEnd[S.End]
}

func evaluate(S Scenario, o Obs, evs []event) []violation {
	var vs []violation
	add := func(key, format string, a ...any) {
		vs = append(vs, violation{Key: key, Desc: fmt.Sprintf(format, a...) + " [" + S.sig() + "]"})
	}
	// (1) all Stop calls returned — a child that reports a result got there only after every caller returned
	if o.StopsReturned != S.Stops {
		add("C17:stop-not-returned", "%d of %d Stop calls returned", o.StopsReturned, S.Stops)
	}
	// (2) Run's report
	if o.RunCalled && o.RunClass == "runaway" {
		// an endless archetype passed runawayLimit label boundaries while every Stop caller was parked inside Stop
		add("C17:run-ignores-stop-request", "Run kept executing sections although every Stop caller had been waiting inside Stop for 2000 label boundaries")
	} else if o.RunCalled {
		want := expectedRun(S, o)
		if o.RunClass != want {
			add(fmt.Sprintf("C17:run-result:%s:want-%s:got-%s", S.End, keyPart(want), keyPart(o.RunClass)), "Run reported %q, expected %q", o.RunClass, want)
		}
	}
	// (3) Close counts
	check := func(when string, m map[string]int) {
		for id, n := range m {
			kind := strings.SplitN(id, ":", 2)[0]
			started := o.Started
			if kind == "nested-configured" {
				continue // judged below
			}
			switch {
			case started && n == 0:
				add("C17:close:"+kind+":never-closed", "%s closed 0 times %s although the started run ended (%s)", id, when, o.RunClass)
			case n >= 2:
				add("C17:close:"+kind+":closed-more-than-once", "%s closed %d times %s", id, n, when)
			}
		}
	}
	if o.RunCalled {
		check("when Run returned", o.ClosesAtRet)
	}
	check("at the end of the scenario", o.ClosesAtEnd)
	if S.Mix == "nested" && o.Started {
		// the nested context is started by NewNested and ends when the outer run's cleanup closes the nested resource
		for id, n := range o.ClosesAtEnd {
			if strings.HasPrefix(id, "nested-configured:") && n != 1 {
				add("C17:close:nested-configured:count", "%s of the nested context closed %d times after the outer run ended", id, n)
			}
		}
	}
	// (4) no commit point after some Stop call returned
	if S.Mode == "det" {
		firstRet := int64(0)
		for _, e := range evs {
			if e.Ev == "stop-ret" && firstRet == 0 {
				firstRet = e.Seq
			}
			if e.Ev == "commit-point" && firstRet != 0 {
				add("C17:commit-after-stop-returned", "commit point (seq %d) after a Stop call had returned (seq %d)", e.Seq, firstRet)
				break
			}
		}
	} else if o.LateCommit {
		add("C17:commit-after-stop-returned", "a commit point was stamped after a Stop call had returned")
	}
	// (6) Stop returns only after the run has ended with every resource closed: in a started run every Close call and
	// every Close completion precedes the first return of any Stop call (Run closes awaitExit after cleanupResources;
	// event order is the order of the scenario's own sequence counter, no clock involved)
	if S.Mode == "det" && o.Started {
		firstRet := int64(0)
		for _, e := range evs {
			if e.Ev == "stop-ret" && firstRet == 0 {
				firstRet = e.Seq
			}
			if (e.Ev == "close" || e.Ev == "close-done") && firstRet != 0 {
				add("C17:stop-returned-before-resources-closed:"+e.Ev, "%s of resource %s (seq %d) after a Stop call had returned (seq %d): Stop returned while the started run was still closing its resources", e.Ev, e.Who, e.Seq, firstRet)
				break
			}
		}
	}
	// (5) at most one run
	if S.Second != "none" && o.SecondClass != "" {
		extra := 0
		for id, n := range o.ClosesAfter2 {
			base := 0 // during the first run's section nothing may have been closed yet
			if S.Second == "after" {
				base = o.ClosesAtEnd[id]
			}
			if n > base {
				extra++
			}
		}
		if o.LoopHeads2 > 0 || o.Bodies2 > 0 || o.Commits2 > 0 || extra > 0 {
			how := "executes-again"
			add("C17:second-run:"+S.Second+":"+how, "second Run (%s the first) was not rejected: %d loop iterations, %d section bodies, %d commit points, %d resources closed again; it ended with %q",
				S.Second, o.LoopHeads2, o.Bodies2, o.Commits2, extra, o.SecondClass)
		}
	}
	return vs
}

var keyClean = regexp.MustCompile(`[^A-Za-z0-9+.-]+`)

func keyPart(s string) string {
	s = keyClean.ReplaceAllString(s, "-")
	if len(s) > 60 {
		s = s[:60]
	}
	return s
}

// ---------------------------------------------------------------------------------------------
// running batches of scenarios in child processes
// ---------------------------------------------------------------------------------------------

type outcome struct {
	S        Scenario
	Obs      *Obs
	Events   []event
	Fatal    string // "deadlock" | "stall" | "watchdog" | "crash"
	Dump     string
	Shape    *shape
	ExitCode int
}

type runner struct {
	r        *common.Run
	dir      string
	mu       sync.Mutex
	outcomes []outcome
	children int
	races    []string
}

func tailOf(s string, n int) string {
	if len(s) > n {
		return s[len(s)-n:]
	}
	return s
}

// runBatch runs scs sequentially in child processes; a child that dies is restarted after the scenario in flight.
func (rn *runner) runBatch(batchNo int, scs []Scenario, exe string, race bool) {
	scFile := filepath.Join(rn.dir, fmt.Sprintf("batch-%d.json", batchNo))
	outFile := filepath.Join(rn.dir, fmt.Sprintf("batch-%d.jsonl", batchNo))
	buf, _ := json.Marshal(scs)
	if err := os.WriteFile(scFile, buf, 0o644); err != nil {
		panic(err)
	}
	byID := map[int]Scenario{}
	for _, s := range scs {
		byID[s.ID] = s
	}
	first := 0
	fruitless := 0
	var outs []outcome
	for first < len(scs) {
		os.Remove(outFile)
		env := []string{"GOTRACEBACK=all", "GOMAXPROCS=4"}
		raceLog := ""
		if race {
			raceLog = filepath.Join(rn.dir, fmt.Sprintf("race-%d-%d", batchNo, first))
			env = append(env, "GORACE=halt_on_error=0 log_path="+raceLog)
		}
		watchdog := 120 * time.Second
		res := common.RunChild(exe, "scen", rn.dir, env, watchdog, scFile, outFile, fmt.Sprint(first))
		rn.mu.Lock()
		rn.children++
		rn.mu.Unlock()
		if race {
			matches, _ := filepath.Glob(raceLog + "*")
			for _, m := range matches {
				if b, err := os.ReadFile(m); err == nil {
					rn.addRaces(string(b))
				}
				os.Remove(m)
			}
		}
		recs, complete, _ := common.ReadJSONL(outFile)
		evs := map[int][]event{}
		inflight, inflightIdx := -1, -1
		done := 0
		recycleNext := -1
		for _, rec := range recs {
			switch rec["kind"] {
			case "begin":
				inflight = int(rec["id"].(float64))
				inflightIdx = int(rec["index"].(float64))
			case "ev":
				id := int(rec["id"].(float64))
				evs[id] = append(evs[id], event{Seq: int64(rec["seq"].(float64)), Ev: fmt.Sprint(rec["ev"]), Who: fmt.Sprint(rec["who"])})
			case "recycle":
				recycleNext = int(rec["next"].(float64))
			case "deadlock":
				id := int(rec["id"].(float64))
				dump := fmt.Sprint(rec["dump"])
				sh := deadlockShape(dump)
				if len(dump) > 60000 {
					dump = dump[:60000]
				}
				outs = append(outs, outcome{S: byID[id], Events: evs[id], Fatal: "deadlock", Dump: dump, Shape: &sh})
				inflight = -1
				done++
			case "result":
				b, _ := json.Marshal(rec)
				var o Obs
				_ = json.Unmarshal(b, &o)
				outs = append(outs, outcome{S: byID[o.ID], Obs: &o, Events: evs[o.ID]})
				inflight = -1
				done++
			}
		}
		os.Remove(res.OutPath)
		if complete {
			break
		}
		if recycleNext >= 0 && inflight < 0 {
			first = recycleNext
			continue
		}
		if inflight < 0 {
			// died between scenarios, or never started (fork failure on an overloaded machine): not attributable to the
			// code under test; try again from where it stopped, give one scenario up after three fruitless attempts
			first += done
			if done > 0 {
				fruitless = 0
				continue
			}
			fruitless++
			if fruitless < 3 {
				time.Sleep(time.Duration(fruitless) * time.Second)
				continue
			}
			fruitless = 0
			rn.r.Inconclusive(fmt.Sprintf("batch %d: child ended three times without result or scenario in flight (exit %d): %s", batchNo, res.ExitCode, tailOf(res.Output, 300)))
			first++
			continue
		}
		fruitless = 0
		oc := outcome{S: byID[inflight], Events: evs[inflight], ExitCode: res.ExitCode}
		switch {
		case strings.Contains(res.Output, "fatal error: all goroutines are asleep - deadlock!"):
			oc.Fatal = "deadlock"
			i := strings.Index(res.Output, "fatal error: all goroutines are asleep")
			oc.Dump = res.Output[i:]
		case strings.Contains(res.Output, "LOGICAL-DEADLOCK:"):
			oc.Fatal = "deadlock"
			oc.Dump = res.Output[strings.Index(res.Output, "LOGICAL-DEADLOCK:"):]
		case strings.Contains(res.Output, "STALL-DUMP"):
			oc.Fatal = "stall"
			oc.Dump = res.Output[strings.Index(res.Output, "STALL-DUMP"):]
		case res.TimedOut:
			oc.Fatal = "watchdog"
			oc.Dump = tailOf(res.Output, 60000)
		default:
			oc.Fatal = "crash"
			oc.Dump = tailOf(res.Output, 20000)
		}
		if oc.Fatal != "crash" {
			sh := deadlockShape(oc.Dump)
			oc.Shape = &sh
		}
		if len(oc.Dump) > 60000 {
			oc.Dump = oc.Dump[:60000]
		}
		outs = append(outs, oc)
		first = inflightIdx + 1
	}
	os.Remove(scFile)
	os.Remove(outFile)
	rn.mu.Lock()
	rn.outcomes = append(rn.outcomes, outs...)
	rn.mu.Unlock()
}

func (rn *runner) addRaces(log string) {
	parts := strings.Split(log, "WARNING: DATA RACE")
	rn.mu.Lock()
	defer rn.mu.Unlock()
	for _, p := range parts[1:] {
		if i := strings.Index(p, "=================="); i >= 0 {
			p = p[:i]
		}
		rn.races = append(rn.races, p)
	}
}

var lineNo = regexp.MustCompile(`:\d+ \+0x[0-9a-f]+`)
var addrRe = regexp.MustCompile(`0x[0-9a-f]+`)

// raceSignature: functions of the two accesses (top frames), line numbers stripped.
func raceSignature(rep string) (sig string, runState bool) {
	var tops []string
	lines := strings.Split(rep, "\n")
	for i, l := range lines {
		t := strings.TrimSpace(l)
		if (strings.HasPrefix(t, "Read at") || strings.HasPrefix(t, "Write at") || strings.HasPrefix(t, "Previous read at") ||
			strings.HasPrefix(t, "Previous write at") || strings.HasPrefix(t, "Atomic") || strings.HasPrefix(t, "Previous atomic")) && i+1 < len(lines) {
			fn := strings.TrimSpace(lines[i+1])
			if k := strings.LastIndex(fn, "("); k > 0 {
				fn = fn[:k]
			}
			tops = append(tops, fn)
		}
	}
	sort.Strings(tops)
	sig = strings.Join(tops, " | ")
	// run-state fields of MPCalContext are only touched by Run, Stop and their closures
	n := 0
	for _, t := range tops {
		if strings.Contains(t, "distsys.(*MPCalContext).Run") || strings.Contains(t, "distsys.(*MPCalContext).Stop") {
			n++
		}
	}
	return sig, len(tops) >= 2 && n == len(tops)
}

// ---------------------------------------------------------------------------------------------

func main() {
	if common.ChildRole() != "" {
		childMain()
		return
	}
	r := common.Start("C17", "fault_enumeration")
	dir := common.Scratch("c17")
	defer os.RemoveAll(dir)
	sigc := make(chan os.Signal, 1)
	signal.Notify(sigc, syscall.SIGINT, syscall.SIGTERM)
	go func() {
		<-sigc
		os.RemoveAll(dir)
		os.Exit(3)
	}()
	rn := &runner{r: r, dir: dir}
	exe, _ := os.Executable()
	raceExe := os.Getenv("VERIF_RACE_BIN")

	if r.Replay != "" {
		replay(r, rn, exe, raceExe)
		return
	}

	// ---- the scenario lists
	// the statement's product (second Run = none) is enumerated completely for every small mix in both tiers; the
	// second-Run dimension is the harness's own addition: quick covers it for three mixes, thorough for all
	det := enumerateDet(smallMixes, []string{"none"}, false)
	if r.Quick() {
		det = append(det, enumerateDet([]string{"locals", "incmap2", "hashmap"}, []string{"after"}, false)...)
	} else {
		det = append(det, enumerateDet(smallMixes, []string{"after"}, false)...)
	}
	det = append(det, enumerateDet([]string{"locals", "incmap2"}, []string{"during"}, false)...)
	var real []Scenario
	if !r.Quick() {
		real = enumerateDet(realMixes, []string{"none"}, true)
		real = append(real, enumerateDet([]string{"nested"}, []string{"after"}, true)...)
	}
	jitPlain := enumerateJit(r, smallMixes, r.Pick(1, 8))
	var jitRace []Scenario
	if raceExe != "" {
		jitRace = enumerateJit(r, smallMixes, r.Pick(1, 12))
		if r.Quick() {
			jitRace = jitRace[:len(jitRace)/2]
		}
	} else {
		r.Note("no race binary (VERIF_RACE_BIN unset): race batches skipped")
	}
	id := 0
	number := func(l []Scenario) {
		for i := range l {
			id++
			l[i].ID = id
		}
	}
	number(det)
	number(real)
	number(jitPlain)
	number(jitRace)

	type batch struct {
		scs  []Scenario
		exe  string
		race bool
	}
	var batches []batch
	split := func(l []Scenario, size int, exe string, race bool) {
		for i := 0; i < len(l); i += size {
			j := i + size
			if j > len(l) {
				j = len(l)
			}
			batches = append(batches, batch{l[i:j], exe, race})
		}
	}
	split(real, 4, exe, false) // slow ones first
	split(jitRace, 64, raceExe, true)
	split(det, 150, exe, false)
	split(jitPlain, 128, exe, false)
	common.Parallel(len(batches), r.Pick(8, 14), func(i int) {
		rn.runBatch(i, batches[i].scs, batches[i].exe, batches[i].race)
	})

	// ---- oracles over what the children observed
	var samples common.SampleKeeper
	samples.N = 6
	var distinct common.Distinct
	evals := 0
	byMode := map[string]int{}
	fatals := map[string]int{}
	landing := map[string]int{}
	startedN, stopsReturned, closesCounted := 0, 0, 0
	viol := map[string]int{}
	deadlockWhere := map[string]int{}
	sort.Slice(rn.outcomes, func(i, j int) bool { return rn.outcomes[i].S.ID < rn.outcomes[j].S.ID })
	for _, oc := range rn.outcomes {
		S := oc.S
		evals++
		byMode[S.Mode+":"+S.Mix]++
		if oc.Obs == nil {
			fatals[oc.Fatal]++
			switch {
			case oc.Fatal == "deadlock" || (oc.Fatal != "crash" && oc.Shape != nil && oc.Shape.Cycle):
				key := oc.Shape.key()
				viol[key]++
				endKind := "run-ends-by-itself"
				if S.End == "stop" {
					endKind = "endless"
				}
				deadlockWhere[fmt.Sprintf("%s/%s/stops=%d/%s/cleanup=%s", S.Mode, endKind, S.Stops, S.Timing, S.Cleanup)]++
				r.Report(key, fmt.Sprintf("Run/Stop never return: Stop callers blocked at %v, Run at %v (%s; detected by: %s) [%s]",
					oc.Shape.AllStop, oc.Shape.AllRun, map[bool]string{true: "structural wait-for cycle", false: "all goroutines asleep in a timer-free child"}[oc.Fatal != "deadlock"], oc.Fatal, S.sig()),
					map[string]any{"scenario": S, "events": oc.Events, "shape": oc.Shape, "goroutine_dump": oc.Dump})
			case oc.Fatal == "stall" && nestedBoundaries(oc.Dump) >= nestedLimit:
				key := "C17:nested-context-not-stopped-by-close"
				viol[key]++
				r.Report(key, fmt.Sprintf("the outer run's cleanup is stuck in the nested resource's Close while the nested context passed %d label boundaries without being stopped [%s]", nestedBoundaries(oc.Dump), S.sig()),
					map[string]any{"scenario": S, "events": oc.Events, "goroutine_dump": oc.Dump})
			case oc.Fatal == "crash":
				key := "C17:child-crashed:" + keyPart(crashLine(oc.Dump))
				viol[key]++
				r.Report(key, fmt.Sprintf("process died while running the scenario (exit %d): %s [%s]", oc.ExitCode, crashLine(oc.Dump), S.sig()),
					map[string]any{"scenario": S, "events": oc.Events, "output_tail": oc.Dump})
			default:
				r.Inconclusive(fmt.Sprintf("%s without a logical deadlock criterion: %s", oc.Fatal, S.sig()))
			}
			if S.Stops > 0 || S.Mix != "locals" {
				distinct.Add(S.sig())
			}
			continue
		}
		o := *oc.Obs
		if S.Mode == "jit" && o.RunClass == "runaway" {
			r.Inconclusive("jit: endless archetype passed 2M label boundaries after the Stop callers announced their call (callers possibly descheduled): " + S.sig())
			continue
		}
		if o.GateMissed != "" {
			r.Inconclusive("gate " + o.GateMissed + " not reached: " + S.sig())
			continue
		}
		if o.Started {
			startedN++
		}
		stopsReturned += o.StopsReturned
		closesCounted += len(o.ClosesAtEnd)
		if S.Mode == "jit" {
			landing[o.StopLanding]++
		}
		for _, v := range evaluate(S, o, oc.Events) {
			viol[v.Key]++
			r.Report(v.Key, v.Desc, map[string]any{"scenario": S, "observation": o, "events": oc.Events})
		}
		if !o.Started && o.RunCalled || !o.RunCalled {
			for id, n := range o.ClosesAtEnd {
				if n > 0 {
					r.Note("observation: %s closed %d times although the run never started [%s]", id, n, S.sig())
				}
			}
		}
		if (o.Started && (S.Stops > 0 || S.Mix != "locals")) || (!o.Started && S.Stops > 0) {
			distinct.Add(S.sig())
		}
		samples.Add(map[string]any{"scenario": S, "observation": o, "events": oc.Events})
	}
	missing := len(det) + len(real) + len(jitPlain) + len(jitRace) - evals
	if missing > 0 {
		r.Inconclusive(fmt.Sprintf("%d scenarios produced no outcome", missing))
	}

	// ---- race reports (E7): decide only for races between Run and Stop on the context's run state
	raceSigs := map[string]int{}
	for _, rep := range rn.races {
		sig, runState := raceSignature(rep)
		raceSigs[sig]++
		if raceSigs[sig] > 1 {
			continue
		}
		if runState {
			r.Report("C17:race:run-state:"+keyPart(lineNo.ReplaceAllString(sig, "")), "data race between Run and Stop on MPCalContext run state: "+sig,
				map[string]any{"report": addrRe.ReplaceAllString(rep, "0x?"), "note": "reported for a batch of jit scenarios; re-run the tier to reproduce"})
		} else {
			r.Note("observation: data race outside the run state (not deciding): %s", sig)
		}
	}

	os.RemoveAll(dir)
	r.Finish(common.Coverage{
		Evaluations:        evals,
		DistinctNontrivial: distinct.Len(),
		Rule: "one evaluation = one scenario executed on a real MPCalContext in a child process; non-trivial = a started run with >= 1 Stop caller or a map/real resource mix, " +
			"or a never-started context with >= 1 Stop caller; distinct by (mode, mix, end cause, #Stop, timing, cleanup, second Run)",
		Samples:    samples.S,
		Exhaustive: true,
		Floor:      r.Pick(500, 800),
		Extra: map[string]any{
			"det_scenarios_enumerated":   len(det) + len(real),
			"jit_scenarios":              len(jitPlain),
			"jit_scenarios_under_race":   len(jitRace),
			"scenarios_by_mode_and_mix":  byMode,
			"child_processes":            rn.children,
			"runs_started":               startedN,
			"stop_calls_returned":        stopsReturned,
			"resource_instances_counted": closesCounted,
			"process_fatal_outcomes":     fatals,
			"jit_first_stop_landed":      landing,
			"violations_by_key_all":      viol,
			"deadlocks_by_position":      deadlockWhere,
			"race_reports":               len(rn.races),
			"race_signatures":            raceSigs,
			"exhaustive_scope":           "the det product over the small mixes (all combinations listed in the header); jit repetitions and real-resource mixes are samples",
			"nontermination_decided_by":  "Go runtime deadlock abort in timer-free children; structural wait-for cycle in the dump for tcp/fd/nested mixes; watchdog alone = inconclusive",
		},
	}, []string{
		"Stop positions are realised by parking Run's goroutine at H1 hook points / in a wrapper's Close until every Stop caller is parked inside Stop (goroutine states), i.e. only interleavings the program can have",
		"a second Run is accepted as rejected whether it panics or returns, provided it executes no loop iteration, no section, no commit and closes nothing again",
		"resources closed although the run never started are listed as observations only (the statement constrains started runs)",
		"HashMap elements are supplied by the configuration, IncMap elements are created by the fill function; both must be closed exactly once",
		"a section panic is not one of the statement's end causes; for it only Stop-returns and Close counts are judged (Run propagates the panic)",
	})
}

// nestedLimit: label boundaries (each at most one 5 ms input timeout apart) a nested context may pass while the outer
// cleanup waits in the nested resource's Close before the check says Close never asked it to stop. A counted-event
// criterion evaluated when the child gives up waiting.
const nestedLimit = 400

var nestedRe = regexp.MustCompile(`NESTED-BOUNDARIES-AFTER-CLOSE=(\d+)`)

func nestedBoundaries(dump string) int {
	m := nestedRe.FindStringSubmatch(dump)
	if m == nil {
		return 0
	}
	n := 0
	fmt.Sscan(m[1], &n)
	return n
}

func crashLine(out string) string {
	for _, l := range strings.Split(out, "\n") {
		if strings.HasPrefix(l, "panic:") || strings.HasPrefix(l, "fatal error:") {
			return addrRe.ReplaceAllString(firstLine(l), "0x?")
		}
	}
	return "no panic line"
}

// replay re-executes the stored scenario and re-runs the oracle.
func replay(r *common.Run, rn *runner, exe, raceExe string) {
	buf, err := os.ReadFile(r.Replay)
	if err != nil {
		fmt.Println("cannot read replay file:", err)
		os.Exit(3)
	}
	var rep struct {
		Key     string `json:"key"`
		Witness struct {
			Scenario *Scenario `json:"scenario"`
			Report   string    `json:"report"`
		} `json:"witness"`
	}
	if err := json.Unmarshal(buf, &rep); err != nil {
		fmt.Println("bad replay file:", err)
		os.Exit(3)
	}
	if rep.Witness.Scenario == nil {
		// a race report: re-evaluate the stored report
		sig, runState := raceSignature(rep.Witness.Report)
		if runState {
			r.Report(rep.Key, "stored race report is between Run and Stop: "+sig, map[string]any{"report": rep.Witness.Report})
		}
		os.RemoveAll(rn.dir)
		r.Finish(common.Coverage{Evaluations: 1, DistinctNontrivial: 1, Rule: "replay of a stored race report"}, nil)
		return
	}
	S := *rep.Witness.Scenario
	n := 1
	if S.Mode == "jit" {
		n = 200 // free-running: the same parameters, many schedules
	}
	var scs []Scenario
	for i := 0; i < n; i++ {
		s := S
		s.ID = i + 1
		scs = append(scs, s)
	}
	rn.runBatch(0, scs, exe, false)
	seen := map[string]bool{}
	for _, oc := range rn.outcomes {
		if oc.Obs == nil {
			if oc.Shape != nil && (oc.Fatal == "deadlock" || oc.Shape.Cycle) {
				if !seen[oc.Shape.key()] {
					seen[oc.Shape.key()] = true
					r.Report(oc.Shape.key(), "replayed: Run/Stop never return ("+oc.Fatal+") ["+oc.S.sig()+"]", map[string]any{"scenario": oc.S, "shape": oc.Shape, "goroutine_dump": oc.Dump})
				}
			} else if oc.Fatal == "crash" {
				r.Report("C17:child-crashed:"+keyPart(crashLine(oc.Dump)), "replayed: process died", map[string]any{"scenario": oc.S, "output_tail": oc.Dump})
			} else {
				r.Inconclusive(oc.Fatal)
			}
			continue
		}
		for _, v := range evaluate(oc.S, *oc.Obs, oc.Events) {
			if !seen[v.Key] {
				seen[v.Key] = true
				r.Report(v.Key, "replayed: "+v.Desc, map[string]any{"scenario": oc.S, "observation": oc.Obs, "events": oc.Events})
			}
		}
	}
	os.RemoveAll(rn.dir)
	r.Finish(common.Coverage{Evaluations: len(rn.outcomes), DistinctNontrivial: 1, Rule: "replay of one stored scenario"}, nil)
}

package main

import (
	"encoding/json"
	"errors"
	"fmt"
	"io"
	"log"
	"math/rand"
	"os"
	"runtime"
	"strings"
	"sync"
	"sync/atomic"
	"time"

	"github.com/DistCompiler/pgo/distsys"
	"github.com/DistCompiler/pgo/distsys/tla"
	"github.com/DistCompiler/pgo/distsys/trace"
)

// Scenario is one point of the enumerated product (mode det) or one free-running timing repetition (mode jit).
type Scenario struct {
	ID      int    `json:"id"`
	Mode    string `json:"mode"`    // det: positions realised with gates, full event log | jit: free-running goroutines, spin jitter
	Mix     string `json:"mix"`     // locals incmap0..3 hashmap tcp fd nested
	End     string `json:"end"`     // done stop assert errlabel reserr reserr-pc closeerr panic never
	Stops   int    `json:"stops"`   // number of concurrent Stop callers
	Timing  string `json:"timing"`  // none norun before section commit cleanup after | jit
	Cleanup string `json:"cleanup"` // instant gated
	Second  string `json:"second"`  // none after during
	Jitter  int64  `json:"jitter,omitempty"`
}

func (s Scenario) sig() string {
	return fmt.Sprintf("%s/%s/%s/stops=%d/%s/%s/second=%s", s.Mode, s.Mix, s.End, s.Stops, s.Timing, s.Cleanup, s.Second)
}

// Obs is what the child observed for one scenario.
type Obs struct {
	Kind          string         `json:"kind"` // "result"
	ID            int            `json:"id"`
	RunCalled     bool           `json:"run_called"`
	RunClass      string         `json:"run_class"` // nil assert fallthrough reserr closeerr panic:<msg> other:<msg>
	RunClasses    []string       `json:"run_classes"`
	Started       bool           `json:"started"` // the run got past its admission check (loop head / exit hook seen)
	FinalExecuted bool           `json:"final_executed"`
	StopsReturned int            `json:"stops_returned"`
	ClosesAtRet   map[string]int `json:"closes_at_run_return"`
	ClosesAtEnd   map[string]int `json:"closes_at_end"`
	SecondClass   string         `json:"second_class,omitempty"`
	LoopHeads2    int            `json:"second_loop_heads"`
	Bodies2       int            `json:"second_bodies"`
	Commits2      int            `json:"second_commits"`
	ClosesAfter2  map[string]int `json:"closes_after_second,omitempty"`
	LateCommit    bool           `json:"commit_after_stop_returned"`
	GateMissed    string         `json:"gate_missed,omitempty"`
	StopLanding   string         `json:"stop_landing,omitempty"` // jit: where the first Stop return fell
}

type lineWriter struct {
	mu sync.Mutex
	f  *os.File
}

func (w *lineWriter) write(rec any) {
	buf, err := json.Marshal(rec)
	if err != nil {
		buf = []byte(fmt.Sprintf(`{"kind":"encode-error","err":%q}`, err.Error()))
	}
	w.mu.Lock()
	w.f.Write(append(buf, '\n'))
	w.mu.Unlock()
}

func spin(n int) {
	for i := 0; i < n; i++ {
		runtime.Gosched()
	}
}

func classify(err error, panicked any) (string, []string) {
	if panicked != nil {
		return "panic:" + firstLine(fmt.Sprint(panicked)), nil
	}
	if err == nil {
		return "nil", []string{"nil"}
	}
	var cls []string
	if errors.Is(err, distsys.ErrAssertionFailed) {
		cls = append(cls, "assert")
	}
	if errors.Is(err, distsys.ErrProcedureFallthrough) {
		cls = append(cls, "fallthrough")
	}
	if errors.Is(err, errHard) {
		cls = append(cls, "reserr")
	}
	if errors.Is(err, errClose) {
		cls = append(cls, "closeerr")
	}
	if errors.Is(err, errRunaway) {
		return "runaway", nil
	}
	if len(cls) == 0 {
		return "other:" + firstLine(err.Error()), nil
	}
	return strings.Join(cls, "+"), cls
}

func firstLine(s string) string {
	if i := strings.Index(s, "\n"); i >= 0 {
		s = s[:i]
	}
	if len(s) > 160 {
		s = s[:160]
	}
	return s
}

func safeRun(ctx *distsys.MPCalContext) (err error, panicked any) {
	defer func() {
		if e := recover(); e != nil {
			panicked = e
		}
	}()
	return ctx.Run(), nil
}

// stallLimit only decides when the child gives up waiting in a mix that has timers or sockets (where the Go
// runtime's deadlock detector cannot fire); the verdict is taken from the goroutine dump, never from the expiry.
const stallLimit = 6 * time.Second

func stallExit(what string) {
	buf := make([]byte, 4<<20)
	n := runtime.Stack(buf, true)
	nb := 0
	if sc := current.Load(); sc != nil {
		nb = int(atomic.LoadInt32(&sc.nestedAfterClose))
	}
	fmt.Fprintf(os.Stderr, "\nSTALL-DUMP waiting for %s\nNESTED-BOUNDARIES-AFTER-CLOSE=%d\n%s\nSTALL-DUMP-END\n", what, nb, buf[:n])
	os.Exit(7)
}

// errAbandoned: the logical deadlock monitor has declared the scenario dead; its goroutines stay parked forever and
// the script moves on to the next scenario.
var errAbandoned = errors.New("scenario abandoned after logical deadlock")

// waitStr / wait block until ch yields. In timer-free mixes they are plain channel operations (plus the abandon
// channel the monitor uses), so that a deadlock of the code under test leaves every goroutine parked.
func (sc *scen) waitStr(ch <-chan string, alt <-chan struct{}, what string) (string, bool, error) {
	var stall <-chan time.Time
	if timered(sc.S.Mix) {
		stall = time.After(stallLimit)
	}
	select {
	case p := <-ch:
		return p, true, nil
	case <-alt:
		return "", false, nil
	case <-sc.abandon:
		return "", false, errAbandoned
	case <-stall:
		stallExit(what)
	}
	return "", false, nil
}

func (sc *scen) wait(ch <-chan struct{}, what string) error {
	var stall <-chan time.Time
	if timered(sc.S.Mix) {
		stall = time.After(stallLimit)
	}
	select {
	case <-ch:
		return nil
	case <-sc.abandon:
		return errAbandoned
	case <-stall:
		stallExit(what)
	}
	return nil
}

func goid() string {
	var b [64]byte
	n := runtime.Stack(b[:], false)
	f := strings.Fields(string(b[:n]))
	if len(f) > 1 {
		return f[1]
	}
	return "?"
}

type stoppers struct {
	sc       *scen
	wg       sync.WaitGroup
	launched int32
	returned int32
	mu       sync.Mutex
	ids      map[string]bool // goroutine ids of this scenario's Stop callers
}

func (st *stoppers) stopperDet(i int) {
	defer st.wg.Done()
	id := goid()
	st.mu.Lock()
	st.ids[id] = true
	st.mu.Unlock()
	st.sc.ev("stop-call", fmt.Sprint(i))
	st.sc.ctx.Stop()
	st.sc.ev("stop-ret", fmt.Sprint(i))
	atomic.AddInt32(&st.returned, 1)
}

func (st *stoppers) launch(n int) {
	for i := 0; i < n; i++ {
		st.wg.Add(1)
		atomic.AddInt32(&st.launched, 1)
		go st.stopperDet(i)
	}
}

// settle returns when every launched Stop caller has either returned or is parked inside Stop (on the lock, in the
// channel send or waiting for awaitExit) — a logical "they have all arrived", found by looking at goroutine states.
var settleBuf = make([]byte, 4<<20) // only used by the script goroutine

func (st *stoppers) settle() {
	buf := settleBuf
	pause := 10 * time.Microsecond
	for it := 0; ; it++ {
		atomic.AddInt64(&progress, 1)
		runtime.Gosched()
		if it > 2 { // be polite while the callers get on the CPU; the pause decides nothing
			time.Sleep(pause)
			if pause < time.Millisecond {
				pause *= 2
			}
		}
		n := runtime.Stack(buf, true)
		parkedN := 0
		st.mu.Lock()
		for _, g := range parseDump(string(buf[:n])) {
			if st.ids[g.ID] && g.has(ctxPrefix+"Stop") && parked(g.State) {
				parkedN++
			}
		}
		st.mu.Unlock()
		if int32(parkedN)+atomic.LoadInt32(&st.returned) >= atomic.LoadInt32(&st.launched) {
			return
		}
	}
}

func (st *stoppers) waitAll(what string) error {
	done := make(chan struct{})
	go func() { st.wg.Wait(); close(done) }()
	return st.sc.wait(done, what)
}

// installHooks is called once per child: the callbacks dispatch on the current scenario, so the global hook table is
// never rewritten while goroutines of an abandoned scenario may still be around.
func installHooks() {
	distsys.VerifHooks = distsys.VerifHookSet{
		LoopHead: func(ctx *distsys.MPCalContext, archetype string, self tla.Value, err error) {
			sc := current.Load()
			if sc != nil && archetype == "N" && atomic.LoadInt32(&sc.nestedCloseBegan) == 1 {
				// label boundaries the nested context passes while the outer cleanup is inside the nested resource's Close:
				// each one is a point where a Stop issued by that Close would have pre-empted it
				atomic.AddInt32(&sc.nestedAfterClose, 1)
			}
			if sc == nil || archetype != "A" || ctx != sc.ctx { // "A" = the context under test; nested contexts are "N"
				return
			}
			atomic.AddInt64(&progress, 1)
			if atomic.LoadInt32(&sc.second) == 1 {
				atomic.AddInt32(&sc.loopHeads2, 1)
				return
			}
			if sc.S.Mode == "jit" {
				if sc.loopHeads < len(sc.headSpin) {
					spin(sc.headSpin[sc.loopHeads])
				}
			}
			sc.loopHeads++
		},
		CommitPoint: func(ctx *distsys.MPCalContext, archetype string, self tla.Value, elems []trace.Element) {
			sc := current.Load()
			if sc == nil || archetype != "A" || ctx != sc.ctx { // "A" = the context under test; nested contexts are "N"
				return
			}
			if atomic.LoadInt32(&sc.second) == 1 {
				atomic.AddInt32(&sc.commits2, 1)
				return
			}
			if sc.S.Mode == "jit" {
				t := atomic.AddInt64(&sc.stamp, 1)
				if f := atomic.LoadInt64(&sc.firstStopRet); f != 0 && t > f {
					atomic.StoreInt64(&sc.lateCommit, t)
				}
				return
			}
			sc.ev("commit-point", "")
			if sc.lastWork {
				sc.arrive("commit")
			}
		},
		RunExit: func(ctx *distsys.MPCalContext, archetype string, self tla.Value, err error) {
			sc := current.Load()
			if sc == nil || archetype != "A" || ctx != sc.ctx { // "A" = the context under test; nested contexts are "N"
				return
			}
			atomic.StoreInt32(&sc.runExit, 1)
			sc.ev("run-exit-hook", "")
		},
	}
}

func (sc *scen) finishNested(o *Obs) {
	// a nested resource starts its contexts when it is constructed; if the outer run never started nobody closes
	// it, so the harness does (not part of any oracle)
	if sc.nestedRes != nil && !o.Started {
		func() {
			defer func() { recover() }()
			sc.nestedRes.Close()
		}()
	}
}

func (sc *scen) runDet() (o Obs, err error) {
	S := sc.S
	o = Obs{Kind: "result", ID: S.ID}
	sc.sections = 2
	sc.armed = map[string]bool{}
	sc.at = make(chan string)
	sc.resume = make(chan struct{})
	sc.build()
	st := &stoppers{sc: sc, ids: map[string]bool{}}
	sc.st = st

	if S.Timing == "before" || S.Timing == "norun" {
		st.launch(S.Stops)
		if err = st.waitAll("Stop callers before Run"); err != nil {
			return
		}
	}
	if S.Timing != "norun" {
		var gates []string
		switch S.Timing {
		case "section", "commit", "cleanup":
			gates = append(gates, S.Timing)
		}
		if S.Cleanup == "gated" && S.Timing != "cleanup" && S.Timing != "before" {
			gates = append(gates, "cleanup")
		}
		for _, g := range gates {
			sc.armed[g] = true
		}
		runDone := make(chan struct{})
		o.RunCalled = true
		var runClass string
		var runClasses []string
		var closesAtRet map[string]int
		go func() {
			sc.ev("run-call", "")
			err, p := safeRun(sc.ctx)
			runClass, runClasses = classify(err, p)
			closesAtRet = sc.closeCounts()
			sc.ev("run-ret", runClass)
			close(runDone)
		}()
		for _, g := range gates {
			p, ok, e := sc.waitStr(sc.at, runDone, "gate "+g)
			if e != nil {
				return o, e
			}
			if !ok {
				o.GateMissed = g // Run ended without reaching the position (never the case on the pinned tree)
				break
			}
			if p != g {
				o.GateMissed = g + " (got " + p + ")"
			}
			if p == S.Timing {
				if S.Second == "during" {
					if err = sc.secondRun(&o); err != nil {
						return
					}
				}
				st.launch(S.Stops)
			}
			if !(p == "cleanup" && S.Timing == "cleanup" && S.Cleanup == "instant") {
				st.settle()
			}
			atomic.StoreInt32(&sc.stopsSettled, 1)
			sc.resume <- struct{}{}
		}
		if err = sc.wait(runDone, "Run to return"); err != nil {
			return
		}
		o.RunClass, o.RunClasses, o.ClosesAtRet = runClass, runClasses, closesAtRet
		if S.Timing == "after" {
			st.launch(S.Stops)
		}
		if err = st.waitAll("Stop callers to return"); err != nil {
			return
		}
	}
	o.StopsReturned = int(atomic.LoadInt32(&st.returned))
	o.Started = sc.loopHeads > 0 || atomic.LoadInt32(&sc.runExit) == 1
	o.FinalExecuted = sc.finalExecuted
	o.ClosesAtEnd = sc.closeCounts()
	if S.Second == "after" {
		if err = sc.secondRun(&o); err != nil {
			return
		}
	}
	sc.finishNested(&o)
	return
}

// secondRun calls Run a second time. Section bodies executed by it return ErrDone immediately (so it ends even
// when the archetype loops forever); it is observed through the H1 hooks.
func (sc *scen) secondRun(o *Obs) error {
	sc.ev("run2-call", "")
	atomic.StoreInt32(&sc.second, 1)
	done := make(chan struct{})
	var cls string
	go func() {
		err, p := safeRun(sc.ctx)
		cls, _ = classify(err, p)
		close(done)
	}()
	if err := sc.wait(done, "second Run to return"); err != nil {
		return err
	}
	atomic.StoreInt32(&sc.second, 0)
	o.SecondClass = cls
	o.LoopHeads2 = int(atomic.LoadInt32(&sc.loopHeads2))
	o.Bodies2 = int(atomic.LoadInt32(&sc.bodies2))
	o.Commits2 = int(atomic.LoadInt32(&sc.commits2))
	o.ClosesAfter2 = sc.closeCounts()
	sc.ev("run2-ret", o.SecondClass)
	return nil
}

// runJit: Run and the Stop callers are released together and race freely; timing varies through PRNG-chosen
// amounts of yielding. Only counters (atomics) are shared with the code under test, no event log.
func (sc *scen) runJit() (o Obs, err error) {
	S := sc.S
	o = Obs{Kind: "result", ID: S.ID}
	rng := rand.New(rand.NewSource(S.Jitter))
	sc.sections = 3 + rng.Intn(10)
	sc.bodySpin = rng.Intn(4)
	for i := 0; i < 64; i++ {
		sc.headSpin = append(sc.headSpin, rng.Intn(3))
	}
	if S.Cleanup == "gated" {
		sc.closeSpin = 50 + rng.Intn(400)
	}
	horizon := 40 * (sc.sections + 2)
	runDelay := 0
	if rng.Intn(4) == 0 {
		runDelay = rng.Intn(60)
	}
	delays := make([]int, S.Stops)
	base := rng.Intn(horizon)
	for i := range delays {
		switch rng.Intn(3) {
		case 0:
			delays[i] = base // a burst
		case 1:
			delays[i] = base + rng.Intn(20)
		default:
			delays[i] = rng.Intn(horizon)
		}
	}
	sc.build()
	start := make(chan struct{})
	var wg sync.WaitGroup
	var returned int32
	for i := 0; i < S.Stops; i++ {
		wg.Add(1)
		d := delays[i]
		go func() {
			defer wg.Done()
			<-start
			spin(d)
			atomic.AddInt32(&sc.stopsCalling, 1)
			sc.ctx.Stop()
			t := atomic.AddInt64(&sc.stamp, 1)
			atomic.CompareAndSwapInt64(&sc.firstStopRet, 0, t)
			atomic.AddInt32(&returned, 1)
		}()
	}
	o.RunCalled = true
	var runClass string
	var runClasses []string
	var closesAtRet map[string]int
	wg.Add(1)
	go func() {
		defer wg.Done()
		<-start
		spin(runDelay)
		err, p := safeRun(sc.ctx)
		runClass, runClasses = classify(err, p)
		closesAtRet = sc.closeCounts()
	}()
	close(start)
	done := make(chan struct{})
	go func() { wg.Wait(); close(done) }()
	if err = sc.wait(done, "Run and Stop callers to return"); err != nil {
		return
	}
	o.RunClass, o.RunClasses, o.ClosesAtRet = runClass, runClasses, closesAtRet
	o.StopsReturned = int(returned)
	o.Started = sc.loopHeads > 0 || atomic.LoadInt32(&sc.runExit) == 1
	o.FinalExecuted = sc.finalExecuted
	o.ClosesAtEnd = sc.closeCounts()
	o.LateCommit = atomic.LoadInt64(&sc.lateCommit) != 0
	switch {
	case !o.Started:
		o.StopLanding = "before-run"
	case o.FinalExecuted || S.Stops == 0:
		o.StopLanding = "after-last-section"
	default:
		o.StopLanding = "mid-run"
	}
	sc.finishNested(&o)
	return
}

// ---------------------------------------------------------------------------------------------
// logical deadlock monitor
//
// The Go runtime's own "all goroutines are asleep" abort never fires in this binary: it links cgo (through package
// net, pulled in by distsys/resources, and through -race), and the runtime does not run its detector in cgo
// programs. The monitor evaluates the same criterion on a stop-the-world snapshot of all goroutines
// (runtime.Stack(all)): in a scenario whose code uses no timers, sockets or syscalls (the small mixes), if at one
// instant every goroutine of the program except the monitor is parked in a channel / mutex / wait-group operation,
// no event can ever wake any of them. The monitor's own sleep only decides when the snapshot is taken.
// ---------------------------------------------------------------------------------------------

var monitorOn int32
var progress int64 // bumped by every harness event; the monitor only looks at goroutine states when it stands still
var abandonedN int32
var current atomic.Pointer[scen]

func userGoroutine(g gor) bool {
	for _, f := range g.Frames {
		if strings.HasPrefix(f, "main.") || strings.Contains(f, "github.com/DistCompiler/") {
			return true
		}
	}
	return false
}

// asleepSnapshot returns (fingerprint, dump) if every user goroutine except the monitor is parked, else ("", "").
func asleepSnapshot(buf []byte) (string, string) {
	n := runtime.Stack(buf, true)
	dump := string(buf[:n])
	var fp []string
	users := 0
	for _, g := range parseDump(dump) {
		if !userGoroutine(g) || g.has("main.monitor") {
			continue
		}
		users++
		if !parked(g.State) {
			return "", ""
		}
		fp = append(fp, g.State+"@"+strings.Join(g.Frames, "<"))
	}
	if users == 0 {
		return "", ""
	}
	return strings.Join(fp, "|"), dump
}

func monitor() {
	buf := make([]byte, 4<<20)
	lastProgress := int64(-1)
	for {
		time.Sleep(2 * time.Millisecond)
		if atomic.LoadInt32(&monitorOn) == 0 {
			continue
		}
		if p := atomic.LoadInt64(&progress); p != lastProgress {
			lastProgress = p
			continue
		}
		fp1, _ := asleepSnapshot(buf)
		if fp1 == "" {
			continue
		}
		// confirm on a second snapshot (same goroutines, same positions); not needed for soundness, cheap insurance
		spin(100)
		time.Sleep(5 * time.Millisecond)
		if atomic.LoadInt32(&monitorOn) == 0 {
			continue
		}
		fp2, dump := asleepSnapshot(buf)
		if fp2 != fp1 {
			continue
		}
		// declare the scenario dead: record the snapshot, let the script abandon it (its goroutines stay parked
		// forever, which keeps the criterion sound for later scenarios) and go on
		sc := current.Load()
		atomic.StoreInt32(&monitorOn, 0)
		atomic.AddInt32(&abandonedN, 1)
		sc.out.write(map[string]any{"kind": "deadlock", "id": sc.S.ID, "dump": dump})
		select {
		case sc.abandon <- struct{}{}:
		case <-time.After(5 * time.Second): // the script itself is stuck inside the code under test: give the process up
			fmt.Fprintf(os.Stderr, "\nLOGICAL-DEADLOCK: all goroutines are asleep (timer-free scenario)\n%s\nLOGICAL-DEADLOCK-END\n", dump)
			os.Exit(8)
		}
	}
}

// childMain: argv = <scenario-file> <out-file> [<first-index>]
func childMain() {
	log.SetOutput(io.Discard)
	args := os.Args[1:]
	var scs []Scenario
	buf, err := os.ReadFile(args[0])
	if err != nil {
		panic(err)
	}
	if err := json.Unmarshal(buf, &scs); err != nil {
		panic(err)
	}
	f, err := os.OpenFile(args[1], os.O_APPEND|os.O_CREATE|os.O_WRONLY, 0o644)
	if err != nil {
		panic(err)
	}
	out := &lineWriter{f: f}
	first := 0
	if len(args) > 2 {
		fmt.Sscan(args[2], &first)
	}
	installHooks()
	go monitor()
	for i := first; i < len(scs); i++ {
		S := scs[i]
		out.write(map[string]any{"kind": "begin", "id": S.ID, "index": i})
		sc := &scen{S: S, out: out, abandon: make(chan struct{})}
		current.Store(sc)
		var o Obs
		var err error
		if !timered(S.Mix) {
			atomic.StoreInt32(&monitorOn, 1)
		}
		if S.Mode == "jit" {
			o, err = sc.runJit()
		} else {
			o, err = sc.runDet()
		}
		atomic.StoreInt32(&monitorOn, 0)
		if err == nil {
			out.write(o)
		}
		if atomic.LoadInt32(&abandonedN) >= 40 && i+1 < len(scs) {
			// the parked goroutines of abandoned scenarios make every goroutine snapshot longer: start afresh
			out.write(map[string]any{"kind": "recycle", "next": i + 1})
			f.Close()
			os.Exit(0)
		}
	}
	out.write(map[string]any{"kind": "end"})
	f.Close()
}

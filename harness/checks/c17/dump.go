package main

import (
	"sort"
	"strings"
)

// goroutine dump parsing: used by the child (are all Stop callers parked?) and by the parent (what is the
// wait-for shape of a deadlocked child?).

type gor struct {
	ID     string   // goroutine number
	State  string   // "chan receive", "chan send", "sync.Mutex.Lock", "running", ...
	Frames []string // function names, innermost first
	Ctx    string   // receiver pointer of the (*MPCalContext).Run / .Stop frame, if any ("" if unknown)
}

func parseDump(dump string) []gor {
	var out []gor
	var cur *gor
	for _, line := range strings.Split(dump, "\n") {
		if strings.HasPrefix(line, "goroutine ") && strings.HasSuffix(strings.TrimSpace(line), "]:") {
			i := strings.Index(line, "[")
			j := strings.LastIndex(line, "]")
			st := line[i+1 : j]
			if k := strings.Index(st, ","); k >= 0 { // "chan receive, 2 minutes"
				st = st[:k]
			}
			id := ""
			if f := strings.Fields(line); len(f) > 1 {
				id = f[1]
			}
			out = append(out, gor{ID: id, State: strings.TrimSpace(st)})
			cur = &out[len(out)-1]
			continue
		}
		if cur == nil {
			continue
		}
		if line == "" {
			cur = nil
			continue
		}
		if strings.HasPrefix(line, "\t") || strings.HasPrefix(line, " ") {
			continue // file:line
		}
		fn := line
		if strings.HasPrefix(fn, "created by ") {
			continue
		}
		if k := strings.LastIndex(fn, "("); k > 0 { // strip argument list
			args := strings.TrimSuffix(fn[k+1:], ")")
			fn = fn[:k]
			if strings.HasSuffix(fn, ctxPrefix+"Run") || strings.HasSuffix(fn, ctxPrefix+"Stop") {
				if a := strings.TrimSpace(strings.SplitN(args, ",", 2)[0]); strings.HasPrefix(a, "0x") {
					cur.Ctx = a
				}
			}
		}
		cur.Frames = append(cur.Frames, fn)
	}
	return out
}

func (g gor) has(sub string) bool {
	for _, f := range g.Frames {
		if strings.Contains(f, sub) {
			return true
		}
	}
	return false
}

const ctxPrefix = "distsys.(*MPCalContext)."

// innermostCtxFrame returns the innermost MPCalContext method the goroutine is in (e.g. "Stop.func1").
func (g gor) innermostCtxFrame() string {
	for _, f := range g.Frames {
		if i := strings.Index(f, ctxPrefix); i >= 0 {
			return f[i+len(ctxPrefix):]
		}
	}
	return ""
}

func parked(state string) bool {
	switch state {
	// plain "semacquire" is deliberately absent: it is the state of a goroutine waiting for a runtime-internal
	// semaphore (e.g. a runtime.Stack caller waiting for the world to be stopped by another caller)
	case "chan receive", "chan send", "sync.Mutex.Lock", "select", "sync.WaitGroup.Wait", "sync.RWMutex.Lock", "sync.RWMutex.RLock", "sync.Cond.Wait",
		"chan receive (nil chan)", "chan send (nil chan)", "select (no cases)":
		return true
	}
	return false
}

// deadlockShape condenses a goroutine dump of a deadlocked child into the wait-for shape among Run and Stop:
// where the Stop callers are blocked (the most specific position wins: a caller blocked in the channel send holds
// runStateLock, callers waiting for that lock or for awaitExit are consequences) and where Run is blocked.
type shape struct {
	Stop    string   `json:"stop"`
	Run     string   `json:"run"`
	AllStop []string `json:"all_stop_positions"`
	AllRun  []string `json:"all_run_positions"`
	Cycle   bool     `json:"structural_cycle"` // Stop in chan send (holding the lock) and Run past its loop (epilogue or returned)
}

func deadlockShape(dump string) shape {
	gs := parseDump(dump)
	// with nested contexts several contexts appear in one dump: look at the context of a Stop caller that is
	// blocked in the channel send, if there is one
	focus := ""
	for _, g := range gs {
		if g.State == "chan send" && strings.HasPrefix(g.innermostCtxFrame(), "Stop") && g.Ctx != "" {
			focus = g.Ctx
			break
		}
	}
	stopSet := map[string]bool{}
	runSet := map[string]bool{}
	for _, g := range gs {
		fr := g.innermostCtxFrame()
		if fr == "" {
			continue
		}
		if focus != "" && g.Ctx != "" && g.Ctx != focus {
			continue
		}
		pos := fr + "@" + g.State
		if g.has(ctxPrefix + "Run") {
			runSet[pos] = true
		} else if g.has(ctxPrefix + "Stop") {
			stopSet[pos] = true
		}
	}
	sh := shape{Stop: "none", Run: "none"}
	for k := range stopSet {
		sh.AllStop = append(sh.AllStop, k)
	}
	for k := range runSet {
		sh.AllRun = append(sh.AllRun, k)
	}
	sort.Strings(sh.AllStop)
	sort.Strings(sh.AllRun)
	for _, want := range []string{"@chan send", "@sync.Mutex.Lock", "@chan receive"} {
		found := false
		for _, k := range sh.AllStop {
			if strings.HasSuffix(k, want) {
				sh.Stop = k
				found = true
				break
			}
		}
		if found {
			break
		}
	}
	if sh.Stop == "none" && len(sh.AllStop) > 0 {
		sh.Stop = sh.AllStop[0]
	}
	if len(sh.AllRun) > 0 {
		sh.Run = strings.Join(sh.AllRun, "+")
	}
	// Structural wait-for cycle, valid also when timers or network pollers keep the runtime detector quiet:
	// a Stop caller blocked in `requestExit <-` holds runStateLock (the send is inside the locked region); the only
	// receiver is the poll at Run's loop head; if no goroutine is inside Run's loop any more (Run waits for the lock in
	// its epilogue, or has returned) nobody will ever receive.
	if strings.HasSuffix(sh.Stop, "@chan send") {
		inLoop := false
		for _, k := range sh.AllRun {
			if !strings.HasPrefix(k, "Run.func") { // closures of Run = prologue/epilogue; "Run@", "commit@", "cleanupResources@" ... = still working
				inLoop = true
			}
		}
		sh.Cycle = !inLoop
	}
	return sh
}

func (s shape) key() string {
	return "C17:deadlock:stop=" + s.Stop + ":run=" + s.Run
}

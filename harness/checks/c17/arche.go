package main

import (
	"errors"
	"fmt"
	"net"
	"sync"
	"sync/atomic"
	"time"

	"github.com/DistCompiler/pgo/distsys"
	"github.com/DistCompiler/pgo/distsys/hashmap"
	"github.com/DistCompiler/pgo/distsys/resources"
	"github.com/DistCompiler/pgo/distsys/tla"
)

// ---------------------------------------------------------------------------------------------
// wrapper resources: forward every call to a real resource, count Close per instance
// ---------------------------------------------------------------------------------------------

var errRunaway = errors.New("c17: archetype still running many label boundaries after Stop was called")

func runawayLimit(S Scenario) int {
	if S.Mode == "jit" {
		return 2000000 // the callers are only known to be about to call Stop
	}
	return 2000 // det: every caller is known to be parked inside Stop
}

var errHard = errors.New("c17: injected resource hard error")
var errClose = errors.New("c17: injected Close error")

type wrap struct {
	sc     *scen
	id     string // "v", "m", "m[0]", "f", "n", "n/in", ...
	kind   string // configured | incmap-element | hashmap-element | nested-configured
	outer  bool   // bound in (or element of a resource bound in) the context under test, closed from its Run goroutine
	inner  distsys.ArchetypeResource
	closes int32
	fault  string // "", "read", "precommit", "close"
}

var _ distsys.ArchetypeResource = &wrap{}

func (w *wrap) Abort(iface distsys.ArchetypeInterface) chan struct{} { return w.inner.Abort(iface) }
func (w *wrap) PreCommit(iface distsys.ArchetypeInterface) chan error {
	if w.fault == "precommit" {
		ch := make(chan error, 1)
		ch <- errHard
		return ch
	}
	return w.inner.PreCommit(iface)
}
func (w *wrap) Commit(iface distsys.ArchetypeInterface) chan struct{} { return w.inner.Commit(iface) }
func (w *wrap) ReadValue(iface distsys.ArchetypeInterface) (tla.Value, error) {
	if w.fault == "read" {
		return tla.Value{}, errHard
	}
	return w.inner.ReadValue(iface)
}
func (w *wrap) WriteValue(iface distsys.ArchetypeInterface, v tla.Value) error {
	return w.inner.WriteValue(iface, v)
}
func (w *wrap) Index(iface distsys.ArchetypeInterface, idx tla.Value) (distsys.ArchetypeResource, error) {
	return w.inner.Index(iface, idx)
}
func (w *wrap) Close() error {
	n := atomic.AddInt32(&w.closes, 1)
	w.sc.closeCalled(w, n)
	if w.sc.S.Mix == "nested" && w.id == "m" {
		atomic.StoreInt32(&w.sc.nestedCloseBegan, 1)
	}
	err := w.inner.Close()
	atomic.StoreInt32(&w.sc.nestedCloseBegan, 0)
	if atomic.LoadInt32(&w.sc.second) == 0 {
		w.sc.ev("close-done", w.id) // (6): Stop may only return after this event of every resource of a started run
	}
	if w.fault == "close" {
		return errClose
	}
	return err
}

// ---------------------------------------------------------------------------------------------
// the scenario at run time
// ---------------------------------------------------------------------------------------------

type scen struct {
	S   Scenario
	ctx *distsys.MPCalContext
	out *lineWriter

	mu    sync.Mutex // guards wraps, seq (+ the event file in det mode)
	wraps []*wrap
	seq   int64

	// det mode gates (armed is written by the script before Run starts, afterwards only touched by Run's goroutine)
	armed  map[string]bool
	at     chan string
	resume chan struct{}

	sections int // number of work iterations before the final label (end=stop: unbounded)

	// written by Run's goroutine, read by the script after Run returned
	finalExecuted bool
	lastWork      bool
	loopHeads     int
	second        int32 // atomic: 1 while the second Run call is in progress
	loopHeads2    int32
	bodies2       int32
	commits2      int32

	// jit mode
	stamp        int64 // atomic logical clock
	firstStopRet int64 // atomic: stamp of the first Stop return (0 = none)
	lateCommit   int64 // atomic: stamp of a commit point taken after a Stop return was stamped
	headSpin     []int
	closeSpin    int
	bodySpin     int
	runExit      int32 // atomic: RunExit hook fired

	abandon      chan struct{}
	st           *stoppers
	stopsSettled int32 // det: every Stop caller has arrived inside Stop
	stopsCalling int32 // jit: number of Stop callers that are about to call Stop
	sinceStop    int   // label boundaries passed by an endless archetype after that

	nestedCloseBegan int32 // the outer cleanup is inside the nested resource's Close
	nestedAfterClose int32 // label boundaries the nested context passed meanwhile

	nestedRes distsys.ArchetypeResource // mix nested: to shut the nested contexts down if the outer run never started
	cleanup   []func()
}

func (sc *scen) newWrap(id, kind string, outer bool, inner distsys.ArchetypeResource) *wrap {
	w := &wrap{sc: sc, id: id, kind: kind, outer: outer, inner: inner}
	sc.mu.Lock()
	sc.wraps = append(sc.wraps, w)
	sc.mu.Unlock()
	return w
}

// ev records an event in the scenario's sequence log (det mode only).
func (sc *scen) ev(kind, who string) {
	if sc.S.Mode != "det" {
		return
	}
	atomic.AddInt64(&progress, 1)
	sc.mu.Lock()
	sc.seq++
	sc.out.write(map[string]any{"kind": "ev", "id": sc.S.ID, "seq": sc.seq, "ev": kind, "who": who})
	sc.mu.Unlock()
}

// arrive parks Run's goroutine at a gate point until the script resumes it.
func (sc *scen) arrive(p string) {
	if sc.armed[p] {
		sc.armed[p] = false
		sc.at <- p
		<-sc.resume
	}
}

func (sc *scen) closeCalled(w *wrap, n int32) {
	if sc.S.Mode == "det" {
		sc.ev("close", w.id)
		if w.outer && atomic.LoadInt32(&sc.second) == 0 {
			sc.arrive("cleanup")
		}
		return
	}
	if w.outer {
		spin(sc.closeSpin)
	}
}

func (sc *scen) closeCounts() map[string]int {
	sc.mu.Lock()
	defer sc.mu.Unlock()
	m := map[string]int{}
	for _, w := range sc.wraps {
		m[w.kind+":"+w.id] = int(atomic.LoadInt32(&w.closes))
	}
	return m
}

func num(i int) tla.Value { return tla.MakeNumber(int32(i)) }

func freePort() string {
	l, err := net.Listen("tcp", "127.0.0.1:0")
	if err != nil {
		panic(err)
	}
	addr := l.Addr().String()
	l.Close()
	return addr
}

// mixElems: how many map elements the work section touches for the scenario's mix.
func mixElems(mix string) int {
	switch mix {
	case "incmap1":
		return 1
	case "incmap2":
		return 2
	case "incmap3":
		return 3
	case "hashmap":
		return 1
	case "tcp":
		return 2
	case "fd":
		return 1
	}
	return 0
}

func timered(mix string) bool { return mix == "tcp" || mix == "fd" || mix == "nested" }

// build constructs the context under test with wrapped resources according to the mix.
func (sc *scen) build() {
	S := sc.S
	name := "A"
	cfg := []distsys.MPCalContextConfigFn{
		distsys.EnsureArchetypeRefParam("v", sc.newWrap("v", "configured", true, distsys.NewLocalArchetypeResource(num(0)))),
	}
	refs := []string{name + ".v"}
	fault := ""
	switch S.End {
	case "reserr":
		fault = "read"
	case "reserr-pc":
		fault = "precommit"
	case "closeerr":
		fault = "close"
	}
	if fault != "" {
		f := sc.newWrap("f", "configured", true, distsys.NewLocalArchetypeResource(num(0)))
		f.fault = fault
		cfg = append(cfg, distsys.EnsureArchetypeRefParam("f", f))
		refs = append(refs, name+".f")
	}
	iface0 := distsys.NewMPCalContextWithoutArchetype().IFace()
	switch {
	case len(S.Mix) >= 6 && S.Mix[:6] == "incmap":
		m := resources.NewIncMap(func(idx tla.Value) distsys.ArchetypeResource {
			return sc.newWrap(fmt.Sprintf("m[%v]", idx), "incmap-element", true, distsys.NewLocalArchetypeResource(num(0)))
		})
		cfg = append(cfg, distsys.EnsureArchetypeRefParam("m", sc.newWrap("m", "configured", true, m)))
		refs = append(refs, name+".m")
	case S.Mix == "hashmap":
		hm := hashmap.New[distsys.ArchetypeResource]()
		for i := 0; i < 2; i++ {
			hm.Set(num(i), sc.newWrap(fmt.Sprintf("m[%d]", i), "hashmap-element", true, distsys.NewLocalArchetypeResource(num(0))))
		}
		cfg = append(cfg, distsys.EnsureArchetypeRefParam("m", sc.newWrap("m", "configured", true, resources.NewHashMap(hm))))
		refs = append(refs, name+".m")
	case S.Mix == "tcp":
		addr := freePort()
		// the real mailboxes resource is used as a factory of real local/remote mailbox elements, which are then
		// wrapped and managed by a real IncMap (the same arrangement as inside NewTCPMailboxes)
		factory := resources.NewTCPMailboxes(func(idx tla.Value) (resources.MailboxKind, string) {
			if idx.AsNumber() == 0 {
				return resources.MailboxesLocal, addr
			}
			return resources.MailboxesRemote, addr
		}, resources.WithMailboxesReadTimeout(30*time.Millisecond), resources.WithMailboxesDialTimeout(300*time.Millisecond))
		m := resources.NewIncMap(func(idx tla.Value) distsys.ArchetypeResource {
			el, err := factory.Index(iface0, idx)
			if err != nil {
				panic(err)
			}
			return sc.newWrap(fmt.Sprintf("m[%v]", idx), "incmap-element", true, el)
		})
		// realise the local mailbox now, so that the listener exists before the first write to the remote end
		if _, err := m.Index(iface0, num(0)); err != nil {
			panic(err)
		}
		cfg = append(cfg, distsys.EnsureArchetypeRefParam("m", sc.newWrap("m", "configured", true, m)))
		refs = append(refs, name+".m")
	case S.Mix == "fd":
		addr := freePort() // nobody listens: the detector keeps polling and reporting "failed"
		m := resources.NewIncMap(func(idx tla.Value) distsys.ArchetypeResource {
			el := resources.NewSingleFailureDetector(idx, addr,
				resources.WithFailureDetectorPullInterval(5*time.Millisecond), resources.WithFailureDetectorTimeout(50*time.Millisecond))
			return sc.newWrap(fmt.Sprintf("m[%v]", idx), "incmap-element", true, el)
		})
		cfg = append(cfg, distsys.EnsureArchetypeRefParam("m", sc.newWrap("m", "configured", true, m)))
		refs = append(refs, name+".m")
	case S.Mix == "nested":
		nres := resources.NewNested(func(sendCh chan<- tla.Value, receiveCh <-chan tla.Value) []*distsys.MPCalContext {
			return []*distsys.MPCalContext{
				distsys.NewMPCalContext(tla.MakeString("inner"), nestedArchetype(),
					distsys.EnsureArchetypeRefParam("in", sc.newWrap("n/in", "nested-configured", false, resources.NewInputChan(receiveCh, resources.WithInputChanReadTimeout(5*time.Millisecond)))),
					distsys.EnsureArchetypeRefParam("out", sc.newWrap("n/out", "nested-configured", false, resources.NewOutputChan(sendCh))),
					distsys.EnsureArchetypeRefParam("val", sc.newWrap("n/val", "nested-configured", false, distsys.NewLocalArchetypeResource(num(0)))),
				),
			}
		})
		sc.nestedRes = nres
		cfg = append(cfg, distsys.EnsureArchetypeRefParam("m", sc.newWrap("m", "configured", true, nres)))
		refs = append(refs, name+".m")
	}
	sc.ctx = distsys.NewMPCalContext(tla.MakeString("self"), sc.archetype(name, refs), cfg...)
}

var kTpe = tla.MakeString("tpe")
var kValue = tla.MakeString("value")

// nestedArchetype is a hand-built archetype speaking the nested-resource protocol (one label, one request per section).
func nestedArchetype() distsys.MPCalArchetype {
	ack := func(tpe string, fields ...tla.RecordField) tla.Value {
		return tla.MakeRecord(append(fields, tla.RecordField{Key: kTpe, Value: tla.MakeString(tpe)}))
	}
	body := func(iface distsys.ArchetypeInterface) error {
		in, err := iface.RequireArchetypeResourceRef("N.in")
		if err != nil {
			return err
		}
		out, err := iface.RequireArchetypeResourceRef("N.out")
		if err != nil {
			return err
		}
		val, err := iface.RequireArchetypeResourceRef("N.val")
		if err != nil {
			return err
		}
		req, err := iface.Read(in, nil)
		if err != nil {
			return err
		}
		var resp tla.Value
		switch req.ApplyFunction(kTpe).AsString() {
		case "read_req":
			v, err := iface.Read(val, nil)
			if err != nil {
				return err
			}
			resp = ack("read_ack", tla.RecordField{Key: kValue, Value: v})
		case "write_req":
			if err := iface.Write(val, nil, req.ApplyFunction(kValue)); err != nil {
				return err
			}
			resp = ack("write_ack")
		case "precommit_req":
			resp = ack("precommit_ack")
		case "commit_req":
			resp = ack("commit_ack")
		case "abort_req":
			resp = ack("abort_ack")
		default:
			return fmt.Errorf("nested: unknown request %v", req)
		}
		if err := iface.Write(out, nil, resp); err != nil {
			return err
		}
		return iface.Goto("N.loop")
	}
	return distsys.MPCalArchetype{Name: "N", Label: "N.loop",
		RequiredRefParams: []string{"N.in", "N.out", "N.val"},
		JumpTable: distsys.MakeMPCalJumpTable(
			distsys.MPCalCriticalSection{Name: "N.loop", Body: body},
			distsys.MPCalCriticalSection{Name: "N.Done", Body: func(distsys.ArchetypeInterface) error { return distsys.ErrDone }}),
		ProcTable: distsys.MakeMPCalProcTable(), PreAmble: func(distsys.ArchetypeInterface) {}}
}

// archetype builds the archetype under test following the code generator's conventions.
//
//	A.work  : touch every resource of the mix; i := i+1; goto A.work while i < sections, then goto the final label
//	final   : A.Done (ErrDone) | A.assert (wrapped ErrAssertionFailed) | A.Error (ErrProcedureFallthrough) |
//	          A.res (reads the fault resource) | A.respc (writes the fault resource; its PreCommit fails) | A.panic
//	end=stop: A.work forever
func (sc *scen) archetype(name string, refs []string) distsys.MPCalArchetype {
	S := sc.S
	final := map[string]string{"done": "Done", "closeerr": "Done", "assert": "assert", "errlabel": "Error", "reserr": "res",
		"reserr-pc": "respc", "panic": "panic", "stop": "work", "never": "Done"}[S.End]
	finalLabel := name + "." + final
	second := func(iface distsys.ArchetypeInterface) bool {
		if atomic.LoadInt32(&sc.second) == 1 {
			atomic.AddInt32(&sc.bodies2, 1)
			return true
		}
		return false
	}
	atFinal := func() {
		sc.ev("final-section", final)
		sc.finalExecuted = true
		sc.arrive("section")
	}
	work := func(iface distsys.ArchetypeInterface) error {
		if second(iface) {
			return distsys.ErrDone
		}
		spin(sc.bodySpin)
		iv := iface.ReadArchetypeResourceLocal(name + ".i")
		i := int(iv.AsNumber())
		sc.ev("body", fmt.Sprintf("work#%d", i))
		if S.End == "stop" && i == 1 {
			atFinal() // the section a Stop interrupts
		}
		if S.End == "stop" && (atomic.LoadInt32(&sc.stopsSettled) == 1 || (S.Mode == "jit" && int(atomic.LoadInt32(&sc.stopsCalling)) == S.Stops)) {
			// an endless archetype must be pre-empted at a label boundary once Stop was called; count the boundaries
			sc.sinceStop++
			if sc.sinceStop > runawayLimit(S) {
				sc.ev("runaway", fmt.Sprint(sc.sinceStop))
				return errRunaway
			}
		}
		v, err := iface.RequireArchetypeResourceRef(name + ".v")
		if err != nil {
			return err
		}
		old, err := iface.Read(v, nil)
		if err != nil {
			return err
		}
		if err := iface.Write(v, nil, tla.ModulePlusSymbol(old, num(1))); err != nil {
			return err
		}
		if n := mixElems(S.Mix); n > 0 || S.Mix == "nested" {
			m, err := iface.RequireArchetypeResourceRef(name + ".m")
			if err != nil {
				return err
			}
			switch S.Mix {
			case "tcp": // element 0 = local mailbox, element 1 = remote mailbox to the same address
				if i >= 1 {
					if _, err := iface.Read(m, []tla.Value{num(0)}); err != nil {
						return err
					}
				}
				if err := iface.Write(m, []tla.Value{num(1)}, num(i)); err != nil {
					return err
				}
			case "fd":
				if _, err := iface.Read(m, []tla.Value{num(7)}); err != nil {
					return err
				}
			case "nested":
				if err := iface.Write(m, nil, num(i)); err != nil {
					return err
				}
				if _, err := iface.Read(m, nil); err != nil {
					return err
				}
			default:
				for e := 0; e < n; e++ {
					if err := iface.Write(m, []tla.Value{num(e)}, num(i)); err != nil {
						return err
					}
				}
			}
		}
		ih := iface.RequireArchetypeResource(name + ".i")
		if err := iface.Write(ih, nil, num(i+1)); err != nil {
			return err
		}
		if S.End == "stop" {
			sc.lastWork = i == 1
			return iface.Goto(name + ".work")
		}
		if i+1 < sc.sections {
			return iface.Goto(name + ".work")
		}
		sc.lastWork = true
		return iface.Goto(finalLabel)
	}
	fin := func(f func(iface distsys.ArchetypeInterface) error) func(distsys.ArchetypeInterface) error {
		return func(iface distsys.ArchetypeInterface) error {
			if second(iface) {
				return distsys.ErrDone
			}
			atFinal()
			return f(iface)
		}
	}
	jt := distsys.MakeMPCalJumpTable(
		distsys.MPCalCriticalSection{Name: name + ".work", Body: work},
		distsys.MPCalCriticalSection{Name: name + ".Done", Body: fin(func(distsys.ArchetypeInterface) error { return distsys.ErrDone })},
		distsys.MPCalCriticalSection{Name: name + ".assert", Body: fin(func(distsys.ArchetypeInterface) error {
			return fmt.Errorf("%w: (i) = (0)", distsys.ErrAssertionFailed)
		})},
		distsys.MPCalCriticalSection{Name: name + ".Error", Body: fin(func(distsys.ArchetypeInterface) error { return distsys.ErrProcedureFallthrough })},
		distsys.MPCalCriticalSection{Name: name + ".res", Body: fin(func(iface distsys.ArchetypeInterface) error {
			f, err := iface.RequireArchetypeResourceRef(name + ".f")
			if err != nil {
				return err
			}
			if _, err := iface.Read(f, nil); err != nil {
				return err
			}
			return iface.Goto(name + ".Done")
		})},
		distsys.MPCalCriticalSection{Name: name + ".respc", Body: fin(func(iface distsys.ArchetypeInterface) error {
			f, err := iface.RequireArchetypeResourceRef(name + ".f")
			if err != nil {
				return err
			}
			if err := iface.Write(f, nil, num(1)); err != nil {
				return err
			}
			return iface.Goto(name + ".Done")
		})},
		distsys.MPCalCriticalSection{Name: name + ".panic", Body: fin(func(distsys.ArchetypeInterface) error { panic("c17: injected section panic") })},
	)
	return distsys.MPCalArchetype{Name: name, Label: name + ".work", RequiredRefParams: refs, JumpTable: jt,
		ProcTable: distsys.MakeMPCalProcTable(),
		PreAmble: func(iface distsys.ArchetypeInterface) {
			iface.EnsureArchetypeResourceLocal(name+".i", num(0))
		}}
}

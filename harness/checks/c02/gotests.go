package main

import (
	"fmt"
	"math/rand"
	"sort"
	"strings"
	"sync"
	"time"

	"verifh/adapters"
	"verifh/common"
)

func hashName(s string) int64 {
	var h int64 = 1469598103
	for _, c := range []byte(s) {
		h = h*1099511 + int64(c)
	}
	return h & 0x7fffffff
}

func labelUniverse(sim *adapters.Sim) map[string]bool {
	out := map[string]bool{}
	for _, p := range sim.Sched.Procs {
		for name := range p.Arch.JumpTable {
			if !strings.HasSuffix(name, ".Done") {
				out[name] = true
			}
		}
	}
	return out
}

// runGotests validates the compiler test pairs. Reference artefact: the checked-in `.expectpcal` (output of PGo's
// MPCal->PlusCal pass) translated to TLA+ by the installed pcal at run time, into scratch. Every recorded step is
// checked on its own by TLC against the action of the label the process was at, with the pre-state pinned as the
// initial state and every variable of the successor pinned (adapters.GotestsValidateBatch), the first state against
// Init, and the way a Go run ended (assertion, evaluation panic) against what the artefact does in the last state.
// Pure operators (ExprTests and every define block) are compared value by value through TLC.
func runGotests(r *common.Run, scratch string, facs []adapters.Factory, stats map[string]*pairStats, samples *common.SampleKeeper, perPair int) int {
	adapters.GotestsSetScratch(scratch)
	var gfacs []adapters.Factory
	for _, f := range facs {
		if strings.HasPrefix(f.Name, "gotests/") {
			gfacs = append(gfacs, f)
		}
	}
	runsPer := r.Pick(3, 24)
	type ran struct {
		seed int64
		sim  *adapters.Sim
		out  adapters.Outcome
	}
	runs := map[string][]ran{}
	never := map[string][]string{}
	universe := map[string]map[string]bool{}
	evals := 0
	for _, f := range gfacs {
		universe[f.Name] = map[string]bool{}
		for i := 0; i < runsPer; i++ {
			s := r.Seed*1_000_003 + int64(i)
			rng := rand.New(rand.NewSource(s ^ hashName(f.Name)))
			sim := f.New(s, true, rng)
			x := adapters.GotestsExtraOf(sim)
			if x == nil || x.Spec == nil || x.Spec.Err != nil {
				why := "factory did not return a gotests sim"
				if x != nil && x.Spec != nil && x.Spec.Err != nil {
					why = x.Spec.Err.Error()
				}
				r.Inconclusive(fmt.Sprintf("%s: artefact not usable: %s", f.Name, why))
				break
			}
			for l := range labelUniverse(sim) {
				universe[f.Name][l] = true
			}
			for _, rep := range x.Spec.Repairs {
				r.Note("%s: artefact repaired in scratch before it would load: %s", f.Name, rep)
			}
			out := adapters.GotestsRun(sim, sim.MaxSteps, true)
			runs[f.Name] = append(runs[f.Name], ran{s, sim, out})
			evals++
			stats[f.Name].Runs++
			for l, c := range out.Labels {
				stats[f.Name].Labels[l] += c
			}
		}
	}
	var mu sync.Mutex
	common.Parallel(len(gfacs), r.Pick(5, 10), func(k int) {
		f := gfacs[k]
		rs := runs[f.Name]
		if len(rs) == 0 {
			return
		}
		var cases []adapters.GotestsCase
		for _, x := range rs {
			cases = append(cases, adapters.GotestsCase{Sim: x.sim, Out: x.out})
		}
		reps, _ := adapters.GotestsValidateBatch(scratch, cases, 20*time.Minute)
		mu.Lock()
		defer mu.Unlock()
		st := stats[f.Name]
		for i, rep := range reps {
			sim, out, s := rs[i].sim, rs[i].out, rs[i].seed
			st.TracesSubmitted++
			if rep.FullyAccepted {
				st.TracesAccepted++
			}
			st.StatesValidated += rep.StepsAccepted
			for l := range rep.LabelsAccepted {
				st.Shapes[l] = true
			}
			for _, in := range rep.Inconclusive {
				st.Inconclusive++
				r.Inconclusive(fmt.Sprintf("%s seed=%d: %s", f.Name, s, in))
			}
			for _, n := range rep.HarnessNotes {
				r.Note("%s: %s", f.Name, n)
			}
			for _, rej := range rep.Rejections {
				st.Rejected++
				r.Report(rej.Key, fmt.Sprintf("%s: %s at step %d (%s): the generated Go and the PlusCal artefact disagree", f.Name, rej.Kind, rej.At, rej.Step),
					map[string]any{"pair": f.Name, "seed": s, "params": sim.Params, "steps": out.StepLog, "rejection": rej})
			}
			if i == 0 {
				samples.Add(map[string]any{"pair": f.Name, "seed": s, "params": sim.Params, "steps_recorded": rep.StepsRecorded, "steps_accepted": rep.StepsAccepted, "end": rep.EndAgreement, "first_steps": head(out.StepLog, 10)})
			}
		}
		var nv []string
		for l := range universe[f.Name] {
			if st.Labels[l] == 0 {
				nv = append(nv, l)
			}
		}
		sort.Strings(nv)
		never[f.Name] = nv
	})
	for n, nv := range never {
		if len(nv) > 0 {
			r.Note("%s: labels never committed: %v", n, nv)
		}
	}
	for pair, why := range adapters.GotestsPairsWithoutSteps {
		r.Note("%s: nothing to run: %s", pair, why)
	}
	// operators
	ops := runOperatorPairs(scratch, r.Seed, r.Tier, false)
	for _, o := range ops {
		name := "operators/" + o.Pair
		st := &pairStats{Labels: map[string]int{}, Shapes: map[string]bool{}}
		stats[name] = st
		st.Runs = o.Compared
		st.TracesSubmitted, st.TracesAccepted, st.StatesValidated = o.Compared, o.Agree+o.BothError, o.Agree+o.BothError
		evals += o.Compared
		for i := 0; i < o.Operators; i++ {
			st.Shapes[fmt.Sprintf("op%d", i)] = true
		}
		for _, in := range o.Inconclusive {
			st.Inconclusive++
			r.Inconclusive(name + ": " + in)
		}
		for _, n := range o.Notes {
			r.Note("%s: %s", name, n)
		}
		for k, ms := range o.Mismatch {
			st.Rejected += len(ms)
			r.Report(k, fmt.Sprintf("%s: Go operator and TLC disagree: %s", name, ms[0]), map[string]any{"pair": name, "mismatches": ms})
		}
	}
	return evals
}

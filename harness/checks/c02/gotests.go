package main

import (
	"verifh/adapters"
	"verifh/common"
)

// runGotests validates the compiler test pairs (reference artefact: the .expectpcal translated by pcal) — wired
// in once the gotests adapters are complete.
func runGotests(r *common.Run, scratch string, facs []adapters.Factory, stats map[string]*pairStats, samples *common.SampleKeeper, perPair int) int {
	return 0
}

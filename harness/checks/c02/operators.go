package main

// Operator comparison for the pure-operator pairs (general/ExprTests and the define blocks): Go `Op(iface, args…)`
// against TLC's value of `Op(args…)` in the context of the (translated) artefact, compared through TLA+ text:
// TLC evaluates `LET v == Op(args) IN <<v, (GoPrintedValue) = v>>`. Where the Go panics (TLA+ type error,
// CASE without matching arm, …) TLC must raise an error as well; those are evaluated one expression per TLC
// process because TLC has no catch.

import (
	"fmt"
	"math/rand"
	"sort"
	"strings"
	"sync"
	"time"

	"verifh/adapters"
	"verifh/common"
	"verifh/tlc"

	"github.com/DistCompiler/pgo/distsys"
	"github.com/DistCompiler/pgo/distsys/tla"
)

type opStat struct {
	Pair         string
	Operators    int
	Compared     int
	Agree        int
	BothError    int
	Skipped      int
	SkipWhy      map[string]string
	Mismatch     map[string][]string
	Inconclusive []string
	Repairs      []string
	Samples      []string
	TLCCalls     int
	Notes        []string
}

type opCase struct {
	op                  string
	args                []tla.Value
	tlaCall             string // Op(args) as TLA+ text
	goVal               string // printed value ("" if the Go panicked)
	goErr               string
	compare, compareWhy string
}

func callGo(op adapters.GotestsOp, iface distsys.ArchetypeInterface, args []tla.Value) (val string, errStr string) {
	defer func() {
		if r := recover(); r != nil {
			errStr = fmt.Sprint(r)
			if errStr == "" {
				errStr = "panic"
			}
		}
	}()
	return op.Call(iface, args).String(), ""
}

func runOperatorPairs(scratch string, seed int64, tier string, verbose bool) []*opStat {
	byPair := map[string]*opStat{}
	var order []string
	var mu sync.Mutex
	for _, pr := range adapters.GotestsOperatorPairs() {
		st := byPair[pr.Pair]
		if st == nil {
			st = &opStat{Pair: pr.Pair, SkipWhy: map[string]string{}, Mismatch: map[string][]string{}}
			byPair[pr.Pair] = st
			order = append(order, pr.Pair)
			st.Operators = len(pr.Ops)
			for k, v := range pr.Skipped {
				st.SkipWhy[k] = v
				st.Skipped++
			}
		}
		sp := adapters.GotestsArtefact(pr.Pair)
		if sp.Err != nil {
			st.Inconclusive = append(st.Inconclusive, "artefact not usable: "+sp.Err.Error())
			continue
		}
		st.Repairs = sp.Repairs
		ctx := distsys.NewMPCalContextWithoutArchetype(pr.Config...)
		var cases []opCase
		for _, op := range pr.Ops {
			argSets := [][]tla.Value{nil}
			if op.Arity > 0 {
				argSets = op.Args()
			}
			for _, args := range argSets {
				c := opCase{op: op.Name, args: args, tlaCall: op.Name, compare: op.Compare, compareWhy: op.CompareWhy}
				if len(args) > 0 {
					var as []string
					for _, a := range args {
						as = append(as, "("+a.String()+")")
					}
					c.tlaCall += "(" + strings.Join(as, ", ") + ")"
				}
				c.goVal, c.goErr = callGo(op, ctx.IFace(), args)
				cases = append(cases, c)
			}
		}
		pairName := strings.TrimPrefix(strings.TrimPrefix(pr.Pair, "general/"), "gogen/")
		report := func(c opCase, class, detail string) {
			key := fmt.Sprintf("C02:%s:operator:%s:%s", pairName, c.op, class)
			mu.Lock()
			st.Mismatch[key] = append(st.Mismatch[key], fmt.Sprintf("%s with constants %v: %s", c.tlaCall, pr.Constants, detail))
			mu.Unlock()
		}
		eval := func(exprs []string) ([]string, string, error) {
			mu.Lock()
			st.TLCCalls++
			mu.Unlock()
			return tlc.Eval(scratch, tlc.EvalJob{SpecFiles: sp.Files, Module: sp.WrapModule, Constants: pr.Constants, Exprs: exprs, Timeout: 4 * time.Minute})
		}
		// (1) cases where the Go returned a value: one batch, restarted after every expression TLC cannot evaluate
		var normal, failing []opCase
		for _, c := range cases {
			if c.goErr == "" {
				normal = append(normal, c)
			} else {
				failing = append(failing, c)
			}
		}
		for len(normal) > 0 {
			exprs := make([]string, len(normal))
			for i, c := range normal {
				cmp := "(VERIFGO) = verifv"
				if c.compare != "" {
					cmp = c.compare
				}
				exprs[i] = fmt.Sprintf("LET verifv == %s IN <<verifv, %s>>", c.tlaCall, strings.ReplaceAll(cmp, "VERIFGO", c.goVal))
			}
			res, raw, err := eval(exprs)
			if err != nil {
				st.Inconclusive = append(st.Inconclusive, "tlc eval: "+err.Error())
				break
			}
			next := -1
			for i, r := range res {
				c := normal[i]
				if r == "" {
					// TLC stopped here: evaluation error in Op(args) or in the comparison
					report(c, "go-evaluates-tlc-errors", fmt.Sprintf("go = %s; tlc: %s", c.goVal, tlcErrOp(raw)))
					st.Compared++
					next = i + 1
					break
				}
				st.Compared++
				r = strings.TrimSuffix(strings.TrimSpace(r), ">>")
				if strings.HasSuffix(r, "TRUE") {
					st.Agree++
					if c.compare != "" && !strings.HasPrefix(r, "<<"+c.goVal+",") {
						st.Notes = append(st.Notes, fmt.Sprintf("%s: compared with the weaker relation the operator's definition allows (%s): go = %s; tlc = %s", c.tlaCall, c.compareWhy, c.goVal, strings.TrimSuffix(strings.TrimPrefix(r, "<<"), ", TRUE")))
					}
					if len(st.Samples) < 6 {
						st.Samples = append(st.Samples, fmt.Sprintf("%s = %s", c.tlaCall, c.goVal))
					}
				} else {
					report(c, "value-differs", fmt.Sprintf("go = %s; tlc <<value, equal>> = %s", c.goVal, r))
				}
			}
			if next < 0 {
				break
			}
			normal = normal[next:]
		}
		// (2) cases where the Go panicked: TLC must fail to evaluate too; one TLC process each
		// (quick tier: a seeded sample of at most 3 per pair — each costs a TLC start-up)
		if tier != "thorough" && len(failing) > 3 {
			rng := rand.New(rand.NewSource(seed + int64(len(failing))))
			rng.Shuffle(len(failing), func(i, j int) { failing[i], failing[j] = failing[j], failing[i] })
			st.Notes = append(st.Notes, fmt.Sprintf("quick tier: %d of %d cases in which the Go operator fails were compared with TLC", 3, len(failing)))
			failing = failing[:3]
		}
		common.Parallel(len(failing), 6, func(i int) {
			c := failing[i]
			res, raw, err := eval([]string{c.tlaCall})
			mu.Lock()
			defer mu.Unlock()
			if err != nil {
				st.Inconclusive = append(st.Inconclusive, "tlc eval: "+err.Error())
				return
			}
			st.Compared++
			if res[0] == "" && strings.Contains(raw, "Error:") {
				st.BothError++
				if verbose {
					fmt.Printf("  both fail: %s  go: %s | tlc: %s\n", c.tlaCall, c.goErr, tlcErrOp(raw))
				}
				return
			}
			mu.Unlock()
			report(c, "go-panics-tlc-evaluates", fmt.Sprintf("go panic: %s; tlc = %s", c.goErr, res[0]))
			mu.Lock()
		})
	}
	sort.Strings(order)
	var out []*opStat
	for _, p := range order {
		out = append(out, byPair[p])
	}
	return out
}

// tlcErr extracts the first error message of a TLC run.
func tlcErrOp(raw string) string {
	i := strings.Index(raw, "Error:")
	if i < 0 {
		if len(raw) > 300 {
			return raw[len(raw)-300:]
		}
		return raw
	}
	s := raw[i:]
	if len(s) > 400 {
		s = s[:400]
	}
	return strings.Join(strings.Fields(s), " ")
}

// C02 — generated Go takes exactly the steps its MPCal/PlusCal spec prescribes.
//
// For every spec/Go pair with an adapter the real generated archetypes run one attempt at a time over harness
// resources that implement the spec's mapping macros exactly; every committed step changes the exact global
// state s -> s', and the recorded sequence of states is handed to TLC, which decides for every consecutive pair
// whether it is a step of the shipped translation's Next with every variable of s' pinned (so a spurious extra
// write is caught as well as a missing one, a wrong next label, a wrong message, a step the spec disables).
// TLC never explores: it is an evaluator over the recorded trace.
package main

import (
	"errors"
	"fmt"
	"os"
	"sort"
	"strings"
	"sync"
	"time"

	"verifh/adapters"
	"verifh/common"
	"verifh/simsched"

	"github.com/DistCompiler/pgo/distsys"
)

type pairStats struct {
	Runs, TracesSubmitted, TracesAccepted, StatesValidated int
	Rejected, AssertVerdicts, Inconclusive                 int
	Labels                                                 map[string]int
	Shapes                                                 map[string]bool
	GoAssertions                                           int
}

func main() {
	r := common.Start("C02", "exploration")
	if r.Replay != "" {
		replay(r)
		return
	}
	scratch := common.Scratch("c02")
	defer os.RemoveAll(scratch)
	defer adapters.CleanupGenerated()
	var mu sync.Mutex
	var samples common.SampleKeeper
	samples.N = 6
	facs := adapters.Factories("c02")
	stats := map[string]*pairStats{}
	type job struct {
		f   adapters.Factory
		idx int
	}
	var jobs []job
	perPair := r.Pick(2, 30)
	for _, f := range facs {
		stats[f.Name] = &pairStats{Labels: map[string]int{}, Shapes: map[string]bool{}}
		n := perPair
		// (raftkvs: consecutive job seeds alternate between harness cells and the production LocalShared/IncMap
		// binding of the plain variables, so two jobs cover both)
		if strings.HasPrefix(f.Name, "gotests/") {
			continue // handled by the step-wise validator below
		}
		for i := 0; i < n; i++ {
			jobs = append(jobs, job{f, i})
		}
	}
	evals := 0
	// the compiler test pairs are validated concurrently with the system pairs (both are dominated by TLC start-up)
	gstats := map[string]*pairStats{}
	for n, st := range stats {
		if strings.HasPrefix(n, "gotests/") {
			gstats[n] = st
		}
	}
	gdone := make(chan int, 1)
	go func() { gdone <- runGotests(r, scratch, facs, gstats, &samples, perPair) }()
	common.Parallel(len(jobs), r.Pick(6, 12), func(k int) {
		j := jobs[k]
		seed := r.Seed*9_000_011 + int64(k)
		rng := r.Rand(fmt.Sprintf("c02-%s-%d", j.f.Name, j.idx))
		sim := j.f.New(seed, true, rng)
		// schedule diversity: uniform, or PCT-style bursts starving one process at a time
		if j.idx%2 == 1 {
			s := sim.Sched
			base := s.Eligible
			var victim *simsched.Proc
			until := 0
			s.Eligible = func(p *simsched.Proc, step int) bool {
				if base != nil && !base(p, step) {
					return false
				}
				if step >= until {
					victim = s.Procs[s.Rng.Intn(len(s.Procs))]
					until = step + 3 + s.Rng.Intn(25)
				}
				return p != victim || len(s.Procs) == 1
			}
		}
		maxSteps := sim.MaxSteps
		if maxSteps == 0 || maxSteps > 400 {
			maxSteps = 400
		}
		mon := sim.Monitor
		sim.Monitor = nil // C02 decides on Next membership; invariant monitors belong to C08/C14/C15/C16
		_ = mon
		out := sim.Run(maxSteps, true)
		st := stats[j.f.Name]
		mu.Lock()
		evals++
		st.Runs++
		for l, c := range out.Labels {
			st.Labels[l] += c
		}
		goAssert := out.Result.Err != nil && !out.Result.MonitorErr
		if goAssert {
			st.GoAssertions++
		}
		mu.Unlock()
		if len(out.States) < 2 {
			mu.Lock()
			if goAssert {
				r.Report("C02:"+j.f.Name+":go-error-before-first-step", fmt.Sprintf("%s: %v", j.f.Name, out.Result.Err), map[string]any{"pair": j.f.Name, "params": sim.Params, "seed": seed})
			}
			mu.Unlock()
			return
		}
		v := sim.Validate(scratch, out.States, 10*time.Minute)
		mu.Lock()
		defer mu.Unlock()
		st.TracesSubmitted++
		wit := map[string]any{"pair": j.f.Name, "params": sim.Params, "seed": seed, "schedule": j.idx % 2, "job_index": j.idx, "steps": out.StepLog}
		switch v.Kind {
		case "ok":
			st.TracesAccepted++
			st.StatesValidated += len(out.States)
			for _, sl := range out.StepLog {
				st.Shapes[sl[strings.Index(sl, "@")+1:]] = true
			}
			if goAssert {
				// the Go run ended with an error although every recorded step is a spec step: the failing attempt
				// itself is not in the trace; compare with the spec by asking TLC for one more step from the last state
				probe := append(append([]string{}, out.States...), out.States[len(out.States)-1])
				pv := sim.Validate(scratch, probe, 10*time.Minute)
				if pv.Kind != "assert" {
					wit["go_error"] = out.Result.Err.Error()
					wit["last_state"] = out.States[len(out.States)-1]
					r.Report("C02:"+j.f.Name+":go-fails-where-spec-does-not", fmt.Sprintf("%s: Go ended with %v in a state from which the spec raises no assertion (TLC: %s)", j.f.Name, out.Result.Err, pv.Kind), wit)
				}
			}
		case "step":
			st.Rejected++
			at := v.RejectedAt
			wit["rejected_at"] = at
			wit["state_before"] = out.States[min(at-1, len(out.States)-1)]
			wit["state_after"] = out.States[min(at, len(out.States)-1)]
			lbl := "?"
			if at-1 < len(out.StepLog) {
				lbl = out.StepLog[at-1]
			}
			r.Report("C02:"+j.f.Name+":step-not-in-Next:"+lbl[strings.Index(lbl, "@")+1:], fmt.Sprintf("%s: step %d (%s) of a recorded run is not a step of the shipped spec's Next", j.f.Name, at, lbl), wit)
		case "init":
			st.Rejected++
			wit["state"] = out.States[0]
			r.Report("C02:"+j.f.Name+":initial-state-not-Init", fmt.Sprintf("%s: the initial state of the Go system does not satisfy the spec's Init", j.f.Name), wit)
		case "assert":
			// TLC found an assertion-violating transition enabled in a visited state (not necessarily taken by Go):
			// that is a statement about the spec beyond its model-checked bounds, not about the translation
			st.AssertVerdicts++
			r.Note("%s: TLC reports a reachable spec assertion failure from a visited state (seed %d); trace not counted", j.f.Name, seed)
		case "invariant":
			st.Inconclusive++ // invariants are not C02's subject
			r.Note("%s: invariant %s false on a visited state (seed %d) — see the owning property's check", j.f.Name, v.Invariant, seed)
		default:
			st.Inconclusive++
			r.Inconclusive(fmt.Sprintf("%s: tlc %s: %s", j.f.Name, v.Kind, tailStr(v.Detail, 300)))
		}
		if k < 6 {
			samples.Add(map[string]any{"pair": j.f.Name, "params": sim.Params, "seed": seed, "commits": out.Result.Steps, "tlc": v.Kind, "first_steps": head(out.StepLog, 15)})
		}
	})

	// "a step the spec disables never commits" also means it leaves no trace: raftkvs with the production binding of
	// its plain per-server variables (real LocalShared managers behind IncMaps, as bootstrap/server.go wires them);
	// after every ABORTED attempt the real resources must equal the last committed spec state. No TLC needed.
	abortRuns := r.Pick(8, 80)
	abortAttempts := 0
	common.Parallel(abortRuns, 8, func(i int) {
		seed := r.Seed*4_000_037 + int64(i)
		rng := r.Rand(fmt.Sprintf("c02-abort-%d", i))
		o := adapters.RaftOpts{NS: 2 + rng.Intn(2), NC: 1 + rng.Intn(2), BufferSize: 2 + rng.Intn(2), FIFO: true, Exact: false, Keys: 1,
			BiasFD: 5, BiasLeaderTimeout: 4, BiasClientTimeout: 10, CrashAfter: 1 << 30, RealShared: true}
		rs := adapters.Raftkvs(seed, o)
		rs.Sim.Monitor = nil
		out := rs.Run(700, false)
		mu.Lock()
		defer mu.Unlock()
		evals++
		abortAttempts += out.Result.Aborts
		for _, v := range out.Violations {
			r.Report(v.Key, v.Desc, map[string]any{"pair": "raftkvs", "opts": o, "seed": seed, "steps": out.StepLog})
		}
		if out.Result.Err != nil && !out.Result.MonitorErr {
			if errors.Is(out.Result.Err, distsys.ErrAssertionFailed) {
				// whether the spec asserts in the same state is decided by the TLC-validated traces, not in this pass
				// (under the spec's bag network an overtaken AppendEntriesResponse trips the spec's own assertion)
				r.Note("raftkvs real-shared run (seed %d) ended with a spec assertion: %v", seed, out.Result.Err)
			} else {
				r.Report("C02:raftkvs:go-error-in-real-shared-run", out.Result.Err.Error(), map[string]any{"pair": "raftkvs", "opts": o, "seed": seed, "steps": out.StepLog})
			}
		}
	})
	stats["raftkvs"].Runs += abortRuns
	evals += <-gdone
	for n, st := range gstats {
		stats[n] = st
	}

	// evidence
	distinct := 0
	per := map[string]any{}
	var without []string
	names := make([]string, 0, len(stats))
	for n := range stats {
		names = append(names, n)
	}
	sort.Strings(names)
	for _, n := range names {
		st := stats[n]
		distinct += len(st.Shapes)
		per[n] = map[string]any{"runs": st.Runs, "traces_submitted": st.TracesSubmitted, "traces_accepted": st.TracesAccepted, "states_validated": st.StatesValidated,
			"rejected": st.Rejected, "spec_assertion_reachable": st.AssertVerdicts, "inconclusive": st.Inconclusive, "labels_committed": st.Labels, "distinct_labels_validated": len(st.Shapes)}
	}
	for _, p := range []string{"raftres/raft", "raftres/kv"} {
		without = append(without, p)
	}
	r.Finish(common.Coverage{
		Evaluations:        evals,
		DistinctNontrivial: distinct,
		Rule:               "one evaluation = one recorded run of a spec/Go pair under a seeded schedule, validated step by step by TLC against the shipped translation; distinct_nontrivial = number of distinct (pair, archetype label) whose committed steps TLC accepted as steps of Next",
		Samples:            samples.S,
		Floor:              10,
		Extra:              map[string]any{"pairs": per, "pairs_without_adapter": without, "raftkvs_real_shared_runs": abortRuns, "raftkvs_aborted_attempts_checked_for_no_effect": abortAttempts},
	}, []string{
		"harness resources implement each spec's mapping macros; a wrong adapter shows up as a TLC rejection (harness bug), so acceptance also validates the adapters",
		"TLC is used as an evaluator of (s, s') in Next over recorded states only",
		"pairs without an adapter are not claimed: " + strings.Join(without, ", "),
	})
}

func head(s []string, n int) []string {
	if len(s) > n {
		return s[:n]
	}
	return s
}

func tailStr(s string, n int) string {
	if len(s) > n {
		return s[len(s)-n:]
	}
	return s
}

// replay rebuilds the stored case of a system pair (factory, seed, job index determine configuration and schedule),
// re-runs it and asks TLC again. Compiler-test-pair witnesses carry the rejected step with both states; they are
// re-validated by re-running the check with the same VERIF_SEED.
func replay(r *common.Run) {
	key, _, wit, err := r.LoadReplay()
	if err != nil {
		fmt.Println("cannot read replay file:", err)
		os.Exit(3)
	}
	name, _ := wit["pair"].(string)
	seedF, _ := wit["seed"].(float64)
	idxF, ok := wit["job_index"].(float64)
	if !ok || strings.HasPrefix(name, "gotests/") || strings.HasPrefix(name, "operators/") {
		fmt.Println("stored witness (state pair / mismatch) is in the replay file; re-run `./vcheck C02 quick` with the same VERIF_SEED to re-execute it")
		r.FinishReplay(key)
	}
	scratch := common.Scratch("c02r")
	defer os.RemoveAll(scratch)
	defer adapters.CleanupGenerated()
	for _, f := range adapters.Factories("c02") {
		if f.Name != name {
			continue
		}
		rng := r.Rand(fmt.Sprintf("c02-%s-%d", f.Name, int(idxF)))
		sim := f.New(int64(seedF), true, rng)
		sim.Monitor = nil
		maxSteps := sim.MaxSteps
		if maxSteps == 0 || maxSteps > 400 {
			maxSteps = 400
		}
		out := sim.Run(maxSteps, true)
		if len(out.States) < 2 {
			break
		}
		v := sim.Validate(scratch, out.States, 10*time.Minute)
		if v.Kind == "step" || v.Kind == "init" {
			r.Report(key, fmt.Sprintf("%s: TLC again rejects the re-executed run (%s at %d)", name, v.Kind, v.RejectedAt), map[string]any{"pair": name, "seed": int64(seedF), "job_index": int(idxF), "steps": out.StepLog, "rejected_at": v.RejectedAt})
		}
	}
	r.FinishReplay(key)
}

package main

// secdrv — generated critical-section programs on real MPCalContexts (DESIGN §2 E1).
//
// A program is a list of labels; a label is a straight-line list of ops. The archetype is built by hand
// following the code generator's conventions (labels "A.l<i>", ref parameters reached through
// RequireArchetypeResourceRef, Goto at the end of a section, ErrDone at "A.Done") and runs under the real
// MPCalContext.Run, so commit(), abort(), dirty-handle tracking and retries are the code under test.

import (
	"errors"
	"fmt"
	"math/rand"
	"sort"
	"strings"
	"sync"
	"time"

	"github.com/DistCompiler/pgo/distsys"
	"github.com/DistCompiler/pgo/distsys/tla"
	"github.com/DistCompiler/pgo/distsys/trace"
)

type Op struct {
	Kind string `json:"k"`              // read | write | choice | await
	Res  string `json:"r,omitempty"`    // resource instance
	Idx  []int  `json:"i,omitempty"`    // index path
	From int    `json:"from,omitempty"` // 1+index of an earlier op of the label whose read value is used (write: value written; await: value tested); 0 = none
	Hint int    `json:"h,omitempty"`    // kind-specific variation
	Alts []Op   `json:"alts,omitempty"` // choice alternatives
}

type Label struct {
	Ops []Op `json:"ops"`
}

type Program struct {
	ID     int      `json:"id"`
	Res    []string `json:"res"` // resource instances bound to the archetype
	Labels []Label  `json:"labels"`
}

type Fault struct {
	Kind   string `json:"kind"` // none | op | await | starve | slowres | pc | pcslow | pcdelay | mappc | mappcslow
	Label  int    `json:"label"`
	Pos    int    `json:"pos"`
	Repeat int    `json:"repeat"`
	Pos2   int    `json:"pos2,omitempty"` // Repeat == 2: the second consecutive failure is a refused operation before op Pos2 (<= Pos)
}

func (f Fault) String() string {
	if f.Kind == "none" {
		return "none"
	}
	if f.Repeat == 2 {
		return fmt.Sprintf("%s@l%d.%d then op@l%d.%d", f.Kind, f.Label, f.Pos, f.Label, f.Pos2)
	}
	return fmt.Sprintf("%s@l%d.%d", f.Kind, f.Label, f.Pos)
}

func (o Op) shape() string {
	switch o.Kind {
	case "choice":
		var a []string
		for _, x := range o.Alts {
			a = append(a, x.shape())
		}
		return "either(" + strings.Join(a, "|") + ")"
	case "await":
		return fmt.Sprintf("await(#%d)", o.From)
	}
	s := o.Kind[:1] + ":" + o.Res + fmtIdx(o.Idx)
	if o.From > 0 {
		s += fmt.Sprintf("<-#%d", o.From)
	}
	if o.Hint != 0 {
		s += fmt.Sprintf("~%d", o.Hint)
	}
	return s
}

func (p Program) shape() string {
	var ls []string
	for _, l := range p.Labels {
		var os []string
		for _, o := range l.Ops {
			os = append(os, o.shape())
		}
		ls = append(ls, strings.Join(os, ";"))
	}
	return strings.Join(ls, " || ")
}

// ---------------------------------------------------------------- generation

// genProgram draws a program over a random mix of the available resource instances.
func genProgram(rng *rand.Rand, id int, avail []string, protos map[string]*resInst) Program {
	// resource mix: 2..6 instances; sub-instances of one group come together often
	n := 2 + rng.Intn(5)
	perm := rng.Perm(len(avail))
	var res []string
	for _, i := range perm {
		if len(res) >= n {
			break
		}
		res = append(res, avail[i])
	}
	sort.Strings(res)
	p := Program{ID: id, Res: res}
	nl := 1 + rng.Intn(4)
	for l := 0; l < nl; l++ {
		var lab Label
		no := 1 + rng.Intn(6)
		loudSent := false
		for k := 0; k < no; k++ {
			op := genOp(rng, res, protos, lab.Ops, loudSent, true)
			if op.Kind == "" {
				continue
			}
			if opIsLoud(op, protos) {
				loudSent = true
			}
			lab.Ops = append(lab.Ops, op)
		}
		if len(lab.Ops) == 0 {
			lab.Ops = append(lab.Ops, genOp(rng, res, protos, nil, false, false))
		}
		p.Labels = append(p.Labels, lab)
	}
	return p
}

func opIsLoud(op Op, protos map[string]*resInst) bool {
	if op.Kind == "choice" {
		for _, a := range op.Alts {
			if opIsLoud(a, protos) {
				return true
			}
		}
		return false
	}
	ri := protos[op.Res]
	return ri != nil && ri.loud && op.Kind == "write"
}

func genOp(rng *rand.Rand, res []string, protos map[string]*resInst, prev []Op, afterLoud, allowCompound bool) Op {
	// candidates after a relaxed send / SingleOutputChan write: only operations that cannot be refused
	var cands []string
	for _, r := range res {
		ri := protos[r]
		if afterLoud && !ri.infallible {
			continue
		}
		cands = append(cands, r)
	}
	if len(cands) == 0 {
		return Op{}
	}
	x := rng.Intn(20)
	if allowCompound && x == 0 {
		a := genOp(rng, res, protos, prev, afterLoud, false)
		b := genOp(rng, res, protos, prev, afterLoud, false)
		if a.Kind == "" || b.Kind == "" || (opIsLoud(a, protos) != opIsLoud(b, protos)) {
			return a
		}
		return Op{Kind: "choice", Alts: []Op{a, b}}
	}
	var scalarReads []int
	for i, o := range prev {
		if o.Kind == "read" && protos[o.Res].class != clsLog && !(o.Res == "idx" && len(o.Idx) == 1) {
			scalarReads = append(scalarReads, i)
		}
	}
	if allowCompound && x == 1 && len(scalarReads) > 0 && !afterLoud {
		return Op{Kind: "await", From: 1 + scalarReads[rng.Intn(len(scalarReads))]}
	}
	ri := protos[cands[rng.Intn(len(cands))]]
	op := Op{Res: ri.name, Hint: rng.Intn(12)}
	switch ri.class {
	case clsIn:
		op.Kind = "read"
	case clsOut:
		op.Kind = "write"
	default:
		if rng.Intn(2) == 0 {
			op.Kind = "read"
		} else {
			op.Kind = "write"
		}
	}
	if len(ri.keys) > 0 && ri.class != clsLog {
		op.Idx = append([]int(nil), ri.keys[rng.Intn(len(ri.keys))]...)
		if ri.name == "idx" && op.Kind == "read" && rng.Intn(4) == 0 {
			op.Idx = op.Idx[:1] // row read i[a]
		}
	}
	if ri.class == clsLog && op.Kind == "read" && rng.Intn(2) == 0 {
		op.Idx = []int{1 + rng.Intn(4)}
	}
	if op.Kind == "write" && len(scalarReads) > 0 && rng.Intn(3) == 0 {
		op.From = 1 + scalarReads[rng.Intn(len(scalarReads))]
	}
	if afterLoud && ri.loud {
		return Op{}
	}
	return op
}

// faultsFor enumerates every fault position of a program completely.
func faultsFor(rng *rand.Rand, p Program, protos map[string]*resInst) []Fault {
	fs := []Fault{{Kind: "none", Repeat: 0}}
	mk := func(kind string, l, k int) Fault {
		f := Fault{Kind: kind, Label: l, Pos: k, Repeat: 1}
		if rng.Intn(4) == 0 { // a second consecutive failure, at the same or an earlier position
			f.Repeat = 2
			f.Pos2 = rng.Intn(k + 1)
		}
		return f
	}
	for l, lab := range p.Labels {
		for k := 0; k <= len(lab.Ops); k++ {
			fs = append(fs, mk("op", l, k), mk("await", l, k))
		}
		for k, op := range lab.Ops {
			if opReadsStarvable(op, protos) {
				fs = append(fs, Fault{Kind: "starve", Label: l, Pos: k, Repeat: 1})
			}
			if opOnSlowable(op, protos) {
				fs = append(fs, Fault{Kind: "slowres", Label: l, Pos: k, Repeat: 1})
			}
		}
		for _, kind := range []string{"pc", "pcslow", "pcdelay", "mappc", "mappcslow"} {
			fs = append(fs, mk(kind, l, len(lab.Ops)))
		}
	}
	return fs
}

func opOnSlowable(op Op, protos map[string]*resInst) bool {
	if op.Kind == "choice" {
		for _, a := range op.Alts {
			if opOnSlowable(a, protos) {
				return true
			}
		}
		return false
	}
	ri := protos[op.Res]
	return ri != nil && ri.slowable
}

func opReadsStarvable(op Op, protos map[string]*resInst) bool {
	if op.Kind == "choice" {
		for _, a := range op.Alts {
			if opReadsStarvable(a, protos) {
				return true
			}
		}
		return false
	}
	ri := protos[op.Res]
	return ri != nil && ri.class == clsIn && !ri.noStarve && op.Kind == "read"
}

// ---------------------------------------------------------------- hooks (H1)

var (
	hookMu  sync.Mutex
	hookTab = map[*distsys.MPCalContext]*caseRun{}
)

func lookupRun(ctx *distsys.MPCalContext) *caseRun {
	hookMu.Lock()
	defer hookMu.Unlock()
	return hookTab[ctx]
}

func installHooks() {
	distsys.VerifHooks.CommitPoint = func(ctx *distsys.MPCalContext, _ string, _ tla.Value, _ []trace.Element) {
		if cr := lookupRun(ctx); cr != nil {
			cr.dirty = ctx.VerifDirtyHandles()
			cr.w.rec.add("ctx", "CommitPoint", "", nil)
		}
	}
	distsys.VerifHooks.CommitDone = func(ctx *distsys.MPCalContext, _ string, _ tla.Value) {
		if cr := lookupRun(ctx); cr != nil {
			cr.onCommitDone()
		}
	}
	distsys.VerifHooks.AbortPoint = func(ctx *distsys.MPCalContext, _ string, _ tla.Value, _ []trace.Element) {
		if cr := lookupRun(ctx); cr != nil {
			cr.dirty = ctx.VerifDirtyHandles()
			cr.w.rec.add("ctx", "AbortPoint", "", nil)
			cr.onAbortPoint()
		}
	}
}

// ---------------------------------------------------------------- one case

type violation struct {
	Key  string `json:"key"`
	Desc string `json:"desc"`
}

type caseRun struct {
	w    *world
	prog Program
	f    Fault
	rng  *rand.Rand
	uniq *int32

	trial, pending *model
	attempt        int // attempts of program labels + probe labels in this case
	labelAttempts  int // consecutive attempts of the current label
	lastLabel      string
	faultLeft      int
	outcome        string // outcome of the attempt in flight: "", "committed", "aborted"
	attemptOpen    bool
	dirty          []string
	afterFailure   bool // the previous attempt aborted
	probeOnRetry   bool
	consecTimeouts int
	sentLoud       bool // this attempt performed a send that cannot be rolled back
	expectPanic    bool

	attemptRes   map[string]bool // real resources touched by the attempt in flight
	attemptKinds map[string]bool

	markersIn  map[string]int32
	markersOut map[string]int32
	usedOut    map[string]bool

	// results
	viol            []violation
	hist            []string
	aborts          int
	commits         int
	spurious        int
	nontrivial      bool
	failedKinds     map[string]bool
	kindsTouched    map[string]bool
	overlaps        int
	overlapRes      map[string]int
	lateCompletions int
	harnessErrs     []string
	gaveUp          string
	starveNA        bool
	failedSigs      []string
}

var errHard = errors.New("secdrv: case stopped")

func (cr *caseRun) histf(format string, a ...any) {
	if len(cr.hist) < 400 {
		cr.hist = append(cr.hist, fmt.Sprintf(format, a...))
	}
}

func (cr *caseRun) violate(kind, symptom, format string, a ...any) {
	when := "after-commit"
	if cr.aborts > 0 {
		when = "after-abort"
	}
	desc := fmt.Sprintf(format, a...)
	key := fmt.Sprintf("C01:%s:%s:%s", kind, symptom, when)
	switch {
	case strings.HasPrefix(symptom, "protocol"), symptom == "no-loud-failure", symptom == "unexpected-panic", symptom == "run-error",
		symptom == "durable-copy-of-indexed-variable-differs", symptom == "shared-variable-left-locked", symptom == "body-panic":
		key = fmt.Sprintf("C01:%s:%s", kind, symptom)
	}
	for _, v := range cr.viol {
		if v.Key == key {
			return // one report per key and case
		}
	}
	cr.histf("!! %s: %s", key, desc)
	if len(cr.viol) < 8 {
		cr.viol = append(cr.viol, violation{Key: key, Desc: desc})
	}
}

func (cr *caseRun) harness(format string, a ...any) {
	cr.harnessErrs = append(cr.harnessErrs, fmt.Sprintf(format, a...))
	cr.histf("harness: "+format, a...)
}

func (cr *caseRun) fresh() int32 {
	*cr.uniq++
	return *cr.uniq
}

// compareCell: observed value of a cell against the committed model (external observations) .
func (cr *caseRun) compareCell(ri *resInst, idx []int, got tla.Value, how string) {
	want := cr.w.mod.Cells[ri.key(idx)]
	tok, ok := ri.dec(got.StripVClock())
	if !ok || tok != want {
		cr.violate(ri.kind, "observed-state-differs", "%s%s via %s = %s, committed model %d", ri.name, fmtIdx(idx), how, got.StripVClock().String(), want)
	}
}

// compareOut: messages taken at the far end against what committed sections sent; both sides are consumed.
func (cr *caseRun) compareOut(ri *resInst, got []int32, how string) {
	want := cr.w.mod.OutQ[ri.queue]
	if !eqInts(got, want) {
		sym := "far-end-differs"
		switch {
		case len(got) > len(want):
			sym = "far-end-saw-uncommitted-or-duplicate-message"
		case len(got) < len(want):
			sym = "far-end-missing-committed-message"
		}
		kind := ri.kind
		if ri.name == "tcpsub" && cr.w.mapFaultSeen {
			// the mailbox collection lives under the map whose PreCommit returned before this child's handshake
			// finished: an abandoned pre-commit exchange can interleave with later sections on the connection
			kind, sym = "map-precommit-returns-before-siblings-finish", "protocol-crosstalk-on-tcp-remote-child"
		}
		cr.violate(kind, sym, "%s: %s received %v, committed sections sent %v", ri.name, how, got, want)
	}
	delete(cr.w.mod.OutQ, ri.queue)
	if cr.trial != nil {
		delete(cr.trial.OutQ, ri.queue)
	}
}

func (cr *caseRun) onCommitDone() {
	cr.outcome = "committed"
	cr.commits++
	if cr.pending == nil {
		cr.violate("context", "protocol:commit-of-unfinished-body", "commit() completed for an attempt whose body did not finish")
		return
	}
	cr.w.mod = cr.pending
	cr.pending = nil
	cr.consecTimeouts = 0
}

func (cr *caseRun) onAbortPoint() {
	cr.outcome = "aborted"
	cr.aborts++
	cr.pending = nil
	if cr.sentLoud {
		cr.expectPanic = true
	}
	if len(cr.attemptRes) >= 2 && len(cr.attemptKinds) >= 2 {
		cr.nontrivial = true
		for k := range cr.attemptKinds {
			cr.failedKinds[k] = true
		}
	}
	var ks []string
	for k := range cr.attemptKinds {
		ks = append(ks, k)
	}
	sort.Strings(ks)
	cr.failedSigs = append(cr.failedSigs, strings.Join(ks, "+"))
}

// finishAttempt evaluates the attempt that just completed: wrapper protocol and external observations.
func (cr *caseRun) finishAttempt() {
	if !cr.attemptOpen {
		return
	}
	cr.attemptOpen = false
	recs := cr.w.rec.cut()
	cr.checkProtocol(recs)
	cr.afterFailure = cr.outcome == "aborted"
	if cr.outcome == "" {
		return
	}
	cr.observeAll()
}

func (cr *caseRun) observeAll() {
	for _, n := range cr.prog.Res {
		if ri := cr.w.insts[n]; ri != nil && ri.observe != nil {
			ri.observe(cr)
		}
	}
}

func (cr *caseRun) checkProtocol(recs []callRec) {
	if cr.outcome == "" {
		return
	}
	type cnt struct {
		pc, pcDone, pcErr, commit, commitDone, abort, abortDone, ops int
		pcSeq, pcDoneSeq, commitSeq, abortSeq                        int64
	}
	by := map[string]*cnt{}
	get := func(n string) *cnt {
		c := by[n]
		if c == nil {
			c = &cnt{}
			by[n] = c
		}
		return c
	}
	touchedChild := map[string]bool{}
	var maxPCDone, minCommit int64 = 0, 1 << 62
	anyPCErr := ""
	totalCommit := 0
	pcIDs := map[string]bool{}
	for _, r := range recs {
		if r.Call == "PreCommit" {
			pcIDs[fmt.Sprint(r.Seq)] = true
		}
	}
	for _, r := range recs {
		c := get(r.Res)
		if r.Call == "PreCommitDone" && !pcIDs[r.Arg] {
			// completion of a PreCommit issued by an earlier attempt: that attempt was aborted while this
			// pre-commit was still running
			cr.lateCompletions++
			cr.overlapRes[r.Res]++
			cr.histf("observation: PreCommit of %s issued by an earlier attempt completed during attempt %d", r.Res, cr.attempt)
			continue
		}
		switch r.Call {
		case "Index":
			c.ops++
			touchedChild[r.Res+"["+r.Arg+"]"] = true
		case "Read", "Write":
			c.ops++
		case "PreCommit":
			c.pc++
			c.pcSeq = r.Seq
		case "PreCommitDone":
			c.pcDone++
			c.pcDoneSeq = r.Seq
			if r.Err != "" {
				c.pcErr++
				anyPCErr = r.Res
			}
			if r.Seq > maxPCDone {
				maxPCDone = r.Seq
			}
		case "Commit":
			c.commit++
			c.commitSeq = r.Seq
			totalCommit++
			if r.Seq < minCommit {
				minCommit = r.Seq
			}
		case "CommitDone":
			c.commitDone++
		case "Abort":
			c.abort++
			c.abortSeq = r.Seq
		case "AbortDone":
			c.abortDone++
		}
	}
	dirty := map[string]bool{}
	for _, h := range cr.dirty {
		dirty[h] = true
	}
	kindOf := func(name string) string {
		if w := cr.w.wraps[name]; w != nil && w.kind != "" {
			return w.kind
		}
		if i := strings.Index(name, "["); i > 0 {
			if w := cr.w.wraps[name[:i]]; w != nil && w.kind != "" {
				return w.kind
			}
		}
		return "harness-resource"
	}
	if anyPCErr != "" && totalCommit > 0 {
		cr.violate("context", "protocol:commit-after-failed-precommit", "PreCommit of %s failed in attempt %d, yet %d Commit calls were issued (outcome %s)", anyPCErr, cr.attempt, totalCommit, cr.outcome)
	}
	if cr.outcome == "committed" && totalCommit > 0 && maxPCDone > minCommit {
		cr.violate("context", "protocol:commit-before-all-precommits-finished", "a Commit (seq %d) was issued before the last PreCommit finished (seq %d)", minCommit, maxPCDone)
	}
	for name := range cr.w.wraps {
		c := get(name)
		var isTouched bool
		if strings.Contains(name, "[") {
			isTouched = touchedChild[name]
		} else {
			isTouched = dirty["&A."+name]
		}
		k := kindOf(name)
		if !isTouched {
			if c.pc+c.commit+c.abort+c.ops > 0 {
				cr.violate(k, "protocol:untouched-handle-called", "%s was not touched by attempt %d (%s) but received %d op / %d PreCommit / %d Commit / %d Abort calls", name, cr.attempt, cr.outcome, c.ops, c.pc, c.commit, c.abort)
			}
			continue
		}
		switch cr.outcome {
		case "committed":
			if c.pc != 1 || c.pcDone != 1 || c.commit != 1 || c.commitDone != 1 || c.abort != 0 {
				cr.violate(k, "protocol:dirty-handle-not-committed-exactly-once", "%s dirty in committed attempt %d: PreCommit %d (done %d), Commit %d (done %d), Abort %d", name, cr.attempt, c.pc, c.pcDone, c.commit, c.commitDone, c.abort)
			}
		case "aborted":
			if c.abort != 1 || c.abortDone != 1 || c.commit != 0 || c.pc > 1 {
				cr.violate(k, "protocol:dirty-handle-not-aborted-exactly-once", "%s dirty in aborted attempt %d: PreCommit %d, Commit %d, Abort %d (done %d)", name, cr.attempt, c.pc, c.commit, c.abort, c.abortDone)
			}
			if c.pc == 1 && c.abort == 1 && (c.pcDone == 0 || c.pcDoneSeq > c.abortSeq) {
				cr.overlaps++
				cr.overlapRes[name]++
				cr.histf("observation: Abort of %s issued while its PreCommit was still in flight", name)
			}
		}
	}
}

// ---------------------------------------------------------------- section bodies

func (cr *caseRun) ref(iface distsys.ArchetypeInterface, param string) distsys.ArchetypeResourceHandle {
	h, err := iface.RequireArchetypeResourceRef("A." + param)
	if err != nil {
		panic(err)
	}
	return h
}

func (cr *caseRun) beginAttempt(label string) error {
	cr.finishAttempt()
	cr.attempt++
	if label == cr.lastLabel {
		cr.labelAttempts++
	} else {
		cr.labelAttempts = 1
		cr.lastLabel = label
	}
	cr.attemptOpen = true
	cr.outcome = ""
	cr.dirty = nil
	cr.trial = cr.w.mod.clone()
	cr.pending = nil
	cr.sentLoud = false
	cr.attemptRes = map[string]bool{}
	cr.attemptKinds = map[string]bool{}
	cr.histf("-- attempt %d of %s", cr.attempt, label)
	if cr.labelAttempts > 150 {
		cr.gaveUp = fmt.Sprintf("label %s still failing after %d attempts (%d consecutive read timeouts)", label, cr.labelAttempts-1, cr.consecTimeouts)
		return errHard
	}
	return nil
}

func (cr *caseRun) guard(body func(iface distsys.ArchetypeInterface) error) func(iface distsys.ArchetypeInterface) error {
	return func(iface distsys.ArchetypeInterface) (err error) {
		defer func() {
			if e := recover(); e != nil {
				cr.violate("context", "body-panic", "section body panicked in attempt %d: %v", cr.attempt, e)
				err = errHard
			}
		}()
		return body(iface)
	}
}

func (cr *caseRun) labelBody(li int) func(iface distsys.ArchetypeInterface) error {
	name := fmt.Sprintf("A.l%d", li)
	next := fmt.Sprintf("A.l%d", li+1)
	if li+1 == len(cr.prog.Labels) {
		next = "A.probe"
	}
	return cr.guard(func(iface distsys.ArchetypeInterface) error {
		if err := cr.beginAttempt(name); err != nil {
			return err
		}
		lab := cr.prog.Labels[li]
		firing := cr.faultLeft > 0 && cr.f.Label == li
		fkind, fpos := cr.f.Kind, cr.f.Pos
		if firing && cr.f.Repeat == 2 && cr.faultLeft == 1 {
			fkind, fpos = "op", cr.f.Pos2
		}
		if firing && (fkind == "mappc" || fkind == "mappcslow") {
			// the child whose PreCommit will fail is indexed first, so the map waits for it before its siblings
			if _, err := iface.Read(cr.ref(iface, "fmap"), []tla.Value{tla.MakeNumber(0)}); err != nil {
				return err
			}
		}
		if cr.afterFailure && cr.probeOnRetry {
			if err := cr.probeCells(iface); err != nil {
				return err
			}
		}
		reads := make([]int32, len(lab.Ops))
		have := make([]bool, len(lab.Ops))
		for k := 0; k <= len(lab.Ops); k++ {
			if firing && fpos == k {
				switch fkind {
				case "op":
					cr.faultLeft--
					return cr.fireOpFault(iface, k)
				case "await":
					cr.faultLeft--
					cr.histf("  await FALSE before op %d", k)
					return distsys.ErrCriticalSectionAborted
				}
			}
			if k == len(lab.Ops) {
				break
			}
			op := lab.Ops[k]
			if op.Kind == "choice" {
				c := iface.NextFairnessCounter(fmt.Sprintf("%s.%d", name, k), uint(len(op.Alts)))
				op = op.Alts[c]
				cr.histf("  either -> %d", c)
			}
			if op.Kind == "await" {
				j := op.From - 1
				if j >= 0 && j < k && have[j] && reads[j] < 0 {
					cr.histf("  await on #%d false", j)
					return distsys.ErrCriticalSectionAborted
				}
				continue
			}
			var from *int32
			if op.From > 0 && op.From-1 < k && have[op.From-1] {
				from = &reads[op.From-1]
			}
			starve := firing && fkind == "starve" && fpos == k
			var slowed *resInst
			if firing && fkind == "slowres" && fpos == k && cr.faultLeft > 0 {
				if ri := cr.w.insts[op.Res]; ri != nil && ri.makeSlow != nil {
					cr.faultLeft--
					ri.makeSlow(true)
					slowed = ri
					cr.histf("  fault: %s made slower than its own timeout for op %d", ri.name, k)
				}
			}
			tok, scalar, err := cr.exec(iface, k, op, from, starve)
			if slowed != nil {
				slowed.makeSlow(false)
			}
			if err != nil {
				return err
			}
			if scalar {
				reads[k], have[k] = tok, true
			}
		}
		if firing && fkind == cr.f.Kind {
			if err := cr.armPreCommitFault(iface); err != nil {
				return err
			}
		}
		cr.pending = cr.trial
		return iface.Goto(next)
	})
}

func (cr *caseRun) fireOpFault(iface distsys.ArchetypeInterface, k int) error {
	cr.w.flt.armOp(1)
	h := cr.ref(iface, "flt")
	var err error
	if k%2 == 0 {
		_, err = iface.Read(h, nil)
		cr.histf("  fault: read flt refused before op %d", k)
	} else {
		err = iface.Write(h, nil, tla.ModuleTRUE)
		cr.histf("  fault: write flt refused before op %d", k)
	}
	if err == nil {
		cr.harness("fault resource did not refuse")
		return errHard
	}
	return err
}

func (cr *caseRun) armPreCommitFault(iface distsys.ArchetypeInterface) error {
	writeCell := func(res string, idx []int) error {
		_, _, err := cr.exec(iface, -1, Op{Kind: "write", Res: res, Idx: idx}, nil, false)
		return err
	}
	switch cr.f.Kind {
	case "pc", "pcslow", "pcdelay":
		cr.faultLeft--
		d := time.Duration(0)
		if cr.f.Kind == "pcdelay" {
			d = 3 * time.Millisecond
		}
		cr.w.flt.armPC(1, d)
		if _, err := iface.Read(cr.ref(iface, "flt"), nil); err != nil {
			return err
		}
		cr.histf("  fault: PreCommit of flt armed (%s)", cr.f.Kind)
		if cr.f.Kind != "pc" {
			return writeCell("slow", nil)
		}
	case "mappc", "mappcslow":
		cr.faultLeft--
		cr.w.mapFaultSeen = true
		cr.w.fchild.armPC(1, 0)
		h := cr.ref(iface, "fmap")
		if _, err := iface.Read(h, []tla.Value{tla.MakeNumber(0)}); err != nil {
			return err
		}
		cr.histf("  fault: PreCommit of fmap[0] armed (%s)", cr.f.Kind)
		if cr.f.Kind == "mappcslow" {
			if err := writeCell("fmap", []int{1}); err != nil {
				return err
			}
		}
		return writeCell("fmap", []int{2})
	}
	return nil
}

// exec performs one read or write through the archetype interface, compares with / updates the trial model.
func (cr *caseRun) exec(iface distsys.ArchetypeInterface, k int, op Op, from *int32, starve bool) (tok int32, scalar bool, err error) {
	ri := cr.w.insts[op.Res]
	if ri == nil {
		cr.harness("op on unbound resource %s", op.Res)
		return 0, false, errHard
	}
	h := cr.ref(iface, ri.param)
	touched := func() {
		if ri.kind != "" {
			cr.attemptRes[ri.name] = true
			cr.attemptKinds[ri.kind] = true
			cr.kindsTouched[ri.kind] = true
		}
	}
	refused := func(e error) error {
		if errors.Is(e, distsys.ErrCriticalSectionAborted) {
			cr.spurious++
			cr.histf("  op %d %s %s%s refused by the resource", k, op.Kind, ri.name, fmtIdx(op.Idx))
			return distsys.ErrCriticalSectionAborted
		}
		cr.histf("  op %d %s %s%s hard error %v", k, op.Kind, ri.name, fmtIdx(op.Idx), e)
		return e
	}
	switch ri.class {
	case clsCell, clsCounter:
		idx := op.Idx
		if op.Kind == "read" {
			v, e := iface.Read(h, ri.idxVals(idx))
			if e != nil {
				return 0, false, refused(e)
			}
			touched()
			if ri.name == "idx" && len(idx) == 1 { // row read
				want := tla.MakeTuple(tla.MakeNumber(cr.trial.Cells[ri.key([]int{idx[0], 1})]), tla.MakeNumber(cr.trial.Cells[ri.key([]int{idx[0], 2})]))
				cr.histf("  op %d read %s%s = %s", k, ri.name, fmtIdx(idx), v.String())
				if !v.Equal(want) {
					cr.violate(ri.kind, "read-differs-from-model", "attempt %d op %d read %s%s = %s, model %s", cr.attempt, k, ri.name, fmtIdx(idx), v.String(), want.String())
				}
				return 0, false, nil
			}
			want := cr.trial.Cells[ri.key(idx)]
			t, ok := ri.dec(v)
			cr.histf("  op %d read %s%s = %s", k, ri.name, fmtIdx(idx), v.String())
			if !ok || t != want {
				cr.violate(ri.kind, "read-differs-from-model", "attempt %d op %d read %s%s = %s, model %d", cr.attempt, k, ri.name, fmtIdx(idx), v.String(), want)
			}
			return want, true, nil
		}
		val := cr.fresh()
		if from != nil {
			val = *from
		}
		if ri.class == clsCounter {
			inc := val%7 + 1
			e := iface.Write(h, ri.idxVals(idx), ri.enc(inc))
			if e != nil {
				return 0, false, refused(e)
			}
			touched()
			cr.trial.Cells[ri.key(idx)] += inc
			cr.histf("  op %d write %s%s += %d", k, ri.name, fmtIdx(idx), inc)
			return 0, false, nil
		}
		e := iface.Write(h, ri.idxVals(idx), ri.enc(val))
		if e != nil {
			return 0, false, refused(e)
		}
		touched()
		cr.trial.Cells[ri.key(idx)] = val
		if ri.persist != "" {
			cr.trial.Stored[ri.persist] = ri.storedString(cr.trial)
		}
		cr.histf("  op %d write %s%s := %d", k, ri.name, fmtIdx(idx), val)
		return 0, false, nil
	case clsLog:
		return cr.execLog(iface, h, ri, k, op, from, touched, refused)
	case clsIn:
		q := ri.queue
		if len(cr.trial.InQ[q]) == 0 {
			if starve && cr.faultLeft > 0 {
				cr.faultLeft--
				cr.histf("  fault: %s left empty for op %d", ri.name, k)
			} else {
				n := 1 + cr.rng.Intn(2)
				var vals []int32
				for i := 0; i < n; i++ {
					vals = append(vals, cr.fresh())
				}
				if e := cr.feedQueue(ri, vals); e != nil {
					return 0, false, e
				}
			}
		} else if starve && cr.faultLeft > 0 {
			cr.faultLeft--
			cr.starveNA = true
		}
		v, e := iface.Read(h, ri.idxVals(op.Idx))
		if e != nil {
			if errors.Is(e, distsys.ErrCriticalSectionAborted) && len(cr.trial.InQ[q]) > 0 {
				cr.consecTimeouts++
			}
			return 0, false, refused(e)
		}
		touched()
		cr.consecTimeouts = 0
		cr.histf("  op %d read %s = %s", k, ri.name, v.String())
		if len(cr.trial.InQ[q]) == 0 {
			if ri.noStarve && v.Equal(tla.ModuleTRUE) {
				return 0, false, nil // CustomInChan's documented default on an empty channel
			}
			cr.violate(ri.kind, "input-from-nowhere", "attempt %d op %d read %s = %s but nothing is on offer", cr.attempt, k, ri.name, v.String())
			return 0, false, nil
		}
		want := cr.trial.InQ[q][0]
		cr.trial.InQ[q] = cr.trial.InQ[q][1:]
		t, ok := ri.dec(v)
		if !ok || t != want {
			cr.violate(ri.kind, "input-not-reoffered-in-order", "attempt %d op %d read %s = %s, model offers %d (then %v)", cr.attempt, k, ri.name, v.String(), want, cr.trial.InQ[q])
		}
		return want, true, nil
	case clsOut:
		val := cr.fresh()
		if from != nil {
			val = *from
		}
		if ri.loudOnTouch {
			cr.sentLoud = true
		}
		e := iface.Write(h, ri.idxVals(op.Idx), ri.enc(val))
		if e != nil {
			return 0, false, refused(e)
		}
		touched()
		cr.usedOut[ri.name] = true
		cr.trial.OutQ[ri.queue] = append(cr.trial.OutQ[ri.queue], val)
		if ri.loud {
			cr.sentLoud = true
		}
		cr.histf("  op %d send %s <- %d", k, ri.name, val)
		return 0, false, nil
	}
	return 0, false, nil
}

func (cr *caseRun) feedQueue(ri *resInst, vals []int32) error {
	if err := ri.feed(cr, vals); err != nil {
		cr.harness("feeding %s: %v", ri.name, err)
		return errHard
	}
	cr.w.mod.InQ[ri.queue] = append(cr.w.mod.InQ[ri.queue], vals...)
	if cr.trial != nil {
		cr.trial.InQ[ri.queue] = append(cr.trial.InQ[ri.queue], vals...)
	}
	cr.histf("  (fed %s %v)", ri.name, vals)
	return nil
}

// probeCells reads every cell-like bound resource through iface.Read and compares with the trial model.
func (cr *caseRun) probeCells(iface distsys.ArchetypeInterface) error {
	for _, n := range cr.probeOrder() {
		ri := cr.w.insts[n]
		switch ri.class {
		case clsCell, clsCounter:
			for _, idx := range ri.keys {
				if _, _, err := cr.exec(iface, -2, Op{Kind: "read", Res: n, Idx: idx}, nil, false); err != nil {
					return err
				}
			}
		case clsLog:
			if _, _, err := cr.exec(iface, -2, Op{Kind: "read", Res: n}, nil, false); err != nil {
				return err
			}
		}
	}
	return nil
}

func (cr *caseRun) probeOrder() []string {
	out := append([]string(nil), cr.prog.Res...)
	out = append(out, "slow", "fmap")
	return out
}

func (cr *caseRun) probeBody() func(iface distsys.ArchetypeInterface) error {
	return cr.guard(func(iface distsys.ArchetypeInterface) error {
		if err := cr.beginAttempt("A.probe"); err != nil {
			return err
		}
		if err := cr.probeCells(iface); err != nil {
			return err
		}
		cr.pending = cr.trial
		return iface.Goto("A.drain")
	})
}

// drainBody: every bound input queue is read until a marker fed behind everything else shows up.
func (cr *caseRun) drainBody() func(iface distsys.ArchetypeInterface) error {
	return cr.guard(func(iface distsys.ArchetypeInterface) error {
		if err := cr.beginAttempt("A.drain"); err != nil {
			return err
		}
		for _, n := range cr.prog.Res {
			ri := cr.w.insts[n]
			if ri.class != clsIn {
				continue
			}
			q := ri.queue
			m, ok := cr.markersIn[q]
			if !ok {
				m = cr.fresh()
				cr.markersIn[q] = m
				if err := cr.feedQueue(ri, []int32{m}); err != nil {
					return err
				}
			}
			h := cr.ref(iface, ri.param)
			want := append([]int32(nil), cr.trial.InQ[q]...)
			var got []int32
			for i := 0; i < len(want)+8; i++ {
				v, e := iface.Read(h, ri.idxVals(nil))
				if e != nil {
					if errors.Is(e, distsys.ErrCriticalSectionAborted) {
						cr.consecTimeouts++
						cr.spurious++
						cr.histf("  drain %s: read refused after %v", ri.name, got)
						return distsys.ErrCriticalSectionAborted
					}
					return e
				}
				t, ok := ri.dec(v)
				if !ok {
					t = -1
				}
				got = append(got, t)
				if t == m {
					break
				}
			}
			cr.consecTimeouts = 0
			cr.histf("  drain %s: %v", ri.name, got)
			if !eqInts(got, want) {
				cr.violate(ri.kind, "input-not-reoffered-in-order", "final drain of %s read %v, model offers %v (last is the marker)", ri.name, got, want)
			}
			cr.trial.InQ[q] = nil
		}
		cr.pending = cr.trial
		return iface.Goto("A.mark")
	})
}

// markBody: a marker is sent on every output link the case used, so the far end knows where to stop.
func (cr *caseRun) markBody() func(iface distsys.ArchetypeInterface) error {
	return cr.guard(func(iface distsys.ArchetypeInterface) error {
		if err := cr.beginAttempt("A.mark"); err != nil {
			return err
		}
		var outs []*resInst
		for _, n := range cr.prog.Res {
			ri := cr.w.insts[n]
			if ri.class == clsOut && ri.farDrain != nil {
				outs = append(outs, ri)
			}
		}
		sort.SliceStable(outs, func(i, j int) bool { return !outs[i].loud && outs[j].loud }) // sends that cannot be undone go last
		for _, ri := range outs {
			m, ok := cr.markersOut[ri.name]
			if !ok {
				m = cr.fresh()
				cr.markersOut[ri.name] = m
			}
			h := cr.ref(iface, ri.param)
			if e := iface.Write(h, ri.idxVals(nil), ri.enc(m)); e != nil {
				if errors.Is(e, distsys.ErrCriticalSectionAborted) {
					cr.spurious++
					return distsys.ErrCriticalSectionAborted
				}
				return e
			}
			cr.trial.OutQ[ri.queue] = append(cr.trial.OutQ[ri.queue], m)
			if ri.loud {
				cr.sentLoud = true
			}
			cr.histf("  marker %s <- %d", ri.name, m)
		}
		cr.pending = cr.trial
		return iface.Goto("A.Done")
	})
}

// ---------------------------------------------------------------- running

type caseResult struct {
	Prog        int            `json:"prog"`
	Case        int            `json:"case"`
	Fault       Fault          `json:"fault"`
	Attempts    int            `json:"attempts"`
	Aborts      int            `json:"aborts"`
	Commits     int            `json:"commits"`
	Spurious    int            `json:"spurious"`
	Nontrivial  bool           `json:"nontrivial"`
	FailedKinds []string       `json:"failed_kinds,omitempty"`
	FailedSigs  []string       `json:"failed_sigs,omitempty"`
	Kinds       []string       `json:"kinds,omitempty"`
	Viol        []violation    `json:"viol,omitempty"`
	Loud        bool           `json:"loud,omitempty"` // ended in the documented panic after a send that cannot be rolled back
	Panic       string         `json:"panic,omitempty"`
	GaveUp      string         `json:"gave_up,omitempty"`
	Harness     []string       `json:"harness,omitempty"`
	Overlaps    int            `json:"overlaps,omitempty"`
	OverlapRes  map[string]int `json:"overlap_res,omitempty"`
	StarveNA    bool           `json:"starve_na,omitempty"`
	Events      int64          `json:"events"`
	History     []string       `json:"history,omitempty"`
	WorldDead   bool           `json:"-"`
}

func setKeys(m map[string]bool) []string {
	var out []string
	for k := range m {
		out = append(out, k)
	}
	sort.Strings(out)
	return out
}

var loudPanics = []string{"cannot abort a critical section with a sent message", "can't abort SingleOutputChan"}

func runCase(w *world, prog Program, ci int, f Fault, rng *rand.Rand, uniq *int32) caseResult {
	cr := &caseRun{w: w, prog: prog, f: f, rng: rng, uniq: uniq, faultLeft: f.Repeat,
		probeOnRetry: rng.Intn(2) == 0, failedKinds: map[string]bool{}, kindsTouched: map[string]bool{},
		overlapRes: map[string]int{}, markersIn: map[string]int32{}, markersOut: map[string]int32{}, usedOut: map[string]bool{}}
	if f.Kind == "none" {
		cr.faultLeft = 0
	}
	w.rec.cut()
	evBefore := w.rec.total
	secs := []distsys.MPCalCriticalSection{}
	for i := range prog.Labels {
		secs = append(secs, distsys.MPCalCriticalSection{Name: fmt.Sprintf("A.l%d", i), Body: cr.labelBody(i)})
	}
	secs = append(secs,
		distsys.MPCalCriticalSection{Name: "A.probe", Body: cr.probeBody()},
		distsys.MPCalCriticalSection{Name: "A.drain", Body: cr.drainBody()},
		distsys.MPCalCriticalSection{Name: "A.mark", Body: cr.markBody()},
		distsys.MPCalCriticalSection{Name: "A.Done", Body: func(distsys.ArchetypeInterface) error { return distsys.ErrDone }},
	)
	params := map[string]bool{"flt": true, "slow": true, "fmap": true}
	for _, n := range prog.Res {
		params[w.insts[n].param] = true
	}
	var refs []string
	var cfg []distsys.MPCalContextConfigFn
	for p := range params {
		refs = append(refs, "A."+p)
		cfg = append(cfg, distsys.EnsureArchetypeRefParam(p, w.params[p]))
	}
	sort.Strings(refs)
	arch := distsys.MPCalArchetype{Name: "A", Label: "A.l0", RequiredRefParams: refs,
		JumpTable: distsys.MakeMPCalJumpTable(secs...), ProcTable: distsys.MakeMPCalProcTable(),
		PreAmble: func(distsys.ArchetypeInterface) {}}
	ctx := distsys.NewMPCalContext(tla.MakeNumber(1), arch, cfg...)
	hookMu.Lock()
	hookTab[ctx] = cr
	hookMu.Unlock()
	err, pan := safeRun(ctx)
	hookMu.Lock()
	delete(hookTab, ctx)
	hookMu.Unlock()

	res := caseResult{Prog: prog.ID, Case: ci, Fault: f}
	switch {
	case pan != "":
		documented := false
		for _, s := range loudPanics {
			if strings.Contains(pan, s) {
				documented = true
			}
		}
		res.Panic = pan
		res.WorldDead = true
		if documented && cr.expectPanic {
			res.Loud = true
			cr.histf("documented panic after a send that cannot be rolled back: %s", pan)
		} else {
			cr.violate("context", "unexpected-panic", "Run panicked: %s", pan)
		}
	case cr.expectPanic:
		res.WorldDead = true
		cr.violate("relaxed-send", "no-loud-failure", "an attempt was aborted after a send that cannot be rolled back, but Run did not fail loudly (err=%v)", err)
	case cr.gaveUp != "":
		res.WorldDead = true
		res.GaveUp = cr.gaveUp
		if cr.consecTimeouts >= 100 {
			cr.violate("input-queue", "offered-input-never-readable", "%s although the model has input on offer", cr.gaveUp)
		}
	case err != nil:
		res.WorldDead = true
		if len(cr.viol) == 0 && len(cr.harnessErrs) == 0 {
			cr.violate("context", "run-error", "Run returned %v", err)
		}
	default:
		cr.finishAttempt() // the last committed attempt (A.mark)
		// far ends of output links
		for _, n := range prog.Res {
			ri := w.insts[n]
			if ri.class != clsOut || ri.farDrain == nil {
				continue
			}
			m := cr.markersOut[ri.name]
			got, e := ri.farDrain(cr, m)
			if e != nil {
				res.GaveUp = fmt.Sprintf("far end of %s: %v", ri.name, e)
				res.WorldDead = true
				if len(got) > 0 {
					cr.histf("far end of %s got %v before giving up", ri.name, got)
				}
				continue
			}
			cr.trial = nil
			cr.compareOut(ri, got, "far-end mailbox")
		}
		for q, rest := range w.mod.InQ {
			if len(rest) != 0 {
				cr.harness("queue %s not drained: %v", q, rest)
			}
		}
	}
	w.rec.cut()
	res.Attempts, res.Aborts, res.Commits, res.Spurious = cr.attempt, cr.aborts, cr.commits, cr.spurious
	res.Nontrivial = cr.nontrivial
	res.FailedKinds = setKeys(cr.failedKinds)
	res.FailedSigs = cr.failedSigs
	res.Kinds = setKeys(cr.kindsTouched)
	res.Viol = cr.viol
	res.Harness = cr.harnessErrs
	res.Overlaps = cr.overlaps + cr.lateCompletions
	res.OverlapRes = cr.overlapRes
	res.StarveNA = cr.starveNA
	res.Events = w.rec.total - evBefore
	if len(cr.viol) > 0 || len(cr.harnessErrs) > 0 || res.GaveUp != "" {
		res.History = cr.hist
		if len(res.History) > 120 {
			res.History = append([]string{"…"}, res.History[len(res.History)-120:]...)
		}
	}
	if len(cr.harnessErrs) > 0 || len(cr.viol) > 0 {
		res.WorldDead = true // model and reality have diverged: do not let one defect cascade into later cases
	}
	return res
}

func safeRun(ctx *distsys.MPCalContext) (err error, pan string) {
	defer func() {
		if e := recover(); e != nil {
			pan = fmt.Sprint(e)
		}
	}()
	return ctx.Run(), ""
}

// runHelper runs a one-section archetype (self, one ref parameter "net") on its own context.
func runHelper(self int32, res distsys.ArchetypeResource, maxAttempts int, body func(iface distsys.ArchetypeInterface, h distsys.ArchetypeResourceHandle) error) error {
	attempts := 0
	var hard error
	arch := distsys.MPCalArchetype{Name: "H", Label: "H.l", RequiredRefParams: []string{"H.net"},
		JumpTable: distsys.MakeMPCalJumpTable(
			distsys.MPCalCriticalSection{Name: "H.l", Body: func(iface distsys.ArchetypeInterface) error {
				attempts++
				if attempts > maxAttempts {
					hard = fmt.Errorf("helper section still refused after %d attempts", maxAttempts)
					return hard
				}
				h, err := iface.RequireArchetypeResourceRef("H.net")
				if err != nil {
					return err
				}
				if err := body(iface, h); err != nil {
					return err
				}
				return iface.Goto("H.Done")
			}},
			distsys.MPCalCriticalSection{Name: "H.Done", Body: func(distsys.ArchetypeInterface) error { return distsys.ErrDone }},
		),
		ProcTable: distsys.MakeMPCalProcTable(), PreAmble: func(distsys.ArchetypeInterface) {}}
	ctx := distsys.NewMPCalContext(tla.MakeNumber(self), arch, distsys.EnsureArchetypeRefParam("net", noClose{res}))
	err, pan := safeRun(ctx)
	if pan != "" {
		return fmt.Errorf("helper panicked: %s", pan)
	}
	if hard != nil {
		return hard
	}
	return err
}

package main

import (
	"fmt"
	"sort"
	"strings"
)

// model is the abstract state of every resource of one world. It is advanced only by committed sections
// (the CommitDone hook installs the attempt's trial copy) and by external events the harness itself causes
// (feeding an input queue, consuming an output queue at its far end).
type model struct {
	Cells  map[string]int32   `json:"cells"`  // cell-like state: "loc", "idx/0/1", "imap/2", "fs/0", "crdt" (sum) …
	Logs   map[string][]int32 `json:"logs"`   // list-like state (raftkvs PersistentLog)
	InQ    map[string][]int32 `json:"inq"`    // offered to the archetype and not yet consumed by a committed section
	OutQ   map[string][]int32 `json:"outq"`   // sent by committed sections and not yet taken at the far end
	Stored map[string]string  `json:"stored"` // durable copies (badger) of persistent cells, absent until first committed write
}

func newModel() *model {
	return &model{Cells: map[string]int32{}, Logs: map[string][]int32{}, InQ: map[string][]int32{}, OutQ: map[string][]int32{}, Stored: map[string]string{}}
}

func (m *model) clone() *model {
	c := newModel()
	for k, v := range m.Cells {
		c.Cells[k] = v
	}
	for k, v := range m.Stored {
		c.Stored[k] = v
	}
	for k, v := range m.Logs {
		c.Logs[k] = append([]int32(nil), v...)
	}
	for k, v := range m.InQ {
		c.InQ[k] = append([]int32(nil), v...)
	}
	for k, v := range m.OutQ {
		c.OutQ[k] = append([]int32(nil), v...)
	}
	return c
}

func (m *model) String() string {
	var parts []string
	var keys []string
	for k := range m.Cells {
		keys = append(keys, k)
	}
	sort.Strings(keys)
	for _, k := range keys {
		parts = append(parts, fmt.Sprintf("%s=%d", k, m.Cells[k]))
	}
	keys = keys[:0]
	for k := range m.Logs {
		keys = append(keys, k)
	}
	sort.Strings(keys)
	for _, k := range keys {
		parts = append(parts, fmt.Sprintf("%s=%v", k, m.Logs[k]))
	}
	keys = keys[:0]
	for k := range m.InQ {
		keys = append(keys, k)
	}
	sort.Strings(keys)
	for _, k := range keys {
		parts = append(parts, fmt.Sprintf("in:%s=%v", k, m.InQ[k]))
	}
	keys = keys[:0]
	for k := range m.OutQ {
		keys = append(keys, k)
	}
	sort.Strings(keys)
	for _, k := range keys {
		parts = append(parts, fmt.Sprintf("out:%s=%v", k, m.OutQ[k]))
	}
	return strings.Join(parts, " ")
}

func eqInts(a, b []int32) bool {
	if len(a) != len(b) {
		return false
	}
	for i := range a {
		if a[i] != b[i] {
			return false
		}
	}
	return true
}

package main

import (
	"github.com/DistCompiler/pgo/distsys"
)

func (cr *caseRun) execLog(iface distsys.ArchetypeInterface, h distsys.ArchetypeResourceHandle, ri *resInst, k int, op Op, from *int32,
	touched func(), refused func(error) error) (int32, bool, error) {
	return 0, false, nil
}

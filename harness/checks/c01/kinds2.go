package main

// Resource kinds beyond the prototype's seven: CustomInChan, TCP mailboxes, relaxed mailboxes, SingleOutputChan,
// Persistent(Local | Local indexed | LocalShared), raftkvs PersistentLog, CRDT(GCounter), TwoPC, NewNested.

import (
	"bytes"
	"encoding/gob"
	"errors"
	"fmt"
	"net"
	"path/filepath"
	"strconv"
	"sync"
	"sync/atomic"
	"time"

	"github.com/DistCompiler/pgo/distsys"
	"github.com/DistCompiler/pgo/distsys/resources"
	"github.com/DistCompiler/pgo/distsys/tla"
	"github.com/DistCompiler/pgo/systems/raftkvs"
	"github.com/dgraph-io/badger/v3"
)

var zeroIface = distsys.ArchetypeInterface{}

func init() {
	protoTable["cin"] = &resInst{name: "cin", param: "cin", kind: "custominchan", class: clsIn, queue: "cin", noStarve: true}
	protoTable["tcpin"] = &resInst{name: "tcpin", param: "net", kind: "tcp-mailbox-local", class: clsIn, queue: "tcpin"}
	protoTable["tcpout"] = &resInst{name: "tcpout", param: "net", kind: "tcp-mailbox-remote", class: clsOut, queue: "tcpout"}
	protoTable["tcpsub"] = &resInst{name: "tcpsub", param: "fmap", kind: "tcp-mailbox-remote", class: clsOut, queue: "tcpsub"}
	protoTable["rlxin"] = &resInst{name: "rlxin", param: "rnet", kind: "relaxed-mailbox-local", class: clsIn, queue: "rlxin"}
	protoTable["rlxout"] = &resInst{name: "rlxout", param: "rnet", kind: "relaxed-mailbox-remote", class: clsOut, queue: "rlxout", loud: true}
	protoTable["sout"] = &resInst{name: "sout", param: "sout", kind: "singleoutputchan", class: clsOut, queue: "sout", loud: true, loudOnTouch: true}
	protoTable["pers"] = &resInst{name: "pers", param: "pers", kind: "persistent-local", class: clsCell, keys: [][]int{nil}, persist: "pers"}
	protoTable["persi"] = &resInst{name: "persi", param: "persi", kind: "persistent-local", class: clsCell, keys: [][]int{{1}, {2}}, persist: "persi"}
	protoTable["persh"] = &resInst{name: "persh", param: "persh", kind: "persistent-localshared", class: clsCell, keys: [][]int{nil}, persist: "persh"}
	protoTable["plog"] = &resInst{name: "plog", param: "plog", kind: "raftkvs-persistentlog", class: clsLog, queue: "plog"}
	protoTable["crdt"] = &resInst{name: "crdt", param: "crdt", kind: "crdt-gcounter", class: clsCounter, keys: [][]int{nil}}
	protoTable["tpc"] = &resInst{name: "tpc", param: "tpc", kind: "twopc", class: clsCell, keys: [][]int{nil}}
	protoTable["tpcsub"] = &resInst{name: "tpcsub", param: "fmap", kind: "twopc", class: clsCell, keys: [][]int{{4}}}
	protoTable["nest"] = &resInst{name: "nest", param: "nest", kind: "nested-archetype", class: clsCell, keys: [][]int{nil}, slowable: true}
	allInsts = append(allInsts, "persi")

	builders["cin"] = func(w *world) error {
		ch := make(chan tla.Value, 4096)
		ri := proto("cin")
		ri.feed = func(cr *caseRun, vals []int32) error {
			for _, v := range vals {
				ch <- tla.MakeNumber(v)
			}
			return nil
		}
		w.addInst(ri, w.wrapRes("cin", "custominchan", raftkvs.NewCustomInChan(ch, 5*time.Second)))
		return nil
	}
	builders["tcp"] = func(w *world) error { return buildMailboxes(w, false) }
	builders["rlx"] = func(w *world) error { return buildMailboxes(w, true) }
	builders["sout"] = func(w *world) error {
		ch := make(chan tla.Value, 4096)
		ri := proto("sout")
		ri.observe = func(cr *caseRun) {
			var got []int32
			for {
				select {
				case v := <-ch:
					t, ok := numDec(v.StripVClock())
					if !ok {
						t = -1
					}
					got = append(got, t)
					continue
				default:
				}
				break
			}
			cr.compareOut(ri, got, "Go channel far end")
		}
		w.addInst(ri, w.wrapRes("sout", "singleoutputchan", resources.NewSingleOutputChan(ch)))
		return nil
	}
	builders["pers"] = func(w *world) error {
		return buildPersistent(w, "pers", distsys.NewLocalArchetypeResource(tla.MakeNumber(0)), nil)
	}
	builders["persi"] = func(w *world) error {
		return buildPersistent(w, "persi", distsys.NewLocalArchetypeResource(tla.MakeTuple(tla.MakeNumber(0), tla.MakeNumber(0))), nil)
	}
	builders["persh"] = func(w *world) error {
		shm := resources.NewLocalSharedManager(tla.MakeNumber(0), resources.WithLocalSharedResourceTimeout(20*time.Millisecond))
		return buildPersistent(w, "persh", shm.MakeLocalShared(), shm.MakeLocalShared())
	}
	builders["plog"] = buildPlog
	builders["crdt"] = buildCRDT
	builders["tpc"] = buildTwoPC
	builders["nest"] = buildNested
}

func freeAddr() string {
	l, err := net.Listen("tcp", "127.0.0.1:0")
	if err != nil {
		panic(err)
	}
	a := l.Addr().String()
	l.Close()
	return a
}

// ---------------------------------------------------------------- mailboxes

func buildMailboxes(w *world, relaxed bool) error {
	addrMain, addrPeer := freeAddr(), freeAddr()
	// write/dial timeouts far beyond anything machine load can cause: a commit ack that arrives after the write
	// timeout makes the sender resend the batch (C06's known defect), which is not what this check is about
	opts := []resources.MailboxesOption{resources.WithMailboxesReadTimeout(30 * time.Millisecond),
		resources.WithMailboxesWriteTimeout(60 * time.Second), resources.WithMailboxesDialTimeout(10 * time.Second)}
	mk := func(fn resources.MailboxesAddressMappingFn) *resources.Mailboxes {
		if relaxed {
			return resources.NewRelaxedMailboxes(fn, opts...)
		}
		return resources.NewTCPMailboxes(fn, opts...)
	}
	one, two := tla.MakeNumber(1), tla.MakeNumber(2)
	mainMB := mk(func(i tla.Value) (resources.MailboxKind, string) {
		if i.Equal(one) {
			return resources.MailboxesLocal, addrMain
		}
		return resources.MailboxesRemote, addrPeer
	})
	peerMB := mk(func(i tla.Value) (resources.MailboxKind, string) { return resources.MailboxesLocal, addrPeer })
	senderMB := mk(func(i tla.Value) (resources.MailboxKind, string) { return resources.MailboxesRemote, addrMain })
	// listeners exist from the start (a mailbox is realised on first Index); Commit clears the map's dirty set again
	if _, err := mainMB.Index(zeroIface, one); err != nil {
		return err
	}
	mainMB.Commit(zeroIface)
	if _, err := peerMB.Index(zeroIface, two); err != nil {
		return err
	}
	peerMB.Commit(zeroIface)
	w.closers = append(w.closers, func() {
		go func() { // tcpMailboxesLocal.Close sleeps 500 ms
			defer func() { _ = recover() }()
			mainMB.Close()
			peerMB.Close()
			senderMB.Close()
		}()
	})
	param, inName, outName, kind := "net", "tcpin", "tcpout", "tcp-mailboxes"
	if relaxed {
		param, inName, outName, kind = "rnet", "rlxin", "rlxout", "relaxed-mailboxes"
	}
	top := w.wrapRes(param, kind, mainMB)
	in := proto(inName)
	in.idxVals = func([]int) []tla.Value { return []tla.Value{one} }
	in.feed = func(cr *caseRun, vals []int32) error {
		// a second archetype sends the values to the mailbox in one committed section
		return runHelper(3, senderMB, 100, func(iface distsys.ArchetypeInterface, h distsys.ArchetypeResourceHandle) error {
			if relaxed && len(vals) > 1 {
				vals = vals[:1] // at most one relaxed send per section
			}
			for _, v := range vals {
				if err := iface.Write(h, []tla.Value{one}, tla.MakeNumber(v)); err != nil {
					return err
				}
			}
			return nil
		})
	}
	if relaxed {
		feed := in.feed
		in.feed = func(cr *caseRun, vals []int32) error {
			for _, v := range vals {
				if err := feed(cr, []int32{v}); err != nil {
					return err
				}
			}
			return nil
		}
	}
	out := proto(outName)
	out.idxVals = func([]int) []tla.Value { return []tla.Value{two} }
	out.farDrain = func(cr *caseRun, marker int32) ([]int32, error) {
		// a second archetype owning the peer mailbox takes one message per committed section until the marker
		var got []int32
		for len(got) < 256 {
			var v tla.Value
			err := runHelper(2, peerMB, 200, func(iface distsys.ArchetypeInterface, h distsys.ArchetypeResourceHandle) error {
				var e error
				v, e = iface.Read(h, []tla.Value{two})
				return e
			})
			if err != nil {
				return got, err
			}
			t, ok := numDec(v)
			if !ok {
				t = -1
			}
			got = append(got, t)
			if t == marker {
				return got, nil
			}
		}
		return got, errors.New("no marker within 256 messages")
	}
	w.addInst(in, top)
	w.addInst(out, top)
	return nil
}

// buildTCPSub puts a real TCP mailbox collection (remote end) under the harness map "fmap", next to the child
// whose PreCommit fails: fmap[3][2] := msg. The peer mailbox is read by a second archetype.
func buildTCPSub(w *world) error {
	addrPeer := freeAddr()
	// write/dial timeouts far beyond anything machine load can cause: a commit ack that arrives after the write
	// timeout makes the sender resend the batch (C06's known defect), which is not what this check is about
	opts := []resources.MailboxesOption{resources.WithMailboxesReadTimeout(30 * time.Millisecond),
		resources.WithMailboxesWriteTimeout(60 * time.Second), resources.WithMailboxesDialTimeout(10 * time.Second)}
	two, three := tla.MakeNumber(2), tla.MakeNumber(3)
	// the sender reaches the peer through a relay that delays the peer's answers (acks) by a few milliseconds, so a
	// pre-commit handshake abandoned by the map is still in flight while the retry already uses the connection
	relay, err := newDelayRelay(addrPeer, 3*time.Millisecond)
	if err != nil {
		return err
	}
	w.closers = append(w.closers, relay.close)
	subMB := resources.NewTCPMailboxes(func(tla.Value) (resources.MailboxKind, string) { return resources.MailboxesRemote, relay.addr }, opts...)
	peerMB := resources.NewTCPMailboxes(func(tla.Value) (resources.MailboxKind, string) { return resources.MailboxesLocal, addrPeer }, opts...)
	if _, err := peerMB.Index(zeroIface, two); err != nil {
		return err
	}
	peerMB.Commit(zeroIface)
	w.closers = append(w.closers, func() {
		go func() {
			defer func() { _ = recover() }()
			subMB.Close()
			peerMB.Close()
		}()
	})
	w.fmapSub = w.wrapRes("fmap[3]", "tcp-mailboxes", subMB)
	out := proto("tcpsub")
	out.idxVals = func([]int) []tla.Value { return []tla.Value{three, two} }
	out.farDrain = func(cr *caseRun, marker int32) ([]int32, error) {
		var got []int32
		for len(got) < 256 {
			var v tla.Value
			err := runHelper(2, peerMB, 200, func(iface distsys.ArchetypeInterface, h distsys.ArchetypeResourceHandle) error {
				var e error
				v, e = iface.Read(h, []tla.Value{two})
				return e
			})
			if err != nil {
				return got, err
			}
			t, ok := numDec(v)
			if !ok {
				t = -1
			}
			got = append(got, t)
			if t == marker {
				return got, nil
			}
		}
		return got, errors.New("no marker within 256 messages")
	}
	w.addInst(out, nil)
	return nil
}

// ---------------------------------------------------------------- persistence

func (sh *childShared) badger() (*badger.DB, error) {
	sh.dbMu.Lock()
	defer sh.dbMu.Unlock()
	if sh.db != nil {
		return sh.db, nil
	}
	opts := badger.DefaultOptions(filepath.Join(sh.scratch, "badger")).WithLogger(nil).
		WithMemTableSize(8 << 20).WithValueLogFileSize(32 << 20).WithNumMemtables(2).
		WithBlockCacheSize(1 << 20).WithIndexCacheSize(1 << 20).WithNumCompactors(2)
	db, err := badger.Open(opts)
	if err != nil {
		return nil, err
	}
	sh.db = db
	return db, nil
}

func badgerGet(db *badger.DB, key string) (val tla.Value, found bool, err error) {
	err = db.View(func(txn *badger.Txn) error {
		item, e := txn.Get([]byte(key))
		if e == badger.ErrKeyNotFound {
			return nil
		}
		if e != nil {
			return e
		}
		found = true
		return item.Value(func(b []byte) error {
			return gob.NewDecoder(bytes.NewReader(b)).Decode(&val)
		})
	})
	return
}

func buildPersistent(w *world, name string, inner resources.Persistable, second resources.Persistable) error {
	db, err := w.shared.badger()
	if err != nil {
		return err
	}
	storeName := w.id + "-" + name
	ri := proto(name)
	indexed := len(ri.keys) > 1
	for _, k := range ri.keys {
		w.mod.Cells[ri.key(k)] = 0
	}
	symDur := "durable-state-differs"
	if indexed {
		// the durable copy of a variable that is (also) written through an index
		symDur = "durable-copy-of-indexed-variable-differs"
	}
	ri.observe = func(cr *caseRun) {
		v, found, err := badgerGet(db, "pres-"+storeName)
		if err != nil {
			cr.harness("badger read: %v", err)
			return
		}
		want, has := cr.w.mod.Stored[ri.persist]
		switch {
		case !has && found:
			cr.violate(ri.kind, "durable-state-differs", "badger key pres-%s holds %s although no committed section wrote %s", storeName, v.String(), name)
		case has && !found:
			cr.violate(ri.kind, symDur, "badger key pres-%s is absent, committed model %s", storeName, want)
		case has && v.String() != want:
			sym := symDur
			cr.violate(ri.kind, sym, "badger key pres-%s holds %s, committed model %s", storeName, v.String(), want)
		}
		if second != nil {
			sv, err := lockedState(second)
			if err != nil {
				cr.violate(ri.kind, "shared-variable-left-locked", "%s: %v", name, err)
				return
			}
			cr.compareCell(ri, nil, sv, "second-sharer view (GetState)")
		}
	}
	ri.storedString = func(m *model) string {
		if !indexed {
			return strconv.Itoa(int(m.Cells[ri.key(nil)]))
		}
		return tla.MakeTuple(tla.MakeNumber(m.Cells[ri.key([]int{1})]), tla.MakeNumber(m.Cells[ri.key([]int{2})])).String()
	}
	w.addInst(ri, w.wrapRes(name, ri.kind, resources.MakePersistent(storeName, db, inner)))
	return nil
}

// lockedState reads a shared variable's committed value through another sharer; between attempts nobody holds
// the lock, so a GetState that does not return means the previous attempt left the variable locked.
func lockedState(p resources.Persistable) (tla.Value, error) {
	type res struct {
		v   tla.Value
		err error
	}
	ch := make(chan res, 1)
	go func() {
		v, err := decodeState(p.GetState())
		ch <- res{v, err}
	}()
	select {
	case r := <-ch:
		return r.v, r.err
	case <-time.After(5 * time.Second): // 250 of the variable's own lock timeouts
		return tla.Value{}, errors.New("the variable's lock was not released after the attempt finished (second sharer blocked for 250 lock-timeout periods)")
	}
}

var (
	logConcat = tla.MakeString("log_concat")
	logPop    = tla.MakeString("log_pop")
)

func buildPlog(w *world) error {
	db, err := w.shared.badger()
	if err != nil {
		return err
	}
	storeName := w.id + "-plog"
	ri := proto("plog")
	ri.observe = func(cr *caseRun) {
		want := cr.w.mod.Logs["plog"]
		for i := 0; i <= len(want)+2; i++ {
			v, found, err := badgerGet(db, fmt.Sprintf("raftkvs.plog.%v.%d", storeName, i))
			if err != nil {
				cr.harness("badger read: %v", err)
				return
			}
			switch {
			case i < len(want) && !found:
				cr.violate(ri.kind, "durable-state-differs", "badger has no entry %d of the log, committed model %v", i, want)
				return
			case i < len(want):
				if t, ok := numDec(v); !ok || t != want[i] {
					cr.violate(ri.kind, "durable-state-differs", "badger entry %d of the log is %s, committed model %v", i, v.String(), want)
					return
				}
			case found:
				cr.violate(ri.kind, "durable-state-differs", "badger holds entry %d (%s) beyond the committed log %v", i, v.String(), want)
				return
			}
		}
	}
	w.addInst(ri, w.wrapRes("plog", ri.kind, raftkvs.NewPersistentLog(storeName, db)))
	return nil
}

func (cr *caseRun) execLog(iface distsys.ArchetypeInterface, h distsys.ArchetypeResourceHandle, ri *resInst, k int, op Op, from *int32,
	touched func(), refused func(error) error) (int32, bool, error) {
	cur := cr.trial.Logs[ri.queue]
	if op.Kind == "write" {
		var val tla.Value
		var next []int32
		var what string
		if op.Hint%3 == 0 && len(cur) > 0 {
			cnt := 1 + op.Hint%len(cur)
			val = tla.MakeRecord([]tla.RecordField{{Key: tla.MakeString("cmd"), Value: logPop}, {Key: tla.MakeString("cnt"), Value: tla.MakeNumber(int32(cnt))}})
			next = append([]int32(nil), cur[:len(cur)-cnt]...)
			what = fmt.Sprintf("pop %d", cnt)
		} else {
			n := 1 + op.Hint%2
			var entries []tla.Value
			next = append([]int32(nil), cur...)
			for i := 0; i < n; i++ {
				v := cr.fresh()
				if i == 0 && from != nil {
					v = *from
				}
				entries = append(entries, tla.MakeNumber(v))
				next = append(next, v)
			}
			val = tla.MakeRecord([]tla.RecordField{{Key: tla.MakeString("cmd"), Value: logConcat}, {Key: tla.MakeString("entries"), Value: tla.MakeTuple(entries...)}})
			what = fmt.Sprintf("concat %v", next[len(cur):])
		}
		if e := iface.Write(h, nil, val); e != nil {
			return 0, false, refused(e)
		}
		touched()
		cr.trial.Logs[ri.queue] = next
		cr.histf("  op %d write %s %s", k, ri.name, what)
		return 0, false, nil
	}
	if len(op.Idx) == 1 && len(cur) > 0 {
		i := 1 + op.Idx[0]%len(cur)
		v, e := iface.Read(h, []tla.Value{tla.MakeNumber(int32(i))})
		if e != nil {
			return 0, false, refused(e)
		}
		touched()
		cr.histf("  op %d read %s[%d] = %s", k, ri.name, i, v.String())
		if t, ok := numDec(v); !ok || t != cur[i-1] {
			cr.violate(ri.kind, "read-differs-from-model", "attempt %d op %d read %s[%d] = %s, model log %v", cr.attempt, k, ri.name, i, v.String(), cur)
		}
		return cur[i-1], true, nil
	}
	v, e := iface.Read(h, nil)
	if e != nil {
		return 0, false, refused(e)
	}
	touched()
	var want []tla.Value
	for _, x := range cur {
		want = append(want, tla.MakeNumber(x))
	}
	cr.histf("  op %d read %s = %s", k, ri.name, v.String())
	if !v.Equal(tla.MakeTuple(want...)) {
		cr.violate(ri.kind, "read-differs-from-model", "attempt %d op %d read %s = %s, model log %v", cr.attempt, k, ri.name, v.String(), cur)
	}
	return 0, false, nil
}

// ---------------------------------------------------------------- CRDT

func buildCRDT(w *world) error {
	one, two := tla.MakeNumber(1), tla.MakeNumber(2)
	addrs := map[int32]string{1: freeAddr(), 2: freeAddr()}
	fn := func(id tla.Value) string { return addrs[id.AsNumber()] }
	peers := []tla.Value{one, two}
	mainC := resources.NewCRDT(one, peers, fn, resources.GCounter{}, resources.WithCRDTBroadcastInterval(5*time.Millisecond))
	peerC := resources.NewCRDT(two, peers, fn, resources.GCounter{}, resources.WithCRDTBroadcastInterval(5*time.Millisecond))
	w.closers = append(w.closers, func() { mainC.Close(); peerC.Close() })
	ri := proto("crdt")
	ri.observe = func(cr *caseRun) {
		v, err := peerC.ReadValue(zeroIface)
		if err != nil {
			cr.harness("peer crdt read: %v", err)
			return
		}
		want := cr.w.mod.Cells["crdt"]
		if t, ok := numDec(v); !ok || t > want {
			cr.violate(ri.kind, "far-end-saw-uncommitted-increment", "peer replica counts %s, committed sections incremented to %d", v.String(), want)
		}
	}
	w.mod.Cells["crdt"] = 0
	w.addInst(ri, w.wrapRes("crdt", ri.kind, mainC))
	return nil
}

// ---------------------------------------------------------------- TwoPC

// rcvrHandle is a replica handle that reaches a 2PC node of the same process through its exported RPC method.
type rcvrHandle struct{ rcvr **resources.TwoPCReceiver }

func (h rcvrHandle) Send(req resources.TwoPCRequest, reply *resources.TwoPCResponse) chan error {
	ch := make(chan error, 1)
	ch <- (*h.rcvr).Receive(req, reply)
	return ch
}
func (h rcvrHandle) Close() error { return nil }

func buildTwoPC(w *world) error {
	ri, a, err := makeTwoPC(w, "tpc")
	if err != nil {
		return err
	}
	w.addInst(ri, w.wrapRes("tpc", ri.kind, a))
	return nil
}

// buildTwoPCSub puts a 2PC variable under the harness map "fmap" (fmap[4]), next to the child whose PreCommit fails.
func buildTwoPCSub(w *world) error {
	ri, a, err := makeTwoPC(w, "tpcsub")
	if err != nil {
		return err
	}
	w.fmapTpc = w.wrapRes("fmap[4]", ri.kind, a)
	w.addInst(ri, nil)
	return nil
}

func makeTwoPC(w *world, name string) (*resInst, distsys.ArchetypeResource, error) {
	var rcvA, rcvB *resources.TwoPCReceiver
	b := resources.NewTwoPC(tla.MakeNumber(0), "127.0.0.1:0", nil, tla.MakeString(w.id+"-"+name+"-B"), func(r *resources.TwoPCReceiver) { rcvB = r })
	a := resources.NewTwoPC(tla.MakeNumber(0), "127.0.0.1:0", []resources.ReplicaHandle{rcvrHandle{&rcvB}}, tla.MakeString(w.id+"-"+name+"-A"),
		func(r *resources.TwoPCReceiver) { rcvA = r })
	w.closers = append(w.closers, func() {
		a.Close()
		b.Close()
		resources.CloseTwoPCReceiver(rcvA)
		resources.CloseTwoPCReceiver(rcvB)
	})
	obs := tla.MakeString(w.id + "-observer")
	ri := proto(name)
	var cellIdx []int
	if len(ri.keys) > 0 {
		cellIdx = ri.keys[0]
	}
	ri.observe = func(cr *caseRun) {
		var rep resources.TwoPCResponse
		if err := rcvB.Receive(resources.TwoPCRequest{RequestType: resources.GetState, Sender: obs, SenderTime: time.Now().UnixNano()}, &rep); err != nil {
			cr.harness("2PC GetState: %v", err)
			return
		}
		cr.compareCell(ri, cellIdx, rep.Value, "replica state (GetState RPC)")
		// between attempts the replica must not be holding a pre-commit of the archetype under test: another
		// proposer's PreCommit for the next version has to be accepted (and is withdrawn again at once)
		var acc resources.TwoPCResponse
		probe := resources.TwoPCRequest{RequestType: resources.PreCommit, Value: tla.MakeNumber(0), Sender: obs, Version: rep.Version + 1, SenderTime: time.Now().UnixNano()}
		if err := rcvB.Receive(probe, &acc); err != nil {
			cr.harness("2PC probe PreCommit: %v", err)
			return
		}
		if !acc.Accept {
			cr.violate(ri.kind, "replica-still-holds-precommit", "after attempt %d (%s) the replica rejects another proposer's PreCommit for version %d: a pre-commit of the section is still in place", cr.attempt, cr.outcome, rep.Version+1)
			return
		}
		probe.RequestType, probe.SenderTime = resources.Abort, time.Now().UnixNano()
		if err := rcvB.Receive(probe, &acc); err != nil {
			cr.harness("2PC probe Abort: %v", err)
		}
	}
	w.mod.Cells[ri.key(cellIdx)] = 0
	return ri, a, nil
}

// ---------------------------------------------------------------- nested archetype

// nestedCell is a hand-built MPCal archetype implementing a one-cell resource behind resources.NewNested:
// one label that serves one request per critical section.
func nestedCell(slow *int32) distsys.MPCalArchetype {
	str := tla.MakeString
	rec := func(tpe string, extra ...tla.RecordField) tla.Value {
		return tla.MakeRecord(append(extra, tla.RecordField{Key: str("tpe"), Value: str(tpe)}))
	}
	body := func(iface distsys.ArchetypeInterface) error {
		in, err := iface.RequireArchetypeResourceRef("N.in")
		if err != nil {
			return err
		}
		out, err := iface.RequireArchetypeResourceRef("N.out")
		if err != nil {
			return err
		}
		cell := iface.RequireArchetypeResource("N.cell")
		stable := iface.RequireArchetypeResource("N.stable")
		req, err := iface.Read(in, nil)
		if err != nil {
			return err
		}
		if atomic.CompareAndSwapInt32(slow, 1, 0) {
			time.Sleep(150 * time.Millisecond) // a slow implementation: the caller's request times out (100 ms)
		}
		var resp tla.Value
		switch req.ApplyFunction(str("tpe")).AsString() {
		case "read_req":
			v, err := iface.Read(cell, nil)
			if err != nil {
				return err
			}
			resp = rec("read_ack", tla.RecordField{Key: str("value"), Value: v})
		case "write_req":
			if err := iface.Write(cell, nil, req.ApplyFunction(str("value"))); err != nil {
				return err
			}
			resp = rec("write_ack")
		case "precommit_req":
			resp = rec("precommit_ack")
		case "commit_req":
			v, err := iface.Read(cell, nil)
			if err != nil {
				return err
			}
			if err := iface.Write(stable, nil, v); err != nil {
				return err
			}
			resp = rec("commit_ack")
		case "abort_req":
			v, err := iface.Read(stable, nil)
			if err != nil {
				return err
			}
			if err := iface.Write(cell, nil, v); err != nil {
				return err
			}
			resp = rec("abort_ack")
		default:
			return fmt.Errorf("nested cell: unknown request %v", req)
		}
		if err := iface.Write(out, nil, resp); err != nil {
			return err
		}
		return iface.Goto("N.loop")
	}
	return distsys.MPCalArchetype{Name: "N", Label: "N.loop", RequiredRefParams: []string{"N.in", "N.out"},
		JumpTable: distsys.MakeMPCalJumpTable(distsys.MPCalCriticalSection{Name: "N.loop", Body: body}),
		ProcTable: distsys.MakeMPCalProcTable(),
		PreAmble: func(iface distsys.ArchetypeInterface) {
			iface.EnsureArchetypeResourceLocal("N.cell", tla.MakeNumber(0))
			iface.EnsureArchetypeResourceLocal("N.stable", tla.MakeNumber(0))
		}}
}

func buildNested(w *world) error {
	slow := new(int32)
	res := resources.NewNested(func(sendCh chan<- tla.Value, receiveCh <-chan tla.Value) []*distsys.MPCalContext {
		return []*distsys.MPCalContext{distsys.NewMPCalContext(tla.MakeString(w.id+"-nested"), nestedCell(slow),
			distsys.EnsureArchetypeRefParam("in", resources.NewInputChan(receiveCh, resources.WithInputChanReadTimeout(10*time.Millisecond))),
			distsys.EnsureArchetypeRefParam("out", resources.NewOutputChan(sendCh)))}
	})
	w.closers = append(w.closers, func() {
		if w.dead {
			return // an Abort goroutine may still be waiting for the nested archetype; stopping it now would panic there
		}
		res.Close()
	})
	ri := proto("nest")
	w.mod.Cells["nest"] = 0
	wr := w.wrapRes("nest", ri.kind, res)
	// slow-resource fault: the next request takes longer than the resource's own timeout, and the refusal reaches
	// the context only after the nested archetype has finished (the caller was descheduled meanwhile)
	ri.makeSlow = func(on bool) {
		if on {
			atomic.StoreInt32(slow, 1)
			wr.refusalDelay = 120 * time.Millisecond
		} else {
			wr.refusalDelay = 0
		}
	}
	w.addInst(ri, wr)
	return nil
}

var _ = sync.Mutex{}

// delayRelay forwards TCP connections to target; bytes travelling back from the target are delayed.
type delayRelay struct {
	addr string
	l    net.Listener
}

func newDelayRelay(target string, back time.Duration) (*delayRelay, error) {
	l, err := net.Listen("tcp", "127.0.0.1:0")
	if err != nil {
		return nil, err
	}
	r := &delayRelay{addr: l.Addr().String(), l: l}
	go func() {
		for {
			c, err := l.Accept()
			if err != nil {
				return
			}
			go func() {
				s, err := net.Dial("tcp", target)
				if err != nil {
					c.Close()
					return
				}
				go func() {
					buf := make([]byte, 4096)
					for {
						n, err := c.Read(buf)
						if n > 0 {
							s.Write(buf[:n])
						}
						if err != nil {
							s.Close()
							return
						}
					}
				}()
				buf := make([]byte, 4096)
				for {
					n, err := s.Read(buf)
					if n > 0 {
						time.Sleep(back)
						c.Write(buf[:n])
					}
					if err != nil {
						c.Close()
						return
					}
				}
			}()
		}
	}()
	return r, nil
}

func (r *delayRelay) close() { r.l.Close() }

package main

// Harness-side resources of the secdrv engine (DESIGN §2 E1):
//
//   - wrap: a probe/wrapper resource that forwards every distsys.ArchetypeResource call to a real resource
//     and logs it (with the completion of asynchronous PreCommit/Commit/Abort) to the world's recorder;
//   - faultRes: a leaf resource that refuses its k-th operation or its PreCommit with ErrCriticalSectionAborted
//     (optionally after a delay);
//   - a slow but successful PreCommit is a wrap with pcDelay > 0.

import (
	"fmt"
	"strconv"
	"sync"
	"time"

	"github.com/DistCompiler/pgo/distsys"
	"github.com/DistCompiler/pgo/distsys/tla"
)

type callRec struct {
	Seq  int64  `json:"seq"`
	Res  string `json:"res"`
	Call string `json:"call"`
	Arg  string `json:"arg,omitempty"`
	Err  string `json:"err,omitempty"`
}

// recorder is the in-memory event log of one world; cut() slices it into attempts.
type recorder struct {
	mu    sync.Mutex
	seq   int64
	recs  []callRec
	total int64
}

func (r *recorder) add(res, call, arg string, err error) int64 {
	r.mu.Lock()
	defer r.mu.Unlock()
	r.seq++
	r.total++
	rec := callRec{Seq: r.seq, Res: res, Call: call, Arg: arg}
	if err != nil {
		rec.Err = err.Error()
	}
	r.recs = append(r.recs, rec)
	return r.seq
}

func (r *recorder) cut() []callRec {
	r.mu.Lock()
	defer r.mu.Unlock()
	out := r.recs
	r.recs = nil
	return out
}

// wrap forwards to inner and logs. Close is not forwarded (resources outlive the per-case contexts; the
// world closes them), it is only logged.
type wrap struct {
	name    string
	kind    string // evidence kind of the wrapped real resource; "" for harness-only resources
	inner   distsys.ArchetypeResource
	rec     *recorder
	pcDelay time.Duration // > 0: PreCommit succeeds (or fails) only after this delay — the "slow sibling"
	// refusalDelay > 0: a refused Read/Write is handed back to the context only after this delay (the calling
	// goroutine being descheduled between the resource's timeout and the context's abort)
	refusalDelay time.Duration
}

var _ distsys.ArchetypeResource = &wrap{}

func (w *wrap) Index(iface distsys.ArchetypeInterface, index tla.Value) (distsys.ArchetypeResource, error) {
	sub, err := w.inner.Index(iface, index)
	w.rec.add(w.name, "Index", index.String(), err)
	return sub, err
}

func (w *wrap) ReadValue(iface distsys.ArchetypeInterface) (tla.Value, error) {
	v, err := w.inner.ReadValue(iface)
	if err != nil && w.refusalDelay > 0 {
		time.Sleep(w.refusalDelay)
	}
	arg := ""
	if err == nil {
		arg = v.StripVClock().String()
	}
	w.rec.add(w.name, "Read", arg, err)
	return v, err
}

func (w *wrap) WriteValue(iface distsys.ArchetypeInterface, value tla.Value) error {
	err := w.inner.WriteValue(iface, value)
	if err != nil && w.refusalDelay > 0 {
		time.Sleep(w.refusalDelay)
	}
	w.rec.add(w.name, "Write", value.StripVClock().String(), err)
	return err
}

func (w *wrap) PreCommit(iface distsys.ArchetypeInterface) chan error {
	id := strconv.FormatInt(w.rec.add(w.name, "PreCommit", "", nil), 10)
	ch := w.inner.PreCommit(iface)
	if ch == nil && w.pcDelay == 0 {
		w.rec.add(w.name, "PreCommitDone", id, nil)
		return nil
	}
	out := make(chan error, 1)
	go func() {
		var err error
		if ch != nil {
			err = <-ch
		}
		if w.pcDelay > 0 {
			time.Sleep(w.pcDelay)
		}
		w.rec.add(w.name, "PreCommitDone", id, err)
		out <- err
	}()
	return out
}

func (w *wrap) Commit(iface distsys.ArchetypeInterface) chan struct{} {
	w.rec.add(w.name, "Commit", "", nil)
	ch := w.inner.Commit(iface)
	if ch == nil {
		w.rec.add(w.name, "CommitDone", "", nil)
		return nil
	}
	out := make(chan struct{}, 1)
	go func() {
		<-ch
		w.rec.add(w.name, "CommitDone", "", nil)
		out <- struct{}{}
	}()
	return out
}

func (w *wrap) Abort(iface distsys.ArchetypeInterface) chan struct{} {
	w.rec.add(w.name, "Abort", "", nil)
	ch := w.inner.Abort(iface)
	if ch == nil {
		w.rec.add(w.name, "AbortDone", "", nil)
		return nil
	}
	out := make(chan struct{}, 1)
	go func() {
		<-ch
		w.rec.add(w.name, "AbortDone", "", nil)
		out <- struct{}{}
	}()
	return out
}

func (w *wrap) Close() error {
	w.rec.add(w.name, "Close", "", nil)
	return nil
}

// faultRes refuses operations on request.
type faultRes struct {
	distsys.ArchetypeResourceLeafMixin
	mu      sync.Mutex
	failOps int           // the next failOps Read/Write calls return ErrCriticalSectionAborted
	failPC  int           // the next failPC PreCommit calls yield ErrCriticalSectionAborted
	pcDelay time.Duration // delay before a PreCommit failure is delivered
}

var _ distsys.ArchetypeResource = &faultRes{}

func (r *faultRes) armOp(n int) { r.mu.Lock(); r.failOps = n; r.mu.Unlock() }
func (r *faultRes) armPC(n int, delay time.Duration) {
	r.mu.Lock()
	r.failPC = n
	r.pcDelay = delay
	r.mu.Unlock()
}

func (r *faultRes) takeOp() bool {
	r.mu.Lock()
	defer r.mu.Unlock()
	if r.failOps > 0 {
		r.failOps--
		return true
	}
	return false
}

func (r *faultRes) ReadValue(distsys.ArchetypeInterface) (tla.Value, error) {
	if r.takeOp() {
		return tla.Value{}, distsys.ErrCriticalSectionAborted
	}
	return tla.ModuleTRUE, nil
}

func (r *faultRes) WriteValue(distsys.ArchetypeInterface, tla.Value) error {
	if r.takeOp() {
		return distsys.ErrCriticalSectionAborted
	}
	return nil
}

func (r *faultRes) PreCommit(distsys.ArchetypeInterface) chan error {
	r.mu.Lock()
	fail := r.failPC > 0
	if fail {
		r.failPC--
	}
	d := r.pcDelay
	r.mu.Unlock()
	ch := make(chan error, 1)
	var err error
	if fail {
		err = distsys.ErrCriticalSectionAborted
	}
	if fail && d > 0 {
		go func() {
			time.Sleep(d)
			ch <- err
		}()
	} else {
		ch <- err
	}
	return ch
}

func (r *faultRes) Commit(distsys.ArchetypeInterface) chan struct{} { return nil }
func (r *faultRes) Abort(distsys.ArchetypeInterface) chan struct{}  { return nil }
func (r *faultRes) Close() error                                    { return nil }

// noClose shields a helper-side real resource from the per-run Close of helper contexts.
type noClose struct{ distsys.ArchetypeResource }

func (noClose) Close() error { return nil }

func fmtIdx(idx []int) string {
	s := ""
	for _, i := range idx {
		s += fmt.Sprintf("[%d]", i)
	}
	return s
}

package main

// A world is a set of real resources (each behind a logging wrapper) together with the abstract model of
// their state. Resources live as long as the world; every case binds them to a fresh MPCalContext.

import (
	"bytes"
	"encoding/gob"
	"fmt"
	"os"
	"path/filepath"
	"strconv"
	"time"

	"github.com/DistCompiler/pgo/distsys"
	"github.com/DistCompiler/pgo/distsys/hashmap"
	"github.com/DistCompiler/pgo/distsys/resources"
	"github.com/DistCompiler/pgo/distsys/tla"
)

const (
	clsCell = iota
	clsCounter
	clsLog
	clsIn
	clsOut
)

// resInst describes one resource instance a program can operate on.
type resInst struct {
	name         string // name used in ops
	param        string // archetype ref parameter it is reached through (several instances may share one)
	kind         string // evidence kind ("" = harness-only)
	class        int
	keys         [][]int               // index paths of every cell (nil path = the resource itself)
	queue        string                // model queue/log name for clsIn/clsOut/clsLog
	persist      string                // model key of the durable copy (Persistent wrappers)
	storedString func(m *model) string // rendering of the value the durable copy must hold

	idxVals func(idx []int) []tla.Value
	enc     func(v int32) tla.Value
	dec     func(v tla.Value) (int32, bool)

	infallible  bool // operations and (pre)commit cannot be refused: allowed after a relaxed send
	loud        bool // a successful write cannot be rolled back: an abort afterwards must panic (documented)
	loudOnTouch bool // SingleOutputChan: Abort panics whenever the handle is dirty, also after a write that timed out
	noStarve    bool // an empty queue does not abort the reader (CustomInChan)
	slowable    bool // the resource has its own operation timeout and can be made slower than it
	makeSlow    func(on bool)

	// observe compares externally visible state (far end, durable store) with the committed model.
	observe func(cr *caseRun)
	// feed makes vals available at the real input queue (external event).
	feed func(cr *caseRun, vals []int32) error
	// farDrain takes messages at the far end of an output link until the marker shows up.
	farDrain func(cr *caseRun, marker int32) ([]int32, error)
}

func (ri *resInst) key(idx []int) string {
	k := ri.name
	for _, i := range idx {
		k += "/" + strconv.Itoa(i)
	}
	return k
}

type world struct {
	id           string
	dir          string
	rec          *recorder
	mod          *model
	insts        map[string]*resInst
	params       map[string]distsys.ArchetypeResource // param name -> wrapped resource
	wraps        map[string]*wrap                     // wrapper name -> wrapper (top-level and map children)
	flt          *faultRes
	fchild       *faultRes
	fmapInc      bool
	fmapSub      *wrap
	fmapTpc      *wrap
	casesRun     int
	mapFaultSeen bool // a PreCommit failure under the harness map happened in this world (abandoned sibling pre-commits possible)
	closers      []func()
	dead         bool
	shared       *childShared
}

func numEnc(v int32) tla.Value { return tla.MakeNumber(v) }
func numDec(v tla.Value) (tok int32, ok bool) {
	defer func() {
		if recover() != nil {
			ok = false
		}
	}()
	if !v.IsNumber() {
		return 0, false
	}
	return v.AsNumber(), true
}
func strEnc(v int32) tla.Value { return tla.MakeString(strconv.Itoa(int(v))) }
func strDec(v tla.Value) (tok int32, ok bool) {
	defer func() {
		if recover() != nil {
			ok = false
		}
	}()
	if !v.IsString() {
		return 0, false
	}
	n, err := strconv.Atoi(v.AsString())
	if err != nil {
		return 0, false
	}
	return int32(n), true
}

func numIdx(idx []int) []tla.Value {
	var out []tla.Value
	for _, i := range idx {
		out = append(out, tla.MakeNumber(int32(i)))
	}
	return out
}

func (w *world) wrapRes(name, kind string, inner distsys.ArchetypeResource) *wrap {
	wr := &wrap{name: name, kind: kind, inner: inner, rec: w.rec}
	w.wraps[name] = wr
	return wr
}

func (w *world) addInst(ri *resInst, top distsys.ArchetypeResource) {
	if ri.idxVals == nil {
		ri.idxVals = numIdx
	}
	if ri.enc == nil {
		ri.enc = numEnc
	}
	if ri.dec == nil {
		ri.dec = numDec
	}
	w.insts[ri.name] = ri
	if top != nil {
		w.params[ri.param] = top
	}
}

// all instance names in the order kinds were added to the check
var allInsts = []string{"loc", "idx", "imap", "hmap", "sh", "fs", "in", "out", "cin",
	"tcpin", "tcpout", "tcpsub", "tpcsub", "rlxin", "rlxout", "sout", "pers", "persh", "plog", "crdt", "tpc", "nest"}

// instGroups: instances that come together (share one bound resource)
var instGroup = map[string]string{"tcpin": "tcp", "tcpout": "tcp", "rlxin": "rlx", "rlxout": "rlx"}

func newWorld(id string, names []string, sh *childShared) (w *world, err error) {
	defer func() {
		if e := recover(); e != nil {
			err = fmt.Errorf("world construction panicked: %v", e)
			if w != nil {
				w.close()
			}
		}
	}()
	w = &world{id: id, rec: &recorder{}, mod: newModel(), insts: map[string]*resInst{},
		params: map[string]distsys.ArchetypeResource{}, wraps: map[string]*wrap{}, shared: sh}
	w.dir = filepath.Join(sh.scratch, id)
	if err := os.MkdirAll(w.dir, 0o755); err != nil {
		return nil, err
	}
	// harness resources, always present
	w.flt = &faultRes{}
	w.params["flt"] = w.wrapRes("flt", "", w.flt)
	slow := w.wrapRes("slow", "", distsys.NewLocalArchetypeResource(tla.MakeNumber(0)))
	slow.pcDelay = 2 * time.Millisecond
	w.addInst(&resInst{name: "slow", param: "slow", class: clsCell, keys: [][]int{nil}, infallible: true}, slow)
	w.mod.Cells["slow"] = 0
	w.fchild = &faultRes{}
	mkChild := func(k int) distsys.ArchetypeResource {
		name := fmt.Sprintf("fmap[%d]", k)
		switch k {
		case 0:
			return w.wrapRes(name, "", w.fchild)
		case 1:
			c := w.wrapRes(name, "", distsys.NewLocalArchetypeResource(tla.MakeNumber(0)))
			c.pcDelay = 2 * time.Millisecond
			return c
		case 3:
			if w.fmapSub != nil {
				return w.fmapSub
			}
		case 4:
			if w.fmapTpc != nil {
				return w.fmapTpc
			}
		}
		return w.wrapRes(name, "", distsys.NewLocalArchetypeResource(tla.MakeNumber(0)))
	}
	// a real TCP mailbox collection may live under the same map as the failing child (instance "tcpsub")
	for _, n := range names {
		if n == "tcpsub" {
			if err := buildTCPSub(w); err != nil {
				w.close()
				return nil, err
			}
		}
		if n == "tpcsub" {
			if err := buildTwoPCSub(w); err != nil {
				w.close()
				return nil, err
			}
		}
	}
	w.fmapInc = sh.worldSeq%2 == 0
	var fmapInner distsys.ArchetypeResource
	if w.fmapInc {
		fmapInner = resources.NewIncMap(func(index tla.Value) distsys.ArchetypeResource { return mkChild(int(index.AsNumber())) })
	} else {
		hm := hashmap.New[distsys.ArchetypeResource]()
		for k := 0; k < 5; k++ {
			hm.Set(tla.MakeNumber(int32(k)), mkChild(k))
		}
		fmapInner = resources.NewHashMap(hm)
	}
	w.addInst(&resInst{name: "fmap", param: "fmap", class: clsCell, keys: [][]int{{1}, {2}}, infallible: true}, w.wrapRes("fmap", "", fmapInner))
	w.mod.Cells["fmap/1"] = 0
	w.mod.Cells["fmap/2"] = 0

	done := map[string]bool{}
	for _, n := range names {
		g := n
		if gg, ok := instGroup[n]; ok {
			g = gg
		}
		if done[g] || g == "tcpsub" || g == "tpcsub" {
			continue
		}
		done[g] = true
		b, ok := builders[g]
		if !ok {
			return nil, fmt.Errorf("unknown resource instance %q", n)
		}
		if err := b(w); err != nil {
			w.close()
			return nil, err
		}
	}
	return w, nil
}

func (w *world) close() {
	if w == nil {
		return
	}
	for i := len(w.closers) - 1; i >= 0; i-- {
		func(f func()) {
			defer func() { _ = recover() }()
			f()
		}(w.closers[i])
	}
	w.closers = nil
	_ = os.RemoveAll(w.dir)
}

var builders = map[string]func(w *world) error{}

// protoTable: static descriptors of the resource instances (what the generator needs to know).
var protoTable = map[string]*resInst{
	"loc":  {name: "loc", param: "loc", kind: "local", class: clsCell, keys: [][]int{nil}, infallible: true},
	"idx":  {name: "idx", param: "idx", kind: "indexed-local", class: clsCell, keys: [][]int{{1, 1}, {1, 2}, {2, 1}, {2, 2}}, infallible: true},
	"imap": {name: "imap", param: "imap", kind: "incmap-of-locals", class: clsCell, keys: [][]int{{1}, {2}, {3}}, infallible: true},
	"hmap": {name: "hmap", param: "hmap", kind: "hashmap-of-locals", class: clsCell, keys: [][]int{{1}, {2}, {3}}, infallible: true},
	"sh":   {name: "sh", param: "sh", kind: "localshared", class: clsCell, keys: [][]int{nil}},
	"fs":   {name: "fs", param: "fs", kind: "filesystem", class: clsCell, keys: [][]int{{0}, {1}}, enc: strEnc, dec: strDec},
	"in":   {name: "in", param: "in", kind: "inputchan", class: clsIn, queue: "in"},
	"out":  {name: "out", param: "out", kind: "outputchan", class: clsOut, queue: "out", infallible: true},
}

func proto(name string) *resInst {
	c := *protoTable[name]
	return &c
}

// allKinds lists the kinds the property names, whether or not this check can exercise them.
func allKinds() []string {
	return []string{"local", "indexed-local", "incmap-of-locals", "hashmap-of-locals", "localshared", "filesystem",
		"inputchan", "outputchan", "custominchan", "tcp-mailbox-local", "tcp-mailbox-remote", "relaxed-mailbox-local",
		"relaxed-mailbox-remote", "singleoutputchan", "persistent-local", "persistent-localshared", "raftkvs-persistentlog",
		"crdt-gcounter", "twopc", "nested-archetype"}
}

func init() {
	builders["loc"] = func(w *world) error {
		w.addInst(proto("loc"),
			w.wrapRes("loc", "local", distsys.NewLocalArchetypeResource(tla.MakeNumber(0))))
		w.mod.Cells["loc"] = 0
		return nil
	}
	builders["idx"] = func(w *world) error {
		row := func() tla.Value { return tla.MakeTuple(tla.MakeNumber(0), tla.MakeNumber(0)) }
		w.addInst(proto("idx"),
			w.wrapRes("idx", "indexed-local", distsys.NewLocalArchetypeResource(tla.MakeTuple(row(), row()))))
		for _, k := range [][]int{{1, 1}, {1, 2}, {2, 1}, {2, 2}} {
			w.mod.Cells[fmt.Sprintf("idx/%d/%d", k[0], k[1])] = 0
		}
		return nil
	}
	builders["imap"] = func(w *world) error {
		inner := resources.NewIncMap(func(index tla.Value) distsys.ArchetypeResource {
			return w.wrapRes(fmt.Sprintf("imap[%s]", index.String()), "", distsys.NewLocalArchetypeResource(tla.MakeNumber(0)))
		})
		w.addInst(proto("imap"), w.wrapRes("imap", "incmap-of-locals", inner))
		for k := 1; k <= 3; k++ {
			w.mod.Cells[fmt.Sprintf("imap/%d", k)] = 0
		}
		return nil
	}
	builders["hmap"] = func(w *world) error {
		hm := hashmap.New[distsys.ArchetypeResource]()
		for k := 1; k <= 3; k++ {
			hm.Set(tla.MakeNumber(int32(k)), w.wrapRes(fmt.Sprintf("hmap[%d]", k), "", distsys.NewLocalArchetypeResource(tla.MakeNumber(0))))
			w.mod.Cells[fmt.Sprintf("hmap/%d", k)] = 0
		}
		w.addInst(proto("hmap"), w.wrapRes("hmap", "hashmap-of-locals", resources.NewHashMap(hm)))
		return nil
	}
	builders["sh"] = func(w *world) error {
		shm := resources.NewLocalSharedManager(tla.MakeNumber(0), resources.WithLocalSharedResourceTimeout(20*time.Millisecond))
		obs := shm.MakeLocalShared()
		ri := proto("sh")
		ri.observe = func(cr *caseRun) {
			// second sharer's view of the committed value (takes and releases the variable's lock)
			v, err := lockedState(obs)
			if err != nil {
				cr.violate(ri.kind, "shared-variable-left-locked", "sh: %v", err)
				return
			}
			cr.compareCell(ri, nil, v, "second-sharer view (GetState)")
		}
		w.addInst(ri, w.wrapRes("sh", "localshared", shm.MakeLocalShared()))
		w.mod.Cells["sh"] = 0
		return nil
	}
	builders["fs"] = func(w *world) error {
		dir := filepath.Join(w.dir, "fs")
		if err := os.MkdirAll(dir, 0o755); err != nil {
			return err
		}
		for k := 0; k < 2; k++ {
			if err := os.WriteFile(filepath.Join(dir, fmt.Sprintf("f%d", k)), []byte("0"), 0o644); err != nil {
				return err
			}
			w.mod.Cells[fmt.Sprintf("fs/%d", k)] = 0
		}
		ri := proto("fs")
		ri.idxVals = func(idx []int) []tla.Value { return []tla.Value{tla.MakeString(fmt.Sprintf("f%d", idx[0]))} }
		ri.observe = func(cr *caseRun) {
			for k := 0; k < 2; k++ {
				b, err := os.ReadFile(filepath.Join(dir, fmt.Sprintf("f%d", k)))
				if err != nil {
					cr.harness("fs read: %v", err)
					continue
				}
				cr.compareCell(ri, []int{k}, tla.MakeString(string(b)), "file content (os.ReadFile)")
			}
		}
		w.addInst(ri, w.wrapRes("fs", "filesystem", resources.NewFileSystem(dir)))
		return nil
	}
	builders["in"] = func(w *world) error {
		ch := make(chan tla.Value, 4096)
		ri := proto("in")
		ri.feed = func(cr *caseRun, vals []int32) error {
			for _, v := range vals {
				ch <- tla.MakeNumber(v)
			}
			return nil
		}
		w.addInst(ri, w.wrapRes("in", "inputchan", resources.NewInputChan(ch, resources.WithInputChanReadTimeout(5*time.Millisecond))))
		return nil
	}
	builders["out"] = func(w *world) error {
		ch := make(chan tla.Value, 4096)
		ri := proto("out")
		ri.observe = func(cr *caseRun) {
			var got []int32
			for {
				select {
				case v := <-ch:
					t, ok := numDec(v.StripVClock())
					if !ok {
						t = -1
					}
					got = append(got, t)
					continue
				default:
				}
				break
			}
			cr.compareOut(ri, got, "Go channel far end")
		}
		w.addInst(ri, w.wrapRes("out", "outputchan", resources.NewOutputChan(ch)))
		return nil
	}
}

func decodeState(buf []byte, err error) (tla.Value, error) {
	if err != nil {
		return tla.Value{}, err
	}
	var v tla.Value
	if err := gob.NewDecoder(bytes.NewReader(buf)).Decode(&v); err != nil {
		return tla.Value{}, err
	}
	return v, nil
}

// C01 — critical sections are atomic across every resource they touch.
//
// Engine: secdrv (secdrv.go) — PRNG-generated programs of 1–4 labels × 1–6 ops over a random mix of real
// resource kinds, hand-built as MPCalArchetype values and run under the real MPCalContext.Run. For every
// program EVERY fault position is enumerated (no fault; a refused resource operation before each op; a false
// await before each op; an empty input at every input read; a failing PreCommit of a sibling resource — alone,
// with a slow successful PreCommit of another, delivered late, and inside an IncMap/HashMap).
//
// Oracle: an abstract model per resource kind advanced only by committed sections (CommitDone hook, H1).
// Every read of every attempt — the retry after a fault included — must return what the model says; after
// every attempt the externally visible state (files, badger keys, Go channels, a second sharer's view, 2PC
// replica state) must equal the committed model; after the program a probe section reads every cell, every
// input queue is drained up to a marker and every output link is drained at its far end up to a marker.
// Wrapper resources additionally assert the commit protocol per dirty handle.
package main

import (
	"encoding/json"
	"fmt"
	"io"
	"log"
	"math/rand"
	"os"
	"path/filepath"
	"sort"
	"strings"
	"sync"
	"time"

	"verifh/common"

	"github.com/dgraph-io/badger/v3"
)

type spec struct {
	Seed     int64    `json:"seed"`
	ProgIDs  []int    `json:"prog_ids"`
	Avail    []string `json:"avail"`
	Out      string   `json:"out"`
	Scratch  string   `json:"scratch"`
	Explicit *Program `json:"explicit,omitempty"` // replay: run this program …
	Faults   []Fault  `json:"faults,omitempty"`   // … with these faults
}

type childShared struct {
	scratch  string
	worldSeq int
	extra    map[string]any
	dbMu     sync.Mutex
	db       *badger.DB
}

type lineWriter struct {
	mu sync.Mutex
	f  *os.File
}

func (lw *lineWriter) emit(v any) {
	buf, err := json.Marshal(v)
	if err != nil {
		buf = []byte(fmt.Sprintf(`{"kind":"encode-error","err":%q}`, err.Error()))
	}
	lw.mu.Lock()
	defer lw.mu.Unlock()
	lw.f.Write(append(buf, '\n'))
}

func progRng(seed int64, id int, stream int64) *rand.Rand {
	return rand.New(rand.NewSource(seed*1000003 + int64(id)*7919 + stream))
}

// protoInsts builds resource descriptors without real resources, for the generator.
func protoInsts() map[string]*resInst {
	return protoTable
}

func childMain() {
	log.SetOutput(io.Discard)
	var sp spec
	buf, err := os.ReadFile(os.Getenv("C01_SPEC"))
	if err != nil {
		fmt.Println("cannot read spec:", err)
		os.Exit(3)
	}
	if err := json.Unmarshal(buf, &sp); err != nil {
		fmt.Println("bad spec:", err)
		os.Exit(3)
	}
	f, err := os.Create(sp.Out)
	if err != nil {
		fmt.Println("cannot create output:", err)
		os.Exit(3)
	}
	lw := &lineWriter{f: f}
	installHooks()
	sh := &childShared{scratch: sp.Scratch, extra: map[string]any{}}
	protos := protoInsts()
	runProg := func(prog Program, faults []Fault) {
		lw.emit(map[string]any{"kind": "prog", "prog": prog, "shape": prog.shape(), "faults": len(faults)})
		uniq := int32(1000)
		var w *world
		rng := progRng(sp.Seed, prog.ID, 3)
		for ci, flt := range faults {
			if w == nil || w.dead {
				if w != nil {
					go w.close()
				}
				var err error
				for try := 0; try < 3; try++ {
					sh.worldSeq++
					w, err = newWorld(fmt.Sprintf("w%d", sh.worldSeq), prog.Res, sh)
					if err == nil {
						break
					}
				}
				if err != nil {
					lw.emit(map[string]any{"kind": "world-error", "prog": prog.ID, "case": ci, "err": err.Error()})
					w = nil
					continue
				}
			}
			if w.casesRun == 0 {
				lw.emit(map[string]any{"kind": "world", "prog": prog.ID, "case": ci, "id": w.id})
			}
			w.casesRun++
			lw.emit(map[string]any{"kind": "start", "prog": prog.ID, "case": ci, "fault": flt})
			res := runCase(w, prog, ci, flt, rng, &uniq)
			if res.WorldDead {
				w.dead = true
			}
			lw.emit(map[string]any{"kind": "case", "res": res})
		}
		if w != nil {
			w.close()
		}
	}
	if sp.Explicit != nil {
		runProg(*sp.Explicit, sp.Faults)
	} else {
		for _, id := range sp.ProgIDs {
			prog := genProgram(progRng(sp.Seed, id, 1), id, sp.Avail, protos)
			runProg(prog, faultsFor(progRng(sp.Seed, id, 2), prog, protos))
		}
	}
	lw.emit(map[string]any{"kind": "end"})
	f.Close()
	if sh.db != nil {
		sh.db.Close()
	}
	os.Exit(0)
}

// ---------------------------------------------------------------- parent

type progInfo struct {
	Prog   Program
	Shape  string
	Faults int
}

type agg struct {
	mu            sync.Mutex
	progs         map[int]*progInfo
	evals         int
	attempts      int
	aborts        int
	commits       int
	spurious      int
	events        int64
	loud          int
	overlaps      int
	overlapRes    map[string]int
	starveNA      int
	nontrivial    map[string]bool
	faultKinds    map[string]int
	kinds         map[string]int
	failedKinds   map[string]int
	failedMixes   map[string]int
	samples       common.SampleKeeper
	progsRun      int
	crashed       int
	worldErrors   []string
	harnessErrors int
}

type witness struct {
	Program   Program     `json:"program"`
	Shape     string      `json:"shape"`
	Faults    []Fault     `json:"faults_run_in_this_world_before_and_including"`
	Case      int         `json:"case"`
	Fault     Fault       `json:"fault"`
	Violation violation   `json:"violation"`
	History   []string    `json:"history"`
	Result    *caseResult `json:"result,omitempty"`
	Output    string      `json:"child_output_tail,omitempty"`
}

func availList() []string {
	if s := os.Getenv("C01_KINDS"); s != "" {
		return strings.Split(s, ",")
	}
	var out []string
	for _, n := range allInsts {
		if _, ok := protoTable[n]; ok {
			out = append(out, n)
		}
	}
	return out
}

func main() {
	if common.ChildRole() == "worker" {
		childMain()
		return
	}
	r := common.Start("C01", "fault_enumeration")
	scratch := common.Scratch("c01")
	scratchDir = scratch // removed explicitly before Finish (which exits the process)
	a := &agg{overlapRes: map[string]int{}, progs: map[int]*progInfo{}, nontrivial: map[string]bool{}, faultKinds: map[string]int{}, kinds: map[string]int{},
		failedKinds: map[string]int{}, failedMixes: map[string]int{}}
	a.samples.N = 6
	avail := availList()

	if r.Replay != "" {
		replay(r, a, scratch, avail)
		return
	}

	nprog := r.Pick(60, 1500)
	if s := os.Getenv("C01_PROGRAMS"); s != "" {
		fmt.Sscan(s, &nprog)
	}
	workers := r.Pick(8, 16)
	lists := make([][]int, workers)
	for id := 0; id < nprog; id++ {
		lists[id%workers] = append(lists[id%workers], id)
	}
	common.Parallel(workers, workers, func(wi int) {
		ids := lists[wi]
		round := 0
		for len(ids) > 0 {
			round++
			sp := spec{Seed: r.Seed, ProgIDs: ids, Avail: avail,
				Out:     filepath.Join(scratch, fmt.Sprintf("w%d-%d.jsonl", wi, round)),
				Scratch: filepath.Join(scratch, fmt.Sprintf("s%d-%d", wi, round))}
			ids = runWorker(r, a, sp, scratch, time.Duration(r.Pick(240, 1500))*time.Second)
		}
	})
	finish(r, a, avail, nprog)
}

// runWorker runs one child over sp.ProgIDs; returns the program ids still to be run (after a crash).
func runWorker(r *common.Run, a *agg, sp spec, scratch string, watchdog time.Duration) (remaining []int) {
	_ = os.MkdirAll(sp.Scratch, 0o755)
	specPath := sp.Out + ".spec"
	buf, _ := json.Marshal(sp)
	_ = os.WriteFile(specPath, buf, 0o644)
	cres := common.RunChild("", "worker", scratch, []string{"C01_SPEC=" + specPath}, watchdog)
	recs, complete, _ := common.ReadJSONL(sp.Out)
	var lastStart map[string]any
	curProg := -1
	var faultsSeen []Fault
	mapFaultInWorld := false // a PreCommit failure under the harness map happened in the world the current case runs in
	for _, rec := range recs {
		switch rec["kind"] {
		case "prog":
			var pi progInfo
			b, _ := json.Marshal(rec["prog"])
			_ = json.Unmarshal(b, &pi.Prog)
			pi.Shape, _ = rec["shape"].(string)
			if f, ok := rec["faults"].(float64); ok {
				pi.Faults = int(f)
			}
			a.mu.Lock()
			a.progs[pi.Prog.ID] = &pi
			a.progsRun++
			a.mu.Unlock()
			curProg = pi.Prog.ID
			faultsSeen = nil
		case "world":
			mapFaultInWorld = false
		case "start":
			lastStart = rec
			var f Fault
			b, _ := json.Marshal(rec["fault"])
			_ = json.Unmarshal(b, &f)
			faultsSeen = append(faultsSeen, f)
			if strings.HasPrefix(f.Kind, "mappc") {
				mapFaultInWorld = true
			}
		case "case":
			lastStart = nil
			var res caseResult
			b, _ := json.Marshal(rec["res"])
			if err := json.Unmarshal(b, &res); err != nil {
				continue
			}
			absorb(r, a, &res, append([]Fault(nil), faultsSeen...))
		case "world-error":
			a.mu.Lock()
			a.worldErrors = append(a.worldErrors, fmt.Sprint(rec["err"]))
			a.mu.Unlock()
			r.Inconclusive(fmt.Sprintf("program %v case %v: world construction failed: %v", rec["prog"], rec["case"], rec["err"]))
		}
	}
	if complete {
		return nil
	}
	// the child died: a process-fatal outcome inside the case that was started last
	a.mu.Lock()
	a.crashed++
	a.mu.Unlock()
	tail := cres.Output
	if len(tail) > 6000 {
		tail = tail[len(tail)-6000:]
	}
	if cres.TimedOut {
		r.Inconclusive(fmt.Sprintf("worker watchdog expired in program %d (last case %v)", curProg, lastStart))
	} else if lastStart != nil {
		a.mu.Lock()
		pi := a.progs[curProg]
		a.mu.Unlock()
		line := firstPanicLine(cres.Output)
		wit := witness{Case: int(lastStart["case"].(float64)), Faults: faultsSeen, Output: tail,
			Violation: violation{Key: "C01:process:fatal-" + classifyFatal(line), Desc: line}}
		if pi != nil {
			wit.Program, wit.Shape = pi.Prog, pi.Shape
		}
		if len(faultsSeen) > 0 {
			wit.Fault = faultsSeen[len(faultsSeen)-1]
		}
		if classifyFatal(line) == "twopc-state-changed-during-precommit" && mapFaultInWorld && strings.Contains(line, "tpcsub") {
			// a 2PC variable that lives under the same IncMap/HashMap as a child whose PreCommit failed
			wit.Violation.Key = "C01:map-precommit-returns-before-siblings-finish:twopc-child-aborted-or-retried-during-its-precommit"
		}
		r.Report(wit.Violation.Key, fmt.Sprintf("worker process died during program %d case %d (%s): %s", curProg, wit.Case, wit.Fault, line), wit)
	} else if line := firstPanicLine(cres.Output); classifyFatal(line) == "twopc-state-changed-during-precommit" && strings.Contains(line, "tpcsub") {
		// the pre-commit goroutine a map abandoned earlier (2PC back-off sleep) fired between two cases
		r.Report("C01:map-precommit-returns-before-siblings-finish:twopc-child-aborted-or-retried-during-its-precommit",
			fmt.Sprintf("worker process died between cases after program %d: %s", curProg, line), witness{Output: tail, Faults: faultsSeen,
				Violation: violation{Key: "abandoned 2PC pre-commit fired later", Desc: line}})
	} else {
		r.Inconclusive(fmt.Sprintf("worker exited (code %d) outside any case; output tail: %s", cres.ExitCode, lastLines(tail, 5)))
	}
	// continue after the program that died
	skip := true
	for _, id := range sp.ProgIDs {
		if !skip {
			remaining = append(remaining, id)
		}
		if id == curProg {
			skip = false
		}
	}
	if curProg < 0 {
		return nil
	}
	return remaining
}

func firstPanicLine(out string) string {
	for _, l := range strings.Split(out, "\n") {
		if strings.HasPrefix(l, "panic:") || strings.HasPrefix(l, "fatal error:") {
			return l
		}
	}
	return lastLines(out, 3)
}

func lastLines(s string, n int) string {
	ls := strings.Split(strings.TrimSpace(s), "\n")
	if len(ls) > n {
		ls = ls[len(ls)-n:]
	}
	return strings.Join(ls, " | ")
}

func classifyFatal(line string) string {
	l := strings.ToLower(line)
	switch {
	case strings.Contains(l, "during precommit"):
		return "twopc-state-changed-during-precommit"
	case strings.Contains(l, "concurrent map"):
		return "concurrent-map-access"
	case strings.Contains(l, "all goroutines are asleep"):
		return "deadlock"
	case strings.Contains(l, "unexpected tag") && strings.Contains(l, "abort_ack"):
		return "nested-abort-after-timed-out-request-meets-stale-ack"
	case strings.Contains(l, "stale"):
		return "nested-stale-channel-value"
	}
	f := strings.Fields(l)
	if len(f) > 4 {
		f = f[:4]
	}
	return strings.Join(f, "-")
}

func absorb(r *common.Run, a *agg, res *caseResult, faultsSeen []Fault) {
	a.mu.Lock()
	pi := a.progs[res.Prog]
	a.evals++
	a.attempts += res.Attempts
	a.aborts += res.Aborts
	a.commits += res.Commits
	a.spurious += res.Spurious
	a.events += res.Events
	a.overlaps += res.Overlaps
	for k, v := range res.OverlapRes {
		a.overlapRes[k] += v
	}
	if res.Loud {
		a.loud++
	}
	if res.StarveNA {
		a.starveNA++
	}
	a.faultKinds[res.Fault.Kind]++
	for _, k := range res.Kinds {
		a.kinds[k]++
	}
	shape := ""
	if pi != nil {
		shape = pi.Shape
	}
	if res.Nontrivial {
		a.nontrivial[shape+" @ "+res.Fault.String()] = true
		for _, k := range res.FailedKinds {
			a.failedKinds[k]++
		}
		for _, s := range res.FailedSigs {
			if strings.Contains(s, "+") {
				a.failedMixes[s]++
			}
		}
	}
	a.harnessErrors += len(res.Harness)
	a.mu.Unlock()
	if res.Nontrivial && pi != nil {
		a.samples.Add(map[string]any{"program": pi.Prog, "shape": shape, "fault": res.Fault.String(), "attempts": res.Attempts,
			"aborted_attempts": res.Aborts, "kinds_touched_by_failed_attempts": res.FailedKinds})
	}
	for _, h := range res.Harness {
		r.Inconclusive(fmt.Sprintf("program %d case %d (%s): harness problem: %s", res.Prog, res.Case, res.Fault, h))
	}
	if res.GaveUp != "" && len(res.Viol) == 0 {
		r.Inconclusive(fmt.Sprintf("program %d case %d (%s): %s", res.Prog, res.Case, res.Fault, res.GaveUp))
	}
	for _, v := range res.Viol {
		wit := witness{Case: res.Case, Fault: res.Fault, Faults: faultsSeen, Violation: v, History: res.History, Result: res}
		if pi != nil {
			wit.Program, wit.Shape = pi.Prog, pi.Shape
		}
		r.Report(v.Key, fmt.Sprintf("program %d [%s] fault %s: %s", res.Prog, shape, res.Fault, v.Desc), wit)
	}
}

var scratchDir string

func finish(r *common.Run, a *agg, avail []string, nprog int) {
	_ = os.RemoveAll(scratchDir)
	covered := map[string]bool{}
	for k := range a.kinds {
		covered[k] = true
	}
	kc, knc := []string{}, []string{}
	for _, k := range allKinds() {
		if covered[k] {
			kc = append(kc, k)
		} else {
			knc = append(knc, k)
		}
	}
	mixes := a.failedMixes
	type kv struct {
		k string
		v int
	}
	var top []kv
	for k, v := range mixes {
		top = append(top, kv{k, v})
	}
	sort.Slice(top, func(i, j int) bool { return top[i].v > top[j].v || (top[i].v == top[j].v && top[i].k < top[j].k) })
	topMix := map[string]int{}
	for i, e := range top {
		if i >= 25 {
			break
		}
		topMix[e.k] = e.v
	}
	if len(a.worldErrors) > 0 {
		r.Note("world construction errors: %d (first: %s)", len(a.worldErrors), a.worldErrors[0])
	}
	r.Finish(common.Coverage{
		Evaluations:        a.evals,
		DistinctNontrivial: len(a.nontrivial),
		Rule: "one evaluation = one execution of a generated program under the real MPCalContext.Run with one fault position (all positions of every program are enumerated); " +
			"non-trivial = some attempt of the execution failed after it had touched >= 2 real resources of >= 2 kinds; distinct by (program shape, fault position)",
		Samples: a.samples.S,
		Floor:   r.Pick(100, 2000),
		Extra: map[string]any{
			"programs":                                    a.progsRun,
			"programs_requested":                          nprog,
			"attempts":                                    a.attempts,
			"aborted_attempts":                            a.aborts,
			"committed_sections":                          a.commits,
			"attempts_refused_by_real_resources":          a.spurious,
			"wrapper_events":                              a.events,
			"executions_by_fault_kind":                    a.faultKinds,
			"kinds_covered":                               kc,
			"kinds_not_covered":                           knc,
			"executions_touching_kind":                    a.kinds,
			"nontrivial_failed_attempts_by_kind":          a.failedKinds,
			"failed_attempt_kind_mixes_top":               topMix,
			"distinct_failed_attempt_kind_mixes":          len(mixes),
			"documented_loud_failures_accepted":           a.loud,
			"abort_during_inflight_precommit_seen":        a.overlaps,
			"abort_during_inflight_precommit_by_resource": a.overlapRes,
			"starve_positions_not_applicable":             a.starveNA,
			"worker_crashes":                              a.crashed,
			"resource_instances_available":                avail,
		},
	}, []string{
		"the programs quantifier is sampled (PRNG-generated programs and resource mixes); fault positions are enumerated completely per program, with the fault firing once (sometimes twice in a row) at the first visit of the label",
		"procedure calls are not generated (rollback of procedure variables belongs to C04)",
		"relaxed mailboxes / SingleOutputChan are only used according to their documented rule; an abort after such a send must end in the documented panic, which is accepted as failing loudly",
		"input queues are never observed by reading and aborting; their content is established by the model and a final drain up to a marker fed behind everything else",
		"connection failures are not injected (that is C06); 2PC uses one passive replica reached through the exported Receive RPC method; the CRDT has no concurrent remote writer (C13)",
	})
}

func replay(r *common.Run, a *agg, scratch string, avail []string) {
	buf, err := os.ReadFile(r.Replay)
	if err != nil {
		fmt.Println("cannot read replay file:", err)
		os.Exit(3)
	}
	var rf struct {
		Key     string  `json:"key"`
		Desc    string  `json:"description"`
		Witness witness `json:"witness"`
	}
	if err := json.Unmarshal(buf, &rf); err != nil {
		fmt.Println("bad replay file:", err)
		os.Exit(3)
	}
	w := rf.Witness
	reproduced := false
	if len(w.Program.Labels) > 0 && len(w.Faults) > 0 {
		// re-execute the program with the same fault sequence in a fresh world
		sp := spec{Seed: r.Seed, Avail: avail, Out: filepath.Join(scratch, "replay.jsonl"), Scratch: filepath.Join(scratch, "rs"),
			Explicit: &w.Program, Faults: w.Faults}
		before := r.Violations()
		runWorker(r, a, sp, scratch, 300*time.Second)
		reproduced = r.Violations() > before
	}
	if !reproduced {
		// schedule-dependent: re-report the recorded verdict
		r.Report(rf.Key, rf.Desc+" (recorded verdict; re-execution did not reproduce it)", w)
	}
	_ = os.RemoveAll(scratchDir)
	r.Finish(common.Coverage{Evaluations: a.evals + 1, DistinctNontrivial: len(a.nontrivial), Rule: "replay", Samples: []any{w.Shape}}, nil)
}

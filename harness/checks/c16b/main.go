// c16b — PRIVATE test driver for the CRDT/2PC adapters (gcounter, shopcart, nestedcrdtimpl, shcounter).
// Not registered in the manifest; the real check is checks/c16 (which iterates adapters.Factories("c16")).
//
//	./vcheck c16b quick|thorough        (VERIF_REPO=<worktree> for mutation runs)
//
// env: C16B_ONLY=name[,name]  C16B_N=<sims per factory>  C16B_K=<exact sims sent to TLC per factory>
//
//	C16B_EXTRA_INV=Inv1,Inv2 (additional spec invariants handed to TLC, for calibration experiments)
//	C16B_DUMP=<dir> (keep the states of rejected traces)
//	C16B_TLC_ANYWAY=1 (send traces to TLC even if a monitor fired on them; for mutation validation)
//
// Exit 0 = all silent, 1 = a monitor fired / an archetype failed / TLC rejected a trace, 2 = TLC inconclusive only.
package main

import (
	"fmt"
	"math/rand"
	"os"
	"sort"
	"strconv"
	"strings"
	"sync"
	"time"

	"verifh/adapters"
	"verifh/common"
	"verifh/simsched"
)

// knownPrefixes: findings on the unchanged tree that are triaged in NOTES.md (spec-level AWORSet anomaly);
// override with C16B_KNOWN=prefix,prefix ("" = none).
var knownPrefixes = []string{"C16:shopcart:equal-knowledge-unequal-read:history-with-remove", "C16:shopcart:equal-knowledge-unequal-state:history-with-remove"}

func isKnown(key string) bool {
	for _, p := range knownPrefixes {
		if p != "" && strings.HasPrefix(key, p) {
			return true
		}
	}
	return false
}

var mine = map[string]bool{"gcounter": true, "shopcart": true, "nestedcrdtimpl": true, "shcounter": true}

func envInt(k string, d int) int {
	if v := os.Getenv(k); v != "" {
		if n, err := strconv.Atoi(v); err == nil {
			return n
		}
	}
	return d
}

func main() {
	tier := "quick"
	if len(os.Args) > 1 {
		tier = os.Args[1]
	}
	seed0 := int64(envInt("VERIF_SEED", 1))
	n := envInt("C16B_N", map[string]int{"quick": 200, "thorough": 3000}[tier])
	k := envInt("C16B_K", map[string]int{"quick": 4, "thorough": 24}[tier])
	only := map[string]bool{}
	for _, o := range strings.Split(os.Getenv("C16B_ONLY"), ",") {
		if o != "" {
			only[o] = true
		}
	}
	var extraInv []string
	for _, o := range strings.Split(os.Getenv("C16B_EXTRA_INV"), ",") {
		if o != "" {
			extraInv = append(extraInv, o)
		}
	}
	if v, ok := os.LookupEnv("C16B_KNOWN"); ok {
		knownPrefixes = strings.Split(v, ",")
	}
	tlcAnyway := os.Getenv("C16B_TLC_ANYWAY") != "" // mutation runs: also send traces on which a monitor fired
	scratch := common.Scratch("c16b")
	defer os.RemoveAll(scratch)

	bad, inconclusive := 0, 0
	for _, f := range adapters.Factories("c16") {
		if !mine[f.Name] || (len(only) > 0 && !only[f.Name]) {
			continue
		}
		var mu sync.Mutex
		labels := map[string]int{}
		sigs := map[string]bool{}
		steps, aborts, viol, idle, capped := 0, 0, 0, 0, 0
		keys := map[string]int{}
		firstDesc := map[string]string{}
		type tj struct {
			sim    *adapters.Sim
			states []string
			seed   int64
			log    []string
			prio   int // mutation runs: traces on which a monitor fired go first
		}
		var jobs []tj
		start := time.Now()
		common.Parallel(n, 8, func(i int) {
			seed := seed0*1_000_003 + int64(i)
			rng := rand.New(rand.NewSource(seed ^ 0x5eed))
			exact := i < 2*k || i%2 == 0
			sim := f.New(seed, exact, rng)
			capture := exact && i < 2*k
			applyPolicy(sim, (i/2)%4, rng)
			out := sim.Run(sim.MaxSteps, capture)
			mu.Lock()
			defer mu.Unlock()
			steps += out.Result.Steps
			aborts += out.Result.Aborts
			if out.Result.EndedIdle {
				idle++
			}
			if out.Result.Steps >= sim.MaxSteps {
				capped++
			}
			for l, c := range out.Labels {
				labels[l] += c
			}
			sigs[fmt.Sprintf("%v:%s", sim.Params, out.Signature)] = true
			if out.Result.Err != nil && !out.Result.MonitorErr {
				viol++
				key := "archetype-error"
				keys[key]++
				if firstDesc[key] == "" {
					firstDesc[key] = fmt.Sprintf("seed=%d exact=%v params=%v: %v  steps=%v", seed, exact, sim.Params, out.Result.Err, tail(out.StepLog, 12))
				}
			}
			for _, v := range out.Violations {
				viol++
				keys[v.Key]++
				if firstDesc[v.Key] == "" {
					firstDesc[v.Key] = fmt.Sprintf("seed=%d exact=%v params=%v: %s  steps=%v", seed, exact, sim.Params, v.Desc, tail(out.StepLog, 12))
				}
			}
			clean := len(out.Violations) == 0 && out.Result.Err == nil
			if capture && ((len(out.States) > 3 && clean) || (tlcAnyway && len(out.States) > 1)) {
				prio := 0
				if !clean {
					prio = 1_000_000
				}
				jobs = append(jobs, tj{sim, out.States, seed, out.StepLog, prio})
			}
		})
		simWall := time.Since(start)
		// of the captured exact runs keep the k richest ones (distinct (process,label) pairs, then length)
		rich := func(j tj) int {
			d := map[string]bool{}
			for _, l := range j.log {
				d[l] = true
			}
			return len(d)*1000 + len(j.log) + j.prio
		}
		sort.SliceStable(jobs, func(a, b int) bool { return rich(jobs[a]) > rich(jobs[b]) })
		if len(jobs) > k {
			jobs = jobs[:k]
		}
		tlcOK, tlcStates := 0, 0
		start = time.Now()
		common.Parallel(len(jobs), 4, func(i int) {
			j := jobs[i]
			if len(extraInv) > 0 {
				j.sim.Invariants = append(append([]string{}, j.sim.Invariants...), extraInv...)
			}
			v := j.sim.Validate(scratch, j.states, 10*time.Minute)
			mu.Lock()
			defer mu.Unlock()
			switch v.Kind {
			case "ok":
				tlcOK++
				tlcStates += len(j.states)
			case "step":
				viol++
				keys["tlc:step-not-in-Next"]++
				at := v.RejectedAt
				lbl := ""
				if at-1 < len(j.log) && at >= 1 {
					lbl = j.log[at-1]
				}
				if firstDesc["tlc:step-not-in-Next"] == "" {
					firstDesc["tlc:step-not-in-Next"] = fmt.Sprintf("seed=%d params=%v: state %d -> %d (%s) is not a step of Next\n--- before:\n%s\n--- after:\n%s", j.seed, j.sim.Params, at, at+1, lbl,
						j.states[min(at-1, len(j.states)-1)], j.states[min(at, len(j.states)-1)])
				}
				dump(j.states, f.Name, j.seed)
			case "invariant":
				viol++
				key := "tlc:invariant:" + v.Invariant
				keys[key]++
				if firstDesc[key] == "" {
					firstDesc[key] = fmt.Sprintf("seed=%d params=%v: invariant %s false after %d states\n%s", j.seed, j.sim.Params, v.Invariant, v.InvariantAt, tailS(v.Detail, 1500))
				}
			case "assert":
				viol++
				keys["tlc:assert"]++
				if firstDesc["tlc:assert"] == "" {
					firstDesc["tlc:assert"] = fmt.Sprintf("seed=%d: %s", j.seed, tailS(v.Detail, 1500))
				}
			default:
				inconclusive++
				fmt.Printf("  TLC inconclusive (%s) seed=%d: %s\n", v.Kind, j.seed, tailS(v.Detail, 1500))
				dump(j.states, f.Name, j.seed)
			}
		})
		var ls []string
		for l, c := range labels {
			ls = append(ls, fmt.Sprintf("%s=%d", l, c))
		}
		sort.Strings(ls)
		fmt.Printf("== %s: sims=%d commits=%d aborted_attempts=%d ended_idle=%d hit_step_cap=%d distinct_interleavings=%d sim_wall=%v\n   labels: %s\n   TLC: %d/%d traces accepted (%d states) wall=%v\n",
			f.Name, n, steps, aborts, idle, capped, len(sigs), simWall.Round(time.Millisecond), strings.Join(ls, " "), tlcOK, len(jobs), tlcStates, time.Since(start).Round(time.Millisecond))
		var ks []string
		for key := range keys {
			ks = append(ks, key)
		}
		sort.Strings(ks)
		for _, key := range ks {
			if isKnown(key) {
				fmt.Printf("   KNOWN-FINDING %s x%d: %s\n", key, keys[key], tailS2(firstDesc[key], 400))
				viol -= keys[key]
				continue
			}
			fmt.Printf("   VIOLATION %s x%d: %s\n", key, keys[key], firstDesc[key])
		}
		bad += viol
	}
	if bad > 0 {
		fmt.Printf("C16B RESULT: %d violation reports\n", bad)
		os.RemoveAll(scratch)
		os.Exit(1)
	}
	if inconclusive > 0 {
		fmt.Printf("C16B RESULT: inconclusive (%d TLC calls)\n", inconclusive)
		os.RemoveAll(scratch)
		os.Exit(2)
	}
	fmt.Println("C16B RESULT: silent")
}

// applyPolicy: 0 = the adapter's own weights, 1 = bursts favouring one process, 2 = one group starved (runs only
// when nothing else can), 3 = steep random priorities. Weight only, as the real check does.
func applyPolicy(sim *adapters.Sim, policy int, rng *rand.Rand) {
	s := sim.Sched
	n := len(s.Procs)
	switch policy {
	case 1:
		fav, until := rng.Intn(n), 0
		s.Weight = func(p *simsched.Proc, step int) int {
			if step >= until {
				fav, until = rng.Intn(n), step+3+rng.Intn(23)
			}
			if p.ID == fav {
				return 60
			}
			return 1
		}
	case 2:
		g := s.Procs[rng.Intn(n)].Group
		s.Weight = func(p *simsched.Proc, _ int) int {
			if p.Group == g {
				return 0
			}
			return 1
		}
	case 3:
		prio := rng.Perm(n)
		s.Weight = func(p *simsched.Proc, _ int) int {
			w := 1
			for i := 0; i < prio[p.ID] && i < 8; i++ {
				w *= 8
			}
			return w
		}
	}
}

func dump(states []string, name string, seed int64) {
	d := os.Getenv("C16B_DUMP")
	if d == "" {
		return
	}
	os.MkdirAll(d, 0o755)
	os.WriteFile(fmt.Sprintf("%s/%s-%d.states", d, name, seed), []byte(strings.Join(states, "\n----\n")), 0o644)
}

func tail(s []string, n int) []string {
	if len(s) > n {
		return s[len(s)-n:]
	}
	return s
}

func tailS2(s string, n int) string {
	if len(s) > n {
		return s[:n] + " …"
	}
	return s
}

func tailS(s string, n int) string {
	if len(s) > n {
		return s[len(s)-n:]
	}
	return s
}

#!/bin/bash
# Mutation validation of the gotests adapters (development aid; not part of any check).
# usage: mutations.sh [name...]   — applies one mutation at a time to a scratch worktree of /repo, runs
# `VERIF_REPO=$WT ./vcheck c02g quick -pair <pair>` and records whether TLC rejected the mutated step.
# Expected outcome for every mutation: exit 1 and a REJECTION line with a key that is NOT a known finding.
WT=${WT:-/tmp/wt-c02g}
OUT=${OUT:-/tmp/c02g-dev/mut}
mkdir -p "$OUT"
[ -d "$WT" ] || git -C /repo worktree add --detach "$WT" HEAD >/dev/null 2>&1
G=$WT/pgo/test/files/general
GG=$WT/pgo/test/files/gogen

declare -A PAIR FILE CMD
m() { PAIR[$1]=$2; FILE[$1]=$3; CMD[$1]=$4; ORDER+=("$1"); }
ORDER=()
# drop a Write
m hello-drop-write        hello             $G/hello.tla.gotests/hello.go \
  's|err = iface.Write(out, nil, HELLO(iface))|_ = out; err = nil|'
# change a constant
m bug119-const            bug_119           $G/bug_119.tla.gotests/bug_119.go \
  's|tla.ModulePlusSymbol(exprRead, tla.MakeNumber(1))|tla.ModulePlusSymbol(exprRead, tla.MakeNumber(2))|'
# wrong return label of a call
m bug119-call-return      bug_119           $G/bug_119.tla.gotests/bug_119.go \
  's|iface.Call("inc", "Counter.c2"|iface.Call("inc", "Counter.c1"|'
# swap a Goto target
m bug2-goto               bug2_124          $G/bug2_124.tla.gotests/bug2_124.go \
  '0,/return iface.Goto("AEchoServer.rcvMsg")/s||return iface.Goto("AEchoServer.sndMsg")|'
# wrong field in the echoed message (only reachable from the seeded start states)
m bug2-msg-field          bug2_124          $G/bug2_124.tla.gotests/bug2_124.go \
  's|{tla.MakeString("to"), exprRead0.ApplyFunction(tla.MakeString("from"))}|{tla.MakeString("to"), exprRead0.ApplyFunction(tla.MakeString("body"))}|'
# change a constant in an indexed write
m indexing-const          IndexingLocals    $G/IndexingLocals.tla.gotests/IndexingLocals.go \
  's|tla.MakeNumber(21)|tla.MakeNumber(22)|'
# write to the wrong index
m indexing-wrong-index    IndexingLocals    $G/IndexingLocals.tla.gotests/IndexingLocals.go \
  's|iface.Write(log8, \[\]tla.Value{tla.MakeNumber(1)}|iface.Write(log8, []tla.Value{tla.MakeNumber(2)}|'
# negate an await — EQUIVALENT MUTANT at state level: the await of ACoverage.l1 only constrains the with-bound a, b,
# which are not part of the state; the spec still has a choice producing the same successor (existential matching)
m nondet-negate-await     NonDetExploration $G/NonDetExploration.tla.gotests/NonDetExploration.go \
  '0,/if !tla.MakeBool(tla.ModuleEqualsSymbol(a, tla.MakeNumber(1))/s||if tla.MakeBool(tla.ModuleEqualsSymbol(a, tla.MakeNumber(1))|'
# drop the assertion
m nondet-drop-assert      NonDetExploration $G/NonDetExploration.tla.gotests/NonDetExploration.go \
  's|return fmt.Errorf("%w: \\\\A a \\\\in TheSet : (a) \\\\in (mark)", distsys.ErrAssertionFailed)|_ = 0|'
# change a constant inside a specialised procedure body
m procspag-const          ProcedureSpaghetti $G/ProcedureSpaghetti.tla.gotests/ProcedureSpaghetti.go \
  's|tla.ModulePlusSymbol(exprRead1, tla.MakeNumber(1))|tla.ModulePlusSymbol(exprRead1, tla.MakeNumber(2))|'
# pass the wrong argument to a call
m procspag-call-arg       ProcedureSpaghetti $G/ProcedureSpaghetti.tla.gotests/ProcedureSpaghetti.go \
  's|iface.Call("Proc1", "Arch1.Done", e, resourceRead)|iface.Call("Proc1", "Arch1.Done", e, tla.ModulePlusSymbol(resourceRead, tla.MakeNumber(1)))|'
# drop a Write
m pbfail-drop-write       PBFail4           $G/PBFail4_bug125.tla.gotests/PBFail4_bug125.go \
  's|err = iface.Write(respTyp2, nil, PUT_RESP(iface))|err = nil|'
# swap a Goto target
m pbfail-goto             PBFail4           $G/PBFail4_bug125.tla.gotests/PBFail4_bug125.go \
  '0,/return iface.Goto("AReplica.handleBackup")/s||return iface.Goto("AReplica.handlePrimary")|'
# change a constant in a message
m bug167-const            bug_167           $GG/bug_167.tla.gotests/bug_167.go \
  '1302s|PRIMARY_SRC(iface)|BACKUP_SRC(iface)|'
# drop one of the two mayFail writes where the artefact is right (replicaLoop)
m bug167-drop-write       bug_167           $GG/bug_167.tla.gotests/bug_167.go \
  '0,/err = iface.Write(netEnabled, \[\]tla.Value{tla.MakeTuple(iface.Self(), RESP_INDEX(iface))}, tla.ModuleFALSE)/s||err = nil|'
# negate an await (APutClient.sndPutReq: `await fd[replica]; goto sndPutReq`)
m bug167-negate-await     bug_167           $GG/bug_167.tla.gotests/bug_167.go \
  '1473s|if !condition57.AsBool()|if condition57.AsBool()|'
# operator: change a constant
m exprtests-const         Expr              $G/ExprTests.tla.gotests/ExprTests.go \
  '2310s|tla.MakeNumber(39)|tla.MakeNumber(38)|'
# operator of a define block
m pbfail-define-const     Expr              $G/PBFail4_bug125.tla.gotests/PBFail4_bug125.go \
  '0,/return tla.MakeNumber(3)/s||return tla.MakeNumber(5)|'
# distsys: Goto does not write .pc
m distsys-goto-nop        hello             $WT/distsys/archetypeinterface.go \
  's|return iface.Write(pc, nil, tla.MakeString(target))|_ = pc; return nil|'
# distsys: Return does not pop the stack
m distsys-return-nopop    bug_119           $WT/distsys/archetypeinterface.go \
  's|err = iface.Write(stack, nil, tla.ModuleTail(stackVal))|err = nil|'

sel=("$@"); [ ${#sel[@]} -eq 0 ] && sel=("${ORDER[@]}")
cd /verif || exit 3
for name in "${sel[@]}"; do
  f=${FILE[$name]}
  [ -n "$f" ] || { echo "unknown mutation $name"; continue; }
  git -C "$WT" checkout -- . >/dev/null 2>&1
  before=$(md5sum "$f" | cut -d' ' -f1)
  sed -i -e "${CMD[$name]}" "$f"
  after=$(md5sum "$f" | cut -d' ' -f1)
  if [ "$before" = "$after" ]; then echo "MUTATION $name: sed did not change $f"; continue; fi
  VERIF_REPO=$WT timeout 2400 ./vcheck c02g quick -pair "${PAIR[$name]}" > "$OUT/$name.txt" 2>&1
  rc=$?
  keys=$(grep -o "REJECTION key=[^ ]*" "$OUT/$name.txt" | sort -u | tr '\n' ' ')
  echo "MUTATION $name (pair ${PAIR[$name]}): exit=$rc $keys"
done
git -C "$WT" checkout -- . >/dev/null 2>&1

// c02g — private driver for the C02 adapters of the compiler test pairs (pgo/test/files/**/*.gotests).
// Not a registered check: it writes no evidence file. For every factory "gotests/*" it builds sims under
// several seeds/schedules, records the trace of every run with the gotests renderer (pc, stack, procedure
// variables, scalar process locals), has TLC validate EVERY step against pcal's translation of the checked-in
// PlusCal artefact (restarting after each rejected step), and prints per pair: acceptance, labels covered,
// rejections with the offending state pair. Operator pairs (ExprTests, the define blocks) are compared through
// tlc.Eval. Usage: ./vcheck c02g quick|thorough [-pair substr] [-json file] [-v]
package main

import (
	"encoding/json"
	"fmt"
	"hash/fnv"
	"math/rand"
	"os"
	"path/filepath"
	"sort"
	"strconv"
	"strings"
	"sync"
	"time"

	"verifh/adapters"
	"verifh/common"
)

type pairStat struct {
	Name          string
	Runs          int
	Traces        int
	FullyAccepted int
	RelaxedRuns   int
	InitChecked   int
	StepsRecorded int
	StepsAccepted int
	GoAborts      int
	LabelsOK      map[string]int
	LabelsSeen    map[string]int
	LabelUniverse map[string]bool
	Rejections    map[string][]adapters.GotestsRejection // by key
	RejParams     map[string]map[string]any
	Inconclusive  []string
	EndAgreements map[string]int
	Repairs       []string
	Notes         map[string]int
	Tables        map[string]any
	SpecErr       string
	TLCCalls      int
	TLCWall       time.Duration
	Signatures    map[string]bool
}

func hashName(s string) int64 {
	h := fnv.New64a()
	h.Write([]byte(s))
	return int64(h.Sum64() & 0x7fffffff)
}

func loadKnown() map[string]string {
	out := map[string]string{}
	buf, err := os.ReadFile(filepath.Join(common.Root(), "known_findings.d", "C02.json"))
	if err != nil {
		return out
	}
	var ff struct {
		Findings []struct{ Property, Key, Description, Status string } `json:"findings"`
	}
	if json.Unmarshal(buf, &ff) == nil {
		for _, f := range ff.Findings {
			if f.Status == "open" {
				out[f.Key] = f.Description
			}
		}
	}
	return out
}

func main() {
	tier, only, jsonOut, verbose := "quick", "", "", false
	args := os.Args[1:]
	for i := 0; i < len(args); i++ {
		switch args[i] {
		case "quick", "thorough":
			tier = args[i]
		case "-pair":
			i++
			only = args[i]
		case "-json":
			i++
			jsonOut = args[i]
		case "-v":
			verbose = true
		}
	}
	seed := int64(1)
	if s := os.Getenv("VERIF_SEED"); s != "" {
		if v, err := strconv.ParseInt(s, 10, 64); err == nil {
			seed = v
		}
	}
	scratch := common.Scratch("c02g")
	defer os.RemoveAll(scratch)
	adapters.GotestsSetScratch(scratch)
	known := loadKnown()
	start := time.Now()

	var facs []adapters.Factory
	for _, f := range adapters.Factories("c02") {
		if strings.HasPrefix(f.Name, "gotests/") && (only == "" || strings.Contains(f.Name, only)) {
			facs = append(facs, f)
		}
	}
	runsPer := 4
	if tier == "thorough" {
		runsPer = 24
	}
	stats := map[string]*pairStat{}
	for _, f := range facs {
		stats[f.Name] = &pairStat{Name: f.Name, LabelsOK: map[string]int{}, LabelsSeen: map[string]int{}, LabelUniverse: map[string]bool{},
			Rejections: map[string][]adapters.GotestsRejection{}, RejParams: map[string]map[string]any{}, EndAgreements: map[string]int{}, Notes: map[string]int{}, Signatures: map[string]bool{}}
	}
	// phase 1: run the sims (fast, Go only)
	type ran struct {
		seed int64
		sim  *adapters.Sim
		out  adapters.Outcome
	}
	runs := map[string][]ran{}
	for _, f := range facs {
		ps := stats[f.Name]
		for i := 0; i < runsPer; i++ {
			s := seed*1_000_003 + int64(i)
			rng := rand.New(rand.NewSource(s ^ hashName(f.Name)))
			sim := f.New(s, true, rng)
			x := adapters.GotestsExtraOf(sim)
			ps.Runs++
			if x == nil || x.Spec == nil || x.Spec.Err != nil {
				if x != nil && x.Spec != nil && x.Spec.Err != nil {
					ps.SpecErr = x.Spec.Err.Error()
				} else {
					ps.SpecErr = "factory did not return a gotests sim"
				}
				break
			}
			for l := range labelUniverse(sim) {
				ps.LabelUniverse[l] = true
			}
			ps.Tables = x.Tables
			ps.Repairs = x.Spec.Repairs
			out := adapters.GotestsRun(sim, sim.MaxSteps, true)
			runs[f.Name] = append(runs[f.Name], ran{s, sim, out})
		}
	}
	// phase 2: TLC, one batch per pair (grouped by constants inside), pairs in parallel
	var mu sync.Mutex
	workers := 5
	if tier == "thorough" {
		workers = 10
	}
	common.Parallel(len(facs), workers, func(k int) {
		f := facs[k]
		ps := stats[f.Name]
		rs := runs[f.Name]
		if len(rs) == 0 {
			return
		}
		var cases []adapters.GotestsCase
		for _, r := range rs {
			cases = append(cases, adapters.GotestsCase{Sim: r.sim, Out: r.out})
		}
		reps, bst := adapters.GotestsValidateBatch(scratch, cases, 20*time.Minute)
		mu.Lock()
		defer mu.Unlock()
		ps.TLCCalls += bst.TLCCalls
		ps.TLCWall += bst.TLCWall
		for i, rep := range reps {
			sim, out, s := rs[i].sim, rs[i].out, rs[i].seed
			ps.Traces++
			if rep.FullyAccepted {
				ps.FullyAccepted++
			}
			if rep.RelaxedStart {
				ps.RelaxedRuns++
			}
			if rep.InitChecked {
				ps.InitChecked++
			}
			ps.StepsRecorded += rep.StepsRecorded
			ps.StepsAccepted += rep.StepsAccepted
			ps.GoAborts += out.Result.Aborts
			ps.Signatures[fmt.Sprintf("%v|%s", sim.Params, out.Signature)] = true
			for l, c := range out.Labels {
				ps.LabelsSeen[l] += c
			}
			for l, c := range rep.LabelsAccepted {
				ps.LabelsOK[l] += c
			}
			if rep.EndAgreement != "" {
				ps.EndAgreements[rep.EndAgreement]++
			}
			for _, n := range rep.HarnessNotes {
				ps.Notes[n]++
			}
			for _, in := range rep.Inconclusive {
				ps.Inconclusive = append(ps.Inconclusive, fmt.Sprintf("seed=%d params=%v: %s", s, sim.Params, in))
			}
			for _, r := range rep.Rejections {
				if len(ps.Rejections[r.Key]) == 0 {
					ps.RejParams[r.Key] = map[string]any{"seed": s, "params": sim.Params, "steps": out.StepLog}
				}
				ps.Rejections[r.Key] = append(ps.Rejections[r.Key], r)
			}
			if verbose {
				fmt.Printf("  run %s seed=%d params=%v: %d/%d steps accepted, %d rejections, end=%q goerr=%q\n", f.Name, s, sim.Params, rep.StepsAccepted, rep.StepsRecorded, len(rep.Rejections), rep.EndAgreement, rep.GoError)
			}
		}
	})

	// operator pairs
	var opStats []*opStat
	if only == "" || strings.Contains("operators", only) || strings.Contains(only, "Expr") || strings.Contains(only, "define") {
		opStats = runOperatorPairs(scratch, seed, tier, verbose)
	}

	fresh := 0
	names := make([]string, 0, len(stats))
	for n := range stats {
		names = append(names, n)
	}
	sort.Strings(names)
	summary := map[string]any{}
	fmt.Printf("\n==== c02g %s seed=%d: %d adapters, %d runs each, wall %s ====\n", tier, seed, len(facs), runsPer, time.Since(start).Round(time.Second))
	for _, n := range names {
		ps := stats[n]
		fmt.Printf("\n-- %s\n", n)
		if ps.SpecErr != "" {
			fmt.Printf("   ARTEFACT NOT USABLE: %s\n", ps.SpecErr)
			fresh++
			continue
		}
		for _, r := range ps.Repairs {
			fmt.Printf("   artefact repaired in scratch: %s\n", r)
		}
		fmt.Printf("   runs=%d fully-accepted-traces=%d/%d (relaxed-start runs=%d, Init checked in %d) steps accepted=%d/%d go-aborted-attempts=%d distinct-runs=%d tlc-calls=%d tlc-wall=%s\n",
			ps.Runs, ps.FullyAccepted, ps.Traces, ps.RelaxedRuns, ps.InitChecked, ps.StepsAccepted, ps.StepsRecorded, ps.GoAborts, len(ps.Signatures), ps.TLCCalls, ps.TLCWall.Round(time.Millisecond))
		fmt.Printf("   labels accepted by TLC: %s\n", fmtCounts(ps.LabelsOK))
		var never []string
		for l := range ps.LabelUniverse {
			if ps.LabelsSeen[l] == 0 {
				never = append(never, l)
			}
		}
		sort.Strings(never)
		fmt.Printf("   labels never committed: %v\n", never)
		if len(ps.EndAgreements) > 0 {
			fmt.Printf("   run endings agreeing with the artefact: %v\n", ps.EndAgreements)
		}
		for note, c := range ps.Notes {
			fmt.Printf("   HARNESS NOTE (x%d): %s\n", c, note)
		}
		for _, in := range ps.Inconclusive {
			fmt.Printf("   INCONCLUSIVE: %s\n", in)
		}
		var keys []string
		for k := range ps.Rejections {
			keys = append(keys, k)
		}
		sort.Strings(keys)
		for _, k := range keys {
			rs := ps.Rejections[k]
			tag := "REJECTION"
			if _, ok := known[k]; ok {
				tag = "KNOWN-FINDING"
			} else {
				fresh++
			}
			r := rs[0]
			fmt.Printf("   %s key=%s (x%d)\n      kind=%s step=%s (trace index %d) %v\n      before: %s\n      after:  %s\n      detail: %s\n", tag, k, len(rs), r.Kind, r.Step, r.At, ps.RejParams[k],
				oneLine(r.Before), oneLine(r.After), oneLine(gtTail(r.Detail, 500)))
		}
		summary[n] = map[string]any{"runs": ps.Runs, "fully_accepted": ps.FullyAccepted, "steps_recorded": ps.StepsRecorded, "steps_accepted": ps.StepsAccepted,
			"labels_accepted": ps.LabelsOK, "labels_never_committed": never, "rejections": ps.Rejections, "rejection_params": ps.RejParams, "repairs": ps.Repairs,
			"tables": ps.Tables, "end_agreements": ps.EndAgreements, "inconclusive": ps.Inconclusive}
	}
	for pair, why := range adapters.GotestsPairsWithoutSteps {
		fmt.Printf("\n-- %s: nothing to run: %s\n", pair, why)
	}
	for _, o := range opStats {
		fmt.Printf("\n-- operators %s: %d operators, %d comparisons, %d agree, %d both-error, %d skipped (%v)\n", o.Pair, o.Operators, o.Compared, o.Agree, o.BothError, o.Skipped, o.SkipWhy)
		for _, r := range o.Repairs {
			fmt.Printf("   artefact repaired in scratch: %s\n", r)
		}
		for _, in := range o.Inconclusive {
			fmt.Printf("   INCONCLUSIVE: %s\n", in)
		}
		for _, n := range o.Notes {
			fmt.Printf("   note: %s\n", n)
		}
		if len(o.Samples) > 0 {
			fmt.Printf("   samples: %v\n", o.Samples)
		}
		var keys []string
		for k := range o.Mismatch {
			keys = append(keys, k)
		}
		sort.Strings(keys)
		for _, k := range keys {
			tag := "REJECTION"
			if _, ok := known[k]; ok {
				tag = "KNOWN-FINDING"
			} else {
				fresh++
			}
			ms := o.Mismatch[k]
			fmt.Printf("   %s key=%s (x%d): %s\n", tag, k, len(ms), ms[0])
		}
		summary["operators/"+o.Pair] = o
	}
	if jsonOut != "" {
		buf, _ := json.MarshalIndent(summary, "", " ")
		os.WriteFile(jsonOut, buf, 0o644)
	}
	fmt.Printf("\n==== fresh rejections: %d ====\n", fresh)
	os.RemoveAll(scratch)
	if fresh > 0 {
		os.Exit(1)
	}
	for _, ps := range stats {
		if len(ps.Inconclusive) > 0 {
			fmt.Println("INCONCLUSIVE batches present")
			os.Exit(2)
		}
	}
}

func labelUniverse(sim *adapters.Sim) map[string]bool {
	out := map[string]bool{}
	for _, p := range sim.Sched.Procs {
		prefixes := []string{p.Arch.Name + "."}
		for name := range p.Arch.ProcTable {
			prefixes = append(prefixes, name+".")
		}
		for l := range p.Arch.JumpTable {
			if strings.HasSuffix(l, ".Done") || strings.HasSuffix(l, ".Error") {
				continue
			}
			for _, pre := range prefixes {
				if strings.HasPrefix(l, pre) {
					out[l] = true
				}
			}
		}
	}
	return out
}

func fmtCounts(m map[string]int) string {
	var ks []string
	for k := range m {
		ks = append(ks, k)
	}
	sort.Strings(ks)
	var ps []string
	for _, k := range ks {
		ps = append(ps, fmt.Sprintf("%s×%d", k, m[k]))
	}
	return fmt.Sprintf("%d [%s]", len(ks), strings.Join(ps, " "))
}

func oneLine(s string) string { return strings.Join(strings.Fields(s), " ") }

func gtTail(s string, n int) string {
	if len(s) > n {
		return s[len(s)-n:]
	}
	return s
}

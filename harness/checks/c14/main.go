// C14 — generated primary-backup store: replicas agree whenever the primary answers; linearizable history.
//
// simsched over the shipped pbkvs archetypes with the spec's instantiation (PerfectFD, LeaderElection = smallest
// live replica, FileSystem cells, FIFO links): after every committed step the spec's ConsistencyOK is evaluated
// (Go monitor; TLC evaluates it as written on spec-exact traces), crashes at every label that has a mayFail
// branch (crash oracle: at least one replica survives), client histories checked with porcupine.
package main

import (
	"encoding/json"
	"errors"
	"fmt"
	"hash/crc32"
	"os"
	"path/filepath"
	"sync"
	"time"

	"verifh/adapters"
	"verifh/cluster"
	"verifh/common"
	"verifh/linz"
	"verifh/simsched"

	"github.com/DistCompiler/pgo/distsys"
)

func toOps(h []adapters.HistOp) []linz.Op {
	var ops []linz.Op
	for _, o := range h {
		ops = append(ops, linz.Op{Client: o.Client, Put: o.Put, Key: o.Key, Val: o.Val, Found: o.OK, Call: o.Call, Ret: o.Ret, Sends: len(o.Retries)})
	}
	return ops
}

func main() {
	r := common.Start("C14", "exploration")
	if common.ChildRole() == "tcp" {
		var cfg cluster.PbkvsRun
		if err := json.Unmarshal([]byte(os.Getenv("C14_CFG")), &cfg); err != nil {
			panic(err)
		}
		cluster.PbkvsChild(cfg, os.Getenv("C14_OUT"))
		return
	}
	if r.Replay != "" {
		replay(r)
		return
	}
	scratch := common.Scratch("c14")
	defer os.RemoveAll(scratch)
	var mu sync.Mutex
	var distinct common.Distinct
	var samples common.SampleKeeper
	samples.N = 4
	runs := r.Pick(120, 5000)
	evals, steps, aborts, crashes, answers, opsDone, opsAll, retrans := 0, 0, 0, 0, 0, 0, 0, 0
	labels := map[string]int{}
	onlyI := -1
	if v := os.Getenv("C14_ONLY_I"); v != "" { // development aid: re-execute one case of a larger run
		fmt.Sscan(v, &onlyI)
		runs = onlyI + 1
	}
	common.Parallel(runs, 8, func(i int) {
		if onlyI >= 0 && i != onlyI {
			return
		}
		seed := r.Seed*3_000_017 + int64(i)
		rng := r.Rand(fmt.Sprintf("c14-%d", i))
		nr := 1 + i%4
		if v := os.Getenv("C14_NR"); v != "" { // development aid
			fmt.Sscan(v, &nr)
		}
		o := adapters.PbkvsOpts{NR: nr, NC: 1 + rng.Intn(3), Exact: false, Keys: 1 + rng.Intn(2), PutPct: 60, MaxOps: 6 + rng.Intn(10),
			CrashPct: uint(2 + rng.Intn(30)), MaxCrash: rng.Intn(nr)}
		if i%3 == 0 && nr >= 3 {
			o.CrashFocus, o.CrashPct, o.MaxCrash = "mid-replication", 40, 1+rng.Intn(nr-1)
		}
		ps := adapters.Pbkvs(seed, o)
		out := ps.Run(1500, false)
		h := ps.History()
		ops := toOps(h)
		verdict := linz.Classify(ops, 60*time.Second)
		mu.Lock()
		defer mu.Unlock()
		evals++
		steps += out.Result.Steps
		aborts += out.Result.Aborts
		crashes += ps.Crashes
		answers += ps.PrimaryAnswers
		for l, c := range out.Labels {
			labels[l] += c
		}
		done := 0
		for _, op := range h {
			if op.Ret >= 0 {
				done++
			}
			if len(op.Retries) > 1 {
				retrans++
			}
		}
		opsDone += done
		opsAll += len(h)
		wit := func() map[string]any {
			return map[string]any{"opts": o, "seed": seed, "steps": out.StepLog, "history": h}
		}
		if out.Result.Err != nil && !out.Result.MonitorErr {
			r.Report(errKey(out.Result), fmt.Sprintf("%v (NR=%d seed=%d)", out.Result.Err, nr, seed), wit())
		}
		for _, v := range out.Violations {
			r.Report(v.Key, v.Desc, wit())
		}
		what := fmt.Sprintf("pbkvs history of %d operations (seed %d, %d replicas, %d clients, %d crashes)", len(h), seed, nr, o.NC, ps.Crashes)
		switch verdict {
		case linz.VUnknown:
			r.Inconclusive("porcupine timeout: " + what)
		case linz.VAtLeastOnce:
			r.Report("C14:retried-put-applied-twice", what+" is not linearizable, but is once a Put that the client retransmitted after a primary failure may be applied again", wit())
		case linz.VIllegal:
			r.Report("C14:not-linearizable", what+" is not linearizable", wit())
		}
		if nr >= 2 && done >= 3 {
			distinct.Add(fmt.Sprintf("%d/%d/%d/%s", nr, o.NC, ps.Crashes, out.Signature))
		}
		if i < 4 {
			samples.Add(map[string]any{"opts": o, "seed": seed, "commits": out.Result.Steps, "crashes": ps.Crashes, "history": h})
		}
	})
	// spec-exact traces to TLC (Next membership + ConsistencyOK as written)
	tlcN := r.Pick(4, 40)
	tlcOK, tlcStates := 0, 0
	common.Parallel(tlcN, 4, func(i int) {
		seed := r.Seed*5_000_011 + int64(i)
		nr := 1 + i%3
		o := adapters.PbkvsOpts{NR: nr, NC: 1 + i%2, Exact: true, CrashPct: 20, MaxCrash: nr - 1}
		ps := adapters.Pbkvs(seed, o)
		out := ps.Run(400, true)
		mu.Lock()
		for _, v := range out.Violations {
			r.Report(v.Key, v.Desc, map[string]any{"opts": o, "seed": seed, "steps": out.StepLog})
		}
		if out.Result.Err != nil && !out.Result.MonitorErr {
			r.Report("C14:sim:archetype-error", fmt.Sprintf("%v (exact run NR=%d seed=%d)", out.Result.Err, nr, seed), map[string]any{"opts": o, "seed": seed, "steps": out.StepLog})
		}
		mu.Unlock()
		if len(out.States) < 5 {
			return
		}
		v := ps.Validate(scratch, out.States, 5*time.Minute)
		mu.Lock()
		defer mu.Unlock()
		switch v.Kind {
		case "ok":
			tlcOK++
			tlcStates += len(out.States)
		case "invariant":
			r.Report("C14:tlc:invariant:"+v.Invariant, fmt.Sprintf("TLC: %s of pbkvs.tla violated on state %d of a recorded trace (NR=%d seed=%d)", v.Invariant, v.InvariantAt, nr, seed), map[string]any{"opts": o, "seed": seed, "steps": out.StepLog, "tlc": v.Detail})
		case "step":
			r.Report("C14:tlc:step-not-in-Next", fmt.Sprintf("TLC: step %d -> %d of a recorded pbkvs trace is not a step of the spec (NR=%d seed=%d): %s", v.RejectedAt, v.RejectedAt+1, nr, seed, out.StepLog[min(v.RejectedAt-1, len(out.StepLog)-1)]),
				map[string]any{"opts": o, "seed": seed, "steps": out.StepLog, "rejected_at": v.RejectedAt, "state_before": out.States[v.RejectedAt-1], "state_after": out.States[min(v.RejectedAt, len(out.States)-1)]})
		default:
			r.Inconclusive(fmt.Sprintf("tlc %s: %s", v.Kind, tail(v.Detail, 300)))
		}
	})
	// second setting: the shipped bootstrap over TCP mailboxes, failure-free (LeaderElection stub), concurrent
	// clients with unique values: linearizable history and equal replica stores at quiescence
	tcpN := r.Pick(1, 20)
	tcpRuns, tcpOps := 0, 0
	for i := 0; i < tcpN; i++ {
		rng := r.Rand(fmt.Sprintf("c14-tcp-%d", i))
		cfg := cluster.PbkvsRun{NR: 1 + (i+2)%3, NC: 1 + rng.Intn(3), Seed: r.Seed*100 + int64(i), OpsPerClient: 10 + rng.Intn(10), Keys: 1 + rng.Intn(2), PutPct: 60, Scale: 3, MaxWall: 60 * time.Second}
		out := filepath.Join(scratch, fmt.Sprintf("tcp-%d.jsonl", i))
		buf, _ := json.Marshal(cfg)
		res := common.RunChild("", "tcp", scratch, []string{"C14_CFG=" + string(buf), "C14_OUT=" + out}, cfg.MaxWall+60*time.Second)
		recs, complete, _ := common.ReadJSONL(out)
		if !complete || res.TimedOut {
			r.Inconclusive(fmt.Sprintf("tcp run %d incomplete: timedout=%v exit=%d %s", i, res.TimedOut, res.ExitCode, tail(res.Output, 300)))
			continue
		}
		var h []linz.Op
		var finalFS map[string]any
		done := 0
		for _, rec := range recs {
			switch rec["kind"] {
			case "op":
				op := linz.Op{Client: int(rec["client"].(float64)), Put: rec["put"].(bool), Key: rec["key"].(string), Val: rec["val"].(string), Found: rec["found"].(bool),
					Call: int64(rec["call"].(float64)), Ret: int64(rec["ret"].(float64)), Sends: 1}
				h = append(h, op)
				if op.Ret >= 0 {
					done++
				}
			case "stats":
				finalFS, _ = rec["final_fs"].(map[string]any)
			}
		}
		if done == 0 {
			r.Inconclusive(fmt.Sprintf("tcp run %d completed no operation", i))
			continue
		}
		tcpRuns++
		tcpOps += done
		evals++
		wit := map[string]any{"setting": "tcp", "cfg": cfg, "history": h, "final_fs": finalFS}
		switch linz.Check(h, 60*time.Second) {
		case linz.Illegal:
			r.Report("C14:tcp:not-linearizable", fmt.Sprintf("failure-free TCP run %d (%d replicas, %d clients): history of %d operations is not linearizable", i, cfg.NR, cfg.NC, len(h)), wit)
		case linz.Unknown:
			r.Inconclusive("porcupine timeout on a tcp history")
		}
		// quiescent agreement: every replica that recorded writes holds the same store (all operations were acknowledged)
		if done == len(h) {
			var ref string
			for rep, m := range finalFS {
				cur := fmt.Sprint(m)
				if ref == "" {
					ref = cur
				} else if cur != ref {
					r.Report("C14:tcp:replicas-differ-at-quiescence", fmt.Sprintf("failure-free TCP run %d: replica %s holds %s, another holds %s after every operation was acknowledged", i, rep, cur, ref), wit)
				}
			}
			if len(finalFS) != cfg.NR && anyPut(h) {
				r.Report("C14:tcp:replica-without-writes", fmt.Sprintf("failure-free TCP run %d: only %d of %d replicas recorded writes although Puts were acknowledged", i, len(finalFS), cfg.NR), wit)
			}
		}
		if cfg.NR >= 2 && done >= 3 {
			distinct.Add(fmt.Sprintf("tcp-%d-%d-%d", i, cfg.NR, done))
		}
	}
	r.Finish(common.Coverage{
		Evaluations:        evals + tlcN,
		DistinctNontrivial: distinct.Len(),
		Rule:               "one evaluation = one simulated run of the primary-backup store (1-4 replicas, 1-3 clients, crashes at mayFail points with at least one survivor); non-trivial = at least 2 replicas and 3 completed client operations; distinct by (sizes, crashes, interleaving signature)",
		Samples:            samples.S,
		Floor:              10,
		Extra: map[string]any{"sim_runs": runs, "committed_steps": steps, "aborted_attempts": aborts, "replica_crashes": crashes, "states_with_primary_about_to_answer": answers,
			"operations_recorded": opsAll, "operations_completed": opsDone, "operations_retransmitted": retrans, "labels_committed": labels,
			"tcp_runs": tcpRuns, "tcp_operations_completed": tcpOps, "tlc_traces_validated": tlcOK, "tlc_traces_submitted": tlcN, "tlc_states_validated": tlcStates},
	}, []string{
		"perfect failure detector and LeaderElection = smallest live replica, as in the spec's instantiation; the shipped Go LeaderElection resource is a stub that always answers 1, so fail-over cannot be exercised over TCP and is covered in simulation only",
		"crash oracle: a mayFail branch fires with a seeded probability, never for the last live replica",
	})
}

// errKey keys an archetype error by what failed and where: an assertion of the spec by the label it is in.
func errKey(res simsched.RunResult) string {
	where := res.ErrLabel
	if errors.Is(res.Err, distsys.ErrAssertionFailed) {
		// label + checksum of the assertion's text: another assertion in the same label is a different key
		return fmt.Sprintf("C14:sim:spec-assertion-failed:%s:%08x", where, crc32.ChecksumIEEE([]byte(res.Err.Error())))
	}
	return "C14:sim:archetype-error:" + where
}

func anyPut(h []linz.Op) bool {
	for _, o := range h {
		if o.Put {
			return true
		}
	}
	return false
}

func tail(s string, n int) string {
	if len(s) > n {
		return s[len(s)-n:]
	}
	return s
}

// replay re-judges the stored client history with the same oracles.
func replay(r *common.Run) {
	key, _, wit, err := r.LoadReplay()
	if err != nil {
		fmt.Println("cannot read replay file:", err)
		os.Exit(3)
	}
	var ops []linz.Op
	if wit["setting"] == "cluster" || wit["setting"] == "tcp" {
		_ = common.Remarshal(wit["history"], &ops)
	} else {
		var h []adapters.HistOp
		_ = common.Remarshal(wit["history"], &h)
		ops = toOps(h)
	}
	if o, ok := wit["opts"]; ok && wit["setting"] == nil {
		// simulated case: deterministic from (opts, seed) — re-execute and re-evaluate the monitors
		var opts adapters.PbkvsOpts
		_ = common.Remarshal(o, &opts)
		seed, _ := wit["seed"].(float64)
		ps := adapters.Pbkvs(int64(seed), opts)
		out := ps.Run(1500, false)
		for _, v := range out.Violations {
			r.Report(v.Key, v.Desc, map[string]any{"opts": opts, "seed": int64(seed), "steps": out.StepLog})
		}
		if out.Result.Err != nil && !out.Result.MonitorErr {
			r.Report("C14:sim:archetype-error", out.Result.Err.Error(), wit)
		}
		ops = toOps(ps.History())
	}
	if len(ops) > 0 {
		switch linz.Classify(ops, 120*time.Second) {
		case linz.VAtLeastOnce:
			r.Report("C14:retried-put-applied-twice", "stored history: not linearizable; linearizable against the at-least-once register", wit)
		case linz.VIllegal:
			r.Report("C14:not-linearizable", "stored history is not linearizable", wit)
		case linz.VUnknown:
			r.Inconclusive("porcupine timeout on the stored history")
		}
	} else {
		fmt.Println("replay file holds no history (key " + key + "): monitor violations of simulated runs are reproduced by re-running the check with the same VERIF_SEED")
	}
	r.FinishReplay(key)
}

// C16 — the other generated systems keep their specs' safety invariants.
//
// Setting (a) simsched: for every adapter factory tagged "c16" (dqueue, loadbalancer, proxy with PerfectFD and
// with PracticalFD, and whatever else is registered): N runs with unique item/request ids (exact=false) under
// varied schedules — uniform, PCT-style bursts, strict priorities with change points, starvation of a group
// until everything else blocks, run-to-completion, forced alternation, static group biases — with the
// adapter's Go-side monitors evaluated after every committed step and at the end; K runs with the mapping
// macros exactly as in the spec (exact=true) whose recorded traces TLC checks against the shipped .tla
// (every step a step of Next, the spec's invariants as written in every visited state).
// Setting (b) real wirings (E5): dqueue, loadbalancer and proxy over TCP mailboxes on 127.0.0.1 in child
// processes, Input/OutputChan at the boundary, server crashes for the proxy; counting oracles over unique
// ids at the channels and over the commit-point log (H1), never over wall-clock time.
package main

import (
	"encoding/json"
	"errors"
	"fmt"
	"hash/fnv"
	"math/rand"
	"os"
	"sort"
	"strings"
	"sync"
	"time"

	"verifh/adapters"
	"verifh/common"
	"verifh/simsched"

	"github.com/DistCompiler/pgo/distsys"
)

// ---------- schedules ----------

var policyNames = []string{"uniform", "pct-bursts", "strict-priorities", "starve-group", "starve-group-windows", "run-to-completion", "alternate", "group-bias"}

// applyPolicy installs a scheduling policy through Sched.Weight only: a process with weight 0 is still picked
// when every candidate has weight 0, so no policy can make an enabled system look deadlocked.
func applyPolicy(s *simsched.Sched, policy int, rng *rand.Rand) {
	n := len(s.Procs)
	if n == 0 {
		return
	}
	groups := map[string]bool{}
	var groupList []string
	for _, p := range s.Procs {
		if !groups[p.Group] {
			groups[p.Group] = true
			groupList = append(groupList, p.Group)
		}
	}
	sort.Strings(groupList)
	switch policyNames[policy%len(policyNames)] {
	case "uniform":
	case "pct-bursts": // bursts of 3..25 steps in which one process is strongly favoured
		fav, until := rng.Intn(n), 0
		s.Weight = func(p *simsched.Proc, step int) int {
			if step >= until {
				fav, until = rng.Intn(n), step+3+rng.Intn(23)
			}
			if p.ID == fav {
				return 60
			}
			return 1
		}
	case "strict-priorities": // PCT: random priorities, highest enabled one runs; d change points demote the running process
		prio := rng.Perm(n)
		var change []int
		for i := 0; i < 1+rng.Intn(4); i++ {
			change = append(change, 5+rng.Intn(200))
		}
		low := -1
		done := map[int]bool{}
		s.Weight = func(p *simsched.Proc, step int) int {
			for _, c := range change {
				if step >= c && !done[c] {
					done[c] = true
					if cur := s.Current(); cur != nil {
						prio[cur.ID] = low
						low--
					}
				}
			}
			w := 1
			for i := 0; i < prio[p.ID]+8 && i < 16; i++ {
				w *= 8
			}
			return w
		}
	case "starve-group": // one group only runs when nothing else can
		g := groupList[rng.Intn(len(groupList))]
		s.Weight = func(p *simsched.Proc, step int) int {
			if p.Group == g {
				return 0
			}
			return 1
		}
	case "starve-group-windows": // the starved group rotates every 20..80 steps
		g, until := groupList[rng.Intn(len(groupList))], 20+rng.Intn(60)
		s.Weight = func(p *simsched.Proc, step int) int {
			if step >= until {
				g, until = groupList[rng.Intn(len(groupList))], step+20+rng.Intn(60)
			}
			if p.Group == g {
				return 0
			}
			return 1
		}
	case "run-to-completion": // keep running the process that ran last
		s.Weight = func(p *simsched.Proc, step int) int {
			if cur := s.Current(); cur != nil && cur.ID == p.ID {
				return 40
			}
			return 1
		}
	case "alternate": // never run the same process twice in a row if another one can run
		s.Weight = func(p *simsched.Proc, step int) int {
			if cur := s.Current(); cur != nil && cur.ID == p.ID {
				return 0
			}
			return 1
		}
	case "group-bias": // static speed differences between groups
		bias := map[string]int{}
		for _, g := range groupList {
			bias[g] = []int{1, 5, 25}[rng.Intn(3)]
		}
		s.Weight = func(p *simsched.Proc, step int) int { return bias[p.Group] }
	}
	// A favoured process whose attempts keep aborting on a choice (it stays schedulable) must not monopolise the
	// scheduler (it is as good as blocked): after 3 aborted attempts since its last commit its weight is 0 until
	// it commits again, so that starved or low-priority processes get their turn.
	if base := s.Weight; base != nil {
		lastCommits, abortsThen := map[int]int{}, map[int]int{}
		s.Weight = func(p *simsched.Proc, step int) int {
			if c, ok := lastCommits[p.ID]; !ok || c != p.Commits {
				lastCommits[p.ID], abortsThen[p.ID] = p.Commits, p.Aborts
			}
			w := base(p, step)
			if p.Aborts-abortsThen[p.ID] >= 3 {
				return 0
			}
			return w
		}
	}
}

// ---------- one simulated case ----------

type simCase struct {
	System string `json:"system"`
	Seed   int64  `json:"seed"`
	Exact  bool   `json:"exact"`
	Policy int    `json:"policy"`
	Steps  int    `json:"max_steps"`
}

func findFactory(name string) (adapters.Factory, bool) {
	for _, f := range adapters.Factories("c16") {
		if f.Name == name {
			return f, true
		}
	}
	return adapters.Factory{}, false
}

// runCase builds and runs one case deterministically from its description.
func runCase(f adapters.Factory, c simCase, capture bool) (*adapters.Sim, adapters.Outcome, []string) {
	rng := rand.New(rand.NewSource(c.Seed ^ 0x5eed16))
	var sim *adapters.Sim
	var buildErr error
	func() {
		defer func() {
			if rec := recover(); rec != nil {
				sim, buildErr = nil, fmt.Errorf("panic in harness/scheduler: building the sim: %v", rec)
			}
		}()
		sim = f.New(c.Seed, c.Exact, rng)
	}()
	if sim == nil {
		if buildErr == nil {
			buildErr = fmt.Errorf("panic in harness/scheduler: factory returned no sim")
		}
		return nil, adapters.Outcome{Result: simsched.RunResult{Err: buildErr}}, nil
	}
	applyPolicy(sim.Sched, c.Policy, rng)
	labels := adapters.ArchetypeLabels(sim.Sched.Procs)
	steps := c.Steps
	if steps == 0 {
		steps = sim.MaxSteps
		if steps == 0 {
			steps = 300
		}
		if c.Exact && steps > 80 {
			steps = 80
		}
	}
	var out adapters.Outcome
	func() {
		defer func() {
			if rec := recover(); rec != nil {
				out.Result.Err = fmt.Errorf("panic in harness/scheduler: %v", rec)
			}
		}()
		out = sim.Run(steps, capture)
	}()
	return sim, out, labels
}

type sysStats struct {
	Runs, ExactRuns     int
	Steps, Aborts       int
	EndedIdle           int
	Labels              map[string]int
	AllLabels           map[string]bool
	Sigs                map[string]bool
	NontrivialSigs      map[string]bool
	TLCSubmitted, TLCOK int
	TLCRejected         int
	TLCNoSpec           int
	TLCStates           int
	Invariants          map[string]bool
	Policies            map[string]int
	Params              []map[string]any
	Observed            map[string]int
}

func newStats() *sysStats {
	return &sysStats{Labels: map[string]int{}, AllLabels: map[string]bool{}, Sigs: map[string]bool{}, NontrivialSigs: map[string]bool{}, Invariants: map[string]bool{}, Policies: map[string]int{}, Observed: map[string]int{}}
}

func hashName(s string) int64 {
	h := fnv.New32a()
	h.Write([]byte(s))
	return int64(h.Sum32() % 100000)
}

// reportOutcome turns archetype errors and monitor violations of one run into reports.
func reportOutcome(r *common.Run, c simCase, sim *adapters.Sim, out adapters.Outcome) {
	witness := func() map[string]any {
		return map[string]any{"setting": "sim", "case": c, "params": sim.Params, "policy": policyNames[c.Policy%len(policyNames)], "steps": out.StepLog}
	}
	if err := out.Result.Err; err != nil && !out.Result.MonitorErr && strings.HasPrefix(err.Error(), "panic in harness/scheduler") {
		// the harness itself failed (monitor or scheduler panicked): no verdict on this run
		r.Inconclusive(fmt.Sprintf("%s seed=%d exact=%v policy=%s: %v", c.System, c.Seed, c.Exact, policyNames[c.Policy%len(policyNames)], err))
	} else if err != nil && !out.Result.MonitorErr {
		who := ""
		if p := out.Result.ErrProc; p != nil {
			who = fmt.Sprintf("%s(%s) at %s: ", p.Arch.Name, p.Self.String(), p.PC())
		}
		key := "C16:" + c.System + ":archetype-error"
		if errors.Is(err, distsys.ErrAssertionFailed) {
			key = "C16:" + c.System + ":assertion-failed"
		}
		w := witness()
		w["error"] = err.Error()
		r.Report(key, fmt.Sprintf("%s seed=%d exact=%v %v: %s%v", c.System, c.Seed, c.Exact, sim.Params, who, err), w)
	}
	for _, v := range out.Violations {
		if strings.Contains(v.Key, ":harness:") { // self-check of an adapter failed: a harness bug, never a verdict
			r.Inconclusive(fmt.Sprintf("%s seed=%d: %s: %s", c.System, c.Seed, v.Key, v.Desc))
			continue
		}
		w := witness()
		w["violation"] = v.Desc
		r.Report(v.Key, fmt.Sprintf("%s seed=%d: %s", c.System, c.Seed, v.Desc), w)
	}
}

func main() {
	r := common.Start("C16", "exploration")
	switch common.ChildRole() {
	case "real-dqueue":
		realDqueueChild()
		return
	case "real-loadbalancer":
		realLoadBalancerChild()
		return
	case "real-proxy":
		realProxyChild()
		return
	}
	if r.Replay != "" {
		replay(r)
		return
	}
	scratch := common.Scratch("c16")
	cleanup := func() {
		os.RemoveAll(scratch)
		adapters.CleanupGenerated()
	}
	defer cleanup()

	facs := adapters.Factories("c16")
	if only := os.Getenv("C16_ONLY"); only != "" { // development aid
		var keep []adapters.Factory
		for _, f := range facs {
			for _, o := range strings.Split(only, ",") {
				if f.Name == o {
					keep = append(keep, f)
				}
			}
		}
		facs = keep
	}
	runs := r.Pick(64, 1000)
	exactRuns := r.Pick(2, 6)
	workers := r.Pick(8, 16)

	var mu sync.Mutex
	stats := map[string]*sysStats{}
	var samples common.SampleKeeper
	samples.N = 3 * len(facs)
	evals := 0
	type tj struct {
		sim    *adapters.Sim
		c      simCase
		states []string
		steps  []string
	}
	var tlcJobs []tj
	phase := map[string]float64{}
	t0 := time.Now()
	for _, f := range facs {
		f := f
		st := newStats()
		stats[f.Name] = st
		base := r.Seed*1_000_003 + hashName(f.Name)*10_007
		common.Parallel(runs+exactRuns, workers, func(i int) {
			c := simCase{System: f.Name, Seed: base + int64(i), Exact: i >= runs, Policy: i % len(policyNames)}
			if c.Exact {
				c.Policy = ((i-runs)*3 + int(r.Seed%7)) % len(policyNames)
			}
			sim, out, labels := runCase(f, c, c.Exact)
			mu.Lock()
			defer mu.Unlock()
			if sim == nil {
				r.Inconclusive(fmt.Sprintf("%s seed=%d exact=%v: %v", c.System, c.Seed, c.Exact, out.Result.Err))
				return
			}
			evals++
			st.Runs++
			if c.Exact {
				st.ExactRuns++
			}
			st.Steps += out.Result.Steps
			st.Aborts += out.Result.Aborts
			if out.Result.EndedIdle {
				st.EndedIdle++
			}
			st.Policies[policyNames[c.Policy%len(policyNames)]]++
			for _, l := range labels {
				st.AllLabels[l] = true
			}
			for l, n := range out.Labels {
				st.Labels[l] += n
			}
			for _, inv := range sim.Invariants {
				st.Invariants[inv] = true
			}
			reportOutcome(r, c, sim, out)
			if o, ok := sim.Params["observed"].(map[string]int); ok { // counters the adapter's monitors keep
				for k, n := range o {
					st.Observed[k] += n
				}
			}
			if out.Signature != "" {
				sig := fmt.Sprintf("%v|%s", sim.Params, out.Signature)
				st.Sigs[sig] = true
				if nontrivial(out) {
					st.NontrivialSigs[sig] = true
				}
			}
			if len(st.Params) < 3 {
				st.Params = append(st.Params, sim.Params)
				samples.Add(map[string]any{"setting": "sim", "case": c, "params": sim.Params, "policy": policyNames[c.Policy%len(policyNames)],
					"commits": out.Result.Steps, "aborted_attempts": out.Result.Aborts, "first_steps": firstN(out.StepLog, 40)})
			}
			if c.Exact {
				if len(sim.SpecFiles) == 0 {
					st.TLCNoSpec++
				} else if len(out.States) > 1 && len(out.Violations) == 0 && (out.Result.Err == nil || out.Result.MonitorErr) {
					tlcJobs = append(tlcJobs, tj{sim, c, out.States, out.StepLog})
				}
			}
		})
	}

	phase["sim_s"] = time.Since(t0).Seconds()
	t0 = time.Now()
	// TLC: recorded exact traces must be behaviours of the shipped specs; the specs' invariants are evaluated as written
	common.Parallel(len(tlcJobs), r.Pick(6, 8), func(i int) {
		j := tlcJobs[i]
		v := j.sim.Validate(scratch, j.states, 10*time.Minute)
		mu.Lock()
		defer mu.Unlock()
		st := stats[j.c.System]
		st.TLCSubmitted++
		w := map[string]any{"setting": "sim+tlc", "case": j.c, "params": j.sim.Params, "steps": j.steps}
		switch v.Kind {
		case "ok":
			st.TLCOK++
			st.TLCStates += len(j.states)
		case "invariant":
			w["detail"] = v.Detail
			w["prefix_length"] = v.InvariantAt
			r.Report("C16:"+j.c.System+":tlc:invariant:"+v.Invariant, fmt.Sprintf("%s seed=%d %v: TLC finds the spec's invariant %s violated in state %d of a recorded trace", j.c.System, j.c.Seed, j.sim.Params, v.Invariant, v.InvariantAt), w)
		case "assert":
			w["detail"] = v.Detail
			r.Report("C16:"+j.c.System+":tlc:assertion", fmt.Sprintf("%s seed=%d %v: replaying a recorded trace, TLC hits a failing assertion of the spec", j.c.System, j.c.Seed, j.sim.Params), w)
		case "step", "init":
			// step conformance is the subject of C02; for C16 a rejected trace means the invariants were evaluated
			// on the accepted prefix only
			st.TLCRejected++
			d := fmt.Sprintf("%s seed=%d %v: TLC rejects the recorded trace (%s) at state %d of %d", j.c.System, j.c.Seed, j.sim.Params, v.Kind, v.RejectedAt, len(j.states))
			if v.Kind == "step" && v.RejectedAt >= 1 && v.RejectedAt <= len(j.steps) {
				d += " — step " + j.steps[v.RejectedAt-1]
			}
			r.Inconclusive(d)
			r.Note("%s", d)
		default:
			r.Inconclusive(fmt.Sprintf("tlc %s on %s seed=%d: %s", v.Kind, j.c.System, j.c.Seed, tailStr(v.Detail, 400)))
		}
	})

	phase["tlc_s"] = time.Since(t0).Seconds()
	t0 = time.Now()
	// (b) real wirings
	realStats := map[string]any{}
	realDistinct := map[string]int{}
	if os.Getenv("C16_ONLY") == "" || os.Getenv("C16_REAL") != "" {
		evals += runRealSettings(r, scratch, &samples, realStats, realDistinct)
	}

	phase["real_s"] = time.Since(t0).Seconds()
	// ---------- evidence ----------
	sysEv := map[string]any{}
	minDistinct, total := -1, 0
	var starved []string
	names := make([]string, 0, len(stats))
	for n := range stats {
		names = append(names, n)
	}
	sort.Strings(names)
	for _, n := range names {
		st := stats[n]
		never := []string{}
		for l := range st.AllLabels {
			if st.Labels[l] == 0 {
				never = append(never, l)
			}
		}
		sort.Strings(never)
		invs := []string{}
		for i := range st.Invariants {
			invs = append(invs, i)
		}
		sort.Strings(invs)
		d := len(st.NontrivialSigs)
		note := ""
		if st.TLCSubmitted > 0 && st.TLCOK == 0 {
			note = "no recorded trace was accepted by TLC: the adapter is not validated, its runs do not count"
			d = 0
		}
		if len(never) > 0 {
			r.Note("%s: labels never committed in %d runs: %v", n, st.Runs, never)
		}
		if d == 0 {
			starved = append(starved, n)
		}
		if minDistinct < 0 || d < minDistinct {
			minDistinct = d
		}
		total += len(st.NontrivialSigs)
		sysEv[n] = map[string]any{
			"runs": st.Runs, "runs_exact": st.ExactRuns, "committed_steps": st.Steps, "aborted_attempts": st.Aborts, "runs_ended_idle": st.EndedIdle,
			"labels_committed": st.Labels, "labels_never_committed": never,
			"distinct_interleaving_signatures": len(st.Sigs), "distinct_nontrivial_signatures": len(st.NontrivialSigs),
			"tlc_traces_submitted": st.TLCSubmitted, "tlc_traces_validated": st.TLCOK, "tlc_traces_rejected": st.TLCRejected, "tlc_states_validated": st.TLCStates,
			"tlc_invariants": invs, "exact_runs_without_spec": st.TLCNoSpec, "schedules": st.Policies, "sample_configurations": st.Params, "note": note, "observed_by_monitors": st.Observed,
		}
	}
	for n, d := range realDistinct {
		if d == 0 {
			starved = append(starved, "real:"+n)
		}
		if minDistinct < 0 || d < minDistinct {
			minDistinct = d
		}
		total += d
	}
	if minDistinct < 0 {
		minDistinct = 0
	}
	sort.Strings(starved)
	if len(starved) > 0 {
		r.Note("systems that observed nothing non-trivial: %v", starved)
	}
	cleanup()
	r.Finish(common.Coverage{
		Evaluations:        evals,
		DistinctNontrivial: func() int {
			if len(starved) > 0 {
				return 0 // a system observed nothing: the run must not pass
			}
			return total
		}(),
		Rule: "one evaluation = one complete run of one system (simulated: the real generated archetypes under a seeded scheduling policy over spec-state resources; real: TCP wiring in a child process). " +
			"distinct_nontrivial = total number of distinct non-trivial executions over all systems, forced to 0 (so the floor fails) when any system observed nothing (minimum over systems is reported as distinct_min_over_systems): " +
			"sim runs are distinct by (configuration, hash of the sequence of (process,label) commits) and non-trivial when at least 10 steps committed; a system none of whose submitted traces TLC accepted counts 0; " +
			"real runs are distinct by configuration and observed delivery history and non-trivial when every request was answered. distinct_total is the sum.",
		Samples: samples.S,
		Floor:   r.Pick(1, 4),
		Extra: map[string]any{
			"systems": sysEv, "real_runs": realStats, "distinct_total": total, "distinct_min_over_systems": minDistinct, "sim_runs_per_system": runs, "exact_runs_per_system": exactRuns,
			"schedules": policyNames, "systems_that_observed_nothing": starved, "phase_wall_s": phase,
		},
	}, []string{
		"sim runs exercise the generated Go and the distsys core over harness resources implementing the specs' mapping macros; production mailboxes, channels, failure detector and file system are exercised by the real runs only",
		"a recorded trace that TLC rejects as not a behaviour of Next is counted as inconclusive here (step conformance is C02); TLC reporting a violated invariant or a failing assertion is a violation",
		"proxy: ProxyOK and 'FAIL only after every backend failed' are claimed for the PerfectFD instantiation only; in real runs a FAIL answer is excused when the production failure detector had suspected a live server (the premise 'perfect failure detector' does not hold in that run)",
		"real runs: the buffer bound BUFFER_SIZE is a property of the spec's TCPChannel model; production TCP mailboxes have their own internal buffering, so the bound is checked in sim runs only",
		"replicatedkv has no adapter, wiring or test in the tree and is not covered",
	})
}

func nontrivial(out adapters.Outcome) bool { return out.Result.Steps >= 10 }

func firstN(s []string, n int) []string {
	if len(s) > n {
		return s[:n]
	}
	return s
}

func tailStr(s string, n int) string {
	if len(s) > n {
		return s[len(s)-n:]
	}
	return s
}

// replay re-executes the stored case (sim settings are deterministic) or re-evaluates the stored log (real runs).
func replay(r *common.Run) {
	buf, err := os.ReadFile(r.Replay)
	if err != nil {
		fmt.Println("ERROR:", err)
		os.Exit(3)
	}
	var file struct {
		Key     string         `json:"key"`
		Desc    string         `json:"description"`
		Witness map[string]any `json:"witness"`
	}
	if err := json.Unmarshal(buf, &file); err != nil {
		fmt.Println("ERROR:", err)
		os.Exit(3)
	}
	evals := 0
	switch file.Witness["setting"] {
	case "sim", "sim+tlc":
		cb, _ := json.Marshal(file.Witness["case"])
		var c simCase
		_ = json.Unmarshal(cb, &c)
		f, ok := findFactory(c.System)
		if !ok {
			fmt.Printf("ERROR: no factory %q\n", c.System)
			os.Exit(3)
		}
		sim, out, _ := runCase(f, c, c.Exact)
		if sim == nil {
			fmt.Println("ERROR:", out.Result.Err)
			os.Exit(3)
		}
		evals++
		reportOutcome(r, c, sim, out)
		if file.Witness["setting"] == "sim+tlc" && len(out.States) > 1 {
			scratch := common.Scratch("c16")
			v := sim.Validate(scratch, out.States, 6*time.Minute)
			fmt.Printf("TLC verdict on the replayed trace (%d states): kind=%s rejected_at=%d invariant=%s wall=%s\n", len(out.States), v.Kind, v.RejectedAt, v.Invariant, v.Wall)
			if d := os.Getenv("C16_DUMP"); d != "" { // development aid: keep the trace for manual TLC runs
				_ = os.WriteFile(d, []byte(strings.Join(out.States, ",\n")), 0o644)
				fmt.Println(tailStr(v.Detail, 3000))
			}
			os.RemoveAll(scratch)
			adapters.CleanupGenerated()
			switch v.Kind {
			case "invariant":
				r.Report("C16:"+c.System+":tlc:invariant:"+v.Invariant, "replayed: "+file.Desc, file.Witness)
			case "assert":
				r.Report("C16:"+c.System+":tlc:assertion", "replayed: "+file.Desc, file.Witness)
			}
		}
	case "real":
		evals++
		replayReal(r, file.Witness)
	default:
		r.Report(file.Key, "stored verdict (case cannot be re-executed): "+file.Desc, file.Witness)
	}
	r.Finish(common.Coverage{Evaluations: evals, DistinctNontrivial: evals, Rule: "replay of one stored case"}, nil)
}

package main

// Setting (b): the shipped wirings of dqueue, loadbalancer and proxy over TCP mailboxes on 127.0.0.1 (as in the
// repository's *_test.go files), each run in a child process. The child writes one JSON-lines log under one
// mutex: commit-point records (H1: every PreCommit succeeded, no Commit issued yet — so a record is in the
// log before any other process can see the section's messages), values taken from the output channels,
// harness actions (stop of a server), failure-detector answers. The parent decides on that log with counting
// oracles over unique ids; no oracle looks at a clock. A run that did not finish within the child's own
// deadline is inconclusive (unless the part of the log that exists already shows a violation).

import (
	"encoding/json"
	"fmt"
	"hash/fnv"
	"math/rand"
	"net"
	"os"
	"path/filepath"
	"sort"
	"strconv"
	"strings"
	"sync"
	"time"

	"verifh/common"

	"github.com/DistCompiler/pgo/distsys"
	"github.com/DistCompiler/pgo/distsys/resources"
	"github.com/DistCompiler/pgo/distsys/tla"
	"github.com/DistCompiler/pgo/distsys/trace"
	"github.com/DistCompiler/pgo/systems/dqueue"
	"github.com/DistCompiler/pgo/systems/loadbalancer"
	"github.com/DistCompiler/pgo/systems/proxy"
)

type realCfg struct {
	System   string `json:"system"`
	Seed     int64  `json:"seed"`
	Servers  int    `json:"servers,omitempty"`
	Clients  int    `json:"clients,omitempty"` // dqueue: consumers
	Requests int    `json:"requests"`          // per client; dqueue: items in total
	// proxy: stop server Crash[i].Server once Crash[i].After responses have reached the clients
	Crash []crashAt `json:"crash,omitempty"`
	Out   string    `json:"out"`
	Dir   string    `json:"dir,omitempty"`
}

type crashAt struct {
	After  int  `json:"after"`
	Server int  `json:"server"`
	Mid    bool `json:"mid"` // stop the server while a request is in flight
}

type nullRec struct{}

func (nullRec) RecordEvent(trace.Event) {}

func freePorts(n int) []int {
	var ls []net.Listener
	var ps []int
	for i := 0; i < n; i++ {
		l, err := net.Listen("tcp", "127.0.0.1:0")
		if err != nil {
			panic(err)
		}
		ls = append(ls, l)
		ps = append(ps, l.Addr().(*net.TCPAddr).Port)
	}
	for _, l := range ls {
		l.Close()
	}
	return ps
}

// mailbox options: reads of an empty local mailbox give up quickly (that is `await` being false); the I/O
// deadline of a sender is long, so that the mailbox defects that need a sender-side timeout (C06) stay out of
// these runs — C16 is about the generated systems, given links that behave.
func mboxOpts() []resources.MailboxesOption {
	return []resources.MailboxesOption{
		resources.WithMailboxesReadTimeout(40 * time.Millisecond),
		resources.WithMailboxesWriteTimeout(30 * time.Second),
		resources.WithMailboxesDialTimeout(3 * time.Second),
	}
}

func childCfg() realCfg {
	var c realCfg
	if err := json.Unmarshal([]byte(os.Getenv("C16_CFG")), &c); err != nil {
		panic(err)
	}
	return c
}

func num(v tla.Value) any {
	v = v.StripVClock()
	if v.IsNumber() {
		return int(v.AsNumber())
	}
	return v.String()
}

func fld(v tla.Value, k string) any {
	v = v.StripVClock()
	if !v.IsFunction() {
		return nil
	}
	if x, ok := v.AsFunction().Get(tla.MakeString(k)); ok {
		return num(x)
	}
	return nil
}

// hookLog installs H1: f gets the label and the reads/writes of every section at its commit point.
func hookLog(f func(arch string, self tla.Value, label string, reads []trace.ReadElement, writes []trace.WriteElement)) {
	distsys.VerifExtraConfig = []distsys.MPCalContextConfigFn{distsys.SetTraceRecorder(nullRec{})}
	distsys.VerifHooks.CommitPoint = func(ctx *distsys.MPCalContext, arch string, self tla.Value, elems []trace.Element) {
		label := ""
		var rs []trace.ReadElement
		var ws []trace.WriteElement
		for i, e := range elems {
			switch e := e.(type) {
			case trace.ReadElement:
				if i == 0 && e.Name == ".pc" {
					label = e.Value.StripVClock().AsString()
					continue
				}
				rs = append(rs, e)
			case trace.WriteElement:
				ws = append(ws, e)
			}
		}
		f(arch, self, label, rs, ws)
	}
}

type ctxSet struct {
	mu   sync.Mutex
	ctxs []*distsys.MPCalContext
	wg   sync.WaitGroup
	w    *common.JSONLWriter
}

// run starts ctx.Run (or runner) in a goroutine; an error other than a clean stop is logged.
func (cs *ctxSet) run(name string, ctx *distsys.MPCalContext, runner func() error) {
	cs.mu.Lock()
	cs.ctxs = append(cs.ctxs, ctx)
	cs.mu.Unlock()
	cs.wg.Add(1)
	go func() {
		defer cs.wg.Done()
		defer func() {
			if r := recover(); r != nil {
				cs.w.Emit(map[string]any{"kind": "error", "who": name, "err": fmt.Sprintf("panic: %v", r), "panic": true})
			}
		}()
		var err error
		if runner != nil {
			err = runner()
		} else {
			err = ctx.Run()
		}
		if err != nil {
			cs.w.Emit(map[string]any{"kind": "error", "who": name, "err": err.Error(), "assertion": strings.Contains(err.Error(), distsys.ErrAssertionFailed.Error())})
		}
	}()
}

func (cs *ctxSet) stopAll() {
	cs.mu.Lock()
	ctxs := append([]*distsys.MPCalContext{}, cs.ctxs...)
	cs.mu.Unlock()
	var wg sync.WaitGroup
	for _, c := range ctxs {
		wg.Add(1)
		go func(c *distsys.MPCalContext) { defer wg.Done(); c.Stop() }(c)
	}
	done := make(chan struct{})
	go func() { wg.Wait(); cs.wg.Wait(); close(done) }()
	select {
	case <-done:
	case <-time.After(20 * time.Second):
		cs.w.Emit(map[string]any{"kind": "stop-timeout"})
	}
}

const childDeadline = 100 * time.Second

// ---------------- dqueue ----------------

func realDqueueChild() {
	cfg := childCfg()
	w := common.NewJSONLWriter(cfg.Out)
	nc, items := cfg.Clients, cfg.Requests
	ports := freePorts(nc + 1)
	addr := func(self int) resources.MailboxesAddressMappingFn {
		return func(idx tla.Value) (resources.MailboxKind, string) {
			a := fmt.Sprintf("127.0.0.1:%d", ports[int(idx.AsNumber())])
			if int(idx.AsNumber()) == self {
				return resources.MailboxesLocal, a
			}
			return resources.MailboxesRemote, a
		}
	}
	hookLog(func(arch string, self tla.Value, label string, rs []trace.ReadElement, ws []trace.WriteElement) {
		switch label {
		case "AConsumer.c1":
			w.Emit(map[string]any{"kind": "c1", "c": num(self)})
		case "AConsumer.c2":
			for _, e := range ws {
				if e.Name == "proc" {
					w.Emit(map[string]any{"kind": "c2", "c": num(self), "item": num(e.Value)})
				}
			}
		case "AProducer.p1":
			for _, e := range ws {
				if e.Name == "requester" {
					w.Emit(map[string]any{"kind": "p1", "req": num(e.Value)})
				}
			}
		case "AProducer.p2":
			for _, e := range ws {
				if e.Name == "net" && len(e.Indices) == 1 {
					w.Emit(map[string]any{"kind": "p2", "to": num(e.Indices[0]), "item": num(e.Value)})
				}
			}
		}
	})
	cs := &ctxSet{w: w}
	in := make(chan tla.Value, items)
	for i := 1; i <= items; i++ {
		in <- tla.MakeNumber(int32(i))
	}
	consts := func() []distsys.MPCalContextConfigFn {
		return []distsys.MPCalContextConfigFn{distsys.DefineConstantValue("PRODUCER", tla.MakeNumber(0)), distsys.DefineConstantValue("NUM_CONSUMERS", tla.MakeNumber(int32(nc)))}
	}
	prod := distsys.NewMPCalContext(tla.MakeNumber(0), dqueue.AProducer, append(consts(),
		distsys.EnsureArchetypeRefParam("net", resources.NewTCPMailboxes(addr(0), mboxOpts()...)),
		distsys.EnsureArchetypeRefParam("s", resources.NewInputChan(in)))...)
	cs.run("producer", prod, nil)
	got := make(chan struct{}, items*2+16)
	for c := 1; c <= nc; c++ {
		c := c
		out := make(chan tla.Value, items+8)
		ctx := distsys.NewMPCalContext(tla.MakeNumber(int32(c)), dqueue.AConsumer, append(consts(),
			distsys.EnsureArchetypeRefParam("net", resources.NewTCPMailboxes(addr(c), mboxOpts()...)),
			distsys.EnsureArchetypeRefParam("proc", resources.NewOutputChan(out)))...)
		cs.run(fmt.Sprintf("consumer%d", c), ctx, nil)
		go func() {
			for v := range out {
				w.Emit(map[string]any{"kind": "out", "c": c, "item": num(v)})
				got <- struct{}{}
			}
		}()
	}
	deadline := time.After(childDeadline)
	n := 0
wait:
	for n < items {
		select {
		case <-got:
			n++
		case <-deadline:
			w.Emit(map[string]any{"kind": "timeout", "got": n})
			break wait
		}
	}
	if n == items { // let a surplus delivery show itself: wait until every consumer has sent its next request
		time.Sleep(300 * time.Millisecond)
	}
	cs.stopAll()
	w.Emit(map[string]any{"kind": "end"})
	w.Close()
}

type realVerdict struct {
	vs       [][2]string // key, description
	complete bool
	sig      string
	summary  map[string]any
}

func (v *realVerdict) bad(key, f string, a ...any) {
	v.vs = append(v.vs, [2]string{key, fmt.Sprintf(f, a...)})
}

func asInt(x any) int {
	switch x := x.(type) {
	case float64:
		return int(x)
	case int:
		return x
	case string:
		n, err := strconv.Atoi(x)
		if err == nil {
			return n
		}
	}
	return -1 << 30
}

func commonErrors(v *realVerdict, sys string, recs []map[string]any) (timedOut bool) {
	for _, r := range recs {
		switch r["kind"] {
		case "error":
			if r["assertion"] == true {
				v.bad("C16:real:"+sys+":assertion-failed", "%v: %v", r["who"], r["err"])
			} else {
				v.bad("C16:real:"+sys+":archetype-error", "%v: %v", r["who"], r["err"])
			}
		case "timeout":
			timedOut = true
		}
	}
	return
}

func checkDqueueLog(cfg realCfg, recs []map[string]any) realVerdict {
	v := realVerdict{summary: map[string]any{}}
	timedOut := commonErrors(&v, "dqueue", recs)
	items := cfg.Requests
	c1 := map[int]int{}      // requests sent per consumer (commit points seen so far)
	sentTo := map[int]int{}  // items sent per consumer
	owner := map[int]int{}   // item -> consumer it was sent to
	outBy := map[int]int{}   // item -> consumer whose output channel delivered it
	lastOut := map[int]int{} // per consumer: last item id delivered
	c2 := map[int]bool{}
	nextItem := 1
	var assign []string
	outs := 0
	for _, r := range recs {
		switch r["kind"] {
		case "c1":
			c1[asInt(r["c"])]++
		case "p1":
			if q := asInt(r["req"]); q < 1 || q > cfg.Clients {
				v.bad("C16:real:dqueue:request-from-unknown", "producer dequeued request %v", r["req"])
			}
		case "p2":
			to, item := asInt(r["to"]), asInt(r["item"])
			sentTo[to]++
			if sentTo[to] > c1[to] {
				v.bad("C16:real:dqueue:item-without-request", "item %d sent to consumer %d as its item number %d, but only %d of its requests had reached their commit point", item, to, sentTo[to], c1[to])
			}
			if item != nextItem {
				v.bad("C16:real:dqueue:production-order", "producer handed out item %d where item %d was next in its input stream", item, nextItem)
			}
			nextItem = item + 1
			if w, dup := owner[item]; dup {
				v.bad("C16:real:dqueue:item-sent-twice", "item %d sent to consumer %d and to consumer %d", item, w, to)
			}
			owner[item] = to
			assign = append(assign, strconv.Itoa(to))
		case "c2":
			c, item := asInt(r["c"]), asInt(r["item"])
			if w, ok := owner[item]; !ok || w != c {
				v.bad("C16:real:dqueue:item-not-addressed-to-consumer", "consumer %d processed item %d, which the producer sent to %v", c, item, owner[item])
			}
			if c2[item] {
				v.bad("C16:real:dqueue:item-consumed-twice", "item %d processed twice (again by consumer %d)", item, c)
			}
			c2[item] = true
		case "out":
			c, item := asInt(r["c"]), asInt(r["item"])
			outs++
			if item < 1 || item > items {
				v.bad("C16:real:dqueue:unknown-item", "consumer %d delivered %v, which was never produced", c, r["item"])
				break
			}
			if w, dup := outBy[item]; dup {
				v.bad("C16:real:dqueue:item-delivered-twice", "item %d delivered at consumer %d and at consumer %d", item, w, c)
			}
			outBy[item] = c
			if item <= lastOut[c] {
				v.bad("C16:real:dqueue:consumer-stream-out-of-order", "consumer %d delivered item %d after item %d", c, item, lastOut[c])
			}
			lastOut[c] = item
		}
	}
	if !timedOut {
		if len(outBy) != items || outs != items {
			v.bad("C16:real:dqueue:conservation", "%d items produced, %d deliveries of %d distinct items at the consumers' output channels", items, outs, len(outBy))
		}
		if len(owner) < items {
			v.bad("C16:real:dqueue:conservation", "%d items delivered but only %d send sections of the producer reached their commit point", items, len(owner))
		}
		v.complete = true
	}
	v.sig = fmt.Sprintf("dqueue:%d:%s", cfg.Clients, hashStrs(assign))
	per := map[string]int{}
	for _, c := range outBy {
		per[strconv.Itoa(c)]++
	}
	v.summary = map[string]any{"consumers": cfg.Clients, "items": items, "delivered": outs, "per_consumer": per, "commit_point_records": len(recs)}
	return v
}

func hashStrs(s []string) string {
	h := fnv.New64a()
	for _, x := range s {
		h.Write([]byte(x))
		h.Write([]byte{0})
	}
	return fmt.Sprintf("%016x", h.Sum64())
}

// ---------------- loadbalancer ----------------

func lbPath(c, k int) string { return fmt.Sprintf("c%d_r%d.txt", c, k) }
func lbBody(c, k int) string { return fmt.Sprintf("page for request %d of client %d", k, c) }

func realLoadBalancerChild() {
	cfg := childCfg()
	w := common.NewJSONLWriter(cfg.Out)
	ns, ncl, R := cfg.Servers, cfg.Clients, cfg.Requests
	for c := ns + 1; c <= ns+ncl; c++ {
		for k := 0; k < R; k++ {
			if err := os.WriteFile(filepath.Join(cfg.Dir, lbPath(c, k)), []byte(lbBody(c, k)), 0o644); err != nil {
				panic(err)
			}
		}
	}
	ports := freePorts(ns + ncl + 1)
	addr := func(self int) resources.MailboxesAddressMappingFn {
		return func(idx tla.Value) (resources.MailboxKind, string) {
			a := fmt.Sprintf("127.0.0.1:%d", ports[int(idx.AsNumber())])
			if int(idx.AsNumber()) == self {
				return resources.MailboxesLocal, a
			}
			return resources.MailboxesRemote, a
		}
	}
	hookLog(func(arch string, self tla.Value, label string, rs []trace.ReadElement, ws []trace.WriteElement) {
		switch label {
		case "AClient.clientRequest":
			for _, e := range ws {
				if e.Name == "mailboxes" {
					w.Emit(map[string]any{"kind": "req", "c": num(self), "path": fld(e.Value, "path")})
				}
			}
		case "ALoadBalancer.sendServer":
			for _, e := range ws {
				if e.Name == "mailboxes" && len(e.Indices) == 1 {
					w.Emit(map[string]any{"kind": "routed", "to": num(e.Indices[0]), "c": fld(e.Value, "client_id"), "path": fld(e.Value, "path")})
				}
			}
		case "AServer.sendPage":
			rec := map[string]any{"kind": "served", "server": num(self)}
			for _, e := range rs {
				if e.Name == "file_system" && len(e.Indices) == 1 {
					rec["path"] = num(e.Indices[0])
				}
			}
			for _, e := range ws {
				if e.Name == "mailboxes" && len(e.Indices) == 1 {
					rec["c"] = num(e.Indices[0])
					rec["page"] = num(e.Value)
				}
			}
			w.Emit(rec)
		}
	})
	cs := &ctxSet{w: w}
	consts := func() []distsys.MPCalContextConfigFn {
		return []distsys.MPCalContextConfigFn{
			distsys.DefineConstantValue("LoadBalancerId", tla.MakeNumber(0)),
			distsys.DefineConstantValue("NUM_SERVERS", tla.MakeNumber(int32(ns))),
			distsys.DefineConstantValue("NUM_CLIENTS", tla.MakeNumber(int32(ncl))),
			distsys.DefineConstantValue("GET_PAGE", tla.MakeString("GET_PAGE")),
		}
	}
	cs.run("loadbalancer", distsys.NewMPCalContext(tla.MakeNumber(0), loadbalancer.ALoadBalancer, append(consts(),
		distsys.EnsureArchetypeRefParam("mailboxes", resources.NewTCPMailboxes(addr(0), mboxOpts()...)))...), nil)
	for i := 1; i <= ns; i++ {
		cs.run(fmt.Sprintf("server%d", i), distsys.NewMPCalContext(tla.MakeNumber(int32(i)), loadbalancer.AServer, append(consts(),
			distsys.EnsureArchetypeRefParam("mailboxes", resources.NewTCPMailboxes(addr(i), mboxOpts()...)),
			distsys.EnsureArchetypeRefParam("file_system", resources.NewFileSystem(cfg.Dir)))...), nil)
	}
	got := make(chan struct{}, ncl*R*2+16)
	for c := ns + 1; c <= ns+ncl; c++ {
		c := c
		in := make(chan tla.Value, R)
		out := make(chan tla.Value, R+8)
		for k := 0; k < R; k++ {
			in <- tla.MakeString(lbPath(c, k))
		}
		cs.run(fmt.Sprintf("client%d", c), distsys.NewMPCalContext(tla.MakeNumber(int32(c)), loadbalancer.AClient, append(consts(),
			distsys.EnsureArchetypeRefParam("mailboxes", resources.NewTCPMailboxes(addr(c), mboxOpts()...)),
			distsys.EnsureArchetypeRefParam("instream", resources.NewInputChan(in)),
			distsys.EnsureArchetypeRefParam("outstream", resources.NewOutputChan(out)))...), nil)
		go func() {
			for v := range out {
				w.Emit(map[string]any{"kind": "out", "c": c, "page": num(v)})
				got <- struct{}{}
			}
		}()
	}
	deadline := time.After(childDeadline)
	n := 0
wait:
	for n < ncl*R {
		select {
		case <-got:
			n++
		case <-deadline:
			w.Emit(map[string]any{"kind": "timeout", "got": n})
			break wait
		}
	}
	if n == ncl*R {
		time.Sleep(300 * time.Millisecond) // a surplus answer would be consumed as the reply to nothing and show up in the log
	}
	cs.stopAll()
	w.Emit(map[string]any{"kind": "end"})
	w.Close()
}

func checkLoadBalancerLog(cfg realCfg, recs []map[string]any) realVerdict {
	v := realVerdict{summary: map[string]any{}}
	timedOut := commonErrors(&v, "loadbalancer", recs)
	ns, ncl, R := cfg.Servers, cfg.Clients, cfg.Requests
	requested := map[string]int{}
	servedBy := map[string][]int{}
	outs := map[int][]string{}
	perServer := map[string]int{}
	var route []string
	for _, r := range recs {
		switch r["kind"] {
		case "req":
			requested[fmt.Sprint(r["path"])] = asInt(r["c"])
		case "routed":
			if to := asInt(r["to"]); to < 1 || to > ns {
				v.bad("C16:real:loadbalancer:routed-to-non-server", "request %v of client %v forwarded to node %v", r["path"], r["c"], r["to"])
			}
			route = append(route, fmt.Sprint(r["to"]))
		case "served":
			p := unq(fmt.Sprint(r["path"]))
			c, ok := requested[fmt.Sprintf("%q", p)]
			if !ok {
				c, ok = requested[p]
			}
			if !ok {
				v.bad("C16:real:loadbalancer:answer-without-request", "server %v served %q, which no client's committed request names", r["server"], p)
			} else if c != asInt(r["c"]) {
				v.bad("C16:real:loadbalancer:answer-to-wrong-client", "server %v sent the page for %q (requested by client %d) to client %v", r["server"], p, c, r["c"])
			}
			servedBy[p] = append(servedBy[p], asInt(r["server"]))
			if len(servedBy[p]) > 1 {
				v.bad("C16:real:loadbalancer:answered-by-two-servers", "request %q answered by servers %v", p, servedBy[p])
			}
			perServer[fmt.Sprint(r["server"])]++
		case "out":
			c := asInt(r["c"])
			outs[c] = append(outs[c], unq(fmt.Sprint(r["page"])))
		}
	}
	total := 0
	for c := ns + 1; c <= ns+ncl; c++ {
		for k, page := range outs[c] {
			total++
			if k >= R {
				v.bad("C16:real:loadbalancer:surplus-response", "client %d received response number %d (%q) having made %d requests", c, k+1, page, R)
				continue
			}
			if page != lbBody(c, k) {
				v.bad("C16:real:loadbalancer:response-mismatch", "client %d, request %d (%s): received %q, expected %q", c, k, lbPath(c, k), page, lbBody(c, k))
			}
			if n := len(servedBy[lbPath(c, k)]); n != 1 {
				v.bad("C16:real:loadbalancer:not-answered-by-exactly-one-server", "client %d received the answer to %s, which %d server sections served (%v)", c, lbPath(c, k), n, servedBy[lbPath(c, k)])
			}
		}
		if !timedOut && len(outs[c]) != R {
			v.bad("C16:real:loadbalancer:conservation", "client %d made %d requests and received %d responses", c, R, len(outs[c]))
		}
	}
	v.complete = !timedOut
	v.sig = fmt.Sprintf("lb:%d:%d:%s", ns, ncl, hashStrs(route))
	v.summary = map[string]any{"servers": ns, "clients": ncl, "requests_per_client": R, "responses": total, "served_per_server": perServer, "log_records": len(recs)}
	return v
}

func unq(s string) string {
	if u, err := strconv.Unquote(s); err == nil {
		return u
	}
	return s
}

// ---------------- proxy ----------------

// fdProbe forwards to the production failure detector and logs every answer.
type fdProbe struct {
	inner distsys.ArchetypeResource
	idx   tla.Value
	w     *common.JSONLWriter
}

func (p *fdProbe) Abort(i distsys.ArchetypeInterface) chan struct{}  { return p.inner.Abort(i) }
func (p *fdProbe) PreCommit(i distsys.ArchetypeInterface) chan error { return p.inner.PreCommit(i) }
func (p *fdProbe) Commit(i distsys.ArchetypeInterface) chan struct{} { return p.inner.Commit(i) }
func (p *fdProbe) Close() error                                      { return p.inner.Close() }
func (p *fdProbe) Index(i distsys.ArchetypeInterface, idx tla.Value) (distsys.ArchetypeResource, error) {
	sub, err := p.inner.Index(i, idx)
	if err != nil {
		return nil, err
	}
	return &fdProbe{inner: sub, idx: idx, w: p.w}, nil
}
func (p *fdProbe) ReadValue(i distsys.ArchetypeInterface) (tla.Value, error) {
	v, err := p.inner.ReadValue(i)
	if err == nil {
		p.w.Emit(map[string]any{"kind": "fd", "idx": num(p.idx), "val": v.StripVClock().AsBool()})
	}
	return v, err
}
func (p *fdProbe) WriteValue(i distsys.ArchetypeInterface, v tla.Value) error {
	return p.inner.WriteValue(i, v)
}

func realProxyChild() {
	cfg := childCfg()
	w := common.NewJSONLWriter(cfg.Out)
	ns, ncl, R := cfg.Servers, cfg.Clients, cfg.Requests
	proxyID := ns + ncl + 1
	ports := freePorts(proxyID*4 + 1)
	monAddr := fmt.Sprintf("127.0.0.1:%d", ports[proxyID*4])
	network := func(self int) distsys.ArchetypeResource {
		return resources.NewTCPMailboxes(func(idx tla.Value) (resources.MailboxKind, string) {
			aid := int(idx.AsTuple().Get(0).AsNumber())
			typ := int(idx.AsTuple().Get(1).AsNumber())
			kind := resources.MailboxesRemote
			if aid == self {
				kind = resources.MailboxesLocal
			}
			return kind, fmt.Sprintf("127.0.0.1:%d", ports[(aid-1)*4+(typ-1)])
		}, mboxOpts()...)
	}
	hookLog(func(arch string, self tla.Value, label string, rs []trace.ReadElement, ws []trace.WriteElement) {
		switch label {
		case "AClient.clientLoop":
			for _, e := range ws {
				if e.Name == "net" {
					w.Emit(map[string]any{"kind": "creq", "c": num(self), "id": fld(e.Value, "id"), "body": fld(e.Value, "body")})
				}
			}
		case "AProxy.proxyLoop":
			for _, e := range ws {
				if e.Name == "msg" {
					w.Emit(map[string]any{"kind": "preq", "from": fld(e.Value, "from"), "id": fld(e.Value, "id"), "body": fld(e.Value, "body")})
				}
			}
		case "AServer.serverSendMsg":
			for _, e := range ws {
				if e.Name == "net" {
					w.Emit(map[string]any{"kind": "sresp", "server": num(self), "id": fld(e.Value, "id")})
				}
			}
		case "AProxy.sendMsgToClient":
			for _, e := range ws {
				if e.Name == "net" {
					w.Emit(map[string]any{"kind": "presp", "to": fld(e.Value, "to"), "id": fld(e.Value, "id"), "body": fld(e.Value, "body")})
				}
			}
		}
	})
	consts := func() []distsys.MPCalContextConfigFn {
		return []distsys.MPCalContextConfigFn{
			distsys.DefineConstantValue("NUM_SERVERS", tla.MakeNumber(int32(ns))),
			distsys.DefineConstantValue("NUM_CLIENTS", tla.MakeNumber(int32(ncl))),
			distsys.DefineConstantValue("EXPLORE_FAIL", tla.ModuleFALSE),
			distsys.DefineConstantValue("CLIENT_RUN", tla.ModuleTRUE),
		}
	}
	mon := resources.NewMonitor(monAddr)
	go func() {
		if err := mon.ListenAndServe(); err != nil {
			w.Emit(map[string]any{"kind": "error", "who": "monitor", "err": err.Error(), "harness": true})
		}
	}()
	cs := &ctxSet{w: w}
	servers := map[int]*distsys.MPCalContext{}
	for i := 1; i <= ns; i++ {
		ctx := distsys.NewMPCalContext(tla.MakeNumber(int32(i)), proxy.AServer, append(consts(),
			distsys.EnsureArchetypeRefParam("net", network(i)),
			distsys.EnsureArchetypeRefParam("fd", resources.NewPlaceHolder()),
			distsys.EnsureArchetypeRefParam("netEnabled", resources.NewPlaceHolder()))...)
		servers[i] = ctx
		cs.run(fmt.Sprintf("server%d", i), ctx, func() error { return mon.RunArchetype(ctx) })
	}
	fd := resources.NewFailureDetector(func(tla.Value) string { return monAddr },
		resources.WithFailureDetectorPullInterval(40*time.Millisecond), resources.WithFailureDetectorTimeout(400*time.Millisecond))
	cs.run("proxy", distsys.NewMPCalContext(tla.MakeNumber(int32(proxyID)), proxy.AProxy, append(consts(),
		distsys.EnsureArchetypeRefParam("net", network(proxyID)),
		distsys.EnsureArchetypeRefParam("fd", &fdProbe{inner: fd, w: w}))...), nil)
	// Requests are handed to a client one at a time: the next one only after its previous answer arrived and the
	// crash plan for that count of answers was carried out (crash points are defined by counted events). A crash
	// marked Mid is carried out after the next request was handed over, i.e. concurrently with a request in flight.
	got := make(chan int, ncl*R*2+16)
	ins := map[int]chan tla.Value{}
	fed := map[int]int{}
	feed := func(c int) {
		if fed[c] < R {
			ins[c] <- tla.MakeNumber(int32(c*1000 + fed[c]))
			fed[c]++
		}
	}
	for c := ns + 1; c <= ns+ncl; c++ {
		c := c
		in := make(chan tla.Value, R)
		out := make(chan tla.Value, R+8)
		ins[c] = in
		cs.run(fmt.Sprintf("client%d", c), distsys.NewMPCalContext(tla.MakeNumber(int32(c)), proxy.AClient, append(consts(),
			distsys.EnsureArchetypeRefParam("net", network(c)),
			distsys.EnsureArchetypeRefParam("input", resources.NewInputChan(in)),
			distsys.EnsureArchetypeRefParam("output", resources.NewOutputChan(out)))...), nil)
		go func() {
			for v := range out {
				w.Emit(map[string]any{"kind": "out", "c": c, "id": fld(v, "id"), "to": fld(v, "to"), "from": fld(v, "from"), "typ": fld(v, "typ"), "body": fld(v, "body")})
				got <- c
			}
		}()
	}
	deadline := time.After(childDeadline)
	n := 0
	crash := append([]crashAt{}, cfg.Crash...)
	doCrashes := func(mid bool) {
		for len(crash) > 0 && crash[0].After <= n && crash[0].Mid == mid {
			s := crash[0].Server
			crash = crash[1:]
			w.Emit(map[string]any{"kind": "stop-begin", "server": s, "after_responses": n, "request_in_flight": mid})
			servers[s].Stop()
			w.Emit(map[string]any{"kind": "stop-done", "server": s})
		}
	}
	doCrashes(false)
	for c := ns + 1; c <= ns+ncl; c++ {
		feed(c)
	}
	doCrashes(true)
	doCrashes(false)
wait:
	for n < ncl*R {
		select {
		case c := <-got:
			n++
			doCrashes(false)
			feed(c)
			doCrashes(true)
			doCrashes(false)
		case <-deadline:
			w.Emit(map[string]any{"kind": "timeout", "got": n})
			break wait
		}
	}
	cs.stopAll()
	_ = mon.Close()
	w.Emit(map[string]any{"kind": "end"})
	w.Close()
}

func checkProxyLog(cfg realCfg, recs []map[string]any) realVerdict {
	v := realVerdict{summary: map[string]any{}}
	timedOut := commonErrors(&v, "proxy", recs)
	ns, ncl, R := cfg.Servers, cfg.Clients, cfg.Requests
	proxyID := ns + ncl + 1
	stopped := map[int]bool{}    // stop of server s has begun
	suspected := map[int]bool{}  // the failure detector answered TRUE for s before its stop began
	outstanding := map[int]int{} // client -> id of the request whose commit point was logged and which is unanswered (-1 none)
	for c := ns + 1; c <= ns+ncl; c++ {
		outstanding[c] = -1
	}
	sresp := map[int]int{}
	outs := map[int]int{}
	fails, failsExcused, falseSuspicions := 0, 0, 0
	var bodies []string
	for _, r := range recs {
		switch r["kind"] {
		case "stop-begin":
			stopped[asInt(r["server"])] = true
		case "fd":
			if s := asInt(r["idx"]); r["val"] == true && !stopped[s] && !suspected[s] {
				suspected[s] = true
				falseSuspicions++
			}
		case "creq":
			outstanding[asInt(r["c"])] = asInt(r["id"])
		case "sresp":
			sresp[asInt(r["server"])]++
		case "presp":
			to, id, body := asInt(r["to"]), asInt(r["id"]), asInt(r["body"])
			if want, ok := outstanding[to]; !ok || want < 0 {
				v.bad("C16:real:proxy:response-without-request", "proxy answered client %v (id %d body %d), which has no outstanding request", r["to"], id, body)
			} else if want != id {
				v.bad("C16:real:proxy:response-id-mismatch", "proxy answered client %d with id %d; its outstanding request has id %d", to, id, want)
			}
			outstanding[to] = -1
			if body == 100 {
				fails++
				var alive, excused []int
				for s := 1; s <= ns; s++ {
					if !stopped[s] {
						if suspected[s] {
							excused = append(excused, s)
						} else {
							alive = append(alive, s)
						}
					}
				}
				if len(alive) > 0 {
					v.bad("C16:real:proxy:fail-before-all-servers-failed", "proxy reported FAIL to client %d (request id %d) while servers %v were running and had never been suspected by the failure detector", to, id, alive)
				} else if len(excused) > 0 {
					failsExcused++
				}
			} else if body < 1 || body > ns {
				v.bad("C16:real:proxy:response-body-not-a-server", "proxy answered client %d with body %v", to, r["body"])
			} else if sresp[body] == 0 {
				v.bad("C16:real:proxy:response-credited-to-silent-server", "proxy answered client %d with body %d, but server %d has not sent any response", to, body, body)
			}
			bodies = append(bodies, fmt.Sprint(body))
		case "out":
			c := asInt(r["c"])
			k := outs[c]
			outs[c]++
			if k >= R {
				v.bad("C16:real:proxy:surplus-response", "client %d received response number %d having made %d requests", c, k+1, R)
				break
			}
			if asInt(r["id"]) != k%2 || asInt(r["to"]) != c || asInt(r["from"]) != proxyID || asInt(r["typ"]) != 2 {
				v.bad("C16:real:proxy:response-id-mismatch", "client %d, request number %d (id %d): received id=%v to=%v from=%v typ=%v body=%v", c, k, k%2, r["id"], r["to"], r["from"], r["typ"], r["body"])
			}
		}
	}
	total := 0
	for c := ns + 1; c <= ns+ncl; c++ {
		total += outs[c]
		if !timedOut && outs[c] != R {
			v.bad("C16:real:proxy:conservation", "client %d made %d requests and received %d responses", c, R, outs[c])
		}
	}
	v.complete = !timedOut
	v.sig = fmt.Sprintf("proxy:%d:%d:%v:%s", ns, ncl, cfg.Crash, hashStrs(bodies))
	v.summary = map[string]any{"servers": ns, "clients": ncl, "requests_per_client": R, "crash_plan": cfg.Crash, "responses": total, "fail_responses": fails,
		"fail_responses_excused_by_fd_inaccuracy": failsExcused, "fd_false_suspicions": falseSuspicions, "log_records": len(recs)}
	return v
}

// ---------------- parent side ----------------

func realConfigs(r *common.Run, rng *rand.Rand, n int) []realCfg {
	var out []realCfg
	for i := 0; i < n; i++ {
		seed := r.Seed*1000 + int64(i)
		out = append(out, realCfg{System: "dqueue", Seed: seed, Clients: 2 + rng.Intn(4), Requests: r.Pick(60, 150) + rng.Intn(40)})
		out = append(out, realCfg{System: "loadbalancer", Seed: seed, Servers: 1 + rng.Intn(3), Clients: 1 + rng.Intn(4), Requests: r.Pick(15, 40) + rng.Intn(10)})
		ns := 2 + rng.Intn(2)
		pc := realCfg{System: "proxy", Seed: seed, Servers: ns, Clients: 1 + rng.Intn(2), Requests: r.Pick(10, 20)}
		total := pc.Clients * pc.Requests
		scenario := 0 // the first proxy run always takes every server down, one after the other
		if i > 0 {
			scenario = (i + int(r.Seed)) % 4
		}
		switch scenario {
		case 0: // servers fail one after the other until none is left: FAIL answers must appear only then
			perm := rng.Perm(ns)
			at := 1 + rng.Intn(total/3)
			for _, s := range perm {
				pc.Crash = append(pc.Crash, crashAt{After: at, Server: s + 1, Mid: rng.Intn(2) == 0})
				at += 1 + rng.Intn(total/3)
			}
		case 1: // one server fails
			pc.Crash = []crashAt{{After: rng.Intn(total / 2), Server: 1 + rng.Intn(ns), Mid: rng.Intn(2) == 0}}
		case 2: // all but the last one fail at the start
			for s := 1; s < ns; s++ {
				pc.Crash = append(pc.Crash, crashAt{After: 0, Server: s})
			}
		case 3: // no failure
		}
		out = append(out, pc)
	}
	return out
}

func checkRealLog(cfg realCfg, recs []map[string]any) realVerdict {
	switch cfg.System {
	case "dqueue":
		return checkDqueueLog(cfg, recs)
	case "loadbalancer":
		return checkLoadBalancerLog(cfg, recs)
	default:
		return checkProxyLog(cfg, recs)
	}
}

func runRealSettings(r *common.Run, scratch string, samples *common.SampleKeeper, stats map[string]any, distinct map[string]int) int {
	rng := r.Rand("real")
	cfgs := realConfigs(r, rng, r.Pick(2, 8))
	var mu sync.Mutex
	type agg struct {
		runs, complete, inconclusive, records int
		sigs                                  map[string]bool
		summaries                             []any
	}
	aggs := map[string]*agg{"dqueue": {sigs: map[string]bool{}}, "loadbalancer": {sigs: map[string]bool{}}, "proxy": {sigs: map[string]bool{}}}
	evals := 0
	common.Parallel(len(cfgs), 3, func(i int) {
		cfg := cfgs[i]
		cfg.Out = filepath.Join(scratch, fmt.Sprintf("real-%s-%d.jsonl", cfg.System, i))
		cfg.Dir = filepath.Join(scratch, fmt.Sprintf("real-%s-%d.d", cfg.System, i))
		_ = os.MkdirAll(cfg.Dir, 0o755)
		cb, _ := json.Marshal(cfg)
		res := common.RunChild("", "real-"+cfg.System, scratch, []string{"C16_CFG=" + string(cb)}, childDeadline+60*time.Second)
		recs, complete, _ := common.ReadJSONL(cfg.Out)
		v := checkRealLog(cfg, recs)
		mu.Lock()
		defer mu.Unlock()
		a := aggs[cfg.System]
		a.runs++
		evals++
		a.records += len(recs)
		for _, x := range v.vs {
			r.Report(x[0], fmt.Sprintf("real %s run (servers=%d clients=%d requests=%d crash=%v): %s", cfg.System, cfg.Servers, cfg.Clients, cfg.Requests, cfg.Crash, x[1]),
				map[string]any{"setting": "real", "cfg": cfg, "log": recs, "violation": x[1]})
		}
		if res.TimedOut || !complete || !v.complete {
			a.inconclusive++
			r.Inconclusive(fmt.Sprintf("real %s run %d: watchdog=%v log_complete=%v finished=%v exit=%d records=%d %s", cfg.System, i, res.TimedOut, complete, v.complete, res.ExitCode, len(recs), tailStr(lastLines(res.Output, 6), 500)))
			return
		}
		a.complete++
		a.sigs[v.sig] = true
		if len(a.summaries) < 3 {
			a.summaries = append(a.summaries, v.summary)
		}
		if a.complete == 1 {
			samples.N++
			samples.Add(map[string]any{"setting": "real", "cfg": cfg, "observed": v.summary})
		}
	})
	names := []string{"dqueue", "loadbalancer", "proxy"}
	sort.Strings(names)
	for _, n := range names {
		a := aggs[n]
		stats[n] = map[string]any{"runs": a.runs, "runs_decided": a.complete, "runs_inconclusive": a.inconclusive, "log_records": a.records, "distinct_histories": len(a.sigs), "observed": a.summaries}
		distinct[n] = len(a.sigs)
	}
	return evals
}

func lastLines(s string, n int) string {
	ls := strings.Split(strings.TrimSpace(s), "\n")
	if len(ls) > n {
		ls = ls[len(ls)-n:]
	}
	return strings.Join(ls, " | ")
}

// replayReal re-evaluates the stored log of a real run.
func replayReal(r *common.Run, w map[string]any) {
	var cfg realCfg
	cb, _ := json.Marshal(w["cfg"])
	_ = json.Unmarshal(cb, &cfg)
	var recs []map[string]any
	lb, _ := json.Marshal(w["log"])
	_ = json.Unmarshal(lb, &recs)
	v := checkRealLog(cfg, recs)
	for _, x := range v.vs {
		r.Report(x[0], "replayed: "+x[1], w)
	}
}

// C11 — the two-phase-commit variable behaves as one copy and does not livelock.
//
// Every case builds a cluster of 2–7 real TwoPCArchetypeResources in a child process, connects them by one
// of three transports (the package's LocalReplicaHandle, an in-process handle calling the exported RPC entry
// point TwoPCReceiver.Receive, the real RPCReplicaHandle over 127.0.0.1), optionally behind a harness
// ReplicaHandle that delays / reorders / duplicates / drops / times out requests, and drives 1–6 concurrent
// writers through real MPCalContexts (the shipped shcounter.ANode, and hand-built increment / list-append /
// register archetypes, optionally with a sibling resource whose PreCommit fails so that won pre-commits are
// rolled back).  Hook H7 reports every install {replica, version, value, how} and, for every request an
// acceptor processes, its (2PC state, accepted proposer, accepted version) before and after.
//
// Oracles (oracle.go), all over recorded events, none over time:
//   - version ↦ value is single-valued across replicas; versions strictly increase per replica;
//   - at most one proposer wins a version;
//   - a committed section read the value of the version just below the one it won (else it committed over an
//     overwritten read) and its commit carries what it wrote;
//   - the committed sections are linearizable as a single read-then-write register (porcupine);
//   - after all writers finished and everything drained: replicas rest on installed values, the newest
//     value is what the committed sections produce (counter = number of committed increments, …);
//   - progress, per message: an Abort from proposer S for version v processed by an acceptor that holds an
//     accepted pre-commit of a proposer Equal to S for v, all of whose accepted PreCommits are older than the
//     Abort (an Abort concerns the proposals its sender made before it), must leave the acceptor `initial`;
//   - progress, global: a logical fixpoint (nothing in flight, no broadcast goroutine outstanding in any
//     resource, states unchanged, every unfinished writer completes further attempts and not one request is
//     sent) is a livelock, keyed by why the blocked writers' replicas hold what they hold; and once no
//     archetype runs, nothing is in flight and no broadcast goroutine is left, no replica may still hold an
//     accepted pre-commit (with message loss: of a proposal that was rejected or aborted);
//   - a panic of the code under test is a violation keyed by its message;
//   - bounded attempts: exceeding the bound on broadcast proposals, or the internal deadline, is inconclusive.
//
// Race batches run the race-detector build without hooks and without the transport wrapper; race reports are
// evidence only (DESIGN E7).
package main

import (
	"encoding/json"
	"fmt"
	"math/rand"
	"os"
	"path/filepath"
	"regexp"
	"sort"
	"strings"
	"sync"
	"time"

	"verifh/common"
)

type replayWitness struct {
	Case    Case    `json:"case"`
	Finding Finding `json:"finding"`
	Events  []Event `json:"events"`
	Note    string  `json:"note,omitempty"`
}

func genCases(r *common.Run) []Case {
	rng := r.Rand("cases")
	n := r.Pick(60, 800)
	transports := []string{"local", "recv", "rpc"}
	workloads := []string{"incr", "append", "shcounter", "reg"}
	var cs []Case
	// the shipped scenario first: shcounter.RunTest's shape over each transport, no faults
	for _, t := range transports {
		for _, nodes := range []int{3, 6} {
			cs = append(cs, Case{N: nodes, Writers: nodes, Transport: t, Workload: "shcounter"})
		}
	}
	// small clusters in which a proposer's Abort is often overtaken by its own next PreCommit while commits
	// travel slowly: the schedule family in which a stale Abort can free a vote that already counted
	for i, k := 0, r.Pick(3, 45); i < k; i++ {
		cs = append(cs, Case{N: 3, Writers: 3, Transport: transports[i%3], Workload: []string{"append", "incr"}[(i/3)%2], Ops: 8, Yield: 0.3,
			Faults: Faults{HoldAbort: 0.8, Drop: 0.3, Delay: 0.1, MaxDelayUs: 1500}})
	}
	// small clusters in which a Commit is often overtaken by its proposer's next PreCommit / Abort and some PreCommits
	// are lost: replicas that lag one version behind keep seeing messages for the next one
	for i, k := 0, r.Pick(3, 45); i < k; i++ {
		cs = append(cs, Case{N: 3 + (i/3)%2, Writers: 3, Transport: transports[i%3], Workload: []string{"incr", "append"}[(i/3)%2], Ops: 8, Yield: 0.3,
			Faults: Faults{HoldCommit: 0.7, Drop: 0.3, Delay: 0.2, Reorder: 0.1, MaxDelayUs: 2000}})
	}
	for i := len(cs); i < n; i++ {
		c := Case{Transport: transports[i%3], Workload: workloads[(i/3)%4]}
		c.N = 2 + rng.Intn(6)
		if c.Workload == "shcounter" {
			c.N = 2 + rng.Intn(5)
			c.Writers = c.N
		} else {
			c.Writers = 1 + rng.Intn(min(6, c.N))
			if c.Writers == 1 && rng.Intn(3) != 0 {
				c.Writers = min(2, c.N)
			}
			c.Ops = 3 + rng.Intn(5)
			if rng.Intn(3) == 0 {
				c.FailPC = 0.15 + 0.2*rng.Float64()
			}
			if rng.Intn(2) == 0 {
				c.ReadOnly = 0.25
			}
		}
		if rng.Intn(4) != 0 {
			c.Yield = 0.3 + 0.5*rng.Float64()
		}
		switch rng.Intn(6) {
		case 5: // a proposer's Abort is overtaken by its own next PreCommit; some PreCommits are lost
			c.Faults = Faults{HoldAbort: 0.7, Drop: 0.25, Delay: 0.1, MaxDelayUs: 800, ErrBudget: 0}
		case 0: // none
		case 1: // delay + reorder only (no errors: quiescence oracles stay applicable)
			c.Faults = Faults{Delay: 0.3, Reorder: 0.2, MaxDelayUs: 1500}
		case 2: // duplication + reorder
			c.Faults = Faults{Delay: 0.15, Reorder: 0.15, Dup: 0.2, MaxDelayUs: 1500}
		case 3: // loss and timeouts
			c.Faults = Faults{Delay: 0.1, Drop: 0.12, Timeout: 0.1, MaxDelayUs: 1200, ErrBudget: 2}
		case 4: // everything
			c.Faults = Faults{Delay: 0.15, Reorder: 0.1, Dup: 0.1, Drop: 0.07, Timeout: 0.07, MaxDelayUs: 1500, ErrBudget: 2}
		}
		cs = append(cs, c)
	}
	for i := range cs {
		c := &cs[i]
		c.ID = i
		c.Seed = r.Seed*100003 + int64(i)
		c.Procs = 4
		ops := c.Ops
		if c.Workload == "shcounter" {
			ops = 2
		}
		c.MaxProposals = 40 * c.Writers * ops * c.N
		c.DeadlineS = r.Pick(40, 60)
	}
	return cs
}

type outcome struct {
	c        Case
	evs      []Event
	fs       []Finding
	st       Stats
	child    common.ChildResult
	complete bool
	races    []raceReport
}

type raceReport struct {
	Sig    string `json:"signature"`
	Report string `json:"report"`
}

var raceFrame = regexp.MustCompile(`(?m)^\s+github\.com/DistCompiler/pgo/distsys/(\S+)\(\)\s*$`)

func parseRaces(dir string) []raceReport {
	var out []raceReport
	files, _ := filepath.Glob(filepath.Join(dir, "race.*"))
	for _, f := range files {
		buf, _ := os.ReadFile(f)
		for _, blk := range strings.Split(string(buf), "==================") {
			if !strings.Contains(blk, "WARNING: DATA RACE") {
				continue
			}
			// signature: first repository frame of each of the two accesses
			parts := strings.SplitN(blk, "Previous ", 2)
			sig := ""
			for _, p := range parts {
				if m := raceFrame.FindStringSubmatch(p); m != nil {
					sig += m[1] + " | "
				}
			}
			if len(blk) > 3000 {
				blk = blk[:3000]
			}
			out = append(out, raceReport{Sig: strings.TrimSuffix(sig, " | "), Report: blk})
		}
	}
	return out
}

var panicLine = regexp.MustCompile(`(?m)^(panic: .*|fatal error: .*)$`)

func runCase(c Case, scratch string) outcome {
	o := outcome{c: c}
	dir := filepath.Join(scratch, fmt.Sprintf("case-%d", c.ID))
	_ = os.MkdirAll(dir, 0o755)
	casePath := filepath.Join(dir, "case.json")
	evPath := filepath.Join(dir, "events.jsonl")
	buf, _ := json.Marshal(c)
	_ = os.WriteFile(casePath, buf, 0o644)
	env := []string{"VERIF_C11_CASE=" + casePath, "VERIF_C11_EVENTS=" + evPath}
	exe := ""
	if c.Race {
		exe = os.Getenv("VERIF_RACE_BIN")
		env = append(env, "GORACE=halt_on_error=0 log_path="+filepath.Join(dir, "race"))
	}
	o.child = common.RunChild(exe, "run", dir, env, time.Duration(c.DeadlineS+45)*time.Second)
	o.evs, o.complete, _ = readEvents(evPath)
	o.fs, o.st = analyse(c, o.evs)
	if c.Race {
		o.races = parseRaces(dir)
		// race batches run without hooks: a behavioural finding there cannot be classified by cause, so it gets
		// its own key and neither hides nor is hidden by the classified keys of hooked runs
		for i := range o.fs {
			o.fs[i].Key += ":unhooked-race-batch"
		}
	}
	if !o.complete {
		if m := panicLine.FindString(o.child.Output); m != "" && !o.child.TimedOut {
			out := o.child.Output
			if len(out) > 6000 {
				out = out[:6000]
			}
			o.fs = append(o.fs, Finding{"C11:crash:" + slug(strings.TrimPrefix(m, "panic: ")), "the process running the replicas died: " + m, map[string]any{"output_head": out}})
			o.st.Inconclusive = ""
		} else if o.st.Inconclusive == "" {
			o.st.Inconclusive = fmt.Sprintf("child did not finish its log (exit %d, watchdog %v)", o.child.ExitCode, o.child.TimedOut)
		}
	}
	return o
}

func main() {
	if common.ChildRole() == "run" {
		runChild()
		return
	}
	r := common.Start("C11", "exploration")
	if r.Replay != "" {
		replay(r)
		return
	}
	scratch := common.Scratch("c11")
	defer os.RemoveAll(scratch)

	cases := genCases(r)
	if force := os.Getenv("VERIF_C11_FORCE"); force != "" { // development aid: JSON overlay applied to every generated case
		for i := range cases {
			if err := json.Unmarshal([]byte(force), &cases[i]); err != nil {
				fmt.Println("bad VERIF_C11_FORCE:", err)
				os.Exit(3)
			}
		}
		r.Note("VERIF_C11_FORCE=%s", force)
	}
	if flt := os.Getenv("VERIF_C11_FILTER"); flt != "" { // development aid: only cases whose signature contains every given word
		var keep []Case
		for _, c := range cases {
			ok := true
			for _, w := range strings.Fields(flt) {
				ok = ok && strings.Contains(c.sig(), w)
			}
			if ok {
				keep = append(keep, c)
			}
		}
		cases = keep
		r.Note("VERIF_C11_FILTER=%q: %d cases kept", flt, len(cases))
	}
	// race batches: light instrumentation, race-detector build
	if os.Getenv("VERIF_RACE_BIN") != "" {
		nr := r.Pick(3, 12)
		rrng := r.Rand("race")
		for i := 0; i < nr; i++ {
			c := Case{ID: len(cases), Seed: r.Seed*977 + int64(i), Race: true, Procs: 4, DeadlineS: 25}
			c.Transport = []string{"local", "rpc", "recv"}[i%3]
			c.N = 3
			if i >= 3 {
				c.N = 2 + rrng.Intn(3)
			}
			c.Writers = c.N
			if i%2 == 0 {
				c.Workload, c.Ops, c.ReadOnly, c.FailPC = "incr", 4, 0.2, 0.2
			} else {
				c.Workload = "shcounter"
			}
			c.MaxProposals = 0 // no wrapper in race batches: only the deadline
			cases = append(cases, c)
		}
	} else {
		r.Note("VERIF_RACE_BIN not set: race batches skipped")
	}

	outs := make([]outcome, len(cases))
	var mu sync.Mutex
	workers := r.Pick(6, 12)
	common.Parallel(len(cases), workers, func(i int) {
		o := runCase(cases[i], scratch)
		o.evs = nil // analysed; keep memory flat (re-read for witnesses below)
		mu.Lock()
		outs[i] = o
		mu.Unlock()
		// the events were needed only for witnesses
		if len(o.fs) == 0 {
			_ = os.RemoveAll(filepath.Join(scratch, fmt.Sprintf("case-%d", cases[i].ID)))
		}
	})

	// ---- verdicts and evidence ------------------------------------------------------------------------
	var distinct common.Distinct
	samples := &common.SampleKeeper{N: 6}
	totReq := map[string]int{}
	totFaults := map[string]int64{}
	reasons := map[string]int{}
	byTransport := map[string]int{}
	byWorkload := map[string]int{}
	winnerSigs := map[string]bool{}
	linOK, linOps := 0, 0
	var installs, wins, sections, released, rejected, evaluations int
	raceSigs := map[string]int{}
	raceCases := 0
	maxPropRatio, maxPropCase := 0.0, ""
	staleAbortReleases, lateAccepts, otherVerReleases := map[string]int{}, map[string]int{}, map[string]int{}
	livelocks := 0
	for _, o := range outs {
		evaluations++
		c := o.c
		for _, f := range o.fs {
			evs, _, _ := readEvents(filepath.Join(scratch, fmt.Sprintf("case-%d", c.ID), "events.jsonl"))
			note := ""
			if len(evs) > 6000 {
				// keep the replay file readable: head and tail; the finding's own details carry the decisive events
				evs = append(append([]Event{}, evs[:3000]...), evs[len(evs)-3000:]...)
				note = "event log truncated to head and tail; a replay re-evaluates the oracles on the truncated log and falls back to the stored finding"
			}
			r.Report(f.Key, fmt.Sprintf("[%s] %s", c.sig(), f.Desc), replayWitness{Case: c, Finding: f, Events: evs, Note: note})
		}
		if o.st.Inconclusive != "" {
			r.Inconclusive(fmt.Sprintf("case %d [%s]: %s", c.ID, c.sig(), o.st.Inconclusive))
		}
		if c.Race {
			raceCases++
			for _, rr := range o.races {
				raceSigs[rr.Sig]++
				if raceSigs[rr.Sig] == 1 {
					r.Note("race observed (evidence only, E7) [%s]: %s", c.sig(), rr.Sig)
				}
			}
		}
		reasons[o.st.Reason]++
		byTransport[c.Transport]++
		byWorkload[c.Workload]++
		for k, v := range o.st.Requests {
			totReq[k] += v
		}
		for k, v := range o.st.Faults {
			totFaults[k] += v
		}
		if o.st.Sections > 0 && o.st.Reason == "done" {
			// proposals broadcast per committed section, normalised by writers*replicas (calibrates the attempt bound)
			if ratio := float64(o.st.Proposals) / float64(o.st.Sections*c.Writers*c.N); ratio > maxPropRatio {
				maxPropRatio, maxPropCase = ratio, c.sig()
			}
		}
		staleAbortReleases[c.Transport] += o.st.StaleAbortReleases
		lateAccepts[c.Transport] += o.st.LateAccepts
		otherVerReleases[c.Transport] += o.st.OtherVersionAbortReleases
		if o.st.Livelock {
			livelocks++
			r.Note("livelock fixpoint in case %d [%s], causes %v", c.ID, c.sig(), o.st.LivelockCauses)
		}
		installs += o.st.Installs
		wins += o.st.Wins
		sections += o.st.Sections
		released += o.st.AbortsReleased
		rejected += o.st.Rejected
		if o.st.LinResult == "Ok" {
			linOK++
			linOps += o.st.LinOps
		}
		if o.st.WinnerSig != "" {
			winnerSigs[c.sig()+"/"+o.st.WinnerSig] = true
		}
		// non-trivial: decided run in which >= 2 writers committed and some proposal lost (rejected pre-commit
		// or an Abort that had something to release), or — single writer / race batch — at least 3 sections committed
		contended := o.st.WritersCommit >= 2 && (o.st.Rejected > 0 || o.st.AbortsReleased > 0)
		if o.st.Inconclusive == "" && (contended || (o.st.Sections >= 3 && (c.Race || c.Writers == 1))) {
			distinct.Add(c.sig())
		}
		samples.Add(map[string]any{"case": c, "stats": o.st, "findings": len(o.fs), "child_wall_s": o.child.Wall.Seconds()})
	}
	raceList := []any{}
	var rs []string
	for s := range raceSigs {
		rs = append(rs, s)
	}
	sort.Strings(rs)
	for _, s := range rs {
		raceList = append(raceList, map[string]any{"signature": s, "reports": raceSigs[s]})
	}
	_ = os.RemoveAll(scratch) // Finish exits the process: deferred calls do not run
	r.Finish(common.Coverage{
		Evaluations:        evaluations,
		DistinctNontrivial: distinct.Len(),
		Rule: "one case = one cluster run (replicas, writers, transport, workload, fault classes, seed) generated from the seed; " +
			"non-trivial = decided run in which at least two writers committed and at least one proposal lost (a rejected PreCommit or an Abort that had an accepted pre-commit to release), " +
			"or a single-writer / race-batch run with >= 3 committed sections; distinct by (replicas, writers, transport, workload, fault classes, sibling-abort, read-only, race)",
		Samples: samples.S,
		Floor:   r.Pick(5, 40),
		Extra: map[string]any{
			"requests_processed":          totReq,
			"installs":                    installs,
			"versions_won":                wins,
			"sections_committed":          sections,
			"aborts_that_released":        released,
			"precommits_rejected":         rejected,
			"faults_injected":             totFaults,
			"end_reasons":                 reasons,
			"cases_by_transport":          byTransport,
			"cases_by_workload":           byWorkload,
			"distinct_winner_sequences":   len(winnerSigs),
			"linearizable_histories":      linOK,
			"linearizable_history_ops":    linOps,
			"livelock_fixpoints_observed": livelocks,
			"obs_precommit_released_by_older_abort_of_same_proposer": staleAbortReleases,
			"obs_precommit_accepted_after_newer_abort_was_processed": lateAccepts,
			"obs_precommit_released_by_abort_for_another_version":    otherVerReleases,
			"max_proposals_per_section_writer_replica":               maxPropRatio,
			"max_proposals_case": maxPropCase,
			"race_batches":       raceCases,
			"races_observed":     raceList,
			"races_policy":       "evidence only (DESIGN E7): a race report never decides C11",
		},
	}, []string{
		"replicas of one cluster live in one process (RPC transport still goes through TCP on 127.0.0.1 and gob)",
		"sender equality in the oracles is tla.Value.Equal, computed inside the hook callback; values in logs are compared by their String() form (numbers, strings and tuples of numbers only, which print canonically)",
		"hook callbacks run under the resource's own mutex and only append to the harness log (one harness mutex): they add happens-before edges, so race batches run without hooks and without the transport wrapper",
		"a livelock verdict needs the logical fixpoint (no request in flight, no broadcast goroutine outstanding, no injected error ever, states unchanged, every unfinished writer completed further attempts, zero requests sent); exceeding the attempt bound or the internal deadline is only inconclusive",
		"the harness transport injects at most ErrBudget errors on Commit/Abort requests per run because the code sleeps 1 s before each retry",
		"porcupine result Unknown (20 s) is inconclusive",
		"SenderTime, the code's own per-sender message stamp, identifies a proposer's proposals and orders the messages of that one proposer in the oracles (an Abort concerns the proposals its sender made before it); it is never compared with a constant",
		"at the end of a run that did not finish by itself the harness asks the contexts to stop and waits a bounded while; the 'nothing will ever release this pre-commit' oracle is applied only if then no archetype runs, nothing is in flight and no broadcast goroutine is left",
	})
}

func replay(r *common.Run) {
	buf, err := os.ReadFile(r.Replay)
	if err != nil {
		fmt.Println("cannot read replay file:", err)
		os.Exit(3)
	}
	var f struct {
		Key     string        `json:"key"`
		Witness replayWitness `json:"witness"`
	}
	if err := json.Unmarshal(buf, &f); err != nil {
		fmt.Println("bad replay file:", err)
		os.Exit(3)
	}
	fs, _ := analyse(f.Witness.Case, f.Witness.Events)
	found := false
	for _, x := range fs {
		fmt.Printf("replayed oracle reports %s: %s\n", x.Key, x.Desc)
		if x.Key == f.Key {
			found = true
		}
		r.Report(x.Key, x.Desc, replayWitness{Case: f.Witness.Case, Finding: x, Events: f.Witness.Events})
	}
	if !found {
		if strings.HasPrefix(f.Key, "C11:crash:") || f.Witness.Note != "" {
			// not re-derivable from events (process death) or log truncated: re-report the stored finding
			r.Report(f.Key, f.Witness.Finding.Desc, f.Witness)
		} else {
			fmt.Printf("replay: stored key %s not reproduced by the oracles\n", f.Key)
		}
	}
	r.Finish(common.Coverage{Evaluations: 1, DistinctNontrivial: 1, Rule: "replay of one stored run", Samples: []any{f.Witness.Case}}, nil)
}

var _ = rand.Int

package main

// Child side of C11: builds one cluster of real 2PC resources inside this process, drives it with real
// MPCalContexts, records hook / probe / transport events into a JSON-lines file and stops on a counted
// criterion (all writers done | logical fixpoint "stuck" | attempt bound | internal deadline).
// Nothing is decided here except the online "stuck" snapshot; every verdict is computed by the parent
// from the recorded events (oracle.go).

import (
	"bufio"
	"encoding/json"
	"errors"
	"fmt"
	"math/rand"
	"net"
	"os"
	"runtime"
	"runtime/debug"
	"sync"
	"sync/atomic"
	"time"

	"github.com/DistCompiler/pgo/distsys"
	"github.com/DistCompiler/pgo/distsys/resources"
	"github.com/DistCompiler/pgo/distsys/tla"
	"github.com/DistCompiler/pgo/systems/shcounter"
)

// Faults are per-request probabilities applied by the harness transport wrapper.
type Faults struct {
	Delay      float64 `json:"delay"`        // sleep before forwarding
	MaxDelayUs int     `json:"max_delay_us"` // upper bound of a delay
	Reorder    float64 `json:"reorder"`      // hold until a later request on the same link was forwarded
	Dup        float64 `json:"dup"`          // forward twice
	Drop       float64 `json:"drop"`         // do not deliver, return an error
	Timeout    float64 `json:"timeout"`      // deliver, but report an error to the caller (response lost / late)
	// HoldAbort: probability that an Abort is held until a later request on the same link was forwarded (the
	// proposer's next PreCommit overtakes its own Abort), with a long fallback.
	HoldAbort float64 `json:"hold_abort"`
	// HoldCommit: probability that a Commit is held until a later request on the same link was forwarded (the
	// proposer's next PreCommit or Abort overtakes its Commit), with a long fallback.
	HoldCommit float64 `json:"hold_commit"`
	// ErrBudget caps injected errors on Commit/Abort requests (each costs the code's own 1 s retry sleep).
	ErrBudget int `json:"err_budget"`
}

func (f Faults) any() bool {
	return f.Delay > 0 || f.Reorder > 0 || f.Dup > 0 || f.Drop > 0 || f.Timeout > 0 || f.HoldAbort > 0 || f.HoldCommit > 0
}

// Case is one generated run.
type Case struct {
	ID        int     `json:"id"`
	Seed      int64   `json:"seed"`
	N         int     `json:"n"`         // replicas
	Writers   int     `json:"writers"`   // nodes 0..Writers-1 run an archetype
	Transport string  `json:"transport"` // local | recv | rpc
	Workload  string  `json:"workload"`  // shcounter | incr | append | reg
	Ops       int     `json:"ops"`       // sections to commit per writer (not shcounter)
	Faults    Faults  `json:"faults"`
	FailPC    float64 `json:"fail_pc"`   // probability that the sibling resource fails PreCommit (abort after a won pre-commit)
	Yield     float64 `json:"yield"`     // probability of a pause inside the probe resource's Read/Write
	ReadOnly  float64 `json:"read_only"` // probability that a section only reads
	Race      bool    `json:"race"`      // light instrumentation: no hooks, no transport wrapper
	Procs     int     `json:"procs"`     // GOMAXPROCS of the child
	// bounds (counts)
	MaxProposals int `json:"max_proposals"` // bound on proposals actually broadcast (PreCommit requests / (N-1))
	DeadlineS    int `json:"deadline_s"`    // internal watchdog (inconclusive)
}

func (c Case) sig() string {
	f := ""
	for _, p := range []struct {
		n string
		v float64
	}{{"delay", c.Faults.Delay}, {"holdabort", c.Faults.HoldAbort}, {"holdcommit", c.Faults.HoldCommit}, {"reorder", c.Faults.Reorder}, {"dup", c.Faults.Dup}, {"drop", c.Faults.Drop}, {"timeout", c.Faults.Timeout}} {
		if p.v > 0 {
			f += p.n + ","
		}
	}
	return fmt.Sprintf("n=%d w=%d %s %s faults=[%s] failpc=%v ro=%v race=%v", c.N, c.Writers, c.Transport, c.Workload, f, c.FailPC > 0, c.ReadOnly > 0, c.Race)
}

// ---------------------------------------------------------------------------------------------------------

type cluster struct {
	c     Case
	log   *evLog
	mu    sync.Mutex // taken together with the log's sequence counter for harness-side shared state
	seq   int64      // logical clock for call/return stamps (same order as log records)
	nodes []*cnode

	sent          atomic.Int64 // wrapper: requests forwarded to the underlying handle (monotone)
	pending       atomic.Int64 // wrapper: requests (and asynchronous copies) accepted from a proposer and not yet finished
	preCommitMsgs atomic.Int64 // wrapper: PreCommit requests forwarded (a proposal sends N-1 of them)
	injErrors     atomic.Int64 // errors returned by the wrapper
	errBudget     atomic.Int64
	tracker       holdTracker
	violationAt   atomic.Int64 // PreCommit messages forwarded when the per-message rule was first seen broken (-1: never)
	faultCounts   sync.Map     // kind -> *atomic.Int64
	faultsOn      atomic.Bool
}

type cnode struct {
	idx   int
	id    tla.Value
	addr  string
	rcvr  *resources.TwoPCReceiver
	res   distsys.ArchetypeResource
	ctx   *distsys.MPCalContext
	probe *probe
	done  atomic.Bool
	err   error
}

func (cl *cluster) stamp() int64 {
	cl.mu.Lock()
	defer cl.mu.Unlock()
	cl.seq++
	return cl.seq
}

// emit appends a record; "ts" is the logical clock shared with stamp().
func (cl *cluster) emit(rec map[string]any) {
	cl.mu.Lock()
	defer cl.mu.Unlock()
	if cl.log == nil {
		return
	}
	cl.seq++
	rec["ts"] = cl.seq
	cl.log.Emit(rec)
}

// evLog is a JSON-lines writer like common.JSONLWriter, plus Flush: the code under test may panic in a goroutine
// nobody can recover, and the events leading there are the witness.
type evLog struct {
	f   *os.File
	w   *bufio.Writer
	seq int64
}

func newEvLog(path string) *evLog {
	f, err := os.Create(path)
	if err != nil {
		panic(err)
	}
	return &evLog{f: f, w: bufio.NewWriterSize(f, 1<<16)}
}

func (l *evLog) Emit(rec map[string]any) {
	l.seq++
	rec["seq"] = l.seq
	buf, err := json.Marshal(rec)
	if err != nil {
		buf = []byte(fmt.Sprintf(`{"seq":%d,"k":"encode-error","what":%q}`, l.seq, err.Error()))
	}
	l.w.Write(buf)
	l.w.WriteByte('\n')
}
func (l *evLog) Flush() { l.w.Flush() }
func (l *evLog) Close() { l.w.Flush(); l.f.Close() }

func (cl *cluster) flush() {
	cl.mu.Lock()
	if cl.log != nil {
		cl.log.Flush()
	}
	cl.mu.Unlock()
}

// finish writes the trailing record and ends the process.
func (cl *cluster) finish() {
	cl.mu.Lock()
	if cl.log != nil {
		cl.log.Emit(map[string]any{"kind": "end"})
		cl.log.Close()
		cl.log = nil
	}
	os.Exit(0)
}

func (cl *cluster) countFault(kind string) {
	v, _ := cl.faultCounts.LoadOrStore(kind, new(atomic.Int64))
	v.(*atomic.Int64).Add(1)
}

func vstr(v tla.Value) any {
	if v == (tla.Value{}) {
		return nil
	}
	return v.String()
}

func accOf(a resources.VerifTwoPCAcceptor) *Acc {
	out := &Acc{State: a.State, Ver: a.Version, Time: a.Time, CS: a.CS, Node: a.Node}
	if a.Proposer != (tla.Value{}) {
		s := a.Proposer.String()
		out.Prop = &s
	}
	return out
}

func accJSON(a resources.VerifTwoPCAcceptor) map[string]any {
	return map[string]any{"state": a.State, "prop": vstr(a.Proposer), "ver": a.Version, "time": a.Time, "cs": a.CS, "node": a.Node}
}

func (cl *cluster) installHooks() {
	resources.VerifTwoPCHooks = resources.VerifTwoPCHookSet{
		Install: func(replica tla.Value, how string, version int, value tla.Value, reqVersion int, reqValue tla.Value, prevVersion int, after resources.VerifTwoPCAcceptor) {
			cl.emit(map[string]any{"k": "inst", "r": vstr(replica), "how": how, "ver": version, "val": vstr(value),
				"qv": reqVersion, "qval": vstr(reqValue), "pv": prevVersion, "a": accJSON(after),
				"valeq": value.Equal(reqValue)})
		},
		Request: func(replica tla.Value, req resources.TwoPCRequest, before, after resources.VerifTwoPCAcceptor, reply resources.TwoPCResponse, senderIdentical bool) {
			eq := req.Sender.Equal(before.Proposer)
			cl.emit(map[string]any{"k": "req", "r": vstr(replica), "t": req.RequestType.String(), "s": vstr(req.Sender), "v": req.Version,
				"val": vstr(req.Value), "st": req.SenderTime, "b": accJSON(before), "a": accJSON(after),
				"acc": reply.Accept, "rv": reply.Version, "same": senderIdentical, "eq": eq})
			// the same per-message rule the parent decides with, evaluated online only to cut a run short once
			// its verdict is already "violated" (such a run is not expected to terminate)
			ev := Event{K: "req", R: replica.String(), T: req.RequestType.String(), S: req.Sender.String(), V: req.Version, ST: req.SenderTime,
				Acpt: reply.Accept, Eq: eq, B: accOf(before), A: accOf(after)}
			cl.mu.Lock()
			if cl.tracker.abortOwesRelease(&ev) && after.State != "initial" && cl.violationAt.Load() < 0 {
				cl.violationAt.Store(cl.preCommitMsgs.Load())
			}
			cl.mu.Unlock()
		},
	}
}

// ---------------------------------------------------------------------------------------------------------
// transports

// recvHandle delivers in-process through the receiver's exported RPC entry point (Receive), i.e. the same
// path an RPC takes minus the wire.
type recvHandle struct{ rcvr *resources.TwoPCReceiver }

func (h recvHandle) Send(req resources.TwoPCRequest, reply *resources.TwoPCResponse) chan error {
	ch := make(chan error, 1)
	ch <- h.rcvr.Receive(req, reply)
	return ch
}
func (h recvHandle) Close() error { return nil }

var errInjected = errors.New("verif: injected transport error")

// link is the harness ReplicaHandle: counts, and (when the case has faults) delays, reorders, duplicates,
// drops and times out requests according to its own seeded PRNG.
type link struct {
	cl       *cluster
	from, to int
	inner    resources.ReplicaHandle
	mu       sync.Mutex
	rng      *rand.Rand
	waiters  []chan struct{} // held ("reorder") requests, released when a later request was forwarded
}

func (l *link) Close() error { return l.inner.Close() }

func (l *link) forward(req resources.TwoPCRequest, reply *resources.TwoPCResponse) error {
	l.cl.sent.Add(1)
	if req.RequestType == resources.PreCommit {
		l.cl.preCommitMsgs.Add(1)
	}
	err := <-l.inner.Send(req, reply)
	// release held requests on this link: they now arrive after a later one
	l.mu.Lock()
	ws := l.waiters
	l.waiters = nil
	l.mu.Unlock()
	for _, w := range ws {
		close(w)
	}
	return err
}

func (l *link) Send(req resources.TwoPCRequest, reply *resources.TwoPCResponse) chan error {
	ch := make(chan error, 1)
	l.cl.pending.Add(1)
	defer l.cl.pending.Add(-1)
	f := l.cl.c.Faults
	if !f.any() || !l.cl.faultsOn.Load() {
		ch <- l.forward(req, reply)
		return ch
	}
	l.mu.Lock()
	p := l.rng.Float64()
	delayUs := 0
	if f.MaxDelayUs > 0 {
		delayUs = l.rng.Intn(f.MaxDelayUs)
	}
	coin := l.rng.Intn(2) == 0
	hold := req.RequestType == resources.Abort && f.HoldAbort > 0 && l.rng.Float64() < f.HoldAbort
	holdCommit := req.RequestType == resources.Commit && f.HoldCommit > 0 && l.rng.Float64() < f.HoldCommit
	l.mu.Unlock()
	if f.HoldAbort > 0 && req.RequestType == resources.Commit {
		// widen the window between a won pre-commit and its commit reaching the replicas
		l.cl.countFault("delay:Commit")
		time.Sleep(time.Duration(4*delayUs) * time.Microsecond)
		ch <- l.forward(req, reply)
		return ch
	}
	if hold || holdCommit {
		l.cl.countFault(map[bool]string{true: "holdabort:Abort", false: "holdcommit:Commit"}[hold])
		w := make(chan struct{})
		l.mu.Lock()
		l.waiters = append(l.waiters, w)
		l.mu.Unlock()
		select {
		case <-w:
		case <-time.After(40 * time.Millisecond):
		}
		ch <- l.forward(req, reply)
		return ch
	}
	errAllowed := func() bool {
		if req.RequestType == resources.PreCommit {
			return true
		}
		return l.cl.errBudget.Add(-1) >= 0
	}
	switch {
	case p < f.Drop:
		if errAllowed() {
			l.cl.countFault("drop:" + req.RequestType.String())
			l.cl.injErrors.Add(1)
			l.cl.emit(map[string]any{"k": "fault", "what": "drop", "r": vstr(nodeID(l.to)), "s": vstr(req.Sender), "t": req.RequestType.String(), "v": req.Version, "st": req.SenderTime})
			ch <- errInjected
			return ch
		}
	case p < f.Drop+f.Timeout:
		if errAllowed() {
			l.cl.countFault("timeout:" + req.RequestType.String())
			l.cl.injErrors.Add(1)
			l.cl.emit(map[string]any{"k": "fault", "what": "timeout", "r": vstr(nodeID(l.to)), "s": vstr(req.Sender), "t": req.RequestType.String(), "v": req.Version, "st": req.SenderTime})
			if coin {
				// delivered now, response lost
				var lost resources.TwoPCResponse
				_ = l.forward(req, &lost)
			} else {
				// the caller gives up first, the request arrives later
				l.cl.pending.Add(1) // keeps the in-flight count positive until the late copy was delivered
				go func() {
					defer l.cl.pending.Add(-1)
					time.Sleep(time.Duration(delayUs) * time.Microsecond)
					var lost resources.TwoPCResponse
					_ = l.forward(req, &lost)
				}()
			}
			ch <- errInjected
			return ch
		}
	case p < f.Drop+f.Timeout+f.Dup:
		l.cl.countFault("dup:" + req.RequestType.String())
		l.cl.pending.Add(1)
		go func() {
			defer l.cl.pending.Add(-1)
			time.Sleep(time.Duration(delayUs) * time.Microsecond)
			var second resources.TwoPCResponse
			_ = l.forward(req, &second)
		}()
		ch <- l.forward(req, reply)
		return ch
	case p < f.Drop+f.Timeout+f.Dup+f.Reorder:
		l.cl.countFault("reorder:" + req.RequestType.String())
		w := make(chan struct{})
		l.mu.Lock()
		l.waiters = append(l.waiters, w)
		l.mu.Unlock()
		select {
		case <-w:
		case <-time.After(time.Duration(2*f.MaxDelayUs+2000) * time.Microsecond): // nothing overtook it; deliver anyway
		}
		ch <- l.forward(req, reply)
		return ch
	case p < f.Drop+f.Timeout+f.Dup+f.Reorder+f.Delay:
		l.cl.countFault("delay:" + req.RequestType.String())
		time.Sleep(time.Duration(delayUs) * time.Microsecond)
		ch <- l.forward(req, reply)
		return ch
	}
	ch <- l.forward(req, reply)
	return ch
}

// lazyLocal resolves the package's own LocalReplicaHandle once the target resource exists.
type lazyLocal struct {
	cl *cluster
	to int
}

func (h lazyLocal) Send(req resources.TwoPCRequest, reply *resources.TwoPCResponse) chan error {
	return resources.VerifLocalReplicaHandle(h.cl.nodes[h.to].rcvr).Send(req, reply)
}
func (h lazyLocal) Close() error { return nil }

type lazyRecv struct {
	cl *cluster
	to int
}

func (h lazyRecv) Send(req resources.TwoPCRequest, reply *resources.TwoPCResponse) chan error {
	return recvHandle{h.cl.nodes[h.to].rcvr}.Send(req, reply)
}
func (h lazyRecv) Close() error { return nil }

func freeAddr() string {
	l, err := net.Listen("tcp", "127.0.0.1:0")
	if err != nil {
		panic(err)
	}
	a := l.Addr().String()
	l.Close()
	return a
}

func nodeID(i int) tla.Value { return tla.MakeString(fmt.Sprintf("node%d", i)) }

func (cl *cluster) handlesFor(i int) []resources.ReplicaHandle {
	var hs []resources.ReplicaHandle
	for j := 0; j < cl.c.N; j++ {
		if j == i {
			continue
		}
		var inner resources.ReplicaHandle
		switch cl.c.Transport {
		case "local":
			inner = lazyLocal{cl, j}
		case "recv":
			inner = lazyRecv{cl, j}
		case "rpc":
			h := resources.MakeRPCReplicaHandle(cl.nodes[j].addr, nodeID(j))
			inner = &h
		default:
			panic("transport " + cl.c.Transport)
		}
		if cl.c.Race {
			hs = append(hs, inner)
			continue
		}
		hs = append(hs, &link{cl: cl, from: i, to: j, inner: inner,
			rng: rand.New(rand.NewSource(cl.c.Seed*7919 + int64(i*64+j)))})
	}
	return hs
}

// ---------------------------------------------------------------------------------------------------------
// probe: wrapper ArchetypeResource around the real 2PC resource; records what the section read and wrote,
// when it first touched the variable, and when Commit was entered / returned. It changes nothing but may
// pause (a resource is allowed to take time).

type attempt struct {
	call      int64
	read      any // first value read before any own write
	hasRead   bool
	wrote     any
	hasWrite  bool
	preCommit bool
}

type probe struct {
	distsys.ArchetypeResourceLeafMixin
	cl    *cluster
	n     *cnode
	inner distsys.ArchetypeResource
	rng   *rand.Rand
	cur   *attempt

	attempts, preCommits, commits, aborts, abortsAfterPreCommit atomic.Int64
	onCommit                                                    func()
}

func (p *probe) touch() *attempt {
	if p.cur == nil {
		p.cur = &attempt{call: p.cl.stamp()}
		p.attempts.Add(1)
	}
	return p.cur
}

func (p *probe) pause() {
	if p.cl.c.Yield > 0 && p.rng.Float64() < p.cl.c.Yield {
		if p.rng.Intn(3) == 0 {
			runtime.Gosched()
		} else {
			time.Sleep(time.Duration(20+p.rng.Intn(600)) * time.Microsecond)
		}
	}
}

func (p *probe) ReadValue(iface distsys.ArchetypeInterface) (tla.Value, error) {
	a := p.touch()
	v, err := p.inner.ReadValue(iface)
	if err == nil && !a.hasRead && !a.hasWrite {
		a.hasRead, a.read = true, vstr(v)
	}
	p.pause()
	return v, err
}

func (p *probe) WriteValue(iface distsys.ArchetypeInterface, value tla.Value) error {
	a := p.touch()
	p.pause()
	err := p.inner.WriteValue(iface, value)
	if err == nil {
		a.hasWrite, a.wrote = true, vstr(value)
	}
	return err
}

func (p *probe) PreCommit(iface distsys.ArchetypeInterface) chan error {
	p.touch().preCommit = true
	p.preCommits.Add(1)
	return p.inner.PreCommit(iface)
}

func (p *probe) Commit(iface distsys.ArchetypeInterface) chan struct{} {
	a := p.touch()
	rec := map[string]any{"k": "sec", "w": p.n.idx, "r": vstr(p.n.id), "call": a.call}
	if a.hasRead {
		rec["rd"] = a.read
	}
	if a.hasWrite {
		rec["wr"] = a.wrote
	}
	p.cl.emit(rec)
	ch := p.inner.Commit(iface)
	if ch != nil {
		<-ch
	}
	p.commits.Add(1)
	p.cl.emit(map[string]any{"k": "done", "w": p.n.idx})
	p.cur = nil
	if p.onCommit != nil {
		p.onCommit()
	}
	return nil
}

func (p *probe) Abort(iface distsys.ArchetypeInterface) chan struct{} {
	if p.cur != nil && p.cur.preCommit {
		p.abortsAfterPreCommit.Add(1) // whether the pre-commit had been won is visible in the hook log
	}
	p.aborts.Add(1)
	p.cur = nil
	ch := p.inner.Abort(iface)
	if ch != nil {
		<-ch
	}
	return nil
}

func (p *probe) Close() error { return p.inner.Close() }

// failer is the sibling resource of the hand-built archetype: its PreCommit fails per PRNG, which makes the
// context abort a section whose 2PC pre-commit may already have been won (rollback path).
type failer struct {
	distsys.ArchetypeResourceLeafMixin
	rng  *rand.Rand
	prob float64
	v    tla.Value
	n    atomic.Int64
}

func (f *failer) Abort(distsys.ArchetypeInterface) chan struct{} { return nil }
func (f *failer) PreCommit(distsys.ArchetypeInterface) chan error {
	if f.rng.Float64() < f.prob {
		f.n.Add(1)
		ch := make(chan error, 1)
		ch <- distsys.ErrCriticalSectionAborted
		return ch
	}
	return nil
}
func (f *failer) Commit(distsys.ArchetypeInterface) chan struct{}            { return nil }
func (f *failer) ReadValue(distsys.ArchetypeInterface) (tla.Value, error)    { return f.v, nil }
func (f *failer) WriteValue(_ distsys.ArchetypeInterface, v tla.Value) error { return nil }
func (f *failer) Close() error                                               { return nil }

// ---------------------------------------------------------------------------------------------------------
// archetypes

func initialValue(workload string) tla.Value {
	if workload == "append" {
		return tla.MakeTuple()
	}
	return tla.MakeNumber(0)
}

// handBuilt returns an archetype that commits c.Ops sections on W.x:
//
//	incr:   read v, write v+1                       (some sections read-only)
//	append: read l, write Append(l, unique id)      (some sections read-only)
//	reg:    blind write of a unique id | read v, write unique id | read-only
func handBuilt(cl *cluster, n *cnode, rng *rand.Rand) distsys.MPCalArchetype {
	c := cl.c
	done := 0
	attemptNo := int32(0)
	n.probe.onCommit = func() { done++ }
	body := func(iface distsys.ArchetypeInterface) error {
		if done >= c.Ops {
			return iface.Goto("W.Done")
		}
		x, err := iface.RequireArchetypeResourceRef("W.x")
		if err != nil {
			return err
		}
		attemptNo++
		id := tla.MakeNumber(int32(n.idx+1)*100000 + attemptNo)
		ro := rng.Float64() < c.ReadOnly
		blind := c.Workload == "reg" && !ro && rng.Intn(3) == 0
		var v tla.Value
		if !blind {
			v, err = iface.Read(x, nil)
			if err != nil {
				return err
			}
		}
		if !ro {
			var nv tla.Value
			switch c.Workload {
			case "incr":
				nv = tla.ModulePlusSymbol(v, tla.MakeNumber(1))
			case "append":
				nv = tla.ModuleAppend(v, id)
			default:
				nv = id
			}
			if err = iface.Write(x, nil, nv); err != nil {
				return err
			}
		}
		if c.FailPC > 0 {
			f, err := iface.RequireArchetypeResourceRef("W.f")
			if err != nil {
				return err
			}
			if err = iface.Write(f, nil, id); err != nil {
				return err
			}
		}
		return iface.Goto("W.loop")
	}
	return distsys.MPCalArchetype{
		Name: "W", Label: "W.loop",
		RequiredRefParams: []string{"W.x", "W.f"},
		JumpTable: distsys.MakeMPCalJumpTable(
			distsys.MPCalCriticalSection{Name: "W.loop", Body: body},
			distsys.MPCalCriticalSection{Name: "W.Done", Body: func(distsys.ArchetypeInterface) error { return distsys.ErrDone }},
		),
		ProcTable: distsys.MakeMPCalProcTable(),
		PreAmble:  func(distsys.ArchetypeInterface) {},
	}
}

// ---------------------------------------------------------------------------------------------------------

type snapNode struct {
	ID       string `json:"id"`
	State    string `json:"state"`
	Prop     any    `json:"prop"`
	Ver      int    `json:"ver"`
	Node     int    `json:"node"`
	CS       string `json:"cs"`
	Value    any    `json:"value"`
	OldValue any    `json:"old_value"`
	InFlight int    `json:"in_flight"`
	Writer   bool   `json:"writer"`
	Done     bool   `json:"done"`
	Attempts int64  `json:"attempts"`
	PreC     int64  `json:"precommits"`
	Commits  int64  `json:"commits"`
	Aborts   int64  `json:"aborts"`
}

type snapshot struct {
	Nodes    []snapNode `json:"nodes"`
	Sent     int64      `json:"sent"`
	Pending  int64      `json:"pending"`
	Errors   int64      `json:"errors"`
	PreCMsgs int64      `json:"precommit_msgs"`
}

func (cl *cluster) snap() snapshot {
	var s snapshot
	s.Sent = cl.sent.Load()
	for _, n := range cl.nodes {
		st := resources.VerifTwoPCSnapshotOf(n.rcvr)
		sn := snapNode{ID: st.ID.String(), State: st.State, Prop: vstr(st.Proposer), Ver: st.Version, Node: st.Node, CS: st.CS,
			Value: vstr(st.Value), OldValue: vstr(st.OldValue), InFlight: st.NumInFlightRequests,
			Writer: n.probe != nil, Done: n.done.Load()}
		if n.probe != nil {
			sn.Attempts, sn.PreC, sn.Commits, sn.Aborts = n.probe.attempts.Load(), n.probe.preCommits.Load(), n.probe.commits.Load(), n.probe.aborts.Load()
		}
		s.Nodes = append(s.Nodes, sn)
	}
	s.Pending = cl.pending.Load()
	s.Errors = cl.injErrors.Load()
	s.PreCMsgs = cl.preCommitMsgs.Load()
	if s.Sent != cl.sent.Load() {
		s.Pending = -1 // a request was forwarded while we were looking: not quiescent
	}
	return s
}

// quiet: no request anywhere between being handed to a transport and having been answered, and no broadcast
// goroutine outstanding in any resource.
func (s snapshot) quiet() bool {
	if s.Pending != 0 {
		return false
	}
	for _, n := range s.Nodes {
		if n.InFlight != 0 {
			return false
		}
	}
	return true
}

func sameStates(a, b snapshot) bool {
	if a.Sent != b.Sent || len(a.Nodes) != len(b.Nodes) {
		return false
	}
	for i := range a.Nodes {
		x, y := a.Nodes[i], b.Nodes[i]
		if x.State != y.State || x.Node != y.Node || x.Ver != y.Ver || fmt.Sprint(x.Prop) != fmt.Sprint(y.Prop) || x.Commits != y.Commits {
			return false
		}
	}
	return true
}

const stuckAttempts = 3 // every unfinished writer must complete this many further attempts between the two snapshots

func runChild() {
	var c Case
	buf, err := os.ReadFile(os.Getenv("VERIF_C11_CASE"))
	if err != nil {
		fmt.Println("cannot read case:", err)
		os.Exit(3)
	}
	if err := json.Unmarshal(buf, &c); err != nil {
		fmt.Println("bad case:", err)
		os.Exit(3)
	}
	if c.Procs > 0 {
		runtime.GOMAXPROCS(c.Procs)
	}
	cl := &cluster{c: c, tracker: holdTracker{}}
	cl.violationAt.Store(-1)
	cl.log = newEvLog(os.Getenv("VERIF_C11_EVENTS"))
	cl.errBudget.Store(int64(c.Faults.ErrBudget))
	cl.faultsOn.Store(true)
	if !c.Race {
		cl.installHooks()
	}
	for i := 0; i < c.N; i++ {
		cl.nodes = append(cl.nodes, &cnode{idx: i, id: nodeID(i), addr: freeAddr()})
	}
	for i, n := range cl.nodes {
		n.res = resources.NewTwoPC(initialValue(c.Workload), n.addr, cl.handlesFor(i), n.id, func(r *resources.TwoPCReceiver) { n.rcvr = r })
		if c.Transport == "rpc" && !resources.VerifTwoPCListening(n.rcvr) {
			cl.emit(map[string]any{"k": "setup-failed", "what": "listen " + n.addr})
			cl.finish()
		}
	}
	wrng := rand.New(rand.NewSource(c.Seed*31 + 5))
	for i := 0; i < c.Writers; i++ {
		n := cl.nodes[i]
		n.probe = &probe{cl: cl, n: n, inner: n.res, rng: rand.New(rand.NewSource(wrng.Int63()))}
		if c.Workload == "shcounter" {
			n.ctx = distsys.NewMPCalContext(tla.MakeNumber(int32(i)), shcounter.ANode,
				distsys.DefineConstantValue("NUM_NODES", tla.MakeNumber(int32(c.Writers))),
				distsys.EnsureArchetypeRefParam("cntr", n.probe))
		} else {
			arch := handBuilt(cl, n, rand.New(rand.NewSource(wrng.Int63())))
			n.ctx = distsys.NewMPCalContext(tla.MakeNumber(int32(i)), arch,
				distsys.EnsureArchetypeRefParam("x", n.probe),
				distsys.EnsureArchetypeRefParam("f", &failer{rng: rand.New(rand.NewSource(wrng.Int63())), prob: c.FailPC, v: tla.MakeNumber(0)}))
		}
	}
	cl.emit(map[string]any{"k": "start", "case": c})
	var wg sync.WaitGroup
	for i := 0; i < c.Writers; i++ {
		n := cl.nodes[i]
		wg.Add(1)
		go func() {
			defer wg.Done()
			defer func() {
				if e := recover(); e != nil {
					// a panic of the code under test on the archetype's goroutine: keep the complete log as witness
					cl.emit(map[string]any{"k": "panic", "w": n.idx, "r": vstr(n.id), "what": fmt.Sprint(e), "stack": string(debug.Stack())})
					cl.finish()
				}
			}()
			n.err = n.ctx.Run()
			n.done.Store(true)
		}()
	}
	allDone := make(chan struct{})
	go func() { wg.Wait(); close(allDone) }()

	reason := ""
	deadline := time.After(time.Duration(c.DeadlineS) * time.Second)
	tick := time.NewTicker(15 * time.Millisecond)
	var cand *snapshot // first snapshot of a possible fixpoint
	var violSnap map[int]int64
loop:
	for {
		select {
		case <-allDone:
			reason = "done"
			break loop
		case <-deadline:
			reason = "deadline"
			break loop
		case <-tick.C:
		}
		cl.flush()
		if c.MaxProposals > 0 && c.N > 1 && cl.preCommitMsgs.Load()/int64(c.N-1) > int64(c.MaxProposals) {
			reason = "bound"
			break loop
		}
		if cl.violationAt.Load() >= 0 {
			// the run already carries a violation of the per-message rule and is not expected to terminate; stop
			// once every unfinished writer has completed a few further attempts (context for the witness)
			if violSnap == nil {
				violSnap = map[int]int64{}
				for i, n := range cl.nodes[:c.Writers] {
					violSnap[i] = n.probe.attempts.Load()
				}
			}
			enough := true
			for i, n := range cl.nodes[:c.Writers] {
				if !n.done.Load() && n.probe.attempts.Load()-violSnap[i] < stuckAttempts {
					enough = false
				}
			}
			if enough {
				reason = "stopped-after-violation"
				break loop
			}
		}
		if c.Race {
			continue
		}
		// logical fixpoint: nothing in flight, no broadcast goroutine outstanding in any resource (retry loops
		// after transport errors live inside those), every unfinished writer completes further attempts, and
		// not a single request is sent meanwhile.
		s := cl.snap()
		if !s.quiet() {
			cand = nil
			continue
		}
		if cand == nil || !sameStates(*cand, s) {
			cand = &s
			continue
		}
		progressed := true
		unfinished := 0
		for i, n := range s.Nodes {
			if !n.Writer || n.Done {
				continue
			}
			unfinished++
			if n.Attempts-cand.Nodes[i].Attempts < stuckAttempts {
				progressed = false
			}
		}
		if unfinished > 0 && progressed {
			cl.emit(map[string]any{"k": "stuck", "first": cand, "second": s, "attempts_required": stuckAttempts})
			reason = "stuck"
			break loop
		}
	}
	tick.Stop()
	// heal the transport; unless every writer finished by itself, ask the contexts to stop (they leave at their
	// next loop head) and wait a bounded while; then let outstanding requests drain (bounded) and read the final
	// state. "halted && quiet" = no archetype is running, nothing is in flight, no broadcast goroutine is left.
	cl.faultsOn.Store(false)
	halted := reason == "done"
	if !halted {
		for _, n := range cl.nodes[:c.Writers] {
			go n.ctx.Stop()
		}
		select {
		case <-allDone:
			halted = true
		case <-time.After(6 * time.Second):
		}
	}
	var fin snapshot
	for i := 0; i < 500; i++ {
		fin = cl.snap()
		if fin.quiet() || !halted {
			break
		}
		time.Sleep(10 * time.Millisecond)
	}
	faults := map[string]int64{}
	cl.faultCounts.Range(func(k, v any) bool { faults[k.(string)] = v.(*atomic.Int64).Load(); return true })
	var runErrs []string
	for _, n := range cl.nodes[:c.Writers] {
		if n.done.Load() && n.err != nil {
			runErrs = append(runErrs, n.err.Error())
		}
	}
	cl.emit(map[string]any{"k": "final", "reason": reason, "quiet": fin.quiet(), "halted": halted, "snap": fin, "faults": faults, "run_errors": runErrs})
	cl.finish()
}

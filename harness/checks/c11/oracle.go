package main

// Offline oracles of C11 over the events one child recorded. Everything the verdicts need is in the
// (Case, []Event) pair, which is also what a replay file stores.

import (
	"bufio"
	"encoding/json"
	"fmt"
	"os"
	"regexp"
	"sort"
	"strings"
	"time"

	"github.com/anishathalye/porcupine"
)

type Acc struct {
	State string  `json:"state"`
	Prop  *string `json:"prop"`
	Ver   int     `json:"ver"`
	Time  int64   `json:"time"`
	CS    string  `json:"cs"`
	Node  int     `json:"node"`
}

// Event is the union of all record kinds written by the child (field "k").
type Event struct {
	Seq  int64  `json:"seq"`
	TS   int64  `json:"ts"`
	K    string `json:"k,omitempty"`
	Kind string `json:"kind,omitempty"`
	// req / ign
	R    string  `json:"r,omitempty"`
	T    string  `json:"t,omitempty"`
	S    string  `json:"s,omitempty"`
	V    int     `json:"v,omitempty"`
	Val  *string `json:"val,omitempty"`
	ST   int64   `json:"st,omitempty"`
	B    *Acc    `json:"b,omitempty"`
	A    *Acc    `json:"a,omitempty"`
	Acpt bool    `json:"acc,omitempty"`
	RV   int     `json:"rv,omitempty"`
	Same bool    `json:"same,omitempty"`
	Eq   bool    `json:"eq,omitempty"`
	Last int64   `json:"last,omitempty"`
	// inst
	How   string  `json:"how,omitempty"`
	Ver   int     `json:"ver,omitempty"`
	QV    int     `json:"qv,omitempty"`
	QVal  *string `json:"qval,omitempty"`
	PV    int     `json:"pv,omitempty"`
	ValEq bool    `json:"valeq,omitempty"`
	// sec / done
	W    int     `json:"w,omitempty"`
	Call int64   `json:"call,omitempty"`
	Rd   *string `json:"rd,omitempty"`
	Wr   *string `json:"wr,omitempty"`
	// stuck / final / start
	First     *snapshot        `json:"first,omitempty"`
	Second    *snapshot        `json:"second,omitempty"`
	Reason    string           `json:"reason,omitempty"`
	Quiet     bool             `json:"quiet,omitempty"`
	Halted    bool             `json:"halted,omitempty"`
	Snap      *snapshot        `json:"snap,omitempty"`
	Faults    map[string]int64 `json:"faults,omitempty"`
	RunErrors []string         `json:"run_errors,omitempty"`
	What      string           `json:"what,omitempty"`
	Stack     string           `json:"stack,omitempty"`
}

func readEvents(path string) (evs []Event, complete bool, err error) {
	f, err := os.Open(path)
	if err != nil {
		return nil, false, err
	}
	defer f.Close()
	sc := bufio.NewScanner(f)
	sc.Buffer(make([]byte, 1<<20), 1<<28)
	for sc.Scan() {
		line := strings.TrimSpace(sc.Text())
		if line == "" {
			continue
		}
		var e Event
		if json.Unmarshal([]byte(line), &e) != nil {
			continue // torn last line
		}
		if e.Kind == "end" {
			complete = true
			continue
		}
		evs = append(evs, e)
	}
	return evs, complete, sc.Err()
}

type Finding struct {
	Key     string `json:"key"`
	Desc    string `json:"desc"`
	Details any    `json:"details"`
}

// Stats is what one analysed run contributes to the evidence.
type Stats struct {
	Reason         string           `json:"reason"`
	Requests       map[string]int   `json:"requests"` // by type/outcome
	Installs       int              `json:"installs"`
	Wins           int              `json:"wins"`
	MaxVersion     int              `json:"max_version"`
	Sections       int              `json:"sections_committed"`
	WritersCommit  int              `json:"writers_that_committed"`
	AbortsReleased int              `json:"aborts_that_released"` // Abort processed by an acceptor holding that proposer's pre-commit
	Rejected       int              `json:"precommits_rejected"`
	Ignored        int              `json:"stale_ignored"`
	PreCommitCalls int64            `json:"precommit_calls"`
	Attempts       int64            `json:"attempts"`
	Faults         map[string]int64 `json:"faults,omitempty"`
	LinOps         int              `json:"lin_ops"`
	LinResult      string           `json:"lin_result"`
	WinnerSig      string           `json:"winner_sig"` // sequence of winners by version: the interleaving signature
	Inconclusive   string           `json:"inconclusive,omitempty"`
	Livelock       bool             `json:"livelock_fixpoint,omitempty"`
	LivelockCauses []string         `json:"livelock_causes,omitempty"`
	Proposals      int64            `json:"proposals_broadcast"`
	// observations, not verdicts
	StaleAbortReleases        int `json:"stale_abort_releases"` // an Abort older than the held PreCommit of the same proposer released it
	LateAccepts               int `json:"precommit_accepted_after_its_abort"`
	OtherVersionAbortReleases int `json:"other_version_abort_releases"` // an Abort for version w released a pre-commit held for version v != w
}

func sp(p *string) string {
	if p == nil {
		return "∅"
	}
	return *p
}

func initialString(workload string) string {
	if workload == "append" {
		return "<<>>"
	}
	return "0"
}

type regIn struct {
	Rd, Wr *string
}

var regModel = porcupine.Model{
	Init: func() interface{} { return "" },
	Step: func(state, input, output interface{}) (bool, interface{}) {
		st := state.(string)
		in := input.(regIn)
		if in.Rd != nil && *in.Rd != st {
			return false, st
		}
		if in.Wr != nil {
			return true, *in.Wr
		}
		return true, st
	},
	Equal: func(a, b interface{}) bool { return a.(string) == b.(string) },
	DescribeOperation: func(input, output interface{}) string {
		in := input.(regIn)
		return fmt.Sprintf("section(read %s, write %s)", sp(in.Rd), sp(in.Wr))
	},
}

type secRec struct {
	Sec  *Event
	Done *Event
	Win  *Event // the proposer's "commit" install event
}

func trimEvents(evs []Event, around []int64, radius int64) []Event {
	var out []Event
	for _, e := range evs {
		for _, a := range around {
			if e.TS >= a-radius && e.TS <= a+radius {
				out = append(out, e)
				break
			}
		}
	}
	return out
}

// causeOfHeld explains why acceptor `r` still holds an accepted pre-commit (prop, ver) at the end of evs.
func causeOfHeld(evs []Event, r string, prop string, ver int) (cause string, rel []Event) {
	acceptAt := -1
	for i := len(evs) - 1; i >= 0; i-- {
		e := &evs[i]
		if e.K == "req" && e.R == r && e.T == "PreCommit" && e.Acpt && e.A != nil && e.A.State == "acceptedPreCommit" && sp(e.A.Prop) == prop && e.A.Ver == ver && e.S == prop && e.V == ver && e.A.Time == e.ST {
			acceptAt = i
			break
		}
	}
	if acceptAt < 0 {
		return "no-accept-event-found", nil
	}
	acc := evs[acceptAt]
	rel = append(rel, acc)
	for i := acceptAt + 1; i < len(evs); i++ {
		e := evs[i]
		if e.K == "req" && e.R == r && e.T == "Abort" && e.S == prop && e.V == ver && e.ST > acc.ST {
			rel = append(rel, e)
			if e.Same {
				return "abort-not-released:sender-identical", rel
			}
			return "abort-not-released:sender-equal-but-not-identical", rel
		}
	}
	for i := acceptAt - 1; i >= 0; i-- {
		e := evs[i]
		if e.K == "req" && e.R == r && e.T == "Abort" && e.S == prop && e.V == ver && e.ST > acc.ST {
			rel = append(rel, e)
			return "precommit-accepted-after-its-abort-was-processed", rel
		}
	}
	for _, e := range evs {
		if e.K == "inst" && e.How == "commit" && e.R == prop && e.QV == ver {
			rel = append(rel, e)
			c, x := whyNotReached(evs, r, "Commit", prop, ver, 0)
			return c, append(rel, x...)
		}
	}
	for _, e := range evs {
		if (e.K == "req" || e.K == "fault") && e.T == "Abort" && e.S == prop && e.V == ver && e.R != r && e.ST > acc.ST {
			rel = append(rel, e)
			c, x := whyNotReached(evs, r, "Abort", prop, ver, acc.ST)
			return c, append(rel, x...)
		}
	}
	// no Commit and no Abort of this proposal was ever seen anywhere, and its proposer is not running any more
	return "abort-never-sent-to-any-replica", rel
}

// whyNotReached: a Commit/Abort of (prop, ver) exists but replica r shows no effect of it.
func whyNotReached(evs []Event, r, typ, prop string, ver int, newerThan int64) (string, []Event) {
	lt := strings.ToLower(typ)
	var lost []Event
	for _, e := range evs {
		if e.R != r || e.T != typ || e.S != prop || e.V != ver || e.ST <= newerThan {
			continue
		}
		switch e.K {
		case "req":
			return lt + "-processed-but-precommit-kept", []Event{e}
		case "fault":
			lost = append(lost, e)
		}
	}
	if len(lost) > 0 {
		return lt + "-lost-and-retry-abandoned", lost // the transport reported an error for it and the proposer gave up
	}
	return lt + "-never-sent-to-replica", nil
}

// causeOfStale explains why replica r rests below the newest version without holding anything.
func causeOfStale(evs []Event, r string, nodeVer int) (cause string, rel []Event) {
	var top *Event
	for i := range evs {
		e := &evs[i]
		if e.K == "inst" && e.How == "commit" && (top == nil || e.QV > top.QV) {
			top = e
		}
	}
	if top == nil || top.QV <= nodeVer {
		return "unexplained", nil
	}
	rel = append(rel, *top)
	c, x := whyNotReached(evs, r, "Commit", top.R, top.QV, 0)
	if strings.HasSuffix(c, "precommit-kept") {
		c = "unexplained"
	}
	return c, append(rel, x...)
}

// analyse runs every oracle; when a run has two winners for a version, the findings that necessarily follow
// from that (two values for the version, stale read, non-linearizable history, wrong final value) are folded
// into the two-winners finding instead of being reported under their own keys.
func analyse(c Case, evs []Event) (fs []Finding, st Stats) {
	fs, st = analyse0(c, evs)
	root := -1
	for i, f := range fs {
		if strings.HasPrefix(f.Key, "C11:two-winners-for-one-version") {
			root = i
			break
		}
	}
	if root < 0 {
		return
	}
	consequence := func(k string) bool {
		for _, p := range []string{"C11:agreement:", "C11:stale-read-committed", "C11:not-linearizable-as-one-copy", "C11:final-value-differs", "C11:final-state-disagrees", "C11:committed-value-is-not"} {
			if strings.HasPrefix(k, p) {
				return true
			}
		}
		return false
	}
	var kept []Finding
	var folded []string
	for _, f := range fs {
		if consequence(f.Key) {
			folded = append(folded, f.Key+": "+f.Desc)
		} else {
			kept = append(kept, f)
		}
	}
	for i := range kept {
		if strings.HasPrefix(kept[i].Key, "C11:two-winners-for-one-version") && len(folded) > 0 {
			if m, ok := kept[i].Details.(map[string]any); ok {
				m["consequences_in_this_run"] = folded
			}
			kept[i].Desc += fmt.Sprintf("; consequences in the same run: %d other oracle(s) fired (listed in the witness)", len(folded))
			break
		}
	}
	return kept, st
}

func analyse0(c Case, evs []Event) (fs []Finding, st Stats) {
	st.Requests = map[string]int{}
	add := func(key, desc string, details any) {
		for _, f := range fs {
			if f.Key == key {
				return // one witness per key and run is enough
			}
		}
		fs = append(fs, Finding{key, desc, details})
	}
	init := initialString(c.Workload)

	// ---- installs: agreement, monotonicity, winners --------------------------------------------------
	type vv struct {
		val string
		ev  Event
	}
	verVal := map[int]vv{0: {val: init}}
	lastVer := map[string]int{}
	winners := map[int][]Event{}
	record := func(ver int, val *string, e Event) {
		if val == nil {
			return
		}
		if old, ok := verVal[ver]; ok {
			if old.val != *val {
				add("C11:agreement:two-values-for-one-version",
					fmt.Sprintf("version %d was installed with value %s (by %s) and with value %s (by %s)", ver, old.val, old.ev.R, *val, e.R),
					map[string]any{"version": ver, "first": old.ev, "second": e})
			}
			return
		}
		verVal[ver] = vv{*val, e}
	}
	for _, e := range evs {
		if e.K != "inst" {
			continue
		}
		st.Installs++
		switch e.How {
		case "accept":
			if e.Ver != e.QV || !e.ValEq {
				add("C11:accept-did-not-install-what-was-sent",
					fmt.Sprintf("replica %s was asked to install version %d value %s and ended at version %d value %s", e.R, e.QV, sp(e.QVal), e.Ver, sp(e.Val)), e)
			}
			if e.Ver <= lastVer[e.R] || e.Ver <= e.PV {
				add("C11:version-not-increasing:accept",
					fmt.Sprintf("replica %s: version after accepting a value is %d, before it was %d", e.R, e.Ver, max(lastVer[e.R], e.PV)), e)
			}
			record(e.Ver, e.Val, e)
			lastVer[e.R] = max(lastVer[e.R], e.Ver)
		case "commit":
			st.Wins++
			winners[e.QV] = append(winners[e.QV], e)
			record(e.QV, e.QVal, e)
			if e.Ver < e.QV || e.Ver < lastVer[e.R] {
				add("C11:version-not-increasing:commit",
					fmt.Sprintf("proposer %s finished the commit of version %d with its own version at %d (before: %d)", e.R, e.QV, e.Ver, e.PV), e)
			} else if e.Ver == e.QV && !e.ValEq {
				add("C11:agreement:proposer-installed-other-value",
					fmt.Sprintf("proposer %s won version %d with %s but holds %s for it", e.R, e.QV, sp(e.QVal), sp(e.Val)), e)
			}
			lastVer[e.R] = max(lastVer[e.R], e.Ver)
		}
		if e.Ver > st.MaxVersion {
			st.MaxVersion = e.Ver
		}
	}
	var wvers []int
	for v, ws := range winners {
		wvers = append(wvers, v)
		if len(ws) > 1 {
			key := "C11:two-winners-for-one-version"
			how, rel := "", []Event(nil)
			if ws[0].R == ws[1].R {
				key = "C11:same-proposer-won-one-version-twice"
			} else {
				how, rel = howTwoWinners(evs, v, ws[0].R, ws[1].R)
				key += ":" + how
			}
			add(key, fmt.Sprintf("version %d was won by %s (value %s) and by %s (value %s) [%s]", v, ws[0].R, sp(ws[0].QVal), ws[1].R, sp(ws[1].QVal), how),
				map[string]any{"version": v, "wins": ws, "decisive_events": rel, "requests_for_version": reqsForVersion(evs, v)})
		}
	}
	sort.Ints(wvers)
	var sig strings.Builder
	for _, v := range wvers {
		sig.WriteString(strings.TrimPrefix(winners[v][0].R, "\"node"))
	}
	st.WinnerSig = strings.ReplaceAll(sig.String(), "\"", "")

	// ---- requests: per-message structural oracle -----------------------------------------------------
	lastAbort := map[string]int64{} // replica|sender|version -> newest Abort SenderTime processed
	// newest[r]: SenderTime of the newest PreCommit replica r answered with Accept for the (proposer, version) it
	// currently holds. The replica's own record keeps the first one when the same proposer re-proposes the same
	// value for the same version, but the vote then counts for the newer proposal.
	tracker := holdTracker{}
	for i := range evs {
		e := evs[i]
		owed := false
		if e.K == "req" && e.A != nil && e.B != nil {
			ak := fmt.Sprintf("%s|%s|%d", e.R, e.S, e.V)
			owed = tracker.abortOwesRelease(&e)
			switch {
			case e.T == "PreCommit" && e.Acpt && e.A.State == "acceptedPreCommit" && sp(e.A.Prop) == e.S && e.A.Ver == e.V:
				if e.A.Time == e.ST && !(e.B.State == "acceptedPreCommit" && e.B.Time == e.ST) && lastAbort[ak] > e.ST {
					st.LateAccepts++
				}
			case e.T == "Abort":
				if e.ST > lastAbort[ak] {
					lastAbort[ak] = e.ST
				}
				if e.B.State == "acceptedPreCommit" && e.A.State == "initial" && e.Eq && e.ST < e.B.Time {
					st.StaleAbortReleases++
				}
				if e.B.State == "acceptedPreCommit" && e.A.State == "initial" && e.Eq && e.V != e.B.Ver {
					st.OtherVersionAbortReleases++
				}
			}
		}
		switch e.K {
		case "ign":
			st.Ignored++
		case "req":
			out := "rejected"
			if e.Acpt {
				out = "accepted"
			}
			st.Requests[e.T+":"+out]++
			if e.T == "PreCommit" && !e.Acpt {
				st.Rejected++
			}
			// An Abort concerns the proposals its sender made before it: it must release the held pre-commit iff
			// that pre-commit is older than the Abort (an Abort overtaken by its sender's next PreCommit aborts an
			// earlier proposal, not the one held).
			if owed {
				if e.A.State == "initial" {
					st.AbortsReleased++
				} else {
					how := "sender-equal-but-not-identical"
					if e.Same {
						how = "sender-identical"
					}
					add("C11:abort-not-released:"+how,
						fmt.Sprintf("replica %s held an accepted pre-commit of %s for version %d, processed %s's later Abort for version %d and still holds it (code's own == on the sender: %v)", e.R, e.S, e.V, e.S, e.V, e.Same),
						map[string]any{"request": e, "transport": c.Transport})
				}
			}
		}
	}

	// ---- sections: stale read, committed value, linearizability ---------------------------------------
	pending := map[string]*secRec{}
	byWriter := map[int]*secRec{}
	var secs []*secRec
	writers := map[int]bool{}
	for i := range evs {
		e := &evs[i]
		switch e.K {
		case "sec":
			s := &secRec{Sec: e}
			secs = append(secs, s)
			pending[e.R] = s
			byWriter[e.W] = s
			writers[e.W] = true
		case "done":
			if s := byWriter[e.W]; s != nil && s.Done == nil {
				s.Done = e
			}
		case "inst":
			if e.How == "commit" {
				if s := pending[e.R]; s != nil && s.Win == nil {
					s.Win = e
				}
			}
		}
	}
	st.Sections = len(secs)
	st.WritersCommit = len(writers)
	if !c.Race {
		for _, s := range secs {
			if s.Win == nil {
				continue // stopped inside Commit
			}
			want := s.Sec.Wr
			if want == nil {
				want = s.Sec.Rd
			}
			if want != nil && sp(s.Win.QVal) != *want {
				add("C11:committed-value-is-not-what-the-section-wrote",
					fmt.Sprintf("section of %s read %s wrote %s, but its commit carried %s for version %d", s.Sec.R, sp(s.Sec.Rd), sp(s.Sec.Wr), sp(s.Win.QVal), s.Win.QV),
					map[string]any{"section": s.Sec, "win": s.Win})
			}
			if s.Sec.Rd != nil {
				if prev, ok := verVal[s.Win.QV-1]; ok && prev.val != *s.Sec.Rd {
					add("C11:stale-read-committed",
						fmt.Sprintf("section of %s read %s and committed as version %d, but version %d holds %s: the value it read had been overwritten before it committed", s.Sec.R, *s.Sec.Rd, s.Win.QV, s.Win.QV-1, prev.val),
						map[string]any{"section": s.Sec, "win": s.Win, "overwriting_install": prev.ev, "events_nearby": trimEvents(evs, []int64{s.Sec.Call, s.Win.TS}, 40)})
				}
			}
		}
	}
	// Sections stopped inside Commit (no return) may or may not have taken effect: the history is accepted if it
	// is linearizable for some subset of them (at most one per writer, so at most 2^6 subsets).
	var complete, open []*secRec
	maxTS := int64(0)
	for _, e := range evs {
		if e.TS > maxTS {
			maxTS = e.TS
		}
	}
	for _, s := range secs {
		if s.Done != nil {
			complete = append(complete, s)
		} else {
			open = append(open, s)
		}
	}
	st.LinOps = len(secs)
	if len(secs) > 0 && len(open) <= 6 {
		m := regModel
		m.Init = func() interface{} { return init }
		result := porcupine.Illegal
		for mask := 0; mask < 1<<len(open) && result != porcupine.Ok; mask++ {
			var ops []porcupine.Operation
			for _, s := range complete {
				ops = append(ops, porcupine.Operation{ClientId: s.Sec.W, Input: regIn{s.Sec.Rd, s.Sec.Wr}, Call: s.Sec.Call, Return: s.Done.TS})
			}
			for i, s := range open {
				if mask&(1<<i) != 0 {
					ops = append(ops, porcupine.Operation{ClientId: s.Sec.W, Input: regIn{s.Sec.Rd, s.Sec.Wr}, Call: s.Sec.Call, Return: maxTS + 1})
				}
			}
			if len(ops) == 0 {
				result = porcupine.Ok
				break
			}
			res, _ := porcupine.CheckOperationsVerbose(m, ops, 20*time.Second)
			if res == porcupine.Unknown {
				result = porcupine.Unknown
				break
			}
			if res == porcupine.Ok {
				result = porcupine.Ok
			}
		}
		st.LinResult = string(result)
		switch result {
		case porcupine.Illegal:
			var hist []map[string]any
			for _, s := range secs {
				h := map[string]any{"writer": s.Sec.W, "call": s.Sec.Call, "read": s.Sec.Rd, "write": s.Sec.Wr}
				if s.Done != nil {
					h["return"] = s.Done.TS
				} else {
					h["return"] = "none (stopped inside Commit; may or may not count)"
				}
				if s.Win != nil {
					h["version"] = s.Win.QV
				}
				hist = append(hist, h)
			}
			add("C11:not-linearizable-as-one-copy",
				fmt.Sprintf("the %d committed sections cannot be ordered as operations on a single copy (read-then-write register, initial %s)", len(complete), init),
				map[string]any{"history": hist})
		case porcupine.Unknown:
			st.Inconclusive = "porcupine timeout"
		}
	}

	// ---- end of run ----------------------------------------------------------------------------------
	var fin *Event
	var stuck *Event
	for i := range evs {
		switch evs[i].K {
		case "final":
			fin = &evs[i]
		case "stuck":
			stuck = &evs[i]
		case "setup-failed":
			st.Inconclusive = "setup failed: " + evs[i].What
		case "panic":
			add("C11:crash:"+slug(evs[i].What), "the code under test panicked on the archetype goroutine of "+evs[i].R+": "+evs[i].What,
				map[string]any{"panic": evs[i], "events_before": trimEvents(evs, []int64{evs[i].TS}, 60)})
			st.Inconclusive = ""
			st.Reason = "panic"
			return
		}
	}
	perMsg := false
	for _, f := range fs {
		if strings.HasPrefix(f.Key, "C11:abort-not-released:") {
			perMsg = true
		}
	}
	if stuck != nil && stuck.Second != nil {
		causes := map[string][]any{}
		blocked, stale, waiting := 0, 0, 0
		for _, n := range stuck.Second.Nodes {
			if !n.Writer || n.Done {
				continue
			}
			var cause string
			var rel []Event
			if n.State == "acceptedPreCommit" {
				blocked++
				cause, rel = causeOfHeld(evs, n.ID, fmt.Sprint(n.Prop), n.Ver)
			} else {
				cause, rel = causeOfStale(evs, n.ID, n.Node)
				if cause == "unexplained" && n.Node >= st.MaxVersion {
					waiting++ // up to date and free to propose: its section waits for a value only another writer can produce
					continue
				}
				stale++
			}
			causes[cause] = append(causes[cause], map[string]any{"replica": n.ID, "state": n.State, "holds_precommit_of": n.Prop, "held_version": n.Ver, "replica_version": n.Node, "events": rel})
		}
		if len(causes) == 0 {
			causes["awaited-value-never-produced"] = []any{stuck.Second}
		}
		st.Livelock = true
		for cause, detail := range causes {
			st.LivelockCauses = append(st.LivelockCauses, cause)
			if perMsg && strings.HasPrefix(cause, "abort-not-released") {
				continue // consequence of what the per-message oracle reported in this run
			}
			add("C11:no-progress:"+cause,
				fmt.Sprintf("fixpoint over %s transport, %d replicas: nothing in flight, no broadcast goroutine outstanding in any resource (%d transport errors had been injected earlier), every unfinished writer completed >= %d further attempts and not one request was sent; %d unfinished writers sit on a replica holding an accepted pre-commit (such a writer aborts locally before proposing), %d on a replica that rests below the newest version, %d are up to date and wait for a value another writer must produce; cause for this key: %s", c.Transport, c.N, stuck.Second.Errors, stuckAttempts, blocked, stale, waiting, cause),
				map[string]any{"first_snapshot": stuck.First, "second_snapshot": stuck.Second, "writers_without_progress": detail})
		}
		sort.Strings(st.LivelockCauses)
	}
	if fin == nil {
		if st.Inconclusive == "" {
			st.Inconclusive = "no final record"
		}
		return
	}
	st.Reason = fin.Reason
	st.Faults = fin.Faults
	if fin.Snap != nil {
		for _, n := range fin.Snap.Nodes {
			st.PreCommitCalls += n.PreC
			st.Attempts += n.Attempts
		}
	}
	if fin.Snap != nil && c.N > 1 {
		st.Proposals = fin.Snap.PreCMsgs / int64(c.N-1)
	}
	if len(fin.RunErrors) > 0 {
		add("C11:archetype-run-returned-error", "ctx.Run returned an error: "+strings.Join(fin.RunErrors, "; "), fin.RunErrors)
	}
	switch fin.Reason {
	case "stopped-after-violation":
		if !perMsg {
			st.Inconclusive = "child stopped after a per-message violation that the offline oracle does not confirm (harness disagreement)"
		}
	case "bound":
		st.Inconclusive = fmt.Sprintf("attempt bound exceeded (%d proposals broadcast > %d)", st.Proposals, c.MaxProposals)
	case "deadline":
		st.Inconclusive = "internal deadline"
	}
	if fin.Snap == nil || !fin.Quiet || !fin.Halted {
		if fin.Reason == "done" && st.Inconclusive == "" {
			st.Inconclusive = "did not drain after completion"
		}
		return
	}
	// No archetype runs any more, nothing is in flight and no broadcast goroutine is left: whatever a replica
	// still holds will never be released by anything already sent. Every proposal that did not win is over
	// (rejected or aborted) and must have been released by the replicas that accepted it; for a proposal that won,
	// the Commit is owed to every replica unless the transport lost it.
	if !c.Race {
		for _, n := range fin.Snap.Nodes {
			if n.State != "acceptedPreCommit" {
				continue
			}
			cause, rel := causeOfHeld(evs, n.ID, fmt.Sprint(n.Prop), n.Ver)
			if perMsg && strings.HasPrefix(cause, "abort-not-released") {
				continue // reported by the per-message oracle
			}
			if fin.Snap.Errors != 0 && !strings.HasPrefix(cause, "abort-") && !strings.HasPrefix(cause, "precommit-accepted-after") {
				continue // with message loss only the release of rejected/aborted proposals is demanded here
			}
			add("C11:precommit-never-released:"+cause,
				fmt.Sprintf("no writer is running any more (%s), nothing is in flight, %d transport errors were injected, yet replica %s still holds an accepted pre-commit of %v for version %d (%s)", fin.Reason, fin.Snap.Errors, n.ID, n.Prop, n.Ver, cause),
				map[string]any{"replica": n, "events": rel})
		}
	}
	if fin.Reason != "done" {
		return
	}
	// quiescent after every writer finished
	maxNode := 0
	for _, n := range fin.Snap.Nodes {
		if n.Node > maxNode {
			maxNode = n.Node
		}
	}
	if !c.Race {
		for _, n := range fin.Snap.Nodes {
			if want, ok := verVal[n.Node]; ok && fmt.Sprint(n.OldValue) != want.val {
				add("C11:final-state-disagrees-with-installed-version",
					fmt.Sprintf("replica %s rests at version %d with value %v, but version %d was installed as %s", n.ID, n.Node, n.OldValue, n.Node, want.val),
					map[string]any{"replica": n, "install": want.ev})
			}
		}
	}
	finalVal := ""
	for _, n := range fin.Snap.Nodes {
		if n.Node == maxNode {
			finalVal = fmt.Sprint(n.OldValue)
			break
		}
	}
	// expected final value from the committed sections
	sort.SliceStable(secs, func(i, j int) bool {
		if secs[i].Win != nil && secs[j].Win != nil {
			return secs[i].Win.QV < secs[j].Win.QV
		}
		return secs[i].Sec.TS < secs[j].Sec.TS
	})
	expect := ""
	switch c.Workload {
	case "incr", "shcounter":
		k := 0
		for _, s := range secs {
			if s.Sec.Wr != nil {
				k++
			}
		}
		expect = fmt.Sprint(k)
	case "append", "reg":
		expect = init
		for _, s := range secs {
			if s.Sec.Wr != nil {
				expect = *s.Sec.Wr
			}
		}
	}
	if c.Race {
		// no hook log: only counters are known; for incr/shcounter the count is still exact
		if c.Workload != "incr" && c.Workload != "shcounter" {
			expect = finalVal
		}
	}
	if finalVal != expect {
		add("C11:final-value-differs-from-committed-sections:"+c.Workload,
			fmt.Sprintf("after all writers finished the newest replica state (version %d) holds %s; the committed sections give %s", maxNode, finalVal, expect),
			map[string]any{"final": fin.Snap, "committed_sections": len(secs)})
	}
	return
}

func reqsForVersion(evs []Event, v int) []Event {
	var out []Event
	for _, e := range evs {
		if e.K == "req" && e.V == v && len(out) < 80 {
			out = append(out, e)
		}
	}
	return out
}

// howTwoWinners finds a replica whose vote for version v counted for both winning proposals (a winner votes
// for itself when it starts proposing) and says what happened to the first vote in between.
func howTwoWinners(evs []Event, v int, p1, p2 string) (string, []Event) {
	winST := map[string]int64{}  // winning proposal of a proposer for v = its PreCommits for v with the largest SenderTime
	firstIdx := map[string]int{} // first processed request of that proposal (the proposer voted for itself before)
	reps := map[string]bool{p1: true, p2: true}
	for _, e := range evs {
		if e.K == "req" {
			reps[e.R] = true
			if e.T == "PreCommit" && e.V == v && (e.S == p1 || e.S == p2) && e.ST > winST[e.S] {
				winST[e.S] = e.ST
			}
		}
	}
	vote := func(r, p string) int {
		for i, e := range evs {
			if e.K == "req" && e.R == r && e.T == "PreCommit" && e.V == v && e.S == p && e.ST == winST[p] && e.Acpt && e.A != nil && e.A.State == "acceptedPreCommit" && sp(e.A.Prop) == p && e.A.Time == e.ST {
				return i
			}
		}
		return -1
	}
	for _, p := range []string{p1, p2} {
		firstIdx[p] = -1
		for i, e := range evs {
			if e.K == "req" && e.T == "PreCommit" && e.V == v && e.S == p && e.ST == winST[p] {
				firstIdx[p] = i
				break
			}
		}
	}
	var rs []string
	for r := range reps {
		rs = append(rs, r)
	}
	sort.Strings(rs)
	classify := func(r string, i1 int, pa string, i2 int, second *Event) (string, []Event) {
		e1 := evs[i1]
		if second != nil && second.B != nil && second.B.State == "acceptedPreCommit" && sp(second.B.Prop) == pa && second.B.Ver == v {
			return "replica-voted-twice-without-release", []Event{e1, *second}
		}
		for k := i1 + 1; k < i2; k++ {
			e := evs[k]
			if e.R != r || e.A == nil {
				continue
			}
			if e.K == "req" && e.B != nil && e.B.State == "acceptedPreCommit" && sp(e.B.Prop) == pa && (e.A.State == "initial" || sp(e.A.Prop) != pa) {
				rel := []Event{e1, e}
				if second != nil {
					rel = append(rel, *second)
				}
				if e.T == "Abort" && e.S == pa {
					if e.V != v {
						return "vote-released-by-abort-for-another-version", rel
					}
					if e.ST < e1.ST {
						return "vote-released-by-older-abort-of-same-proposer", rel
					}
					return "vote-released-by-abort-of-the-winning-proposal", rel
				}
				return "vote-released-by-" + strings.ToLower(e.T) + "-from-" + map[bool]string{true: "same", false: "other"}[e.S == pa] + "-proposer", rel
			}
		}
		return "vote-release-not-observed", []Event{e1}
	}
	for _, r := range rs {
		switch r {
		case p1, p2:
			self, other := r, p2
			if r == p2 {
				other = p1
			}
			i := vote(self, other) // the winner, as a replica, voted for the other winner's winning proposal
			if i < 0 || firstIdx[self] < 0 {
				continue
			}
			if i > firstIdx[self] {
				return "proposer-voted-for-another-while-proposing-itself", []Event{evs[firstIdx[self]], evs[i]}
			}
			return classify(self, i, other, firstIdx[self], nil)
		default:
			i1, i2 := vote(r, p1), vote(r, p2)
			if i1 < 0 || i2 < 0 {
				continue
			}
			pa := p1
			if i2 < i1 {
				i1, i2, pa = i2, i1, p2
			}
			second := evs[i2]
			return classify(r, i1, pa, i2, &second)
		}
	}
	return "no-replica-voted-for-both", nil
}

// holdTracker follows, per replica, the newest PreCommit it answered with Accept for the (proposer, version) it
// currently holds. The replica's own record keeps the first one when the same proposer re-proposes the same
// value for the same version, but the vote then counts for the newer proposal.
type holdTracker map[string]int64

func seenKey(e *Event) string { return "seen|" + e.R + "|" + e.S }

// abortOwesRelease feeds one "req" event (in log order) and reports whether it is an Abort that must leave the
// replica `initial`: the replica holds a pre-commit of an Equal proposer for the same version and every PreCommit
// it accepted for that hold is older than the Abort.
func (h holdTracker) abortOwesRelease(e *Event) bool {
	if e.A == nil || e.B == nil {
		return false
	}
	// ... and the Abort is the newest message of its sender this replica has processed: an Abort that was overtaken
	// by any later message of the same sender may be ignored as stale (the release is then owed by later events and
	// judged by the end-of-run oracles).
	owed := e.T == "Abort" && e.Acpt && e.B.State == "acceptedPreCommit" && e.Eq && e.B.Ver == e.V && e.ST > max(e.B.Time, h[e.R]) && e.ST > h[seenKey(e)]
	h[seenKey(e)] = max(h[seenKey(e)], e.ST)
	switch {
	case e.A.State != "acceptedPreCommit":
		delete(h, e.R)
	case e.T == "PreCommit" && e.Acpt && sp(e.A.Prop) == e.S && e.A.Ver == e.V:
		if !(e.B.State == "acceptedPreCommit" && sp(e.B.Prop) == e.S && e.B.Ver == e.V) {
			h[e.R] = 0 // a new hold begins
		}
		h[e.R] = max(h[e.R], e.ST, e.A.Time)
	case sp(e.A.Prop) != sp(e.B.Prop) || e.A.Ver != e.B.Ver:
		h[e.R] = e.A.Time
	}
	return owed
}

var slugDigits = regexp.MustCompile(`[0-9]+`)
var slugOther = regexp.MustCompile(`[^A-Za-z]+`)

// slug normalises a panic message into a key fragment (numbers and punctuation removed).
func slug(msg string) string {
	s := slugOther.ReplaceAllString(slugDigits.ReplaceAllString(msg, "N"), "-")
	if len(s) > 90 {
		s = s[:90]
	}
	return strings.Trim(s, "-")
}

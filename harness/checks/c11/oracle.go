package main

// Offline oracles of C11 over the events one child recorded. Everything the verdicts need is in the
// (Case, []Event) pair, which is also what a replay file stores.

import (
	"bufio"
	"encoding/json"
	"fmt"
	"os"
	"sort"
	"strings"
	"time"

	"github.com/anishathalye/porcupine"
)

type Acc struct {
	State string  `json:"state"`
	Prop  *string `json:"prop"`
	Ver   int     `json:"ver"`
	CS    string  `json:"cs"`
	Node  int     `json:"node"`
}

// Event is the union of all record kinds written by the child (field "k").
type Event struct {
	Seq  int64  `json:"seq"`
	TS   int64  `json:"ts"`
	K    string `json:"k,omitempty"`
	Kind string `json:"kind,omitempty"`
	// req / ign
	R    string  `json:"r,omitempty"`
	T    string  `json:"t,omitempty"`
	S    string  `json:"s,omitempty"`
	V    int     `json:"v,omitempty"`
	Val  *string `json:"val,omitempty"`
	ST   int64   `json:"st,omitempty"`
	B    *Acc    `json:"b,omitempty"`
	A    *Acc    `json:"a,omitempty"`
	Acpt bool    `json:"acc,omitempty"`
	RV   int     `json:"rv,omitempty"`
	Same bool    `json:"same,omitempty"`
	Eq   bool    `json:"eq,omitempty"`
	Last int64   `json:"last,omitempty"`
	// inst
	How   string  `json:"how,omitempty"`
	Ver   int     `json:"ver,omitempty"`
	QV    int     `json:"qv,omitempty"`
	QVal  *string `json:"qval,omitempty"`
	PV    int     `json:"pv,omitempty"`
	ValEq bool    `json:"valeq,omitempty"`
	// sec / done
	W    int     `json:"w,omitempty"`
	Call int64   `json:"call,omitempty"`
	Rd   *string `json:"rd,omitempty"`
	Wr   *string `json:"wr,omitempty"`
	// stuck / final / start
	First     *snapshot        `json:"first,omitempty"`
	Second    *snapshot        `json:"second,omitempty"`
	Reason    string           `json:"reason,omitempty"`
	Quiet     bool             `json:"quiet,omitempty"`
	Snap      *snapshot        `json:"snap,omitempty"`
	Faults    map[string]int64 `json:"faults,omitempty"`
	RunErrors []string         `json:"run_errors,omitempty"`
	What      string           `json:"what,omitempty"`
}

func readEvents(path string) (evs []Event, complete bool, err error) {
	f, err := os.Open(path)
	if err != nil {
		return nil, false, err
	}
	defer f.Close()
	sc := bufio.NewScanner(f)
	sc.Buffer(make([]byte, 1<<20), 1<<28)
	for sc.Scan() {
		line := strings.TrimSpace(sc.Text())
		if line == "" {
			continue
		}
		var e Event
		if json.Unmarshal([]byte(line), &e) != nil {
			continue // torn last line
		}
		if e.Kind == "end" {
			complete = true
			continue
		}
		evs = append(evs, e)
	}
	return evs, complete, sc.Err()
}

type Finding struct {
	Key     string `json:"key"`
	Desc    string `json:"desc"`
	Details any    `json:"details"`
}

// Stats is what one analysed run contributes to the evidence.
type Stats struct {
	Reason         string         `json:"reason"`
	Requests       map[string]int `json:"requests"` // by type/outcome
	Installs       int            `json:"installs"`
	Wins           int            `json:"wins"`
	MaxVersion     int            `json:"max_version"`
	Sections       int            `json:"sections_committed"`
	WritersCommit  int            `json:"writers_that_committed"`
	AbortsReleased int            `json:"aborts_that_released"` // Abort processed by an acceptor holding that proposer's pre-commit
	Rejected       int            `json:"precommits_rejected"`
	Ignored        int            `json:"stale_ignored"`
	PreCommitCalls int64          `json:"precommit_calls"`
	Attempts       int64          `json:"attempts"`
	Faults         map[string]int64 `json:"faults,omitempty"`
	LinOps         int            `json:"lin_ops"`
	LinResult      string         `json:"lin_result"`
	WinnerSig      string         `json:"winner_sig"` // sequence of winners by version: the interleaving signature
	Inconclusive   string         `json:"inconclusive,omitempty"`
}

func sp(p *string) string {
	if p == nil {
		return "∅"
	}
	return *p
}

func initialString(workload string) string {
	if workload == "append" {
		return "<<>>"
	}
	return "0"
}

type regIn struct {
	Rd, Wr *string
}

var regModel = porcupine.Model{
	Init: func() interface{} { return "" },
	Step: func(state, input, output interface{}) (bool, interface{}) {
		st := state.(string)
		in := input.(regIn)
		if in.Rd != nil && *in.Rd != st {
			return false, st
		}
		if in.Wr != nil {
			return true, *in.Wr
		}
		return true, st
	},
	Equal: func(a, b interface{}) bool { return a.(string) == b.(string) },
	DescribeOperation: func(input, output interface{}) string {
		in := input.(regIn)
		return fmt.Sprintf("section(read %s, write %s)", sp(in.Rd), sp(in.Wr))
	},
}

type secRec struct {
	Sec  *Event
	Done *Event
	Win  *Event // the proposer's "commit" install event
}

func trimEvents(evs []Event, around []int64, radius int64) []Event {
	var out []Event
	for _, e := range evs {
		for _, a := range around {
			if e.TS >= a-radius && e.TS <= a+radius {
				out = append(out, e)
				break
			}
		}
	}
	return out
}

// causeOfHeld explains why acceptor `r` still holds an accepted pre-commit (prop, ver) at the end of evs.
func causeOfHeld(evs []Event, r string, prop string, ver int) (cause string, rel []Event) {
	acceptAt := -1
	for i := len(evs) - 1; i >= 0; i-- {
		e := &evs[i]
		if e.K == "req" && e.R == r && e.T == "PreCommit" && e.Acpt && e.A != nil && e.A.State == "acceptedPreCommit" && sp(e.A.Prop) == prop && e.A.Ver == ver && e.S == prop && e.V == ver &&
			(e.B.State != "acceptedPreCommit" || sp(e.B.Prop) != prop || e.B.Ver != ver || !e.Same) {
			acceptAt = i
			break
		}
	}
	if acceptAt < 0 {
		return "no-accept-event-found", nil
	}
	acc := evs[acceptAt]
	rel = append(rel, acc)
	for i := acceptAt + 1; i < len(evs); i++ {
		e := evs[i]
		if e.K == "req" && e.R == r && e.T == "Abort" && e.S == prop && e.V == ver {
			rel = append(rel, e)
			if e.Same {
				return "abort-not-released:sender-identical", rel
			}
			return "abort-not-released:sender-equal-but-not-identical", rel
		}
	}
	for i := acceptAt - 1; i >= 0; i-- {
		e := evs[i]
		if e.K == "req" && e.R == r && e.T == "Abort" && e.S == prop && e.V == ver && e.ST > acc.ST {
			rel = append(rel, e)
			return "precommit-accepted-after-its-abort-was-processed", rel
		}
	}
	for _, e := range evs {
		if e.K == "inst" && e.How == "commit" && e.R == prop && e.QV == ver {
			rel = append(rel, e)
			return "commit-not-delivered", rel
		}
	}
	return "proposal-outcome-unknown", rel
}

func analyse(c Case, evs []Event) (fs []Finding, st Stats) {
	st.Requests = map[string]int{}
	add := func(key, desc string, details any) {
		for _, f := range fs {
			if f.Key == key {
				return // one witness per key and run is enough
			}
		}
		fs = append(fs, Finding{key, desc, details})
	}
	init := initialString(c.Workload)

	// ---- installs: agreement, monotonicity, winners --------------------------------------------------
	type vv struct {
		val string
		ev  Event
	}
	verVal := map[int]vv{0: {val: init}}
	lastVer := map[string]int{}
	winners := map[int][]Event{}
	record := func(ver int, val *string, e Event) {
		if val == nil {
			return
		}
		if old, ok := verVal[ver]; ok {
			if old.val != *val {
				add("C11:agreement:two-values-for-one-version",
					fmt.Sprintf("version %d was installed with value %s (by %s) and with value %s (by %s)", ver, old.val, old.ev.R, *val, e.R),
					map[string]any{"version": ver, "first": old.ev, "second": e})
			}
			return
		}
		verVal[ver] = vv{*val, e}
	}
	for _, e := range evs {
		if e.K != "inst" {
			continue
		}
		st.Installs++
		switch e.How {
		case "accept":
			if e.Ver != e.QV || !e.ValEq {
				add("C11:accept-did-not-install-what-was-sent",
					fmt.Sprintf("replica %s was asked to install version %d value %s and ended at version %d value %s", e.R, e.QV, sp(e.QVal), e.Ver, sp(e.Val)), e)
			}
			if e.Ver <= lastVer[e.R] || e.Ver <= e.PV {
				add("C11:version-not-increasing:accept",
					fmt.Sprintf("replica %s: version after accepting a value is %d, before it was %d", e.R, e.Ver, max(lastVer[e.R], e.PV)), e)
			}
			record(e.Ver, e.Val, e)
			lastVer[e.R] = max(lastVer[e.R], e.Ver)
		case "commit":
			st.Wins++
			winners[e.QV] = append(winners[e.QV], e)
			record(e.QV, e.QVal, e)
			if e.Ver < e.QV || e.Ver < lastVer[e.R] {
				add("C11:version-not-increasing:commit",
					fmt.Sprintf("proposer %s finished the commit of version %d with its own version at %d (before: %d)", e.R, e.QV, e.Ver, e.PV), e)
			} else if e.Ver == e.QV && !e.ValEq {
				add("C11:agreement:proposer-installed-other-value",
					fmt.Sprintf("proposer %s won version %d with %s but holds %s for it", e.R, e.QV, sp(e.QVal), sp(e.Val)), e)
			}
			lastVer[e.R] = max(lastVer[e.R], e.Ver)
		}
		if e.Ver > st.MaxVersion {
			st.MaxVersion = e.Ver
		}
	}
	var wvers []int
	for v, ws := range winners {
		wvers = append(wvers, v)
		if len(ws) > 1 {
			key := "C11:two-winners-for-one-version"
			if ws[0].R == ws[1].R {
				key = "C11:same-proposer-won-one-version-twice"
			}
			add(key, fmt.Sprintf("version %d was won by %s (value %s) and by %s (value %s)", v, ws[0].R, sp(ws[0].QVal), ws[1].R, sp(ws[1].QVal)),
				map[string]any{"version": v, "wins": ws, "requests_for_version": reqsForVersion(evs, v)})
		}
	}
	sort.Ints(wvers)
	var sig strings.Builder
	for _, v := range wvers {
		sig.WriteString(strings.TrimPrefix(winners[v][0].R, "\"node"))
	}
	st.WinnerSig = strings.ReplaceAll(sig.String(), "\"", "")

	// ---- requests: per-message structural oracle -----------------------------------------------------
	for _, e := range evs {
		switch e.K {
		case "ign":
			st.Ignored++
		case "req":
			out := "rejected"
			if e.Acpt {
				out = "accepted"
			}
			st.Requests[e.T+":"+out]++
			if e.T == "PreCommit" && !e.Acpt {
				st.Rejected++
			}
			if e.T == "Abort" && e.Acpt && e.B != nil && e.A != nil && e.B.State == "acceptedPreCommit" && e.Eq && e.B.Ver == e.V {
				if e.A.State == "initial" {
					st.AbortsReleased++
				} else {
					how := "sender-equal-but-not-identical"
					if e.Same {
						how = "sender-identical"
					}
					add("C11:abort-not-released:"+how,
						fmt.Sprintf("replica %s held an accepted pre-commit of %s for version %d, processed %s's Abort for version %d and still holds it (code's own == on the sender: %v)", e.R, e.S, e.V, e.S, e.V, e.Same),
						map[string]any{"request": e, "transport": c.Transport})
				}
			}
		}
	}

	// ---- sections: stale read, committed value, linearizability ---------------------------------------
	pending := map[string]*secRec{}
	byWriter := map[int]*secRec{}
	var secs []*secRec
	writers := map[int]bool{}
	for i := range evs {
		e := &evs[i]
		switch e.K {
		case "sec":
			s := &secRec{Sec: e}
			secs = append(secs, s)
			pending[e.R] = s
			byWriter[e.W] = s
			writers[e.W] = true
		case "done":
			if s := byWriter[e.W]; s != nil && s.Done == nil {
				s.Done = e
			}
		case "inst":
			if e.How == "commit" {
				if s := pending[e.R]; s != nil && s.Win == nil {
					s.Win = e
				}
			}
		}
	}
	st.Sections = len(secs)
	st.WritersCommit = len(writers)
	if !c.Race {
		for _, s := range secs {
			if s.Win == nil {
				continue // stopped inside Commit
			}
			want := s.Sec.Wr
			if want == nil {
				want = s.Sec.Rd
			}
			if want != nil && sp(s.Win.QVal) != *want {
				add("C11:committed-value-is-not-what-the-section-wrote",
					fmt.Sprintf("section of %s read %s wrote %s, but its commit carried %s for version %d", s.Sec.R, sp(s.Sec.Rd), sp(s.Sec.Wr), sp(s.Win.QVal), s.Win.QV),
					map[string]any{"section": s.Sec, "win": s.Win})
			}
			if s.Sec.Rd != nil {
				if prev, ok := verVal[s.Win.QV-1]; ok && prev.val != *s.Sec.Rd {
					add("C11:stale-read-committed",
						fmt.Sprintf("section of %s read %s and committed as version %d, but version %d holds %s: the value it read had been overwritten before it committed", s.Sec.R, *s.Sec.Rd, s.Win.QV, s.Win.QV-1, prev.val),
						map[string]any{"section": s.Sec, "win": s.Win, "overwriting_install": prev.ev, "events_nearby": trimEvents(evs, []int64{s.Sec.Call, s.Win.TS}, 40)})
				}
			}
		}
	}
	var ops []porcupine.Operation
	maxTS := int64(0)
	for _, e := range evs {
		if e.TS > maxTS {
			maxTS = e.TS
		}
	}
	for _, s := range secs {
		ret := maxTS + 1
		if s.Done != nil {
			ret = s.Done.TS
		}
		ops = append(ops, porcupine.Operation{ClientId: s.Sec.W, Input: regIn{s.Sec.Rd, s.Sec.Wr}, Call: s.Sec.Call, Output: nil, Return: ret})
	}
	st.LinOps = len(ops)
	if len(ops) > 0 {
		m := regModel
		m.Init = func() interface{} { return init }
		res, _ := porcupine.CheckOperationsVerbose(m, ops, 20*time.Second)
		st.LinResult = string(res)
		switch res {
		case porcupine.Illegal:
			var hist []map[string]any
			for _, s := range secs {
				h := map[string]any{"writer": s.Sec.W, "call": s.Sec.Call, "read": s.Sec.Rd, "write": s.Sec.Wr}
				if s.Done != nil {
					h["return"] = s.Done.TS
				}
				if s.Win != nil {
					h["version"] = s.Win.QV
				}
				hist = append(hist, h)
			}
			add("C11:not-linearizable-as-one-copy",
				fmt.Sprintf("the %d committed sections cannot be ordered as operations on a single copy (read-then-write register, initial %s)", len(ops), init),
				map[string]any{"history": hist})
		case porcupine.Unknown:
			st.Inconclusive = "porcupine timeout"
		}
	}

	// ---- end of run ----------------------------------------------------------------------------------
	var fin *Event
	var stuck *Event
	for i := range evs {
		switch evs[i].K {
		case "final":
			fin = &evs[i]
		case "stuck":
			stuck = &evs[i]
		case "setup-failed":
			st.Inconclusive = "setup failed: " + evs[i].What
		}
	}
	if stuck != nil && stuck.Second != nil {
		causes := map[string]bool{}
		var detail []any
		blocked := 0
		for _, n := range stuck.Second.Nodes {
			if n.State != "acceptedPreCommit" {
				continue
			}
			cause, rel := causeOfHeld(evs, n.ID, fmt.Sprint(n.Prop), n.Ver)
			causes[cause] = true
			if n.Writer && !n.Done {
				blocked++
			}
			detail = append(detail, map[string]any{"replica": n.ID, "holds_precommit_of": n.Prop, "version": n.Ver, "cause": cause, "events": rel})
		}
		var cs []string
		for k := range causes {
			cs = append(cs, k)
		}
		sort.Strings(cs)
		if len(cs) == 0 {
			cs = []string{"no-precommit-held"}
		}
		add("C11:livelock:"+strings.Join(cs, "+"),
			fmt.Sprintf("fixpoint over %s transport, %d replicas: nothing in flight, no broadcast outstanding, every unfinished writer completed >= %d further attempts and not one request was sent; %d unfinished writers sit on a replica that holds an accepted pre-commit (a writer whose replica holds one aborts locally before proposing)", c.Transport, c.N, stuckAttempts, blocked),
			map[string]any{"first_snapshot": stuck.First, "second_snapshot": stuck.Second, "held": detail})
	}
	if fin == nil {
		if st.Inconclusive == "" {
			st.Inconclusive = "no final record"
		}
		return
	}
	st.Reason = fin.Reason
	st.Faults = fin.Faults
	if fin.Snap != nil {
		for _, n := range fin.Snap.Nodes {
			st.PreCommitCalls += n.PreC
			st.Attempts += n.Attempts
		}
	}
	if len(fin.RunErrors) > 0 {
		add("C11:archetype-run-returned-error", "ctx.Run returned an error: "+strings.Join(fin.RunErrors, "; "), fin.RunErrors)
	}
	switch fin.Reason {
	case "bound":
		st.Inconclusive = fmt.Sprintf("attempt bound exceeded (%d PreCommit calls > %d)", st.PreCommitCalls, c.MaxPreCommits)
	case "deadline":
		st.Inconclusive = "internal deadline"
	}
	if fin.Reason != "done" || !fin.Quiet || fin.Snap == nil {
		if fin.Reason == "done" && st.Inconclusive == "" {
			st.Inconclusive = "did not drain after completion"
		}
		return
	}
	// quiescent after every writer finished
	maxNode := 0
	for _, n := range fin.Snap.Nodes {
		if n.Node > maxNode {
			maxNode = n.Node
		}
	}
	if !c.Race {
		for _, n := range fin.Snap.Nodes {
			if want, ok := verVal[n.Node]; ok && fmt.Sprint(n.OldValue) != want.val {
				add("C11:final-state-disagrees-with-installed-version",
					fmt.Sprintf("replica %s rests at version %d with value %v, but version %d was installed as %s", n.ID, n.Node, n.OldValue, n.Node, want.val),
					map[string]any{"replica": n, "install": want.ev})
			}
		}
	}
	finalVal := ""
	for _, n := range fin.Snap.Nodes {
		if n.Node == maxNode {
			finalVal = fmt.Sprint(n.OldValue)
			break
		}
	}
	// expected final value from the committed sections
	sort.SliceStable(secs, func(i, j int) bool {
		if secs[i].Win != nil && secs[j].Win != nil {
			return secs[i].Win.QV < secs[j].Win.QV
		}
		return secs[i].Sec.TS < secs[j].Sec.TS
	})
	expect := ""
	switch c.Workload {
	case "incr", "shcounter":
		k := 0
		for _, s := range secs {
			if s.Sec.Wr != nil {
				k++
			}
		}
		expect = fmt.Sprint(k)
	case "append", "reg":
		expect = init
		for _, s := range secs {
			if s.Sec.Wr != nil {
				expect = *s.Sec.Wr
			}
		}
	}
	if c.Race {
		// no hook log: only counters are known; for incr/shcounter the count is still exact
		if c.Workload != "incr" && c.Workload != "shcounter" {
			expect = finalVal
		}
	}
	if finalVal != expect {
		add("C11:final-value-differs-from-committed-sections:"+c.Workload,
			fmt.Sprintf("after all writers finished the newest replica state (version %d) holds %s; the committed sections give %s", maxNode, finalVal, expect),
			map[string]any{"final": fin.Snap, "committed_sections": len(secs)})
	}
	// residue: with no injected error every Commit and Abort was delivered once to every replica, so no
	// replica may still hold an accepted pre-commit once everything has drained
	if !c.Race && fin.Snap.Errors == 0 {
		for _, n := range fin.Snap.Nodes {
			if n.State != "acceptedPreCommit" {
				continue
			}
			cause, rel := causeOfHeld(evs, n.ID, fmt.Sprint(n.Prop), n.Ver)
			if strings.HasPrefix(cause, "abort-not-released") {
				continue // reported by the per-message oracle
			}
			add("C11:precommit-still-held-at-quiescence:"+cause,
				fmt.Sprintf("all writers finished, nothing in flight, no transport error was ever injected, yet replica %s still holds an accepted pre-commit of %v for version %d (%s)", n.ID, n.Prop, n.Ver, cause),
				map[string]any{"replica": n, "events": rel})
		}
	}
	return
}

func reqsForVersion(evs []Event, v int) []Event {
	var out []Event
	for _, e := range evs {
		if e.K == "req" && e.V == v && len(out) < 80 {
			out = append(out, e)
		}
	}
	return out
}

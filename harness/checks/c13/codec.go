package main

import (
	"bytes"
	"encoding/gob"
	"fmt"
	"sort"
	"strconv"

	"github.com/DistCompiler/pgo/distsys/resources"
	"github.com/DistCompiler/pgo/distsys/tla"
)

// Payload is the harness-side picture of one CRDT state (a broadcast payload, a reply, a merged value).
// GCounter: G[node] = that node's partial count. AWORSet: A = elements in the add map, R = elements in the
// remove map (vector clocks are not needed by the oracle: the workload never issues concurrent operations on
// one element).
type Payload struct {
	G   map[string]int64 `json:"g,omitempty"`
	A   []int            `json:"a,omitempty"`
	R   []int            `json:"r,omitempty"`
	Err string           `json:"err,omitempty"`
}

func encodeValue(v resources.CRDTValue) *Payload {
	switch x := v.(type) {
	case nil:
		return nil
	case resources.GCounter:
		p := &Payload{G: map[string]int64{}}
		if x.Map == nil {
			return p
		}
		it := x.Iterator()
		for !it.Done() {
			k, c, _ := it.Next()
			p.G[strconv.Itoa(int(k.AsNumber()))] = int64(c)
		}
		return p
	case resources.AWORSet:
		buf, err := x.GobEncode()
		if err != nil {
			return &Payload{Err: err.Error()}
		}
		var maps resources.AddRemMaps
		if err := gob.NewDecoder(bytes.NewReader(buf)).Decode(&maps); err != nil {
			return &Payload{Err: err.Error()}
		}
		p := &Payload{A: []int{}, R: []int{}}
		for _, kv := range maps.AddMap {
			p.A = append(p.A, int(kv.K.AsNumber()))
		}
		for _, kv := range maps.RemMap {
			p.R = append(p.R, int(kv.K.AsNumber()))
		}
		sort.Ints(p.A)
		sort.Ints(p.R)
		return p
	default:
		return &Payload{Err: fmt.Sprintf("unknown CRDT value type %T", v)}
	}
}

// ReadObs is what a ReadValue returned: a number (GCounter) or a set of numbers (AWORSet).
type ReadObs struct {
	Num *int64 `json:"num,omitempty"`
	Set []int  `json:"set,omitempty"`
	Err string `json:"err,omitempty"`
}

func encodeRead(v tla.Value) (r *ReadObs) {
	defer func() {
		if e := recover(); e != nil {
			r = &ReadObs{Err: fmt.Sprint(e)}
		}
	}()
	v = v.StripVClock()
	if v.IsNumber() {
		n := int64(v.AsNumber())
		return &ReadObs{Num: &n}
	}
	if v.IsSet() {
		out := []int{}
		it := v.AsSet().Iterator()
		for !it.Done() {
			e, _, _ := it.Next()
			out = append(out, int(e.AsNumber()))
		}
		sort.Ints(out)
		return &ReadObs{Set: out}
	}
	return &ReadObs{Err: "unexpected read value " + v.String()}
}

// Upd is one planned update of a section.
type Upd struct {
	Op  string `json:"op"`  // inc | add | rem
	Arg int    `json:"arg"` // increment, or the element
}

func (u Upd) value() tla.Value {
	switch u.Op {
	case "inc":
		return tla.MakeNumber(int32(u.Arg))
	case "add", "rem":
		cmd := int32(1)
		if u.Op == "rem" {
			cmd = 2
		}
		return tla.MakeRecord([]tla.RecordField{
			{Key: tla.MakeString("cmd"), Value: tla.MakeNumber(cmd)},
			{Key: tla.MakeString("elem"), Value: tla.MakeNumber(int32(u.Arg))},
		})
	}
	panic("bad update op " + u.Op)
}

// updateID names the update a written value stands for. coding: "bit" (GCounter increments are distinct powers
// of two, one per write of the whole run), "unit" (increments of 1: the oracle numbers them), "elem" (AWORSet
// add/remove of a run-unique element).
func updateID(coding string, v tla.Value) (id string) {
	defer func() {
		if e := recover(); e != nil {
			id = "?" + fmt.Sprint(e)
		}
	}()
	v = v.StripVClock()
	switch coding {
	case "bit":
		n := v.AsNumber()
		for b := 0; b < 31; b++ {
			if n == int32(1)<<b {
				return "b" + strconv.Itoa(b)
			}
		}
		return "?" + v.String()
	case "unit":
		return ""
	case "elem":
		f := v.AsFunction()
		cmd, _ := f.Get(tla.MakeString("cmd"))
		elem, _ := f.Get(tla.MakeString("elem"))
		if cmd.AsNumber() == 1 {
			return "A" + strconv.Itoa(int(elem.AsNumber()))
		}
		return "R" + strconv.Itoa(int(elem.AsNumber()))
	}
	return "?"
}
